import AFModel.IdentComp

/-! Lemmas for C07: the reflection of a composition (`AFModel/IdentComp.lean`) and its closed-form tokens. -/

namespace AF.IdentComp
open AF

theorem metaFields_skipped (keep : String → Bool) (m : Meta) (rest : List (String × PyVal)) :
    tokensFields keep (m.fields ++ rest) = tokensFields keep rest := by
  simp [Meta.fields, tokensFields, skipKey]

theorem tokensList_natVals (l : List Nat) : tokensList (natVals l) = natTokens l := by
  induction l with
  | nil => simp [natVals, natTokens, tokensList]
  | cons a l ih => simp_all [natVals, natTokens, tokensList, tokens]

theorem tokensList_indices (ix : List (List Nat)) :
    tokensList (ix.map (fun i => PyVal.iter (natVals i))) = indexTokens ix := by
  induction ix with
  | nil => simp [indexTokens, tokensList]
  | cons a l ih => simp [indexTokens, tokensList, tokens, tokensList_natVals, ih]

theorem tokens_priorIdFields (k : PriorKind) (lo hi mean sigma : UInt64) :
    tokensFields (fun _ => true) (priorIdFields k lo hi mean sigma) = priorTokens k lo hi mean sigma := by
  cases k <;> simp [priorIdFields, priorTokens, PriorKind.hasMeanSigma, tokensFields, tokens, skipKey]

theorem keepField_mo (ctor : List String) (ex : Option (List String)) : keepField true ctor ex = fun _ => true := by
  funext k; simp [keepField]

theorem skip_left_name : skipKey "_left_name" = true := by simp [skipKey]
theorem skip_right_name : skipKey "_right_name" = true := by simp [skipKey]
theorem skip_left : skipKey "_left" = true := by simp [skipKey]
theorem skip_right : skipKey "_right" = true := by simp [skipKey]
theorem skip_prior_name : skipKey "_prior_name" = true := by simp [skipKey]

theorem arithPrivate_skipped (keep : String → Bool) (a b c d : PyVal) (rest : List (String × PyVal)) :
    tokensFields keep (("_left_name", a) :: ("_right_name", b) :: ("_left", c) :: ("_right", d) :: rest)
      = tokensFields keep rest := by
  simp [tokensFields, skipKey]

theorem modifPrivate_skipped (keep : String → Bool) (a : PyVal) (rest : List (String × PyVal)) :
    tokensFields keep (("_prior_name", a) :: rest) = tokensFields keep rest := by
  simp [tokensFields, skipKey]

mutual
theorem tokens_reflect : ∀ (t : CNode), tokens (reflect t) = ctokens t
  | .prior m k lo hi mean sigma => by
      simp [reflect, tokens, ctokens, tokens_priorIdFields]
  | .flt b => by simp [reflect, tokens, ctokens]
  | .int i => by simp [reflect, tokens, ctokens]
  | .bool b => by simp [reflect, tokens, ctokens]
  | .str s => by simp [reflect, tokens, ctokens]
  | .none => by simp [reflect, tokens, ctokens]
  | .model m path attrs => by
      have ih := tokensFields_reflectAttrs (fun _ => true) attrs
      simp [reflect, tokens, ctokens, metaFields_skipped, keepField_mo, tokensFields, skipKey, ih]
  | .coll m n attrs => by
      have ih := tokensFields_reflectAttrs (fun _ => true) attrs
      simp [reflect, tokens, ctokens, metaFields_skipped, keepField_mo, tokensFields, skipKey, ih]
  | .tuple m attrs => by
      have ih := tokensFields_reflectAttrs (fun _ => true) attrs
      simp [reflect, tokens, ctokens, metaFields_skipped, keepField_mo, ih]
  | .arith m op ln rn l r => by
      have ihl := tokens_reflect l
      have ihr := tokens_reflect r
      by_cases h : ln = rn
      · subst h
        cases hs : skipKey ln <;>
          simp [reflect, tokens, ctokens, metaFields_skipped, keepField_mo, skip_left_name, skip_right_name, skip_left, skip_right, tokensFields, ihr, hs]
      · cases hl : skipKey ln <;> cases hr : skipKey rn <;>
          simp [reflect, tokens, ctokens, metaFields_skipped, keepField_mo, skip_left_name, skip_right_name, skip_left, skip_right, tokensFields, h, ihl, ihr, hl, hr]
  | .modif m op name x => by
      have ih := tokens_reflect x
      cases hs : skipKey name <;>
        simp [reflect, tokens, ctokens, metaFields_skipped, keepField_mo, skip_prior_name, tokensFields, ih, hs]
  | .array m shape indices attrs => by
      have ih := tokensFields_reflectAttrs (fun _ => true) attrs
      simp [reflect, tokens, ctokens, metaFields_skipped, keepField_mo, tokensFields, skipKey, ih,
        tokensList_natVals, tokensList_indices]
  | .inst cls ctor d => by
      have ih := tokensFields_reflectAttrs (keepField false ctor none) d
      simp [reflect, tokens, ctokens, ih]
  | .minst m attrs => by
      have ih := tokensFields_reflectAttrs (fun _ => true) attrs
      simp [reflect, tokens, ctokens, metaFields_skipped, keepField_mo, ih]
  | .seq items => by
      have ih := tokensList_reflectList items
      simp [reflect, tokens, ctokens, ih]
theorem tokensFields_reflectAttrs : ∀ (keep : String → Bool) (attrs : List (String × CNode)),
    tokensFields keep (reflectAttrs attrs) = ctokensAttrs keep attrs
  | _, [] => by simp [reflectAttrs, tokensFields, ctokensAttrs]
  | keep, (k, v) :: rest => by
      have ih := tokensFields_reflectAttrs keep rest
      have ihv := tokens_reflect v
      simp [reflectAttrs, tokensFields, ctokensAttrs, ih, ihv]
theorem tokensList_reflectList : ∀ (l : List CNode), tokensList (reflectList l) = ctokensList l
  | [] => by simp [reflectList, tokensList, ctokensList]
  | v :: rest => by
      have ih := tokensList_reflectList rest
      have ihv := tokens_reflect v
      simp [reflectList, tokensList, ctokensList, ih, ihv]
end

/-! ### ctokens does not see `Meta` -/

mutual
theorem ctokens_mapMeta (f : Meta → Meta) : ∀ (t : CNode), ctokens (t.mapMeta f) = ctokens t
  | .prior m k lo hi mean sigma => by simp [CNode.mapMeta, ctokens]
  | .flt b => by simp [CNode.mapMeta]
  | .int i => by simp [CNode.mapMeta]
  | .bool b => by simp [CNode.mapMeta]
  | .str s => by simp [CNode.mapMeta]
  | .none => by simp [CNode.mapMeta]
  | .model m path attrs => by simp [CNode.mapMeta, ctokens, ctokensAttrs_mapMeta f _ attrs]
  | .coll m n attrs => by simp [CNode.mapMeta, ctokens, ctokensAttrs_mapMeta f _ attrs]
  | .tuple m attrs => by simp [CNode.mapMeta, ctokens, ctokensAttrs_mapMeta f _ attrs]
  | .arith m op ln rn l r => by simp [CNode.mapMeta, ctokens, ctokens_mapMeta f l, ctokens_mapMeta f r]
  | .modif m op name x => by simp [CNode.mapMeta, ctokens, ctokens_mapMeta f x]
  | .array m shape indices attrs => by simp [CNode.mapMeta, ctokens, ctokensAttrs_mapMeta f _ attrs]
  | .inst cls ctor d => by simp [CNode.mapMeta, ctokens, ctokensAttrs_mapMeta f _ d]
  | .minst m attrs => by simp [CNode.mapMeta, ctokens, ctokensAttrs_mapMeta f _ attrs]
  | .seq items => by simp [CNode.mapMeta, ctokens, ctokensList_mapMeta f items]
theorem ctokensAttrs_mapMeta (f : Meta → Meta) : ∀ (keep : String → Bool) (attrs : List (String × CNode)),
    ctokensAttrs keep (mapMetaAttrs f attrs) = ctokensAttrs keep attrs
  | _, [] => by simp [mapMetaAttrs]
  | keep, (k, v) :: rest => by
      simp [mapMetaAttrs, ctokensAttrs, ctokensAttrs_mapMeta f keep rest, ctokens_mapMeta f v]
theorem ctokensList_mapMeta (f : Meta → Meta) : ∀ (l : List CNode), ctokensList (mapMetaList f l) = ctokensList l
  | [] => by simp [mapMetaList]
  | v :: rest => by simp [mapMetaList, ctokensList, ctokensList_mapMeta f rest, ctokens_mapMeta f v]
end

/-! ### appending -/

theorem ctokensAttrs_append (keep) : ∀ (a b : List (String × CNode)),
    ctokensAttrs keep (a ++ b) = ctokensAttrs keep a ++ ctokensAttrs keep b
  | [], b => by simp [ctokensAttrs]
  | (k, v) :: a, b => by
    simp only [List.cons_append, ctokensAttrs, ctokensAttrs_append keep a b, List.append_assoc]

theorem ctokensList_append : ∀ (a b : List CNode), ctokensList (a ++ b) = ctokensList a ++ ctokensList b
  | [], b => by simp [ctokensList]
  | v :: a, b => by simp only [List.cons_append, ctokensList, ctokensList_append a b, List.append_assoc]

/-- a different value at a visible attribute -/
theorem cattrs_sensitive (keep) (pre post : List (String × CNode)) (k : String) (v w : CNode)
    (hk : keep k = true) (hs : skipKey k = false) (h : ctokens v ≠ ctokens w) :
    ctokensAttrs keep (pre ++ (k, v) :: post) ≠ ctokensAttrs keep (pre ++ (k, w) :: post) := by
  intro he
  simp only [ctokensAttrs_append, ctokensAttrs, hk, hs, Bool.not_false, Bool.and_self, if_true,
    List.cons_append] at he
  have h1 := List.append_cancel_left he
  simp only [List.cons.injEq, true_and] at h1
  exact h (List.append_cancel_right h1)

/-- a different name for a visible attribute -/
theorem cattrs_name_sensitive (keep) (pre post : List (String × CNode)) (k j : String) (v : CNode)
    (hk : keep k = true) (hs : skipKey k = false) (hj : keep j = true) (hsj : skipKey j = false) (h : k ≠ j) :
    ctokensAttrs keep (pre ++ (k, v) :: post) ≠ ctokensAttrs keep (pre ++ (j, v) :: post) := by
  intro he
  simp only [ctokensAttrs_append, ctokensAttrs, hk, hs, hj, hsj, Bool.not_false, Bool.and_self, if_true,
    List.cons_append] at he
  have h1 := List.append_cancel_left he
  simp only [List.cons.injEq] at h1
  exact h h1.1

theorem cstep_sensitive (s : CStep) (hv : s.visible) (v w : CNode) (h : ctokens v ≠ ctokens w) :
    ctokens (s.plug v) ≠ ctokens (s.plug w) := by
  cases s with
  | modelAttr m path pre k post =>
    simp only [CStep.plug, ctokens, ne_eq, List.cons.injEq, true_and]
    exact cattrs_sensitive _ pre post k v w rfl hv h
  | collAttr m n pre k post =>
    simp only [CStep.plug, ctokens, ne_eq, List.cons.injEq, true_and]
    exact cattrs_sensitive _ pre post k v w rfl hv h
  | tupleAttr m pre k post =>
    simp only [CStep.plug, ctokens, ne_eq, List.cons.injEq, true_and]
    exact cattrs_sensitive _ pre post k v w rfl hv h
  | arrayAttr m sh ix pre k post =>
    simp only [CStep.plug, ctokens, ne_eq, List.cons.injEq, true_and]
    intro he
    have h1 := List.append_cancel_left he
    simp only [List.cons.injEq, true_and] at h1
    exact cattrs_sensitive _ pre post k v w rfl hv h (List.append_cancel_left h1)
  | instAttr cls ctor pre k post =>
    simp only [CStep.plug, ctokens, ne_eq, List.cons.injEq, true_and]
    exact cattrs_sensitive _ pre post k v w hv.1 hv.2 h
  | minstAttr m pre k post =>
    simp only [CStep.plug, ctokens, ne_eq, List.cons.injEq, true_and]
    exact cattrs_sensitive _ pre post k v w rfl hv h
  | arithLeft m op ln rn r =>
    obtain ⟨hne, hs⟩ := hv
    simp only [CStep.plug, ctokens, hne, hs, if_false, ne_eq, List.cons.injEq, true_and, Bool.false_eq_true,
      List.cons_append]
    intro he
    exact h (List.append_cancel_right he)
  | arithRight m op ln rn l =>
    simp only [CStep.visible] at hv
    by_cases hne : ln = rn
    · simp only [CStep.plug, ctokens, hne, hv, if_true, if_false, ne_eq, List.cons.injEq, true_and, Bool.false_eq_true]
      exact h
    · simp only [CStep.plug, ctokens, hne, hv, if_false, ne_eq, List.cons.injEq, true_and, Bool.false_eq_true]
      intro he
      have h1 := List.append_cancel_left he
      simp only [List.cons.injEq, true_and] at h1
      exact h h1
  | modifArg m op name =>
    simp only [CStep.visible] at hv
    simp only [CStep.plug, ctokens, hv, if_false, ne_eq, List.cons.injEq, true_and, Bool.false_eq_true]
    exact h
  | seqElem pre post =>
    simp only [CStep.plug, ctokens, ctokensList_append, ctokensList, ne_eq]
    intro he
    exact h (List.append_cancel_right (List.append_cancel_left he))

end AF.IdentComp
