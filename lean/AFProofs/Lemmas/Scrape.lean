import AFModel.Scrape

/-! Helper lemmas for `AFProofs/C11.lean` (core Lean only). -/

namespace AF.Scrape

/-- the order facts the "highest likelihood" clauses need: `lt` is a strict weak order (irreflexive,
transitive, incomparability transitive). IEEE `<` on non-NaN doubles is one (`-0.0` and `0.0` are
incomparable), as is `<` on `Int`/`Rat`. -/
structure StrictWeak {V : Type} (lt : V → V → Bool) : Prop where
  irrefl : ∀ a, lt a a = false
  trans : ∀ a b c, lt a b = true → lt b c = true → lt a c = true
  /-- negative transitivity -/
  ntrans : ∀ a b c, lt a b = false → lt b c = false → lt a c = false

section firstMax
variable {V α : Type} {lt : V → V → Bool} {key : α → V}

/-- if `a` is not below `b` and `a` is below `c` then `b` is below `c` -/
theorem StrictWeak.lt_of_nlt_of_lt (h : StrictWeak lt) {a b c : V}
    (hab : lt a b = false) (hac : lt a c = true) : lt b c = true := by
  cases hbc : lt b c with
  | true => rfl
  | false => have := h.ntrans a b c hab hbc; simp [hac] at this

theorem StrictWeak.asymm (h : StrictWeak lt) {a b : V} (hab : lt a b = true) : lt b a = false := by
  cases hba : lt b a with
  | false => rfl
  | true => have := h.trans a b a hab hba; simp [h.irrefl] at this

/-- `firstMaxFrom` returns the first maximum: everything before it is strictly below it, nothing after
it is strictly above it -/
theorem firstMaxFrom_spec (h : StrictWeak lt) (l : List α) (best : α) :
    ∃ pre post, best :: l = pre ++ firstMaxFrom lt key best l :: post ∧
      (∀ y ∈ pre, lt (key y) (key (firstMaxFrom lt key best l)) = true) ∧
      (∀ y ∈ post, lt (key (firstMaxFrom lt key best l)) (key y) = false) := by
  induction l generalizing best with
  | nil => exact ⟨[], [], by simp [firstMaxFrom]⟩
  | cons x rest ih =>
    unfold firstMaxFrom
    by_cases hbx : lt (key best) (key x) = true
    · simp only [hbx, if_true]
      obtain ⟨pre, post, heq, hpre, hpost⟩ := ih x
      refine ⟨best :: pre, post, by rw [heq]; rfl, ?_, hpost⟩
      intro y hy
      rcases List.mem_cons.1 hy with rfl | hy
      · cases pre with
        | nil =>
          simp only [List.nil_append, List.cons.injEq] at heq
          rw [← heq.1]; exact hbx
        | cons p pre' =>
          simp only [List.cons_append, List.cons.injEq] at heq
          have := hpre p (List.mem_cons_self ..)
          rw [← heq.1] at this
          exact h.trans _ _ _ hbx this
      · exact hpre y hy
    · have hbx' : lt (key best) (key x) = false := by simpa using hbx
      simp only [hbx', Bool.false_eq_true, if_false]
      obtain ⟨pre, post, heq, hpre, hpost⟩ := ih best
      cases pre with
      | nil =>
        simp only [List.nil_append, List.cons.injEq] at heq
        refine ⟨[], x :: rest, by rw [← heq.1]; rfl, by simp, ?_⟩
        intro y hy
        rcases List.mem_cons.1 hy with rfl | hy
        · rw [← heq.1]; exact hbx'
        · exact hpost y (heq.2 ▸ hy)
      | cons p pre' =>
        simp only [List.cons_append, List.cons.injEq] at heq
        refine ⟨best :: x :: pre', post, by rw [List.cons_append, List.cons_append, ← heq.2], ?_, hpost⟩
        intro y hy
        have hbr : lt (key best) (key (firstMaxFrom lt key best rest)) = true := by
          have := hpre p (List.mem_cons_self ..)
          rwa [← heq.1] at this
        rcases List.mem_cons.1 hy with rfl | hy
        · exact hbr
        rcases List.mem_cons.1 hy with rfl | hy
        · exact h.lt_of_nlt_of_lt hbx' hbr
        · exact hpre y (List.mem_cons_of_mem _ hy)

theorem firstMaxFrom_mem (l : List α) (best : α) : firstMaxFrom lt key best l ∈ best :: l := by
  induction l generalizing best with
  | nil => simp [firstMaxFrom]
  | cons x rest ih =>
    unfold firstMaxFrom
    split
    · exact List.mem_cons_of_mem _ (ih x)
    · rcases List.mem_cons.1 (ih best) with h | h
      · rw [h]; exact List.mem_cons_self ..
      · exact List.mem_cons_of_mem _ (List.mem_cons_of_mem _ h)

/-- nothing in the list is strictly above the result -/
theorem firstMaxFrom_max (h : StrictWeak lt) (l : List α) (best : α) :
    ∀ y ∈ best :: l, lt (key (firstMaxFrom lt key best l)) (key y) = false := by
  obtain ⟨pre, post, heq, hpre, hpost⟩ := firstMaxFrom_spec (key := key) h l best
  intro y hy
  rw [heq] at hy
  rcases List.mem_append.1 hy with hy | hy
  · exact h.asymm (hpre y hy)
  rcases List.mem_cons.1 hy with rfl | hy
  · exact h.irrefl _
  · exact hpost y hy

end firstMax

/-! ### `addFits` -/

section addFits
variable {V : Type} {lt : V → V → Bool}

@[simp] theorem Row.refresh_id (r : Row V) (it : Item V) : (r.refresh it).id = r.id := rfl

@[simp] theorem Row.ofItem_id (it : Item V) : (Row.ofItem lt it).id = it.id := rfl

theorem any_id_iff (db : List (Row V)) (x : String) :
    (db.any fun r => r.id == x) = true ↔ x ∈ db.map (·.id) := by
  simp only [List.any_eq_true, beq_iff_eq, List.mem_map]

theorem addFit_ids (db : List (Row V)) (it : Item V) :
    (addFit lt db it).map (·.id) =
      if it.id ∈ db.map (·.id) then db.map (·.id) else db.map (·.id) ++ [it.id] := by
  unfold addFit
  by_cases h : (db.any fun r => r.id == it.id) = true
  · have h' := (any_id_iff db it.id).1 h
    simp only [h, if_true, h']
    rw [List.map_map]
    apply List.map_congr_left
    intro r _
    simp only [Function.comp]
    split <;> rfl
  · have h' : ¬ it.id ∈ db.map (·.id) := fun hm => h ((any_id_iff db it.id).2 hm)
    have hf : (db.any fun r => r.id == it.id) = false := by simpa using h
    simp [hf, h']

theorem addFit_nodup (db : List (Row V)) (it : Item V) (h : (db.map (·.id)).Nodup) :
    ((addFit lt db it).map (·.id)).Nodup := by
  rw [addFit_ids]
  split
  · exact h
  · rename_i hn
    exact List.nodup_append.2 ⟨h, by simp, by
      intro a ha b hb; rcases List.mem_singleton.1 hb with rfl; intro e; exact hn (e ▸ ha)⟩

theorem addFit_mem_ids (db : List (Row V)) (it : Item V) (x : String) :
    x ∈ (addFit lt db it).map (·.id) ↔ x ∈ db.map (·.id) ∨ x = it.id := by
  rw [addFit_ids]
  split
  · rename_i h
    constructor
    · exact Or.inl
    · rintro (h' | rfl); exact h'; exact h
  · simp

theorem addFits_nodup (items : List (Item V)) (db : List (Row V)) (h : (db.map (·.id)).Nodup) :
    ((addFits lt db items).map (·.id)).Nodup := by
  induction items generalizing db with
  | nil => exact h
  | cons it rest ih => exact ih _ (addFit_nodup db it h)

theorem addFits_mem_ids (items : List (Item V)) (db : List (Row V)) (x : String) :
    x ∈ (addFits lt db items).map (·.id) ↔ x ∈ db.map (·.id) ∨ x ∈ items.map Item.id := by
  induction items generalizing db with
  | nil => simp [addFits]
  | cons it rest ih =>
    show x ∈ (addFits lt (addFit lt db it) rest).map (·.id) ↔ _
    rw [ih, addFit_mem_ids]
    simp only [List.map_cons, List.mem_cons]
    constructor
    · rintro ((h | h) | h)
      · exact Or.inl h
      · exact Or.inr (Or.inl h)
      · exact Or.inr (Or.inr h)
    · rintro (h | h | h)
      · exact Or.inl (Or.inl h)
      · exact Or.inl (Or.inr h)
      · exact Or.inr h

/-- on a database that holds none of them, items with pairwise distinct ids become one new row
each, in order -/
theorem addFits_fresh (items : List (Item V)) (db : List (Row V))
    (hnd : (items.map Item.id).Nodup) (hfresh : ∀ it ∈ items, it.id ∉ db.map (·.id)) :
    addFits lt db items = db ++ items.map (Row.ofItem lt) := by
  induction items generalizing db with
  | nil => simp [addFits]
  | cons it rest ih =>
    show addFits lt (addFit lt db it) rest = _
    have hit : ¬ it.id ∈ db.map (·.id) := hfresh it (List.mem_cons_self ..)
    have hstep : addFit lt db it = db ++ [Row.ofItem lt it] := by
      unfold addFit
      have : (db.any fun r => r.id == it.id) = false := by
        cases hh : (db.any fun r => r.id == it.id) with
        | false => rfl
        | true => exact absurd ((any_id_iff db it.id).1 hh) hit
      simp [this]
    rw [hstep, ih]
    · simp
    · exact (List.nodup_cons.1 hnd).2
    · intro it' hit'
      simp only [List.map_append, List.map_cons, List.map_nil, List.mem_append, List.mem_singleton,
        Row.ofItem_id, not_or]
      refine ⟨hfresh it' (List.mem_cons_of_mem _ hit'), ?_⟩
      intro e
      exact (List.nodup_cons.1 hnd).1 (e ▸ List.mem_map_of_mem hit')

end addFits

/-! ### `addGrids` -/

section addGrids
variable {V : Type}

/-- what appending to `parent.children` does to one row -/
def reparent (cfg : Cfg) (outs : List (Item V)) (g : Item V) (r : Row V) : Row V :=
  if (gridChildIds outs g).contains r.id then { r with parent := some (gridId cfg g) } else r

def reparentAll (cfg : Cfg) (outs : List (Item V)) (gs : List (Item V)) (r : Row V) : Row V :=
  gs.foldl (fun r g => reparent cfg outs g r) r

/-- the parent rows, each re-parented by the grids added after it -/
def gridRowsAfter (cfg : Cfg) (outs : List (Item V)) : List (Item V) → List (Row V)
  | [] => []
  | g :: gs => reparentAll cfg outs gs (gridRow cfg g) :: gridRowsAfter cfg outs gs

theorem reparent_pos (cfg : Cfg) (outs : List (Item V)) (g : Item V) (r : Row V)
    (h : r.id ∈ gridChildIds outs g) :
    reparent cfg outs g r = { r with parent := some (gridId cfg g) } := by
  unfold reparent
  rw [if_pos (List.contains_iff_mem.2 h)]

theorem reparent_neg (cfg : Cfg) (outs : List (Item V)) (g : Item V) (r : Row V)
    (h : r.id ∉ gridChildIds outs g) : reparent cfg outs g r = r := by
  unfold reparent
  rw [if_neg (fun hc => h (List.contains_iff_mem.1 hc))]

theorem addGrid_eq (cfg : Cfg) (outs : List (Item V)) (db : List (Row V)) (g : Item V) :
    addGrid cfg outs db g = db.map (reparent cfg outs g) ++ [gridRow cfg g] := rfl

theorem addGrids_eq (cfg : Cfg) (outs : List (Item V)) (gs : List (Item V)) (db : List (Row V)) :
    addGrids cfg outs db gs = db.map (reparentAll cfg outs gs) ++ gridRowsAfter cfg outs gs := by
  induction gs generalizing db with
  | nil => simp [addGrids, gridRowsAfter]; exact (List.map_id' db).symm
  | cons g gs ih =>
    show addGrids cfg outs (addGrid cfg outs db g) gs = _
    rw [ih, addGrid_eq]
    simp [reparentAll, gridRowsAfter, List.map_append]

@[simp] theorem reparent_id (cfg : Cfg) (outs : List (Item V)) (g : Item V) (r : Row V) :
    (reparent cfg outs g r).id = r.id := by
  unfold reparent; split <;> rfl

@[simp] theorem reparentAll_id (cfg : Cfg) (outs : List (Item V)) (gs : List (Item V)) (r : Row V) :
    (reparentAll cfg outs gs r).id = r.id := by
  induction gs generalizing r with
  | nil => rfl
  | cons g gs ih => show (reparentAll cfg outs gs (reparent cfg outs g r)).id = _; rw [ih, reparent_id]

/-- a row under none of the grids is left alone -/
theorem reparentAll_none (cfg : Cfg) (outs : List (Item V)) (gs : List (Item V)) (r : Row V)
    (h : ∀ g ∈ gs, r.id ∉ gridChildIds outs g) : reparentAll cfg outs gs r = r := by
  induction gs generalizing r with
  | nil => rfl
  | cons g gs ih =>
    show reparentAll cfg outs gs (reparent cfg outs g r) = r
    rw [reparent_neg cfg outs g r (h g (List.mem_cons_self ..))]
    exact ih r (fun g' hg' => h g' (List.mem_cons_of_mem _ hg'))

/-- a row under grids that all carry the id `p` ends with parent `p`, everything else unchanged -/
theorem reparentAll_some (cfg : Cfg) (outs : List (Item V)) (gs : List (Item V)) (r : Row V)
    (p : String) (hsame : ∀ g ∈ gs, r.id ∈ gridChildIds outs g → gridId cfg g = p)
    (hex : ∃ g ∈ gs, r.id ∈ gridChildIds outs g) :
    reparentAll cfg outs gs r = { r with parent := some p } := by
  induction gs generalizing r with
  | nil => obtain ⟨g, hg, _⟩ := hex; cases hg
  | cons g gs ih =>
    show reparentAll cfg outs gs (reparent cfg outs g r) = _
    by_cases hin : r.id ∈ gridChildIds outs g
    · have h1 : reparent cfg outs g r = { r with parent := some p } := by
        rw [reparent_pos cfg outs g r hin, hsame g (List.mem_cons_self ..) hin]
      rw [h1]
      by_cases hex' : ∃ g' ∈ gs, r.id ∈ gridChildIds outs g'
      · have := ih { r with parent := some p }
          (fun g' hg' hin' => hsame g' (List.mem_cons_of_mem _ hg') hin') hex'
        rw [this]
      · apply reparentAll_none
        intro g' hg' hin'
        exact hex' ⟨g', hg', hin'⟩
    · rw [reparent_neg cfg outs g r hin]
      apply ih r (fun g' hg' hin' => hsame g' (List.mem_cons_of_mem _ hg') hin')
      obtain ⟨g', hg', hin'⟩ := hex
      rcases List.mem_cons.1 hg' with rfl | hg'
      · exact absurd hin' hin
      · exact ⟨g', hg', hin'⟩

/-- linking to a parent touches `parent` only -/
theorem reparent_fields (cfg : Cfg) (outs : List (Item V)) (g : Item V) (r : Row V) :
    reparent cfg outs g r = { r with parent := (reparent cfg outs g r).parent } := by
  unfold reparent; split <;> rfl

theorem reparentAll_fields (cfg : Cfg) (outs : List (Item V)) (gs : List (Item V)) (r : Row V) :
    reparentAll cfg outs gs r = { r with parent := (reparentAll cfg outs gs r).parent } := by
  induction gs generalizing r with
  | nil => rfl
  | cons g gs ih =>
    show reparentAll cfg outs gs (reparent cfg outs g r) = _
    rw [ih (reparent cfg outs g r)]
    show _ = { r with parent := (reparentAll cfg outs gs (reparent cfg outs g r)).parent }
    rw [reparent_fields cfg outs g r]

theorem gridRowsAfter_ids (cfg : Cfg) (outs : List (Item V)) (gs : List (Item V)) :
    (gridRowsAfter cfg outs gs).map (·.id) = gs.map (gridId cfg) := by
  induction gs with
  | nil => rfl
  | cons g gs ih => simp [gridRowsAfter, ih, gridRow]

/-- parent rows that are under no grid themselves are exactly the `gridRow`s -/
theorem gridRowsAfter_eq (cfg : Cfg) (outs : List (Item V)) (gs : List (Item V))
    (h : ∀ g ∈ gs, ∀ g' ∈ gs, gridId cfg g ∉ gridChildIds outs g') :
    gridRowsAfter cfg outs gs = gs.map (gridRow cfg) := by
  induction gs with
  | nil => rfl
  | cons g gs ih =>
    simp only [gridRowsAfter, List.map_cons]
    rw [ih (fun a ha b hb => h a (List.mem_cons_of_mem _ ha) b (List.mem_cons_of_mem _ hb))]
    rw [reparentAll_none]
    intro g' hg'
    exact h g (List.mem_cons_self ..) g' (List.mem_cons_of_mem _ hg')

end addGrids

/-! ### the tree a list of runs leaves behind -/

section layout
variable {V : Type}

theorem orElse_self {α : Type} (o : Option α) : (o.orElse fun _ => o) = o := by
  cases o <;> rfl

theorem overlay_self (c : Content V) : overlay c c = c := by
  unfold overlay
  have hfiles : c.files ++ c.files.filter (fun p => !(c.files.any (fun q => q.1 == p.1))) = c.files := by
    have : c.files.filter (fun p => !(c.files.any (fun q => q.1 == p.1))) = [] := by
      apply List.filter_eq_nil_iff.2
      intro p hp
      simp only [Bool.not_eq_true', Bool.not_eq_false]
      exact List.any_eq_true.2 ⟨p, hp, by simp⟩
    rw [this, List.append_nil]
  cases c
  simp only [Bool.or_self, orElse_self, ite_self] at *
  simp [hfiles]

theorem slotOf_effective (path : Dir) (k : Kind) (c : Content V) :
    (slotOf path k c).effective = some c := by
  cases k <;> simp [slotOf, Slot.effective, overlay_self]

@[simp] theorem slotOf_path (path : Dir) (k : Kind) (c : Content V) : (slotOf path k c).path = path := by
  cases k <;> rfl

/-- a fit of some run, where it lives and which parent it records -/
structure Place (V : Type) where
  path : Dir
  parent : Option String
  fit : FitRun V

def Run.places : Run V → List (Place V)
  | .single f => [⟨f.path, none, f⟩]
  | .grid g => g.cells.map fun c => ⟨g.path ++ [c.1], some g.ident, c.2⟩

/-- every fit the runs performed (cells included), in order -/
def places (runs : List (Run V)) : List (Place V) := runs.flatMap Run.places

def Place.item (p : Place V) : Item V := ⟨p.path, p.fit.content p.parent⟩

def gridsOf : List (Run V) → List (GridRun V)
  | [] => []
  | .single _ :: rs => gridsOf rs
  | .grid g :: rs => g :: gridsOf rs

def GridRun.item (g : GridRun V) : Item V := ⟨g.path, g.content⟩

@[simp] theorem Place.item_id (p : Place V) : p.item.id = p.fit.ident := rfl

theorem searchOutputs_append (co : Bool) (a b : List (Slot V)) :
    searchOutputs co (a ++ b) = searchOutputs co a ++ searchOutputs co b := by
  simp [searchOutputs, List.filterMap_append]

theorem gridOutputs_append (co : Bool) (a b : List (Slot V)) :
    gridOutputs co (a ++ b) = gridOutputs co a ++ gridOutputs co b := by
  simp [gridOutputs, List.filterMap_append]

theorem searchOutputs_fitSlot (co : Bool) (path : Dir) (par : Option String) (f : FitRun V) :
    searchOutputs co [slotOf path f.kind (f.content par)] =
      if (!co || f.completed) then [⟨path, f.content par⟩] else [] := by
  simp only [searchOutputs, List.filterMap_cons, List.filterMap_nil, slotOf_effective, slotOf_path]
  have hm : (f.content par).metadata = true := rfl
  have hc : (f.content par).completed = f.completed := rfl
  simp only [hm, keep, hc, Bool.true_and]
  cases h : (!co || f.completed) <;> simp

theorem gridOutputs_fitSlot (co : Bool) (path : Dir) (par : Option String) (f : FitRun V) :
    gridOutputs co [slotOf path f.kind (f.content par)] = [] := by
  simp [gridOutputs, slotOf_effective, FitRun.content]

theorem searchOutputs_cells (co : Bool) (g : GridRun V) (cells : List (String × FitRun V)) :
    searchOutputs co (cells.map (cellSlot g)) =
      ((cells.map fun c => (⟨g.path ++ [c.1], some g.ident, c.2⟩ : Place V)).filter
        (fun p => !co || p.fit.completed)).map Place.item := by
  induction cells with
  | nil => rfl
  | cons c rest ih =>
    rw [List.map_cons, ← List.singleton_append, searchOutputs_append, ih]
    simp only [cellSlot, searchOutputs_fitSlot, List.map_cons, List.filter_cons]
    split <;> simp [Place.item]

theorem gridOutputs_cells (co : Bool) (g : GridRun V) (cells : List (String × FitRun V)) :
    gridOutputs co (cells.map (cellSlot g)) = [] := by
  induction cells with
  | nil => rfl
  | cons c rest ih =>
    rw [List.map_cons, ← List.singleton_append, gridOutputs_append, ih]
    simp [cellSlot, gridOutputs_fitSlot]

theorem searchOutputs_run (co : Bool) (r : Run V) :
    searchOutputs co r.slots = (r.places.filter (fun p => !co || p.fit.completed)).map Place.item := by
  cases r with
  | single f =>
    simp only [Run.slots, FitRun.slot, searchOutputs_fitSlot, Run.places, List.filter_cons]
    split <;> simp [Place.item]
  | grid g =>
    simp only [Run.slots, GridRun.slots, Run.places]
    rw [← List.singleton_append, searchOutputs_append, searchOutputs_cells]
    simp [searchOutputs, Slot.effective, GridRun.content]

theorem gridOutputs_run (co : Bool) (r : Run V) :
    gridOutputs co r.slots = ((gridsOf [r]).filter (fun g => !co || g.completed)).map GridRun.item := by
  cases r with
  | single f => simp [Run.slots, FitRun.slot, gridOutputs_fitSlot, gridsOf]
  | grid g =>
    simp only [Run.slots, GridRun.slots, gridsOf]
    rw [← List.singleton_append, gridOutputs_append, gridOutputs_cells]
    simp only [gridOutputs, List.filterMap_cons, List.filterMap_nil, Slot.effective, GridRun.content,
      Option.isSome_some, Bool.true_and, keep, List.append_nil, List.filter_cons, List.filter_nil]
    split <;> simp_all [GridRun.item, GridRun.content]

theorem gridsOf_cons (r : Run V) (rs : List (Run V)) : gridsOf (r :: rs) = gridsOf [r] ++ gridsOf rs := by
  cases r <;> simp [gridsOf]

theorem searchOutputs_layout (co : Bool) (runs : List (Run V)) :
    searchOutputs co (layout runs) =
      ((places runs).filter (fun p => !co || p.fit.completed)).map Place.item := by
  induction runs with
  | nil => rfl
  | cons r rs ih =>
    simp only [layout, places, List.flatMap_cons] at *
    rw [searchOutputs_append, ih, searchOutputs_run, List.filter_append, List.map_append]

theorem gridOutputs_layout (co : Bool) (runs : List (Run V)) :
    gridOutputs co (layout runs) =
      ((gridsOf runs).filter (fun g => !co || g.completed)).map GridRun.item := by
  induction runs with
  | nil => rfl
  | cons r rs ih =>
    simp only [layout, List.flatMap_cons] at *
    rw [gridOutputs_append, ih, gridOutputs_run, gridsOf_cons r rs, List.filter_append, List.map_append]

end layout

/-! ### scraping the tree of a list of runs -/

section scrapeLayout
variable {V : Type}

theorem nodup_map_inj {α β : Type} (f : α → β) :
    ∀ (l : List α), (l.map f).Nodup → ∀ a ∈ l, ∀ b ∈ l, f a = f b → a = b
  | [], _, a, ha, _, _, _ => by cases ha
  | x :: l, h, a, ha, b, hb, hab => by
    rw [List.map_cons, List.nodup_cons] at h
    rcases List.mem_cons.1 ha with hax | ha <;> rcases List.mem_cons.1 hb with hbx | hb
    · rw [hax, hbx]
    · exact absurd (by rw [← hax, hab]; exact List.mem_map_of_mem hb) h.1
    · exact absurd (by rw [← hbx, ← hab]; exact List.mem_map_of_mem ha) h.1
    · exact nodup_map_inj f l h.2 a ha b hb hab

theorem filter_const_true {α : Type} (l : List α) : l.filter (fun _ => true) = l := by
  induction l with
  | nil => rfl
  | cons x l ih => simp [ih]

/-- what is assumed of the runs: identifiers tell fits and grid searches apart (md5 and the
identifier's sensitivity, C07), and a grid's identifier names no directory outside that grid -/
structure WF (runs : List (Run V)) : Prop where
  fitIds : ((places runs).map (·.fit.ident)).Nodup
  gridIds : ((gridsOf runs).map GridRun.ident).Nodup
  gridFresh : ∀ g ∈ gridsOf runs, g.ident ∉ (places runs).map (·.fit.ident)
  foreign : ∀ g ∈ gridsOf runs, ∀ p ∈ places runs, p.parent ≠ some g.ident → g.ident ∉ p.path

theorem gridsOf_mem {runs : List (Run V)} {g : GridRun V} : g ∈ gridsOf runs ↔ Run.grid g ∈ runs := by
  induction runs with
  | nil => simp [gridsOf]
  | cons r rs ih =>
    cases r with
    | single f => simp [gridsOf, ih]
    | grid g' => simp [gridsOf, ih]

/-- a place that records a parent is a cell of a grid with that identifier -/
theorem places_parent {runs : List (Run V)} {p : Place V} (hp : p ∈ places runs) {x : String}
    (hx : p.parent = some x) :
    ∃ g ∈ gridsOf runs, g.ident = x ∧ ∃ c ∈ g.cells, p = ⟨g.path ++ [c.1], some g.ident, c.2⟩ := by
  simp only [places, List.mem_flatMap] at hp
  obtain ⟨r, hr, hpr⟩ := hp
  cases r with
  | single f =>
    simp only [Run.places, List.mem_singleton] at hpr
    subst hpr
    cases hx
  | grid g =>
    simp only [Run.places, List.mem_map] at hpr
    obtain ⟨c, hc, rfl⟩ := hpr
    refine ⟨g, gridsOf_mem.2 hr, ?_, c, hc, rfl⟩
    simpa using hx

theorem cell_mem_places {runs : List (Run V)} {g : GridRun V} (hg : g ∈ gridsOf runs)
    {c : String × FitRun V} (hc : c ∈ g.cells) :
    (⟨g.path ++ [c.1], some g.ident, c.2⟩ : Place V) ∈ places runs := by
  simp only [places, List.mem_flatMap]
  exact ⟨.grid g, gridsOf_mem.1 hg, by simp only [Run.places, List.mem_map]; exact ⟨c, hc, rfl⟩⟩

theorem ident_mem_path (g : GridRun V) : g.ident ∈ g.path := by simp [GridRun.path]

/-- the path-prefix structure `GridSearch` generates: a fit lies under a grid's directory exactly
when it is one of that grid's cells -/
theorem prefix_iff_cell {runs : List (Run V)} (wf : WF runs) {g : GridRun V} (hg : g ∈ gridsOf runs)
    {p : Place V} (hp : p ∈ places runs) :
    g.path.isPrefixOf p.path = true ↔ p.parent = some g.ident := by
  constructor
  · intro hpre
    by_cases h : p.parent = some g.ident
    · exact h
    · exfalso
      apply wf.foreign g hg p hp h
      have := List.isPrefixOf_iff_prefix.1 hpre
      exact this.subset (ident_mem_path g)
  · intro hpar
    obtain ⟨g', hg', hid, c, _, rfl⟩ := places_parent hp hpar
    have : g' = g := nodup_map_inj GridRun.ident _ wf.gridIds g' hg' g hg hid
    subst this
    exact List.isPrefixOf_iff_prefix.2 (List.prefix_append _ _)

/-- `Aggregator.grid_searches` finds exactly the cells -/
theorem gridChildIds_layout {runs : List (Run V)} (wf : WF runs) {g : GridRun V}
    (hg : g ∈ gridsOf runs) (x : String) :
    x ∈ gridChildIds ((places runs).map Place.item) g.item ↔
      ∃ p ∈ places runs, p.parent = some g.ident ∧ p.fit.ident = x := by
  simp only [gridChildIds, List.mem_map, List.mem_filter]
  constructor
  · rintro ⟨it, ⟨⟨p, hp, rfl⟩, hpre⟩, rfl⟩
    exact ⟨p, hp, (prefix_iff_cell wf hg hp).1 hpre, rfl⟩
  · rintro ⟨p, hp, hpar, rfl⟩
    exact ⟨p.item, ⟨⟨p, hp, rfl⟩, (prefix_iff_cell wf hg hp).2 hpar⟩, rfl⟩

theorem gridId_folder (g : GridRun V) : gridId { gridIdFolder := true } g.item = g.ident := by
  simp [gridId, GridRun.item, GridRun.path]

/-- with the grid stored under its folder name, linking the cells changes nothing: they already
record that parent -/
theorem reparentAll_layout {runs : List (Run V)} (wf : WF runs) (lt : V → V → Bool)
    {p : Place V} (hp : p ∈ places runs) :
    reparentAll { gridIdFolder := true } ((places runs).map Place.item)
      ((gridsOf runs).map GridRun.item) (Row.ofItem lt p.item) = Row.ofItem lt p.item := by
  by_cases hex : ∃ gi ∈ (gridsOf runs).map GridRun.item,
      (Row.ofItem lt p.item).id ∈ gridChildIds ((places runs).map Place.item) gi
  · obtain ⟨gi, hgi, hin⟩ := hex
    obtain ⟨g, hg, rfl⟩ := List.mem_map.1 hgi
    -- p is a cell of g
    have hpar : p.parent = some g.ident := by
      obtain ⟨p', hp', hpar', hid⟩ := (gridChildIds_layout wf hg _).1 hin
      have : p' = p := nodup_map_inj (·.fit.ident) _ wf.fitIds p' hp' p hp hid
      exact this ▸ hpar'
    rw [reparentAll_some _ _ _ _ g.ident]
    · show { Row.ofItem lt p.item with parent := some g.ident } = Row.ofItem lt p.item
      have : (Row.ofItem lt p.item).parent = some g.ident := hpar
      cases hr : Row.ofItem lt p.item
      simp only [hr] at this
      simp [this]
    · intro gi' hgi' hin'
      obtain ⟨g', hg', rfl⟩ := List.mem_map.1 hgi'
      obtain ⟨p', hp', hpar', hid⟩ := (gridChildIds_layout wf hg' _).1 hin'
      have : p' = p := nodup_map_inj (·.fit.ident) _ wf.fitIds p' hp' p hp hid
      subst this
      rw [gridId_folder]
      rw [hpar] at hpar'
      exact (Option.some.inj hpar').symm
    · exact ⟨g.item, hgi, hin⟩
  · apply reparentAll_none
    intro gi hgi hin
    exact hex ⟨gi, hgi, hin⟩

/-- the rows scraping leaves for the output tree of `runs` (grid stored under its folder name):
one row per fit, built from its own directory, then one row per grid search -/
theorem scrape_layout_eq {runs : List (Run V)} (wf : WF runs) (lt : V → V → Bool) :
    scrape lt { gridIdFolder := true } false (layout runs) [] =
      (places runs).map (fun p => Row.ofItem lt p.item) ++
      (gridsOf runs).map (fun g => gridRow { gridIdFolder := true } g.item) := by
  unfold scrape
  simp only [searchOutputs_layout, gridOutputs_layout, Bool.not_false, Bool.true_or,
    filter_const_true]
  rw [addFits_fresh, addGrids_eq, List.nil_append, List.map_map, List.map_map]
  · congr 1
    · apply List.map_congr_left
      intro p hp
      exact reparentAll_layout wf lt hp
    · rw [gridRowsAfter_eq, List.map_map]
      · rfl
      intro gi hgi gi' hgi'
      obtain ⟨g, hg, rfl⟩ := List.mem_map.1 hgi
      obtain ⟨g', hg', rfl⟩ := List.mem_map.1 hgi'
      rw [gridId_folder]
      intro hin
      obtain ⟨p, hp, _, hid⟩ := (gridChildIds_layout wf hg' _).1 hin
      exact wf.gridFresh g hg (List.mem_map.2 ⟨p, hp, hid⟩)
  · rw [List.map_map]
    exact wf.fitIds
  · intro it _
    simp

/-- both routes produce the same number of rows -/
theorem rows_length (lt : V → V → Bool) (runs : List (Run V)) :
    (places runs).length + (gridsOf runs).length = (direct lt runs).length := by
  induction runs with
  | nil => rfl
  | cons r rs ih =>
    have h1 : places (r :: rs) = r.places ++ places rs := by simp [places]
    have h2 : direct lt (r :: rs) = r.directRows lt ++ direct lt rs := by simp [direct]
    rw [h1, h2, gridsOf_cons, List.length_append, List.length_append, List.length_append, ← ih]
    have : r.places.length + (gridsOf [r]).length = (r.directRows lt).length := by
      cases r with
      | single f => simp [Run.places, Run.directRows, gridsOf]
      | grid g => simp [Run.places, Run.directRows, gridsOf]
    omega

/-! ### the kind of storage -/

def FitRun.withKind (k : FitRun V → Kind) (f : FitRun V) : FitRun V := { f with kind := k f }

/-- the same run with every fit stored as `k` says -/
def Run.withKinds (k : FitRun V → Kind) : Run V → Run V
  | .single f => .single (f.withKind k)
  | .grid g => .grid { g with cells := g.cells.map fun c => (c.1, c.2.withKind k) }

theorem places_withKinds (co : Bool) (k : FitRun V → Kind) (r : Run V) :
    (((r.withKinds k).places.filter (fun p => !co || p.fit.completed)).map Place.item) =
      ((r.places.filter (fun p => !co || p.fit.completed)).map Place.item) := by
  cases r with
  | single f =>
    simp only [Run.withKinds, Run.places, List.filter_cons, List.filter_nil]
    have : (f.withKind k).completed = f.completed := rfl
    rw [this]
    split <;> rfl
  | grid g =>
    simp only [Run.withKinds, Run.places, List.map_map]
    have hp : ({ g with cells := g.cells.map fun c => (c.1, c.2.withKind k) } : GridRun V).path = g.path := rfl
    have hi : ({ g with cells := g.cells.map fun c => (c.1, c.2.withKind k) } : GridRun V).ident = g.ident := rfl
    rw [hp, hi]
    generalize g.cells = cells
    induction cells with
    | nil => rfl
    | cons c rest ih =>
      simp only [List.map_cons, List.filter_cons, Function.comp]
      have : (c.2.withKind k).completed = c.2.completed := rfl
      rw [this]
      split
      · simp only [List.map_cons]; rw [ih]; rfl
      · exact ih

theorem gridsOf_withKinds (co : Bool) (k : FitRun V → Kind) (r : Run V) :
    ((gridsOf [r.withKinds k]).filter (fun g => !co || g.completed)).map GridRun.item =
      ((gridsOf [r]).filter (fun g => !co || g.completed)).map GridRun.item := by
  cases r with
  | single f => rfl
  | grid g =>
    simp only [Run.withKinds, gridsOf, List.filter_cons, List.filter_nil]
    split <;> rfl

theorem outputs_withKinds (co : Bool) (k : FitRun V → Kind) (runs : List (Run V)) :
    searchOutputs co (layout (runs.map (Run.withKinds k))) = searchOutputs co (layout runs) ∧
    gridOutputs co (layout (runs.map (Run.withKinds k))) = gridOutputs co (layout runs) := by
  rw [searchOutputs_layout, searchOutputs_layout, gridOutputs_layout, gridOutputs_layout]
  induction runs with
  | nil => exact ⟨rfl, rfl⟩
  | cons r rs ih =>
    have h1 : ∀ (r : Run V) rs, places (r :: rs) = r.places ++ places rs := by intros; simp [places]
    rw [List.map_cons, h1, h1, gridsOf_cons, gridsOf_cons r rs]
    simp only [List.filter_append, List.map_append]
    rw [ih.1, ih.2, places_withKinds, gridsOf_withKinds]
    exact ⟨rfl, rfl⟩

end scrapeLayout

/-! ### vocabulary of `AFProofs/C11.lean` -/

section vocabulary
variable {V : Type}

/-- what the two routes must agree on for a fit: everything the property lists; the database route
keeps all samples only with `save_all_samples` -/
def agree (lt : V → V → Bool) (saveAll : Bool) (a b : Row V) : Prop :=
  a.id = b.id ∧ a.name = b.name ∧ a.tag = b.tag ∧ a.complete = b.complete ∧ a.isGrid = b.isGrid ∧
  a.parent = b.parent ∧ a.model = b.model ∧ a.info = b.info ∧ a.maxLL = b.maxLL ∧ a.inst = b.inst ∧
  a.files = b.files ∧ a.analyses = b.analyses ∧
  b.samples = directSamples lt saveAll a.samples


/-- two grid searches of one dataset: same tag, different identifiers -/
def witnessRuns : List (Run Int) :=
  [ .grid { pre := [], name := ["g1"], nameStr := "g1", tag := some "t", identTok := ["G1"],
            cells := [("c0", { pre := [], name := ["g1", "G1", "c0"], nameStr := "g1/G1/c0", tag := some "t",
                               searchTok := ["S"], modelTok := ["M0"], shape := "m0" })] },
    .grid { pre := [], name := ["g2"], nameStr := "g2", tag := some "t", identTok := ["G2"],
            cells := [("c0", { pre := [], name := ["g2", "G2", "c0"], nameStr := "g2/G2/c0", tag := some "t",
                               searchTok := ["S"], modelTok := ["M1"], shape := "m1" })] } ]

def ltInt : Int → Int → Bool := fun a b => decide (a < b)


end vocabulary
end AF.Scrape
