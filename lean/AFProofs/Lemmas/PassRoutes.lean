import AFModel.PassRoutes

/-! Helper lemmas for the result route of C12 (`AFModel/PassRoutes.lean`). -/

namespace AF.PassRoutesL
open AF

variable {V : Type}

theorem lookupPath_mem : ∀ (keys : List Path) (v : List V) (p : Path) (x : V),
    lookupPath (keys.zip v) p = some x → p ∈ keys
  | [], _, _, _, h => by simp [lookupPath] at h
  | _ :: _, [], _, _, h => by simp [lookupPath] at h
  | k :: ks, y :: ys, p, x, h => by
    by_cases hk : k = p
    · simp [hk]
    · have : lookupPath ((k :: ks).zip (y :: ys)) p = lookupPath (ks.zip ys) p := by
        simp [lookupPath, hk]
      rw [this] at h
      exact List.mem_cons_of_mem _ (lookupPath_mem ks ys p x h)

theorem lookupPath_zip_get : ∀ (keys : List Path) (v : List V), keys.Nodup → keys.length = v.length →
    ∀ (j : Nat) (hj : j < keys.length) (hj' : j < v.length), lookupPath (keys.zip v) (keys[j]) = some (v[j])
  | [], _, _, _, j, hj, _ => by simp at hj
  | _ :: _, [], _, hl, _, _, _ => by simp at hl
  | k :: ks, y :: ys, hn, hl, j, hj, hj' => by
    have hn' := List.nodup_cons.mp hn
    cases j with
    | zero => simp [lookupPath]
    | succ j =>
      have hj2 : j < ks.length := by simpa using hj
      have hne : ¬ k = ks[j] := fun h => hn'.1 (h ▸ List.getElem_mem hj2)
      have : lookupPath ((k :: ks).zip (y :: ys)) ((k :: ks)[j + 1]) = lookupPath (ks.zip ys) (ks[j]) := by
        simp [lookupPath, hne]
      rw [this]
      simpa using lookupPath_zip_get ks ys hn'.2 (by simpa using hl) j hj2 (by simpa using hj')

theorem findSome?_const {α β} (f : α → Option β) (c : β) : ∀ (g : List α),
    (∀ p ∈ g, f p = none ∨ f p = some c) → (∃ p ∈ g, f p = some c) → g.findSome? f = some c
  | [], _, ⟨_, hp, _⟩ => by simp at hp
  | q :: qs, hall, ⟨p, hp, hfp⟩ => by
    rcases hall q (by simp) with hq | hq
    · simp only [List.findSome?_cons, hq]
      rcases List.mem_cons.mp hp with rfl | hp'
      · rw [hq] at hfp; cases hfp
      · exact findSome?_const f c qs (fun r hr => hall r (List.mem_cons_of_mem _ hr)) ⟨p, hp', hfp⟩
    · simp [hq]

end AF.PassRoutesL
