import AFProofs.Lemmas.Grid
import AFProofs.Lemmas.Persist
import AFModel.GridComp

/-! Helper lemmas for `AFModel/GridComp.lean` (property C16): the id map of a cell and what it does to the
places, the parameter count and the instances of a composition. -/

namespace AF.Grid
open AF

theorem cellSigma_not_mem (gridIds fresh : List Nat) (id : Nat) (h : id ∉ gridIds) :
    cellSigma gridIds fresh id = id := by
  have : gridIds.idxOf? id = none := by simpa using h
  simp [cellSigma, this]

theorem cellSigma_mem (gridIds fresh : List Nat) (i id new : Nat) (hnd : gridIds.Nodup)
    (hi : gridIds[i]? = some id) (hf : fresh[i]? = some new) : cellSigma gridIds fresh id = new := by
  simp [cellSigma, idxOf?_of_nodup gridIds i id hnd hi, List.getD, hf]

theorem idxOf?_some_getElem? : ∀ (l : List Nat) (id i : Nat), l.idxOf? id = some i → l[i]? = some id
  | [], _, _, h => by simp at h
  | a :: l, id, i, h => by
    by_cases ha : a = id
    · subst ha
      simp [List.idxOf?_cons] at h
      subst h
      simp
    · simp only [List.idxOf?_cons, beq_iff_eq, ha, if_false, Option.map_eq_some_iff] at h
      obtain ⟨j, hj, rfl⟩ := h
      simpa using idxOf?_some_getElem? l id j hj

/-- a grid prior is sent to one of the new ids (lists of the same length) -/
theorem cellSigma_mem_fresh (gridIds fresh : List Nat) (id : Nat) (hl : fresh.length = gridIds.length)
    (h : id ∈ gridIds) : cellSigma gridIds fresh id ∈ fresh := by
  cases hi : gridIds.idxOf? id with
  | none => exact absurd h (by simpa using hi)
  | some i =>
    have hg := idxOf?_some_getElem? gridIds id i hi
    have hlt : i < gridIds.length := by
      rcases Nat.lt_or_ge i gridIds.length with h | h
      · exact h
      · rw [List.getElem?_eq_none h] at hg; cases hg
    have hlt' : i < fresh.length := by omega
    simp only [cellSigma, hi, List.getD, List.getElem?_eq_getElem hlt', Option.getD_some]
    exact List.getElem_mem hlt'

/-- with new ids that are pairwise distinct and not ids of the model, the id map of a cell is injective on
the ids of the model: no two parameters are merged -/
theorem cellSigma_injOn (gridIds fresh ids : List Nat) (hl : fresh.length = gridIds.length)
    (hf : fresh.Nodup) (hd : ∀ x ∈ fresh, x ∉ ids) :
    ∀ i ∈ ids, ∀ j ∈ ids, cellSigma gridIds fresh i = cellSigma gridIds fresh j → i = j := by
  intro i hi j hj h
  by_cases gi : i ∈ gridIds <;> by_cases gj : j ∈ gridIds
  · -- both are grid priors: their positions coincide because `fresh` has no repetition
    cases ei : gridIds.idxOf? i with
    | none => exact absurd gi (by simpa using ei)
    | some a =>
      cases ej : gridIds.idxOf? j with
      | none => exact absurd gj (by simpa using ej)
      | some b =>
        have ga := idxOf?_some_getElem? gridIds i a ei
        have gb := idxOf?_some_getElem? gridIds j b ej
        have la : a < gridIds.length := by
          rcases Nat.lt_or_ge a gridIds.length with h | h
          · exact h
          · rw [List.getElem?_eq_none h] at ga; cases ga
        have lb : b < gridIds.length := by
          rcases Nat.lt_or_ge b gridIds.length with h | h
          · exact h
          · rw [List.getElem?_eq_none h] at gb; cases gb
        have la' : a < fresh.length := by omega
        have lb' : b < fresh.length := by omega
        simp only [cellSigma, ei, ej, List.getD, List.getElem?_eq_getElem la',
          List.getElem?_eq_getElem lb', Option.getD_some] at h
        have hab : a = b := (List.getElem_inj hf).mp h
        subst hab
        rw [ga] at gb
        exact Option.some.inj gb
  · have := cellSigma_mem_fresh gridIds fresh i hl gi
    rw [h, cellSigma_not_mem gridIds fresh j gj] at this
    exact absurd hj (hd j this)
  · have := cellSigma_mem_fresh gridIds fresh j hl gj
    rw [← h, cellSigma_not_mem gridIds fresh i gi] at this
    exact absurd hi (hd i this)
  · rwa [cellSigma_not_mem gridIds fresh i gi, cellSigma_not_mem gridIds fresh j gj] at h

theorem walk_cellComp {V} (t : Node V) (gridIds fresh : List Nat) :
    walk (cellComp t gridIds fresh) = (walk t).map (fun x => (x.1, cellSigma gridIds fresh x.2)) :=
  walk_rename _ t

theorem mem_pathPriors {V} (t : Node V) (x : Path × Nat) : x ∈ pathPriors t ↔ x ∈ walk t :=
  (perm_sortById (walk t)).mem_iff

end AF.Grid
