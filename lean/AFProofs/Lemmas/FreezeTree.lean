import AFModel.FreezeTree

/-!
Helper lemmas for the tree refinement of C13 (`AFModel/FreezeTree.lean`): editing a composition at a
path leaves every place outside the edited attribute untouched; the cache getters return current
values and keep the cache current; the invariant of one live model is preserved by every step.
-/

namespace AF.FT
open AF

/-! ## attribute lists -/

theorem lookupAttr_setKey_self {V} (k : String) (v : Node V) : ∀ (l : List (String × Node V)),
    lookupAttr (setKey k v l) k = some v
  | [] => by simp [setKey, lookupAttr]
  | (k', c) :: rest => by
    by_cases h : k' = k
    · simp [setKey, lookupAttr, h]
    · simp [setKey, lookupAttr, h, lookupAttr_setKey_self k v rest]

theorem lookupAttr_setKey_ne {V} (k : String) (v : Node V) (b : String) (hb : b ≠ k) :
    ∀ (l : List (String × Node V)), lookupAttr (setKey k v l) b = lookupAttr l b
  | [] => by simp [setKey, lookupAttr, Ne.symm hb]
  | (k', c) :: rest => by
    by_cases h : k' = k
    · subst h; simp [setKey, lookupAttr, Ne.symm hb]
    · simp only [setKey, h, if_false, lookupAttr, lookupAttr_setKey_ne k v b hb rest]

theorem lookupAttr_eraseKey_ne {V} (k : String) (b : String) (hb : b ≠ k) :
    ∀ (l : List (String × Node V)), lookupAttr (eraseKey k l) b = lookupAttr l b
  | [] => by simp [eraseKey]
  | (k', c) :: rest => by
    by_cases h : k' = k
    · subst h; simp [eraseKey, lookupAttr, Ne.symm hb, lookupAttr_eraseKey_ne k' b hb rest]
    · simp only [eraseKey, h, if_false, lookupAttr, lookupAttr_eraseKey_ne k b hb rest]

theorem lookupAttr_eraseKey_self {V} (k : String) :
    ∀ (l : List (String × Node V)), lookupAttr (eraseKey k l) k = none
  | [] => by simp [eraseKey, lookupAttr]
  | (k', c) :: rest => by
    by_cases h : k' = k
    · subst h; simp [eraseKey, lookupAttr_eraseKey_self k' rest]
    · simp [eraseKey, h, lookupAttr, lookupAttr_eraseKey_self k rest]

theorem lookupAttr_updKey_self {V} (k : String) (g : Node V → Node V) :
    ∀ (l : List (String × Node V)), lookupAttr (updKey k g l) k = (lookupAttr l k).map g
  | [] => by simp [updKey, lookupAttr]
  | (k', c) :: rest => by
    by_cases h : k' = k
    · simp [updKey, lookupAttr, h]
    · simp [updKey, lookupAttr, h, lookupAttr_updKey_self k g rest]

theorem lookupAttr_updKey_ne {V} (k : String) (g : Node V → Node V) (b : String) (hb : b ≠ k) :
    ∀ (l : List (String × Node V)), lookupAttr (updKey k g l) b = lookupAttr l b
  | [] => by simp [updKey]
  | (k', c) :: rest => by
    by_cases h : k' = k
    · subst h; simp [updKey, lookupAttr, Ne.symm hb]
    · simp only [updKey, h, if_false, lookupAttr, lookupAttr_updKey_ne k g b hb rest]

/-- an edit of a `__dict__` that touches the key `k` only -/
def KeepsOthers {V} (k : String) (f : List (String × Node V) → List (String × Node V)) : Prop :=
  ∀ l b, b ≠ k → lookupAttr (f l) b = lookupAttr l b

theorem keeps_setKey {V} (k : String) (v : Node V) : KeepsOthers k (setKey k v) :=
  fun l b hb => lookupAttr_setKey_ne k v b hb l

theorem keeps_eraseKey {V} (k : String) : KeepsOthers (V := V) k (eraseKey k) :=
  fun l b hb => lookupAttr_eraseKey_ne k b hb l

theorem keeps_updKey {V} (k : String) (g : Node V → Node V) : KeepsOthers k (updKey k g) :=
  fun l b hb => lookupAttr_updKey_ne k g b hb l

theorem attrs_withAttrs_updKey {V} (n : Node V) (a : String) (g : Node V → Node V) :
    (n.withAttrs (updKey a g n.attrs)).attrs = updKey a g n.attrs := by
  cases n <;> simp [Node.withAttrs, Node.attrs, updKey]

theorem lookup_withAttrs_keeps {V} (n : Node V) (k : String) (f) (hf : KeepsOthers k f) (b : String)
    (hb : b ≠ k) : lookupAttr (n.withAttrs (f n.attrs)).attrs b = lookupAttr n.attrs b := by
  cases n <;> simp [Node.withAttrs, Node.attrs, hf _ b hb]

/-! ## editing at a path -/

theorem at_nil {V} (n : Node V) : n.at [] = some n := by cases n <;> rfl

theorem at_cons {V} (n : Node V) (b : String) (q : Path) :
    n.at (b :: q) = match lookupAttr n.attrs b with
      | some c => c.at q
      | none => none := by
  cases n <;> rfl

/-- every place that is neither on the way to the edited object nor below the edited attribute
holds what it held -/
theorem at_updAt_other {V} (k : String) (f) (hf : KeepsOthers (V := V) k f) :
    ∀ (p : Path) (t : Node V) (q : Path), ¬ q <+: p → ¬ (p ++ [k]) <+: q →
      (updAt f p t).at q = t.at q
  | [], t, q, h1, h2 => by
    cases q with
    | nil => exact absurd (List.nil_prefix) h1
    | cons b q' =>
      have hb : b ≠ k := by
        intro e; subst e
        exact h2 (by simp)
      simp only [updAt, at_cons, lookup_withAttrs_keeps t k f hf b hb]
  | a :: p', t, q, h1, h2 => by
    cases q with
    | nil => exact absurd (List.nil_prefix) h1
    | cons b q' =>
      simp only [updAt, at_cons, attrs_withAttrs_updKey]
      by_cases hba : b = a
      · subst hba
        rw [lookupAttr_updKey_self]
        cases hl : lookupAttr t.attrs b with
        | none => rfl
        | some c =>
          simp only [Option.map_some]
          apply at_updAt_other k f hf p' c q'
          · intro hp; exact h1 (List.cons_prefix_cons.mpr ⟨rfl, hp⟩)
          · intro hp; exact h2 (by simpa using hp)
      · rw [lookupAttr_updKey_ne a _ b hba]

/-- the edited object itself -/
theorem at_updAt_self {V} (f : List (String × Node V) → List (String × Node V)) :
    ∀ (p : Path) (t : Node V), (updAt f p t).at p = (t.at p).map (fun n => n.withAttrs (f n.attrs))
  | [], t => by simp [updAt, at_nil]
  | a :: p', t => by
    simp only [updAt, at_cons, attrs_withAttrs_updKey, lookupAttr_updKey_self]
    cases hl : lookupAttr t.attrs a with
    | none => rfl
    | some c => simp only [Option.map_some]; exact at_updAt_self f p' c

theorem at_append {V} : ∀ (p q : Path) (t : Node V),
    t.at (p ++ q) = match t.at p with
      | some n => n.at q
      | none => none
  | [], q, t => by simp [at_nil]
  | a :: p', q, t => by
    simp only [List.cons_append, at_cons]
    cases hl : lookupAttr t.attrs a with
    | none => rfl
    | some c => exact at_append p' q c

/-! ## paths -/

theorem prefix_concat_cases {p q : Path} {k : String} (h : q <+: p ++ [k]) : q = p ++ [k] ∨ q <+: p := by
  rcases h with ⟨r, hr⟩
  rcases List.eq_nil_or_concat r with rfl | ⟨r', c, rfl⟩
  · left; simpa using hr
  · right
    have hr' : (q ++ r') ++ [c] = p ++ [k] := by simpa using hr
    have := List.append_inj' hr' rfl
    exact ⟨r', this.1⟩

/-! ## the cache of one object -/

/-- every entry of the cache is the value of its function on the composition `n` -/
structure CacheOK {V} (c : TCache) (n : Node V) : Prop where
  walk : ∀ w, c.walk = some w → w = AF.walk n
  attr : ∀ a, c.attr = some a → a = attrOf (AF.walk n)
  unique : ∀ u, c.unique = some u → u = uniqueIds n
  ordered : ∀ o, c.ordered = some o → o = uniqueIds n

theorem cacheOK_empty {V} (n : Node V) : CacheOK TCache.empty n :=
  ⟨fun _ h => by simp [TCache.empty] at h, fun _ h => by simp [TCache.empty] at h,
   fun _ h => by simp [TCache.empty] at h, fun _ h => by simp [TCache.empty] at h⟩

theorem getWalk_ok {V} (c : TCache) (n : Node V) (h : CacheOK c n) :
    CacheOK (c.getWalk n).1 n ∧ (c.getWalk n).2 = AF.walk n := by
  unfold TCache.getWalk
  cases hw : c.walk with
  | some w => exact ⟨h, h.walk w hw⟩
  | none =>
    refine ⟨⟨?_, h.attr, h.unique, h.ordered⟩, rfl⟩
    intro w hw'; simp only [Option.some.injEq] at hw'; exact hw'.symm

theorem getAttr_ok {V} (c : TCache) (n : Node V) (h : CacheOK c n) :
    CacheOK (c.getAttr n).1 n ∧ (c.getAttr n).2 = attrOf (AF.walk n) := by
  unfold TCache.getAttr
  cases hw : c.attr with
  | some w => exact ⟨h, h.attr w hw⟩
  | none =>
    refine ⟨⟨h.walk, ?_, h.unique, h.ordered⟩, rfl⟩
    intro w hw'; simp only [Option.some.injEq] at hw'; exact hw'.symm

theorem attrOf_ids (w : List (Path × Nat)) : (attrOf w).map (·.2) = w.map (·.2) := by
  simp [attrOf, List.map_map, Function.comp_def]

theorem getUnique_ok {V} (c : TCache) (n : Node V) (h : CacheOK c n) :
    CacheOK (c.getUnique n).1 n ∧ (c.getUnique n).2 = uniqueIds n := by
  unfold TCache.getUnique
  cases hw : c.unique with
  | some w => exact ⟨h, h.unique w hw⟩
  | none =>
    have ha := getAttr_ok c n h
    have hu : sortDedup ((c.getAttr n).2.map (·.2)) = uniqueIds n := by
      rw [ha.2, attrOf_ids]; rfl
    refine ⟨⟨ha.1.walk, ha.1.attr, ?_, ha.1.ordered⟩, hu⟩
    intro w hw'; simp only [Option.some.injEq] at hw'; rw [← hw']; exact hu

theorem getOrdered_ok {V} (c : TCache) (n : Node V) (h : CacheOK c n) :
    CacheOK (c.getOrdered n).1 n ∧ (c.getOrdered n).2 = uniqueIds n := by
  unfold TCache.getOrdered
  cases hw : c.ordered with
  | some w => exact ⟨h, h.ordered w hw⟩
  | none =>
    have hu := getUnique_ok c n h
    refine ⟨⟨hu.1.walk, hu.1.attr, hu.1.unique, ?_⟩, hu.2⟩
    intro w hw'; simp only [Option.some.injEq] at hw'; rw [← hw']; exact hu.2

/-- on a frozen object whose cache is current every question gets the answer of the current
composition, and the cache stays current -/
theorem tqueryFrozen_ok {V} [Inhabited V] (ops : Ops V) (c : TCache) (n : Node V) (q : TQuery V)
    (h : CacheOK c n) :
    CacheOK (tqueryFrozen ops c n q).1 n ∧ (tqueryFrozen ops c n q).2 = tanswer ops n q := by
  cases q with
  | count =>
    have := getUnique_ok c n h
    exact ⟨this.1, by simp only [tqueryFrozen, tanswer, this.2]; rfl⟩
  | paths =>
    have := getWalk_ok c n h
    exact ⟨this.1, by simp only [tqueryFrozen, tanswer, this.2]; rfl⟩
  | pathIds =>
    have := getWalk_ok c n h
    exact ⟨this.1, by simp only [tqueryFrozen, tanswer, this.2]; rfl⟩
  | uniquePaths =>
    have := getWalk_ok c n h
    exact ⟨this.1, by simp only [tqueryFrozen, tanswer, this.2]; rfl⟩
  | ids =>
    have := getOrdered_ok c n h
    exact ⟨this.1, by simp only [tqueryFrozen, tanswer, this.2]⟩
  | inst v =>
    have hu := getUnique_ok c n h
    have ho := getOrdered_ok (c.getUnique n).1 n hu.1
    by_cases hl : v.length = (uniqueIds n).length
    · simp only [tqueryFrozen, tanswer, hu.2, hl, count, ne_eq, not_true_eq_false, if_false, ho.2]
      exact ⟨ho.1, rfl⟩
    · have hl' : ¬ v.length = count n := hl
      simp only [tqueryFrozen, tanswer, hu.2, hl, hl', ne_eq, not_false_eq_true, if_true]
      exact ⟨hu.1, trivial⟩

theorem tquery_ok {V} [Inhabited V] (ops : Ops V) (fr : Bool) (c : TCache) (n : Node V) (q : TQuery V)
    (h : CacheOK c n) :
    CacheOK (tquery ops fr c n q).1 n ∧ (tquery ops fr c n q).2 = tanswer ops n q := by
  unfold tquery
  cases fr with
  | true => simpa using tqueryFrozen_ok ops c n q h
  | false => simpa using ⟨h, (tqueryFrozen_ok ops TCache.empty n q (cacheOK_empty n)).2⟩

/-- an object that is not frozen stores nothing -/
theorem tquery_unfrozen_cache {V} [Inhabited V] (ops : Ops V) (c : TCache) (n : Node V) (q : TQuery V) :
    (tquery ops false c n q).1 = c := by
  simp [tquery]

/-! ## the invariant of one live model -/

structure TInv {V} (s : TState V) : Prop where
  /-- every cached entry is the value of its function on the composition now at that place -/
  cache_current : ∀ q n, s.tree.at q = some n → CacheOK (s.cache q) n
  /-- only frozen objects hold entries -/
  cache_only_frozen : ∀ q, s.frozen q = false → s.cache q = TCache.empty
  /-- everything below a frozen object is frozen -/
  frozen_down : ∀ q q', s.frozen q = true → q <+: q' → s.frozen q' = true

theorem tinv_init {V} (t : Node V) : TInv (TState.init t) :=
  ⟨fun _ n _ => cacheOK_empty n, fun _ _ => rfl, fun _ _ h _ => by simp [TState.init] at h⟩

/-- no strict prefix of `p` is frozen -/
theorem safe_spec {V} (s : TState V) (p : Path) (h : tunfreezeSafe s p = true) (a : Path)
    (ha : a <+: p) (hne : a ≠ p) : s.frozen a = false := by
  simp only [tunfreezeSafe, List.all_eq_true, List.mem_range, Bool.not_eq_true'] at h
  have hlen : a.length < p.length := by
    rcases Nat.lt_or_ge a.length p.length with hl | hl
    · exact hl
    · exact absurd (List.IsPrefix.eq_of_length_le ha hl) hne
  have := h a.length hlen
  rwa [← List.prefix_iff_eq_take.mp ha] at this

theorem tmodify_preserves {V} (s : TState V) (p : Path) (op : TOp V) (h : TInv s)
    (hplan : ∀ n k f, modPlan n op = some (k, f) → KeepsOthers k f) : TInv (tmodify s p op).1 := by
  unfold tmodify
  cases hat : s.tree.at p with
  | none => exact h
  | some n =>
    simp only
    by_cases hf : s.frozen p = true
    · simp only [hf, if_true]; exact h
    · have hf' : s.frozen p = false := by simpa using hf
      simp only [hf', Bool.false_eq_true, if_false]
      cases hp : modPlan n op with
      | none => exact h
      | some kf =>
        obtain ⟨k, f⟩ := kf
        have hk := hplan n k f hp
        -- nothing on the way down to `p` is frozen
        have habove : ∀ q, q <+: p → s.frozen q = false := by
          intro q hq
          cases hfq : s.frozen q with
          | false => rfl
          | true => rw [h.frozen_down q p hfq hq] at hf'; cases hf'
        refine ⟨?_, ?_, ?_⟩
        · intro q m hq
          simp only at hq ⊢
          by_cases hunder : (p ++ [k]).isPrefixOf q = true
          · simp only [hunder, if_true]; exact cacheOK_empty m
          · simp only [hunder, if_false, Bool.false_eq_true]
            by_cases hqp : q <+: p
            · rw [h.cache_only_frozen q (habove q hqp)]; exact cacheOK_empty m
            · have hnot : ¬ (p ++ [k]) <+: q := by
                intro hc; exact hunder (List.isPrefixOf_iff_prefix.mpr hc)
              rw [at_updAt_other k f hk p s.tree q hqp hnot] at hq
              exact h.cache_current q m hq
        · intro q hq
          simp only at hq ⊢
          by_cases hunder : (p ++ [k]).isPrefixOf q = true
          · simp only [hunder, if_true]
          · simp only [hunder, if_false, Bool.false_eq_true] at hq ⊢
            exact h.cache_only_frozen q hq
        · intro q q' hq hqq
          simp only at hq ⊢
          by_cases hunder : (p ++ [k]).isPrefixOf q = true
          · simp [hunder] at hq
          · simp only [hunder, if_false, Bool.false_eq_true] at hq
            have hq' := h.frozen_down q q' hq hqq
            by_cases hunder' : (p ++ [k]).isPrefixOf q' = true
            · exfalso
              have hpk : (p ++ [k]) <+: q' := List.isPrefixOf_iff_prefix.mp hunder'
              rcases List.prefix_or_prefix_of_prefix hpk hqq with h1 | h1
              · exact hunder (List.isPrefixOf_iff_prefix.mpr h1)
              · rcases prefix_concat_cases h1 with rfl | h2
                · exact hunder (List.isPrefixOf_iff_prefix.mpr (List.prefix_refl _))
                · rw [habove q h2] at hq; cases hq
            · simp only [hunder', if_false, Bool.false_eq_true]; exact hq'

/-- every plan of `modPlan` touches one key only -/
theorem modPlan_keeps {V} (n : Node V) (op : TOp V) (k : String) (f)
    (h : modPlan n op = some (k, f)) : KeepsOthers k f := by
  cases op with
  | setAttr p k' v =>
    cases n with
    | model cls ctor attrs =>
      simp only [modPlan] at h
      by_cases hu : k'.toList.contains '_' = true
      · simp only [hu, if_true] at h
        cases hl : lookupAttr attrs (keyPrefix k') with
        | none => simp only [hl, Option.some.injEq, Prod.mk.injEq] at h; obtain ⟨rfl, rfl⟩ := h; exact keeps_setKey _ _
        | some c =>
          cases c <;> simp only [hl, Option.some.injEq, Prod.mk.injEq] at h <;> obtain ⟨rfl, rfl⟩ := h
          all_goals first | exact keeps_setKey _ _ | exact keeps_updKey _ _
      · simp only [hu, if_false, Bool.false_eq_true, Option.some.injEq, Prod.mk.injEq] at h
        obtain ⟨rfl, rfl⟩ := h; exact keeps_setKey _ _
    | coll attrs =>
      simp only [modPlan, Option.some.injEq, Prod.mk.injEq] at h
      obtain ⟨rfl, rfl⟩ := h; exact keeps_setKey _ _
    | _ => simp [modPlan] at h
  | remove p k' =>
    cases n with
    | coll attrs =>
      simp only [modPlan, Option.some.injEq, Prod.mk.injEq] at h
      obtain ⟨rfl, rfl⟩ := h; exact keeps_eraseKey _
    | _ => simp [modPlan] at h
  | _ => simp [modPlan] at h

/-- is the operation covered, in this state? -/
def topOk {V} (s : TState V) : TOp V → Prop
  | .unfreeze p => tunfreezeSafe s p = true
  | _ => True

theorem tstep_preserves {V} [Inhabited V] (ops : Ops V) (s : TState V) (op : TOp V) (h : TInv s)
    (hop : topOk s op) : TInv (tstep ops s op).1 := by
  cases op with
  | query p q =>
    simp only [tstep]
    cases hat : s.tree.at p with
    | none => exact h
    | some n =>
      simp only
      by_cases ho : n.isObj = true
      · simp only [ho, if_true]
        refine ⟨?_, ?_, h.frozen_down⟩
        · intro x m hx
          simp only at hx ⊢
          by_cases hxp : x = p
          · subst hxp
            rw [hat] at hx; cases hx
            simp only [if_true]
            exact (tquery_ok ops _ _ _ q (h.cache_current x _ hat)).1
          · simp only [hxp, if_false]; exact h.cache_current x m hx
        · intro x hx
          simp only at hx ⊢
          by_cases hxp : x = p
          · subst hxp
            simp only [if_true, hx, tquery_unfrozen_cache]
            exact h.cache_only_frozen x hx
          · simp only [hxp, if_false]; exact h.cache_only_frozen x hx
      · simp only [ho, if_false, Bool.false_eq_true]; exact h
  | freeze p =>
    refine ⟨h.cache_current, ?_, ?_⟩
    · intro x hx
      simp only [tstep] at hx ⊢
      by_cases hm : p.isPrefixOf x = true
      · simp [hm] at hx
      · simp only [hm, if_false, Bool.false_eq_true] at hx; exact h.cache_only_frozen x hx
    · intro x x' hx hxx
      simp only [tstep] at hx ⊢
      by_cases hm : p.isPrefixOf x = true
      · have : p.isPrefixOf x' = true :=
          List.isPrefixOf_iff_prefix.mpr (List.IsPrefix.trans (List.isPrefixOf_iff_prefix.mp hm) hxx)
        simp [this]
      · simp only [hm, if_false, Bool.false_eq_true] at hx
        have := h.frozen_down x x' hx hxx
        by_cases hm' : p.isPrefixOf x' = true <;> simp [hm', this]
  | unfreeze p =>
    have hsafe := safe_spec s p hop
    refine ⟨?_, ?_, ?_⟩
    · intro x m hx
      simp only [tstep] at hx ⊢
      by_cases hm : p.isPrefixOf x = true
      · simp only [hm, if_true]; exact cacheOK_empty m
      · simp only [hm, if_false, Bool.false_eq_true]; exact h.cache_current x m hx
    · intro x hx
      simp only [tstep] at hx ⊢
      by_cases hm : p.isPrefixOf x = true
      · simp [hm]
      · simp only [hm, if_false, Bool.false_eq_true] at hx ⊢; exact h.cache_only_frozen x hx
    · intro x x' hx hxx
      simp only [tstep] at hx ⊢
      by_cases hm : p.isPrefixOf x = true
      · simp [hm] at hx
      · simp only [hm, if_false, Bool.false_eq_true] at hx
        have hx' := h.frozen_down x x' hx hxx
        by_cases hm' : p.isPrefixOf x' = true
        · exfalso
          rcases List.prefix_or_prefix_of_prefix (List.isPrefixOf_iff_prefix.mp hm') hxx with h1 | h1
          · exact hm (List.isPrefixOf_iff_prefix.mpr h1)
          · have hne : x ≠ p := by
              rintro rfl; exact hm (List.isPrefixOf_iff_prefix.mpr (List.prefix_refl _))
            rw [hsafe x h1 hne] at hx; cases hx
        · simp only [hm', if_false, Bool.false_eq_true]; exact hx'
  | setAttr p k v => exact tmodify_preserves s p _ h (fun n k f => modPlan_keeps n _ k f)
  | remove p k => exact tmodify_preserves s p _ h (fun n k f => modPlan_keeps n _ k f)
  | failing p => exact h

/-- **a query is answered from the current composition** -/
theorem tstep_query_fresh {V} [Inhabited V] (ops : Ops V) (s : TState V) (p : Path) (q : TQuery V)
    (n : Node V) (h : TInv s) (hat : s.tree.at p = some n) (ho : n.isObj = true) :
    ∃ c, (tstep ops s (.query p q)).2 = .answered c ∧ c = tanswer ops n q := by
  simp only [tstep, hat, ho, if_true]
  exact ⟨_, rfl, (tquery_ok ops _ _ _ q (h.cache_current p n hat)).2⟩

end AF.FT
