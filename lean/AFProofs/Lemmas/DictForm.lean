import AFModel.DictForm
import AFProofs.Lemmas.Persist

/-! The reader applied to the written dictionary form is an identity renaming of the composition
(with the operand names a reload gives to arithmetic priors). -/

namespace AF

/-! ### the load state -/

/-- process ids in order -/
def extend (s : LoadSt) : List Nat → LoadSt
  | [] => s
  | id :: rest => extend (loadPrior s id).2 rest

theorem extend_append (s : LoadSt) : ∀ (a b : List Nat), extend s (a ++ b) = extend (extend s a) b
  | [], b => rfl
  | x :: a, b => by simp only [List.cons_append, extend]; exact extend_append _ a b

theorem find_append_of_some {α} (p : α → Bool) (l m : List α) (x : α) (h : l.find? p = some x) :
    (l ++ m).find? p = some x := by
  rw [List.find?_append, h]; rfl

theorem loadPrior_lookup_self (s : LoadSt) (id : Nat) :
    (loadPrior s id).2.lookup id = some (loadPrior s id).1 := by
  unfold loadPrior
  cases h : s.lookup id with
  | some k => simpa using h
  | none =>
    simp only [LoadSt.lookup] at h ⊢
    have hnone : s.loaded.find? (fun x => x.1 == id) = none := by
      cases hf : s.loaded.find? (fun x => x.1 == id) with
      | none => rfl
      | some y => simp [hf] at h
    simp [List.find?_append, hnone]

theorem loadPrior_lookup_stable (s : LoadSt) (id j k : Nat) (h : s.lookup j = some k) :
    (loadPrior s id).2.lookup j = some k := by
  unfold loadPrior
  cases h' : s.lookup id with
  | some _ => simpa using h
  | none =>
    simp only [LoadSt.lookup] at h ⊢
    cases hf : s.loaded.find? (fun x => x.1 == j) with
    | none => simp [hf] at h
    | some y =>
      rw [find_append_of_some _ _ _ _ hf]
      simpa [hf] using h

theorem extend_lookup_stable : ∀ (l : List Nat) (s : LoadSt) (j k : Nat),
    s.lookup j = some k → (extend s l).lookup j = some k
  | [], _, _, _, h => h
  | id :: rest, s, j, k, h => extend_lookup_stable rest _ j k (loadPrior_lookup_stable s id j k h)

theorem extend_lookup_mem : ∀ (l : List Nat) (s : LoadSt) (j : Nat), j ∈ l →
    ∃ k, (extend s l).lookup j = some k
  | [], _, _, h => by simp at h
  | id :: rest, s, j, h => by
    by_cases hj : j = id
    · subst hj
      exact ⟨_, extend_lookup_stable rest _ j _ (loadPrior_lookup_self s j)⟩
    · have : j ∈ rest := by
        rcases List.mem_cons.mp h with h | h
        · exact absurd h hj
        · exact h
      exact extend_lookup_mem rest _ j this

/-- the id map read off a load state -/
def sigmaOf (s : LoadSt) (id : Nat) : Nat := (s.lookup id).getD 0

/-! ### every id a renaming touches -/

mutual
def allIds {V} : Node V → List Nat
  | .prior id => [id]
  | .const _ => []
  | .opaque _ => []
  | .model _ _ attrs => allIdsAttrs attrs
  | .coll attrs => allIdsAttrs attrs
  | .tuple attrs => allIdsAttrs attrs
  | .arith _ attrs l r => allIdsAttrs attrs ++ allIds l ++ allIds r
  | .modif _ attrs x => allIdsAttrs attrs ++ allIds x
  | .array _ attrs => allIdsAttrs attrs
def allIdsAttrs {V} : List (String × Node V) → List Nat
  | [] => []
  | (_, n) :: rest => allIds n ++ allIdsAttrs rest
end

mutual
theorem renameIds_congr {V} (σ τ : Nat → Nat) : ∀ (n : Node V),
    (∀ id ∈ allIds n, σ id = τ id) → renameIds σ n = renameIds τ n
  | .prior id, h => by simp [renameIds, h id (by simp [allIds])]
  | .const _, _ => by simp [renameIds]
  | .opaque _, _ => by simp [renameIds]
  | .model _ _ attrs, h => by simp [renameIds, renameAttrs_congr σ τ attrs (by simpa [allIds] using h)]
  | .coll attrs, h => by simp [renameIds, renameAttrs_congr σ τ attrs (by simpa [allIds] using h)]
  | .tuple attrs, h => by simp [renameIds, renameAttrs_congr σ τ attrs (by simpa [allIds] using h)]
  | .array _ attrs, h => by simp [renameIds, renameAttrs_congr σ τ attrs (by simpa [allIds] using h)]
  | .arith _ attrs l r, h => by
      simp only [allIds, List.mem_append] at h
      simp [renameIds, renameAttrs_congr σ τ attrs (fun id hi => h id (Or.inl (Or.inl hi))),
        renameIds_congr σ τ l (fun id hi => h id (Or.inl (Or.inr hi))),
        renameIds_congr σ τ r (fun id hi => h id (Or.inr hi))]
  | .modif _ attrs x, h => by
      simp only [allIds, List.mem_append] at h
      simp [renameIds, renameAttrs_congr σ τ attrs (fun id hi => h id (Or.inl hi)),
        renameIds_congr σ τ x (fun id hi => h id (Or.inr hi))]
theorem renameAttrs_congr {V} (σ τ : Nat → Nat) : ∀ (attrs : List (String × Node V)),
    (∀ id ∈ allIdsAttrs attrs, σ id = τ id) → renameAttrs σ attrs = renameAttrs τ attrs
  | [], _ => by simp [renameAttrs]
  | (k, n) :: rest, h => by
    simp only [allIdsAttrs, List.mem_append] at h
    simp [renameAttrs, renameIds_congr σ τ n (fun id hi => h id (Or.inl hi)),
      renameAttrs_congr σ τ rest (fun id hi => h id (Or.inr hi))]
end

/-! ### the order in which the reader meets the ids -/

mutual
def loadOrder {V} : Node V → List Nat
  | .prior id => [id]
  | .const _ => []
  | .opaque _ => []
  | .model _ _ attrs => loadOrderAttrs attrs
  | .coll attrs => loadOrderAttrs attrs
  | .tuple attrs => loadOrderAttrs attrs
  | .arith _ _ l r => loadOrder l ++ loadOrder r
  | .modif _ _ x => loadOrder x
  | .array _ attrs => loadOrderAttrs attrs
def loadOrderAttrs {V} : List (String × Node V) → List Nat
  | [] => []
  | (_, n) :: rest => loadOrder n ++ loadOrderAttrs rest
end

theorem mem_allIds_operandAttrs {V} (a b : Node V) (id : Nat)
    (h : id ∈ allIdsAttrs (operandAttrs a b)) : id ∈ allIds a ∨ id ∈ allIds b := by
  unfold operandAttrs at h
  split at h
  · simp only [allIdsAttrs, List.append_nil] at h; exact Or.inr h
  · simp only [allIdsAttrs, List.append_nil, List.mem_append] at h; exact h

mutual
/-- every id of the canonically named composition is met by the reader -/
theorem allIds_canon_sub {V} : ∀ (n : Node V) (id : Nat), id ∈ allIds (canonNames n) → id ∈ loadOrder n
  | .prior i, id, h => by simpa [canonNames, allIds, loadOrder] using h
  | .const _, id, h => by simp [canonNames, allIds] at h
  | .opaque _, id, h => by simp [canonNames, allIds] at h
  | .model _ _ attrs, id, h => by
      simp only [canonNames, allIds] at h; simp only [loadOrder]; exact allIdsAttrs_canon_sub attrs id h
  | .coll attrs, id, h => by
      simp only [canonNames, allIds] at h; simp only [loadOrder]; exact allIdsAttrs_canon_sub attrs id h
  | .tuple attrs, id, h => by
      simp only [canonNames, allIds] at h; simp only [loadOrder]; exact allIdsAttrs_canon_sub attrs id h
  | .array _ attrs, id, h => by
      simp only [canonNames, allIds] at h; simp only [loadOrder]; exact allIdsAttrs_canon_sub attrs id h
  | .arith _ _ l r, id, h => by
      simp only [canonNames, allIds, List.mem_append] at h
      simp only [loadOrder, List.mem_append]
      rcases h with (h | h) | h
      · rcases mem_allIds_operandAttrs _ _ id h with h | h
        · exact Or.inl (allIds_canon_sub l id h)
        · exact Or.inr (allIds_canon_sub r id h)
      · exact Or.inl (allIds_canon_sub l id h)
      · exact Or.inr (allIds_canon_sub r id h)
  | .modif _ _ x, id, h => by
      simp only [canonNames, allIds, allIdsAttrs, List.mem_append, List.append_nil] at h
      simp only [loadOrder]
      rcases h with h | h <;> exact allIds_canon_sub x id h
theorem allIdsAttrs_canon_sub {V} : ∀ (attrs : List (String × Node V)) (id : Nat),
    id ∈ allIdsAttrs (canonNamesAttrs attrs) → id ∈ loadOrderAttrs attrs
  | [], id, h => by simp [canonNamesAttrs, allIdsAttrs] at h
  | (k, n) :: rest, id, h => by
    simp only [canonNamesAttrs, allIdsAttrs, List.mem_append] at h
    simp only [loadOrderAttrs, List.mem_append]
    rcases h with h | h
    · exact Or.inl (allIds_canon_sub n id h)
    · exact Or.inr (allIdsAttrs_canon_sub rest id h)
end

/-- ids met while reading `n` keep their new id when more is read afterwards -/
theorem sigma_stable (s : LoadSt) (a b : List Nat) (id : Nat) (h : id ∈ a) :
    sigmaOf (extend s a) id = sigmaOf (extend (extend s a) b) id := by
  obtain ⟨k, hk⟩ := extend_lookup_mem a s id h
  simp [sigmaOf, hk, extend_lookup_stable b _ id k hk]

/-! ### the new ids are distinct for distinct old ids -/

/-- invariant of a load state: distinct stored ids have distinct new ids, all below `next` -/
def LoadSt.Good (s : LoadSt) : Prop :=
  (∀ i k, s.lookup i = some k → k < s.next) ∧
  (∀ i j k, s.lookup i = some k → s.lookup j = some k → i = j)

theorem good_init (base : Nat) : ({ next := base } : LoadSt).Good := by
  constructor <;> intro i <;> simp [LoadSt.lookup]

theorem lookup_loadPrior_cases (s : LoadSt) (id j k : Nat) (h : (loadPrior s id).2.lookup j = some k) :
    s.lookup j = some k ∨ (s.lookup id = none ∧ j = id ∧ k = s.next) := by
  unfold loadPrior at h
  cases h' : s.lookup id with
  | some _ => rw [h'] at h; exact Or.inl h
  | none =>
    rw [h'] at h
    simp only [LoadSt.lookup] at h ⊢
    rw [List.find?_append] at h
    cases hf : s.loaded.find? (fun x => x.1 == j) with
    | some y => simp [hf] at h; left; simp [h]
    | none =>
      simp only [hf, Option.none_or, List.find?_cons, List.find?_nil] at h
      by_cases hj : id = j
      · subst hj; simp at h; right; exact ⟨trivial, rfl, h.symm⟩
      · have : (id == j) = false := by simpa using hj
        simp [this] at h

theorem good_loadPrior (s : LoadSt) (id : Nat) (h : s.Good) : (loadPrior s id).2.Good := by
  have hnext : s.next ≤ (loadPrior s id).2.next := by
    unfold loadPrior; cases s.lookup id <;> simp
  constructor
  · intro i k hk
    rcases lookup_loadPrior_cases s id i k hk with h1 | ⟨h1, _, rfl⟩
    · exact Nat.lt_of_lt_of_le (h.1 i k h1) hnext
    · unfold loadPrior; simp [h1]
  · intro i j k hi hj
    rcases lookup_loadPrior_cases s id i k hi with h1 | ⟨_, rfl, rfl⟩
    · rcases lookup_loadPrior_cases s id j k hj with h2 | ⟨_, rfl, rfl⟩
      · exact h.2 i j k h1 h2
      · exact absurd (h.1 i _ h1) (Nat.lt_irrefl _)
    · rcases lookup_loadPrior_cases s i j _ hj with h2 | ⟨_, rfl, _⟩
      · exact absurd (h.1 j _ h2) (Nat.lt_irrefl _)
      · rfl

theorem good_extend : ∀ (l : List Nat) (s : LoadSt), s.Good → (extend s l).Good
  | [], _, h => h
  | id :: rest, s, h => good_extend rest _ (good_loadPrior s id h)

theorem sigmaOf_injective (s : LoadSt) (l : List Nat) (h : s.Good) (i j : Nat) (hi : i ∈ l) (hj : j ∈ l)
    (he : sigmaOf (extend s l) i = sigmaOf (extend s l) j) : i = j := by
  obtain ⟨a, ha⟩ := extend_lookup_mem l s i hi
  obtain ⟨b, hb⟩ := extend_lookup_mem l s j hj
  simp only [sigmaOf, ha, hb, Option.getD_some] at he
  subst he
  exact (good_extend l s h).2 i j a ha hb


theorem sigma_inj_of_good (s : LoadSt) (h : s.Good) (i j : Nat)
    (hi : ∃ k, s.lookup i = some k) (hj : ∃ k, s.lookup j = some k)
    (he : sigmaOf s i = sigmaOf s j) : i = j := by
  obtain ⟨a, ha⟩ := hi
  obtain ⟨b, hb⟩ := hj
  simp only [sigmaOf, ha, hb, Option.getD_some] at he
  subst he
  exact h.2 i j a ha hb

theorem samePrior_rename {V} (σ : Nat → Nat) (a b : Node V)
    (hinj : ∀ i j, a = .prior i → b = .prior j → σ i = σ j → i = j) :
    samePrior (renameIds σ a) (renameIds σ b) = samePrior a b := by
  cases a <;> cases b <;> simp [renameIds, samePrior]
  rename_i i j
  by_cases h : i = j
  · subst h; simp
  · have hne : σ i ≠ σ j := fun e => h (hinj i j rfl rfl e)
    have h1 : (σ i == σ j) = false := by simpa using hne
    have h2 : (i == j) = false := by simpa using h
    rw [h1, h2]

theorem operandAttrs_rename {V} (σ : Nat → Nat) (a b : Node V)
    (hinj : ∀ i j, a = .prior i → b = .prior j → σ i = σ j → i = j) :
    operandAttrs (renameIds σ a) (renameIds σ b) = renameAttrs σ (operandAttrs a b) := by
  unfold operandAttrs
  rw [samePrior_rename σ a b hinj]
  split <;> simp [renameAttrs]

theorem canonNames_prior {V} (n : Node V) (i : Nat) (h : canonNames n = .prior i) : n = .prior i := by
  cases n <;> simp [canonNames] at h ⊢
  exact h

mutual
/-- **reader ∘ writer = renaming** (state-passing form) -/
theorem fromDict_toDict {V} : ∀ (n : Node V) (s : LoadSt), s.Good →
    fromDict (toDict n) s =
      (renameIds (sigmaOf (extend s (loadOrder n))) (canonNames n), extend s (loadOrder n))
  | .prior id, s, _ => by
      simp only [toDict, fromDict, loadOrder, extend, canonNames, renameIds]
      have := loadPrior_lookup_self s id
      simp [sigmaOf, this]
  | .const _, s, _ => by simp [toDict, fromDict, loadOrder, extend, canonNames, renameIds]
  | .opaque _, s, _ => by simp [toDict, fromDict, loadOrder, extend, canonNames, renameIds]
  | .model cls ctor attrs, s, hs => by
      simp only [toDict, fromDict, loadOrder, canonNames, renameIds]
      rw [fromDictAttrs_toDict attrs s hs]
  | .coll attrs, s, hs => by
      simp only [toDict, fromDict, loadOrder, canonNames, renameIds]
      rw [fromDictAttrs_toDict attrs s hs]
  | .tuple attrs, s, hs => by
      simp only [toDict, fromDict, loadOrder, canonNames, renameIds]
      rw [fromDictAttrs_toDict attrs s hs]
  | .array shape attrs, s, hs => by
      simp only [toDict, fromDict, loadOrder, canonNames, renameIds]
      rw [fromDictAttrs_toDict attrs s hs]
  | .arith op attrs l r, s, hs => by
      simp only [toDict, fromDict, loadOrder, canonNames, renameIds]
      have hs₁ := good_extend (loadOrder l) s hs
      rw [fromDict_toDict l s hs, fromDict_toDict r (extend s (loadOrder l)) hs₁]
      simp only [extend_append]
      have hl : renameIds (sigmaOf (extend s (loadOrder l))) (canonNames l) =
          renameIds (sigmaOf (extend (extend s (loadOrder l)) (loadOrder r))) (canonNames l) :=
        renameIds_congr _ _ _ (fun id hi => sigma_stable s _ _ id (allIds_canon_sub l id hi))
      rw [hl]
      have hs₂ := good_extend (loadOrder r) _ hs₁
      rw [operandAttrs_rename]
      intro i j hi hj he
      have hli := canonNames_prior l i hi
      have hrj := canonNames_prior r j hj
      refine sigma_inj_of_good _ hs₂ i j ?_ ?_ he
      · obtain ⟨k, hk⟩ := extend_lookup_mem (loadOrder l) s i (by rw [hli]; simp [loadOrder])
        exact ⟨k, extend_lookup_stable _ _ i k hk⟩
      · exact extend_lookup_mem (loadOrder r) _ j (by rw [hrj]; simp [loadOrder])
  | .modif op attrs x, s, hs => by
      simp only [toDict, fromDict, loadOrder, canonNames, renameIds, renameAttrs]
      rw [fromDict_toDict x s hs]
theorem fromDictAttrs_toDict {V} : ∀ (attrs : List (String × Node V)) (s : LoadSt), s.Good →
    fromDictAttrs (toDictAttrs attrs) s =
      (renameAttrs (sigmaOf (extend s (loadOrderAttrs attrs))) (canonNamesAttrs attrs),
       extend s (loadOrderAttrs attrs))
  | [], s, _ => by simp [toDictAttrs, fromDictAttrs, loadOrderAttrs, extend, canonNamesAttrs, renameAttrs]
  | (k, n) :: rest, s, hs => by
      simp only [toDictAttrs, fromDictAttrs, loadOrderAttrs, canonNamesAttrs, renameAttrs]
      rw [fromDict_toDict n s hs, fromDictAttrs_toDict rest (extend s (loadOrder n)) (good_extend _ s hs)]
      simp only [extend_append]
      have hn : renameIds (sigmaOf (extend s (loadOrder n))) (canonNames n) =
          renameIds (sigmaOf (extend (extend s (loadOrder n)) (loadOrderAttrs rest))) (canonNames n) :=
        renameIds_congr _ _ _ (fun id hi => sigma_stable s _ _ id (allIds_canon_sub n id hi))
      rw [hn]
end

/-! ### compositions without arithmetic priors -/

mutual
def NoArith {V} : Node V → Prop
  | .prior _ => True
  | .const _ => True
  | .opaque _ => True
  | .model _ _ attrs => NoArithAttrs attrs
  | .coll attrs => NoArithAttrs attrs
  | .tuple attrs => NoArithAttrs attrs
  | .array _ attrs => NoArithAttrs attrs
  | .arith _ _ _ _ => False
  | .modif _ _ _ => False
def NoArithAttrs {V} : List (String × Node V) → Prop
  | [] => True
  | (_, n) :: rest => NoArith n ∧ NoArithAttrs rest
end

end AF
