import AFModel.RecCache

namespace AF.RC
open AF

mutual
theorem rcall_cache : ∀ (s : RState) (c : RCall), (rcall s c).1.cache = s.cache
  | s, .node id raises children => by
    unfold rcall
    by_cases h : id ∈ s.cache
    · rw [if_pos (by simpa using h)]
    · have ih := rchildren_cache { cache := id :: s.cache, trace := s.trace ++ [id] } children
      rw [if_neg (by simpa using h)]
      simp only
      split
      · simp [ih]
      · split <;> simp [ih]
theorem rchildren_cache : ∀ (s : RState) (cs : List RCall), (rchildren s cs).1.cache = s.cache
  | s, [] => by simp [rchildren]
  | s, c :: rest => by
    unfold rchildren
    have h1 := rcall_cache s c
    simp only
    split
    · exact h1
    · rw [rchildren_cache _ rest, h1]
end

theorem rcalls_cache : ∀ (cs : List RCall) (s : RState), (rcalls s cs).1.cache = s.cache
  | [], s => rfl
  | c :: rest, s => by
    simp only [rcalls]
    rw [rcalls_cache rest, rcall_cache]

end AF.RC
