import AFModel.EPPlate
import AFProofs.Lemmas.EP

/-! Helper lemmas for the plate / array part of C18 (`AFModel/EPPlate.lean`): taking element `i` of
every array commutes with everything the bookkeeping does. Core Lean only. -/

namespace AF.EP

variable {G : Type} {I : Type}

theorem lookup_sliceField (i : I) (q : Field (I → G)) (v : Nat) :
    lookup (sliceField i q) v = (lookup q v).map (fun x => x i) := by
  induction q with
  | nil => rfl
  | cons p rest ih =>
    obtain ⟨k, x⟩ := p
    show (if k == v then some (x i) else lookup (sliceField i rest) v) =
      (if k == v then some x else lookup rest v).map (fun x => x i)
    cases h : (k == v)
    · simpa using ih
    · simp

theorem get_sliceState (i : I) (s : State (I → G)) (f v : Nat) :
    (sliceState i s).get f v = (s.get f v).map (fun x => x i) := by
  induction s with
  | nil => rfl
  | cons p rest ih =>
    obtain ⟨g, fld⟩ := p
    show (if g == f then lookup (sliceField i fld) v else State.get (sliceState i rest) f v) =
      (if g == f then lookup fld v else State.get rest f v).map (fun x => x i)
    cases h : (g == f)
    · simpa using ih
    · simpa using lookup_sliceField i fld v

section
variable [EtaSpace G]

theorem val_map (i : I) (o : Option (I → G)) : val (o.map (fun x => x i)) = (val o) i := by
  cases o <;> rfl

theorem total_slice (i : I) (s : State (I → G)) (v : Nat) (l : List Nat) :
    total (sliceState i s) v l = (total s v l) i := by
  induction l with
  | nil => rfl
  | cons g rest ih =>
    show val ((sliceState i s).get g v) + total (sliceState i s) v rest =
      (val (s.get g v) + total s v rest) i
    rw [get_sliceState, val_map, ih]
    rfl

omit [EtaSpace G] in
theorem present_slice (i : I) (s : State (I → G)) (v : Nat) (l : List Nat) :
    present (sliceState i s) v l = present s v l := by
  simp [present, get_sliceState]

theorem cavityOpt_slice (i : I) (fs : List Nat) (s : State (I → G)) (f v : Nat) :
    cavityOpt fs (sliceState i s) f v = (cavityOpt fs s f v).map (fun x => x i) := by
  unfold cavityOpt cavity
  rw [get_sliceState, present_slice, total_slice]
  cases h : ((s.get f v).isSome && present s v (others fs f)) <;> simp [h]

theorem modelOpt_slice (i : I) (fs : List Nat) (s : State (I → G)) (f v : Nat) :
    modelOpt fs (sliceState i s) f v = (modelOpt fs s f v).map (fun x => x i) := by
  unfold modelOpt
  rw [get_sliceState, cavityOpt_slice, val_map]
  cases s.get f v <;> rfl

theorem globalOpt_slice (i : I) (fs : List Nat) (s : State (I → G)) (v : Nat) :
    globalOpt fs (sliceState i s) v = (globalOpt fs s v).map (fun x => x i) := by
  unfold globalOpt global
  rw [present_slice, total_slice]
  cases h : present s v fs <;> simp

theorem approx_slice (i : I) (fs : List Nat) (s : State (I → G)) (f : Nat) :
    sliceApprox i (approx fs s f) = approx fs (sliceState i s) f := by
  simp only [sliceApprox, approx]
  congr 1
  · funext v; exact (cavityOpt_slice i fs s f v).symm
  · funext v; exact (get_sliceState i s f v).symm
  · funext v; exact (modelOpt_slice i fs s f v).symm

theorem candidate_slice (i : I) (a : Approx (I → G)) (d : Option Rat) (v : Nat) (qv : I → G) :
    candidate (sliceApprox i a) d v (qv i) = (candidate a d v qv) i := by
  cases d with
  | none =>
    show qv i - val ((a.cavity v).map (fun x => x i)) = (qv - val (a.cavity v)) i
    rw [val_map]; rfl
  | some d =>
    show (d • qv i + (1 - d) • val ((a.old v).map (fun x => x i))) - d • val ((a.cavity v).map (fun x => x i))
      = ((d • qv + (1 - d) • val (a.old v)) - d • val (a.cavity v)) i
    rw [val_map, val_map]; rfl

theorem newMsgArr_slice (valid : G → Bool) (i : I) (a : Approx (I → G)) (δ : Delta) (v : Nat)
    (qv : I → G) : newMsgArr valid a δ v qv i = newMsg valid (sliceApprox i a) δ v (qv i) := by
  unfold newMsgArr newMsg
  simp only [candidate_slice]
  show _ = if valid (candidate a (δ.at v) v qv i) = true then candidate a (δ.at v) v qv i
    else match (a.old v).map (fun x => x i) with
      | some o => o
      | none => candidate a (δ.at v) v qv i
  cases a.old v with
  | none => simp
  | some o => simp

theorem newFieldArr_slice (valid : G → Bool) (i : I) (a : Approx (I → G)) (q : Field (I → G))
    (δ : Delta) :
    sliceField i (newFieldArr valid a q δ) = newField valid (sliceApprox i a) (sliceField i q) δ := by
  simp only [sliceField, newFieldArr, newField, List.map_map]
  apply List.map_congr_left
  intro p _
  obtain ⟨v, qv⟩ := p
  simp [newMsgArr_slice]

theorem projectArr_slice (valid : G → Bool) (i : I) (s : State (I → G)) (a : Approx (I → G))
    (q : Field (I → G)) (δ : Delta) :
    sliceState i (projectArr valid s a q δ) =
      project valid (sliceState i s) (sliceApprox i a) (sliceField i q) δ := by
  show (a.f, sliceField i (newFieldArr valid a q δ)) :: sliceState i s = _
  rw [newFieldArr_slice]
  rfl

/-! ### subtraction-free algebra for the batch approximation -/

theorem share_split (r : Rat) (m : G) : r • m + (1 - r) • m = m := by
  rw [← EtaSpace.add_smul]
  have : r + (1 - r) = 1 := by grind
  rw [this, EtaSpace.one_smul]

theorem full_cancel_share (q c x : G) : ((q - (c + x)) + x) + c = q := by
  rw [EtaSpace.add_assoc, EtaSpace.add_comm x c]
  exact EtaSpace.sub_add_cancel q (c + x)

end

/-! ### plate indexing -/

theorem posOf_some (axes : List Axis) (i k : Nat) (h : posOf axes i = some k) :
    flatIdx axes k = i ∧ k < subSize axes := by
  unfold posOf at h
  have h1 := List.find?_some h
  have h2 := List.mem_of_find?_eq_some h
  simp at h1 h2
  exact ⟨h1, h2⟩

theorem posOf_none (axes : List Axis) (i : Nat) (h : posOf axes i = none) :
    ∀ k, k < subSize axes → flatIdx axes k ≠ i := by
  unfold posOf at h
  rw [List.find?_eq_none] at h
  intro k hk e
  exact h k (by simp [hk]) (by simp [e])

theorem posOf_isSome_of_hit (axes : List Axis) (k : Nat) (hk : k < subSize axes) :
    ∃ k', posOf axes (flatIdx axes k) = some k' := by
  cases h : posOf axes (flatIdx axes k) with
  | some k' => exact ⟨k', rfl⟩
  | none => exact absurd rfl (posOf_none axes _ h k hk)

end AF.EP
