import AFModel.NameKey
import AFProofs.Lemmas.NameOrd

/-! Facts about the member order `posLeL` (`_position_key` on character lists): it is total and
transitive, and it orders the names `name_i` made by `make_tuple_prior` by the *number* `i`, for every
`i` (no bound on the number of members). -/

namespace AF

theorem digitChar_toNat (d : Nat) (h : d < 10) : (digitChar d).toNat = 48 + d := by
  have : d = 0 ∨ d = 1 ∨ d = 2 ∨ d = 3 ∨ d = 4 ∨ d = 5 ∨ d = 6 ∨ d = 7 ∨ d = 8 ∨ d = 9 := by omega
  rcases this with h | h | h | h | h | h | h | h | h | h <;> subst h <;> decide

theorem isDigitC_digitChar (d : Nat) (h : d < 10) : isDigitC (digitChar d) = true := by
  simp only [isDigitC, digitChar_toNat d h, Bool.and_eq_true, decide_eq_true_eq]
  omega

theorem digitVal_digitChar (d : Nat) (h : d < 10) : digitVal (digitChar d) = d := by
  simp only [digitVal, digitChar_toNat d h]; omega

theorem digitChar_ne_underscore (d : Nat) (h : d < 10) : digitChar d ≠ '_' := by
  intro e
  have := digitChar_toNat d h
  rw [e] at this
  have h95 : ('_' : Char).toNat = 95 := by decide
  omega

theorem decDigits_lt (n : Nat) (h : n < 10) : decDigits n = [digitChar n] := by
  rw [decDigits]; simp [h]

theorem decDigits_ge (n : Nat) (h : ¬ n < 10) :
    decDigits n = decDigits (n / 10) ++ [digitChar (n % 10)] := by
  rw [decDigits]; simp [h]

theorem decDigits_ne_nil (n : Nat) : decDigits n ≠ [] := by
  by_cases h : n < 10
  · simp [decDigits_lt n h]
  · simp [decDigits_ge n h]

theorem decDigits_all_digit (n : Nat) : ∀ c ∈ decDigits n, isDigitC c = true := by
  induction n using Nat.strongRecOn with
  | _ n ih =>
    by_cases h : n < 10
    · intro c hc
      simp only [decDigits_lt n h, List.mem_singleton] at hc
      subst hc; exact isDigitC_digitChar n h
    · intro c hc
      rw [decDigits_ge n h] at hc
      rcases List.mem_append.mp hc with hc | hc
      · exact ih (n / 10) (by omega) c hc
      · simp only [List.mem_singleton] at hc
        subst hc; exact isDigitC_digitChar _ (by omega)

theorem decDigits_no_underscore (n : Nat) : '_' ∉ decDigits n := by
  intro hm
  have := decDigits_all_digit n '_' hm
  revert this; decide

theorem parseDec_append_single (cs : List Char) (c : Char) :
    parseDec (cs ++ [c]) = parseDec cs * 10 + digitVal c := by
  simp [parseDec, List.foldl_append]

/-- `int(str(n)) = n` -/
theorem parseDec_decDigits (n : Nat) : parseDec (decDigits n) = n := by
  induction n using Nat.strongRecOn with
  | _ n ih =>
    by_cases h : n < 10
    · simp [decDigits_lt n h, parseDec, digitVal_digitChar n h]
    · rw [decDigits_ge n h, parseDec_append_single, ih (n / 10) (by omega),
        digitVal_digitChar _ (by omega)]
      omega

theorem rpartL_none (s : List Char) (h : '_' ∉ s) : rpartL s = none := by
  induction s with
  | nil => rfl
  | cons c cs ih =>
    have hc : c ≠ '_' := fun e => h (by simp [e])
    have hcs : '_' ∉ cs := fun m => h (List.mem_cons_of_mem _ m)
    simp [rpartL, ih hcs, hc]

/-- `(p + "_" + s).rpartition("_") = (p, "_", s)` when `s` holds no underscore -/
theorem rpartL_append (p s : List Char) (h : '_' ∉ s) : rpartL (p ++ '_' :: s) = some (p, s) := by
  induction p with
  | nil => simp [rpartL, rpartL_none s h]
  | cons c cs ih => simp [rpartL, ih]

theorem posKeyL_member (p : List Char) (i : Nat) :
    posKeyL (p ++ '_' :: decDigits i) = (p, (i : Int), p ++ '_' :: decDigits i) := by
  have hall : (decDigits i).all isDigitC = true := by
    rw [List.all_eq_true]; exact decDigits_all_digit i
  simp only [posKeyL, rpartL_append p _ (decDigits_no_underscore i)]
  rw [if_pos ⟨decDigits_ne_nil i, hall⟩, parseDec_decDigits]

/-- the key of `name_i` is `(name, i, name_i)`, for every `i` -/
theorem posKeyS_memberName (name : String) (i : Nat) :
    posKeyS (memberName name i) = (name, (i : Int), memberName name i) := by
  simp only [posKeyS, memberName, String.toList_ofList, posKeyL_member, String.ofList_toList]

theorem posLeL_eq_lex3 (a b : String) : posLeL a b = lex3 (posKeyS a) (posKeyS b) := rfl

theorem posLeL_total (a b : String) : posLeL a b = true ∨ posLeL b a = true := by
  rw [posLeL_eq_lex3, posLeL_eq_lex3]; exact lex3_total _ _

theorem posLeL_trans (a b c : String) (h1 : posLeL a b = true) (h2 : posLeL b c = true) :
    posLeL a c = true := by
  rw [posLeL_eq_lex3] at h1 h2 ⊢; exact lex3_trans _ _ _ h1 h2

/-- **members are ordered by their number**: `name_i ≤ name_j` in the member order iff `i ≤ j`,
whatever the number of digits (`name_2` before `name_10`, `name_99` before `name_100`, …) -/
theorem posLeL_memberName (name : String) (i j : Nat) :
    posLeL (memberName name i) (memberName name j) = decide (i ≤ j) := by
  rw [posLeL_eq_lex3, posKeyS_memberName, posKeyS_memberName]
  simp only [lex3]
  have hirr : ¬ name < name := String.lt_irrefl name
  simp only [hirr, if_false, if_true]
  rcases Nat.lt_trichotomy i j with h | h | h
  · have : (i : Int) < (j : Int) := by omega
    simp [this]; omega
  · subst h
    simp
  · have h1 : ¬ (i : Int) < (j : Int) := by omega
    have h2 : (i : Int) ≠ (j : Int) := by omega
    simp [h1, h2]; omega

end AF
