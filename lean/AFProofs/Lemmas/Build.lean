import AFModel.Build
import AFProofs.Lemmas.NameKey
import AFProofs.Lemmas.Comp

/-! Lemmas about `mkModel` (AFModel/Build.lean): attribute look-ups through the loops of
`Model.__init__`, and the tuple priors `make_tuple_prior` creates. -/

namespace AF

variable {V : Type}

theorem lookupAttr_append_of_some {α} (l m : List (String × α)) (a : String) (v : α)
    (h : lookupAttr l a = some v) : lookupAttr (l ++ m) a = some v := by
  induction l with
  | nil => simp [lookupAttr] at h
  | cons x rest ih =>
    obtain ⟨k, w⟩ := x
    simp only [List.cons_append, lookupAttr] at h ⊢
    by_cases hk : k = a
    · simpa [hk] using h
    · simp only [hk, if_false] at h ⊢; exact ih h

theorem lookupAttr_append_isSome {α} (l m : List (String × α)) (a : String)
    (h : (lookupAttr l a).isSome = true) : (lookupAttr (l ++ m) a).isSome = true := by
  obtain ⟨v, hv⟩ := Option.isSome_iff_exists.mp h
  rw [lookupAttr_append_of_some l m a v hv]; rfl

/-- `Model.__setattr__` filing a member inside a tuple prior keeps every attribute name -/
theorem appendToTuple_isSome (p key : String) (x : Node V) (attrs : List (String × Node V)) (a : String)
    (h : (lookupAttr attrs a).isSome = true) :
    (lookupAttr (appendToTuple p key x attrs) a).isSome = true := by
  induction attrs with
  | nil => simp [lookupAttr] at h
  | cons y rest ih =>
    obtain ⟨k, v⟩ := y
    simp only [appendToTuple]
    by_cases hp : k = p
    · simp only [hp, if_true]
      subst hp
      cases v <;> first
        | (simpa [lookupAttr] using h)
        | (simp only [lookupAttr] at h ⊢; by_cases hk : k = a <;> simp_all)
    · simp only [hp, if_false, lookupAttr] at h ⊢
      by_cases hk : k = a
      · simp [hk]
      · simp only [hk, if_false] at h ⊢; exact ih h

/-- … and every value that is not a tuple prior -/
theorem appendToTuple_of_not_tuple (p key : String) (x : Node V) (attrs : List (String × Node V))
    (a : String) (v : Node V) (hv : ∀ ms, v ≠ .tuple ms) (h : lookupAttr attrs a = some v) :
    lookupAttr (appendToTuple p key x attrs) a = some v := by
  induction attrs with
  | nil => simp [lookupAttr] at h
  | cons y rest ih =>
    obtain ⟨k, w⟩ := y
    simp only [appendToTuple]
    by_cases hp : k = p
    · simp only [hp, if_true]
      subst hp
      by_cases hk : k = a
      · subst hk
        simp only [lookupAttr, if_true, Option.some.injEq] at h
        subst h
        cases w <;> first | (exact absurd rfl (hv _)) | (simp [lookupAttr])
      · cases w <;> simpa [lookupAttr, hk] using h
    · simp only [hp, if_false, lookupAttr] at h ⊢
      by_cases hk : k = a
      · simpa [hk] using h
      · simp only [hk, if_false] at h ⊢; exact ih h

theorem setNew_isSome (attrs : List (String × Node V)) (key : String) (x : Node V) (a : String)
    (h : (lookupAttr attrs a).isSome = true) : (lookupAttr (setNew attrs key x) a).isSome = true := by
  unfold setNew
  split
  · exact appendToTuple_isSome _ _ _ _ _ h
  · exact lookupAttr_append_isSome _ _ _ h

theorem setNew_of_not_tuple (attrs : List (String × Node V)) (key : String) (x : Node V) (a : String)
    (v : Node V) (hv : ∀ ms, v ≠ .tuple ms) (h : lookupAttr attrs a = some v) :
    lookupAttr (setNew attrs key x) a = some v := by
  unfold setNew
  split
  · exact appendToTuple_of_not_tuple _ _ _ _ _ _ hv h
  · exact lookupAttr_append_of_some _ _ _ _ h

theorem addExtras_isSome (kw : List (String × Ov V)) : ∀ (attrs : List (String × Node V)) (n : Nat) (a : String),
    (lookupAttr attrs a).isSome = true → (lookupAttr (addExtras kw attrs n).1 a).isSome = true := by
  induction kw with
  | nil => intro attrs n a h; simpa [addExtras] using h
  | cons y rest ih =>
    intro attrs n a h
    obtain ⟨k, o⟩ := y
    simp only [addExtras]
    split
    · exact ih attrs n a h
    · exact ih _ _ a (setNew_isSome attrs k _ a h)

theorem addExtras_of_not_tuple (kw : List (String × Ov V)) : ∀ (attrs : List (String × Node V)) (n : Nat)
    (a : String) (v : Node V), (∀ ms, v ≠ .tuple ms) → lookupAttr attrs a = some v →
    lookupAttr (addExtras kw attrs n).1 a = some v := by
  induction kw with
  | nil => intro attrs n a v _ h; simpa [addExtras] using h
  | cons y rest ih =>
    intro attrs n a v hv h
    obtain ⟨k, o⟩ := y
    simp only [addExtras]
    split
    · exact ih attrs n a v hv h
    · exact ih _ _ a v hv (setNew_of_not_tuple attrs k _ a v hv h)

/-- the loop over the constructor arguments gives every argument that has no string default an
attribute of its own name -/
theorem mkArgs_isSome (kw : List (String × Ov V)) : ∀ (args : List (String × ArgD)) (n : Nat) (a : String) (d : ArgD),
    (a, d) ∈ args → (∀ t, d ≠ .str t) → (lookupAttr (mkArgs kw args n).1 a).isSome = true := by
  intro args
  induction args with
  | nil => intro n a d h; simp at h
  | cons y rest ih =>
    intro n a d hm hd
    obtain ⟨b, e⟩ := y
    have hrest : (a, d) ∈ rest → ∀ m, (lookupAttr (mkArgs kw rest m).1 a).isSome = true :=
      fun h m => ih m a d h hd
    rcases List.mem_cons.mp hm with heq | hin
    · simp only [Prod.mk.injEq] at heq
      obtain ⟨rfl, rfl⟩ := heq
      cases d <;> first | (exact absurd rfl (hd _)) | (simp [mkArgs, lookupAttr])
    · cases e with
      | str t => simpa [mkArgs] using hrest hin n
      | _ =>
        simp only [mkArgs, lookupAttr]
        by_cases hk : b = a
        · simp [hk]
        · simp only [hk, if_false]; exact hrest hin _

/-- … and an object given as keyword is held under the argument's name, as it is -/
theorem mkArgs_keyword (kw : List (String × Ov V)) (a : String) (x : Node V)
    (hk : lookupAttr kw a = some (.node x)) : ∀ (args : List (String × ArgD)) (n : Nat) (d : ArgD),
    (a, d) ∈ args → (∀ t, d ≠ .str t) → lookupAttr (mkArgs kw args n).1 a = some x := by
  intro args
  induction args with
  | nil => intro n d h; simp at h
  | cons y rest ih =>
    intro n d hm hd
    obtain ⟨b, e⟩ := y
    by_cases hb : b = a
    · subst hb
      cases e with
      | str t =>
        rcases List.mem_cons.mp hm with heq | hin
        · simp only [Prod.mk.injEq] at heq
          exact absurd heq.2 (hd t)
        · simpa [mkArgs] using ih n d hin hd
      | _ => simp [mkArgs, lookupAttr, hk, convCtor]
    · have hin : (a, d) ∈ rest := by
        rcases List.mem_cons.mp hm with heq | hin
        · simp only [Prod.mk.injEq] at heq; exact absurd heq.1.symm hb
        · exact hin
      cases e with
      | str t => simpa [mkArgs] using ih n d hin hd
      | _ => simp only [mkArgs, lookupAttr, hb, if_false]; exact ih _ d hin hd

theorem instTupleAttrs_priors [Inhabited V] (ops : Ops V) (ρ : Nat → Inst V) (f : Nat → String) (g : Nat → Nat) :
    ∀ (l : List Nat), instTupleAttrs ops ρ (l.map (fun i => (f i, Node.prior (g i))))
      = l.map (fun i => (f i, ρ (g i))) := by
  intro l
  induction l with
  | nil => simp [instTupleAttrs]
  | cons i rest ih => simp [instTupleAttrs, instW, ih]

theorem walkAttrs_priors (f : Nat → String) (g : Nat → Nat) :
    ∀ (l : List Nat), walkAttrs (V := V) (l.map (fun i => (f i, Node.prior (g i))))
      = l.map (fun i => ([f i], g i)) := by
  intro l
  induction l with
  | nil => simp [walkAttrs]
  | cons i rest ih => simp [walkAttrs, walk, ih]


/-! ## prior ids of a class composed without keywords -/


theorem walkAttrs_app (a b : List (String × Node V)) : walkAttrs (a ++ b) = walkAttrs a ++ walkAttrs b := by
  induction a with
  | nil => simp [walkAttrs]
  | cons x rest ih => obtain ⟨k, n⟩ := x; simp [walkAttrs, ih]

theorem walkAttrs_opaque : ∀ (l : List (String × Node V)), (∀ x ∈ l, ∃ t, x.2 = Node.opaque t) → walkAttrs l = [] := by
  intro l
  induction l with
  | nil => intro _; simp [walkAttrs]
  | cons x rest ih =>
    intro h
    obtain ⟨k, n⟩ := x
    obtain ⟨t, ht⟩ := h (k, n) (by simp)
    simp only at ht; subst ht
    simp [walkAttrs, walk, ih (fun y hy => h y (List.mem_cons_of_mem _ hy))]

theorem walkAttrs_strDefaults (args : List (String × ArgD)) (attrs : List (String × Node V)) :
    walkAttrs (strDefaults args attrs) = [] := by
  apply walkAttrs_opaque
  intro x hx
  simp only [strDefaults, List.mem_filterMap] at hx
  obtain ⟨⟨a, d⟩, _, hd⟩ := hx
  cases d <;> simp at hd
  exact ⟨_, by rw [← hd.2]⟩

theorem map_snd_pre (k : String) (w : List (Path × Nat)) :
    (w.map (fun (p, i) => (k :: p, i))).map (·.2) = w.map (·.2) := by
  simp [List.map_map, Function.comp_def]

theorem range'_glue (n a b : Nat) (h1 : n ≤ a) (h2 : a ≤ b) :
    List.range' n (a - n) ++ List.range' a (b - a) = List.range' n (b - n) := by
  have : List.range' a (b - a) = List.range' (n + (a - n)) (b - a) := by congr 1; omega
  rw [this, List.range'_append_1]; congr 1; omega

end AF
namespace AF
mutual
theorem mkSub_walk {V : Type} (c : String) (as : List (String × ArgD)) (n : Nat) :
    (walk (mkSub (V := V) c as n).1).map (·.2) = List.range' n ((mkSub (V := V) c as n).2 - n)
      ∧ n ≤ (mkSub (V := V) c as n).2 := by
  have h := mkDefaults_walk (V := V) as n
  simp only [mkSub, walk, walkAttrs_app, walkAttrs_strDefaults, List.append_nil]
  exact h
theorem mkDefaults_walk {V : Type} : ∀ (as : List (String × ArgD)) (n : Nat),
    (walkAttrs (mkDefaults (V := V) as n).1).map (·.2) = List.range' n ((mkDefaults (V := V) as n).2 - n)
      ∧ n ≤ (mkDefaults (V := V) as n).2
  | [], n => by simp [mkDefaults, walkAttrs]
  | (a, .str t) :: rest, n => by simpa [mkDefaults] using mkDefaults_walk (V := V) rest n
  | (a, .opt) :: rest, n => by simpa [mkDefaults, walkAttrs, walk] using mkDefaults_walk (V := V) rest n
  | (a, .cfg) :: rest, n => by
    have ih := mkDefaults_walk (V := V) rest (n + 1)
    simp only [mkDefaults, walkAttrs, walk, List.map_cons, List.map_nil, List.singleton_append]
    refine ⟨?_, by omega⟩
    rw [ih.1]
    have : (mkDefaults (V := V) rest (n + 1)).2 - n = ((mkDefaults (V := V) rest (n + 1)).2 - (n + 1)) + 1 := by omega
    rw [this, List.range'_succ]
  | (a, .tup k) :: rest, n => by
    have ih := mkDefaults_walk (V := V) rest (n + k)
    simp only [mkDefaults, walkAttrs, List.map_append, map_snd_pre]
    refine ⟨?_, by omega⟩
    have hw : (walk (mkTuple (V := V) a k n)).map (·.2) = List.range' n k := by
      simp only [mkTuple, walk, walkAttrs_priors, List.map_map, Function.comp_def]
      rw [List.range'_eq_map_range]
    rw [hw, ih.1]
    have := range'_glue n (n + k) (mkDefaults (V := V) rest (n + k)).2 (by omega) ih.2
    simpa using this
  | (a, .sub c as) :: rest, n => by
    have hs := mkSub_walk (V := V) c as n
    have ih := mkDefaults_walk (V := V) rest (mkSub (V := V) c as n).2
    simp only [mkDefaults, walkAttrs, List.map_append, map_snd_pre]
    refine ⟨?_, by omega⟩
    rw [hs.1, ih.1]
    exact range'_glue n _ _ hs.2 ih.2
end
end AF

namespace AF
theorem sortById_of_sorted {α} : ∀ (l : List (α × Nat)), l.Pairwise (fun a b => a.2 ≤ b.2) → sortById l = l := by
  intro l
  induction l with
  | nil => intro _; rfl
  | cons x rest ih =>
    intro h
    have hr := ih (List.Pairwise.of_cons h)
    have : sortById (x :: rest) = sortById.insertByIdFront x (sortById rest) := rfl
    rw [this, hr]
    cases rest with
    | nil => rfl
    | cons y ys =>
      have hxy : x.2 ≤ y.2 := List.rel_of_pairwise_cons h (by simp)
      simp [sortById.insertByIdFront, hxy]

theorem pairwise_le_of_map_range' {α} (l : List (α × Nat)) (n k : Nat) (h : l.map (·.2) = List.range' n k) :
    l.Pairwise (fun a b => a.2 ≤ b.2) := by
  have hp : (l.map (·.2)).Pairwise (· ≤ ·) := by
    rw [h]; exact List.Pairwise.imp (fun h => Nat.le_of_lt h) (List.pairwise_lt_range')
  exact List.pairwise_map.mp hp

/-- a class composed without keywords advertises its parameters in constructor-argument order -/
theorem paths_mkSub {V : Type} (c : String) (as : List (String × ArgD)) (n : Nat) :
    pathPriors (mkSub (V := V) c as n).1 = walk (mkSub (V := V) c as n).1 :=
  sortById_of_sorted _ (pairwise_le_of_map_range' _ _ _ (mkSub_walk c as n).1)
end AF
