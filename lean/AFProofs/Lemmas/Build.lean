import AFModel.Build
import AFProofs.Lemmas.NameKey
import AFProofs.Lemmas.Comp

/-! Lemmas about `mkModel` (AFModel/Build.lean): attribute look-ups through the loops of
`Model.__init__`, and the tuple priors `make_tuple_prior` creates. -/

namespace AF

variable {V : Type}

theorem lookupAttr_append_of_some {α} (l m : List (String × α)) (a : String) (v : α)
    (h : lookupAttr l a = some v) : lookupAttr (l ++ m) a = some v := by
  induction l with
  | nil => simp [lookupAttr] at h
  | cons x rest ih =>
    obtain ⟨k, w⟩ := x
    simp only [List.cons_append, lookupAttr] at h ⊢
    by_cases hk : k = a
    · simpa [hk] using h
    · simp only [hk, if_false] at h ⊢; exact ih h

theorem lookupAttr_append_isSome {α} (l m : List (String × α)) (a : String)
    (h : (lookupAttr l a).isSome = true) : (lookupAttr (l ++ m) a).isSome = true := by
  obtain ⟨v, hv⟩ := Option.isSome_iff_exists.mp h
  rw [lookupAttr_append_of_some l m a v hv]; rfl

/-- `Model.__setattr__` filing a member inside a tuple prior keeps every attribute name -/
theorem appendToTuple_isSome (p key : String) (x : Node V) (attrs : List (String × Node V)) (a : String)
    (h : (lookupAttr attrs a).isSome = true) :
    (lookupAttr (appendToTuple p key x attrs) a).isSome = true := by
  induction attrs with
  | nil => simp [lookupAttr] at h
  | cons y rest ih =>
    obtain ⟨k, v⟩ := y
    simp only [appendToTuple]
    by_cases hp : k = p
    · simp only [hp, if_true]
      subst hp
      cases v <;> first
        | (simpa [lookupAttr] using h)
        | (simp only [lookupAttr] at h ⊢; by_cases hk : k = a <;> simp_all)
    · simp only [hp, if_false, lookupAttr] at h ⊢
      by_cases hk : k = a
      · simp [hk]
      · simp only [hk, if_false] at h ⊢; exact ih h

/-- … and every value that is not a tuple prior -/
theorem appendToTuple_of_not_tuple (p key : String) (x : Node V) (attrs : List (String × Node V))
    (a : String) (v : Node V) (hv : ∀ ms, v ≠ .tuple ms) (h : lookupAttr attrs a = some v) :
    lookupAttr (appendToTuple p key x attrs) a = some v := by
  induction attrs with
  | nil => simp [lookupAttr] at h
  | cons y rest ih =>
    obtain ⟨k, w⟩ := y
    simp only [appendToTuple]
    by_cases hp : k = p
    · simp only [hp, if_true]
      subst hp
      by_cases hk : k = a
      · subst hk
        simp only [lookupAttr, if_true, Option.some.injEq] at h
        subst h
        cases w <;> first | (exact absurd rfl (hv _)) | (simp [lookupAttr])
      · cases w <;> simpa [lookupAttr, hk] using h
    · simp only [hp, if_false, lookupAttr] at h ⊢
      by_cases hk : k = a
      · simpa [hk] using h
      · simp only [hk, if_false] at h ⊢; exact ih h

theorem setNew_isSome (attrs : List (String × Node V)) (key : String) (x : Node V) (a : String)
    (h : (lookupAttr attrs a).isSome = true) : (lookupAttr (setNew attrs key x) a).isSome = true := by
  unfold setNew
  split
  · exact appendToTuple_isSome _ _ _ _ _ h
  · exact lookupAttr_append_isSome _ _ _ h

theorem setNew_of_not_tuple (attrs : List (String × Node V)) (key : String) (x : Node V) (a : String)
    (v : Node V) (hv : ∀ ms, v ≠ .tuple ms) (h : lookupAttr attrs a = some v) :
    lookupAttr (setNew attrs key x) a = some v := by
  unfold setNew
  split
  · exact appendToTuple_of_not_tuple _ _ _ _ _ _ hv h
  · exact lookupAttr_append_of_some _ _ _ _ h

theorem addExtras_isSome (kw : List (String × Ov V)) : ∀ (attrs : List (String × Node V)) (n : Nat) (a : String),
    (lookupAttr attrs a).isSome = true → (lookupAttr (addExtras kw attrs n).1 a).isSome = true := by
  induction kw with
  | nil => intro attrs n a h; simpa [addExtras] using h
  | cons y rest ih =>
    intro attrs n a h
    obtain ⟨k, o⟩ := y
    simp only [addExtras]
    split
    · exact ih attrs n a h
    · exact ih _ _ a (setNew_isSome attrs k _ a h)

theorem addExtras_of_not_tuple (kw : List (String × Ov V)) : ∀ (attrs : List (String × Node V)) (n : Nat)
    (a : String) (v : Node V), (∀ ms, v ≠ .tuple ms) → lookupAttr attrs a = some v →
    lookupAttr (addExtras kw attrs n).1 a = some v := by
  induction kw with
  | nil => intro attrs n a v _ h; simpa [addExtras] using h
  | cons y rest ih =>
    intro attrs n a v hv h
    obtain ⟨k, o⟩ := y
    simp only [addExtras]
    split
    · exact ih attrs n a v hv h
    · exact ih _ _ a v hv (setNew_of_not_tuple attrs k _ a v hv h)

/-- the loop over the constructor arguments gives every argument that has no string default an
attribute of its own name -/
theorem mkArgs_isSome (kw : List (String × Ov V)) : ∀ (args : List (String × ArgD)) (n : Nat) (a : String) (d : ArgD),
    (a, d) ∈ args → (∀ t, d ≠ .str t) → (lookupAttr (mkArgs kw args n).1 a).isSome = true := by
  intro args
  induction args with
  | nil => intro n a d h; simp at h
  | cons y rest ih =>
    intro n a d hm hd
    obtain ⟨b, e⟩ := y
    have hrest : (a, d) ∈ rest → ∀ m, (lookupAttr (mkArgs kw rest m).1 a).isSome = true :=
      fun h m => ih m a d h hd
    rcases List.mem_cons.mp hm with heq | hin
    · simp only [Prod.mk.injEq] at heq
      obtain ⟨rfl, rfl⟩ := heq
      cases d <;> first | (exact absurd rfl (hd _)) | (simp [mkArgs, lookupAttr])
    · cases e with
      | str t => simpa [mkArgs] using hrest hin n
      | _ =>
        simp only [mkArgs, lookupAttr]
        by_cases hk : b = a
        · simp [hk]
        · simp only [hk, if_false]; exact hrest hin _

/-- … and an object given as keyword is held under the argument's name, as it is -/
theorem mkArgs_keyword (kw : List (String × Ov V)) (a : String) (x : Node V)
    (hk : lookupAttr kw a = some (.node x)) : ∀ (args : List (String × ArgD)) (n : Nat) (d : ArgD),
    (a, d) ∈ args → (∀ t, d ≠ .str t) → lookupAttr (mkArgs kw args n).1 a = some x := by
  intro args
  induction args with
  | nil => intro n d h; simp at h
  | cons y rest ih =>
    intro n d hm hd
    obtain ⟨b, e⟩ := y
    by_cases hb : b = a
    · subst hb
      cases e with
      | str t =>
        rcases List.mem_cons.mp hm with heq | hin
        · simp only [Prod.mk.injEq] at heq
          exact absurd heq.2 (hd t)
        · simpa [mkArgs] using ih n d hin hd
      | _ => simp [mkArgs, lookupAttr, hk, convCtor]
    · have hin : (a, d) ∈ rest := by
        rcases List.mem_cons.mp hm with heq | hin
        · simp only [Prod.mk.injEq] at heq; exact absurd heq.1.symm hb
        · exact hin
      cases e with
      | str t => simpa [mkArgs] using ih n d hin hd
      | _ => simp only [mkArgs, lookupAttr, hb, if_false]; exact ih _ d hin hd

theorem instTupleAttrs_priors [Inhabited V] (ops : Ops V) (ρ : Nat → Inst V) (f : Nat → String) (g : Nat → Nat) :
    ∀ (l : List Nat), instTupleAttrs ops ρ (l.map (fun i => (f i, Node.prior (g i))))
      = l.map (fun i => (f i, ρ (g i))) := by
  intro l
  induction l with
  | nil => simp [instTupleAttrs]
  | cons i rest ih => simp [instTupleAttrs, instW, ih]

theorem walkAttrs_priors (f : Nat → String) (g : Nat → Nat) :
    ∀ (l : List Nat), walkAttrs (V := V) (l.map (fun i => (f i, Node.prior (g i))))
      = l.map (fun i => ([f i], g i)) := by
  intro l
  induction l with
  | nil => simp [walkAttrs]
  | cons i rest ih => simp [walkAttrs, walk, ih]

end AF
