import AFProofs.Lemmas.Migrate
import AFModel.MigrateRows

/-! Helper lemmas about the row-level migration model `AFModel/MigrateRows.lean` (used by `AFProofs/C19.lean`).
Core Lean only. -/

namespace AF.Migrate

/-! ### forgetting the rows gives the name-level model -/

theorem schemaOf_cons (T : TableR) (d : Data) : schemaOf (T :: d) = (T.name, T.cols) :: schemaOf d := rfl

theorem schemaOf_append (d e : Data) : schemaOf (d ++ e) = schemaOf d ++ schemaOf e := by
  simp [schemaOf]

theorem colsOf_schemaOf (d : Data) (t : String) : colsOf (schemaOf d) t = (findT d t).map (·.cols) := by
  induction d with
  | nil => rfl
  | cons T rest ih =>
    rw [schemaOf_cons]
    by_cases h : T.name = t
    · simp [colsOf, findT, h]
    · simp [colsOf, findT, h, ih]

theorem schemaOf_mapT (d : Data) (t : String) (f : TableR → TableR) (g : List String → List String)
    (hn : ∀ T, (f T).name = T.name) (hc : ∀ T, (f T).cols = g T.cols) :
    schemaOf (mapT d t f) = mapTable (schemaOf d) t g := by
  induction d with
  | nil => rfl
  | cons T rest ih =>
    by_cases h : T.name = t
    · simp [mapT, mapTable, schemaOf_cons, h, hn, hc]
    · simp [mapT, mapTable, schemaOf_cons, h, ih]

theorem applyStmtR_schema (d : Data) (st : Stmt) :
    (applyStmtR d st).map schemaOf = applyStmt (schemaOf d) st := by
  cases st with
  | addColumn t c =>
    simp only [applyStmtR, applyStmt, colsOf_schemaOf]
    cases findT d t with
    | none => rfl
    | some T =>
      simp only [Option.map_some]
      split
      · rfl
      · simp only [Option.map_some]
        rw [schemaOf_mapT d t (TableR.addCol c) (· ++ [c]) (fun _ => rfl) (fun _ => rfl)]
  | createTable t cols =>
    simp only [applyStmtR, applyStmt, colsOf_schemaOf]
    cases findT d t with
    | none => simp [schemaOf]
    | some T => rfl
  | renameColumn t a b =>
    simp only [applyStmtR, applyStmt, colsOf_schemaOf]
    cases findT d t with
    | none => rfl
    | some T =>
      simp only [Option.map_some]
      split
      · simp only [Option.map_some]
        rw [schemaOf_mapT d t (TableR.renameCol a b) (renameIn a b) (fun _ => rfl) (fun _ => rfl)]
      · rfl
  | dropColumn t c =>
    simp only [applyStmtR, applyStmt, colsOf_schemaOf]
    cases findT d t with
    | none => rfl
    | some T =>
      simp only [Option.map_some]
      split
      · simp only [Option.map_some]
        rw [schemaOf_mapT d t (TableR.dropCol c) (·.filter (· ≠ c)) (fun _ => rfl) (fun _ => rfl)]
      · rfl

theorem runStmtsR_schema (d : Data) (l : List Stmt) :
    schemaOf (runStmtsR d l).1 = (runStmts (schemaOf d) l).1 ∧ (runStmtsR d l).2 = (runStmts (schemaOf d) l).2 := by
  induction l generalizing d with
  | nil => exact ⟨rfl, rfl⟩
  | cons st rest ih =>
    have h := applyStmtR_schema d st
    simp only [runStmtsR, runStmts]
    cases hd : applyStmtR d st with
    | none =>
      rw [hd] at h
      simp only [Option.map_none] at h
      rw [← h]
      simp only
      exact ⟨(ih d).1, by rw [(ih d).2]⟩
    | some d' =>
      rw [hd] at h
      simp only [Option.map_some] at h
      rw [← h]
      simp only
      exact ⟨(ih d').1, by rw [(ih d').2]⟩

/-! ### the transaction layer commutes with forgetting the rows -/

theorem RDb.proj_work (db : RDb) : db.proj.work = db.work.store := by
  obtain ⟨c, p⟩ := db
  cases p <;> rfl

theorem RDb.proj_ddl (db : RDb) (f : RStore → RStore) (g : Store → Store) (h : ∀ w, (f w).store = g w.store) :
    (db.ddl f).proj = db.proj.ddl g := by
  obtain ⟨c, p⟩ := db
  cases p <;> simp [RDb.ddl, Db.ddl, RDb.proj, h]

theorem RDb.proj_dml (db : RDb) (f : RStore → RStore) (g : Store → Store) (h : ∀ w, (f w).store = g w.store) :
    (db.dml f).proj = db.proj.dml g := by
  obtain ⟨c, p⟩ := db
  cases p <;> simp [RDb.dml, Db.dml, RDb.proj, RDb.work, Db.work, h]

theorem RDb.proj_commit (db : RDb) : db.commit.proj = db.proj.commit := by
  obtain ⟨c, p⟩ := db
  cases p <;> rfl

theorem RDb.proj_close (db : RDb) : db.close.store = db.proj.close := rfl

theorem initRevisionTableR_proj (db : RDb) : (initRevisionTableR db).proj = initRevisionTable db.proj := by
  simp only [initRevisionTableR, initRevisionTable]
  rw [RDb.proj_dml _ _ (fun w => { w with rev := .row none }) (fun _ => rfl),
    RDb.proj_ddl _ _ (fun w => { w with rev := .empty }) (fun _ => rfl)]

theorem work_rev (db : RDb) : db.proj.work.rev = db.work.rev := by
  rw [RDb.proj_work]; rfl

theorem readRevisionR_proj (db : RDb) :
    (readRevision db.proj).1 = (readRevisionR db).1.proj ∧ (readRevision db.proj).2 = (readRevisionR db).2 := by
  simp only [readRevision, readRevisionR, work_rev]
  cases db.work.rev with
  | noTable => exact ⟨(initRevisionTableR_proj db).symm, rfl⟩
  | empty => exact ⟨rfl, rfl⟩
  | row r => exact ⟨rfl, rfl⟩

theorem setRowR_store (u : Bool) (id : String) (w : RStore) : (setRowR u id w).store = setRow u id w.store := by
  obtain ⟨d, rev⟩ := w
  cases rev <;> cases u <;> rfl

theorem writeRevisionR_proj (cfg : Cfg) (db : RDb) (id : String) :
    (writeRevisionR cfg db id).proj = writeRevision cfg db.proj id := by
  simp only [writeRevisionR, writeRevision, work_rev]
  cases db.work.rev with
  | noTable =>
    simp only
    rw [RDb.proj_dml _ _ (setRow cfg.stampUpsert id) (setRowR_store _ _), initRevisionTableR_proj]
  | empty =>
    simp only
    rw [RDb.proj_dml _ _ (setRow cfg.stampUpsert id) (setRowR_store _ _)]
  | row r =>
    simp only
    rw [RDb.proj_dml _ _ (setRow cfg.stampUpsert id) (setRowR_store _ _)]

theorem migrateR_proj (cfg : Cfg) (tbl : Table) (db : RDb) :
    migrate cfg tbl db.proj = ((migrateR cfg tbl db).1.proj, (migrateR cfg tbl db).2) := by
  obtain ⟨h1, h2⟩ := readRevisionR_proj db
  simp only [migrate, migrateR]
  rw [h1, h2]
  split
  · rfl
  · have hs := runStmtsR_schema (readRevisionR db).1.work.data (stmtsOf (getSteps tbl (readRevisionR db).2))
    have hw : (readRevisionR db).1.proj.work.schema = schemaOf (readRevisionR db).1.work.data := by
      rw [RDb.proj_work]; rfl
    simp only [hw, ← hs.1, ← hs.2]
    have hddl := RDb.proj_ddl (readRevisionR db).1
      (fun w => { w with data := (runStmtsR (readRevisionR db).1.work.data
        (stmtsOf (getSteps tbl (readRevisionR db).2))).1 })
      (fun w => { w with schema := schemaOf (runStmtsR (readRevisionR db).1.work.data
        (stmtsOf (getSteps tbl (readRevisionR db).2))).1 }) (fun _ => rfl)
    rw [← hddl, ← writeRevisionR_proj]
    cases cfg.migrateCommits
    · rfl
    · simp only [if_true, RDb.proj_commit]

theorem emptyData_schema (orm : Schema) : schemaOf (emptyData orm) = orm := by
  induction orm with
  | nil => rfl
  | cons p rest ih =>
    simp only [emptyData, List.map_cons, schemaOf_cons] at ih ⊢
    rw [ih]

theorem openDatabaseR_proj (cfg : Cfg) (tbl : Table) (orm : Schema) (file : Option RStore) :
    openDatabase cfg tbl orm (file.map RStore.store) =
      ((openDatabaseR cfg tbl orm file).1.proj, (openDatabaseR cfg tbl orm file).2) := by
  cases file with
  | some s => exact migrateR_proj cfg tbl { committed := s, pending := none }
  | none =>
    simp only [Option.map_none, openDatabase, openDatabaseR]
    have hp : ({ committed := { schema := orm, rev := .noTable }, pending := none } : Db)
        = ({ committed := { data := emptyData orm, rev := .noTable }, pending := none } : RDb).proj := by
      simp [RDb.proj, RStore.store, emptyData_schema]
    rw [hp, ← writeRevisionR_proj, ← RDb.proj_commit]
    cases cfg.createStamps <;> rfl

/-- **refinement, one use of the file**: forgetting the rows of `sessionR` is `session` -/
theorem sessionR_proj (cfg : Cfg) (tbl : Table) (orm : Schema) (file : Option RStore) (c : Bool) :
    session cfg tbl orm (file.map RStore.store) c =
      ((sessionR cfg tbl orm file c).1.store, (sessionR cfg tbl orm file c).2) := by
  simp only [session, sessionR, openDatabaseR_proj]
  cases c
  · rfl
  · simp only [if_true, ← RDb.proj_commit]; rfl

theorem runHistoryR_proj (cfg : Cfg) (tbl : Table) (orm : Schema) (file : Option RStore) (h : List Bool) :
    runHistory cfg tbl orm (file.map RStore.store) h =
      (runHistoryR cfg tbl orm file h).map fun x => (x.1.store, x.2) := by
  induction h generalizing file with
  | nil => rfl
  | cons c rest ih =>
    simp only [runHistory, runHistoryR, List.map_cons, sessionR_proj]
    rw [← ih (some (sessionR cfg tbl orm file c).1)]
    rfl

theorem interruptedR_proj (tbl : Table) (s : RStore) (j : Nat) :
    interrupted tbl s.store j = ((interruptedR tbl s j).1.store, (interruptedR tbl s j).2) := by
  have hdb : ({ committed := s.store, pending := none } : Db) = ({ committed := s, pending := none } : RDb).proj := rfl
  obtain ⟨h1, h2⟩ := readRevisionR_proj { committed := s, pending := none }
  simp only [interrupted, interruptedR, hdb]
  rw [h1, h2]
  generalize (readRevisionR { committed := s, pending := none }).1 = db1
  generalize (readRevisionR { committed := s, pending := none }).2 = rid
  have hs := runStmtsR_schema db1.work.data ((stmtsOf (getSteps tbl rid)).take j)
  have hw : db1.proj.work.schema = schemaOf db1.work.data := by rw [RDb.proj_work]; rfl
  simp only [hw, ← hs.1, ← hs.2]
  have hddl := RDb.proj_ddl db1
    (fun w => { w with data := (runStmtsR db1.work.data ((stmtsOf (getSteps tbl rid)).take j)).1 })
    (fun w => { w with schema := schemaOf (runStmtsR db1.work.data ((stmtsOf (getSteps tbl rid)).take j)).1 })
    (fun _ => rfl)
  rw [← hddl]
  rfl

/-! ### closed form of one use of an existing file by the repaired code, with rows -/

theorem sessionR_fixed (tbl : Table) (orm : Schema) (hne : tbl.steps ≠ []) (s : RStore) (c : Bool) :
    sessionR Cfg.fixed tbl orm (some s) c =
      if (getSteps tbl (ridOf s.rev)).isEmpty then (s, [])
      else
        let r := runStmtsR s.data (stmtsOf (getSteps tbl (ridOf s.rev)))
        ({ data := r.1, rev := .row (some (latestId tbl)) }, r.2) := by
  obtain ⟨d, rev⟩ := s
  cases rev with
  | noTable =>
    have h1 : (getSteps tbl none).isEmpty = false := by
      simp [getSteps, hne]
    cases c <;>
      simp [sessionR, openDatabaseR, migrateR, readRevisionR, initRevisionTableR, writeRevisionR, setRowR, ridOf,
        RDb.work, RDb.ddl, RDb.dml, RDb.commit, RDb.close, Cfg.fixed, h1]
  | empty =>
    by_cases h1 : (getSteps tbl none).isEmpty
    · cases c <;>
        simp [sessionR, openDatabaseR, migrateR, readRevisionR, ridOf, RDb.work, RDb.commit, RDb.close, h1]
    · cases c <;>
        simp [sessionR, openDatabaseR, migrateR, readRevisionR, writeRevisionR, setRowR, ridOf,
          RDb.work, RDb.ddl, RDb.dml, RDb.commit, RDb.close, Cfg.fixed, h1]
  | row r =>
    by_cases h1 : (getSteps tbl r).isEmpty
    · cases c <;>
        simp [sessionR, openDatabaseR, migrateR, readRevisionR, ridOf, RDb.work, RDb.commit, RDb.close, h1]
    · cases c <;>
        simp [sessionR, openDatabaseR, migrateR, readRevisionR, writeRevisionR, setRowR, ridOf,
          RDb.work, RDb.ddl, RDb.dml, RDb.commit, RDb.close, Cfg.fixed, h1]

theorem sessionR_fixed_fresh (tbl : Table) (orm : Schema) (c : Bool) :
    sessionR Cfg.fixed tbl orm none c = ({ data := emptyData orm, rev := .row (some (latestId tbl)) }, []) := by
  cases c <;>
    simp [sessionR, openDatabaseR, writeRevisionR, initRevisionTableR, setRowR, RDb.work, RDb.ddl, RDb.dml,
      RDb.commit, RDb.close, Cfg.fixed]

/-! ### tables -/

theorem findT_mapT_same (d : Data) (t : String) (f : TableR → TableR) (hn : ∀ T, (f T).name = T.name) :
    findT (mapT d t f) t = (findT d t).map f := by
  induction d with
  | nil => rfl
  | cons T rest ih =>
    by_cases h : T.name = t
    · simp [mapT, findT, h, hn]
    · simp [mapT, findT, h, ih]

theorem findT_mapT_other (d : Data) (t t' : String) (f : TableR → TableR) (hn : ∀ T, (f T).name = T.name)
    (h : t' ≠ t) : findT (mapT d t f) t' = findT d t' := by
  induction d with
  | nil => rfl
  | cons T rest ih =>
    by_cases hT : T.name = t
    · have : T.name ≠ t' := fun e => h (e ▸ hT ▸ rfl)
      simp [mapT, findT, hT, hn]
      subst hT
      simp [this]
    · by_cases hT' : T.name = t'
      · subst hT'
        simp [mapT, findT, hT]
      · simp [mapT, findT, hT, hT', ih]

theorem findT_append (d : Data) (X : TableR) (t : String) :
    findT (d ++ [X]) t = match findT d t with
      | some T => some T
      | none => if X.name = t then some X else none := by
  induction d with
  | nil => simp [findT]
  | cons T rest ih =>
    by_cases h : T.name = t
    · simp [findT, h]
    · simp [findT, h, ih]

theorem findT_mem (d : Data) (t : String) (T : TableR) (h : findT d t = some T) : T ∈ d ∧ T.name = t := by
  induction d with
  | nil => simp [findT] at h
  | cons T0 rest ih =>
    by_cases hn : T0.name = t
    · simp [findT, hn] at h
      subst h
      exact ⟨List.mem_cons_self, hn⟩
    · simp [findT, hn] at h
      exact ⟨List.mem_cons_of_mem _ (ih h).1, (ih h).2⟩

/-! ### rows follow the successful statements -/

theorem onRow_add (t t' c : String) :
    Stmt.onRow t (.addColumn t' c) = fun r => if t' = t then rowAdd c r else r := by funext r; rfl

theorem onRow_create (t t' : String) (cols : List String) :
    Stmt.onRow t (.createTable t' cols) = fun r => r := by funext r; rfl

theorem onRow_rename (t t' a b : String) :
    Stmt.onRow t (.renameColumn t' a b) = fun r => if t' = t then rowRename a b r else r := by funext r; rfl

theorem onRow_drop (t t' c : String) :
    Stmt.onRow t (.dropColumn t' c) = fun r => if t' = t then rowDrop c r else r := by funext r; rfl

theorem rowsOf_applyStmtR (d d' : Data) (st : Stmt) (t : String) (h : applyStmtR d st = some d') :
    rowsOf d' t = (rowsOf d t).map (st.onRow t) := by
  cases st with
  | addColumn t' c =>
    simp only [applyStmtR] at h
    cases hf : findT d t' with
    | none => simp [hf] at h
    | some T =>
      simp only [hf] at h
      split at h
      · cases h
      · cases h
        by_cases ht : t' = t
        · subst ht
          simp [rowsOf, findT_mapT_same d t' (TableR.addCol c) (fun _ => rfl), hf, onRow_add, TableR.addCol]
        · have ht' : t ≠ t' := fun e => ht e.symm
          simp [rowsOf, findT_mapT_other d t' t (TableR.addCol c) (fun _ => rfl) ht', onRow_add, ht]
  | createTable t' cols =>
    simp only [applyStmtR] at h
    cases hf : findT d t' with
    | some T => simp [hf] at h
    | none =>
      simp only [hf] at h
      cases h
      by_cases ht : t' = t
      · subst ht
        simp [rowsOf, findT_append, hf]
      · simp only [rowsOf, findT_append, onRow_create, List.map_id']
        cases findT d t <;> simp [ht]
  | renameColumn t' a b =>
    simp only [applyStmtR] at h
    cases hf : findT d t' with
    | none => simp [hf] at h
    | some T =>
      simp only [hf] at h
      split at h
      · cases h
        by_cases ht : t' = t
        · subst ht
          simp [rowsOf, findT_mapT_same d t' (TableR.renameCol a b) (fun _ => rfl), hf, onRow_rename,
            TableR.renameCol]
        · have ht' : t ≠ t' := fun e => ht e.symm
          simp [rowsOf, findT_mapT_other d t' t (TableR.renameCol a b) (fun _ => rfl) ht', onRow_rename, ht]
      · cases h
  | dropColumn t' c =>
    simp only [applyStmtR] at h
    cases hf : findT d t' with
    | none => simp [hf] at h
    | some T =>
      simp only [hf] at h
      split at h
      · cases h
        by_cases ht : t' = t
        · subst ht
          simp [rowsOf, findT_mapT_same d t' (TableR.dropCol c) (fun _ => rfl), hf, onRow_drop, TableR.dropCol]
        · have ht' : t ≠ t' := fun e => ht e.symm
          simp [rowsOf, findT_mapT_other d t' t (TableR.dropCol c) (fun _ => rfl) ht', onRow_drop, ht]
      · cases h

/-- **closed form of the rows**: after the loop the rows of every table are the old rows (same number, same
order), each rewritten by the successful statements in order -/
theorem rowsOf_runStmtsR (d : Data) (l : List Stmt) (t : String) :
    rowsOf (runStmtsR d l).1 t = (rowsOf d t).map (logOnRow t (runStmtsR d l).2) := by
  induction l generalizing d with
  | nil => simp [runStmtsR, logOnRow]
  | cons st rest ih =>
    simp only [runStmtsR]
    cases hd : applyStmtR d st with
    | none =>
      simp only [logOnRow, Bool.false_eq_true, if_false]
      exact ih d
    | some d' =>
      simp only [logOnRow, if_true]
      rw [ih d', rowsOf_applyStmtR d d' st t hd, List.map_map]
      rfl

/-! ### well-formed rows stay well-formed -/

theorem wfData_iff (d : Data) : wfData d = true ↔ ∀ T ∈ d, ∀ r ∈ T.rows, keysOf r = T.cols := by
  simp [wfData, List.all_eq_true]

theorem keysOf_rowAdd (c : String) (r : Row) : keysOf (rowAdd c r) = keysOf r ++ [c] := by
  simp [keysOf, rowAdd]

theorem keysOf_rowRename (a b : String) (r : Row) : keysOf (rowRename a b r) = renameIn a b (keysOf r) := by
  simp [keysOf, rowRename, renameIn, List.map_map, Function.comp_def]

theorem keysOf_rowDrop (c : String) (r : Row) : keysOf (rowDrop c r) = (keysOf r).filter (· ≠ c) := by
  simp [keysOf, rowDrop, List.filter_map, Function.comp_def]

theorem wf_mapT (d : Data) (t : String) (f : TableR → TableR) (hd : wfData d = true)
    (hf : ∀ T, (∀ r ∈ T.rows, keysOf r = T.cols) → ∀ r ∈ (f T).rows, keysOf r = (f T).cols) :
    wfData (mapT d t f) = true := by
  rw [wfData_iff] at hd ⊢
  induction d with
  | nil => simp [mapT]
  | cons T rest ih =>
    have hT := hd T List.mem_cons_self
    have hrest : ∀ T ∈ rest, ∀ r ∈ T.rows, keysOf r = T.cols := fun X hX => hd X (List.mem_cons_of_mem _ hX)
    by_cases h : T.name = t
    · simp only [mapT, h, if_true, List.mem_cons]
      rintro X (rfl | hX)
      · exact hf T hT
      · exact hrest X hX
    · simp only [mapT, h, if_false, List.mem_cons]
      rintro X (rfl | hX)
      · exact hT
      · exact ih hrest X hX

theorem wf_applyStmtR (d d' : Data) (st : Stmt) (hd : wfData d = true) (h : applyStmtR d st = some d') :
    wfData d' = true := by
  cases st with
  | addColumn t c =>
    simp only [applyStmtR] at h
    cases hf : findT d t with
    | none => simp [hf] at h
    | some T =>
      simp only [hf] at h
      split at h
      · cases h
      · cases h
        apply wf_mapT d t _ hd
        intro T hT r hr
        simp only [TableR.addCol, List.mem_map] at hr ⊢
        obtain ⟨r0, hr0, rfl⟩ := hr
        rw [keysOf_rowAdd, hT r0 hr0]
  | createTable t cols =>
    simp only [applyStmtR] at h
    cases hf : findT d t with
    | some T => simp [hf] at h
    | none =>
      simp only [hf] at h
      cases h
      rw [wfData_iff] at hd ⊢
      intro X hX
      rcases List.mem_append.mp hX with hX | hX
      · exact hd X hX
      · simp only [List.mem_singleton] at hX
        subst hX
        intro r hr
        simp at hr
  | renameColumn t a b =>
    simp only [applyStmtR] at h
    cases hf : findT d t with
    | none => simp [hf] at h
    | some T =>
      simp only [hf] at h
      split at h
      · cases h
        apply wf_mapT d t _ hd
        intro T hT r hr
        simp only [TableR.renameCol, List.mem_map] at hr ⊢
        obtain ⟨r0, hr0, rfl⟩ := hr
        rw [keysOf_rowRename, hT r0 hr0]
      · cases h
  | dropColumn t c =>
    simp only [applyStmtR] at h
    cases hf : findT d t with
    | none => simp [hf] at h
    | some T =>
      simp only [hf] at h
      split at h
      · cases h
        apply wf_mapT d t _ hd
        intro T hT r hr
        simp only [TableR.dropCol, List.mem_map] at hr ⊢
        obtain ⟨r0, hr0, rfl⟩ := hr
        rw [keysOf_rowDrop, hT r0 hr0]
      · cases h

theorem wf_runStmtsR (d : Data) (l : List Stmt) (hd : wfData d = true) : wfData (runStmtsR d l).1 = true := by
  induction l generalizing d with
  | nil => exact hd
  | cons st rest ih =>
    simp only [runStmtsR]
    cases h : applyStmtR d st with
    | none => exact ih d hd
    | some d' => exact ih d' (wf_applyStmtR d d' st hd h)

theorem wf_emptyData (orm : Schema) : wfData (emptyData orm) = true := by
  rw [wfData_iff]
  intro T hT r hr
  simp only [emptyData, List.mem_map] at hT
  obtain ⟨p, _, rfl⟩ := hT
  simp at hr

/-! ### cells -/

theorem cellOf_mem (r : Row) (c : String) (v : Cell) (h : cellOf r c = some v) : c ∈ keysOf r := by
  induction r with
  | nil => simp [cellOf] at h
  | cons kv rest ih =>
    by_cases hk : kv.1 = c
    · simp [keysOf, hk]
    · simp only [cellOf, hk, if_false] at h
      have := ih h
      simp only [keysOf, List.map_cons, List.mem_cons] at this ⊢
      exact Or.inr this

theorem cellOf_not_mem (r : Row) (c : String) (h : c ∉ keysOf r) : cellOf r c = none := by
  cases hc : cellOf r c with
  | none => rfl
  | some v => exact absurd (cellOf_mem r c v hc) h

theorem cellOf_of_mem (r : Row) (c : String) (h : c ∈ keysOf r) : ∃ v, cellOf r c = some v := by
  cases hc : cellOf r c with
  | some v => exact ⟨v, rfl⟩
  | none =>
    exfalso
    induction r with
    | nil => simp [keysOf] at h
    | cons kv rest ih =>
      by_cases hk : kv.1 = c
      · simp [cellOf, hk] at hc
      · simp only [cellOf, hk, if_false] at hc
        simp only [keysOf, List.map_cons, List.mem_cons] at h
        rcases h with h | h
        · exact hk h.symm
        · exact ih h hc

theorem cellOf_append_left (r x : Row) (c : String) (v : Cell) (h : cellOf r c = some v) :
    cellOf (r ++ x) c = some v := by
  induction r with
  | nil => simp [cellOf] at h
  | cons kv rest ih =>
    by_cases hk : kv.1 = c
    · simpa [cellOf, hk] using h
    · simp only [cellOf, hk, if_false, List.cons_append] at h ⊢
      exact ih h

theorem cellOf_append_none (r x : Row) (c : String) (h : cellOf r c = none) :
    cellOf (r ++ x) c = cellOf x c := by
  induction r with
  | nil => rfl
  | cons kv rest ih =>
    by_cases hk : kv.1 = c
    · simp [cellOf, hk] at h
    · simp only [cellOf, hk, if_false, List.cons_append] at h ⊢
      exact ih h

theorem cellOf_rowRename_other (a b c : String) (r : Row) (ha : c ≠ a) (hb : c ≠ b) :
    cellOf (rowRename a b r) c = cellOf r c := by
  induction r with
  | nil => rfl
  | cons kv rest ih =>
    simp only [rowRename, List.map_cons, cellOf] at ih ⊢
    by_cases hk : kv.1 = a
    · have h1 : ¬ b = c := fun e => hb e.symm
      have h2 : ¬ kv.1 = c := fun e => ha (e ▸ hk ▸ rfl)
      simp only [hk, if_true, h1, if_false]
      rw [hk] at h2
      simp only [h2, if_false]
      exact ih
    · simp only [hk, if_false]
      by_cases hc : kv.1 = c
      · simp [hc]
      · simp only [hc, if_false]
        exact ih

/-- the new name reads what the old name held -/
theorem cellOf_rowRename_target (a b : String) (r : Row) (hb : b ∉ keysOf r) :
    cellOf (rowRename a b r) b = cellOf r a := by
  induction r with
  | nil => rfl
  | cons kv rest ih =>
    simp only [keysOf, List.map_cons, List.mem_cons, not_or] at hb
    simp only [rowRename, List.map_cons, cellOf] at ih ⊢
    by_cases hk : kv.1 = a
    · simp [hk]
    · have h1 : ¬ kv.1 = b := fun e => hb.1 e.symm
      simp only [hk, if_false, h1]
      exact ih hb.2

theorem cellOf_rowDrop_other (c c' : String) (r : Row) (h : c ≠ c') :
    cellOf (rowDrop c' r) c = cellOf r c := by
  induction r with
  | nil => rfl
  | cons kv rest ih =>
    simp only [rowDrop] at ih ⊢
    by_cases hk : kv.1 = c'
    · have h2 : ¬ kv.1 = c := fun e => h (e ▸ hk ▸ rfl)
      simp only [List.filter_cons, hk, ne_eq, not_true_eq_false, decide_false, Bool.false_eq_true, if_false]
      rw [ih]
      simp [cellOf, h2]
    · simp only [List.filter_cons, ne_eq, hk, not_false_eq_true, decide_true, if_true, cellOf]
      by_cases hc : kv.1 = c
      · simp [hc]
      · simp only [hc, if_false]
        exact ih

/-- one successful statement keeps the value of every column it does not rename away or drop -/
theorem cellOf_onRow (d d' : Data) (st : Stmt) (t c : String) (r : Row) (v : Cell)
    (hd : wfData d = true) (h : applyStmtR d st = some d') (hr : r ∈ rowsOf d t)
    (hrem : st.removes t c = false) (hv : cellOf r c = some v) :
    cellOf (st.onRow t r) c = some v := by
  cases st with
  | addColumn t' c' =>
    simp only [Stmt.onRow]
    split
    · exact cellOf_append_left r _ c v hv
    · exact hv
  | createTable t' cols => exact hv
  | dropColumn t' c' =>
    simp only [Stmt.onRow]
    split
    · rename_i ht
      have hcc : c ≠ c' := by
        intro e
        simp [Stmt.removes, ht, e] at hrem
      rw [cellOf_rowDrop_other c c' r hcc]; exact hv
    · exact hv
  | renameColumn t' a b =>
    simp only [Stmt.onRow]
    split
    · rename_i ht
      subst ht
      have hca : c ≠ a := by
        intro e
        simp [Stmt.removes, e] at hrem
      have hcb : c ≠ b := by
        intro e
        subst e
        simp only [applyStmtR] at h
        cases hf : findT d t' with
        | none => simp [hf] at h
        | some T =>
          simp only [hf] at h
          split at h
          · rename_i hg
            simp only [rowsOf, hf] at hr
            have hk := (wfData_iff d).mp hd T (findT_mem d t' T hf).1 r hr
            exact hg.2 (hk ▸ cellOf_mem r c v hv)
          · cases h
      rw [cellOf_rowRename_other a b c r hca hcb]; exact hv
    · exact hv

/-- the loop keeps the value of every column that no statement renames away or drops, in every old row -/
theorem cell_preserved (d : Data) (l : List Stmt) (t c : String) (hd : wfData d = true)
    (hrem : ∀ st ∈ l, st.removes t c = false) (r : Row) (hr : r ∈ rowsOf d t) (v : Cell)
    (hv : cellOf r c = some v) :
    cellOf (logOnRow t (runStmtsR d l).2 r) c = some v := by
  induction l generalizing d r with
  | nil => simpa [runStmtsR, logOnRow] using hv
  | cons st rest ih =>
    have hrest : ∀ st ∈ rest, st.removes t c = false := fun x hx => hrem x (List.mem_cons_of_mem _ hx)
    simp only [runStmtsR]
    cases h : applyStmtR d st with
    | none =>
      simp only [logOnRow, Bool.false_eq_true, if_false]
      exact ih d hd hrest r hr hv
    | some d' =>
      simp only [logOnRow, if_true]
      apply ih d' (wf_applyStmtR d d' st hd h) hrest
      · rw [rowsOf_applyStmtR d d' st t h]
        exact List.mem_map_of_mem hr
      · exact cellOf_onRow d d' st t c r v hd h hr (hrem st List.mem_cons_self) hv

/-- a successful `RENAME COLUMN a TO b`: every row reads under `b` what it held under `a` -/
theorem rename_moves_cells (d d' : Data) (t a b : String) (hd : wfData d = true)
    (h : applyStmtR d (.renameColumn t a b) = some d') :
    (rowsOf d' t).map (cellOf · b) = (rowsOf d t).map (cellOf · a) := by
  rw [rowsOf_applyStmtR d d' _ t h, List.map_map]
  apply List.map_congr_left
  intro r hr
  simp only [Function.comp, Stmt.onRow, if_true]
  apply cellOf_rowRename_target
  simp only [applyStmtR] at h
  cases hf : findT d t with
  | none => simp [hf] at h
  | some T =>
    simp only [hf] at h
    split at h
    · rename_i hg
      simp only [rowsOf, hf] at hr
      rw [(wfData_iff d).mp hd T (findT_mem d t T hf).1 r hr]
      exact hg.2
    · cases h

/-! ### new columns read NULL on old rows -/

/-- wherever table `t` has the column `c`, every row reads `NULL` there -/
def nullAt (d : Data) (t c : String) : Prop :=
  ∀ T, findT d t = some T → c ∈ T.cols → ∀ r ∈ T.rows, cellOf r c = some none

theorem mem_renameIn (a b c : String) (cs : List String) (h : c ∈ renameIn a b cs) (hb : c ≠ b) :
    c ∈ cs ∧ c ≠ a := by
  simp only [renameIn, List.mem_map] at h
  obtain ⟨x, hx, hxc⟩ := h
  by_cases hxa : x = a
  · simp [hxa] at hxc; exact absurd hxc.symm hb
  · simp only [hxa, if_false] at hxc
    subst hxc
    exact ⟨hx, hxa⟩

theorem nullAt_applyStmtR (d d' : Data) (st : Stmt) (t c : String) (hd : wfData d = true)
    (h : applyStmtR d st = some d') (hren : ∀ a, st ≠ .renameColumn t a c) (hN : nullAt d t c) :
    nullAt d' t c := by
  have hwf := (wfData_iff d).mp hd
  cases st with
  | addColumn t' c' =>
    simp only [applyStmtR] at h
    cases hf : findT d t' with
    | none => simp [hf] at h
    | some T =>
      simp only [hf] at h
      split at h
      · cases h
      · rename_i hnot
        cases h
        by_cases ht : t' = t
        · subst ht
          intro T' hT' hc r' hr'
          rw [findT_mapT_same d t' (TableR.addCol c') (fun _ => rfl), hf] at hT'
          simp only [Option.map_some, Option.some.injEq] at hT'
          subst hT'
          simp only [TableR.addCol, List.mem_map] at hr'
          obtain ⟨r0, hr0, rfl⟩ := hr'
          have hk := hwf T (findT_mem d t' T hf).1 r0 hr0
          by_cases hcc : c = c'
          · subst hcc
            have : cellOf r0 c = none := cellOf_not_mem r0 c (hk ▸ hnot)
            simp [rowAdd, cellOf_append_none r0 _ c this, cellOf]
          · have hc0 : c ∈ T.cols := by
              simp only [TableR.addCol, List.mem_append, List.mem_singleton] at hc
              rcases hc with hc | hc
              · exact hc
              · exact absurd hc hcc
            exact cellOf_append_left r0 _ c none (hN T hf hc0 r0 hr0)
        · intro T' hT'
          rw [findT_mapT_other d t' t (TableR.addCol c') (fun _ => rfl) (fun e => ht e.symm)] at hT'
          exact hN T' hT'
  | createTable t' cols =>
    simp only [applyStmtR] at h
    cases hf : findT d t' with
    | some T => simp [hf] at h
    | none =>
      simp only [hf] at h
      cases h
      intro T' hT'
      rw [findT_append] at hT'
      cases hft : findT d t with
      | some T0 =>
        simp only [hft, Option.some.injEq] at hT'
        subst hT'
        exact hN T0 hft
      | none =>
        simp only [hft] at hT'
        split at hT'
        · simp only [Option.some.injEq] at hT'
          subst hT'
          intro _ r hr
          simp at hr
        · cases hT'
  | renameColumn t' a b =>
    simp only [applyStmtR] at h
    cases hf : findT d t' with
    | none => simp [hf] at h
    | some T =>
      simp only [hf] at h
      split at h
      · cases h
        by_cases ht : t' = t
        · subst ht
          have hcb : c ≠ b := fun e => hren a (e ▸ rfl)
          intro T' hT' hc r' hr'
          rw [findT_mapT_same d t' (TableR.renameCol a b) (fun _ => rfl), hf] at hT'
          simp only [Option.map_some, Option.some.injEq] at hT'
          subst hT'
          simp only [TableR.renameCol, List.mem_map] at hr'
          obtain ⟨r0, hr0, rfl⟩ := hr'
          obtain ⟨hc0, hca⟩ := mem_renameIn a b c T.cols hc hcb
          rw [cellOf_rowRename_other a b c r0 hca hcb]
          exact hN T hf hc0 r0 hr0
        · intro T' hT'
          rw [findT_mapT_other d t' t (TableR.renameCol a b) (fun _ => rfl) (fun e => ht e.symm)] at hT'
          exact hN T' hT'
      · cases h
  | dropColumn t' c' =>
    simp only [applyStmtR] at h
    cases hf : findT d t' with
    | none => simp [hf] at h
    | some T =>
      simp only [hf] at h
      split at h
      · cases h
        by_cases ht : t' = t
        · subst ht
          intro T' hT' hc r' hr'
          rw [findT_mapT_same d t' (TableR.dropCol c') (fun _ => rfl), hf] at hT'
          simp only [Option.map_some, Option.some.injEq] at hT'
          subst hT'
          simp only [TableR.dropCol, List.mem_map, List.mem_filter, ne_eq, decide_eq_true_eq] at hr' hc
          obtain ⟨r0, hr0, rfl⟩ := hr'
          rw [cellOf_rowDrop_other c c' r0 hc.2]
          exact hN T hf hc.1 r0 hr0
        · intro T' hT'
          rw [findT_mapT_other d t' t (TableR.dropCol c') (fun _ => rfl) (fun e => ht e.symm)] at hT'
          exact hN T' hT'
      · cases h

theorem nullAt_runStmtsR (d : Data) (l : List Stmt) (t c : String) (hd : wfData d = true)
    (hren : ∀ st ∈ l, ∀ a, st ≠ .renameColumn t a c) (hN : nullAt d t c) :
    nullAt (runStmtsR d l).1 t c := by
  induction l generalizing d with
  | nil => exact hN
  | cons st rest ih =>
    have hrest : ∀ st ∈ rest, ∀ a, st ≠ .renameColumn t a c := fun x hx => hren x (List.mem_cons_of_mem _ hx)
    simp only [runStmtsR]
    cases h : applyStmtR d st with
    | none => exact ih d hd hrest hN
    | some d' =>
      exact ih d' (wf_applyStmtR d d' st hd h) hrest
        (nullAt_applyStmtR d d' st t c hd h (hren st List.mem_cons_self) hN)

theorem nullAt_of_no_col (d : Data) (t c : String) (h : hasCol (schemaOf d) t c = false) : nullAt d t c := by
  intro T hT hc
  simp [hasCol, colsOf_schemaOf, hT, hc] at h

/-! ### values follow renames -/

/-- one successful statement: the value is found under the name `Stmt.track` says -/
theorem cellOf_onRow_track (d d' : Data) (st : Stmt) (t c c' : String) (r : Row) (v : Cell)
    (hd : wfData d = true) (h : applyStmtR d st = some d') (hr : r ∈ rowsOf d t)
    (hv : cellOf r c = some v) (ht : st.track t c = some c') :
    cellOf (st.onRow t r) c' = some v := by
  cases st with
  | addColumn t' x =>
    simp only [Stmt.track, Option.some.injEq] at ht
    subst ht
    simp only [Stmt.onRow]
    split
    · exact cellOf_append_left r _ c v hv
    · exact hv
  | createTable t' cols =>
    simp only [Stmt.track, Option.some.injEq] at ht
    subst ht
    exact hv
  | dropColumn t' x =>
    simp only [Stmt.track] at ht
    split at ht
    · cases ht
    · rename_i hg
      simp only [Option.some.injEq] at ht
      subst ht
      simp only [Stmt.onRow]
      split
      · rename_i htt
        have hcx : c ≠ x := fun e => hg ⟨htt, e⟩
        rw [cellOf_rowDrop_other c x r hcx]; exact hv
      · exact hv
  | renameColumn t' a b =>
    -- the guard of the statement, read on this row
    have guard : t' = t → b ∉ keysOf r := by
      intro htt
      subst htt
      simp only [applyStmtR] at h
      cases hf : findT d t' with
      | none => simp [hf] at h
      | some T =>
        simp only [hf] at h
        split at h
        · rename_i hg
          simp only [rowsOf, hf] at hr
          rw [(wfData_iff d).mp hd T (findT_mem d t' T hf).1 r hr]
          exact hg.2
        · cases h
    simp only [Stmt.track] at ht
    split at ht
    · rename_i hg
      simp only [Option.some.injEq] at ht
      subst ht
      simp only [Stmt.onRow, hg.1, if_true]
      rw [cellOf_rowRename_target a b r (guard hg.1), ← hg.2]
      exact hv
    · rename_i hg
      simp only [Option.some.injEq] at ht
      subst ht
      simp only [Stmt.onRow]
      split
      · rename_i htt
        have hca : c ≠ a := fun e => hg ⟨htt, e⟩
        have hcb : c ≠ b := fun e => guard htt (e ▸ cellOf_mem r c v hv)
        rw [cellOf_rowRename_other a b c r hca hcb]; exact hv
      · exact hv

/-- the loop: the value of column `c` is found under the name `logTrack` says -/
theorem cell_tracked (d : Data) (l : List Stmt) (t c c' : String) (hd : wfData d = true)
    (r : Row) (hr : r ∈ rowsOf d t) (v : Cell) (hv : cellOf r c = some v)
    (ht : logTrack t (runStmtsR d l).2 c = some c') :
    cellOf (logOnRow t (runStmtsR d l).2 r) c' = some v := by
  induction l generalizing d r c with
  | nil =>
    simp only [runStmtsR, logTrack, Option.some.injEq] at ht
    subst ht
    simpa [runStmtsR, logOnRow] using hv
  | cons st rest ih =>
    simp only [runStmtsR] at ht ⊢
    cases h : applyStmtR d st with
    | none =>
      simp only [h, logTrack, Bool.false_eq_true, if_false] at ht
      simp only [logOnRow, Bool.false_eq_true, if_false]
      exact ih d c hd r hr hv ht
    | some d' =>
      simp only [h, logTrack, if_true] at ht
      simp only [logOnRow, if_true]
      cases hm : st.track t c with
      | none => simp [hm] at ht
      | some c1 =>
        simp only [hm, Option.bind_some] at ht
        apply ih d' c1 (wf_applyStmtR d d' st hd h)
        · rw [rowsOf_applyStmtR d d' st t h]
          exact List.mem_map_of_mem hr
        · exact cellOf_onRow_track d d' st t c c1 r v hd h hr hv hm
        · exact ht

/-! ### the steps still outstanding are among the steps -/

theorem getSteps_subset (tbl : Table) (r : Option String) : ∀ s ∈ getSteps tbl r, s ∈ tbl.steps := by
  intro s hs
  cases r with
  | none => exact hs
  | some rid =>
    simp only [getSteps] at hs
    split at hs
    · exact (List.mem_filter.mp hs).1
    · exact hs

theorem stmtsOf_subset (tbl : Table) (r : Option String) : ∀ st ∈ stmtsOf (getSteps tbl r), st ∈ stmtsOf tbl.steps := by
  intro st hst
  simp only [stmtsOf, List.mem_flatMap] at hst ⊢
  obtain ⟨s, hs, hm⟩ := hst
  exact ⟨s, getSteps_subset tbl r s hs, hm⟩

end AF.Migrate
