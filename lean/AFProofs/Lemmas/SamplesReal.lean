import Mathlib.Analysis.SpecialFunctions.Exp
import AFProofs.Lemmas.SamplesMore

/-! The conversions of C05 over exact (real) arithmetic: the weight normalisations sum to one. -/

namespace AF.Samples

/-- the arithmetic of the conversions over the reals (`exp` is the real exponential) -/
noncomputable def realSOps : SOps ℝ where
  add := (· + ·)
  sub := (· - ·)
  negHalf := fun x => -(1 / 2) * x
  exp := Real.exp
  zero := 0
  one := 1
  lt := fun a b => decide (a < b)
  le := fun a b => decide (a ≤ b)

theorem foldl_add_eq_sum (l : List ℝ) (a : ℝ) : l.foldl (· + ·) a = a + l.sum := by
  induction l generalizing a with
  | nil => simp
  | cons x l ih => simp [ih, add_assoc]

theorem weightSum_real (ss : List (Sample ℝ)) : weightSum realSOps ss = (ss.map (·.w)).sum := by
  rw [weightSum_eq_foldl]
  simp [realSOps, foldl_add_eq_sum]

theorem sum_exp_sub (l : List ℝ) (z : ℝ) :
    (l.map (fun x => Real.exp (x - z))).sum = (l.map Real.exp).sum / Real.exp z := by
  induction l with
  | nil => simp
  | cons x l ih =>
    simp only [List.map_cons, List.sum_cons, ih, add_div]
    rw [Real.exp_sub]

end AF.Samples
