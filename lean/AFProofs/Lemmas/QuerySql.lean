import AFModel.QuerySql
import AFProofs.Lemmas.Query

/-! Helper lemmas about `QuerySql` (junctions as sets). Property theorems: `AFProofs/C10.lean`. Core Lean only. -/

namespace AF.Query

variable {α : Type}

/-! ### structural equality is equality -/

mutual
theorem Q.same_sound [DecidableEq α] : ∀ (a b : Q α), Q.same a b = true → a = b
  | .value o c, b, h => by cases b <;> simp_all [Q.same]
  | .strv o s, b, h => by cases b <;> simp_all [Q.same]
  | .isNone, b, h => by cases b <;> simp_all [Q.same]
  | .type p, b, h => by cases b <;> simp_all [Q.same]
  | .fitc c, b, h => by cases b <;> simp_all [Q.same]
  | .named n i c, b, h => by
    cases b with
    | named n' i' c' =>
      simp only [Q.same, Bool.and_eq_true, decide_eq_true_eq] at h
      obtain ⟨⟨rfl, rfl⟩, hc⟩ := h
      rw [Q.same_sound c c' hc]
    | _ => simp [Q.same] at h
  | .inverted q, b, h => by
    cases b with
    | inverted q' =>
      simp only [Q.same] at h
      rw [Q.same_sound q q' h]
    | _ => simp [Q.same] at h
  | .and cs, b, h => by
    cases b with
    | and cs' =>
      simp only [Q.same] at h
      rw [sameList_sound cs cs' h]
    | _ => simp [Q.same] at h
  | .or cs, b, h => by
    cases b with
    | or cs' =>
      simp only [Q.same] at h
      rw [sameList_sound cs cs' h]
    | _ => simp [Q.same] at h
theorem sameList_sound [DecidableEq α] : ∀ (as bs : List (Q α)), sameList as bs = true → as = bs
  | [], [], _ => rfl
  | [], _ :: _, h => by simp [sameList] at h
  | _ :: _, [], h => by simp [sameList] at h
  | a :: as, b :: bs, h => by
    simp only [sameList, Bool.and_eq_true] at h
    rw [Q.same_sound a b h.1, sameList_sound as bs h.2]
end

mutual
theorem Q.same_refl [DecidableEq α] : ∀ (a : Q α), Q.same a a = true
  | .value _ _ => by simp [Q.same]
  | .strv _ _ => by simp [Q.same]
  | .isNone => by simp [Q.same]
  | .type _ => by simp [Q.same]
  | .fitc _ => by simp [Q.same]
  | .named _ _ c => by simp [Q.same, Q.same_refl c]
  | .inverted q => by simp [Q.same, Q.same_refl q]
  | .and cs => by simp [Q.same, sameList_refl cs]
  | .or cs => by simp [Q.same, sameList_refl cs]
theorem sameList_refl [DecidableEq α] : ∀ (as : List (Q α)), sameList as as = true
  | [] => rfl
  | a :: as => by simp [sameList, Q.same_refl a, sameList_refl as]
end

theorem Q.same_iff [DecidableEq α] (a b : Q α) : Q.same a b = true ↔ a = b :=
  ⟨Q.same_sound a b, fun h => h ▸ Q.same_refl a⟩

/-! ### a set of conditions: `dedupSame`, `canon` -/

/-- an equality test that only ever identifies equal things -/
def SoundEq {β} (same : β → β → Bool) : Prop := ∀ a b, same a b = true → a = b

theorem mem_dedupSame {β} {same : β → β → Bool} (hs : SoundEq same) {x : β} :
    ∀ {l : List β}, x ∈ dedupSame same l ↔ x ∈ l
  | [] => by simp [dedupSame]
  | a :: l => by
    simp only [dedupSame, List.mem_cons, List.mem_filter, mem_dedupSame hs (l := l), Bool.not_eq_true']
    constructor
    · rintro (h | ⟨h, _⟩)
      · exact Or.inl h
      · exact Or.inr h
    · rintro (h | h)
      · exact Or.inl h
      · cases hsx : same a x
        · exact Or.inr ⟨h, rfl⟩
        · exact Or.inl (hs a x hsx).symm

theorem nodup_dedupSame {β} {same : β → β → Bool} (hr : ∀ a, same a a = true) :
    ∀ (l : List β), (dedupSame same l).Nodup
  | [] => by simp [dedupSame]
  | a :: l => by
    simp only [dedupSame, List.nodup_cons, List.mem_filter, Bool.not_eq_true']
    refine ⟨?_, (nodup_dedupSame hr l).filter _⟩
    rintro ⟨_, h⟩
    rw [hr a] at h
    exact Bool.noConfusion h

theorem mem_canon {β : Type} {same : β → β → Bool} (hs : SoundEq same) (key : β → String) {x : β} {l : List β} :
    x ∈ canon same key l ↔ x ∈ l := by
  simp only [canon]
  rw [(perm_isort (keyLe key) _).mem_iff, mem_dedupSame hs]

theorem nodup_canon {β : Type} {same : β → β → Bool} (hr : ∀ a, same a a = true) (key : β → String) (l : List β) :
    (canon same key l).Nodup :=
  (perm_isort (keyLe key) _).nodup_iff.mpr (nodup_dedupSame hr l)

theorem keyLe_total {β : Type} (key : β → String) (a b : β) : keyLe key a b = true ∨ keyLe key b a = true := by
  simp only [keyLe, Bool.not_eq_true', decide_eq_false_iff_not]
  by_cases h : key b < key a
  · right; exact String.lt_asymm h
  · left; exact h

theorem keyLe_trans {β : Type} (key : β → String) (a b c : β) (h1 : keyLe key a b = true) (h2 : keyLe key b c = true) :
    keyLe key a c = true := by
  simp only [keyLe, Bool.not_eq_true', decide_eq_false_iff_not, String.not_lt] at *
  exact String.le_trans h1 h2

theorem sorted_canon {β : Type} (same : β → β → Bool) (key : β → String) (l : List β) :
    (canon same key l).Pairwise (fun a b => keyLe key a b = true) :=
  sorted_isort _ (keyLe_trans key) (keyLe_total key) _

theorem keyLe_antisymm (a b : String) (h1 : keyLe id a b = true) (h2 : keyLe id b a = true) : a = b := by
  simp only [keyLe, id, Bool.not_eq_true', decide_eq_false_iff_not] at h1 h2
  exact String.le_antisymm (String.not_lt.mp h1) (String.not_lt.mp h2)

/-- `sorted(strings)` depends only on which strings there are, not on the order they are listed in -/
theorem sortStrs_perm {l₁ l₂ : List String} (h : l₁.Perm l₂) : sortStrs l₁ = sortStrs l₂ := by
  apply List.Perm.eq_of_pairwise (le := fun a b => keyLe id a b = true)
  · intro a b _ _ h1 h2; exact keyLe_antisymm a b h1 h2
  · exact sorted_isort _ (keyLe_trans id) (keyLe_total id) _
  · exact sorted_isort _ (keyLe_trans id) (keyLe_total id) _
  · exact (perm_isort _ l₁).trans (h.trans (perm_isort _ l₂).symm)

theorem all_of_mem_iff {β} {l₁ l₂ : List β} (h : ∀ x, x ∈ l₁ ↔ x ∈ l₂) (p : β → Bool) : l₁.all p = l₂.all p := by
  rw [Bool.eq_iff_iff, List.all_eq_true, List.all_eq_true]
  exact ⟨fun H x hx => H x ((h x).mpr hx), fun H x hx => H x ((h x).mp hx)⟩

theorem any_of_mem_iff {β} {l₁ l₂ : List β} (h : ∀ x, x ∈ l₁ ↔ x ∈ l₂) (p : β → Bool) : l₁.any p = l₂.any p := by
  rw [Bool.eq_iff_iff, List.any_eq_true, List.any_eq_true]
  exact ⟨fun ⟨x, hx, hp⟩ => ⟨x, (h x).mp hx, hp⟩, fun ⟨x, hx, hp⟩ => ⟨x, (h x).mpr hx, hp⟩⟩

theorem contribAll_eq_any (cs : List (Q α)) :
    contribAll cs = ⟨cs.any (fun c => (contrib c).value), cs.any (fun c => (contrib c).string), cs.any (fun c => (contrib c).nul)⟩ := by
  induction cs with
  | nil => rfl
  | cons c cs ih => simp [contribAll, ih, Tables.union]

theorem contribAll_of_mem_iff {l₁ l₂ : List (Q α)} (h : ∀ x, x ∈ l₁ ↔ x ∈ l₂) : contribAll l₁ = contribAll l₂ := by
  rw [contribAll_eq_any, contribAll_eq_any, any_of_mem_iff h, any_of_mem_iff h, any_of_mem_iff h]

variable (ops : NumOps α) (f : Fit α)

theorem jsem_of_mem_iff {l₁ l₂ : List (Q α)} (h : ∀ x, x ∈ l₁ ↔ x ∈ l₂) (isAnd : Bool) (o : Obj α) :
    jsem ops f isAnd l₁ o = jsem ops f isAnd l₂ o := by
  cases isAnd
  · simp only [jsem, Bool.false_eq_true, if_false]; exact any_of_mem_iff h _
  · simp only [jsem, if_true]; exact all_of_mem_iff h _

/-! ### junction construction with sets -/

theorem otherS_true : otherS (α := α) true = Q.other := by
  funext q; rfl

theorem mergeable_of_mergeableS {cfg : Cfg} {bare isAnd : Bool} {c : Q α} (h : mergeableS cfg bare isAnd c = true) :
    mergeable cfg c = true := by
  simp only [mergeableS, Bool.and_eq_true] at h
  exact h.1

theorem contrib_mkJS (cfg : Cfg) {same : Q α → Q α → Bool} (hs : SoundEq same) (key : Q α → String) :
    ∀ (fuel : Nat) (isAnd : Bool) (cs : List (Q α)), contrib (mkJS cfg true same key fuel isAnd cs) = contribAll cs
  | 0, isAnd, cs => by simp [mkJS, contrib_junction]
  | fuel + 1, isAnd, cs => by
    simp only [mkJS]
    rw [contrib_collapse, contribAll_of_mem_iff (fun x => mem_canon hs key), contribAll_append]
    rw [contribAll_eq_empty (cs := List.map _ _)]
    · rw [Tables.union_empty, contribAll_filter, contribAll_flat]
      intro c _ hc
      have : mergeableS cfg true isAnd c = true := by simpa using hc
      exact contrib_of_mergeable (mergeable_of_mergeableS this)
    · intro c hc
      obtain ⟨k, _, rfl⟩ := List.mem_map.mp hc
      simp [contrib]

/-- the merge step for `mkJS` (as `merge_sem`) -/
theorem merge_semS (cfg : Cfg) {same : Q α → Q α → Bool} (hs : SoundEq same) (key : Q α → String) (fuel : Nat)
    (isAnd : Bool)
    (hsem : ∀ (cs : List (Q α)) (k : Obj α), k.WF = true →
      sem ops f (mkJS cfg true same key fuel isAnd cs) k = jsem ops f isAnd cs k)
    (g : List (Q α)) (hne : g ≠ []) (n : String) (T : Option Tables) (hT : isAnd = false → T.isSome)
    (hg : ∀ q ∈ g, GoodNamed n T q) (o : Obj α) (hwf : o.WF = true) :
    sem ops f (.named n false (mkJS cfg true same key fuel isAnd (g.filterMap (otherS true)))) o = jsem ops f isAnd g o := by
  rw [otherS_true, sem_goodNamed ops f hwf g hg isAnd]
  simp only [sem, matchKid_eq_get hwf, contrib_mkJS cfg hs key, Bool.false_bne]
  cases hget : o.get n with
  | none =>
    cases isAnd
    · simp
    · simp [all_false_of_ne_nil hne]
  | some k =>
    have hk : k.WF = true := WF_get hwf hget
    simp only [Option.any_some, hsem _ k hk]
    cases isAnd
    · obtain ⟨t, rfl⟩ := Option.isSome_iff_exists.mp (hT rfl)
      have hc := other_contrib_of_good hg
      rw [contribAll_const (filterMap_other_ne_nil hne hg) hc]
      simp only [jsem, Bool.false_eq_true, if_false]
      rw [and_any]
      exact any_congr_mem (fun c hc' => by rw [hc c hc'])
    · simp only [jsem, if_true]
      rw [inTables_contribAll, all_and_all]

/-- **Junction construction with the conditions in a set keeps the meaning** -/
theorem mkJS_sem (cfg : Cfg) (hcfg : cfg.junctionKeepsNot = true) {same : Q α → Q α → Bool} (hs : SoundEq same)
    (key : Q α → String) : ∀ (fuel : Nat) (isAnd : Bool) (cs : List (Q α))
    (o : Obj α), o.WF = true → sem ops f (mkJS cfg true same key fuel isAnd cs) o = jsem ops f isAnd cs o
  | 0, isAnd, cs, o, _ => by simp [mkJS, sem_junction]
  | fuel + 1, isAnd, cs, o, hwf => by
    have ih := fun cs k hk => mkJS_sem cfg hcfg hs key fuel isAnd cs k hk
    simp only [mkJS]
    rw [sem_collapse, jsem_of_mem_iff ops f (fun x => mem_canon hs key), jsem_append]
    rw [← jsem_flat ops f isAnd cs o, jsem_partition ops f isAnd (mergeableS cfg true isAnd) (flat isAnd cs) o]
    rw [jsem_groups ops f isAnd (groupKey isAnd) ((flat isAnd cs).filter (mergeableS cfg true isAnd)) o]
    have hmerged : ∀ k ∈ dedupKeys (((flat isAnd cs).filter (mergeableS cfg true isAnd)).map (groupKey isAnd)),
        sem ops f (Q.named k.1 false (mkJS cfg true same key fuel isAnd
          ((((flat isAnd cs).filter (mergeableS cfg true isAnd)).filter (fun c => groupKey isAnd c == k)).filterMap (otherS true)))) o
        = jsem ops f isAnd (((flat isAnd cs).filter (mergeableS cfg true isAnd)).filter (fun c => groupKey isAnd c == k)) o := by
      intro k hk
      obtain ⟨q, hq, hqk⟩ := List.mem_map.mp (mem_dedupKeys.mp hk)
      apply merge_semS ops f cfg hs key fuel isAnd ih _ _ k.1 k.2
      · intro hA
        subst hA; subst hqk
        simp [groupKey]
      · intro x hx
        have hx' := List.mem_filter.mp hx
        have hx'' := List.mem_filter.mp hx'.1
        exact good_of_group hcfg (mergeable_of_mergeableS hx''.2) (by simpa using hx'.2)
      · exact hwf
      · intro hnil
        have : q ∈ ((flat isAnd cs).filter (mergeableS cfg true isAnd)).filter (fun c => groupKey isAnd c == k) :=
          List.mem_filter.mpr ⟨hq, by simp [hqk]⟩
        rw [hnil] at this
        simp at this
    cases isAnd
    · simp only [Bool.false_eq_true, if_false]
      rw [Bool.or_comm]
      congr 1
      simp only [jsem, Bool.false_eq_true, if_false, List.any_map]
      exact any_congr_mem hmerged
    · simp only [if_true]
      rw [Bool.and_comm]
      congr 1
      simp only [jsem, if_true, List.all_map]
      exact all_congr_mem hmerged

/-- **Compiler correctness with sets**, pointwise -/
theorem sem_compileS (cfg : Cfg) (hcfg : cfg.junctionKeepsNot = true) {same : Q α → Q α → Bool} (hs : SoundEq same)
    (key : Q α → String) (fuel : Nat) (hwf : f.inst.WF = true) :
    ∀ (p : Pred α), sem ops f (compileS cfg true same key fuel p) f.inst = evalDirect ops f p
  | .path n ns leaf => by
    simp only [compileS, evalDirect, sem_pathQ ops f leaf (n :: ns) f.inst hwf]
    cases f.inst.follow (n :: ns) <;> simp
  | .fitc c => by simp [compileS, sem, evalDirect]
  | .and x y => by
    simp only [compileS, evalDirect, mkJS_sem ops f cfg hcfg hs key fuel true _ f.inst hwf, jsem, if_true, List.all_cons,
      List.all_nil, Bool.and_true, sem_compileS cfg hcfg hs key fuel hwf x, sem_compileS cfg hcfg hs key fuel hwf y]
  | .or x y => by
    simp only [compileS, evalDirect, mkJS_sem ops f cfg hcfg hs key fuel false _ f.inst hwf, jsem, Bool.false_eq_true,
      if_false, List.any_cons, List.any_nil, Bool.or_false, sem_compileS cfg hcfg hs key fuel hwf x,
      sem_compileS cfg hcfg hs key fuel hwf y]
  | .not x => by
    simp only [compileS, evalDirect, sem_invert, sem_compileS cfg hcfg hs key fuel hwf x]

namespace Witness

/-- `(g.centre == 1) & ((g.sigma == 2) & (g.centre == 1))` -/
def dupPred : Pred Nat :=
  .and (.path "g" ["centre"] (.num .eq 1)) (.and (.path "g" ["sigma"] (.num .eq 2)) (.path "g" ["centre"] (.num .eq 1)))

/-- `g | (g.centre == 1)` -/
def bareOr : Pred Nat := .or (.path "g" [] .any) (.path "g" ["centre"] (.num .eq 1))

end Witness

end AF.Query
