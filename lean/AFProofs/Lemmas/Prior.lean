import AFModel.Prior
import AFModel.PriorFloat

/-!
Helper definitions and lemmas for `AFProofs/C02.lean`.

* `Lawful S` – exactly the laws of the special functions that the theorems use (inverse pairs, monotone,
  ranges); true of the real `Φ, Φ⁻¹, exp, log, 10^x, log10`.
* `WF S p` – the parameter conditions the prior constructors enforce (`lower < upper`, `0 < lower` for
  log-uniform) plus `0 < sigma`.
* `ratSpecial` – an instance over `Rat` (closed-form strictly monotone bijections) showing that `Lawful`
  is inhabited, used by the non-vacuity examples.
* unfolding lemmas for the four transform stacks.
-/

open Lean Grind

namespace AF.Prior

section Order
variable {K : Type} [Field K] [LE K] [LT K] [Std.IsLinearOrder K] [Std.LawfulOrderLT K] [OrderedRing K]

/-! ### order facts about division -/

theorem one_div_pos (t : K) (h : 0 < t) : 0 < 1 / t := by
  have h1 : t * (1 / t) = 1 := by
    have : t ≠ 0 := by grind
    grind
  apply Classical.byContradiction
  intro hn
  have hle : 1 / t ≤ 0 := by grind
  have := OrderedRing.mul_le_mul_of_nonneg_left hle (Std.le_of_lt h)
  grind

theorem one_lt_div (a b : K) (hb : 0 < b) (h : b < a) : 1 < a / b := by
  have hne : b ≠ 0 := by grind
  have h1 : b * (a / b) = a := by grind
  apply Classical.byContradiction
  intro hn
  have hle : a / b ≤ 1 := by grind
  have := OrderedRing.mul_le_mul_of_nonneg_left hle (Std.le_of_lt hb)
  grind

theorem div_le_div_right (a b c : K) (hc : 0 < c) (h : a ≤ b) : a / c ≤ b / c := by
  have hp := one_div_pos c hc
  have := OrderedRing.mul_le_mul_of_nonneg_left h (Std.le_of_lt hp)
  have e1 : a / c = 1 / c * a := by
    have : c ≠ 0 := by grind
    grind
  have e2 : b / c = 1 / c * b := by
    have : c ≠ 0 := by grind
    grind
  grind

theorem mul_le_mul_left' (a b c : K) (hc : 0 ≤ c) (h : a ≤ b) : c * a ≤ c * b :=
  OrderedRing.mul_le_mul_of_nonneg_left h hc

theorem mul_le_mul_right' (a b c : K) (hc : 0 ≤ c) (h : a ≤ b) : a * c ≤ b * c := by
  have := OrderedRing.mul_le_mul_of_nonneg_left h hc
  grind

theorem one_div_anti (a b : K) (ha : 0 < a) (h : a ≤ b) : 1 / b ≤ 1 / a := by
  have hb : 0 < b := by grind
  have pa := one_div_pos a ha
  have pb := one_div_pos b hb
  have e1 : a * (1 / a) = 1 := by
    have : a ≠ 0 := by grind
    grind
  have e2 : b * (1 / b) = 1 := by
    have : b ≠ 0 := by grind
    grind
  have hp : 0 ≤ 1 / a * (1 / b) := by
    have := OrderedRing.mul_le_mul_of_nonneg_left (Std.le_of_lt pb) (Std.le_of_lt pa)
    grind
  have := mul_le_mul_right' a b (1 / a * (1 / b)) hp h
  have e3 : a * (1 / a * (1 / b)) = 1 / b := by grind
  have e4 : b * (1 / a * (1 / b)) = 1 / a := by grind
  grind

end Order

section Field
variable {K : Type} [Field K] [LE K] [LT K] [Std.IsLinearOrder K] [Std.LawfulOrderLT K] [OrderedRing K]
  [DecidableLE K] [DecidableLT K]
set_option linter.unusedSectionVars false

/-- the laws of the special functions used by the theorems -/
structure Lawful (S : Special K) : Prop where
  phi_phiInv : ∀ u, 0 < u → u < 1 → S.phi (S.phiInv u) = u
  phiInv_phi : ∀ x, S.phiInv (S.phi x) = x
  phi_pos : ∀ x, 0 < S.phi x
  phi_lt_one : ∀ x, S.phi x < 1
  phi_mono : ∀ x y, x ≤ y → S.phi x ≤ S.phi y
  phiInv_mono : ∀ u v, 0 < u → u ≤ v → v < 1 → S.phiInv u ≤ S.phiInv v
  exp_log : ∀ y, 0 < y → S.exp (S.log y) = y
  log_exp : ∀ x, S.log (S.exp x) = x
  exp_pos : ∀ x, 0 < S.exp x
  exp_mono : ∀ x y, x ≤ y → S.exp x ≤ S.exp y
  pow10_log10 : ∀ y, 0 < y → S.pow10 (S.log10 y) = y
  log10_pow10 : ∀ x, S.log10 (S.pow10 x) = x
  pow10_pos : ∀ x, 0 < S.pow10 x
  pow10_mono : ∀ x y, x ≤ y → S.pow10 x ≤ S.pow10 y
  log10_pos : ∀ y, 1 < y → 0 < S.log10 y
  eps_pos : 0 < S.eps
  eps_lt_one : S.eps < 1
  round_mono : ∀ n x y, x ≤ y → S.round n x ≤ S.round n y

/-- what the constructors enforce (`PriorException` otherwise), plus a positive `sigma` -/
def WF (p : Params K) : Prop :=
  match p.kind with
  | .uniform => p.lower < p.upper
  | .logUniform => 0 < p.lower ∧ p.lower < p.upper
  | .gaussian | .logGaussian => p.lower < p.upper ∧ 0 < p.sigma

/-! ### the clamp of `ndtri` is the identity inside the unit interval -/

theorem clampUnit_id (S : Special K) (x : K) (h0 : 0 < x) (h1 : x < 1) : clampUnit S x = x := by
  unfold clampUnit
  grind

theorem clampUnit_zero (S : Special K) (h : Lawful S) : clampUnit S 0 = S.eps := by
  unfold clampUnit
  have := h.eps_pos
  grind

/-! ### the four transform stacks, unfolded -/

theorem raw_uniform (S : Special K) (L U m s u : K) :
    rawValueFor S ⟨.uniform, L, U, m, s⟩ u = S.phi (S.phiInv u) * (U - L) + L := by
  simp [rawValueFor, transforms, baseValue, invAll, Tr.inv]

theorem raw_logUniform (S : Special K) (L U m s u : K) :
    rawValueFor S ⟨.logUniform, L, U, m, s⟩ u
      = S.pow10 (S.phi (S.phiInv u) * S.log10 (U / L) + S.log10 L) := by
  simp [rawValueFor, transforms, baseValue, invAll, Tr.inv]

theorem raw_gaussian (S : Special K) (L U m s u : K) :
    rawValueFor S ⟨.gaussian, L, U, m, s⟩ u = m + s * S.phiInv u := by
  simp [rawValueFor, transforms, baseValue, invAll]

theorem raw_logGaussian (S : Special K) (L U m s u : K) :
    rawValueFor S ⟨.logGaussian, L, U, m, s⟩ u = S.exp (m + s * S.phiInv u) := by
  simp [rawValueFor, transforms, baseValue, invAll, Tr.inv]

theorem unit_uniform (S : Special K) (L U m s x : K) :
    unitValueFor S ⟨.uniform, L, U, m, s⟩ x = S.phi (S.phiInv (clampUnit S ((x - L) / (U - L)))) := by
  simp [unitValueFor, transforms, baseCdf, fwdAll, Tr.fwd]

theorem unit_logUniform (S : Special K) (L U m s x : K) :
    unitValueFor S ⟨.logUniform, L, U, m, s⟩ x
      = S.phi (S.phiInv (clampUnit S ((S.log10 x - S.log10 L) / S.log10 (U / L)))) := by
  simp [unitValueFor, transforms, baseCdf, fwdAll, Tr.fwd]

theorem unit_gaussian (S : Special K) (L U m s x : K) :
    unitValueFor S ⟨.gaussian, L, U, m, s⟩ x = S.phi ((x - m) / s) := by
  simp [unitValueFor, transforms, baseCdf, fwdAll]

theorem unit_logGaussian (S : Special K) (L U m s x : K) :
    unitValueFor S ⟨.logGaussian, L, U, m, s⟩ x = S.phi ((S.log x - m) / s) := by
  simp [unitValueFor, transforms, baseCdf, fwdAll, Tr.fwd]

/-- the CDF of the distribution each prior declares, in closed form -/
def declaredCdf (S : Special K) (p : Params K) (x : K) : K :=
  match p.kind with
  | .uniform => (x - p.lower) / (p.upper - p.lower)
  | .logUniform => (S.log10 x - S.log10 p.lower) / S.log10 (p.upper / p.lower)
  | .gaussian => S.phi ((x - p.mean) / p.sigma)
  | .logGaussian => S.phi ((S.log x - p.mean) / p.sigma)

/-- `0 < log10 (U/L)` for a well-formed log-uniform prior -/
theorem logScale_pos (S : Special K) (h : Lawful S) (L U : K) (hL : 0 < L) (hLU : L < U) :
    0 < S.log10 (U / L) :=
  h.log10_pos _ (one_lt_div U L hL hLU)

/-! ### clamp and gate -/

theorem clamp_mem (L U v : K) (hLU : L ≤ U) : L ≤ clamp L U v ∧ clamp L U v ≤ U := by
  unfold clamp
  grind

theorem clamp_mono (L U v w : K) (h : v ≤ w) : clamp L U v ≤ clamp L U w := by
  unfold clamp
  grind

end Field

/-! ### `Lawful` is inhabited: closed-form bijections over `Rat` -/

/-- strictly increasing bijection `Rat → (0,1)` -/
def ratPhi (x : Rat) : Rat := if 0 ≤ x then 1 - 1 / (2 * (1 + x)) else 1 / (2 * (1 - x))

def ratPhiInv (u : Rat) : Rat := if 1 / 2 ≤ u then 1 / (2 * (1 - u)) - 1 else 1 - 1 / (2 * u)

/-- strictly increasing bijection `Rat → (0,∞)` -/
def ratExp (x : Rat) : Rat := if 0 ≤ x then x + 1 else 1 / (1 - x)

def ratLog (y : Rat) : Rat := if 1 ≤ y then y - 1 else 1 - 1 / y

def ratSpecial : Special Rat where
  phi := ratPhi
  phiInv := ratPhiInv
  exp := ratExp
  log := ratLog
  pow10 := ratExp
  log10 := ratLog
  eps := 1 / 100000000000000
  round := fun _ x => x
  roundLegacy := fun x => x

/-! ### the limit gate (any number type, `Float` included) -/

section Gate
variable {K : Type} [LE K] [DecidableLE K]

theorem gate_ok (ignore : Bool) (L U raw v : K) (h : gate ignore L U raw = .ok v) : v = raw := by
  unfold gate at h
  split at h
  · cases h; rfl
  · cases h

theorem inLimits_iff (L U v : K) : inLimits L U v = true ↔ L ≤ v ∧ v ≤ U := by
  simp [inLimits]

end Gate

/-! ### `UniformPrior._decimal_places` (any number type, `Float` included) -/

section Places
variable {K : Type} [Mul K] [LT K] [DecidableLT K] [OfNat K 1] [OfNat K 10]

theorem decimalPlacesGo_ge (w : K) (p fuel : Nat) : p ≤ decimalPlacesGo w p fuel := by
  induction fuel generalizing w p with
  | zero => simp [decimalPlacesGo]
  | succ n ih =>
    simp only [decimalPlacesGo]
    split
    · have := ih (w * 10) (p + 1); omega
    · omega

theorem decimalPlacesGo_le (w : K) (p fuel : Nat) (hp : p ≤ 323) : decimalPlacesGo w p fuel ≤ 323 := by
  induction fuel generalizing w p with
  | zero => simpa [decimalPlacesGo]
  | succ n ih =>
    simp only [decimalPlacesGo]
    split
    · exact ih (w * 10) (p + 1) (by omega)
    · exact hp

end Places

/-! ### the integer rounding step of `pyRound` (CPython `round(x, n)`) -/

theorem divRoundHalfEven_mono (a b d : Nat) (hd : 0 < d) (h : a ≤ b) :
    divRoundHalfEven a d ≤ divRoundHalfEven b d := by
  have hq : a / d ≤ b / d := Nat.div_le_div_right h
  have ea := Nat.div_add_mod a d
  have eb := Nat.div_add_mod b d
  have ra := Nat.mod_lt a hd
  have rb := Nat.mod_lt b hd
  unfold divRoundHalfEven
  simp only
  by_cases hqq : a / d = b / d
  · rw [hqq] at ea ⊢
    split <;> split <;> omega
  · split <;> split <;> omega

/-- the rounded quotient is within half a unit: `|k * d - a| ≤ d / 2` -/
theorem divRoundHalfEven_error (a d : Nat) (hd : 0 < d) :
    2 * (divRoundHalfEven a d * d) ≤ 2 * a + d ∧ 2 * a ≤ 2 * (divRoundHalfEven a d * d) + d := by
  have ea := Nat.div_add_mod a d
  have ra := Nat.mod_lt a hd
  unfold divRoundHalfEven
  simp only
  have e : (a / d + 1) * d = d * (a / d) + d := by rw [Nat.add_mul, Nat.mul_comm]; simp
  have e' : (a / d) * d = d * (a / d) := Nat.mul_comm _ _
  split
  · rw [e]; omega
  · rw [e']; omega

/-- a multiple of the divisor is returned unchanged (values already on the decimal grid are fixed) -/
theorem divRoundHalfEven_exact (k d : Nat) (hd : 0 < d) : divRoundHalfEven (k * d) d = k := by
  unfold divRoundHalfEven
  simp [Nat.mul_div_cancel _ hd]
  omega

/-! lawfulness of the `Rat` instance -/

theorem rat_half_le_div (t : Rat) (h : 1 ≤ t) : 1 / (2 * t) ≤ 1 / 2 :=
  one_div_anti 2 (2 * t) (by grind) (by grind)

theorem rat_phi_pos (x : Rat) : 0 < ratPhi x := by
  unfold ratPhi
  split
  · have := rat_half_le_div (1 + x) (by grind)
    grind
  · exact one_div_pos _ (by grind)

theorem rat_phi_lt_one (x : Rat) : ratPhi x < 1 := by
  unfold ratPhi
  split
  · have := one_div_pos (2 * (1 + x)) (by grind)
    grind
  · have := rat_half_le_div (1 - x) (by grind)
    grind

theorem rat_one_lt_one_div (t : Rat) (h0 : 0 < t) (h1 : t < 1) : 1 < 1 / t := by
  have := one_lt_div 1 t h0 h1
  grind

theorem rat_phi_phiInv (u : Rat) (h0 : 0 < u) (h1 : u < 1) : ratPhi (ratPhiInv u) = u := by
  unfold ratPhiInv
  split
  · have hp : (0:Rat) < 2 * (1 - u) := by grind
    have hle := one_div_anti (2 * (1 - u)) 1 hp (by grind)
    have hne : (2 * (1 - u)) ≠ 0 := by grind
    unfold ratPhi
    have hc : (0:Rat) ≤ 1 / (2 * (1 - u)) - 1 := by grind
    rw [if_pos hc]
    have hq := one_div_pos _ hp
    have : (1 / (2 * (1 - u))) ≠ 0 := by grind
    grind
  · have hp : (0:Rat) < 2 * u := by grind
    have hne : (2 * u) ≠ 0 := by grind
    unfold ratPhi
    have hlt := rat_one_lt_one_div (2 * u) hp (by grind)
    have hc : ¬ (0:Rat) ≤ 1 - 1 / (2 * u) := by grind
    rw [if_neg hc]
    have hq := one_div_pos _ hp
    have : (1 / (2 * u)) ≠ 0 := by grind
    grind

theorem rat_phiInv_phi (x : Rat) : ratPhiInv (ratPhi x) = x := by
  unfold ratPhi
  split
  · have hp : (0:Rat) < 2 * (1 + x) := by grind
    have hle := rat_half_le_div (1 + x) (by grind)
    have hq := one_div_pos _ hp
    have hne : (2 * (1 + x)) ≠ 0 := by grind
    unfold ratPhiInv
    have hc : (1:Rat) / 2 ≤ 1 - 1 / (2 * (1 + x)) := by grind
    rw [if_pos hc]
    have : (1 / (2 * (1 + x))) ≠ 0 := by grind
    grind
  · have hp : (0:Rat) < 2 * (1 - x) := by grind
    have hq := one_div_pos _ hp
    have hne : (2 * (1 - x)) ≠ 0 := by grind
    have hlt : 1 / (2 * (1 - x)) < 1 / 2 := by
      have h2 := one_lt_div (2 * (1 - x)) 2 (by grind) (by grind)
      -- 1 < (2(1-x))/2  →  1/(2(1-x)) < 1/2
      apply Classical.byContradiction
      intro hn
      have hge : 1 / 2 ≤ 1 / (2 * (1 - x)) := by grind
      have := mul_le_mul_left' (1 / 2) (1 / (2 * (1 - x))) (2 * (1 - x)) (by grind) hge
      grind
    unfold ratPhiInv
    have hc : ¬ (1:Rat) / 2 ≤ 1 / (2 * (1 - x)) := by grind
    rw [if_neg hc]
    have : (1 / (2 * (1 - x))) ≠ 0 := by grind
    grind

theorem rat_phi_mono (x y : Rat) (h : x ≤ y) : ratPhi x ≤ ratPhi y := by
  unfold ratPhi
  split <;> split
  · have := one_div_anti (2 * (1 + x)) (2 * (1 + y)) (by grind) (by grind)
    grind
  · grind
  · have h1 := rat_half_le_div (1 - x) (by grind)
    have h2 := rat_half_le_div (1 + y) (by grind)
    grind
  · have := one_div_anti (2 * (1 - y)) (2 * (1 - x)) (by grind) (by grind)
    grind

theorem rat_phiInv_mono (u v : Rat) (h0 : 0 < u) (h : u ≤ v) (h1 : v < 1) : ratPhiInv u ≤ ratPhiInv v := by
  unfold ratPhiInv
  split <;> split
  · have := one_div_anti (2 * (1 - v)) (2 * (1 - u)) (by grind) (by grind)
    grind
  · grind
  · have h2 := one_div_anti (2 * u) 1 (by grind) (by grind)
    have h3 := one_div_anti (2 * (1 - v)) 1 (by grind) (by grind)
    grind
  · have := one_div_anti (2 * u) (2 * v) (by grind) (by grind)
    grind

theorem rat_exp_pos (x : Rat) : 0 < ratExp x := by
  unfold ratExp
  split
  · grind
  · exact one_div_pos _ (by grind)

theorem rat_exp_log (y : Rat) (h : 0 < y) : ratExp (ratLog y) = y := by
  unfold ratLog
  split
  · unfold ratExp
    have hc : (0:Rat) ≤ y - 1 := by grind
    rw [if_pos hc]
    grind
  · have hlt := rat_one_lt_one_div y h (by grind)
    unfold ratExp
    have hc : ¬ (0:Rat) ≤ 1 - 1 / y := by grind
    rw [if_neg hc]
    have hq := one_div_pos y h
    have : y ≠ 0 := by grind
    have : 1 / y ≠ 0 := by grind
    grind

theorem rat_log_exp (x : Rat) : ratLog (ratExp x) = x := by
  unfold ratExp
  split
  · unfold ratLog
    have hc : (1:Rat) ≤ x + 1 := by grind
    rw [if_pos hc]
    grind
  · have hp : (0:Rat) < 1 - x := by grind
    have hq := one_div_pos _ hp
    have hlt : 1 / (1 - x) < 1 := by
      apply Classical.byContradiction
      intro hn
      have hge : 1 ≤ 1 / (1 - x) := by grind
      have := mul_le_mul_left' 1 (1 / (1 - x)) (1 - x) (by grind) hge
      have : (1 - x) ≠ 0 := by grind
      grind
    unfold ratLog
    have hc : ¬ (1:Rat) ≤ 1 / (1 - x) := by grind
    rw [if_neg hc]
    have : (1 - x) ≠ 0 := by grind
    have : 1 / (1 - x) ≠ 0 := by grind
    grind

theorem rat_exp_mono (x y : Rat) (h : x ≤ y) : ratExp x ≤ ratExp y := by
  unfold ratExp
  split <;> split
  · grind
  · grind
  · have := one_div_anti 1 (1 - x) (by grind) (by grind)
    grind
  · have := one_div_anti (1 - y) (1 - x) (by grind) (by grind)
    grind

theorem rat_log_pos (y : Rat) (h : 1 < y) : 0 < ratLog y := by
  unfold ratLog
  split <;> grind

theorem ratSpecial_lawful : Lawful ratSpecial where
  phi_phiInv := rat_phi_phiInv
  phiInv_phi := rat_phiInv_phi
  phi_pos := rat_phi_pos
  phi_lt_one := rat_phi_lt_one
  phi_mono := rat_phi_mono
  phiInv_mono := rat_phiInv_mono
  exp_log := rat_exp_log
  log_exp := rat_log_exp
  exp_pos := rat_exp_pos
  exp_mono := rat_exp_mono
  pow10_log10 := rat_exp_log
  log10_pow10 := rat_log_exp
  pow10_pos := rat_exp_pos
  pow10_mono := rat_exp_mono
  log10_pos := rat_log_pos
  eps_pos := by simp [ratSpecial]; grind
  eps_lt_one := by simp [ratSpecial]; grind
  round_mono := fun _ _ _ h => h

end AF.Prior
