import AFProofs.Lemmas.Grid
import AFProofs.Lemmas.Prior
import AFModel.GridPhys

/-! Helper lemmas for `AFModel/GridPhys.lean` (property C16): the float-level `UniformPrior.value_for`
behind the physical limits a grid search / sensitivity map reports. The section `Any` holds for every
number type (in particular `Float`, the instance the driver runs), the section `Field` for every
linearly ordered field. -/

open Lean Grind

namespace AF.Grid
open AF.Prior

section Any
variable {K : Type} [Add K] [Sub K] [Mul K] [Div K] [LE K] [LT K] [DecidableLE K] [DecidableLT K]
  [OfNat K 0] [OfNat K 1] [OfNat K 10]
set_option linter.unusedSectionVars false

theorem gate_false_ok (L U raw : K) (h : L ≤ raw ∧ raw ≤ U) : gate false L U raw = .ok raw := by
  have : inLimits L U raw = true := (inLimits_iff L U raw).mpr h
  simp [gate, this]

theorem gate_false_limit (L U raw : K) (h : ¬ (L ≤ raw ∧ raw ≤ U)) : gate false L U raw = .limit := by
  have : ¬ inLimits L U raw = true := fun hc => h ((inLimits_iff L U raw).mp hc)
  simp [gate, this]

/-- what `uniValue` returns for a raw value inside the limits -/
theorem uniValue_ok (S : Special K) (lo hi q : K) (h : lo ≤ uniRaw lo hi q ∧ uniRaw lo hi q ≤ hi) :
    uniValue S lo hi q
      = .ok (clamp lo hi (S.round (decimalPlaces (hi - lo)) (uniRaw lo hi q))) := by
  simp [uniValue, finish, uniParams, gate_false_ok lo hi _ h, uniformPost]

theorem uniValue_limit (S : Special K) (lo hi q : K)
    (h : ¬ (lo ≤ uniRaw lo hi q ∧ uniRaw lo hi q ≤ hi)) : uniValue S lo hi q = .limit := by
  simp [uniValue, finish, uniParams, gate_false_limit lo hi _ h]

theorem uniValue_limit_iff (S : Special K) (lo hi q : K) :
    uniValue S lo hi q = .limit ↔ ¬ (lo ≤ uniRaw lo hi q ∧ uniRaw lo hi q ≤ hi) := by
  by_cases h : lo ≤ uniRaw lo hi q ∧ uniRaw lo hi q ≤ hi
  · simp [uniValue_ok S lo hi q h, h]
  · simp [uniValue_limit S lo hi q h, h]

/-- `uniValue` is property C02's `valueFor` of the uniform prior when the round trip is the one of `S` -/
theorem uniValue_eq_valueFor (S : Special K) (lo hi u : K) :
    uniValue S lo hi (S.phi (S.phiInv u)) = valueFor S {} false (uniParams lo hi) u := by
  simp [uniValue, valueFor, rawValueFor, uniRaw, uniParams, transforms, baseValue, invAll, Tr.inv]

theorem physLists_unitLists (N : Num K) (S : Special K) (trip : K → K) (centre : Bool)
    (dims : List (Dim K)) :
    physLists S trip dims (unitLists N centre dims)
      = (lattice (counts dims)).map
          (cellAt (fun d i => uniValue S d.lo d.hi (trip (unitValue N centre d i))) dims) := by
  simp only [physLists, unitLists, List.map_map]
  apply List.map_congr_left
  intro idx _
  simp only [Function.comp, cellAt, physRow, zipWith_fuse]

end Any

section Field
variable {K : Type} [Field K] [LE K] [LT K] [Std.IsLinearOrder K] [Std.LawfulOrderLT K] [OrderedRing K]
  [DecidableLE K] [DecidableLT K]
set_option linter.unusedSectionVars false

theorem clamp_id (L U v : K) (h : L ≤ v ∧ v ≤ U) : clamp L U v = v := by
  unfold clamp
  grind

theorem uniValue_mem (S : Special K) (lo hi q v : K) (hLU : lo ≤ hi) (h : uniValue S lo hi q = .ok v) :
    lo ≤ v ∧ v ≤ hi := by
  by_cases hr : lo ≤ uniRaw lo hi q ∧ uniRaw lo hi q ≤ hi
  · rw [uniValue_ok S lo hi q hr] at h
    cases h
    exact clamp_mem _ _ _ hLU
  · rw [uniValue_limit S lo hi q hr] at h
    cases h

theorem uniRaw_mono (lo hi q q' : K) (hLU : lo ≤ hi) (hq : q ≤ q') : uniRaw lo hi q ≤ uniRaw lo hi q' := by
  have := mul_le_mul_right' q q' (hi - lo) (by grind) hq
  simp only [uniRaw]
  grind

theorem uniRaw_mem (lo hi u : K) (hLU : lo ≤ hi) (h0 : 0 ≤ u) (h1 : u ≤ 1) :
    lo ≤ uniRaw lo hi u ∧ uniRaw lo hi u ≤ hi := by
  have a := mul_le_mul_right' 0 u (hi - lo) (by grind) h0
  have b := mul_le_mul_right' u 1 (hi - lo) (by grind) h1
  simp only [uniRaw]
  constructor <;> grind

theorem pyMax_of_le (a lo : K) (h : lo ≤ a) : pyMax a lo = a := by
  unfold pyMax
  grind

theorem pyMin_of_le (a hi : K) (h : a ≤ hi) : pyMin a hi = a := by
  unfold pyMin
  grind

end Field

end AF.Grid
