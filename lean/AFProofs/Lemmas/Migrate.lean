import AFModel.Migrate

/-! Helper lemmas about the `Migrate` model (used by `AFProofs/C19.lean`). Core Lean only. -/

namespace AF.Migrate

/-! ### `revIndex` / `getSteps` -/

theorem revIndex_get (l : List String) (hn : l.Nodup) (k : Nat) (hk : k < l.length) :
    revIndex l l[k] = some k := by
  induction l generalizing k with
  | nil => simp at hk
  | cons r rs ih =>
    cases k with
    | zero => simp [revIndex]
    | succ k =>
      have hk' : k < rs.length := by simpa using hk
      have hnd := List.nodup_cons.mp hn
      have hne : r ≠ rs[k] := fun h => hnd.1 (h ▸ List.getElem_mem hk')
      simp [revIndex, hne, ih hnd.2 k hk']

theorem revIndex_some (l : List String) (rid : String) (i : Nat) (h : revIndex l rid = some i) :
    ∃ hi : i < l.length, l[i] = rid := by
  induction l generalizing i with
  | nil => simp [revIndex] at h
  | cons r rs ih =>
    simp only [revIndex] at h
    split at h
    · rename_i hr
      cases h
      exact ⟨by simp, by simpa using hr⟩
    · cases hrs : revIndex rs rid with
      | none => simp [hrs] at h
      | some j =>
        simp [hrs] at h
        subst h
        obtain ⟨hj, hje⟩ := ih j hrs
        exact ⟨by simpa using hj, by simpa using hje⟩

theorem revIndex_none (l : List String) (rid : String) (h : rid ∉ l) : revIndex l rid = none := by
  induction l with
  | nil => rfl
  | cons r rs ih =>
    have h1 : r ≠ rid := fun e => h (e ▸ List.mem_cons_self)
    have h2 : rid ∉ rs := fun m => h (List.mem_cons_of_mem _ m)
    simp [revIndex, h1, ih h2]

/-- `latest - revision` (a filter on step ids) is the suffix, when step ids are distinct -/
theorem filter_not_in_take (steps : List Step) (hn : (steps.map (·.id)).Nodup) (m : Nat) :
    steps.filter (fun s => s.id ∉ (steps.take m).map (·.id)) = steps.drop m := by
  induction steps generalizing m with
  | nil => simp
  | cons s rest ih =>
    cases m with
    | zero => simp
    | succ m =>
      rw [List.map_cons] at hn
      have hnd := List.nodup_cons.mp hn
      have hs : s.id ∉ rest.map (·.id) := hnd.1
      simp only [List.take_succ_cons, List.map_cons, List.drop_succ_cons]
      rw [List.filter_cons]
      simp only [List.mem_cons, true_or, not_true_eq_false, decide_false, Bool.false_eq_true, if_false]
      rw [← ih hnd.2 m]
      apply List.filter_congr
      intro x hx
      have hne : x.id ≠ s.id := fun e => hs (e ▸ List.mem_map_of_mem hx)
      simp [hne]

theorem getSteps_stamped (tbl : Table) (hw : tbl.WF) (k : Nat) (hk : k < tbl.revIds.length) :
    getSteps tbl (some tbl.revIds[k]) = tbl.steps.drop (k + 1) := by
  simp only [getSteps, revIndex_get tbl.revIds hw.revs k hk]
  exact filter_not_in_take tbl.steps hw.stepIds (k + 1)

theorem getSteps_unknown (tbl : Table) (rid : String) (h : rid ∉ tbl.revIds) :
    getSteps tbl (some rid) = tbl.steps := by
  simp [getSteps, revIndex_none _ _ h]

theorem latestId_eq (tbl : Table) (hne : tbl.revIds ≠ []) :
    latestId tbl = tbl.revIds[tbl.revIds.length - 1]'(by
      have := List.length_pos_iff.mpr hne; omega) := by
  simp [latestId, List.getLast?_eq_getElem?]
  have : tbl.revIds.length - 1 < tbl.revIds.length := by
    have := List.length_pos_iff.mpr hne; omega
  simp [List.getElem?_eq_getElem this]

theorem revIds_ne_nil (tbl : Table) (hw : tbl.WF) (hne : tbl.steps ≠ []) : tbl.revIds ≠ [] := by
  intro h
  have := hw.len
  rw [h] at this
  exact hne (List.eq_nil_of_length_eq_zero this.symm)

theorem getSteps_latest (tbl : Table) (hw : tbl.WF) (hne : tbl.steps ≠ []) :
    getSteps tbl (some (latestId tbl)) = [] := by
  have hr := revIds_ne_nil tbl hw hne
  have hpos := List.length_pos_iff.mpr hr
  rw [latestId_eq tbl hr, getSteps_stamped tbl hw _ (by omega)]
  apply List.drop_eq_nil_of_le
  have := hw.len
  omega

/-- only the current revision leaves nothing to do -/
theorem getSteps_nil (tbl : Table) (hw : tbl.WF) (hne : tbl.steps ≠ []) (r : Option String)
    (h : getSteps tbl r = []) : r = some (latestId tbl) := by
  cases r with
  | none => simp [getSteps] at h; exact absurd h hne
  | some rid =>
    cases hi : revIndex tbl.revIds rid with
    | none => simp [getSteps, hi] at h; exact absurd h hne
    | some i =>
      obtain ⟨hlt, he⟩ := revIndex_some _ _ _ hi
      have hst : getSteps tbl (some rid) = tbl.steps.drop (i + 1) := by
        rw [← he]; exact getSteps_stamped tbl hw i hlt
      rw [hst] at h
      have hlen : tbl.steps.length ≤ i + 1 := List.drop_eq_nil_iff.mp h
      have hl := hw.len
      have hr := revIds_ne_nil tbl hw hne
      rw [latestId_eq tbl hr]
      have : i = tbl.revIds.length - 1 := by omega
      subst this
      rw [← he]

/-! ### the statement loop -/

theorem runStmts_attempted (s : Schema) (l : List Stmt) : (runStmts s l).2.map (·.1) = l := by
  induction l generalizing s with
  | nil => rfl
  | cons st rest ih =>
    simp only [runStmts]
    split <;> simp [ih]

theorem runStmts_append (s : Schema) (l₁ l₂ : List Stmt) :
    (runStmts s (l₁ ++ l₂)).1 = (runStmts (runStmts s l₁).1 l₂).1 := by
  induction l₁ generalizing s with
  | nil => rfl
  | cons st rest ih =>
    simp only [List.cons_append, runStmts]
    split <;> simp [ih]

/-! ### columns survive statements that do not name them -/

theorem colsOf_mapTable_same (s : Schema) (t : String) (f : List String → List String) :
    colsOf (mapTable s t f) t = (colsOf s t).map f := by
  induction s with
  | nil => rfl
  | cons p rest ih =>
    obtain ⟨n, cs⟩ := p
    by_cases h : n = t
    · simp [mapTable, colsOf, h]
    · simp [mapTable, colsOf, h, ih]

theorem colsOf_mapTable_other (s : Schema) (t t' : String) (f : List String → List String) (h : t' ≠ t) :
    colsOf (mapTable s t f) t' = colsOf s t' := by
  induction s with
  | nil => rfl
  | cons p rest ih =>
    obtain ⟨n, cs⟩ := p
    by_cases hn : n = t
    · have : n ≠ t' := fun e => h (e ▸ hn ▸ rfl)
      simp [mapTable, colsOf, hn]
      subst hn
      simp [this]
    · by_cases hn' : n = t'
      · subst hn'
        simp [mapTable, colsOf, hn]
      · simp [mapTable, colsOf, hn, hn', ih]

theorem colsOf_append_some (s : Schema) (t t' : String) (cols cs : List String) (h : colsOf s t' = some cs) :
    colsOf (s ++ [(t, cols)]) t' = some cs := by
  induction s with
  | nil => simp [colsOf] at h
  | cons p rest ih =>
    obtain ⟨n, c0⟩ := p
    by_cases hn : n = t'
    · simp [colsOf, hn] at h ⊢; exact h
    · simp [colsOf, hn] at h ⊢; exact ih h

theorem hasCol_iff (s : Schema) (t c : String) :
    hasCol s t c = true ↔ ∃ cs, colsOf s t = some cs ∧ c ∈ cs := by
  simp only [hasCol]
  cases h : colsOf s t with
  | none => simp
  | some cs => simp

/-- a successful statement keeps every column it does not rename away or drop -/
theorem hasCol_applyStmt (s s' : Schema) (st : Stmt) (t c : String)
    (hap : applyStmt s st = some s') (hc : hasCol s t c = true) (hr : st.removes t c = false) :
    hasCol s' t c = true := by
  obtain ⟨cs, hcs, hmem⟩ := (hasCol_iff s t c).mp hc
  rw [hasCol_iff]
  cases st with
  | addColumn t' c' =>
    simp only [applyStmt] at hap
    split at hap
    · rename_i cs' hcs'
      split at hap
      · cases hap
      · cases hap
        by_cases ht : t = t'
        · subst ht
          rw [colsOf_mapTable_same, hcs]
          exact ⟨cs ++ [c'], rfl, List.mem_append_left _ hmem⟩
        · rw [colsOf_mapTable_other _ _ _ _ ht]
          exact ⟨cs, hcs, hmem⟩
    · cases hap
  | createTable t' cols =>
    simp only [applyStmt] at hap
    split at hap
    · cases hap
    · cases hap
      exact ⟨cs, colsOf_append_some s t' t cols cs hcs, hmem⟩
  | renameColumn t' a b =>
    simp only [applyStmt] at hap
    split at hap
    · rename_i cs' hcs'
      split at hap
      · cases hap
        by_cases ht : t = t'
        · subst ht
          rw [colsOf_mapTable_same, hcs]
          refine ⟨renameIn a b cs, rfl, ?_⟩
          have hca : c ≠ a := by
            intro e
            simp [Stmt.removes, e] at hr
          simp only [renameIn, List.mem_map]
          exact ⟨c, hmem, by simp [hca]⟩
        · rw [colsOf_mapTable_other _ _ _ _ ht]
          exact ⟨cs, hcs, hmem⟩
      · cases hap
    · cases hap
  | dropColumn t' c' =>
    simp only [applyStmt] at hap
    split at hap
    · rename_i cs' hcs'
      split at hap
      · cases hap
        by_cases ht : t = t'
        · subst ht
          rw [colsOf_mapTable_same, hcs]
          refine ⟨cs.filter (· ≠ c'), rfl, ?_⟩
          have hcc : c ≠ c' := by
            intro e
            simp [Stmt.removes, e] at hr
          simp [List.mem_filter, hmem, hcc]
        · rw [colsOf_mapTable_other _ _ _ _ ht]
          exact ⟨cs, hcs, hmem⟩
      · cases hap
    · cases hap

theorem hasCol_runStmts (s : Schema) (l : List Stmt) (t c : String)
    (hc : hasCol s t c = true) (hr : ∀ st ∈ l, st.removes t c = false) :
    hasCol (runStmts s l).1 t c = true := by
  induction l generalizing s with
  | nil => exact hc
  | cons st rest ih =>
    simp only [runStmts]
    have hrest : ∀ st ∈ rest, st.removes t c = false := fun x hx => hr x (List.mem_cons_of_mem _ hx)
    split
    · rename_i s' hap
      exact ih s' (hasCol_applyStmt s s' st t c hap hc (hr st List.mem_cons_self)) hrest
    · exact ih s hc hrest

/-! ### one use of the file, repaired code -/

/-- what the `SELECT revision_id` of the next open will see -/
def ridOf : Rev → Option String
  | .row r => r
  | _ => none

/-- **closed form of one use of an existing file by the repaired code**: nothing when no step is
outstanding; otherwise the outstanding statements are attempted once, in order, and the result is durable
together with the stamp, whether or not the caller commits. -/
theorem session_fixed (tbl : Table) (orm : Schema) (hne : tbl.steps ≠ []) (s : Store) (c : Bool) :
    session Cfg.fixed tbl orm (some s) c =
      if (getSteps tbl (ridOf s.rev)).isEmpty then (s, [])
      else
        let r := runStmts s.schema (stmtsOf (getSteps tbl (ridOf s.rev)))
        ({ schema := r.1, rev := .row (some (latestId tbl)) }, r.2) := by
  obtain ⟨sch, rev⟩ := s
  cases rev with
  | noTable =>
    have h1 : (getSteps tbl none).isEmpty = false := by
      simp [getSteps, hne]
    cases c <;>
      simp [session, openDatabase, migrate, readRevision, initRevisionTable, writeRevision, setRow, ridOf,
        Db.work, Db.ddl, Db.dml, Db.commit, Db.close, Cfg.fixed, h1]
  | empty =>
    by_cases h1 : (getSteps tbl none).isEmpty
    · cases c <;>
        simp [session, openDatabase, migrate, readRevision, ridOf, Db.work, Db.commit, Db.close, h1]
    · cases c <;>
        simp [session, openDatabase, migrate, readRevision, writeRevision, setRow, ridOf,
          Db.work, Db.ddl, Db.dml, Db.commit, Db.close, Cfg.fixed, h1]
  | row r =>
    by_cases h1 : (getSteps tbl r).isEmpty
    · cases c <;>
        simp [session, openDatabase, migrate, readRevision, ridOf, Db.work, Db.commit, Db.close, h1]
    · cases c <;>
        simp [session, openDatabase, migrate, readRevision, writeRevision, setRow, ridOf,
          Db.work, Db.ddl, Db.dml, Db.commit, Db.close, Cfg.fixed, h1]

theorem session_fixed_fresh (tbl : Table) (orm : Schema) (c : Bool) :
    session Cfg.fixed tbl orm none c = ({ schema := orm, rev := .row (some (latestId tbl)) }, []) := by
  cases c <;>
    simp [session, openDatabase, writeRevision, initRevisionTable, setRow, Db.work, Db.ddl, Db.dml,
      Db.commit, Db.close, Cfg.fixed]

end AF.Migrate
