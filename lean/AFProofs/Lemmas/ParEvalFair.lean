import AFModel.ParFair
import AFProofs.Lemmas.ParEvalLive

/-!
Fair termination of `SneakyPool.map` (C14): `MapSt.phi` never increases, the step of an enabled actor strictly
decreases it, an enabled actor stays enabled until it is served, and while the caller has not finished some
actor is enabled.  Hence every fair round decreases `phi`.
-/

namespace AF.ParEval
variable {α : Type}

/-! ## fair rounds -/

theorem fairScan_split (P : Nat) (evs : List Nat) : ∀ (m : List Nat) (n : Nat), n + 1 ≤ fairScan P m evs →
    ∃ r rest, evs = r ++ rest ∧ (∀ a ∈ m, a ∈ r) ∧ n ≤ fairRounds P rest := by
  induction evs with
  | nil => intro m n h; simp [fairScan] at h
  | cons e t ih =>
    intro m n h
    unfold fairScan at h
    by_cases hm : (m.filter (· != e)).isEmpty = true
    · rw [if_pos hm] at h
      refine ⟨[e], t, rfl, ?_, by unfold fairRounds; omega⟩
      intro a ha
      by_cases hae : a = e
      · simp [hae]
      · exfalso
        have : a ∈ m.filter (· != e) := by simp [List.mem_filter, ha, hae]
        rw [List.isEmpty_iff] at hm
        rw [hm] at this
        cases this
    · rw [if_neg hm] at h
      obtain ⟨r, rest, he, hall, hn⟩ := ih _ n h
      refine ⟨e :: r, rest, by rw [he]; rfl, ?_, hn⟩
      intro a ha
      by_cases hae : a = e
      · simp [hae]
      · have : a ∈ m.filter (· != e) := by simp [List.mem_filter, ha, hae]
        exact List.mem_cons_of_mem _ (hall a this)

/-! ## the cursor distance -/

theorem firstReady_lt (l : List (Worker α)) (h : l ≠ []) : firstReady l < l.length := by
  induction l with
  | nil => exact absurd rfl h
  | cons w t ih =>
    unfold firstReady
    by_cases hw : w.ready = true
    · simp [hw]
    · simp only [hw, if_false]
      by_cases ht : t.any Worker.ready = true
      · have htne : t ≠ [] := by intro e; rw [e] at ht; simp at ht
        have := ih htne
        simp only [ht, if_true, List.length_cons]
        split <;> omega
      · simp [ht]

theorem firstReady_append_of_any (t x : List (Worker α)) (h : t.any Worker.ready = true) :
    firstReady (t ++ x) = firstReady t := by
  induction t with
  | nil => simp at h
  | cons w t ih =>
    simp only [List.cons_append, firstReady]
    by_cases hw : w.ready = true
    · simp [hw]
    · simp only [hw, if_false]
      have ht : t.any Worker.ready = true := by
        simp only [List.any_cons, Bool.or_eq_true] at h
        rcases h with h | h
        · exact absurd h hw
        · exact h
      have hx : (t ++ x).any Worker.ready = true := by simp [List.any_append, ht]
      simp only [ht, hx, if_true, ih ht]

theorem firstReady_none (l : List (Worker α)) (h : l.any Worker.ready = false) : firstReady l = 0 := by
  cases l with
  | nil => rfl
  | cons w t =>
    simp only [List.any_cons, Bool.or_eq_false_iff] at h
    simp [firstReady, h.1, h.2]

/-- passing an empty result queue: the rest of the polling order comes one step closer -/
theorem firstReady_rotate (a : Worker α) (t : List (Worker α)) (ha : a.ready = false) :
    firstReady (t ++ [a]) + (if t.any Worker.ready = true then 1 else 0) = firstReady (a :: t) := by
  by_cases ht : t.any Worker.ready = true
  · rw [firstReady_append_of_any t [a] ht]
    simp [firstReady, ha, ht]
  · have ht' : t.any Worker.ready = false := by simpa using ht
    have : (t ++ [a]).any Worker.ready = false := by simp [List.any_append, ht', ha]
    rw [firstReady_none _ this]
    simp [firstReady, ha, ht']

theorem rot_length (s : MapSt α) (h : s.cursor ≤ s.ws.length) : s.rot.length = s.ws.length := by
  simp only [MapSt.rot, List.length_append, List.length_drop, List.length_take]
  omega

theorem dist_lt (s : MapSt α) (hp : 0 < s.ws.length) (hc : s.cursor < s.ws.length) : s.dist < s.ws.length := by
  have hl := rot_length s (Nat.le_of_lt hc)
  have : s.rot ≠ [] := by
    intro e
    rw [e] at hl
    simp at hl
    omega
  have := firstReady_lt s.rot this
  rw [hl] at this
  exact this

/-- the polling order before and after the cursor passes worker `cursor` -/
theorem rot_skip (s : MapSt α) (a : Worker α) (hc : s.ws[s.cursor]? = some a) :
    s.rot = a :: (s.ws.drop (s.cursor + 1) ++ s.ws.take s.cursor) ∧
      ({ s with cursor := if s.cursor + 1 < s.ws.length then s.cursor + 1 else 0 } : MapSt α).rot =
        (s.ws.drop (s.cursor + 1) ++ s.ws.take s.cursor) ++ [a] := by
  have hlt := lt_of_getElem?_some hc
  have ha : s.ws[s.cursor] = a := by
    rw [List.getElem?_eq_getElem hlt] at hc
    exact Option.some.inj hc
  have hdrop : s.ws.drop s.cursor = a :: s.ws.drop (s.cursor + 1) := by
    rw [List.drop_eq_getElem_cons hlt, ha]
  have htake : s.ws.take (s.cursor + 1) = s.ws.take s.cursor ++ [a] := by
    rw [List.take_add_one, hc]; rfl
  constructor
  · simp only [MapSt.rot, hdrop, List.cons_append]
  · by_cases hn : s.cursor + 1 < s.ws.length
    · simp only [MapSt.rot, hn, if_true, htake, List.append_assoc]
    · have hd : s.ws.drop (s.cursor + 1) = [] := List.drop_eq_nil_of_le (by omega)
      have ht : s.ws.take (s.cursor + 1) = s.ws := List.take_of_length_le (by omega)
      simp only [MapSt.rot, hn, if_false, List.drop_zero, List.take_zero, List.append_nil, hd, List.nil_append]
      rw [← htake, ht]

theorem any_ready_of_mem {l : List (Worker α)} {i : Nat} {w : Worker α} (h : l[i]? = some w) (hr : w.resQ ≠ []) :
    l.any Worker.ready = true := by
  rw [List.any_eq_true]
  refine ⟨w, List.mem_of_getElem? h, ?_⟩
  simp [Worker.ready, hr]

theorem rot_any (s : MapSt α) (hc : s.cursor ≤ s.ws.length) : s.rot.any Worker.ready = s.ws.any Worker.ready := by
  have : s.ws = s.ws.take s.cursor ++ s.ws.drop s.cursor := (List.take_append_drop _ _).symm
  conv => rhs; rw [this]
  simp only [MapSt.rot, List.any_append, Bool.or_comm]

/-! ## enabled actors -/

def callerEn (s : MapSt α) : Prop :=
  s.todo ≠ [] ∨ (s.count < s.target ∧ ∃ (i : Nat) (w : Worker α), s.ws[i]? = some w ∧ w.resQ ≠ [])

def workerEn (s : MapSt α) (k : Nat) : Prop :=
  ∃ w : Worker α, s.ws[k]? = some w ∧ (w.hold ≠ none ∨ w.jobQ ≠ [])

/-- the step of this actor makes progress (for the caller: submits, collects, or moves its cursor towards a
non-empty result queue) -/
def enabled (s : MapSt α) : Nat → Prop
  | 0 => callerEn s
  | k + 1 => workerEn s k

theorem Worker.step_resQ_ne (w : Worker α) (h : w.resQ ≠ []) : w.step.resQ ≠ [] := by
  unfold Worker.step
  cases hh : w.hold with
  | some r => simp
  | none =>
    cases hj : w.jobQ with
    | nil => simpa [hh, hj] using h
    | cons j rest => simpa using h

theorem Worker.step_busy (w : Worker α) : w.step.jobQ.length ≤ w.jobQ.length := by
  unfold Worker.step
  cases hh : w.hold with
  | some r => simp
  | none =>
    cases hj : w.jobQ with
    | nil => simp [hj]
    | cons j rest => simp

/-- a worker with nothing to do does not change the state -/
theorem workerStep_blocked {s : MapSt α} {k : Nat} {w : Worker α} (hk : s.ws[k]? = some w)
    (hh : w.hold = none) (hj : w.jobQ = []) : s.workerStep k = s := by
  unfold MapSt.workerStep
  have hs : w.step = w := by unfold Worker.step; simp [hh, hj]
  have he : w.evaluates = [] := by unfold Worker.evaluates; simp [hh, hj]
  have hlt := lt_of_getElem?_some hk
  have hw : s.ws[k] = w := by
    rw [List.getElem?_eq_getElem hlt] at hk
    exact Option.some.inj hk
  simp only [hk, hs, he, List.append_nil]
  have : s.ws.set k w = s.ws := by rw [← hw]; exact List.set_getElem_self hlt
  rw [this]

theorem enabled_persists_worker {s : MapSt α} {a : Nat} (h : enabled s a) (k : Nat) (hne : k + 1 ≠ a) :
    enabled (s.workerStep k) a := by
  unfold MapSt.workerStep
  cases hk : s.ws[k]? with
  | none => simpa using h
  | some w =>
    simp only
    cases a with
    | zero =>
      rcases h with h | ⟨hc, i, w0, hi, hr⟩
      · exact Or.inl h
      · refine Or.inr ⟨hc, ?_⟩
        by_cases hik : i = k
        · subst hik
          rw [hk] at hi
          cases hi
          exact ⟨i, w.step, getElem?_set_self' hk, Worker.step_resQ_ne w hr⟩
        · exact ⟨i, w0, by rw [getElem?_set_ne' hik]; exact hi, hr⟩
    | succ k' =>
      obtain ⟨w0, hi, hb⟩ := h
      have hkk : k' ≠ k := fun e => hne (by rw [e])
      exact ⟨w0, by show (s.ws.set k w.step)[k']? = some w0; rw [getElem?_set_ne' hkk]; exact hi, hb⟩

theorem enabled_persists_main {js : List (Res α)} {s : MapSt α} (hi : MapInv js s) {k : Nat}
    (h : workerEn s k) : workerEn s.mainStep k := by
  obtain ⟨w0, hk, hb⟩ := h
  unfold MapSt.mainStep
  cases ht : s.todo with
  | cons r rest =>
    simp only [MapSt.submit]
    cases hn : s.ws[s.next % s.ws.length]? with
    | none => exact ⟨w0, hk, hb⟩
    | some w =>
      simp only
      by_cases hkk : k = s.next % s.ws.length
      · subst hkk
        rw [hn] at hk
        cases hk
        refine ⟨_, getElem?_set_self' hn, ?_⟩
        rcases hb with hb | hb
        · exact Or.inl hb
        · exact Or.inr (by simp)
      · exact ⟨w0, by show (s.ws.set _ _)[k]? = some w0; rw [getElem?_set_ne' hkk]; exact hk, hb⟩
  | nil =>
    simp only
    split
    · unfold MapSt.poll
      simp only
      cases hc : s.ws[s.cursor]? with
      | none => exact ⟨w0, hk, hb⟩
      | some w =>
        simp only
        split
        · rename_i r rq i pd hr hp
          by_cases hkk : k = s.cursor
          · subst hkk
            rw [hc] at hk
            cases hk
            exact ⟨_, getElem?_set_self' hc, hb⟩
          · exact ⟨w0, by show (s.ws.set _ _)[k]? = some w0; rw [getElem?_set_ne' hkk]; exact hk, hb⟩
        · exact ⟨w0, hk, hb⟩
    · exact ⟨w0, hk, hb⟩

theorem enabled_persists {js : List (Res α)} {s : MapSt α} (hi : MapInv js s) {a : Nat} (h : enabled s a)
    (b : Nat) (hne : b ≠ a) : enabled (s.step b) a := by
  cases b with
  | zero =>
    cases a with
    | zero => exact absurd rfl hne
    | succ k => exact enabled_persists_main hi h
  | succ k => exact enabled_persists_worker h k hne

/-- while the caller has not collected its batch, some actor is enabled -/
theorem exists_enabled {js : List (Res α)} {s : MapSt α} (hi : MapInv js s) (hf : s.finished = false) :
    ∃ a, a ≤ s.ws.length ∧ enabled s a := by
  cases ht : s.todo with
  | cons r rest => exact ⟨0, Nat.zero_le _, Or.inl (by rw [ht]; simp)⟩
  | nil =>
    have hc : s.count < s.target := by
      simp only [MapSt.finished, ht, List.isEmpty_nil, Bool.true_and, decide_eq_false_iff_not] at hf
      omega
    by_cases hbusy : ∃ (k : Nat) (w : Worker α), s.ws[k]? = some w ∧ (w.hold ≠ none ∨ w.jobQ ≠ [])
    · obtain ⟨k, w, hk, hw⟩ := hbusy
      exact ⟨k + 1, lt_of_getElem?_some hk, w, hk, hw⟩
    · have hidle : ∀ (k : Nat) (w : Worker α), s.ws[k]? = some w → w.hold = none ∧ w.jobQ = [] := by
        intro k w hk
        constructor
        · exact Classical.byContradiction fun h => hbusy ⟨k, w, hk, Or.inl h⟩
        · exact Classical.byContradiction fun h => hbusy ⟨k, w, hk, Or.inr h⟩
      have hn : js.length ≤ s.next := by
        have := hi.todo
        rw [ht] at this
        exact List.drop_eq_nil_iff.mp this.symm
      have ho : 0 < outstanding s.ws := by
        have := hi.count
        have := hi.target
        have := hi.next_le
        omega
      obtain ⟨k, w, hk, hp⟩ := exists_pending_of_outstanding s.ws ho
      have hr : w.resQ ≠ [] := by
        intro hr
        have hpipe := hi.pipe _ _ hk
        obtain ⟨h1, h2⟩ := hidle k w hk
        simp only [Worker.pipe, hr, h1, h2, List.map_nil, List.nil_append, Option.toList_none] at hpipe
        exact hp (List.map_eq_nil_iff.mp hpipe.symm)
      exact ⟨0, Nat.zero_le _, Or.inr ⟨hc, k, w, hk, hr⟩⟩

/-! ## the variant -/

theorem phi_lt_of_mu {s t : MapSt α} (hl : t.ws.length = s.ws.length) (hp : 0 < s.ws.length)
    (hc : t.cursor < t.ws.length) (hm : t.mu + 1 = s.mu) : t.phi < s.phi := by
  have hd := dist_lt t (by omega) hc
  unfold MapSt.phi
  rw [hl] at hd ⊢
  have : s.ws.length * s.mu = s.ws.length * t.mu + s.ws.length := by rw [← hm, Nat.mul_succ]
  omega

/-- the caller passes an empty result queue -/
theorem phi_poll_skip {s : MapSt α} (hcur : s.cursor < s.ws.length)
    (h : ∀ w, s.ws[s.cursor]? = some w → w.resQ = []) :
    s.poll.phi + (if s.ws.any Worker.ready = true then 1 else 0) = s.phi := by
  have hc : s.ws[s.cursor]? = some (s.ws[s.cursor]) := List.getElem?_eq_getElem hcur
  generalize s.ws[s.cursor] = a at hc
  have ha : a.ready = false := by simp [Worker.ready, h a hc]
  obtain ⟨h1, h2⟩ := rot_skip s a hc
  have hrot := firstReady_rotate a (s.ws.drop (s.cursor + 1) ++ s.ws.take s.cursor) ha
  have hany : (s.ws.drop (s.cursor + 1) ++ s.ws.take s.cursor).any Worker.ready = s.ws.any Worker.ready := by
    rw [← rot_any s (Nat.le_of_lt hcur), h1]
    simp [ha]
  rw [poll_skip_eq h]
  unfold MapSt.phi MapSt.dist
  rw [h2, h1]
  rw [hany] at hrot
  simp only [MapSt.mu] at hrot ⊢
  omega

theorem phi_mainStep {js : List (Res α)} {s : MapSt α} (hi : MapInv js s) (hcur : s.cursor < s.ws.length) :
    s.mainStep.phi ≤ s.phi ∧ (callerEn s → s.mainStep.phi < s.phi) := by
  have hcur' := cursor_lt_step hi.pos hcur 0
  have hlen : s.mainStep.ws.length = s.ws.length := MapSt.step_length s 0
  have hm0 : s.step 0 = s.mainStep := rfl
  rw [hm0] at hcur'
  cases ht : s.todo with
  | cons r rest =>
    have hm : s.mainStep = s.submit r rest := by simp [MapSt.mainStep, ht]
    have := phi_lt_of_mu hlen hi.pos hcur' (by rw [hm]; exact mu_submit hi r rest ht)
    exact ⟨Nat.le_of_lt this, fun _ => this⟩
  | nil =>
    by_cases hc : s.count < s.target
    · have hm : s.mainStep = s.poll := by simp [MapSt.mainStep, ht, hc]
      cases hwc : s.ws[s.cursor]? with
      | none =>
        have := List.getElem?_eq_getElem hcur
        rw [this] at hwc; cases hwc
      | some wc =>
        cases hrc : wc.resQ with
        | cons r rq =>
          have hpipe := hi.pipe _ _ hwc
          have hp : wc.pending ≠ [] := by
            intro hp
            rw [hp] at hpipe
            simp [Worker.pipe, hrc] at hpipe
          obtain ⟨i, pd, hpd⟩ := List.exists_cons_of_ne_nil hp
          have := phi_lt_of_mu hlen hi.pos hcur' (by rw [hm]; exact mu_poll_collect hwc hrc hpd)
          exact ⟨Nat.le_of_lt this, fun _ => this⟩
        | nil =>
          have hsk := phi_poll_skip hcur (fun w' hw' => by rw [hwc] at hw'; cases hw'; exact hrc)
          rw [hm]
          refine ⟨by omega, ?_⟩
          intro hen
          rcases hen with hen | ⟨_, i, w, hiw, hr⟩
          · exact absurd ht hen
          · have := any_ready_of_mem hiw hr
            rw [this] at hsk
            simp only [if_true] at hsk
            omega
    · have hm : s.mainStep = s := by simp [MapSt.mainStep, ht, hc]
      rw [hm]
      refine ⟨Nat.le_refl _, ?_⟩
      intro hen
      rcases hen with hen | ⟨h, _⟩
      · exact absurd ht hen
      · exact absurd h hc

theorem phi_workerStep {s : MapSt α} (hp : 0 < s.ws.length) (hcur : s.cursor < s.ws.length) (k : Nat) :
    (s.workerStep k).phi ≤ s.phi ∧ (workerEn s k → (s.workerStep k).phi < s.phi) := by
  have hcur' := cursor_lt_step hp hcur (k + 1)
  have hlen : (s.workerStep k).ws.length = s.ws.length := MapSt.step_length s (k + 1)
  have hm0 : s.step (k + 1) = s.workerStep k := rfl
  rw [hm0] at hcur'
  cases hk : s.ws[k]? with
  | none =>
    have : s.workerStep k = s := by unfold MapSt.workerStep; simp [hk]
    rw [this]
    exact ⟨Nat.le_refl _, fun ⟨w, hw, _⟩ => by rw [hk] at hw; cases hw⟩
  | some w =>
    by_cases hb : w.hold ≠ none ∨ w.jobQ ≠ []
    · have := phi_lt_of_mu hlen hp hcur' (mu_workerStep hk hb)
      exact ⟨Nat.le_of_lt this, fun _ => this⟩
    · have h1 : w.hold = none := Classical.byContradiction fun h => hb (Or.inl h)
      have h2 : w.jobQ = [] := Classical.byContradiction fun h => hb (Or.inr h)
      rw [workerStep_blocked hk h1 h2]
      refine ⟨Nat.le_refl _, ?_⟩
      rintro ⟨w', hw', hb'⟩
      rw [hk] at hw'
      cases hw'
      exact absurd hb' hb

theorem phi_step {js : List (Res α)} {s : MapSt α} (hi : MapInv js s) (hcur : s.cursor < s.ws.length) (e : Nat) :
    (s.step e).phi ≤ s.phi ∧ (enabled s e → (s.step e).phi < s.phi) := by
  cases e with
  | zero => exact phi_mainStep hi hcur
  | succ k => exact phi_workerStep hi.pos hcur k

theorem phi_run_le {js : List (Res α)} (evs : List Nat) : ∀ (s : MapSt α), MapInv js s → s.cursor < s.ws.length →
    (s.run evs).phi ≤ s.phi := by
  induction evs with
  | nil => intro s _ _; exact Nat.le_refl _
  | cons e t ih =>
    intro s hi hcur
    have h1 := (phi_step hi hcur e).1
    have h2 := ih (s.step e) (mapInv_step hi e) (cursor_lt_step hi.pos hcur e)
    exact Nat.le_trans h2 h1

/-- an enabled actor that gets a turn somewhere in `r` makes the variant decrease over `r` -/
theorem phi_run_lt {js : List (Res α)} (a : Nat) (r : List Nat) : ∀ (s : MapSt α), MapInv js s →
    s.cursor < s.ws.length → enabled s a → a ∈ r → (s.run r).phi < s.phi := by
  induction r with
  | nil => intro s _ _ _ h; cases h
  | cons b t ih =>
    intro s hi hcur hen hmem
    have hi' := mapInv_step hi b
    have hcur' := cursor_lt_step hi.pos hcur b
    by_cases hba : b = a
    · subst hba
      have h1 := (phi_step hi hcur b).2 hen
      have h2 := phi_run_le t (s.step b) hi' hcur'
      exact Nat.lt_of_le_of_lt h2 h1
    · have hmem' : a ∈ t := by
        rcases List.mem_cons.mp hmem with h | h
        · exact absurd h.symm hba
        · exact h
      have h1 := (phi_step hi hcur b).1
      have h2 := ih (s.step b) hi' hcur' (enabled_persists hi hen b hba) hmem'
      exact Nat.lt_of_lt_of_le h2 h1

theorem finished_step {s : MapSt α} (h : s.finished = true) (e : Nat) : (s.step e).finished = true := by
  simp only [MapSt.finished, Bool.and_eq_true, List.isEmpty_iff, decide_eq_true_eq] at h
  obtain ⟨ht, hc⟩ := h
  cases e with
  | zero =>
    have : s.step 0 = s := by
      show s.mainStep = s
      have : ¬ s.count < s.target := by omega
      simp [MapSt.mainStep, ht, this]
    rw [this]
    simp [MapSt.finished, ht, hc]
  | succ k =>
    show (s.workerStep k).finished = true
    unfold MapSt.workerStep
    split <;> simp [MapSt.finished, ht, hc]

theorem finished_run {s : MapSt α} (h : s.finished = true) (evs : List Nat) : (s.run evs).finished = true := by
  induction evs generalizing s with
  | nil => exact h
  | cons e t ih => exact ih (finished_step h e)

/-- **every fair round decreases the variant** while the caller has not finished -/
theorem fair_round_decreases {js : List (Res α)} {s : MapSt α} (hi : MapInv js s) (hcur : s.cursor < s.ws.length)
    (hf : s.finished = false) (r : List Nat) (hr : ∀ a ∈ List.range (s.ws.length + 1), a ∈ r) :
    (s.run r).phi < s.phi := by
  obtain ⟨a, ha, hen⟩ := exists_enabled hi hf
  exact phi_run_lt a r s hi hcur hen (hr a (List.mem_range.mpr (by omega)))

theorem fair_rounds_finish {js : List (Res α)} (P : Nat) (n : Nat) : ∀ (s : MapSt α) (evs : List Nat),
    MapInv js s → s.cursor < s.ws.length → s.ws.length = P → n ≤ fairRounds P evs →
    (s.run evs).finished = true ∨ (s.run evs).phi + n ≤ s.phi := by
  induction n with
  | zero =>
    intro s evs hi hcur _ _
    exact Or.inr (phi_run_le evs s hi hcur)
  | succ n ih =>
    intro s evs hi hcur hP hn
    obtain ⟨r, rest, he, hall, hrest⟩ := fairScan_split P evs _ n hn
    cases hf : s.finished with
    | true => exact Or.inl (finished_run hf evs)
    | false =>
      have hdec := fair_round_decreases hi hcur hf r (by rw [hP]; exact hall)
      have hP' : (s.run r).ws.length = P := by rw [MapSt.run_length]; exact hP
      rcases ih (s.run r) rest (mapInv_run hi r) (cursor_lt_run hi.pos hcur r) hP' hrest with h | h
      · exact Or.inl (by rw [he, MapSt.run_append]; exact h)
      · refine Or.inr ?_
        rw [he, MapSt.run_append]
        omega

theorem wsum_clear_of_quiescent (ws : List (Worker α)) (hq : Quiescent ws) :
    wsum (ws.map (fun w => { w with pending := [], performed := [] })) = 0 := by
  induction ws with
  | nil => rfl
  | cons a t ih =>
    have ha := hq a (List.mem_cons_self)
    have ht : Quiescent t := fun w hw => hq w (List.mem_cons_of_mem _ hw)
    have := ih ht
    simp only [wsum, List.map_cons, List.sum_cons, List.map_map] at this ⊢
    simp only [Worker.weight, ha.1, ha.2.1, ha.2.2, List.length_nil, Option.toList_none]
    simpa using this

theorem any_ready_clear_of_quiescent (ws : List (Worker α)) (hq : Quiescent ws) :
    (ws.map (fun w => { w with pending := [], performed := [] })).any Worker.ready = false := by
  induction ws with
  | nil => rfl
  | cons a t ih =>
    have ha := hq a (List.mem_cons_self)
    have ht : Quiescent t := fun w hw => hq w (List.mem_cons_of_mem _ hw)
    simp only [List.map_cons, List.any_cons, ih ht, Bool.or_false]
    simp [Worker.ready, ha.2.2]

theorem phi_init (ws : List (Worker α)) (js : List (Res α)) (hq : Quiescent ws) :
    (initMap ws js).phi = 4 * js.length * ws.length := by
  have h1 := wsum_clear_of_quiescent ws hq
  have h2 := any_ready_clear_of_quiescent ws hq
  have hrot : (initMap ws js).rot = ws.map (fun w => { w with pending := [], performed := [] }) := by
    simp [MapSt.rot, initMap]
  unfold MapSt.phi MapSt.dist
  rw [hrot, firstReady_none _ h2]
  simp only [MapSt.mu, initMap, h1, List.length_map, Nat.add_zero]
  exact Nat.mul_comm _ _

/-! ## a worker that is never served performs nothing -/

theorem performed_unchanged_step (s : MapSt α) (k : Nat) (e : Nat) (h : e ≠ k + 1) :
    (s.step e).ws[k]?.map Worker.performed = s.ws[k]?.map Worker.performed := by
  cases e with
  | zero =>
    show s.mainStep.ws[k]?.map Worker.performed = _
    unfold MapSt.mainStep
    cases ht : s.todo with
    | cons r rest =>
      simp only [MapSt.submit]
      cases hn : s.ws[s.next % s.ws.length]? with
      | none => rfl
      | some w =>
        simp only
        by_cases hkk : k = s.next % s.ws.length
        · subst hkk
          rw [getElem?_set_self' hn, hn]
          rfl
        · rw [getElem?_set_ne' hkk]
    | nil =>
      simp only
      split
      · unfold MapSt.poll
        simp only
        cases hc : s.ws[s.cursor]? with
        | none => rfl
        | some w =>
          simp only
          split
          · by_cases hkk : k = s.cursor
            · subst hkk
              rw [getElem?_set_self' hc, hc]
              rfl
            · rw [getElem?_set_ne' hkk]
          · rfl
      · rfl
  | succ k' =>
    show (s.workerStep k').ws[k]?.map Worker.performed = _
    unfold MapSt.workerStep
    cases hk : s.ws[k']? with
    | none => rfl
    | some w =>
      simp only
      have hkk : k ≠ k' := fun e => h (by rw [e])
      rw [getElem?_set_ne' hkk]

theorem performed_unchanged (s : MapSt α) (k : Nat) (evs : List Nat) (h : (k + 1) ∉ evs) :
    (s.run evs).ws[k]?.map Worker.performed = s.ws[k]?.map Worker.performed := by
  induction evs generalizing s with
  | nil => rfl
  | cons e t ih =>
    have he : e ≠ k + 1 := fun e' => h (by rw [e']; exact List.mem_cons_self)
    have ht : (k + 1) ∉ t := fun h' => h (List.mem_cons_of_mem _ h')
    show ((s.step e).run t).ws[k]?.map Worker.performed = _
    rw [ih (s.step e) ht, performed_unchanged_step s k e he]

end AF.ParEval
