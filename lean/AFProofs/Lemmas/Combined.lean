import AFModel.Combined
import AFProofs.Lemmas.CompSpec

/-! Helper lemmas for C15 (`AFModel/Combined.lean`). -/

namespace AF.Combined
open AF

/-! ### bracketing -/

theorem built_perm {α : Type} : ∀ (e : Expr α), (build e).toList.Perm e.leaves
  | .leaf a => by simp [build, Built.toList, Expr.leaves]
  | .add l r => by
    have hl := built_perm l
    have hr := built_perm r
    simp only [build, Expr.leaves]
    cases hbl : build l with
    | single a =>
      cases hbr : build r with
      | single b =>
        simp only [hbl, hbr, Built.toList] at hl hr ⊢
        simpa [plus, Built.toList] using hl.append hr
      | comb bs =>
        simp only [hbl, hbr, Built.toList] at hl hr ⊢
        simp only [plus]
        exact (List.perm_append_comm).trans (hl.append hr)
    | comb as =>
      cases hbr : build r with
      | single b =>
        simp only [hbl, hbr, Built.toList] at hl hr ⊢
        simpa [plus, Built.toList] using hl.append hr
      | comb bs =>
        simp only [hbl, hbr, Built.toList] at hl hr ⊢
        simpa [plus, Built.toList] using hl.append hr

theorem build_sumExpr {α : Type} (a : α) : ∀ (rest : List α) (e : Expr α),
    (build (rest.foldl (fun e b => Expr.add e (.leaf b)) e)).toList =
      (match build e, rest with
        | x, [] => x.toList
        | x, _ :: _ => x.toList ++ rest)
  | [], e => by simp
  | b :: rest, e => by
    simp only [List.foldl_cons]
    rw [build_sumExpr a rest]
    cases hb : build e with
    | single x =>
      cases rest <;> simp [build, hb, plus, Built.toList]
    | comb xs =>
      cases rest <;> simp [build, hb, plus, Built.toList]

/-! ### sums over exact arithmetic -/

/-- the laws of the arithmetic under which the order-independence statements hold: `+` is
commutative and associative with neutral element `0`, and subtraction is exact (any abelian group:
integers, rationals; *not* floating point, where the pooled value may differ from the serial one in
the last bits — measured by the harness) -/
structure Laws {V : Type} (so : SumOps V) : Prop where
  comm : ∀ a b, so.add a b = so.add b a
  assoc : ∀ a b c, so.add (so.add a b) c = so.add a (so.add b c)
  zero_add : ∀ a, so.add so.zero a = a
  cancel : ∀ f x, so.add (so.sub f (so.add f x)) x = so.zero

theorem Laws.add_zero {V : Type} {so : SumOps V} (h : Laws so) (a : V) : so.add a so.zero = a := by
  rw [h.comm, h.zero_add]

/-- with exact arithmetic the compensation stays zero: CPython's compensated `sum` is the plain sum -/
theorem neumaier_exact {V : Type} {so : SumOps V} (h : Laws so) : ∀ (xs : List V) (f : V),
    neumaier so f so.zero xs = xs.foldl so.add f
  | [], f => by
    simp only [neumaier, List.foldl_nil]
    split
    · exact h.add_zero f
    · rfl
  | x :: xs, f => by
    have h1 : so.add so.zero (so.add (so.sub f (so.add f x)) x) = so.zero := by
      rw [h.cancel, h.zero_add]
    have h2 : so.add so.zero (so.add (so.sub x (so.add f x)) f) = so.zero := by
      rw [h.comm f x, h.cancel, h.zero_add]
    simp only [neumaier, h1, h2, ite_self, List.foldl_cons]
    exact neumaier_exact h xs _

theorem pySum_exact {V : Type} {so : SumOps V} (h : Laws so) (xs : List V) :
    pySum so xs = xs.foldl so.add so.zero := by
  cases xs with
  | nil => rfl
  | cons x xs => simp only [pySum, List.foldl_cons]; exact neumaier_exact h xs _

theorem foldl_add_perm {V : Type} {so : SumOps V} (h : Laws so) {l₁ l₂ : List V}
    (hp : l₁.Perm l₂) : ∀ acc, l₁.foldl so.add acc = l₂.foldl so.add acc := by
  induction hp with
  | nil => intro acc; rfl
  | cons x _ ih => intro acc; simp [ih]
  | swap x y l =>
    intro acc
    simp only [List.foldl_cons]
    rw [h.assoc, h.comm y x, ← h.assoc]
  | trans _ _ ih₁ ih₂ => intro acc; rw [ih₁, ih₂]

theorem vals_perm {V : Type} {l₁ l₂ : List (Res V)} (hp : l₁.Perm l₂) :
    (Res.vals l₁).Perm (Res.vals l₂) := by
  induction hp with
  | nil => exact List.Perm.refl _
  | cons x _ ih => cases x <;> simp [Res.vals, ih]
  | swap x y l =>
    cases x <;> cases y <;> simp [Res.vals]
    exact List.Perm.swap _ _ _
  | trans _ _ ih₁ ih₂ => exact ih₁.trans ih₂

theorem sumVals_perm {V : Type} {so : SumOps V} (h : Laws so) {l₁ l₂ : List (Res V)}
    (hp : l₁.Perm l₂) : sumVals so l₁ = sumVals so l₂ := by
  simp only [sumVals, pySum_exact h]
  exact foldl_add_perm h (vals_perm hp) _

theorem firstErr_none_iff {V : Type} : ∀ (rs : List (Res V)), firstErr rs = none ↔ ∀ r ∈ rs, r.isErr = false
  | [] => by simp [firstErr]
  | .err t :: rest => by simp [firstErr, Res.isErr]
  | .val v :: rest => by simp [firstErr, Res.isErr, firstErr_none_iff rest]

theorem firstErr_isSome_perm {V : Type} {l₁ l₂ : List (Res V)} (hp : l₁.Perm l₂) :
    (firstErr l₁).isSome = (firstErr l₂).isSome := by
  cases h₁ : firstErr l₁ with
  | none =>
    have := (firstErr_none_iff l₁).mp h₁
    have h₂ : firstErr l₂ = none := (firstErr_none_iff l₂).mpr (fun r hr => this r (hp.mem_iff.mpr hr))
    simp [h₂]
  | some t =>
    cases h₂ : firstErr l₂ with
    | some _ => rfl
    | none =>
      have := (firstErr_none_iff l₂).mp h₂
      have : firstErr l₁ = none := (firstErr_none_iff l₁).mpr (fun r hr => this r (hp.mem_iff.mp hr))
      simp [this] at h₁

/-- two evaluations agree: the same number, or both raise -/
def Outcome.same {V : Type} : Outcome V → Outcome V → Prop
  | .value a, .value b => a = b
  | .raises _, .raises _ => True
  | _, _ => False

theorem outcomeOf_perm {V : Type} {so : SumOps V} (h : Laws so) {l₁ l₂ : List (Res V)}
    (hp : l₁.Perm l₂) : Outcome.same (outcomeOf so l₁) (outcomeOf so l₂) := by
  have he := firstErr_isSome_perm hp
  simp only [outcomeOf]
  cases h₁ : firstErr l₁ <;> cases h₂ : firstErr l₂ <;> simp [h₁, h₂] at he ⊢
  · exact sumVals_perm h hp
  · trivial

/-! ### the partition -/

theorem flatten_slices {α : Type} (k : Nat) (as : List α) : ∀ p,
    ((List.range p).map (fun m => (as.drop (m * k)).take k)).flatten = as.take (p * k)
  | 0 => by simp
  | p + 1 => by
    rw [List.range_succ, List.map_append, List.flatten_append, flatten_slices k as p]
    simp only [List.map_cons, List.map_nil, List.flatten_cons, List.flatten_nil, List.append_nil]
    rw [Nat.succ_mul, List.take_add]

theorem le_mul_ceilDiv (n p : Nat) (hp : 1 ≤ p) : n ≤ p * ceilDiv n p := by
  unfold ceilDiv
  have h1 := Nat.div_add_mod (n + p - 1) p
  have h2 := Nat.mod_lt (n + p - 1) (show p > 0 by omega)
  generalize p * ((n + p - 1) / p) = x at h1 ⊢
  omega

theorem partition_flatten {α : Type} (cores : Nat) (as : List α) (hc : 1 ≤ cores) :
    (partition cores as).flatten = as := by
  unfold partition
  simp only []
  rw [flatten_slices]
  cases as with
  | nil => simp
  | cons a rest =>
    apply List.take_of_length_le
    have hp : 1 ≤ min (a :: rest).length cores := by
      simp only [List.length_cons]; omega
    exact le_mul_ceilDiv _ _ hp

/-! ### the pool: what is in flight -/

/-- every result a process still owes the caller, queue first -/
def inflight {R : Type} (ws : List (Worker R)) : List R :=
  (ws.map (fun w => w.resQ ++ w.pending)).flatten

theorem inflight_nil {R : Type} : inflight ([] : List (Worker R)) = [] := rfl

theorem inflight_cons {R : Type} (w : Worker R) (ws : List (Worker R)) :
    inflight (w :: ws) = (w.resQ ++ w.pending) ++ inflight ws := by
  simp [inflight]

theorem deliver_flat {R : Type} (w : Worker R) :
    (deliver w).resQ ++ (deliver w).pending = w.resQ ++ w.pending := by
  unfold deliver
  cases h : w.pending <;> simp [h]

theorem inflight_modify_deliver {R : Type} : ∀ (ws : List (Worker R)) (k : Nat),
    inflight (ws.modify k deliver) = inflight ws
  | [], k => by simp
  | w :: ws, 0 => by
    rw [List.modify_zero_cons, inflight_cons, inflight_cons, deliver_flat]
  | w :: ws, k + 1 => by
    rw [List.modify_succ_cons, inflight_cons, inflight_cons, inflight_modify_deliver ws k]

theorem inflight_stepWorker {R : Type} (ws : List (Worker R)) (k : Nat) :
    inflight (stepWorker ws k) = inflight ws := inflight_modify_deliver ws _

theorem length_stepWorker {R : Type} (ws : List (Worker R)) (k : Nat) :
    (stepWorker ws k).length = ws.length := by simp [stepWorker]

theorem inflight_quiesce {R : Type} : ∀ (ws : List (Worker R)), inflight (quiesce ws) = inflight ws
  | [] => rfl
  | w :: ws => by
    have ih := inflight_quiesce ws
    simp only [quiesce, List.map_cons] at ih ⊢
    rw [inflight_cons, inflight_cons, ih]
    simp

theorem quiesce_pending {R : Type} (ws : List (Worker R)) : ∀ w ∈ quiesce ws, w.pending = [] := by
  intro w hw
  simp only [quiesce, List.mem_map] at hw
  obtain ⟨w', _, rfl⟩ := hw
  rfl

/-- taking the head of process `p`'s queue removes exactly that result from what is in flight -/
theorem inflight_set_take {R : Type} : ∀ (ws : List (Worker R)) (p : Nat) (w : Worker R) (r : R)
    (rest : List R), ws[p]? = some w → w.resQ = r :: rest →
    (r :: inflight (ws.set p { w with resQ := rest })).Perm (inflight ws)
  | [], p, w, r, rest, h, _ => by simp at h
  | w0 :: ws, 0, w, r, rest, h, hq => by
    simp only [List.getElem?_cons_zero, Option.some.injEq] at h
    subst h
    simp only [List.set_cons_zero]
    rw [inflight_cons, inflight_cons, hq]
    simp
  | w0 :: ws, p + 1, w, r, rest, h, hq => by
    simp only [List.getElem?_cons_succ] at h
    have ih := inflight_set_take ws p w r rest h hq
    simp only [List.set_cons_succ]
    rw [inflight_cons, inflight_cons]
    exact (List.perm_middle.symm).trans (List.Perm.append_left _ ih)

theorem pending_set_take {R : Type} (ws : List (Worker R)) (p : Nat) (w : Worker R) (rest : List R)
    (hw : ws[p]? = some w) (h : ∀ x ∈ ws, x.pending = []) :
    ∀ x ∈ ws.set p { w with resQ := rest }, x.pending = [] := by
  intro x hx
  rcases List.mem_or_eq_of_mem_set hx with hx | hx
  · exact h x hx
  · subst hx
    exact h w (List.mem_of_getElem? hw)

/-- invariants of `takeAt` under the repaired behaviour -/
theorem takeAt_spec {R : Type} (cfg : Cfg) (isErr : R → Bool) (hd : cfg.drainOnError = true)
    (c : Call R) (p : Nat) :
    ((takeAt cfg isErr c p).got ++ inflight (takeAt cfg isErr c p).ws).Perm (c.got ++ inflight c.ws) ∧
      (takeAt cfg isErr c p).ws.length = c.ws.length ∧
      (takeAt cfg isErr c p).aborted = c.aborted ∧ (takeAt cfg isErr c p).stuck = c.stuck ∧
      (takeAt cfg isErr c p).pos = c.pos ∧
      ((∀ x ∈ c.ws, x.pending = []) → ∀ x ∈ (takeAt cfg isErr c p).ws, x.pending = []) := by
  unfold takeAt
  split
  · simp
  · rename_i ha
    split
    · simp
    · rename_i w hw
      split
      · simp
      · rename_i r rest hq
        simp only [List.length_set, hd, Bool.not_true, Bool.false_and, true_and]
        refine ⟨?_, by simpa using ha, pending_set_take c.ws p w rest hw⟩
        have h := inflight_set_take c.ws p w r rest hw hq
        rw [List.append_assoc]
        exact List.Perm.append_left _ (by simpa using h)

theorem takeAt_takes {R : Type} (cfg : Cfg) (isErr : R → Bool) (c : Call R) (p : Nat)
    (ha : c.aborted = false) (hne : nonemptyAt c.ws p = true) :
    (takeAt cfg isErr c p).got.length = c.got.length + 1 := by
  unfold nonemptyAt at hne
  unfold takeAt
  simp only [ha, Bool.false_eq_true, ↓reduceIte]
  split
  · rename_i hw; simp [hw] at hne
  · rename_i w hw
    simp only [hw] at hne
    split
    · rename_i hq; simp [hq] at hne
    · simp

/-! ### the pool: one call of `results()` -/

/-- what holds throughout a call under the repaired behaviour: the results taken so far together
with what is still in flight are exactly (a permutation of) the results of this evaluation -/
structure Inv {R : Type} (all : List R) (c : Call R) : Prop where
  perm : (c.got ++ inflight c.ws).Perm all
  notAborted : c.aborted = false
  notStuck : c.stuck = false

/-- a finished call: everything was taken, nothing is left behind -/
structure Done {R : Type} (all : List R) (c : Call R) : Prop where
  perm : c.got.Perm all
  clean : inflight c.ws = []
  notStuck : c.stuck = false

theorem Inv.takeAt {R : Type} {cfg : Cfg} {isErr : R → Bool} (hd : cfg.drainOnError = true)
    {all : List R} {c : Call R} (h : Inv all c) (p : Nat) : Inv all (takeAt cfg isErr c p) := by
  obtain ⟨h1, _, h3, h4, _, _⟩ := takeAt_spec cfg isErr hd c p
  exact ⟨h1.trans h.perm, h3.trans h.notAborted, h4.trans h.notStuck⟩

theorem Inv.withPos {R : Type} {all : List R} {c : Call R} (h : Inv all c) (q : Nat) :
    Inv all { c with pos := q } := ⟨h.perm, h.notAborted, h.notStuck⟩

theorem Inv.poll {R : Type} {cfg : Cfg} {isErr : R → Bool} (hd : cfg.drainOnError = true)
    {all : List R} {c : Call R} (h : Inv all c) : Inv all (poll cfg isErr c) := by
  unfold Combined.poll
  simp only []
  split
  · exact (h.takeAt hd _).withPos _
  · exact (h.takeAt hd _).withPos _

theorem length_poll {R : Type} (cfg : Cfg) (isErr : R → Bool) (hd : cfg.drainOnError = true)
    (c : Call R) : (poll cfg isErr c).ws.length = c.ws.length := by
  unfold Combined.poll
  simp only []
  split <;> exact (takeAt_spec cfg isErr hd c c.pos).2.1

theorem Inv.finished {R : Type} {all : List R} {c : Call R} (h : Inv all c)
    (hf : finished all.length c = true) : Done all c := by
  simp only [Combined.finished, h.notAborted, Bool.false_or, Bool.and_eq_true, beq_iff_eq,
    decide_eq_true_eq] at hf
  have hl := h.perm.length_eq
  simp only [List.length_append] at hl
  have h0 : (inflight c.ws).length = 0 := by omega
  have hnil : inflight c.ws = [] := List.eq_nil_of_length_eq_zero h0
  refine ⟨?_, hnil, h.notStuck⟩
  have := h.perm
  rwa [hnil, List.append_nil] at this

theorem inflight_eq_nil_of {R : Type} : ∀ (ws : List (Worker R)),
    (∀ p, p < ws.length → nonemptyAt ws p = false) → (∀ w ∈ ws, w.pending = []) → inflight ws = []
  | [], _, _ => rfl
  | w :: ws, h, hp => by
    rw [inflight_cons]
    have h0 := h 0 (by simp)
    simp only [nonemptyAt, List.getElem?_cons_zero, Bool.not_eq_false', List.isEmpty_iff] at h0
    have ih := inflight_eq_nil_of ws
      (fun p hpl => by
        have := h (p + 1) (by simp; omega)
        simpa [nonemptyAt] using this)
      (fun x hx => hp x (List.mem_cons_of_mem _ hx))
    simp [h0, hp w (List.mem_cons_self), ih]

theorem nextNonempty_none {R : Type} (ws : List (Worker R)) (pos : Nat)
    (h : nextNonempty ws pos = none) : ∀ p, p < ws.length → nonemptyAt ws p = false := by
  intro p hp
  unfold nextNonempty at h
  have := List.find?_eq_none.mp h p (by
    simp only [List.mem_append, List.mem_range'_1, List.mem_range]
    omega)
  simpa using this

theorem takeAt_of_clean {R : Type} (cfg : Cfg) (isErr : R → Bool) (c : Call R) (p : Nat)
    (h : inflight c.ws = []) : takeAt cfg isErr c p = c := by
  unfold takeAt
  split
  · rfl
  · split
    · rfl
    · rename_i w hw
      split
      · rfl
      · rename_i r rest hq
        exfalso
        have hm : w ∈ c.ws := List.mem_of_getElem? hw
        have : r ∈ inflight c.ws := by
          simp only [inflight, List.mem_flatten, List.mem_map]
          exact ⟨w.resQ ++ w.pending, ⟨w, hm, rfl⟩, by simp [hq]⟩
        simp [h] at this

theorem drainA_spec {R : Type} (cfg : Cfg) (isErr : R → Bool) (hd : cfg.drainOnError = true)
    (all : List R) : ∀ (k : Nat) (c : Call R), Inv all c → (∀ w ∈ c.ws, w.pending = []) →
      (inflight c.ws).length = k →
      Inv all (drainA cfg isErr k c) ∧ inflight (drainA cfg isErr k c).ws = [] ∧
        (drainA cfg isErr k c).ws.length = c.ws.length
  | 0, c, h, _, hk => by
    simp only [drainA]
    exact ⟨h, List.eq_nil_of_length_eq_zero hk, trivial⟩
  | k + 1, c, h, hp, hk => by
    simp only [drainA, h.notAborted, Bool.false_eq_true, ↓reduceIte]
    cases hn : nextNonempty c.ws c.pos with
    | none =>
      exfalso
      have := inflight_eq_nil_of c.ws (nextNonempty_none c.ws c.pos hn) hp
      simp [this] at hk
    | some p =>
      simp only []
      have hne : nonemptyAt c.ws p = true := List.find?_some hn
      have ht := takeAt_takes cfg isErr c p h.notAborted hne
      have hs := takeAt_spec cfg isErr hd c p
      have hI := h.takeAt (cfg := cfg) (isErr := isErr) hd p
      have hl1 := h.perm.length_eq
      have hl2 := hI.perm.length_eq
      simp only [List.length_append] at hl1 hl2
      have ih := drainA_spec cfg isErr hd all k { takeAt cfg isErr c p with pos := p + 1 }
        (hI.withPos _) (hs.2.2.2.2.2 hp) (by simp only []; omega)
      refine ⟨ih.1, ih.2.1, ?_⟩
      rw [ih.2.2]
      exact hs.2.1

theorem foldl_takeAt_of_clean {R : Type} (cfg : Cfg) (isErr : R → Bool) : ∀ (ps : List Nat) (c : Call R),
    inflight c.ws = [] → ps.foldl (takeAt cfg isErr) c = c
  | [], _, _ => rfl
  | p :: ps, c, h => by
    rw [List.foldl_cons, takeAt_of_clean cfg isErr c p h]
    exact foldl_takeAt_of_clean cfg isErr ps c h

theorem fallback_spec {R : Type} (cfg : Cfg) (isErr : R → Bool) (hd : cfg.drainOnError = true)
    (all : List R) (c : Call R) (h : Inv all c) :
    Done all (fallback cfg isErr all.length c) ∧ (fallback cfg isErr all.length c).ws.length = c.ws.length := by
  have hq : Inv all { c with ws := quiesce c.ws } :=
    ⟨by simpa [inflight_quiesce] using h.perm, h.notAborted, h.notStuck⟩
  have hl := h.perm.length_eq
  simp only [List.length_append] at hl
  have hk : (inflight ({ c with ws := quiesce c.ws } : Call R).ws).length =
      all.length - ({ c with ws := quiesce c.ws } : Call R).got.length := by
    simp only [inflight_quiesce]; omega
  have hA := drainA_spec cfg isErr hd all _ _ hq (quiesce_pending c.ws) hk
  unfold fallback
  simp only []
  rw [if_neg (by simp [hA.1.notStuck])]
  unfold drainB
  rw [foldl_takeAt_of_clean cfg isErr _ _ hA.2.1]
  refine ⟨⟨?_, hA.2.1, hA.1.notStuck⟩, ?_⟩
  · have := hA.1.perm
    simp only [hA.2.1, List.append_nil] at this
    exact this
  · simp only []
    rw [hA.2.2]
    simp [quiesce]

theorem callLoop_spec {R : Type} (cfg : Cfg) (isErr : R → Bool) (hd : cfg.drainOnError = true)
    (all : List R) : ∀ (evs : List Ev) (c : Call R), Inv all c →
      Done all (callLoop cfg isErr all.length c evs) ∧
        (callLoop cfg isErr all.length c evs).ws.length = c.ws.length
  | [], c, h => by
    simp only [callLoop]
    exact fallback_spec cfg isErr hd all c h
  | .work w :: es, c, h => by
    simp only [callLoop]
    have h' : Inv all { c with ws := stepWorker c.ws w } :=
      ⟨by simpa [inflight_stepWorker] using h.perm, h.notAborted, h.notStuck⟩
    have ih := callLoop_spec cfg isErr hd all es _ h'
    refine ⟨ih.1, ?_⟩
    rw [ih.2]
    simp [length_stepWorker]
  | .poll :: es, c, h => by
    simp only [callLoop]
    have h' := h.poll (cfg := cfg) (isErr := isErr) hd
    have hl := length_poll cfg isErr hd c
    split
    · rename_i hf
      exact ⟨h'.finished hf, hl⟩
    · have ih := callLoop_spec cfg isErr hd all es _ h'
      exact ⟨ih.1, ih.2.trans hl⟩

/-! ### the pool: histories -/

/-- two lists related element by element -/
inductive Pointwise {α β : Type} (r : α → β → Prop) : List α → List β → Prop where
  | nil : Pointwise r [] []
  | cons {a b as bs} : r a b → Pointwise r as bs → Pointwise r (a :: as) (b :: bs)

theorem Pointwise.length_eq {α β : Type} {r : α → β → Prop} {l₁ : List α} {l₂ : List β}
    (h : Pointwise r l₁ l₂) : l₁.length = l₂.length := by
  induction h with
  | nil => rfl
  | cons _ _ ih => simp [ih]

theorem Pointwise.get {α β : Type} {r : α → β → Prop} {l₁ : List α} {l₂ : List β}
    (h : Pointwise r l₁ l₂) : ∀ (k : Nat) (h₁ : k < l₁.length) (h₂ : k < l₂.length), r l₁[k] l₂[k] := by
  induction h with
  | nil => intro k h₁; simp at h₁
  | cons hab _ ih =>
    intro k h₁ h₂
    cases k with
    | zero => simpa using hab
    | succ k => simpa using ih k (by simpa using h₁) (by simpa using h₂)

theorem inflight_nil_cons {R : Type} {w : Worker R} {ws : List (Worker R)} (h : inflight (w :: ws) = []) :
    w.resQ = [] ∧ w.pending = [] ∧ inflight ws = [] := by
  rw [inflight_cons] at h
  simp only [List.append_eq_nil_iff] at h
  exact ⟨h.1.1, h.1.2, h.2⟩

theorem inflight_submit_clean {ι R : Type} : ∀ (slices : List (List (ι → R))) (ws : List (Worker R)) (i : ι),
    ws.length = slices.length → inflight ws = [] →
    inflight (submit slices ws i) = slices.flatten.map (· i)
  | [], ws, i, _, _ => by simp [submit, inflight]
  | s :: slices, [], i, hl, _ => by simp at hl
  | s :: slices, w :: ws, i, hl, hc => by
    obtain ⟨h1, h2, h3⟩ := inflight_nil_cons hc
    have ih := inflight_submit_clean slices ws i (by simpa using hl) h3
    simp only [submit, List.zipWith_cons_cons] at ih ⊢
    rw [inflight_cons, ih]
    simp [h1, h2]

theorem length_submit {ι R : Type} (slices : List (List (ι → R))) (ws : List (Worker R)) (i : ι)
    (hl : ws.length = slices.length) : (submit slices ws i).length = slices.length := by
  simp [submit, hl]

theorem same_outcomeOf_self {V : Type} (so : SumOps V) (rs : List (Res V)) :
    Outcome.same (outcomeOf so rs) (outcomeOf so rs) := by
  simp only [outcomeOf]
  cases firstErr rs <;> simp [Outcome.same]

theorem poolCall_spec {ι V : Type} (cfg : Cfg) (hd : cfg.drainOnError = true) {so : SumOps V}
    (hlaws : Laws so) (slices : List (List (ι → Res V))) (ws : List (Worker (Res V))) (i : ι)
    (evs : List Ev) (hl : ws.length = slices.length) (hc : inflight ws = []) :
    Outcome.same (poolCall cfg so slices.flatten.length slices ws i evs).1 (serial so slices.flatten i) ∧
      (poolCall cfg so slices.flatten.length slices ws i evs).2.length = slices.length ∧
      inflight (poolCall cfg so slices.flatten.length slices ws i evs).2 = [] := by
  have hall : (slices.flatten.map (· i)).length = slices.flatten.length := List.length_map _
  have hinv : Inv (slices.flatten.map (· i)) ({ ws := submit slices ws i } : Call (Res V)) :=
    ⟨by simp [inflight_submit_clean slices ws i hl hc], rfl, rfl⟩
  have h := callLoop_spec cfg Res.isErr hd (slices.flatten.map (· i)) evs _ hinv
  rw [hall] at h
  simp only [poolCall]
  refine ⟨?_, ?_, h.1.clean⟩
  · simp only [callOutcome, h.1.notStuck, Bool.false_eq_true, ↓reduceIte, serial]
    exact outcomeOf_perm hlaws h.1.perm
  · rw [h.2]
    exact length_submit slices ws i hl

theorem poolHistory_spec {ι V : Type} (cfg : Cfg) (hd : cfg.drainOnError = true) {so : SumOps V}
    (hlaws : Laws so) (slices : List (List (ι → Res V))) :
    ∀ (hist : List (ι × List Ev)) (ws : List (Worker (Res V))), ws.length = slices.length →
      inflight ws = [] →
      Pointwise Outcome.same (poolHistory cfg so slices.flatten.length slices ws hist)
        (hist.map (fun h => serial so slices.flatten h.1))
  | [], _, _, _ => by simp only [poolHistory, List.map_nil]; exact Pointwise.nil
  | (i, evs) :: rest, ws, hl, hc => by
    have h := poolCall_spec cfg hd hlaws slices ws i evs hl hc
    simp only [poolHistory, List.map_cons]
    exact Pointwise.cons h.1 (poolHistory_spec cfg hd hlaws slices rest _ h.2.1 h.2.2)

theorem inflight_freshWorkers {R : Type} : ∀ (p : Nat), inflight (freshWorkers p : List (Worker R)) = []
  | 0 => rfl
  | p + 1 => by
    have ih := inflight_freshWorkers (R := R) p
    simp only [freshWorkers, List.replicate_succ] at ih ⊢
    rw [inflight_cons, ih]
    rfl

theorem evaluate_spec {ι V : Type} (cfg : Cfg) (hd : cfg.drainOnError = true) {so : SumOps V}
    (hlaws : Laws so) (cores : Nat) (hc : 1 ≤ cores) (as : List (ι → Res V))
    (hist : List (ι × List Ev)) :
    Pointwise Outcome.same (evaluate cfg so cores as hist) (hist.map (fun h => serial so as h.1)) := by
  unfold evaluate
  split
  · induction hist with
    | nil => exact Pointwise.nil
    | cons h rest ih =>
      simp only [List.map_cons]
      exact Pointwise.cons (same_outcomeOf_self so _) ih
  · simp only []
    have hp := partition_flatten cores as hc
    have := poolHistory_spec cfg hd hlaws (partition cores as) hist
      (freshWorkers (partition cores as).length) (by simp [freshWorkers]) (inflight_freshWorkers _)
    rw [hp] at this
    exact this

/-! ### free parameters: places of the fitted model -/

mutual
theorem walk_mapIds {V : Type} (σ : Nat → Nat) : ∀ (t : Node V),
    walk (mapIds σ t) = (walk t).map (fun x => (x.1, σ x.2))
  | .prior id => by simp [mapIds, walk]
  | .const _ => by simp [mapIds, walk]
  | .opaque _ => by simp [mapIds, walk]
  | .model _ _ attrs => by simp only [mapIds, walk]; exact walkAttrs_mapIds σ attrs
  | .coll attrs => by simp only [mapIds, walk]; exact walkAttrs_mapIds σ attrs
  | .tuple attrs => by simp only [mapIds, walk]; exact walkAttrs_mapIds σ attrs
  | .arith _ attrs _ _ => by simp only [mapIds, walk]; exact walkAttrs_mapIds σ attrs
  | .modif _ attrs _ => by simp only [mapIds, walk]; exact walkAttrs_mapIds σ attrs
  | .array _ attrs => by simp only [mapIds, walk]; exact walkAttrs_mapIds σ attrs
theorem walkAttrs_mapIds {V : Type} (σ : Nat → Nat) : ∀ (attrs : List (String × Node V)),
    walkAttrs (mapIdsAttrs σ attrs) = (walkAttrs attrs).map (fun x => (x.1, σ x.2))
  | [] => by simp [mapIdsAttrs, walkAttrs]
  | (k, n) :: rest => by
    simp only [mapIdsAttrs, walkAttrs, List.map_append, List.map_map]
    rw [walk_mapIds σ n, walkAttrs_mapIds σ rest]
    simp only [List.map_map]
    rfl
end

/-- places of a list-built collection: member `k`'s places under the name `"k"` -/
theorem walkAttrs_zipIdx {V : Type} : ∀ (cs : List (Node V)) (k : Nat),
    walkAttrs ((cs.zipIdx k).map (fun x => (toString x.2, x.1))) =
      ((cs.zipIdx k).map (fun x => (walk x.1).map (fun y => (toString x.2 :: y.1, y.2)))).flatten
  | [], k => by simp [walkAttrs]
  | c :: cs, k => by
    simp only [List.zipIdx_cons, List.map_cons, walkAttrs, List.flatten_cons]
    rw [walkAttrs_zipIdx cs (k + 1)]

theorem walk_listColl {V : Type} (cs : List (Node V)) :
    walk (listColl cs) =
      (cs.zipIdx.map (fun x => (walk x.1).map (fun y => (toString x.2 :: y.1, y.2)))).flatten := by
  simp only [listColl, walk]
  exact walkAttrs_zipIdx cs 0

theorem zipIdx_map_range {α : Type} (f : Nat → α) : ∀ (n k : Nat),
    ((List.range' k n).map f).zipIdx k = (List.range' k n).map (fun i => (f i, i))
  | 0, k => by simp
  | n + 1, k => by
    simp only [List.range'_succ, List.map_cons, List.zipIdx_cons]
    rw [zipIdx_map_range f n (k + 1)]

/-- **the fitted model, place by place**: for each analysis `k` (in order) every place of the
original model, holding the parameter `freeRename F base k id` -/
theorem walk_freeModel {V : Type} (t : Node V) (F : List Nat) (base n : Nat) :
    walk (freeModel t F base n) =
      ((List.range n).map (fun k =>
        (walk t).map (fun y => (toString k :: y.1, freeRename F base k y.2)))).flatten := by
  unfold freeModel
  rw [walk_listColl, List.range_eq_range', zipIdx_map_range]
  simp only [List.map_map]
  congr 1
  apply List.map_congr_left
  intro k _
  simp only [Function.comp, freeCopy, walk_mapIds, List.map_map]
  rfl

/-! ### free parameters: the renaming -/

theorem lastIndexOf_some {F : List Nat} {id j : Nat} (h : lastIndexOf F id = some j) :
    F[j]? = some id := by
  unfold lastIndexOf at h
  cases hf : List.find? (fun x => x.1 == id) F.zipIdx.reverse with
  | none => simp [hf] at h
  | some x =>
    simp only [hf, Option.map_some, Option.some.injEq] at h
    have hm := List.mem_of_find?_eq_some hf
    have hp := List.find?_some hf
    rw [List.mem_reverse, List.mem_zipIdx_iff_getElem?] at hm
    simp only [beq_iff_eq] at hp
    rw [← h, ← hp]
    exact hm

theorem lastIndexOf_lt {F : List Nat} {id j : Nat} (h : lastIndexOf F id = some j) : j < F.length := by
  have := lastIndexOf_some h
  exact (List.getElem?_eq_some_iff.mp this).1

theorem lastIndexOf_none {F : List Nat} {id : Nat} : lastIndexOf F id = none ↔ id ∉ F := by
  unfold lastIndexOf
  simp only [Option.map_eq_none_iff, List.find?_eq_none, List.mem_reverse, beq_iff_eq]
  constructor
  · intro h hm
    obtain ⟨i, hi⟩ := List.mem_iff_getElem?.mp hm
    exact h (id, i) (List.mem_zipIdx_iff_getElem?.mpr hi) rfl
  · intro h x hx hxe
    rw [List.mem_zipIdx_iff_getElem?] at hx
    exact h (hxe ▸ List.mem_of_getElem? hx)

theorem lastIndexOf_isSome {F : List Nat} {id : Nat} (h : id ∈ F) : ∃ j, lastIndexOf F id = some j := by
  cases hl : lastIndexOf F id with
  | none => exact absurd h (lastIndexOf_none.mp hl)
  | some j => exact ⟨j, rfl⟩

theorem lastIndexOf_inj {F : List Nat} {a b j : Nat} (ha : lastIndexOf F a = some j)
    (hb : lastIndexOf F b = some j) : a = b := by
  have h1 := lastIndexOf_some ha
  have h2 := lastIndexOf_some hb
  rw [h1] at h2
  exact Option.some.inj h2

/-- a parameter that is not free keeps its identity in every analysis' copy -/
theorem freeRename_shared {F : List Nat} (base k id : Nat) (h : id ∉ F) : freeRename F base k id = id := by
  simp [freeRename, lastIndexOf_none.mpr h]

theorem freeRename_free {F : List Nat} (base k id : Nat) (h : id ∈ F) :
    ∃ j, j < F.length ∧ freeRename F base k id = base + k * F.length + j := by
  obtain ⟨j, hj⟩ := lastIndexOf_isSome h
  exact ⟨j, lastIndexOf_lt hj, by simp [freeRename, hj]⟩

theorem block_inj {L k k' j j' : Nat} (hj : j < L) (hj' : j' < L) (h : k * L + j = k' * L + j') :
    k = k' ∧ j = j' := by
  rcases Nat.lt_trichotomy k k' with hlt | heq | hgt
  · exfalso
    have : (k + 1) * L ≤ k' * L := Nat.mul_le_mul_right L hlt
    rw [Nat.succ_mul] at this
    omega
  · subst heq; exact ⟨rfl, by omega⟩
  · exfalso
    have : (k' + 1) * L ≤ k * L := Nat.mul_le_mul_right L hgt
    rw [Nat.succ_mul] at this
    omega

/-- the copies of free parameters are pairwise different parameters: different analyses, or
different free parameters, never share a copy -/
theorem freeRename_inj {F : List Nat} (base k k' id id' : Nat) (h : id ∈ F) (h' : id' ∈ F)
    (he : freeRename F base k id = freeRename F base k' id') : k = k' ∧ id = id' := by
  obtain ⟨j, hj⟩ := lastIndexOf_isSome h
  obtain ⟨j', hj'⟩ := lastIndexOf_isSome h'
  simp only [freeRename, hj, hj'] at he
  have := block_inj (lastIndexOf_lt hj) (lastIndexOf_lt hj') (by omega : k * F.length + j = k' * F.length + j')
  exact ⟨this.1, lastIndexOf_inj hj (this.2 ▸ hj')⟩

/-- … and are new: never a parameter below `base` -/
theorem freeRename_fresh {F : List Nat} (base k id : Nat) (h : id ∈ F) : base ≤ freeRename F base k id := by
  obtain ⟨j, _, hj⟩ := freeRename_free base k id h
  omega

/-! ### sub-instances of the fitted collection -/

theorem instCollAttrs_zipIdx {V : Type} [Inhabited V] (ops : Ops V) (ρ : Nat → Inst V) :
    ∀ (cs : List (Node V)) (j : Nat), (∀ c ∈ cs, ∀ attrs, c ≠ .tuple attrs) →
      instCollAttrs ops ρ ((cs.zipIdx j).map (fun x => (toString x.2, x.1))) =
        (cs.zipIdx j).map (fun x => (toString x.2, instW ops ρ x.1))
  | [], _, _ => by simp [instCollAttrs]
  | c :: cs, j, h => by
    have ih := instCollAttrs_zipIdx ops ρ cs (j + 1) (fun c' hc' => h c' (List.mem_cons_of_mem _ hc'))
    have hc := h c List.mem_cons_self
    simp only [List.zipIdx_cons, List.map_cons]
    match c, hc with
    | .tuple attrs, hc => exact absurd rfl (hc attrs)
    | .prior id, _ => simp only [instCollAttrs, ih]
    | .const v, _ => simp only [instCollAttrs, ih]
    | .opaque tag, _ => simp only [instCollAttrs, ih]
    | .model cls ctor attrs, _ => simp only [instCollAttrs, ih]
    | .coll attrs, _ => simp only [instCollAttrs, ih]
    | .arith op attrs l r, _ => simp only [instCollAttrs, ih]
    | .modif op attrs x, _ => simp only [instCollAttrs, ih]
    | .array shape attrs, _ => simp only [instCollAttrs, ih]

theorem subInstance_listColl {V : Type} [Inhabited V] (ops : Ops V) (ρ : Nat → Inst V)
    (cs : List (Node V)) (hnt : ∀ c ∈ cs, ∀ attrs, c ≠ .tuple attrs) (k : Nat) (c : Node V)
    (hc : cs[k]? = some c) :
    subInstance (instW ops ρ (listColl cs)) k = instW ops ρ c := by
  simp only [listColl, instW, subInstance]
  rw [instCollAttrs_zipIdx ops ρ cs 0 hnt]
  simp [List.getElem?_zipIdx, hc]

end AF.Combined
