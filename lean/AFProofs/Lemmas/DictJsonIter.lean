import AFProofs.Lemmas.DictJson

/-! Repeated dictionary round trips: renamings compose, the reload names are stable (C08). -/

namespace AF

variable {V : Type}

/-! ### renamings compose; the ids of a renamed composition -/

mutual
theorem renamePN_comp (σ τ : Nat → Nat) : ∀ (n : PN V),
    renamePN τ (renamePN σ n) = renamePN (fun i => τ (σ i)) n
  | .prior _ _ => by simp [renamePN]
  | .lit _ => by simp [renamePN]
  | .model _ attrs asserts => by simp [renamePN, renamePNAttrs_comp σ τ attrs, renamePNList_comp σ τ asserts]
  | .inst _ attrs => by simp [renamePN, renamePNAttrs_comp σ τ attrs]
  | .coll _ attrs asserts => by simp [renamePN, renamePNAttrs_comp σ τ attrs, renamePNList_comp σ τ asserts]
  | .tuple attrs => by simp [renamePN, renamePNAttrs_comp σ τ attrs]
  | .arith _ _ _ l r => by simp [renamePN, renamePN_comp σ τ l, renamePN_comp σ τ r]
  | .both x y => by simp [renamePN, renamePN_comp σ τ x, renamePN_comp σ τ y]
  | .modif _ _ x => by simp [renamePN, renamePN_comp σ τ x]
  | .array _ attrs => by simp [renamePN, renamePNAttrs_comp σ τ attrs]
  | .list _ items => by simp [renamePN, renamePNList_comp σ τ items]
theorem renamePNAttrs_comp (σ τ : Nat → Nat) : ∀ (attrs : List (String × PN V)),
    renamePNAttrs τ (renamePNAttrs σ attrs) = renamePNAttrs (fun i => τ (σ i)) attrs
  | [] => by simp [renamePNAttrs]
  | (k, n) :: rest => by simp [renamePNAttrs, renamePN_comp σ τ n, renamePNAttrs_comp σ τ rest]
theorem renamePNList_comp (σ τ : Nat → Nat) : ∀ (l : List (PN V)),
    renamePNList τ (renamePNList σ l) = renamePNList (fun i => τ (σ i)) l
  | [] => by simp [renamePNList]
  | n :: rest => by simp [renamePNList, renamePN_comp σ τ n, renamePNList_comp σ τ rest]
end

mutual
theorem pnLoadOrder_rename (σ : Nat → Nat) : ∀ (n : PN V),
    pnLoadOrder (renamePN σ n) = (pnLoadOrder n).map σ
  | .prior _ _ => by simp [renamePN, pnLoadOrder]
  | .lit _ => by simp [renamePN, pnLoadOrder]
  | .model _ attrs asserts => by
      simp [renamePN, pnLoadOrder, pnLoadOrderAttrs_rename σ attrs, pnLoadOrderList_rename σ asserts]
  | .inst _ attrs => by simp [renamePN, pnLoadOrder, pnLoadOrderAttrs_rename σ attrs]
  | .coll _ attrs asserts => by
      simp [renamePN, pnLoadOrder, pnLoadOrderAttrs_rename σ attrs, pnLoadOrderList_rename σ asserts]
  | .tuple attrs => by simp [renamePN, pnLoadOrder, pnLoadOrderAttrs_rename σ attrs]
  | .arith _ _ _ l r => by simp [renamePN, pnLoadOrder, pnLoadOrder_rename σ l, pnLoadOrder_rename σ r]
  | .both x y => by simp [renamePN, pnLoadOrder, pnLoadOrder_rename σ x, pnLoadOrder_rename σ y]
  | .modif _ _ x => by simp [renamePN, pnLoadOrder, pnLoadOrder_rename σ x]
  | .array _ attrs => by simp [renamePN, pnLoadOrder, pnLoadOrderAttrs_rename σ attrs]
  | .list _ items => by simp [renamePN, pnLoadOrder, pnLoadOrderList_rename σ items]
theorem pnLoadOrderAttrs_rename (σ : Nat → Nat) : ∀ (attrs : List (String × PN V)),
    pnLoadOrderAttrs (renamePNAttrs σ attrs) = (pnLoadOrderAttrs attrs).map σ
  | [] => by simp [renamePNAttrs, pnLoadOrderAttrs]
  | (k, n) :: rest => by
    simp [renamePNAttrs, pnLoadOrderAttrs, pnLoadOrder_rename σ n, pnLoadOrderAttrs_rename σ rest]
theorem pnLoadOrderList_rename (σ : Nat → Nat) : ∀ (l : List (PN V)),
    pnLoadOrderList (renamePNList σ l) = (pnLoadOrderList l).map σ
  | [] => by simp [renamePNList, pnLoadOrderList]
  | n :: rest => by
    simp [renamePNList, pnLoadOrderList, pnLoadOrder_rename σ n, pnLoadOrderList_rename σ rest]
end

/-! ### class defaults are filled once -/

theorem canonPNAttrs_append (dflt : String → List (String × Scal V)) : ∀ (a b : List (String × PN V)),
    canonPNAttrs dflt (a ++ b) = canonPNAttrs dflt a ++ canonPNAttrs dflt b
  | [], b => by simp [canonPNAttrs]
  | (k, n) :: a, b => by simp [canonPNAttrs, canonPNAttrs_append dflt a b]

theorem canonPNAttrs_lits (dflt : String → List (String × Scal V)) : ∀ (ds : List (String × Scal V)),
    canonPNAttrs dflt (ds.map (fun kd => (kd.1, PN.lit kd.2))) = ds.map (fun kd => (kd.1, PN.lit kd.2))
  | [] => by simp [canonPNAttrs]
  | d :: ds => by simp [canonPNAttrs, canonPN, canonPNAttrs_lits dflt ds]

theorem fillDefaults_idem (ds : List (String × Scal V)) (a : List (String × PN V)) :
    fillDefaults ds (fillDefaults ds a) = fillDefaults ds a := by
  unfold fillDefaults
  have h : (ds.filter (fun kd => !((a ++ (ds.filter (fun kd => !(a.any (fun kv => kv.1 == kd.1)))).map
      (fun kd => (kd.1, PN.lit kd.2))).any (fun kv => kv.1 == kd.1)))) = [] := by
    rw [List.filter_eq_nil_iff]
    intro kd hkd
    by_cases h : a.any (fun kv => kv.1 == kd.1) = true
    · simp [h]
    · simp only [Bool.not_eq_true] at h
      simp only [List.any_append, h, Bool.false_or, Bool.not_eq_true']
      simp only [List.any_map, List.any_filter]
      intro hf
      have : (ds.any fun a_1 => (!a.any fun kv => kv.fst == a_1.fst) &&
          ((fun kv => kv.fst == kd.fst) ∘ fun kd => (kd.fst, PN.lit kd.snd)) a_1) = true :=
        List.any_eq_true.mpr ⟨kd, hkd, by simp [h]⟩
      rw [this] at hf
      exact Bool.noConfusion hf
  rw [h]; simp

/-! ### the reload names are stable: renaming first or naming first is the same, naming twice is naming once -/

mutual
theorem canonPN_idem (dflt : String → List (String × Scal V)) : ∀ (n : PN V),
    canonPN dflt (canonPN dflt n) = canonPN dflt n
  | .prior _ _ => by simp [canonPN]
  | .lit _ => by simp [canonPN]
  | .model _ attrs asserts => by simp [canonPN, canonPNAttrs_idem dflt attrs, canonPNList_idem dflt asserts]
  | .inst _ attrs => by
      simp only [canonPN]
      rw [show canonPNAttrs dflt (fillDefaults (dflt _) (canonPNAttrs dflt attrs)) =
            fillDefaults (dflt _) (canonPNAttrs dflt attrs) by
          unfold fillDefaults
          rw [canonPNAttrs_append, canonPNAttrs_lits, canonPNAttrs_idem dflt attrs]]
      rw [fillDefaults_idem]
  | .coll _ attrs asserts => by simp [canonPN, canonPNAttrs_idem dflt attrs, canonPNList_idem dflt asserts]
  | .tuple attrs => by simp [canonPN, canonPNAttrs_idem dflt attrs]
  | .arith _ _ _ l r => by simp [canonPN, canonPN_idem dflt l, canonPN_idem dflt r]
  | .both x y => by simp [canonPN, canonPN_idem dflt x, canonPN_idem dflt y]
  | .modif _ _ x => by simp [canonPN, canonPN_idem dflt x]
  | .array _ attrs => by simp [canonPN, canonPNAttrs_idem dflt attrs]
  | .list _ items => by simp [canonPN, canonPNList_idem dflt items]
theorem canonPNAttrs_idem (dflt : String → List (String × Scal V)) : ∀ (attrs : List (String × PN V)),
    canonPNAttrs dflt (canonPNAttrs dflt attrs) = canonPNAttrs dflt attrs
  | [] => by simp [canonPNAttrs]
  | (k, n) :: rest => by simp [canonPNAttrs, canonPN_idem dflt n, canonPNAttrs_idem dflt rest]
theorem canonPNList_idem (dflt : String → List (String × Scal V)) : ∀ (l : List (PN V)),
    canonPNList dflt (canonPNList dflt l) = canonPNList dflt l
  | [] => by simp [canonPNList]
  | n :: rest => by simp [canonPNList, canonPN_idem dflt n, canonPNList_idem dflt rest]
end

mutual
theorem canonPN_rename (dflt : String → List (String × Scal V)) (σ : Nat → Nat) : ∀ (n : PN V),
    InjOn σ (pnLoadOrder n) → canonPN dflt (renamePN σ n) = renamePN σ (canonPN dflt n)
  | .prior _ _, _ => by simp [canonPN, renamePN]
  | .lit _, _ => by simp [canonPN, renamePN]
  | .model _ attrs asserts, h => by
      simp only [pnLoadOrder] at h
      simp [canonPN, renamePN,
        canonPNAttrs_rename dflt σ attrs (h.mono (fun i hi => List.mem_append.mpr (Or.inl hi))),
        canonPNList_rename dflt σ asserts (h.mono (fun i hi => List.mem_append.mpr (Or.inr hi)))]
  | .inst _ attrs, h => by
      simp only [pnLoadOrder] at h
      simp [canonPN, renamePN, canonPNAttrs_rename dflt σ attrs h, fillDefaults_rename]
  | .coll _ attrs asserts, h => by
      simp only [pnLoadOrder] at h
      simp [canonPN, renamePN,
        canonPNAttrs_rename dflt σ attrs (h.mono (fun i hi => List.mem_append.mpr (Or.inl hi))),
        canonPNList_rename dflt σ asserts (h.mono (fun i hi => List.mem_append.mpr (Or.inr hi)))]
  | .tuple attrs, h => by
      simp only [pnLoadOrder] at h
      simp [canonPN, renamePN, canonPNAttrs_rename dflt σ attrs h]
  | .arith _ _ _ l r, h => by
      simp only [pnLoadOrder] at h
      simp only [canonPN, renamePN]
      rw [canonPN_rename dflt σ l (h.mono (fun i hi => List.mem_append.mpr (Or.inl hi))),
        canonPN_rename dflt σ r (h.mono (fun i hi => List.mem_append.mpr (Or.inr hi)))]
      rw [reloadLeftName_rename]
      intro i j di dj hi hj he
      have hl := canonPN_prior dflt l i di hi
      have hr := canonPN_prior dflt r j dj hj
      exact h i (by rw [hl]; simp [pnLoadOrder]) j (by rw [hr]; simp [pnLoadOrder]) he
  | .both x y, h => by
      simp only [pnLoadOrder] at h
      simp [canonPN, renamePN,
        canonPN_rename dflt σ x (h.mono (fun i hi => List.mem_append.mpr (Or.inl hi))),
        canonPN_rename dflt σ y (h.mono (fun i hi => List.mem_append.mpr (Or.inr hi)))]
  | .modif _ _ x, h => by
      simp only [pnLoadOrder] at h
      simp [canonPN, renamePN, canonPN_rename dflt σ x h]
  | .array _ attrs, h => by
      simp only [pnLoadOrder] at h
      simp [canonPN, renamePN, canonPNAttrs_rename dflt σ attrs h]
  | .list _ items, h => by
      simp only [pnLoadOrder] at h
      simp [canonPN, renamePN, canonPNList_rename dflt σ items h]
theorem canonPNAttrs_rename (dflt : String → List (String × Scal V)) (σ : Nat → Nat) :
    ∀ (attrs : List (String × PN V)),
    InjOn σ (pnLoadOrderAttrs attrs) → canonPNAttrs dflt (renamePNAttrs σ attrs) = renamePNAttrs σ (canonPNAttrs dflt attrs)
  | [], _ => by simp [canonPNAttrs, renamePNAttrs]
  | (k, n) :: rest, h => by
    simp only [pnLoadOrderAttrs] at h
    simp [canonPNAttrs, renamePNAttrs,
      canonPN_rename dflt σ n (h.mono (fun i hi => List.mem_append.mpr (Or.inl hi))),
      canonPNAttrs_rename dflt σ rest (h.mono (fun i hi => List.mem_append.mpr (Or.inr hi)))]
theorem canonPNList_rename (dflt : String → List (String × Scal V)) (σ : Nat → Nat) :
    ∀ (l : List (PN V)),
    InjOn σ (pnLoadOrderList l) → canonPNList dflt (renamePNList σ l) = renamePNList σ (canonPNList dflt l)
  | [], _ => by simp [canonPNList, renamePNList]
  | n :: rest, h => by
    simp only [pnLoadOrderList] at h
    simp [canonPNList, renamePNList,
      canonPN_rename dflt σ n (h.mono (fun i hi => List.mem_append.mpr (Or.inl hi))),
      canonPNList_rename dflt σ rest (h.mono (fun i hi => List.mem_append.mpr (Or.inr hi)))]
end

end AF
