import AFProofs.Lemmas.MsgGB
import AFProofs.Lemmas.MsgReal
import Mathlib.Probability.Distributions.Gamma
import Mathlib.Probability.Distributions.Beta

/-! The real-number instance of the special functions of the Gamma / Beta part of `AF.Msg` and the two densities. -/

set_option linter.unusedSectionVars false

namespace AF.Msg

open Real ProbabilityTheory MeasureTheory

/-- the real functions behind `gammaln`, `log1p`, `**`, `abs`; on the reals `nan_to_num` is the identity;
`digamma`, `polygamma(1, ·)` and the constants of the starting guess are taken from an arbitrary `sp` -/
noncomputable def realSp (sp : Sp ℝ) : Sp ℝ :=
  { sp with
    lgamma := fun x => Real.log (Real.Gamma x)
    log1p := fun y => Real.log (1 + y)
    rpow := fun x y => x ^ y
    nanToNum := id
    nanToNum0 := id
    abs := fun x => |x| }

/-- `exp(logpdf x)` of `GammaMessage(α, β)` on its support is `β^α / Γ(α) · x^(α−1) · e^(−βx)` -/
theorem exp_logpdf_gamma_formula (sp0 : Fn ℝ) (sp : Sp ℝ) (a : Base ℝ) (hg : a.fam = .gamma) (hα : 0 < a.p1)
    (hβ : 0 < a.p2) (x : ℝ) (hx : 0 < x) :
    Real.exp (a.logpdfX (realFn sp0) (realSp sp) x) =
      a.p2 ^ a.p1 / Real.Gamma a.p1 * (x ^ (a.p1 - 1) * Real.exp (-(a.p2 * x))) := by
  obtain ⟨fam, al, be, ln, idn, lo, hi⟩ := a
  simp only at hg hα hβ; subst hg
  have hΓ : 0 < Real.Gamma al := Real.Gamma_pos_of_pos hα
  simp only [Base.logpdfX, Base.logpdfRaw, Base.natural, calcNatural, logPartitionGB, invertNatural, toCanonical,
    logBase, realFn, realSp, id_eq, sub_add_cancel, neg_neg]
  rw [Real.rpow_def_of_pos hβ, Real.rpow_def_of_pos hx]
  have e : (0 : ℝ) + ((al - 1) * Real.log x + -be * x) - (Real.log (Real.Gamma al) - al * Real.log be) =
      (Real.log be * al) + -(Real.log (Real.Gamma al)) + (Real.log x * (al - 1) + -(be * x)) := by ring
  rw [e, Real.exp_add, Real.exp_add, Real.exp_add, Real.exp_neg (Real.log _), Real.exp_log hΓ]
  ring

/-- … which is Mathlib's `gammaPDFReal α β` -/
theorem exp_logpdf_gamma (sp0 : Fn ℝ) (sp : Sp ℝ) (a : Base ℝ) (hg : a.fam = .gamma) (hα : 0 < a.p1)
    (hβ : 0 < a.p2) (x : ℝ) (hx : 0 < x) :
    Real.exp (a.logpdfX (realFn sp0) (realSp sp) x) = gammaPDFReal a.p1 a.p2 x := by
  rw [exp_logpdf_gamma_formula sp0 sp a hg hα hβ x hx, gammaPDFReal, if_pos hx.le]
  ring

/-- `exp(logpdf x)` of `BetaMessage(α, β)` on `(0, 1)` is Mathlib's `betaPDFReal α β` -/
theorem exp_logpdf_beta (sp0 : Fn ℝ) (sp : Sp ℝ) (a : Base ℝ) (hb : a.fam = .beta) (hα : 0 < a.p1)
    (hβ : 0 < a.p2) (x : ℝ) (hx0 : 0 < x) (hx1 : x < 1) :
    Real.exp (a.logpdfX (realFn sp0) (realSp sp) x) = betaPDFReal a.p1 a.p2 x := by
  obtain ⟨fam, al, be, ln, idn, lo, hi⟩ := a
  simp only at hb hα hβ; subst hb
  have h1 : 0 < Real.Gamma al := Real.Gamma_pos_of_pos hα
  have h2 : 0 < Real.Gamma be := Real.Gamma_pos_of_pos hβ
  have h3 : 0 < Real.Gamma (al + be) := Real.Gamma_pos_of_pos (add_pos hα hβ)
  have hx1' : 0 < 1 - x := by linarith
  simp only [Base.logpdfX, Base.logpdfRaw, Base.natural, calcNatural, logPartitionGB, invertNatural, toCanonical,
    logBase, realFn, realSp, id_eq, sub_add_cancel]
  rw [betaPDFReal, if_pos ⟨hx0, hx1⟩, ProbabilityTheory.beta, Real.rpow_def_of_pos hx0, Real.rpow_def_of_pos hx1']
  have e : (0 : ℝ) + ((al - 1) * Real.log x + (be - 1) * Real.log (1 + -x)) -
      (Real.log (Real.Gamma al) + Real.log (Real.Gamma be) - Real.log (Real.Gamma (al + be))) =
      -(Real.log (Real.Gamma al)) + -(Real.log (Real.Gamma be)) + Real.log (Real.Gamma (al + be)) +
        (Real.log x * (al - 1)) + (Real.log (1 - x) * (be - 1)) := by
    rw [show (1 : ℝ) + -x = 1 - x by ring]; ring
  rw [e, Real.exp_add, Real.exp_add, Real.exp_add, Real.exp_add, Real.exp_neg (Real.log _), Real.exp_neg (Real.log _),
    Real.exp_log h1, Real.exp_log h2, Real.exp_log h3]
  field_simp

end AF.Msg
