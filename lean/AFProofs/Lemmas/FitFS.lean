import AFModel.FitFS

/-! Helper lemmas for C06 (`AF.FitFS`): step lists, the invariant `safe`, Hoare-style triples for the
phases of `fit`. Core Lean only. -/

namespace AF.FitFS

/-! ## folders -/

@[simp] theorem Folder.set_same (fo : Folder) (f : File) (s : St) : (fo.set f s) f = s := by
  simp [Folder.set]

theorem Folder.set_other (fo : Folder) {f f' : File} (s : St) (h : f' ≠ f) : (fo.set f s) f' = fo f' := by
  simp [Folder.set, h]

@[simp] theorem Folder.empty_apply (f : File) : Folder.empty f = .absent := rfl

theorem mem_allFiles (f : File) : f ∈ allFiles := by
  cases f <;> simp [allFiles]

/-! ## step lists -/

@[simp] theorem applyAll_nil (fs : FS) : applyAll fs [] = fs := rfl

@[simp] theorem applyAll_cons (fs : FS) (s : Step) (l : List Step) :
    applyAll fs (s :: l) = applyAll (apply fs s) l := rfl

theorem applyAll_append (fs : FS) (l1 l2 : List Step) :
    applyAll fs (l1 ++ l2) = applyAll (applyAll fs l1) l2 := by
  induction l1 generalizing fs with
  | nil => rfl
  | cons s l ih => simp [ih]

/-- the last crash state is the state after all steps -/
theorem final_mem_crashStates (fs : FS) (l : List Step) : applyAll fs l ∈ crashStates fs l := by
  induction l generalizing fs with
  | nil => simp [crashStates]
  | cons s l ih =>
    simp only [crashStates, applyAll_cons, List.mem_cons, List.mem_append]
    exact Or.inr (Or.inr (ih _))

theorem start_mem_crashStates (fs : FS) (l : List Step) : fs ∈ crashStates fs l := by
  cases l <;> simp [crashStates]

/-- crash states of a concatenation -/
theorem mem_crashStates_append {fs : FS} {l1 l2 : List Step} {c : FS} :
    c ∈ crashStates fs (l1 ++ l2) ↔ c ∈ crashStates fs l1 ∨ c ∈ crashStates (applyAll fs l1) l2 := by
  induction l1 generalizing fs with
  | nil =>
    simp only [List.nil_append, crashStates, List.mem_singleton, applyAll_nil]
    constructor
    · intro h; exact Or.inr h
    · rintro (h | h)
      · subst h; exact start_mem_crashStates _ _
      · exact h
  | cons s l ih =>
    simp only [List.cons_append, crashStates, List.mem_cons, List.mem_append, applyAll_cons, ih]
    constructor
    · rintro (h | h | h | h)
      · exact Or.inl (Or.inl h)
      · exact Or.inl (Or.inr (Or.inl h))
      · exact Or.inl (Or.inr (Or.inr h))
      · exact Or.inr h
    · rintro ((h | h | h) | h)
      · exact Or.inl h
      · exact Or.inr (Or.inl h)
      · exact Or.inr (Or.inr (Or.inl h))
      · exact Or.inr (Or.inr (Or.inr h))

/-! ## permitted steps

`StepOK st fs s`: executing `s` in `fs`, or dying inside it, keeps the state safe and keeps whatever
completed result the state holds. -/

def StepOK (st : Settings) (fs : FS) (s : Step) : Prop :=
  (safe st (apply fs s) = true ∧ ∀ c, crashIn fs s = some c → safe st c = true) ∧
  (∀ r, completedResult fs = some r →
    completedResult (apply fs s) = some r ∧ ∀ c, crashIn fs s = some c → completedResult c = some r)

def Allowed (st : Settings) : FS → List Step → Prop
  | _, [] => True
  | fs, s :: l => StepOK st fs s ∧ Allowed st (apply fs s) l

theorem Allowed.append {st : Settings} {fs : FS} {l1 l2 : List Step} :
    Allowed st fs (l1 ++ l2) ↔ Allowed st fs l1 ∧ Allowed st (applyAll fs l1) l2 := by
  induction l1 generalizing fs with
  | nil => simp [Allowed]
  | cons s l ih => simp [Allowed, ih, and_assoc]

theorem allowed_crash_safe {st : Settings} {fs : FS} {l : List Step}
    (hs : safe st fs = true) (ha : Allowed st fs l) : ∀ c ∈ crashStates fs l, safe st c = true := by
  induction l generalizing fs with
  | nil => intro c hc; simp [crashStates] at hc; subst hc; exact hs
  | cons s l ih =>
    intro c hc
    obtain ⟨⟨⟨h1, h2⟩, _⟩, hl⟩ := ha
    simp only [crashStates, List.mem_cons, List.mem_append, Option.mem_toList] at hc
    rcases hc with hc | hc | hc
    · subst hc; exact hs
    · exact h2 c hc
    · exact ih h1 hl c hc

theorem allowed_crash_completed {st : Settings} {fs : FS} {l : List Step} {r : View}
    (hr : completedResult fs = some r) (ha : Allowed st fs l) :
    ∀ c ∈ crashStates fs l, completedResult c = some r := by
  induction l generalizing fs with
  | nil => intro c hc; simp [crashStates] at hc; subst hc; exact hr
  | cons s l ih =>
    intro c hc
    obtain ⟨⟨_, h3⟩, hl⟩ := ha
    obtain ⟨h1, h2⟩ := h3 r hr
    simp only [crashStates, List.mem_cons, List.mem_append, Option.mem_toList] at hc
    rcases hc with hc | hc | hc
    · subst hc; exact hr
    · exact h2 c hc
    · exact ih h1 hl c hc

/-! ## the invariant as a proposition -/

structure Good (st : Settings) (fo : Folder) : Prop where
  summary : fo .summary ≠ .torn
  info : fo .info ≠ .torn
  internal : fo .internal ≠ .torn
  save : fo .save ≠ .torn
  start : fo .start ≠ .torn
  time : fo .time ≠ .torn
  samples : fo .samples = .torn → st.samplesCsv = true ∧ fo .marker = .absent
  marked : fo .marker ≠ .absent → (fo .summary).isFull = true

theorem goodFolder_iff {st : Settings} {fo : Folder} : goodFolder st fo = true ↔ Good st fo := by
  constructor
  · intro h
    simp only [goodFolder, Bool.and_eq_true, Bool.or_eq_true, bne_iff_ne, ne_eq, beq_iff_eq] at h
    obtain ⟨⟨⟨⟨⟨⟨⟨h1, h2⟩, h3⟩, h4⟩, h5⟩, h6⟩, h7⟩, h8⟩ := h
    refine ⟨h1, h2, h3, h4, h5, h6, ?_, ?_⟩
    · intro ht; rcases h7 with h7 | h7
      · exact absurd ht h7
      · exact h7
    · intro hm; rcases h8 with h8 | h8
      · exact absurd h8 hm
      · exact h8
  · intro ⟨h1, h2, h3, h4, h5, h6, h7, h8⟩
    simp only [goodFolder, Bool.and_eq_true, Bool.or_eq_true, bne_iff_ne, ne_eq, beq_iff_eq]
    refine ⟨⟨⟨⟨⟨⟨⟨h1, h2⟩, h3⟩, h4⟩, h5⟩, h6⟩, ?_⟩, ?_⟩
    · by_cases ht : fo .samples = .torn
      · exact Or.inr (h7 ht)
      · exact Or.inl ht
    · by_cases hm : fo .marker = .absent
      · exact Or.inl hm
      · exact Or.inr (h8 hm)

theorem safe_absent {st : Settings} {fs : FS} (hz : fs.zip = .absent) :
    safe st fs = true ↔ Good st fs.folder := by
  simp [safe, hz, goodFolder_iff]

theorem safe_full {st : Settings} {fs : FS} {c : Folder} (hz : fs.zip = .full c) :
    safe st fs = true ↔ Good st c := by
  simp [safe, hz, goodFolder_iff]

/-- files that are no part of the result -/
def File.aux : File → Bool
  | .internal | .save | .start | .time => true
  | _ => false

theorem folderResult_set_aux {fo : Folder} {f : File} (s : St) (h : f.aux = true) :
    folderResult (fo.set f s) = folderResult fo := by
  cases f <;> simp [File.aux] at h <;> simp [folderResult, readResult, Folder.set]

theorem readResult_set_aux {fo : Folder} {f : File} (s : St) (h : f.aux = true) :
    readResult (fo.set f s) = readResult fo := by
  cases f <;> simp [File.aux] at h <;> simp [readResult, Folder.set]

theorem Good.set_aux {st : Settings} {fo : Folder} {f : File} {s : St} (hg : Good st fo)
    (h : f.aux = true) (hs : s ≠ .torn) : Good st (fo.set f s) := by
  obtain ⟨h1, h2, h3, h4, h5, h6, h7, h8⟩ := hg
  cases f <;> simp [File.aux] at h <;> constructor <;> simp_all [Folder.set]

/-- while the folder is not marked any file but the marker may be rewritten: atomically, or (the
samples table, when it is switched on) in place -/
theorem Good.set_unmarked {st : Settings} {fo : Folder} {f : File} {s : St} (hg : Good st fo)
    (hm : fo .marker = .absent) (hf : f ≠ .marker)
    (hs : s ≠ .torn ∨ (f = .samples ∧ st.samplesCsv = true)) : Good st (fo.set f s) := by
  obtain ⟨h1, h2, h3, h4, h5, h6, h7, h8⟩ := hg
  cases f <;> constructor <;> simp_all [Folder.set]
  intro h; rcases hs with hs | hs
  · exact absurd h hs
  · exact hs

theorem folderResult_unmarked {fo : Folder} (hm : fo .marker = .absent) : folderResult fo = none := by
  simp [folderResult, hm]

/-! ## single steps -/

theorem stepOK_put_absent {st : Settings} {fs : FS} {f : File} {s : St} {a : Bool}
    (hz : fs.zip = .absent) (hg : Good st (fs.folder.set f s))
    (ht : a = false → Good st (fs.folder.set f .torn))
    (hr : ∀ r, folderResult fs.folder = some r →
      folderResult (fs.folder.set f s) = some r ∧ (a = false → folderResult (fs.folder.set f .torn) = some r)) :
    StepOK st fs (.put f s a) := by
  refine ⟨⟨?_, ?_⟩, ?_⟩
  · simpa [apply, safe, hz, goodFolder_iff] using hg
  · intro c hc
    cases a with
    | true => simp [crashIn] at hc
    | false =>
      simp only [crashIn, Option.some.injEq] at hc
      subst hc
      simpa [safe, hz, goodFolder_iff] using ht rfl
  · intro r hcr
    simp only [completedResult, hz] at hcr
    obtain ⟨h1, h2⟩ := hr r hcr
    refine ⟨by simpa [apply, completedResult, hz] using h1, ?_⟩
    intro c hc
    cases a with
    | true => simp [crashIn] at hc
    | false =>
      simp only [crashIn, Option.some.injEq] at hc
      subst hc
      simpa [completedResult, hz] using h2 rfl

theorem stepOK_remove_absent {st : Settings} {fs : FS} {f : File}
    (hz : fs.zip = .absent) (hg : Good st (fs.folder.set f .absent))
    (hr : ∀ r, folderResult fs.folder = some r → folderResult (fs.folder.set f .absent) = some r) :
    StepOK st fs (.remove f) := by
  refine ⟨⟨?_, ?_⟩, ?_⟩
  · simpa [apply, safe, hz, goodFolder_iff] using hg
  · intro c hc; simp [crashIn] at hc
  · intro r hcr
    simp only [completedResult, hz] at hcr
    refine ⟨by simpa [apply, completedResult, hz] using hr r hcr, ?_⟩
    intro c hc; simp [crashIn] at hc

theorem stepOK_sample {st : Settings} {fs : FS} (hs : safe st fs = true) : StepOK st fs .sample := by
  refine ⟨⟨?_, ?_⟩, ?_⟩
  · simpa [apply, safe] using hs
  · intro c hc; simp [crashIn] at hc
  · intro r hcr
    refine ⟨by simpa [apply, completedResult] using hcr, ?_⟩
    intro c hc; simp [crashIn] at hc

theorem stepOK_other {st : Settings} {fs : FS} (t : String) (hs : safe st fs = true) :
    StepOK st fs (.other t) := by
  refine ⟨⟨?_, ?_⟩, ?_⟩
  · simpa [apply] using hs
  · intro c hc; simp [crashIn] at hc
  · intro r hcr
    refine ⟨by simpa [apply] using hcr, ?_⟩
    intro c hc; simp [crashIn] at hc

/-- archiving a good folder -/
theorem stepOK_zipClose {st : Settings} {fs : FS} (hz : fs.zip = .absent) (hg : Good st fs.folder) :
    StepOK st fs .zipClose := by
  refine ⟨⟨?_, ?_⟩, ?_⟩
  · simpa [apply, safe, goodFolder_iff] using hg
  · intro c hc; simp [crashIn] at hc
  · intro r hcr
    simp only [completedResult, hz] at hcr
    refine ⟨by simpa [apply, completedResult] using hcr, ?_⟩
    intro c hc; simp [crashIn] at hc

/-- removing the archive once the folder holds exactly its content -/
theorem stepOK_zipRemove {st : Settings} {fs : FS} {c : Folder} (hz : fs.zip = .full c)
    (hf : fs.folder = c) (hg : Good st c) : StepOK st fs .zipRemove := by
  refine ⟨⟨?_, ?_⟩, ?_⟩
  · simpa [apply, safe, goodFolder_iff, hf] using hg
  · intro c hc; simp [crashIn] at hc
  · intro r hcr
    simp only [completedResult, hz] at hcr
    refine ⟨by simpa [apply, completedResult, hf] using hcr, ?_⟩
    intro c hc; simp [crashIn] at hc

/-! ## beside a complete archive the folder may be taken apart and rebuilt -/

def Step.folderOnly : Step → Bool
  | .put _ _ _ | .remove _ | .sample | .other _ => true
  | _ => false

theorem apply_zip_folderOnly {fs : FS} {s : Step} (h : s.folderOnly = true) : (apply fs s).zip = fs.zip := by
  cases s <;> simp [Step.folderOnly] at h <;> rfl

theorem stepOK_zipfull {st : Settings} {fs : FS} {c : Folder} {s : Step} (hz : fs.zip = .full c)
    (hg : Good st c) (h : s.folderOnly = true) : StepOK st fs s := by
  have hz' : (apply fs s).zip = .full c := by rw [apply_zip_folderOnly h, hz]
  refine ⟨⟨?_, ?_⟩, ?_⟩
  · simpa [safe, hz', goodFolder_iff] using hg
  · intro d hd
    cases s <;> simp [Step.folderOnly] at h <;> simp [crashIn] at hd
    rename_i f s a
    cases a <;> simp at hd
    subst hd
    simpa [safe, hz, goodFolder_iff] using hg
  · intro r hcr
    simp only [completedResult, hz] at hcr
    refine ⟨by simpa [completedResult, hz'] using hcr, ?_⟩
    intro d hd
    cases s <;> simp [Step.folderOnly] at h <;> simp [crashIn] at hd
    rename_i f s a
    cases a <;> simp at hd
    subst hd
    simpa [completedResult, hz] using hcr

theorem allowed_zipfull {st : Settings} {c : Folder} (hg : Good st c) :
    ∀ (l : List Step) (fs : FS), fs.zip = .full c → (∀ s ∈ l, s.folderOnly = true) →
      Allowed st fs l ∧ (applyAll fs l).zip = .full c
  | [], fs, hz, _ => ⟨trivial, hz⟩
  | s :: l, fs, hz, hl => by
    have hs : s.folderOnly = true := hl s (List.mem_cons_self ..)
    have hz' : (apply fs s).zip = .full c := by rw [apply_zip_folderOnly hs, hz]
    obtain ⟨h1, h2⟩ := allowed_zipfull hg l (apply fs s) hz' (fun t ht => hl t (List.mem_cons_of_mem _ ht))
    exact ⟨⟨stepOK_zipfull hz hg hs, h1⟩, h2⟩

/-! ## phases -/

/-- no archive, not marked complete, folder good: the state in which a fit is sampled -/
def Unmarked (st : Settings) (fs : FS) : Prop :=
  fs.zip = .absent ∧ fs.folder .marker = .absent ∧ Good st fs.folder

theorem Unmarked.safe {st : Settings} {fs : FS} (h : Unmarked st fs) : safe st fs = true :=
  (safe_absent h.1).2 h.2.2

/-- what may happen while the folder is unmarked -/
def Step.unmarkedOK (st : Settings) : Step → Bool
  | .put f s a => f != .marker && s != .torn && (a || (f == .samples && st.samplesCsv))
  | .remove f => f != .marker
  | .sample => true
  | .other _ => true
  | _ => false

theorem stepOK_unmarked {st : Settings} {fs : FS} {s : Step} (hu : Unmarked st fs)
    (h : s.unmarkedOK st = true) : StepOK st fs s ∧ Unmarked st (apply fs s) := by
  obtain ⟨hz, hm, hg⟩ := hu
  cases s with
  | put f s a =>
    simp only [Step.unmarkedOK, Bool.and_eq_true, bne_iff_ne, ne_eq, Bool.or_eq_true, beq_iff_eq] at h
    obtain ⟨⟨hf, hs⟩, ha⟩ := h
    have hg' : Good st (fs.folder.set f s) := hg.set_unmarked hm hf (Or.inl hs)
    refine ⟨stepOK_put_absent hz hg' ?_ ?_, hz, ?_, hg'⟩
    · intro haf
      refine hg.set_unmarked hm hf (Or.inr ?_)
      rcases ha with ha | ha
      · simp [haf] at ha
      · exact ha
    · intro r hr; rw [folderResult_unmarked hm] at hr; cases hr
    · simp [apply, Folder.set_other _ _ (Ne.symm hf), hm]
  | remove f =>
    simp only [Step.unmarkedOK, bne_iff_ne, ne_eq] at h
    have hg' : Good st (fs.folder.set f .absent) := hg.set_unmarked hm h (Or.inl (by simp))
    refine ⟨stepOK_remove_absent hz hg' ?_, hz, ?_, hg'⟩
    · intro r hr; rw [folderResult_unmarked hm] at hr; cases hr
    · simp [apply, Folder.set_other _ _ (Ne.symm h), hm]
  | sample => exact ⟨stepOK_sample ((safe_absent hz).2 hg), hz, hm, hg⟩
  | other t => exact ⟨stepOK_other t ((safe_absent hz).2 hg), hz, hm, hg⟩
  | zipOpen => simp [Step.unmarkedOK] at h
  | zipClose => simp [Step.unmarkedOK] at h
  | zipRemove => simp [Step.unmarkedOK] at h

theorem allowed_unmarked {st : Settings} :
    ∀ (l : List Step) (fs : FS), Unmarked st fs → (∀ s ∈ l, s.unmarkedOK st = true) →
      Allowed st fs l ∧ Unmarked st (applyAll fs l)
  | [], _, hu, _ => ⟨trivial, hu⟩
  | s :: l, fs, hu, hl => by
    obtain ⟨h1, h2⟩ := stepOK_unmarked hu (hl s (List.mem_cons_self ..))
    obtain ⟨h3, h4⟩ := allowed_unmarked l (apply fs s) h2 (fun t ht => hl t (List.mem_cons_of_mem _ ht))
    exact ⟨⟨h1, h3⟩, h4⟩

/-- no archive, marked complete, folder good, holding result `r` -/
def Marked (st : Settings) (r : View) (fs : FS) : Prop :=
  fs.zip = .absent ∧ fs.folder .marker ≠ .absent ∧ Good st fs.folder ∧ readResult fs.folder = .ok r

theorem Marked.folderResult {st : Settings} {r : View} {fs : FS} (h : Marked st r fs) :
    folderResult fs.folder = some r := by
  simp [AF.FitFS.folderResult, h.2.1, h.2.2.2]

theorem Marked.safe {st : Settings} {r : View} {fs : FS} (h : Marked st r fs) : safe st fs = true :=
  (safe_absent h.1).2 h.2.2.1

theorem Marked.completed {st : Settings} {r : View} {fs : FS} (h : Marked st r fs) :
    completedResult fs = some r := by
  simp [completedResult, h.1, h.folderResult]

/-- what may happen to a marked folder: only files that are no part of the result, atomically -/
def Step.markedOK : Step → Bool
  | .put f s a => f.aux && s != .torn && a
  | .remove f => f.aux
  | .other _ => true
  | _ => false

theorem stepOK_marked {st : Settings} {r : View} {fs : FS} {s : Step} (hm : Marked st r fs)
    (h : s.markedOK = true) : StepOK st fs s ∧ Marked st r (apply fs s) := by
  obtain ⟨hz, hmk, hg, hr⟩ := hm
  cases s with
  | put f s a =>
    simp only [Step.markedOK, Bool.and_eq_true, bne_iff_ne, ne_eq] at h
    obtain ⟨⟨hf, hs⟩, ha⟩ := h
    subst ha
    have hfm : f ≠ .marker := by intro h'; subst h'; simp [File.aux] at hf
    refine ⟨stepOK_put_absent hz (hg.set_aux hf hs) (by simp) ?_, hz, ?_, hg.set_aux hf hs, ?_⟩
    · intro r' hr'; rw [folderResult_set_aux _ hf]; exact ⟨hr', by simp⟩
    · simpa [apply, Folder.set_other _ _ (Ne.symm hfm)] using hmk
    · simpa [apply, readResult_set_aux _ hf] using hr
  | remove f =>
    simp only [Step.markedOK] at h
    have hfm : f ≠ .marker := by intro h'; subst h'; simp [File.aux] at h
    refine ⟨stepOK_remove_absent hz (hg.set_aux h (by simp)) ?_, hz, ?_, hg.set_aux h (by simp), ?_⟩
    · intro r' hr'; rw [folderResult_set_aux _ h]; exact hr'
    · simpa [apply, Folder.set_other _ _ (Ne.symm hfm)] using hmk
    · simpa [apply, readResult_set_aux _ h] using hr
  | other t => exact ⟨stepOK_other t ((safe_absent hz).2 hg), hz, hmk, hg, hr⟩
  | sample => simp [Step.markedOK] at h
  | zipOpen => simp [Step.markedOK] at h
  | zipClose => simp [Step.markedOK] at h
  | zipRemove => simp [Step.markedOK] at h

theorem allowed_marked {st : Settings} {r : View} :
    ∀ (l : List Step) (fs : FS), Marked st r fs → (∀ s ∈ l, s.markedOK = true) →
      Allowed st fs l ∧ Marked st r (applyAll fs l)
  | [], _, hu, _ => ⟨trivial, hu⟩
  | s :: l, fs, hu, hl => by
    obtain ⟨h1, h2⟩ := stepOK_marked hu (hl s (List.mem_cons_self ..))
    obtain ⟨h3, h4⟩ := allowed_marked l (apply fs s) h2 (fun t ht => hl t (List.mem_cons_of_mem _ ht))
    exact ⟨⟨h1, h3⟩, h4⟩

/-- a complete archive of a good folder holding `r` -/
def Zipped (st : Settings) (r : View) (fs : FS) : Prop :=
  ∃ c, fs.zip = .full c ∧ Good st c ∧ folderResult c = some r

theorem Zipped.safe {st : Settings} {r : View} {fs : FS} (h : Zipped st r fs) : safe st fs = true := by
  obtain ⟨c, hz, hg, _⟩ := h
  exact (safe_full hz).2 hg

theorem Zipped.completed {st : Settings} {r : View} {fs : FS} (h : Zipped st r fs) :
    completedResult fs = some r := by
  obtain ⟨c, hz, _, hr⟩ := h
  simp [completedResult, hz, hr]

/-! ## what the step lists of `fit` consist of -/

theorem rmList_folderOnly (l : List File) : ∀ s ∈ rmList l, s.folderOnly = true := by
  intro s hs
  simp only [rmList, List.mem_map] at hs
  obtain ⟨f, _, rfl⟩ := hs
  rfl

theorem rmFolder_folderOnly : ∀ s ∈ rmFolder, s.folderOnly = true := by
  intro s hs
  simp only [rmFolder, List.mem_append, List.mem_singleton] at hs
  rcases hs with hs | rfl
  · exact rmList_folderOnly _ s hs
  · rfl

theorem extractList_folderOnly (c : Folder) : ∀ (l : List File), ∀ s ∈ extractList c l, s.folderOnly = true
  | [], s, hs => by simp [extractList] at hs
  | f :: l, s, hs => by
    simp only [extractList, List.mem_append] at hs
    rcases hs with hs | hs
    · split at hs
      · simp at hs
      · simp only [List.mem_singleton] at hs; subst hs; rfl
    · exact extractList_folderOnly c l s hs

theorem extract_folderOnly (c : Folder) : ∀ s ∈ extract c, s.folderOnly = true := by
  intro s hs
  simp only [extract, List.mem_cons] at hs
  rcases hs with rfl | hs
  · rfl
  · exact extractList_folderOnly c _ s hs

/-- state after removing a list of files -/
theorem applyAll_rmList (l : List File) (fs : FS) :
    applyAll fs (rmList l) =
      { fs with folder := fun f => if f ∈ l then .absent else fs.folder f } := by
  induction l generalizing fs with
  | nil => simp [rmList]
  | cons g l ih =>
    have : rmList (g :: l) = Step.remove g :: rmList l := rfl
    rw [this, applyAll_cons, ih]
    simp only [apply]
    congr 1
    funext f
    by_cases hf : f ∈ l
    · simp [hf]
    · by_cases hg : f = g
      · simp [hg, Folder.set]
      · simp [hf, hg, Folder.set]

/-- state after extracting a list of files of content `c` -/
theorem applyAll_extractList (c : Folder) (l : List File) (fs : FS) :
    applyAll fs (extractList c l) =
      { fs with folder := fun f => if f ∈ l ∧ c f ≠ .absent then c f else fs.folder f } := by
  induction l generalizing fs with
  | nil => simp [extractList]
  | cons g l ih =>
    simp only [extractList, applyAll_append, ih]
    by_cases hc : c g = .absent
    · simp only [hc, if_true, applyAll_nil]
      congr 1
      funext f
      by_cases hg : f = g
      · subst hg; simp [hc]
      · simp [hg]
    · simp only [hc, if_false, applyAll_cons, applyAll_nil, apply]
      congr 1
      funext f
      by_cases hg : f = g
      · subst hg
        by_cases hf : f ∈ l <;> simp [hf, hc, Folder.set]
      · simp [hg, Folder.set]

/-- `rmtree` followed by `extractall` leaves exactly the archived content -/
theorem applyAll_rm_extract (c : Folder) (fs : FS) :
    applyAll fs (rmFolder ++ extract c) = { fs with folder := c } := by
  simp only [rmFolder, extract, applyAll_append, applyAll_cons, applyAll_nil, apply, applyAll_rmList,
    applyAll_extractList]
  congr 1
  funext f
  by_cases hc : c f = .absent <;> simp [mem_allFiles, hc]

/-! ## restore -/

theorem restore_full {cfg : Cfg} {st : Settings} {fs : FS} {c : Folder} (hz : fs.zip = .full c)
    (hg : Good st c) :
    restore cfg fs = (rmFolder ++ extract c ++ [.zipRemove], none) ∧
    Allowed st fs (rmFolder ++ extract c ++ [.zipRemove]) ∧
    applyAll fs (rmFolder ++ extract c ++ [.zipRemove]) = ⟨c, .absent, fs.clock⟩ := by
  refine ⟨by simp [restore, hz], ?_, ?_⟩
  · rw [Allowed.append]
    have hmem : ∀ s ∈ rmFolder ++ extract c, s.folderOnly = true := by
      intro s hs
      rcases List.mem_append.1 hs with h | h
      · exact rmFolder_folderOnly s h
      · exact extract_folderOnly c s h
    obtain ⟨h1, h2⟩ := allowed_zipfull hg _ fs hz hmem
    refine ⟨h1, ?_, trivial⟩
    rw [applyAll_rm_extract] at h2 ⊢
    exact stepOK_zipRemove h2 rfl hg
  · rw [applyAll_append, applyAll_rm_extract]
    simp [apply]

/-! ## sampling -/

theorem round_unmarkedOK {cfg : Cfg} (st : Settings) (g : Nat) (ha : cfg.atomicWrites = true) :
    ∀ s ∈ round cfg st g, s.unmarkedOK st = true := by
  intro s hs
  simp only [round, List.mem_cons, List.mem_nil_iff, or_false] at hs
  rcases hs with rfl | rfl
  · rfl
  · cases hse : st.search <;> simp [Step.unmarkedOK, ckptFile, ckptAtomic, ha]

theorem update_unmarkedOK {cfg : Cfg} (st : Settings) (g : Nat) (ha : cfg.atomicWrites = true) :
    ∀ s ∈ update cfg st g, s.unmarkedOK st = true := by
  intro s hs
  cases hc : st.samplesCsv <;>
    simp only [update, updateFiles, hc, List.mem_append, List.mem_cons, List.mem_nil_iff, or_false,
      if_true, if_false, Bool.false_eq_true] at hs
  · rcases hs with (rfl | rfl) | rfl <;> simp [Step.unmarkedOK, ha]
  · rcases hs with ((rfl | rfl) | (rfl | rfl)) | rfl <;> simp [Step.unmarkedOK, ha, hc]

theorem during_unmarkedOK {cfg : Cfg} (st : Settings) (ha : cfg.atomicWrites = true) :
    ∀ (k g : Nat), ∀ s ∈ during cfg st g k, s.unmarkedOK st = true
  | 0, _, s, hs => by simp [during] at hs
  | k + 1, g, s, hs => by
    simp only [during, List.mem_append] at hs
    rcases hs with (hs | hs) | hs
    · exact round_unmarkedOK st g ha s hs
    · exact update_unmarkedOK st g ha s hs
    · exact during_unmarkedOK st ha k (g + 1) s hs

/-- what the final update leaves: a complete summary, and a readable samples table -/
theorem update_result {cfg : Cfg} {st : Settings} {fs : FS} (g : Nat) :
    let fs' := applyAll fs (update cfg st g)
    fs'.folder .summary = .full g ∧
    (st.samplesCsv = true → fs'.folder .samples = .full g ∧ fs'.folder .info = .full g) ∧
    (st.samplesCsv = false → fs'.folder .samples = fs.folder .samples ∧ fs'.folder .info = fs.folder .info) := by
  cases hc : st.samplesCsv <;>
    simp [update, updateFiles, hc, apply, Folder.set]

theorem readResult_set_marker (fo : Folder) (s : St) : readResult (fo.set .marker s) = readResult fo := by
  simp [readResult, Folder.set]

theorem readResult_ok_of {fo : Folder} (h1 : (fo .summary).isFull = true) (h2 : fo .samples ≠ .torn)
    (h3 : fo .info ≠ .torn) : ∃ r, readResult fo = .ok r := by
  unfold readResult
  cases hs : fo .summary <;> simp [hs, St.isFull] at h1 ⊢
  cases hm : fo .samples <;> simp [hm] at h2 ⊢
  cases hi : fo .info <;> simp [hi] at h3 ⊢

/-- marking a folder whose summary is complete -/
theorem stepOK_mark {st : Settings} {fs : FS} {r : View} (hu : Unmarked st fs)
    (h1 : (fs.folder .summary).isFull = true) (h2 : fs.folder .samples ≠ .torn)
    (hr : readResult fs.folder = .ok r) :
    StepOK st fs (.put .marker (.full 0) true) ∧ Marked st r (apply fs (.put .marker (.full 0) true)) := by
  obtain ⟨hz, hm, hg⟩ := hu
  have hg' : Good st (fs.folder.set .marker (.full 0)) := by
    obtain ⟨g1, g2, g3, g4, g5, g6, g7, g8⟩ := hg
    constructor <;> simp_all [Folder.set]
  refine ⟨stepOK_put_absent hz hg' (by simp) ?_, hz, by simp [apply], hg', ?_⟩
  · intro r' hr'; rw [folderResult_unmarked hm] at hr'; cases hr'
  · simpa [apply, readResult_set_marker] using hr

/-! ## after the marker -/

theorem zipIt_marked {cfg : Cfg} {st : Settings} {r : View} {fs : FS} (hz : cfg.zipAtomic = true)
    (hm : Marked st r fs) :
    Allowed st fs (zipIt cfg st) ∧ Zipped st r (applyAll fs (zipIt cfg st)) := by
  have hsafe := hm.safe
  have h1 : StepOK st fs (.other "zip.tmp") := stepOK_other _ hsafe
  have h2 : StepOK st fs .zipClose := stepOK_zipClose hm.1 hm.2.2.1
  have hzip : (apply fs .zipClose).zip = .full fs.folder := rfl
  simp only [zipIt, hz, if_true]
  rw [Allowed.append, applyAll_append]
  simp only [Allowed, apply, applyAll_cons, applyAll_nil, and_true]
  refine ⟨⟨⟨h1, h2⟩, ?_⟩, ?_⟩
  · cases st.removeFiles
    · simp [Allowed]
    · exact (allowed_zipfull hm.2.2.1 rmFolder _ hzip rmFolder_folderOnly).1
  · cases st.removeFiles
    · exact ⟨fs.folder, rfl, hm.2.2.1, hm.folderResult⟩
    · exact ⟨fs.folder, (allowed_zipfull hm.2.2.1 rmFolder _ hzip rmFolder_folderOnly).2, hm.2.2.1,
        hm.folderResult⟩

theorem rmAux_markedOK : ∀ s ∈ rmList [.internal, .save, .start, .time] ++ [Step.other "rmdir-internal"],
    s.markedOK = true := by
  intro s hs
  simp [rmList] at hs
  rcases hs with rfl | rfl | rfl | rfl | rfl <;> rfl

/-- `post_fit_output` on a marked folder: no exception, every step permitted, ends archived -/
theorem postFit_marked {cfg : Cfg} {st : Settings} {r : View} {fs : FS} (hz : cfg.zipAtomic = true)
    (ha : cfg.atomicWrites = true) (hm : Marked st r fs) :
    ∃ l, postFit cfg st fs.folder = (l, none) ∧ Allowed st fs l ∧ Zipped st r (applyAll fs l) := by
  cases hk : st.keepInternal
  · refine ⟨rmList [.internal, .save, .start, .time] ++ [Step.other "rmdir-internal"] ++ zipIt cfg st,
      by simp [postFit, hk], ?_⟩
    obtain ⟨h1, h2⟩ := allowed_marked _ fs hm rmAux_markedOK
    obtain ⟨h3, h4⟩ := zipIt_marked (cfg := cfg) hz h2
    rw [Allowed.append, applyAll_append]
    exact ⟨⟨h1, h3⟩, h4⟩
  · have hi : fs.folder .internal ≠ .torn := hm.2.2.1.internal
    have hpf : postFit cfg st fs.folder = (Step.put .internal (.full 0) cfg.atomicWrites :: zipIt cfg st, none) := by
      unfold postFit
      cases hx : fs.folder .internal <;> simp_all
    refine ⟨_, hpf, ?_⟩
    have hok : (Step.put .internal (.full 0) cfg.atomicWrites).markedOK = true := by
      simp [Step.markedOK, File.aux, ha]
    obtain ⟨h1, h2⟩ := stepOK_marked hm hok
    obtain ⟨h3, h4⟩ := zipIt_marked (cfg := cfg) hz h2
    exact ⟨⟨h1, h3⟩, h4⟩

/-! ## no sampling outside the sampling phase -/

theorem sampled_append (l1 l2 : List Step) : sampled (l1 ++ l2) = (sampled l1 || sampled l2) := by
  simp [sampled, List.any_append]

theorem sampled_rmList (l : List File) : sampled (rmList l) = false := by
  induction l with
  | nil => rfl
  | cons f l ih => simp [sampled, rmList]

theorem sampled_rmFolder : sampled rmFolder = false := by
  rw [rmFolder, sampled_append, sampled_rmList]; rfl

theorem sampled_extractList (c : Folder) (l : List File) : sampled (extractList c l) = false := by
  induction l with
  | nil => rfl
  | cons f l ih =>
    rw [extractList, sampled_append, ih, Bool.or_false]
    split <;> rfl

theorem sampled_extract (c : Folder) : sampled (extract c) = false := by
  have h : extract c = [Step.other "mkdir"] ++ extractList c allFiles := rfl
  rw [h, sampled_append, sampled_extractList]; rfl

theorem sampled_zipIt (cfg : Cfg) (st : Settings) : sampled (zipIt cfg st) = false := by
  rw [zipIt, sampled_append]
  cases cfg.zipAtomic <;> cases st.removeFiles <;> simp only [if_true, if_false, Bool.false_eq_true] <;>
    first
      | rfl
      | (rw [sampled_rmFolder]; rfl)

theorem sampled_postFit (cfg : Cfg) (st : Settings) (fo : Folder) : sampled (postFit cfg st fo).1 = false := by
  unfold postFit
  cases st.keepInternal
  · simp only [Bool.false_eq_true, if_false]
    rw [sampled_append, sampled_append, sampled_rmList, sampled_zipIt]; rfl
  · simp only [if_true]
    have hcons : ∀ (s : Step) (l : List Step), sampled (s :: l) = (sampled [s] || sampled l) := by
      intro s l; exact sampled_append [s] l
    cases fo .internal
    · simp only; rw [hcons, sampled_zipIt]; rfl
    · rfl
    · simp only; rw [hcons, sampled_zipIt]; rfl

/-- `finish` from a marked state -/
theorem finish_marked {cfg : Cfg} {st : Settings} {r : View} {fs : FS} (before : List Step)
    (hz : cfg.zipAtomic = true) (ha : cfg.atomicWrites = true) (hm : Marked st r fs) :
    ∃ l, finish cfg st before fs.folder = ⟨before ++ l, .ok r⟩ ∧ Allowed st fs l ∧
      Zipped st r (applyAll fs l) ∧ sampled l = false := by
  obtain ⟨l, h1, h2, h3⟩ := postFit_marked hz ha hm
  refine ⟨l, by simp [finish, hm.2.2.2, h1], h2, h3, ?_⟩
  have := sampled_postFit cfg st fs.folder
  rw [h1] at this
  exact this

/-! ## the repairs as propositions -/

structure Sound (cfg : Cfg) (st : Settings) : Prop where
  zip : cfg.zipAtomic = true
  writes : cfg.atomicWrites = true
  check : cfg.fomCheckSound = true ∨ st.fomIsLikelihood = true
  lbfgs : cfg.lbfgsResumes = true ∨ st.search ≠ .lbfgs

theorem sound_iff {cfg : Cfg} {st : Settings} : cfg.sound st = true ↔ Sound cfg st := by
  simp only [Cfg.sound, Bool.and_eq_true, Bool.or_eq_true, bne_iff_ne, ne_eq]
  constructor
  · rintro ⟨⟨⟨h1, h2⟩, h3⟩, h4⟩; exact ⟨h1, h2, h3, h4⟩
  · rintro ⟨h1, h2, h3, h4⟩; exact ⟨⟨⟨h1, h2⟩, h3⟩, h4⟩

/-! ## the two paths of `fit` after `restore` -/

theorem timerStart_good {cfg : Cfg} {st : Settings} {fo : Folder} (ha : cfg.atomicWrites = true)
    (hg : Good st fo) :
    ∃ l, timerStart cfg fo = (l, none) ∧ (∀ s ∈ l, s.unmarkedOK st = true) ∧ sampled l = false := by
  unfold timerStart
  cases h : fo .start with
  | absent => exact ⟨_, rfl, by simp [Step.unmarkedOK, ha], rfl⟩
  | torn => exact absurd h hg.start
  | full g => exact ⟨[], rfl, by simp, rfl⟩

theorem likelihoodCheck_good {cfg : Cfg} {st : Settings} {fo : Folder} (hs : Sound cfg st)
    (hg : Good st fo) : likelihoodCheck cfg st fo = none := by
  unfold likelihoodCheck
  cases h : fo .summary with
  | absent => rfl
  | torn => exact absurd h hg.summary
  | full g => rcases hs.check with h' | h' <;> simp [h']

theorem checkpoint_good {cfg : Cfg} {st : Settings} {fo : Folder} (hs : Sound cfg st)
    (hg : Good st fo) : checkpoint cfg st fo = none := by
  unfold checkpoint
  cases hse : st.search with
  | drawer => rfl
  | lbfgs =>
    cases h : fo .internal with
    | absent => rfl
    | torn => exact absurd h hg.internal
    | full g =>
      rcases hs.lbfgs with h' | h'
      · simp [h']
      · exact absurd hse h'
  | dynesty =>
    cases h : fo .save with
    | absent => rfl
    | torn => exact absurd h hg.save
    | full g => rfl

theorem sampled_round (cfg : Cfg) (st : Settings) (g : Nat) : sampled (round cfg st g) = true := rfl

/-- a fit that is not marked complete is sampled, marked and archived -/
theorem resumePath_unmarked {cfg : Cfg} {st : Settings} (n : Nat) {fs : FS} (hs : Sound cfg st)
    (hu : Unmarked st fs) :
    ∃ l r, resumePath cfg st n fs = ⟨l, .ok r⟩ ∧ Allowed st fs l ∧ Zipped st r (applyAll fs l) ∧
      sampled l = true := by
  obtain ⟨sT, hT, hTok, _⟩ := timerStart_good (cfg := cfg) hs.writes hu.2.2
  have hL := likelihoodCheck_good hs hu.2.2
  have hC := checkpoint_good hs hu.2.2
  have hD : ¬(st.search = .drawer ∧ fs.folder .time = .torn) := fun h => hu.2.2.time h.2
  let g0 := fs.clock + 1
  let k := rounds st n
  -- everything before the final update
  obtain ⟨A, hAeq⟩ : ∃ A : List Step, A = [Step.other "prefit"] ++ sT ++ during cfg st g0 k ++
      round cfg st (g0 + k) ++ (if st.search = .dynesty then [Step.remove .save] else []) := ⟨_, rfl⟩
  have hAok : ∀ s ∈ A, s.unmarkedOK st = true := by
    intro s hsA
    rw [hAeq] at hsA
    simp only [List.mem_append] at hsA
    rcases hsA with (((h | h) | h) | h) | h
    · simp only [List.mem_singleton] at h; subst h; rfl
    · exact hTok s h
    · exact during_unmarkedOK st hs.writes _ _ s h
    · exact round_unmarkedOK st _ hs.writes s h
    · split at h
      · simp only [List.mem_singleton] at h; subst h; rfl
      · simp at h
  have hsteps : [Step.other "prefit"] ++ sT ++ sampling cfg st n g0 =
      A ++ update cfg st (g0 + k) ++ [Step.put .marker (.full 0) true] := by
    rw [hAeq]
    simp only [sampling, k, List.append_assoc]
  obtain ⟨hA1, hA2⟩ := allowed_unmarked A fs hu hAok
  obtain ⟨hB1, hB2⟩ := allowed_unmarked (update cfg st (g0 + k)) _ hA2 (update_unmarkedOK st _ hs.writes)
  obtain ⟨u1, u2, u3⟩ := update_result (cfg := cfg) (st := st) (fs := applyAll fs A) (g0 + k)
  -- the folder after the final update can be read
  have hfull : ((applyAll (applyAll fs A) (update cfg st (g0 + k))).folder .summary).isFull = true := by
    rw [u1]; rfl
  have hsam : (applyAll (applyAll fs A) (update cfg st (g0 + k))).folder .samples ≠ .torn := by
    cases hc : st.samplesCsv
    · rw [(u3 hc).1]
      intro ht
      have := (hA2.2.2.samples ht).1
      simp [hc] at this
    · rw [(u2 hc).1]; simp
  obtain ⟨r, hr⟩ := readResult_ok_of hfull hsam hB2.2.2.info
  obtain ⟨hM1, hM2⟩ := stepOK_mark hB2 hfull hsam hr
  -- the state in which `finish` runs
  have hstate : applyAll fs ([Step.other "prefit"] ++ sT ++ sampling cfg st n g0) =
      apply (applyAll (applyAll fs A) (update cfg st (g0 + k))) (.put .marker (.full 0) true) := by
    rw [hsteps, applyAll_append, applyAll_append]; rfl
  obtain ⟨l, hf1, hf2, hf3, hf4⟩ := finish_marked (cfg := cfg)
    ([Step.other "prefit"] ++ sT ++ sampling cfg st n g0) hs.zip hs.writes hM2
  refine ⟨[Step.other "prefit"] ++ sT ++ sampling cfg st n g0 ++ l, r, ?_, ?_, ?_, ?_⟩
  · simp only [resumePath, hT, hL, hC, hD, if_false]
    rw [hstate]
    exact hf1
  · rw [Allowed.append, hstate]
    refine ⟨?_, hf2⟩
    rw [hsteps, Allowed.append, Allowed.append]
    refine ⟨⟨hA1, hB1⟩, ?_⟩
    rw [applyAll_append]
    exact ⟨hM1, trivial⟩
  · rw [applyAll_append, hstate]; exact hf3
  · rw [hsteps, hAeq]
    simp only [sampled_append, sampled_round, Bool.or_true, Bool.true_or]

/-- a fit that is marked complete is not sampled: its result is read back and archived again -/
theorem completedPath_marked {cfg : Cfg} {st : Settings} {fs : FS} {r : View} (hs : Sound cfg st)
    (hm : Marked st r fs) :
    ∃ l, completedPath cfg st fs = ⟨l, .ok r⟩ ∧ Allowed st fs l ∧ Zipped st r (applyAll fs l) ∧
      sampled l = false := by
  obtain ⟨l, h1, h2, h3, h4⟩ := finish_marked (cfg := cfg) [] hs.zip hs.writes hm
  exact ⟨l, by simpa [completedPath] using h1, h2, h3, h4⟩

/-! ## one call of `fit` from a safe state -/

/-- what a marked good folder holds can be read -/
theorem Good.marked_result {st : Settings} {fo : Folder} (hg : Good st fo) (hm : fo .marker ≠ .absent) :
    ∃ r, readResult fo = .ok r := by
  refine readResult_ok_of (hg.marked hm) ?_ hg.info
  intro ht
  exact hm (hg.samples ht).2

/-- what `fit` does after `restore` -/
def mainPath (cfg : Cfg) (st : Settings) (n : Nat) (fs : FS) : Run :=
  if fs.folder .marker = .absent then resumePath cfg st n fs else completedPath cfg st fs

theorem run_of_restore {cfg : Cfg} {st : Settings} {n : Nat} {fs : FS} {s : List Step}
    (h : restore cfg fs = (s, none)) :
    run cfg st n fs =
      ⟨s ++ (mainPath cfg st n (applyAll fs s)).steps, (mainPath cfg st n (applyAll fs s)).outcome⟩ := by
  unfold run
  rw [h]
  rfl

theorem afterRestore {cfg : Cfg} {st : Settings} (n : Nat) {fs : FS} (hs : Sound cfg st)
    (hz : fs.zip = .absent) (hg : Good st fs.folder) :
    ∃ l r, mainPath cfg st n fs = ⟨l, .ok r⟩ ∧
      Allowed st fs l ∧ Zipped st r (applyAll fs l) ∧
      (∀ r0, folderResult fs.folder = some r0 → r = r0 ∧ sampled l = false) ∧
      (folderResult fs.folder = none → sampled l = true) := by
  by_cases hm : fs.folder .marker = .absent
  · obtain ⟨l, r, h1, h2, h3, h4⟩ := resumePath_unmarked (cfg := cfg) n hs ⟨hz, hm, hg⟩
    refine ⟨l, r, by simp [mainPath, hm, h1], h2, h3, ?_, fun _ => h4⟩
    intro r0 hr0
    rw [folderResult_unmarked hm] at hr0
    cases hr0
  · obtain ⟨r, hr⟩ := hg.marked_result hm
    have hM : Marked st r fs := ⟨hz, hm, hg, hr⟩
    obtain ⟨l, h1, h2, h3, h4⟩ := completedPath_marked (cfg := cfg) hs hM
    refine ⟨l, r, by simp [mainPath, hm, h1], h2, h3, ?_, ?_⟩
    · intro r0 hr0
      rw [hM.folderResult] at hr0
      exact ⟨(Option.some.inj hr0), h4⟩
    · intro hnone
      rw [hM.folderResult] at hnone
      cases hnone

/-- **main lemma**: from a safe state one call of `fit` raises nothing, performs only permitted steps,
ends with its result archived; if a completed result was held it is the one returned, without sampling -/
theorem run_safe {cfg : Cfg} {st : Settings} (n : Nat) {fs : FS} (hs : Sound cfg st)
    (hsafe : safe st fs = true) :
    ∃ l r, run cfg st n fs = ⟨l, .ok r⟩ ∧ Allowed st fs l ∧ Zipped st r (applyAll fs l) ∧
      (∀ r0, completedResult fs = some r0 → r = r0 ∧ sampled l = false) ∧
      (completedResult fs = none → sampled l = true) := by
  cases hz : fs.zip with
  | absent =>
    have hg : Good st fs.folder := (safe_absent hz).1 hsafe
    obtain ⟨l, r, h1, h2, h3, h4, h5⟩ := afterRestore (cfg := cfg) n hs hz hg
    refine ⟨l, r, ?_, h2, h3, ?_, ?_⟩
    · have hr : restore cfg fs = ([], none) := by simp [restore, hz]
      rw [run_of_restore hr, applyAll_nil, h1]
      rfl
    · simpa [completedResult, hz] using h4
    · simpa [completedResult, hz] using h5
  | torn => simp [safe, hz] at hsafe
  | full c =>
    have hg : Good st c := (safe_full hz).1 hsafe
    obtain ⟨hr1, hr2, hr3⟩ := restore_full (cfg := cfg) hz hg
    have hz1 : (⟨c, .absent, fs.clock⟩ : FS).zip = .absent := rfl
    obtain ⟨l, r, h1, h2, h3, h4, h5⟩ := afterRestore (cfg := cfg) (fs := ⟨c, .absent, fs.clock⟩) n hs hz1 hg
    refine ⟨rmFolder ++ extract c ++ [.zipRemove] ++ l, r, ?_, ?_, ?_, ?_, ?_⟩
    · rw [run_of_restore hr1, hr3, h1]
    · rw [Allowed.append, hr3]; exact ⟨hr2, h2⟩
    · rw [applyAll_append, hr3]; exact h3
    · intro r0 hr0
      simp only [completedResult, hz] at hr0
      obtain ⟨e1, e2⟩ := h4 r0 hr0
      refine ⟨e1, ?_⟩
      rw [sampled_append, sampled_append, sampled_append, sampled_rmFolder, sampled_extract, e2]
      rfl
    · intro hnone
      simp only [completedResult, hz] at hnone
      rw [sampled_append, h5 hnone, Bool.or_true]

/-! ## histories -/

/-- whatever an event does, the next state is one of the crash states of the call (the last one if
the call is not killed) -/
theorem stepEvent_mem {cfg : Cfg} {st : Settings} (fs : FS) (e : Event) :
    stepEvent cfg st fs e ∈ crashStates fs (run cfg st e.n fs).steps := by
  unfold stepEvent
  cases hk : e.kill with
  | none => exact final_mem_crashStates _ _
  | some k =>
    simp only
    cases hget : (crashStates fs (run cfg st e.n fs).steps)[k]? with
    | none => simpa [Run.final] using final_mem_crashStates _ _
    | some c => simpa using List.mem_of_getElem? hget


end AF.FitFS
