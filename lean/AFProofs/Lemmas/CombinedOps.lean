import AFModel.CombinedOps
import AFProofs.Lemmas.Combined

/-! Helper lemmas for C15, operand structure (`AFModel/CombinedOps.lean`). -/

namespace AF.Combined
open AF

/-! ### order of `combined.analyses` -/

theorem build_isLeaf {α : Type} : ∀ (e : Expr α), e.isLeaf = false → ∃ as, build e = .comb as
  | .leaf _, h => by simp [Expr.isLeaf] at h
  | .add l r, _ => by
    simp only [build]
    cases build l <;> cases build r <;> simp [plus]

theorem build_leaf_of_isLeaf {α : Type} : ∀ (e : Expr α), e.isLeaf = true → ∃ a, build e = .single a ∧ e.leaves = [a]
  | .leaf a, _ => ⟨a, rfl, rfl⟩
  | .add _ _, h => by simp [Expr.isLeaf] at h

/-- `plus` concatenates unless a single analysis meets a sum on its right -/
theorem plus_toList_inOrder {α : Type} (x y : Built α)
    (h : (∃ as, x = .comb as) ∨ (∃ b, y = .single b)) :
    (plus x y).toList = x.toList ++ y.toList := by
  cases x <;> cases y <;> simp_all [plus, Built.toList]

theorem flatten_of_inOrder {α : Type} : ∀ (e : Expr α), inOrder e = true → flatten e = e.leaves
  | .leaf a, _ => by simp [flatten, build, Built.toList, Expr.leaves]
  | .add l r, h => by
    simp only [inOrder, Bool.and_eq_true, Bool.or_eq_true, Bool.not_eq_eq_eq_not, Bool.not_true] at h
    obtain ⟨⟨hl, hr⟩, hs⟩ := h
    have il := flatten_of_inOrder l hl
    have ir := flatten_of_inOrder r hr
    simp only [flatten] at il ir ⊢
    simp only [build, Expr.leaves]
    rw [plus_toList_inOrder, il, ir]
    cases hs with
    | inl h1 => exact .inl (build_isLeaf l h1)
    | inr h2 =>
      obtain ⟨b, hb, _⟩ := build_leaf_of_isLeaf r h2
      exact .inr ⟨b, hb⟩

theorem flatten_length {α : Type} (e : Expr α) : (flatten e).length = e.leaves.length :=
  (built_perm e).length_eq

theorem leaves_ne_nil {α : Type} : ∀ (e : Expr α), e.leaves ≠ []
  | .leaf a => by simp [Expr.leaves]
  | .add l r => by simp [Expr.leaves, leaves_ne_nil l]

/-- the converse, when the analyses are pairwise different -/
theorem inOrder_of_flatten {α : Type} : ∀ (e : Expr α), e.leaves.Nodup → flatten e = e.leaves →
    inOrder e = true
  | .leaf a, _, _ => rfl
  | .add l r, hn, h => by
    simp only [Expr.leaves] at hn
    have hnl := (List.nodup_append.mp hn).1
    have hnr := (List.nodup_append.mp hn).2.1
    have hdis := (List.nodup_append.mp hn).2.2
    simp only [flatten, build, Expr.leaves] at h
    cases hil : l.isLeaf with
    | true =>
      cases hir : r.isLeaf with
      | true =>
        obtain ⟨a, _, _⟩ := build_leaf_of_isLeaf l hil
        obtain ⟨b, _, _⟩ := build_leaf_of_isLeaf r hir
        cases l <;> cases r <;> simp_all [inOrder, Expr.isLeaf]
      | false =>
        -- `a + (sum)`: the analyses of the sum come first, `a` last: not the written order
        exfalso
        obtain ⟨a, hba, hla⟩ := build_leaf_of_isLeaf l hil
        obtain ⟨bs, hbs⟩ := build_isLeaf r hir
        have hp := built_perm r
        rw [hbs] at hp
        simp only [Built.toList] at hp
        rw [hba, hbs, hla] at h
        simp only [plus, Built.toList] at h
        have hne : bs ≠ [] := by
          intro h0
          have := hp.length_eq
          rw [h0] at this
          exact leaves_ne_nil r (List.eq_nil_of_length_eq_zero this.symm)
        cases bs with
        | nil => exact hne rfl
        | cons b bs' =>
          simp only [List.cons_append, List.cons.injEq] at h
          have hb : b ∈ r.leaves := hp.subset (List.mem_cons_self ..)
          rw [hla] at hdis
          exact hdis a (by simp) b hb h.1.symm
    | false =>
      obtain ⟨as, has⟩ := build_isLeaf l hil
      have hcat : (plus (build l) (build r)).toList = (build l).toList ++ (build r).toList :=
        plus_toList_inOrder _ _ (.inl ⟨as, has⟩)
      rw [hcat] at h
      have hlen : (build l).toList.length = l.leaves.length := (built_perm l).length_eq
      have := List.append_inj h hlen
      have il := inOrder_of_flatten l hnl this.1
      have ir := inOrder_of_flatten r hnr this.2
      simp [inOrder, il, ir, hil]

theorem normalize_isLeaf {α : Type} (e : Expr α) : (normalize e).isLeaf = e.isLeaf := by
  cases e with
  | leaf a => rfl
  | add l r =>
    simp only [normalize]
    split <;> rfl

theorem normalize_inOrder {α : Type} : ∀ (e : Expr α), inOrder (normalize e) = true
  | .leaf a => rfl
  | .add l r => by
    have hl := normalize_inOrder l
    have hr := normalize_inOrder r
    simp only [normalize]
    split
    · rename_i h
      simp only [Bool.and_eq_true, Bool.not_eq_eq_eq_not, Bool.not_true] at h
      simp [inOrder, hl, hr, normalize_isLeaf, h.1, h.2]
    · rename_i h
      simp only [Bool.and_eq_true, Bool.not_eq_eq_eq_not, Bool.not_true, not_and, Bool.not_eq_false] at h
      simp only [inOrder, hl, hr, normalize_isLeaf, Bool.and_self, Bool.true_and, Bool.or_eq_true,
        Bool.not_eq_eq_eq_not, Bool.not_true]
      cases hil : l.isLeaf with
      | true => exact .inr (h hil)
      | false => exact .inl rfl

theorem build_normalize {α : Type} : ∀ (e : Expr α), build (normalize e) = build e
  | .leaf a => rfl
  | .add l r => by
    have hl := build_normalize l
    have hr := build_normalize r
    simp only [normalize]
    split
    · rename_i h
      simp only [Bool.and_eq_true, Bool.not_eq_eq_eq_not, Bool.not_true] at h
      obtain ⟨a, ha, _⟩ := build_leaf_of_isLeaf l h.1
      obtain ⟨bs, hbs⟩ := build_isLeaf r h.2
      simp [build, hl, hr, ha, hbs, plus]
    · simp [build, hl, hr]

/-! ### `with_free_parameters` at any position -/

theorem mergeFree_isSome (x y : Option (List Nat)) :
    (mergeFree x y).isSome = (x.isSome || y.isSome) := by
  cases x <;> cases y <;> rfl

/-- the flattened list of the declarations in force -/
def liveIds {α φ : Type} (expand : List φ → List Nat) (e : FExpr α φ) : List Nat :=
  (e.live.map expand).flatten

theorem declared_append {φ : Type} (expand : List φ → List Nat) (a b : List (List φ)) :
    (if (a ++ b).isEmpty then none else some ((a ++ b).map expand).flatten) =
      mergeFree (if a.isEmpty then none else some (a.map expand).flatten)
        (if b.isEmpty then none else some (b.map expand).flatten) := by
  cases a <;> cases b <;> simp [mergeFree]

theorem declaredFree_add {α φ : Type} (expand : List φ → List Nat) (l r : FExpr α φ) :
    declaredFree expand (.add l r) = mergeFree (declaredFree expand l) (declaredFree expand r) := by
  simp only [declaredFree, FExpr.live]
  exact declared_append expand l.live r.live

/-- the repaired `+`, `with_free_parameters` only applied to sums: evaluation never raises, the
analyses held are those of the expression without the declarations, and the free parameters are the
declarations in force -/
theorem buildF_spec {α φ : Type} (cfg : OpsCfg) (hc : cfg.freeSurvivesAdd = true)
    (expand : List φ → List Nat) : ∀ (e : FExpr α φ), e.wellFormed = true →
    ∃ x, buildF cfg expand e = .ok x ∧ x.b = build e.erase ∧ x.free = declaredFree expand e
  | .leaf a, _ => ⟨{ b := .single a }, rfl, rfl, rfl⟩
  | .add l r, h => by
    simp only [FExpr.wellFormed, Bool.and_eq_true] at h
    obtain ⟨x, hx, hxb, hxf⟩ := buildF_spec cfg hc expand l h.1
    obtain ⟨y, hy, hyb, hyf⟩ := buildF_spec cfg hc expand r h.2
    refine ⟨{ b := plus x.b y.b, free := mergeFree x.free y.free }, ?_, ?_, ?_⟩
    · simp [buildF, hx, hy, plusF, hc]
    · simp [FExpr.erase, build, hxb, hyb]
    · simp [declaredFree_add, hxf, hyf]
  | .free args e, h => by
    simp only [FExpr.wellFormed, Bool.and_eq_true, Bool.not_eq_eq_eq_not, Bool.not_true] at h
    obtain ⟨x, hx, hxb, _⟩ := buildF_spec cfg hc expand e h.1
    obtain ⟨as, has⟩ := build_isLeaf e.erase h.2
    refine ⟨{ b := .comb as, free := some (expand args) }, ?_, ?_, ?_⟩
    · simp [buildF, hx, withFree, hxb, has]
    · simp [FExpr.erase, has]
    · simp [declaredFree, FExpr.live]

end AF.Combined
