import AFModel.DictJson
import AFProofs.Lemmas.DictForm

/-! The reader of the actual dictionary form applied to what the writer wrote is an injective
renaming of the composition - assertions, descriptors, constants and relations included (C08). -/

namespace AF

variable {V : Type}

/-! ### lists of attributes -/

theorem renamePNAttrs_append (σ : Nat → Nat) : ∀ (a b : List (String × PN V)),
    renamePNAttrs σ (a ++ b) = renamePNAttrs σ a ++ renamePNAttrs σ b
  | [], b => by simp [renamePNAttrs]
  | (k, n) :: a, b => by simp [renamePNAttrs, renamePNAttrs_append σ a b]

theorem renamePNAttrs_lits (σ : Nat → Nat) : ∀ (ds : List (String × Scal V)),
    renamePNAttrs σ (ds.map (fun kd => (kd.1, PN.lit kd.2))) = ds.map (fun kd => (kd.1, PN.lit kd.2))
  | [] => by simp [renamePNAttrs]
  | d :: ds => by simp [renamePNAttrs, renamePN, renamePNAttrs_lits σ ds]

theorem any_key_renamePNAttrs (σ : Nat → Nat) (k : String) : ∀ (a : List (String × PN V)),
    (renamePNAttrs σ a).any (fun kv => kv.1 == k) = a.any (fun kv => kv.1 == k)
  | [] => by simp [renamePNAttrs]
  | (k', n) :: a => by simp [renamePNAttrs, any_key_renamePNAttrs σ k a]

theorem fillDefaults_rename (σ : Nat → Nat) (ds : List (String × Scal V)) (a : List (String × PN V)) :
    fillDefaults ds (renamePNAttrs σ a) = renamePNAttrs σ (fillDefaults ds a) := by
  unfold fillDefaults
  rw [renamePNAttrs_append, renamePNAttrs_lits]
  congr 2
  apply List.filter_congr
  intro kd _
  rw [any_key_renamePNAttrs]

theorem pnLoadOrderAttrs_append : ∀ (a b : List (String × PN V)),
    pnLoadOrderAttrs (a ++ b) = pnLoadOrderAttrs a ++ pnLoadOrderAttrs b
  | [], b => by simp [pnLoadOrderAttrs]
  | (k, n) :: a, b => by simp [pnLoadOrderAttrs, pnLoadOrderAttrs_append a b]

theorem pnLoadOrderAttrs_lits : ∀ (ds : List (String × Scal V)),
    pnLoadOrderAttrs (ds.map (fun kd => (kd.1, PN.lit kd.2))) = []
  | [] => by simp [pnLoadOrderAttrs]
  | d :: ds => by simp [pnLoadOrderAttrs, pnLoadOrder, pnLoadOrderAttrs_lits ds]

theorem pnLoadOrderAttrs_fillDefaults (ds : List (String × Scal V)) (a : List (String × PN V)) :
    pnLoadOrderAttrs (fillDefaults ds a) = pnLoadOrderAttrs a := by
  unfold fillDefaults
  rw [pnLoadOrderAttrs_append, pnLoadOrderAttrs_lits, List.append_nil]

/-! ### renaming depends only on the ids that occur -/

mutual
theorem renamePN_congr (σ τ : Nat → Nat) : ∀ (n : PN V),
    (∀ id ∈ pnLoadOrder n, σ id = τ id) → renamePN σ n = renamePN τ n
  | .prior id _, h => by simp [renamePN, h id (by simp [pnLoadOrder])]
  | .lit _, _ => by simp [renamePN]
  | .model _ attrs asserts, h => by
      simp only [pnLoadOrder, List.mem_append] at h
      simp [renamePN, renamePNAttrs_congr σ τ attrs (fun id hi => h id (Or.inl hi)),
        renamePNList_congr σ τ asserts (fun id hi => h id (Or.inr hi))]
  | .inst _ attrs, h => by
      simp only [pnLoadOrder] at h
      simp [renamePN, renamePNAttrs_congr σ τ attrs h]
  | .coll _ attrs asserts, h => by
      simp only [pnLoadOrder, List.mem_append] at h
      simp [renamePN, renamePNAttrs_congr σ τ attrs (fun id hi => h id (Or.inl hi)),
        renamePNList_congr σ τ asserts (fun id hi => h id (Or.inr hi))]
  | .tuple attrs, h => by
      simp only [pnLoadOrder] at h
      simp [renamePN, renamePNAttrs_congr σ τ attrs h]
  | .arith _ _ _ l r, h => by
      simp only [pnLoadOrder, List.mem_append] at h
      simp [renamePN, renamePN_congr σ τ l (fun id hi => h id (Or.inl hi)),
        renamePN_congr σ τ r (fun id hi => h id (Or.inr hi))]
  | .both x y, h => by
      simp only [pnLoadOrder, List.mem_append] at h
      simp [renamePN, renamePN_congr σ τ x (fun id hi => h id (Or.inl hi)),
        renamePN_congr σ τ y (fun id hi => h id (Or.inr hi))]
  | .modif _ _ x, h => by
      simp only [pnLoadOrder] at h
      simp [renamePN, renamePN_congr σ τ x h]
  | .array _ attrs, h => by
      simp only [pnLoadOrder] at h
      simp [renamePN, renamePNAttrs_congr σ τ attrs h]
  | .list _ items, h => by
      simp only [pnLoadOrder] at h
      simp [renamePN, renamePNList_congr σ τ items h]
theorem renamePNAttrs_congr (σ τ : Nat → Nat) : ∀ (attrs : List (String × PN V)),
    (∀ id ∈ pnLoadOrderAttrs attrs, σ id = τ id) → renamePNAttrs σ attrs = renamePNAttrs τ attrs
  | [], _ => by simp [renamePNAttrs]
  | (k, n) :: rest, h => by
    simp only [pnLoadOrderAttrs, List.mem_append] at h
    simp [renamePNAttrs, renamePN_congr σ τ n (fun id hi => h id (Or.inl hi)),
      renamePNAttrs_congr σ τ rest (fun id hi => h id (Or.inr hi))]
theorem renamePNList_congr (σ τ : Nat → Nat) : ∀ (l : List (PN V)),
    (∀ id ∈ pnLoadOrderList l, σ id = τ id) → renamePNList σ l = renamePNList τ l
  | [], _ => by simp [renamePNList]
  | n :: rest, h => by
    simp only [pnLoadOrderList, List.mem_append] at h
    simp [renamePNList, renamePN_congr σ τ n (fun id hi => h id (Or.inl hi)),
      renamePNList_congr σ τ rest (fun id hi => h id (Or.inr hi))]
end

/-! ### the reload names do not change the ids met -/

mutual
theorem pnLoadOrder_canon (dflt : String → List (String × Scal V)) : ∀ (n : PN V),
    pnLoadOrder (canonPN dflt n) = pnLoadOrder n
  | .prior _ _ => by simp [canonPN]
  | .lit _ => by simp [canonPN]
  | .model _ attrs asserts => by
      simp [canonPN, pnLoadOrder, pnLoadOrderAttrs_canon dflt attrs, pnLoadOrderList_canon dflt asserts]
  | .inst _ attrs => by
      simp [canonPN, pnLoadOrder, pnLoadOrderAttrs_fillDefaults, pnLoadOrderAttrs_canon dflt attrs]
  | .coll _ attrs asserts => by
      simp [canonPN, pnLoadOrder, pnLoadOrderAttrs_canon dflt attrs, pnLoadOrderList_canon dflt asserts]
  | .tuple attrs => by simp [canonPN, pnLoadOrder, pnLoadOrderAttrs_canon dflt attrs]
  | .arith _ _ _ l r => by simp [canonPN, pnLoadOrder, pnLoadOrder_canon dflt l, pnLoadOrder_canon dflt r]
  | .both x y => by simp [canonPN, pnLoadOrder, pnLoadOrder_canon dflt x, pnLoadOrder_canon dflt y]
  | .modif _ _ x => by simp [canonPN, pnLoadOrder, pnLoadOrder_canon dflt x]
  | .array _ attrs => by simp [canonPN, pnLoadOrder, pnLoadOrderAttrs_canon dflt attrs]
  | .list _ items => by simp [canonPN, pnLoadOrder, pnLoadOrderList_canon dflt items]
theorem pnLoadOrderAttrs_canon (dflt : String → List (String × Scal V)) : ∀ (attrs : List (String × PN V)),
    pnLoadOrderAttrs (canonPNAttrs dflt attrs) = pnLoadOrderAttrs attrs
  | [] => by simp [canonPNAttrs]
  | (k, n) :: rest => by
    simp [canonPNAttrs, pnLoadOrderAttrs, pnLoadOrder_canon dflt n, pnLoadOrderAttrs_canon dflt rest]
theorem pnLoadOrderList_canon (dflt : String → List (String × Scal V)) : ∀ (l : List (PN V)),
    pnLoadOrderList (canonPNList dflt l) = pnLoadOrderList l
  | [] => by simp [canonPNList]
  | n :: rest => by
    simp [canonPNList, pnLoadOrderList, pnLoadOrder_canon dflt n, pnLoadOrderList_canon dflt rest]
end

/-! ### the left operand's name is invariant under an injective renaming -/

theorem samePN_rename (σ : Nat → Nat) (a b : PN V)
    (hinj : ∀ i j di dj, a = .prior i di → b = .prior j dj → σ i = σ j → i = j) :
    samePN (renamePN σ a) (renamePN σ b) = samePN a b := by
  cases a <;> cases b <;> simp [renamePN, samePN]
  rename_i i di j dj
  by_cases h : i = j
  · subst h; simp
  · have hne : σ i ≠ σ j := fun e => h (hinj i j di dj rfl rfl e)
    have h1 : (σ i == σ j) = false := by simpa using hne
    have h2 : (i == j) = false := by simpa using h
    rw [h1, h2]

theorem reloadLeftName_rename (σ : Nat → Nat) (a b : PN V)
    (hinj : ∀ i j di dj, a = .prior i di → b = .prior j dj → σ i = σ j → i = j) :
    reloadLeftName (renamePN σ a) (renamePN σ b) = reloadLeftName a b := by
  unfold reloadLeftName; rw [samePN_rename σ a b hinj]

theorem canonPN_prior (dflt : String → List (String × Scal V)) (n : PN V) (i : Nat) (d : PDesc V)
    (h : canonPN dflt n = .prior i d) : n = .prior i d := by
  cases n <;> simp [canonPN] at h ⊢
  exact h

/-- a renaming that is injective on the ids two operands hold keeps "same prior object" -/
theorem reloadLeftName_rename_of_lookup (s : LoadSt) (hs : s.Good) (a b : PN V)
    (ha : ∀ i ∈ pnLoadOrder a, ∃ k, s.lookup i = some k)
    (hb : ∀ i ∈ pnLoadOrder b, ∃ k, s.lookup i = some k) :
    reloadLeftName (renamePN (sigmaOf s) a) (renamePN (sigmaOf s) b) = reloadLeftName a b := by
  apply reloadLeftName_rename
  intro i j di dj hi hj he
  refine sigma_inj_of_good s hs i j (ha i ?_) (hb j ?_) he
  · rw [hi]; simp [pnLoadOrder]
  · rw [hj]; simp [pnLoadOrder]

/-! ### reader ∘ writer = renaming (state-passing form) -/

mutual
theorem fromDV_toDV (dflt : String → List (String × Scal V)) : ∀ (n : PN V) (s : LoadSt), s.Good →
    fromDV dflt (toDV n) s =
      (renamePN (sigmaOf (extend s (pnLoadOrder n))) (canonPN dflt n), extend s (pnLoadOrder n))
  | .prior id d, s, _ => by
      simp only [toDV, fromDV, pnLoadOrder, extend, canonPN, renamePN]
      have := loadPrior_lookup_self s id
      simp [sigmaOf, this]
  | .lit _, s, _ => by simp [toDV, fromDV, pnLoadOrder, extend, canonPN, renamePN]
  | .model cp attrs asserts, s, hs => by
      simp only [toDV, fromDV, pnLoadOrder, canonPN, renamePN]
      have hs₁ := good_extend (pnLoadOrderAttrs attrs) s hs
      rw [fromDVArgs_toDV dflt attrs s hs, fromDVList_toDV dflt asserts _ hs₁]
      simp only [extend_append]
      rw [renamePNAttrs_congr _ _ (canonPNAttrs dflt attrs)
        (fun id hi => sigma_stable s _ (pnLoadOrderList asserts) id (by rwa [pnLoadOrderAttrs_canon] at hi))]
  | .inst cp attrs, s, hs => by
      simp only [toDV, fromDV, pnLoadOrder, canonPN, renamePN]
      rw [fromDVArgs_toDV dflt attrs s hs, fillDefaults_rename]
  | .coll k attrs asserts, s, hs => by
      simp only [toDV, fromDV, pnLoadOrder, canonPN, renamePN]
      have hs₁ := good_extend (pnLoadOrderAttrs attrs) s hs
      rw [fromDVArgs_toDV dflt attrs s hs, fromDVList_toDV dflt asserts _ hs₁]
      simp only [extend_append]
      rw [renamePNAttrs_congr _ _ (canonPNAttrs dflt attrs)
        (fun id hi => sigma_stable s _ (pnLoadOrderList asserts) id (by rwa [pnLoadOrderAttrs_canon] at hi))]
  | .tuple attrs, s, hs => by
      simp only [toDV, fromDV, pnLoadOrder, canonPN, renamePN]
      rw [fromDVArgs_toDV dflt attrs s hs]
  | .array shape attrs, s, hs => by
      simp only [toDV, fromDV, pnLoadOrder, canonPN, renamePN]
      rw [fromDVArgs_toDV dflt attrs s hs]
  | .list tup items, s, hs => by
      simp only [toDV, fromDV, pnLoadOrder, canonPN, renamePN]
      rw [fromDVList_toDV dflt items s hs]
  | .modif mt name x, s, hs => by
      simp only [toDV, fromDV, pnLoadOrder, canonPN, renamePN]
      rw [fromDV_toDV dflt x s hs]
  | .both x y, s, hs => by
      simp only [toDV, fromDV, pnLoadOrder, canonPN, renamePN]
      have hs₁ := good_extend (pnLoadOrder x) s hs
      rw [fromDV_toDV dflt x s hs, fromDV_toDV dflt y _ hs₁]
      simp only [extend_append]
      rw [renamePN_congr _ _ (canonPN dflt x)
        (fun id hi => sigma_stable s _ (pnLoadOrder y) id (by rwa [pnLoadOrder_canon] at hi))]
  | .arith ct ln rn l r, s, hs => by
      simp only [toDV, fromDV, pnLoadOrder, canonPN, renamePN]
      have hs₁ := good_extend (pnLoadOrder l) s hs
      have hs₂ := good_extend (pnLoadOrder r) _ hs₁
      rw [fromDV_toDV dflt l s hs, fromDV_toDV dflt r _ hs₁]
      simp only [extend_append]
      rw [renamePN_congr _ _ (canonPN dflt l)
        (fun id hi => sigma_stable s _ (pnLoadOrder r) id (by rwa [pnLoadOrder_canon] at hi))]
      rw [reloadLeftName_rename_of_lookup _ hs₂]
      · intro i hi
        rw [pnLoadOrder_canon] at hi
        obtain ⟨k, hk⟩ := extend_lookup_mem (pnLoadOrder l) s i hi
        exact ⟨k, extend_lookup_stable _ _ i k hk⟩
      · intro i hi
        rw [pnLoadOrder_canon] at hi
        exact extend_lookup_mem (pnLoadOrder r) _ i hi
theorem fromDVArgs_toDV (dflt : String → List (String × Scal V)) : ∀ (attrs : List (String × PN V)) (s : LoadSt),
    s.Good →
    fromDVArgs dflt (toDVAttrs attrs) s =
      (renamePNAttrs (sigmaOf (extend s (pnLoadOrderAttrs attrs))) (canonPNAttrs dflt attrs),
       extend s (pnLoadOrderAttrs attrs))
  | [], s, _ => by simp [toDVAttrs, fromDVArgs, pnLoadOrderAttrs, extend, canonPNAttrs, renamePNAttrs]
  | (k, n) :: rest, s, hs => by
      simp only [toDVAttrs, fromDVArgs, pnLoadOrderAttrs, canonPNAttrs, renamePNAttrs]
      rw [fromDV_toDV dflt n s hs, fromDVArgs_toDV dflt rest _ (good_extend _ s hs)]
      simp only [extend_append]
      rw [renamePN_congr _ _ (canonPN dflt n)
        (fun id hi => sigma_stable s _ (pnLoadOrderAttrs rest) id (by rwa [pnLoadOrder_canon] at hi))]
theorem fromDVList_toDV (dflt : String → List (String × Scal V)) : ∀ (l : List (PN V)) (s : LoadSt),
    s.Good →
    fromDVList dflt (toDVList l) s =
      (renamePNList (sigmaOf (extend s (pnLoadOrderList l))) (canonPNList dflt l),
       extend s (pnLoadOrderList l))
  | [], s, _ => by simp [toDVList, fromDVList, pnLoadOrderList, extend, canonPNList, renamePNList]
  | n :: rest, s, hs => by
      simp only [toDVList, fromDVList, pnLoadOrderList, canonPNList, renamePNList]
      rw [fromDV_toDV dflt n s hs, fromDVList_toDV dflt rest _ (good_extend _ s hs)]
      simp only [extend_append]
      rw [renamePN_congr _ _ (canonPN dflt n)
        (fun id hi => sigma_stable s _ (pnLoadOrderList rest) id (by rwa [pnLoadOrder_canon] at hi))]
end

/-- `σ` never merges two of the ids in `l` -/
def InjOn (σ : Nat → Nat) (l : List Nat) : Prop := ∀ i ∈ l, ∀ j ∈ l, σ i = σ j → i = j

theorem InjOn.mono {σ : Nat → Nat} {l m : List Nat} (h : InjOn σ l) (hs : ∀ i ∈ m, i ∈ l) : InjOn σ m :=
  fun i hi j hj e => h i (hs i hi) j (hs j hj) e

/-- the id map of one dictionary reload started with the id counter at `base` -/
def rtSigma (t : PN V) (base : Nat) : Nat → Nat := sigmaOf (extend { next := base } (pnLoadOrder t))

theorem rtSigma_injOn (t : PN V) (base : Nat) : InjOn (rtSigma t base) (pnLoadOrder t) :=
  fun i hi j hj he => sigmaOf_injective _ _ (good_init base) i j hi hj he

theorem dictRT_eq (dflt : String → List (String × Scal V)) (t : PN V) (base : Nat) :
    dictRT dflt t base = renamePN (rtSigma t base) (canonPN dflt t) := by
  simp [dictRT, rtSigma, fromDV_toDV dflt t _ (good_init base)]

end AF
