import AFModel.PriorDbl
import AFProofs.Lemmas.Prior

/-!
Lemmas about doubles as data (`AFModel/PriorDbl.lean`) for `AFProofs/C02.lean`:

* `magVal_strictMono` – the exact value of a double is strictly increasing in its magnitude bits;
* `nearestBits_mono` – conversion of a fraction to the nearest double is non-decreasing in the numerator;
* `roundMag_mono`, `roundMag_le_inf`, `roundMag_finite` – CPython's `round(x, n)` on magnitude bits is
  non-decreasing, keeps non-NaN non-NaN, and never overflows;
* the order on `Dbl` (`le_def`, `le_trans`, `le_total`), `clampD_mem`, `clampD_mono`.
-/

namespace AF.Prior

/-! ### the integer rounding step, consequences of `divRoundHalfEven_mono/_exact` -/

theorem rhe_le_of_le_mul (a c d : Nat) (hd : 0 < d) (h : a ≤ c * d) : divRoundHalfEven a d ≤ c := by
  have := divRoundHalfEven_mono a (c * d) d hd h
  rwa [divRoundHalfEven_exact c d hd] at this

theorem rhe_ge_of_mul_le (a c d : Nat) (hd : 0 < d) (h : c * d ≤ a) : c ≤ divRoundHalfEven a d := by
  have := divRoundHalfEven_mono (c * d) a d hd h
  rwa [divRoundHalfEven_exact c d hd] at this

theorem rhe_zero (d : Nat) : divRoundHalfEven 0 d = 0 := by
  unfold divRoundHalfEven
  simp

/-! ### `Nat.log2` is monotone -/

theorem log2_mono (a b : Nat) (h : a ≤ b) : a.log2 ≤ b.log2 := by
  by_cases ha : a = 0
  · subst ha; simp
  · have hb : b ≠ 0 := by omega
    rw [Nat.le_log2 hb]
    exact Nat.le_trans (Nat.log2_self_le ha) h

/-! ### nearest double of a fraction -/

/-- the bits before the overflow test: `s * 2^52 + q` -/
def nbRaw (N den : Nat) : Nat :=
  ((N / den).log2 - 52) * 2 ^ 52 + divRoundHalfEven N (den * 2 ^ ((N / den).log2 - 52))

theorem nearestBits_eq (num den : Nat) (hden : den ≠ 0) :
    nearestBits num den
      = if nbRaw (num * 2 ^ 1074) den < infMag then nbRaw (num * 2 ^ 1074) den else infMag := by
  unfold nearestBits nbRaw
  rw [if_neg hden]

/-- significand bound: `q ≤ 2^53` -/
theorem nb_q_le (N den : Nat) (hden : 0 < den) :
    divRoundHalfEven N (den * 2 ^ ((N / den).log2 - 52)) ≤ 2 ^ 53 := by
  generalize hs : (N / den).log2 - 52 = s
  have hpos : 0 < den * 2 ^ s := Nat.mul_pos hden (Nat.two_pow_pos s)
  apply rhe_le_of_le_mul _ _ _ hpos
  have h1 : N / den < 2 ^ ((N / den).log2 + 1) := Nat.lt_log2_self
  have h2 : 2 ^ ((N / den).log2 + 1) ≤ 2 ^ (s + 53) :=
    Nat.pow_le_pow_right (by omega) (by omega)
  have h3 : N / den < 2 ^ (s + 53) := Nat.lt_of_lt_of_le h1 h2
  have h4 : N < 2 ^ (s + 53) * den := (Nat.div_lt_iff_lt_mul hden).mp h3
  have e : 2 ^ (s + 53) * den = 2 ^ 53 * (den * 2 ^ s) := by
    rw [Nat.pow_add]; ac_rfl
  omega

/-- significand bound in the normal range: `2^52 ≤ q` -/
theorem nb_q_ge (N den : Nat) (hden : 0 < den) (hs : 0 < (N / den).log2 - 52) :
    2 ^ 52 ≤ divRoundHalfEven N (den * 2 ^ ((N / den).log2 - 52)) := by
  generalize hs' : (N / den).log2 - 52 = s at hs ⊢
  have hpos : 0 < den * 2 ^ s := Nat.mul_pos hden (Nat.two_pow_pos s)
  apply rhe_ge_of_mul_le _ _ _ hpos
  have ht : N / den ≠ 0 := by
    intro h0
    rw [h0] at hs'
    simp at hs'
    omega
  have h1 : 2 ^ (N / den).log2 ≤ N / den := Nat.log2_self_le ht
  have e1 : (N / den).log2 = s + 52 := by omega
  rw [e1] at h1
  have h2 : 2 ^ (s + 52) * den ≤ N := (Nat.le_div_iff_mul_le hden).mp h1
  have e : 2 ^ (s + 52) * den = 2 ^ 52 * (den * 2 ^ s) := by
    rw [Nat.pow_add]; ac_rfl
  omega

theorem nbRaw_mono (N N' den : Nat) (hden : 0 < den) (h : N ≤ N') : nbRaw N den ≤ nbRaw N' den := by
  have ht : N / den ≤ N' / den := Nat.div_le_div_right h
  have hl := log2_mono _ _ ht
  have hq := nb_q_le N den hden
  have hq' := nb_q_ge N' den hden
  unfold nbRaw
  by_cases hss : (N / den).log2 - 52 = (N' / den).log2 - 52
  · rw [hss]
    have hpos : 0 < den * 2 ^ ((N' / den).log2 - 52) := Nat.mul_pos hden (Nat.two_pow_pos _)
    have := divRoundHalfEven_mono N N' _ hpos h
    omega
  · have hlt : (N / den).log2 - 52 < (N' / den).log2 - 52 := by omega
    have hq'' := hq' (by omega)
    generalize (N / den).log2 - 52 = s at *
    generalize (N' / den).log2 - 52 = s' at *
    generalize divRoundHalfEven N (den * 2 ^ s) = q at *
    generalize divRoundHalfEven N' (den * 2 ^ s') = q' at *
    have : (s + 1) * 2 ^ 52 ≤ s' * 2 ^ 52 := Nat.mul_le_mul_right _ (by omega)
    omega

theorem nearestBits_mono (num num' den : Nat) (hden : den ≠ 0) (h : num ≤ num') :
    nearestBits num den ≤ nearestBits num' den := by
  rw [nearestBits_eq _ _ hden, nearestBits_eq _ _ hden]
  have := nbRaw_mono (num * 2 ^ 1074) (num' * 2 ^ 1074) den (by omega) (Nat.mul_le_mul_right _ h)
  split <;> split <;> omega

theorem nearestBits_le_inf (num den : Nat) : nearestBits num den ≤ infMag := by
  by_cases hden : den = 0
  · unfold nearestBits; simp [hden]
  · rw [nearestBits_eq _ _ hden]
    split <;> omega

theorem nearestBits_zero (den : Nat) : nearestBits 0 den = 0 := by
  by_cases hden : den = 0
  · unfold nearestBits; simp [hden]
  · rw [nearestBits_eq _ _ hden, Nat.zero_mul]
    have : nbRaw 0 den = 0 := by
      unfold nbRaw
      simp [rhe_zero]
    rw [this]
    simp [infMag]

/-! ### exact value as a function of the magnitude bits -/

theorem magVal_eq (ex fr : Nat) (hfr : fr < 2 ^ 52) :
    Dbl.magVal (ex * 2 ^ 52 + fr) = if ex = 0 then fr else (fr + 2 ^ 52) * 2 ^ (ex - 1) := by
  unfold Dbl.magVal
  have e1 : (ex * 2 ^ 52 + fr) / 2 ^ 52 = ex := by omega
  have e2 : (ex * 2 ^ 52 + fr) % 2 ^ 52 = fr := by omega
  simp only [e1, e2]

theorem magVal_lt_aux (ex ex' fr fr' : Nat) (hfr : fr < 2 ^ 52) (hex : ex < ex') :
    (if ex = 0 then fr else (fr + 2 ^ 52) * 2 ^ (ex - 1)) < (fr' + 2 ^ 52) * 2 ^ (ex' - 1) := by
  have hp : 2 ^ ex ≤ 2 ^ (ex' - 1) := Nat.pow_le_pow_right (by omega) (by omega)
  have hlow : 2 ^ 52 * 2 ^ (ex' - 1) ≤ (fr' + 2 ^ 52) * 2 ^ (ex' - 1) :=
    Nat.mul_le_mul_right _ (by omega)
  have hlow2 : 2 ^ 52 * 2 ^ ex ≤ 2 ^ 52 * 2 ^ (ex' - 1) := Nat.mul_le_mul_left _ hp
  split
  · have : 0 < 2 ^ ex := Nat.two_pow_pos ex
    have : 2 ^ 52 ≤ 2 ^ 52 * 2 ^ ex := Nat.le_mul_of_pos_right _ this
    omega
  · rename_i hne
    obtain ⟨j, rfl⟩ : ∃ j, ex = j + 1 := ⟨ex - 1, by omega⟩
    have e : 2 ^ (j + 1) = 2 ^ j * 2 := Nat.pow_succ 2 j
    have hlt : (fr + 2 ^ 52) * 2 ^ j < (2 ^ 52 * 2) * 2 ^ j :=
      (Nat.mul_lt_mul_right (Nat.two_pow_pos j)).mpr (by omega)
    have e2 : (2 ^ 52 * 2) * 2 ^ j = 2 ^ 52 * 2 ^ (j + 1) := by rw [e]; ac_rfl
    simp only [Nat.add_sub_cancel]
    omega

/-- the exact value is strictly increasing in the magnitude bits -/
theorem magVal_strictMono (m m' : Nat) (h : m < m') : Dbl.magVal m < Dbl.magVal m' := by
  have d1 := Nat.div_add_mod m (2 ^ 52)
  have d2 := Nat.div_add_mod m' (2 ^ 52)
  have r1 : m % 2 ^ 52 < 2 ^ 52 := Nat.mod_lt _ (Nat.two_pow_pos 52)
  have r2 : m' % 2 ^ 52 < 2 ^ 52 := Nat.mod_lt _ (Nat.two_pow_pos 52)
  have hm : m = (m / 2 ^ 52) * 2 ^ 52 + m % 2 ^ 52 := by omega
  have hm' : m' = (m' / 2 ^ 52) * 2 ^ 52 + m' % 2 ^ 52 := by omega
  generalize m / 2 ^ 52 = ex at *
  generalize m' / 2 ^ 52 = ex' at *
  generalize m % 2 ^ 52 = fr at *
  generalize m' % 2 ^ 52 = fr' at *
  rw [hm, hm', magVal_eq ex fr r1, magVal_eq ex' fr' r2]
  by_cases hee : ex = ex'
  · subst hee
    have hf : fr < fr' := by omega
    split
    · exact hf
    · exact (Nat.mul_lt_mul_right (Nat.two_pow_pos _)).mpr (by omega)
  · have hlt : ex < ex' := by
      apply Classical.byContradiction
      intro hn
      have : (ex' + 1) * 2 ^ 52 ≤ ex * 2 ^ 52 := Nat.mul_le_mul_right _ (by omega)
      omega
    have := magVal_lt_aux ex ex' fr fr' r1 hlt
    rw [if_neg (by omega : ¬ ex' = 0)]
    exact this

theorem magVal_mono (m m' : Nat) (h : m ≤ m') : Dbl.magVal m ≤ Dbl.magVal m' := by
  by_cases he : m = m'
  · subst he; exact Nat.le_refl _
  · exact Nat.le_of_lt (magVal_strictMono m m' (by omega))

theorem magVal_zero : Dbl.magVal 0 = 0 := by
  unfold Dbl.magVal; simp

theorem magVal_le_iff (m m' : Nat) : Dbl.magVal m ≤ Dbl.magVal m' ↔ m ≤ m' := by
  constructor
  · intro h
    apply Classical.byContradiction
    intro hn
    have := magVal_strictMono m' m (by omega)
    omega
  · exact magVal_mono m m'

/-! ### CPython `round(x, n)` on the magnitude bits -/

theorem roundMag_le_inf (n mag : Nat) (h : mag ≤ infMag) : roundMag n mag ≤ infMag := by
  unfold roundMag
  split
  · exact h
  · exact nearestBits_le_inf _ _

theorem roundMag_zero (n : Nat) : roundMag n 0 = 0 := by
  unfold roundMag
  rw [if_neg (by simp [infMag])]
  simp only [magVal_zero, Nat.zero_mul, rhe_zero, nearestBits_zero]

theorem roundMag_mono (n m m' : Nat) (h : m ≤ m') (hm' : m' ≤ infMag) :
    roundMag n m ≤ roundMag n m' := by
  have _ := hm'
  unfold roundMag
  split <;> split
  · exact h
  · omega
  · exact Nat.le_trans (nearestBits_le_inf _ _) (by omega)
  · have h10 : 0 < 10 ^ n := Nat.pow_pos (by omega)
    apply nearestBits_mono _ _ _ (by omega)
    apply divRoundHalfEven_mono _ _ _ (Nat.two_pow_pos 1074)
    exact Nat.mul_le_mul_right _ (magVal_mono m m' h)

/-! ### `round(x, n)` cannot overflow -/

/-- `|max double| * 2^1074` -/
def maxVal : Nat := (2 ^ 53 - 1) * 2 ^ 2045

theorem magVal_maxMag : Dbl.magVal (infMag - 1) = maxVal := by decide +kernel
theorem maxVal_log2 : maxVal.log2 - 52 = 2045 := by decide +kernel
theorem maxVal_split : maxVal = ((2 ^ 53 - 1) * 2 ^ 971) * 2 ^ 1074 := by decide +kernel

/-- the largest finite double converts to itself -/
theorem nbRaw_max (T : Nat) (hT : 0 < T) : nbRaw (maxVal * T) T = infMag - 1 := by
  unfold nbRaw
  rw [Nat.mul_div_cancel _ hT, maxVal_log2]
  have e : maxVal * T = (2 ^ 53 - 1) * (T * 2 ^ 2045) := by
    unfold maxVal
    generalize 2 ^ 53 - 1 = a
    generalize 2 ^ 2045 = b
    ac_rfl
  rw [e, divRoundHalfEven_exact _ _ (Nat.mul_pos hT (Nat.two_pow_pos _))]
  decide +kernel

/-- CPython's `round(x, n)` of a finite double is finite (it cannot overflow) -/
theorem roundMag_finite (n mag : Nat) (h : mag < infMag) : roundMag n mag < infMag := by
  unfold roundMag
  rw [if_neg (by omega)]
  have hT : 0 < 10 ^ n := Nat.pow_pos (by omega)
  have h1 : Dbl.magVal mag ≤ maxVal := by
    rw [← magVal_maxMag]; exact magVal_mono _ _ (by omega)
  have h2 : divRoundHalfEven (Dbl.magVal mag * 10 ^ n) (2 ^ 1074) ≤ (2 ^ 53 - 1) * 2 ^ 971 * 10 ^ n := by
    apply rhe_le_of_le_mul _ _ _ (Nat.two_pow_pos 1074)
    have : Dbl.magVal mag * 10 ^ n ≤ maxVal * 10 ^ n := Nat.mul_le_mul_right _ h1
    have e : (2 ^ 53 - 1) * 2 ^ 971 * 10 ^ n * 2 ^ 1074 = maxVal * 10 ^ n := by
      rw [maxVal_split]
      generalize (2 ^ 53 - 1) * 2 ^ 971 = a
      generalize 2 ^ 1074 = b
      generalize 10 ^ n = c
      ac_rfl
    omega
  have h3 := nearestBits_mono _ _ (10 ^ n) (by omega) h2
  have h4 : nearestBits ((2 ^ 53 - 1) * 2 ^ 971 * 10 ^ n) (10 ^ n) = infMag - 1 := by
    rw [nearestBits_eq _ _ (by omega)]
    have e : (2 ^ 53 - 1) * 2 ^ 971 * 10 ^ n * 2 ^ 1074 = maxVal * 10 ^ n := by
      rw [maxVal_split]
      generalize (2 ^ 53 - 1) * 2 ^ 971 = a
      generalize 2 ^ 1074 = b
      generalize 10 ^ n = c
      ac_rfl
    rw [e, nbRaw_max _ hT]
    decide +kernel
  simp only at h3 ⊢
  have : 0 < infMag := by decide +kernel
  omega
/-! ### the order on doubles -/

namespace Dbl

theorem le_def (a b : Dbl) : a ≤ b ↔ (a.isNaN = false ∧ b.isNaN = false ∧ a.key ≤ b.key) := Iff.rfl

theorem lt_def (a b : Dbl) : a < b ↔ (a.isNaN = false ∧ b.isNaN = false ∧ a.key < b.key) := Iff.rfl

theorem isNaN_false_iff (a : Dbl) : a.isNaN = false ↔ a.mag ≤ infMag := by
  unfold isNaN
  simp

theorem le_refl (a : Dbl) (h : a.isNaN = false) : a ≤ a := by
  rw [le_def]; exact ⟨h, h, Int.le_refl _⟩

theorem le_trans (a b c : Dbl) (h1 : a ≤ b) (h2 : b ≤ c) : a ≤ c := by
  rw [le_def] at *
  exact ⟨h1.1, h2.2.1, Int.le_trans h1.2.2 h2.2.2⟩

theorem le_total (a b : Dbl) (ha : a.isNaN = false) (hb : b.isNaN = false) : a ≤ b ∨ b ≤ a := by
  simp only [le_def, ha, hb, true_and]
  omega

/-- on finite doubles the order is the order of the exact values -/
theorem le_iff_exact (a b : Dbl) (ha : a.isFinite = true) (hb : b.isFinite = true) :
    a ≤ b ↔ a.exact ≤ b.exact := by
  have ha' : a.mag < infMag := by simpa [isFinite] using ha
  have hb' : b.mag < infMag := by simpa [isFinite] using hb
  have na : a.isNaN = false := (isNaN_false_iff a).mpr (by omega)
  have nb : b.isNaN = false := (isNaN_false_iff b).mpr (by omega)
  simp only [le_def, na, nb, true_and, key, exact]
  have z := magVal_zero
  have i1 := magVal_le_iff a.mag b.mag
  have i2 := magVal_le_iff b.mag a.mag
  have i3 := magVal_le_iff a.mag 0
  have i4 := magVal_le_iff b.mag 0
  rw [z] at i3 i4
  cases a.neg <;> cases b.neg <;> simp only [if_true, if_false, Bool.false_eq_true] <;> omega

end Dbl

/-! ### rounding on doubles -/

theorem pyRoundD_notNaN (n : Nat) (x : Dbl) (h : x.isNaN = false) : (pyRoundD n x).isNaN = false := by
  rw [Dbl.isNaN_false_iff] at *
  exact roundMag_le_inf n x.mag h

/-- CPython `round(·, n)` is non-decreasing on doubles -/
theorem pyRoundD_mono (n : Nat) (a b : Dbl) (h : a ≤ b) : pyRoundD n a ≤ pyRoundD n b := by
  rw [Dbl.le_def] at h
  obtain ⟨ha, hb, hk⟩ := h
  obtain ⟨na, ma⟩ := a
  obtain ⟨nb, mb⟩ := b
  rw [Dbl.le_def]
  refine ⟨pyRoundD_notNaN n _ ha, pyRoundD_notNaN n _ hb, ?_⟩
  rw [Dbl.isNaN_false_iff] at ha hb
  simp only at ha hb
  have z := roundMag_zero n
  have m1 := roundMag_mono n ma mb
  have m2 := roundMag_mono n mb ma
  have m3 := roundMag_mono n 0 ma (by omega) ha
  have m4 := roundMag_mono n 0 mb (by omega) hb
  have m5 := roundMag_mono n ma 0
  have m6 := roundMag_mono n mb 0
  rw [z] at m3 m4 m5 m6
  simp only [Dbl.key, pyRoundD] at hk ⊢
  have hinf : (0 : Nat) ≤ infMag := Nat.zero_le _
  cases na <;> cases nb <;> simp only [if_true, if_false, Bool.false_eq_true] at hk ⊢
  · have := m1 (by omega) hb; omega
  · have := m5 (by omega) hinf
    have := m6 (by omega) hinf
    omega
  · omega
  · have := m2 (by omega) ha; omega

theorem pyRoundD_finite (n : Nat) (x : Dbl) (h : x.isFinite = true) : (pyRoundD n x).isFinite = true := by
  simp only [Dbl.isFinite, decide_eq_true_eq] at h
  simp only [Dbl.isFinite, pyRoundD]
  exact decide_eq_true (roundMag_finite n x.mag h)

/-! ### the limit gate with only an order on the number type -/

section GateOrd
variable {K : Type} [LE K] [DecidableLE K]

theorem gate_false_ok_iff (L U raw v : K) :
    gate false L U raw = .ok v ↔ (v = raw ∧ L ≤ raw ∧ raw ≤ U) := by
  unfold gate
  by_cases hc : inLimits L U raw = true
  · have := (inLimits_iff L U raw).mp hc
    simp only [hc, Bool.false_or, if_true, Outcome.ok.injEq]
    constructor
    · intro h; exact ⟨h.symm, this⟩
    · intro h; exact h.1.symm
  · have hn : ¬ (L ≤ raw ∧ raw ≤ U) := fun hh => hc ((inLimits_iff L U raw).mpr hh)
    simp only [hc, Bool.false_or]
    constructor
    · intro h; cases h
    · intro h; exact absurd h.2 hn

theorem gate_false_limit_iff (L U raw : K) :
    gate false L U raw = .limit ↔ ¬ (L ≤ raw ∧ raw ≤ U) := by
  unfold gate
  by_cases hc : inLimits L U raw = true
  · have := (inLimits_iff L U raw).mp hc
    simp [hc, this]
  · have hn : ¬ (L ≤ raw ∧ raw ≤ U) := fun hh => hc ((inLimits_iff L U raw).mpr hh)
    simp [hc, hn]

theorem gate_true_ok (L U raw : K) : gate true L U raw = .ok raw := by
  simp [gate]

end GateOrd

/-! ### clamp on doubles -/

/-- Python's `min(max(v, L), U)` on doubles: the nearest point of `[L, U]` -/
theorem clampD_spec (L U v : Dbl) (hLU : L ≤ U) (hv : v.isNaN = false) :
    clamp L U v = if v.key < L.key then L else if U.key < v.key then U else v := by
  have hL := hLU.1
  have hU := hLU.2.1
  have hk := hLU.2.2
  unfold clamp
  simp only [GT.gt, Dbl.lt_def, hL, hU, hv, true_and]
  by_cases h1 : v.key < L.key
  · have h2 : ¬ U.key < L.key := by omega
    simp only [h1, if_true, hL, true_and, h2, if_false]
  · simp only [h1, if_false, hv, true_and]

theorem clampD_mem (L U v : Dbl) (hLU : L ≤ U) (hv : v.isNaN = false) :
    L ≤ clamp L U v ∧ clamp L U v ≤ U := by
  have hL := hLU.1
  have hU := hLU.2.1
  have hk := hLU.2.2
  rw [clampD_spec L U v hLU hv]
  split
  · exact ⟨Dbl.le_refl L hL, hLU⟩
  · split
    · exact ⟨hLU, Dbl.le_refl U hU⟩
    · exact ⟨⟨hL, hv, by omega⟩, ⟨hv, hU, by omega⟩⟩

theorem clampD_mono (L U v w : Dbl) (hLU : L ≤ U) (h : v ≤ w) : clamp L U v ≤ clamp L U w := by
  have hL := hLU.1
  have hU := hLU.2.1
  have hk := hLU.2.2
  have hv := h.1
  have hw := h.2.1
  have hvw := h.2.2
  rw [clampD_spec L U v hLU hv, clampD_spec L U w hLU hw]
  split <;> split <;> (try split) <;> (try split) <;>
    first
      | exact ⟨by assumption, by assumption, by omega⟩

end AF.Prior
