import AFModel.InterpCov

/-! Helper lemmas for C20 (`AF.InterpCov`): the stable sort by abscissa, indexing into a
concatenation of equally long lists, the block-diagonal layout. Core Lean only. -/

namespace AF.InterpCov

/-! ## the sort -/

def LeT (a b : Sample) : Prop := a.t ≤ b.t

theorem sortByT_cons (s : Sample) (ss : List Sample) : sortByT (s :: ss) = insertByT s (sortByT ss) := rfl

theorem insertByT_perm (s : Sample) : ∀ l, (insertByT s l).Perm (s :: l)
  | [] => .refl _
  | b :: bs => by
    unfold insertByT
    split
    · exact .refl _
    · exact ((insertByT_perm s bs).cons b).trans (List.Perm.swap s b bs)

theorem sortByT_perm : ∀ ss, (sortByT ss).Perm ss
  | [] => .refl _
  | s :: ss => by
    rw [sortByT_cons]
    exact (insertByT_perm s _).trans ((sortByT_perm ss).cons s)

theorem insertByT_sorted (s : Sample) : ∀ l, l.Pairwise LeT → (insertByT s l).Pairwise LeT
  | [], _ => by simp [insertByT]
  | b :: bs, h => by
    have hb := List.pairwise_cons.mp h
    unfold insertByT
    split
    · rename_i hle
      refine List.Pairwise.cons ?_ h
      intro c hc
      rcases List.mem_cons.mp hc with rfl | hc
      · exact hle
      · exact Rat.le_trans hle (hb.1 c hc)
    · rename_i hnle
      have hbs : b.t ≤ s.t := Rat.le_of_lt (Rat.not_le.mp hnle)
      refine List.Pairwise.cons ?_ (insertByT_sorted s bs hb.2)
      intro c hc
      have := (insertByT_perm s bs).mem_iff.mp hc
      rcases List.mem_cons.mp this with rfl | hc'
      · exact hbs
      · exact hb.1 c hc'

theorem sortByT_sorted : ∀ ss, (sortByT ss).Pairwise LeT
  | [] => List.Pairwise.nil
  | s :: ss => by
    rw [sortByT_cons]
    exact insertByT_sorted s _ (sortByT_sorted ss)

theorem inj_of_nodup_map {α β : Type} (f : α → β) : ∀ (l : List α), (l.map f).Nodup →
    ∀ a b, a ∈ l → b ∈ l → f a = f b → a = b
  | [], _, _, _, ha, _, _ => by cases ha
  | x :: l, h, a, b, ha, hb, hf => by
    rw [List.map_cons, List.nodup_cons] at h
    rcases List.mem_cons.mp ha with rfl | ha' <;> rcases List.mem_cons.mp hb with rfl | hb'
    · rfl
    · exact absurd (hf ▸ List.mem_map.mpr ⟨b, hb', rfl⟩) h.1
    · exact absurd (hf ▸ List.mem_map.mpr ⟨a, ha', rfl⟩) h.1
    · exact inj_of_nodup_map f l h.2 a b ha' hb' hf

/-- with pairwise distinct abscissae the sorted list does not depend on the order of supply -/
theorem sortByT_of_perm {ss ss' : List Sample} (hp : ss.Perm ss') (hnd : (ss.map (·.t)).Nodup) :
    sortByT ss = sortByT ss' := by
  have hperm : (sortByT ss).Perm (sortByT ss') :=
    (sortByT_perm ss).trans (hp.trans (sortByT_perm ss').symm)
  refine List.Perm.eq_of_pairwise (le := LeT) ?_ (sortByT_sorted ss) (sortByT_sorted ss') hperm
  intro a b ha hb hab hba
  have ha' : a ∈ ss := (sortByT_perm ss).mem_iff.mp ha
  have hb' : b ∈ ss := hp.mem_iff.mpr ((sortByT_perm ss').mem_iff.mp hb)
  exact inj_of_nodup_map (·.t) ss hnd a b ha' hb' (Rat.le_antisymm hab hba)

/-- supplied in increasing order: the sort changes nothing -/
theorem insertByT_of_le (s : Sample) : ∀ l, (∀ b ∈ l, s.t ≤ b.t) → insertByT s l = s :: l
  | [], _ => rfl
  | b :: bs, h => by
    unfold insertByT
    rw [if_pos (h b List.mem_cons_self)]

theorem sortByT_of_sorted : ∀ ss, ss.Pairwise LeT → sortByT ss = ss
  | [], _ => rfl
  | s :: ss, h => by
    have hs := List.pairwise_cons.mp h
    rw [sortByT_cons, sortByT_of_sorted ss hs.2]
    exact insertByT_of_le s ss hs.1

/-! ## indexing a concatenation of equally long lists -/

theorem getElem?_flatten_uniform {α : Type} (k : Nat) : ∀ (L : List (List α)) (i a : Nat),
    (∀ l ∈ L, l.length = k) → a < k → L.flatten[i * k + a]? = (L[i]?).bind (·[a]?)
  | [], i, a, _, _ => by simp
  | l :: L, 0, a, h, ha => by
    have hl : l.length = k := h l List.mem_cons_self
    simp only [List.flatten_cons, Nat.zero_mul, Nat.zero_add, List.getElem?_cons_zero, Option.bind_some]
    rw [List.getElem?_append_left (by omega)]
  | l :: L, i + 1, a, h, ha => by
    have hl : l.length = k := h l List.mem_cons_self
    have e : (i + 1) * k + a = l.length + (i * k + a) := by rw [hl, Nat.succ_mul]; omega
    simp only [List.flatten_cons, List.getElem?_cons_succ]
    rw [e, List.getElem?_append_right (by omega)]
    simp only [Nat.add_sub_cancel_left]
    exact getElem?_flatten_uniform k L i a (fun l hl => h l (List.mem_cons_of_mem _ hl)) ha

/-! ## block-diagonal layout -/

/-- one padded row: zeros for the blocks before, the row of the block, zeros for the blocks after -/
def padRow (k total i : Nat) (row : List Rat) : List Rat :=
  zeros (i * k) ++ row ++ zeros ((total - i - 1) * k)

/-- the padded blocks whose concatenation `blockRows` is -/
def paddedBlocks (k total : Nat) : Nat → List (List (List Rat)) → List (List (List Rat))
  | _, [] => []
  | before, m :: rest => m.map (padRow k total before) :: paddedBlocks k total (before + 1) rest

theorem blockRows_eq_flatten (k total : Nat) : ∀ (ms : List (List (List Rat))) (before : Nat),
    blockRows k total before ms = (paddedBlocks k total before ms).flatten
  | [], _ => rfl
  | m :: rest, before => by
    simp only [blockRows, paddedBlocks, List.flatten_cons]
    rw [blockRows_eq_flatten k total rest (before + 1)]
    rfl

theorem paddedBlocks_getElem? (k total : Nat) : ∀ (ms : List (List (List Rat))) (before i : Nat),
    (paddedBlocks k total before ms)[i]? = (ms[i]?).map (fun m => m.map (padRow k total (before + i)))
  | [], _, i => by simp [paddedBlocks]
  | m :: rest, before, 0 => by simp [paddedBlocks]
  | m :: rest, before, i + 1 => by
    simp only [paddedBlocks, List.getElem?_cons_succ]
    rw [paddedBlocks_getElem? k total rest (before + 1) i]
    have : before + 1 + i = before + (i + 1) := by omega
    rw [this]

theorem paddedBlocks_lengths (k total : Nat) : ∀ (ms : List (List (List Rat))) (before : Nat),
    (∀ m ∈ ms, m.length = k) → ∀ l ∈ paddedBlocks k total before ms, l.length = k
  | [], _, _, l, hl => by cases hl
  | m :: rest, before, h, l, hl => by
    simp only [paddedBlocks] at hl
    rcases List.mem_cons.mp hl with rfl | hl'
    · rw [List.length_map]; exact h m List.mem_cons_self
    · exact paddedBlocks_lengths k total rest (before + 1) (fun m hm => h m (List.mem_cons_of_mem _ hm)) l hl'

/-- columns of a padded row -/
theorem padRow_inside (k total i : Nat) (row : List Rat) (c : Nat) (hc : c < row.length) :
    (padRow k total i row)[i * k + c]? = row[c]? := by
  unfold padRow zeros
  rw [List.append_assoc, List.getElem?_append_right (by simp)]
  simp only [List.length_replicate, Nat.add_sub_cancel_left]
  rw [List.getElem?_append_left hc]

theorem padRow_before (k total i : Nat) (row : List Rat) (j : Nat) (hj : j < i * k) :
    (padRow k total i row)[j]? = some 0 := by
  unfold padRow zeros
  rw [List.append_assoc, List.getElem?_append_left (by simpa using hj)]
  simp [hj]

theorem padRow_after (k total i : Nat) (row : List Rat) (j : Nat) (hj : i * k + row.length ≤ j) :
    (padRow k total i row)[j]?.getD 0 = 0 := by
  unfold padRow zeros
  rw [List.getElem?_append_right (by simpa using hj)]
  rw [List.getElem?_replicate]
  split <;> rfl

/-! ## the first maximum -/

theorem argmaxFrom_spec : ∀ (rest : List Rat) (pre : List Rat) (best : Nat) (bv : Rat),
    (pre ++ rest)[best]? = some bv → best < pre.length →
    (∀ j x, (pre)[j]? = some x → x ≤ bv ∧ (j < best → x < bv)) →
    let r := argmaxFrom pre.length best bv rest
    ∃ rv, (pre ++ rest)[r]? = some rv ∧
      ∀ j x, (pre ++ rest)[j]? = some x → x ≤ rv ∧ (j < r → x < rv)
  | [], pre, best, bv, hb, _, hall => by
    simp only [argmaxFrom, List.append_nil] at *
    exact ⟨bv, hb, hall⟩
  | y :: rest, pre, best, bv, hb, hlt, hall => by
    have hassoc : pre ++ y :: rest = (pre ++ [y]) ++ rest := by simp
    have hlen : (pre ++ [y]).length = pre.length + 1 := by simp
    simp only [argmaxFrom]
    split
    · rename_i hlt'
      have := argmaxFrom_spec rest (pre ++ [y]) pre.length y
        (by rw [← hassoc]; simp) (by simp)
        (by
          intro j x hj
          by_cases hjl : j < pre.length
          · rw [List.getElem?_append_left hjl] at hj
            have := hall j x hj
            have h1 := this.1
            exact ⟨by grind, fun _ => by grind⟩
          · have hj' : j = pre.length := by
              have := (List.getElem?_eq_some_iff.mp hj).1
              simp at this; omega
            subst hj'
            simp at hj
            subst hj
            exact ⟨Rat.le_refl, fun h => absurd h (Nat.lt_irrefl _)⟩)
      rw [hlen] at this
      rw [hassoc]
      exact this
    · rename_i hnlt
      have hle : y ≤ bv := Rat.not_lt.mp hnlt
      have := argmaxFrom_spec rest (pre ++ [y]) best bv
        (by rw [← hassoc]; exact hb) (by simp; omega)
        (by
          intro j x hj
          by_cases hjl : j < pre.length
          · rw [List.getElem?_append_left hjl] at hj
            exact hall j x hj
          · have hj' : j = pre.length := by
              have := (List.getElem?_eq_some_iff.mp hj).1
              simp at this; omega
            subst hj'
            simp at hj
            subst hj
            exact ⟨hle, fun h => absurd h (by omega)⟩)
      rw [hlen] at this
      rw [hassoc]
      exact this

end AF.InterpCov
