import AFModel.IdentJoin

/-! Lemmas for C07: what `".".join` forgets. -/

namespace AF.IdentJoin
open AF

theorem pieces_ne_nil : ∀ (s : List Char), pieces s ≠ []
  | [] => by simp [pieces]
  | c :: cs => by
    by_cases h : c = '.'
    · simp [pieces, h]
    · have := pieces_ne_nil cs
      cases hp : pieces cs with
      | nil => exact absurd hp this
      | cons p ps => simp [pieces, h, hp, consHead]

theorem consHead_append (c : Char) (a b : List (List Char)) (h : a ≠ []) :
    consHead c (a ++ b) = consHead c a ++ b := by
  cases a with
  | nil => exact absurd rfl h
  | cons p ps => simp [consHead]

theorem pieces_append_dot : ∀ (t s : List Char), pieces (t ++ '.' :: s) = pieces t ++ pieces s
  | [], s => by simp [pieces]
  | c :: t, s => by
    have ih := pieces_append_dot t s
    by_cases h : c = '.'
    · simp [pieces, h, ih]
    · simp only [List.cons_append, pieces, h, if_false, ih]
      exact consHead_append c _ _ (pieces_ne_nil t)

/-- cutting the joined text at its dots gives the pieces of the tokens -/
theorem pieces_joinChars : ∀ (l : List (List Char)), l ≠ [] → pieces (joinChars l) = piecesOfTokens l
  | [], h => absurd rfl h
  | [t], _ => by simp [joinChars, piecesOfTokens]
  | t :: u :: rest, _ => by
    have ih := pieces_joinChars (u :: rest) (by simp)
    simp only [joinChars, pieces_append_dot, ih, piecesOfTokens]

theorem joinChars_consHead (c : Char) : ∀ (l : List (List Char)), l ≠ [] → joinChars (consHead c l) = c :: joinChars l
  | [], h => absurd rfl h
  | [p], _ => by simp [consHead, joinChars]
  | p :: q :: rest, _ => by simp [consHead, joinChars]

/-- joining the pieces of a text gives the text back -/
theorem joinChars_pieces : ∀ (s : List Char), joinChars (pieces s) = s
  | [] => by simp [pieces, joinChars]
  | c :: cs => by
    have ih := joinChars_pieces cs
    by_cases h : c = '.'
    · cases hp : pieces cs with
      | nil => exact absurd hp (pieces_ne_nil cs)
      | cons p ps =>
        rw [hp] at ih
        simp [pieces, h, hp, joinChars, ih]
    · simp only [pieces, h, if_false]
      rw [joinChars_consHead c _ (pieces_ne_nil cs), ih]

theorem piecesOfTokens_ne_nil : ∀ (l : List (List Char)), l ≠ [] → piecesOfTokens l ≠ []
  | [], h => absurd rfl h
  | t :: rest, _ => by
    simp only [piecesOfTokens, ne_eq, List.append_eq_nil_iff, not_and]
    intro h; exact absurd h (pieces_ne_nil t)

/-- the joined text of the tokens is the joined text of their pieces -/
theorem joinChars_piecesOfTokens (l : List (List Char)) (h : l ≠ []) :
    joinChars (piecesOfTokens l) = joinChars l := by
  rw [← pieces_joinChars l h, joinChars_pieces]

/-- **exactly when**: same text iff same pieces -/
theorem joinChars_eq_iff (l m : List (List Char)) (hl : l ≠ []) (hm : m ≠ []) :
    joinChars l = joinChars m ↔ piecesOfTokens l = piecesOfTokens m := by
  constructor
  · intro h
    rw [← pieces_joinChars l hl, ← pieces_joinChars m hm, h]
  · intro h
    rw [← joinChars_piecesOfTokens l hl, ← joinChars_piecesOfTokens m hm, h]

theorem pieces_dotFree : ∀ (t : List Char), dotFree t = true → pieces t = [t]
  | [], _ => by simp [pieces]
  | c :: cs, h => by
    have hc : c ≠ '.' := by
      intro hc; subst hc; simp [dotFree] at h
    have hcs : dotFree cs = true := by
      simp only [dotFree, Bool.not_eq_true', List.contains_eq_mem, List.mem_cons, decide_eq_false_iff_not, not_or] at h ⊢
      simpa using h.2
    simp [pieces, hc, pieces_dotFree cs hcs, consHead]

theorem piecesOfTokens_dotFree : ∀ (l : List (List Char)), (∀ t ∈ l, dotFree t = true) → piecesOfTokens l = l
  | [], _ => by simp [piecesOfTokens]
  | t :: rest, h => by
    simp only [piecesOfTokens, pieces_dotFree t (h t (List.mem_cons_self ..)),
      piecesOfTokens_dotFree rest (fun u hu => h u (List.mem_cons_of_mem _ hu)), List.cons_append, List.nil_append]

/-- merging two neighbouring tokens into one with a dot between them leaves the text unchanged -/
theorem joinChars_merge : ∀ (pre : List (List Char)) (a b : List Char) (post : List (List Char)),
    joinChars (pre ++ a :: b :: post) = joinChars (pre ++ (a ++ '.' :: b) :: post)
  | [], a, b, [] => by simp [joinChars]
  | [], a, b, p :: post => by simp [joinChars]
  | [t], a, b, post => by
    have ih := joinChars_merge [] a b post
    simp only [List.nil_append] at ih
    show t ++ '.' :: joinChars (a :: b :: post) = t ++ '.' :: joinChars ((a ++ '.' :: b) :: post)
    rw [ih]
  | t :: u :: pre, a, b, post => by
    have ih := joinChars_merge (u :: pre) a b post
    simp only [List.cons_append] at ih
    show t ++ '.' :: joinChars (u :: (pre ++ a :: b :: post)) = t ++ '.' :: joinChars (u :: (pre ++ (a ++ '.' :: b) :: post))
    rw [ih]

/-- the model's `joinTokens` (`".".intercalate`) is `joinChars` -/
theorem joinTokens_toList : ∀ (l : List String), (joinTokens l).toList = joinChars (l.map String.toList)
  | [] => by simp [joinTokens, String.intercalate_nil, joinChars]
  | [t] => by simp [joinTokens, String.intercalate_singleton, joinChars]
  | t :: u :: rest => by
    have ih := joinTokens_toList (u :: rest)
    simp only [joinTokens] at ih ⊢
    rw [String.intercalate_cons_cons]
    simp only [String.toList_append, ih, List.map, joinChars, List.append_assoc]
    rfl

theorem map_toList_injective : ∀ (l m : List String), l.map String.toList = m.map String.toList → l = m
  | [], [], _ => rfl
  | [], _ :: _, h => by simp at h
  | _ :: _, [], h => by simp at h
  | a :: l, b :: m, h => by
    simp only [List.map, List.cons.injEq] at h
    rw [String.toList_inj.mp h.1, map_toList_injective l m h.2]

theorem map_ofList_injective : ∀ (l m : List (List Char)), l.map String.ofList = m.map String.ofList → l = m
  | [], [], _ => rfl
  | [], _ :: _, h => by simp at h
  | _ :: _, [], h => by simp at h
  | a :: l, b :: m, h => by
    simp only [List.map, List.cons.injEq] at h
    have ha : a = b := by
      have := congrArg String.toList h.1
      simpa [String.toList_ofList] using this
    rw [ha, map_ofList_injective l m h.2]

end AF.IdentJoin
