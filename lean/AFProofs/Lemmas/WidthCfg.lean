import AFModel.WidthCfg

/-! Helper lemmas for the configuration look-up of C12 (`AFModel/WidthCfg.lean`). -/

namespace AF.WidthCfgL
open AF

variable {V : Type}

theorem mem_insertByLen (e x : CEntry V) : ∀ (c : Config V), x ∈ insertByLen e c ↔ x = e ∨ x ∈ c
  | [] => by simp [insertByLen]
  | y :: ys => by
    unfold insertByLen
    split
    · simp
    · simp only [List.mem_cons, mem_insertByLen e x ys]
      constructor
      · rintro (h | h | h) <;> simp [h]
      · rintro (h | h | h) <;> simp [h]

theorem mem_sortByLen (x : CEntry V) : ∀ (c : Config V), x ∈ sortByLen c ↔ x ∈ c
  | [] => by simp [sortByLen]
  | y :: ys => by
    have ih := mem_sortByLen x ys
    simp only [sortByLen, List.foldr_cons] at ih ⊢
    rw [mem_insertByLen, ih]
    simp

/-- longest first -/
def Desc (c : Config V) : Prop := c.Pairwise (fun a b => b.path.length ≤ a.path.length)

theorem desc_insertByLen (e : CEntry V) : ∀ (c : Config V), Desc c → Desc (insertByLen e c)
  | [], _ => by simp [insertByLen, Desc]
  | y :: ys, h => by
    have hy := List.pairwise_cons.mp h
    unfold insertByLen
    split
    · rename_i hle
      refine List.pairwise_cons.mpr ⟨?_, h⟩
      intro b hb
      rcases List.mem_cons.mp hb with rfl | hb
      · exact hle
      · exact Nat.le_trans (hy.1 b hb) hle
    · rename_i hnle
      refine List.pairwise_cons.mpr ⟨?_, desc_insertByLen e ys hy.2⟩
      intro b hb
      rcases (mem_insertByLen e b ys).mp hb with rfl | hb
      · omega
      · exact hy.1 b hb

theorem desc_sortByLen : ∀ (c : Config V), Desc (sortByLen c)
  | [] => by simp [sortByLen, Desc]
  | y :: ys => by
    have ih := desc_sortByLen ys
    simp only [sortByLen, List.foldr_cons] at ih ⊢
    exact desc_insertByLen y _ ih

/-- in a list sorted longest first, the first entry with property `p` is at least as long as every
entry with `p` -/
theorem find_desc_longest (p : CEntry V → Bool) : ∀ (c : Config V), Desc c → ∀ e, c.find? p = some e →
    e ∈ c ∧ p e = true ∧ ∀ e' ∈ c, p e' = true → e'.path.length ≤ e.path.length
  | [], _, e, h => by simp at h
  | y :: ys, hd, e, h => by
    have hy := List.pairwise_cons.mp hd
    by_cases hp : p y = true
    · simp only [List.find?_cons, hp, Option.some.injEq] at h
      subst h
      refine ⟨by simp, hp, ?_⟩
      intro e' he' _
      rcases List.mem_cons.mp he' with rfl | he'
      · exact Nat.le_refl _
      · exact hy.1 e' he'
    · have hp' : p y = false := by simpa using hp
      simp only [List.find?_cons, hp'] at h
      obtain ⟨hm, hpe, hmax⟩ := find_desc_longest p ys hy.2 e h
      refine ⟨List.mem_cons_of_mem _ hm, hpe, ?_⟩
      intro e' he' hpe'
      rcases List.mem_cons.mp he' with rfl | he'
      · rw [hp'] at hpe'; cases hpe'
      · exact hmax e' he' hpe'

/-- two suffixes of one string that are equally long are the same string -/
theorem suffix_same_length {α} {a b k : List α} (ha : a <:+ k) (hb : b <:+ k) (h : a.length = b.length) : a = b := by
  obtain ⟨p, hp⟩ := ha
  obtain ⟨q, hq⟩ := hb
  have hlen : p.length = q.length := by
    have h1 := congrArg List.length hp
    have h2 := congrArg List.length hq
    simp only [List.length_append] at h1 h2
    omega
  have := hp.trans hq.symm
  exact (List.append_inj this hlen).2

theorem findSome?_first {α β} (f : α → Option β) (pre : List α) (x : α) (post : List α)
    (hpre : ∀ y ∈ pre, f y = none) : (pre ++ x :: post).findSome? f = (f x).or (post.findSome? f) := by
  induction pre with
  | nil => cases h : f x <;> simp [h]
  | cons y ys ih =>
    have hy : f y = none := hpre y (by simp)
    simp only [List.cons_append, List.findSome?_cons, hy]
    exact ih (fun z hz => hpre z (List.mem_cons_of_mem _ hz))

theorem findSome?_eq_some_split {α β} (f : α → Option β) : ∀ (l : List α) (b : β), l.findSome? f = some b →
    ∃ pre x post, l = pre ++ x :: post ∧ f x = some b ∧ ∀ y ∈ pre, f y = none
  | [], b, h => by simp at h
  | y :: ys, b, h => by
    cases hy : f y with
    | some c =>
      simp only [List.findSome?_cons, hy, Option.some.injEq] at h
      subst h
      exact ⟨[], y, ys, rfl, hy, by simp⟩
    | none =>
      simp only [List.findSome?_cons, hy] at h
      obtain ⟨pre, x, post, hl, hx, hpre⟩ := findSome?_eq_some_split f ys b h
      refine ⟨y :: pre, x, post, by simp [hl], hx, ?_⟩
      intro z hz
      rcases List.mem_cons.mp hz with rfl | hz
      · exact hy
      · exact hpre z hz

end AF.WidthCfgL
