import AFModel.Comp

/-! Helper lemmas about the `Comp` model (core Lean only). Property theorems live in `AFProofs/Cxx.lean`. -/

namespace AF

/-! ### sortDedup -/

theorem mem_insertUniq {a x : Nat} : ∀ {l : List Nat}, x ∈ insertUniq a l ↔ x = a ∨ x ∈ l
  | [] => by simp [insertUniq]
  | b :: bs => by
    unfold insertUniq
    split
    · simp
    · split
      · rename_i h; subst h; simp
      · simp [mem_insertUniq (l := bs)]; constructor <;> (intro h; rcases h with h | h | h <;> simp [h])

theorem sorted_insertUniq {a : Nat} : ∀ {l : List Nat}, l.Pairwise (· < ·) → (insertUniq a l).Pairwise (· < ·)
  | [], _ => by simp [insertUniq]
  | b :: bs, h => by
    unfold insertUniq
    have hb := List.pairwise_cons.mp h
    split
    · rename_i hab
      refine List.pairwise_cons.mpr ⟨?_, h⟩
      intro x hx
      rcases List.mem_cons.mp hx with rfl | hx
      · exact hab
      · exact Nat.lt_trans hab (hb.1 x hx)
    · split
      · exact h
      · rename_i h1 h2
        refine List.pairwise_cons.mpr ⟨?_, sorted_insertUniq hb.2⟩
        intro x hx
        rcases mem_insertUniq.mp hx with rfl | hx
        · omega
        · exact hb.1 x hx

theorem mem_sortDedup {x : Nat} : ∀ {l : List Nat}, x ∈ sortDedup l ↔ x ∈ l
  | [] => by simp [sortDedup]
  | a :: l => by
    have ih := mem_sortDedup (x := x) (l := l)
    simp only [sortDedup, List.foldr_cons] at ih ⊢
    rw [mem_insertUniq, ih]; simp

theorem sorted_sortDedup : ∀ (l : List Nat), (sortDedup l).Pairwise (· < ·)
  | [] => by simp [sortDedup]
  | a :: l => by
    simp only [sortDedup, List.foldr_cons]
    exact sorted_insertUniq (sorted_sortDedup l)

theorem nodup_of_sorted {l : List Nat} (h : l.Pairwise (· < ·)) : l.Nodup :=
  h.imp (fun hab => Nat.ne_of_lt hab)

/-! ### zip lookup -/

theorem lookup_zip_get {V} : ∀ (ks : List Nat) (vs : List V), ks.Nodup → ks.length = vs.length →
    ∀ (i : Nat) (hi : i < ks.length) (hv : i < vs.length),
      lookupArg (ks.zip vs) ks[i] = some vs[i]
  | [], _, _, _, i, hi, _ => by simp at hi
  | k :: ks, [], _, hl, _, _, _ => by simp at hl
  | k :: ks, v :: vs, hnd, hl, i, hi, hv => by
    cases i with
    | zero => simp [lookupArg]
    | succ j =>
      have hnd' := List.nodup_cons.mp hnd
      have hj : j < ks.length := by simpa using hi
      have hne : k ≠ ks[j] := fun h => hnd'.1 (h ▸ List.getElem_mem hj)
      have ih := lookup_zip_get ks vs hnd'.2 (by simpa using hl) j hj (by simpa using hv)
      simp only [lookupArg, List.zip_cons_cons, List.find?, List.getElem_cons_succ] at ih ⊢
      have : (k == ks[j]) = false := by simpa using hne
      simp [this, ih]

/-! ### stable sort by id -/

theorem perm_insertByIdFront {α} (x : α × Nat) : ∀ (l : List (α × Nat)),
    (sortById.insertByIdFront x l).Perm (x :: l)
  | [] => by simp [sortById.insertByIdFront]
  | y :: ys => by
    unfold sortById.insertByIdFront
    split
    · exact List.Perm.refl _
    · exact ((perm_insertByIdFront x ys).cons y).trans (List.Perm.swap x y ys)

theorem perm_sortById {α} : ∀ (l : List (α × Nat)), (sortById l).Perm l
  | [] => by simp [sortById]
  | x :: xs => by
    simp only [sortById, List.foldr_cons]
    exact (perm_insertByIdFront x _).trans ((perm_sortById xs).cons x)

theorem sorted_insertByIdFront {α} (x : α × Nat) : ∀ (l : List (α × Nat)),
    l.Pairwise (fun a b => a.2 ≤ b.2) →
    (sortById.insertByIdFront x l).Pairwise (fun a b => a.2 ≤ b.2)
  | [], _ => by simp [sortById.insertByIdFront]
  | y :: ys, h => by
    unfold sortById.insertByIdFront
    have hy := List.pairwise_cons.mp h
    split
    · rename_i hxy
      refine List.pairwise_cons.mpr ⟨?_, h⟩
      intro z hz
      rcases List.mem_cons.mp hz with rfl | hz
      · exact hxy
      · exact Nat.le_trans hxy (hy.1 z hz)
    · rename_i hxy
      refine List.pairwise_cons.mpr ⟨?_, sorted_insertByIdFront x ys hy.2⟩
      intro z hz
      have := (perm_insertByIdFront x ys).mem_iff.mp hz
      rcases List.mem_cons.mp this with rfl | hz
      · omega
      · exact hy.1 z hz

theorem sorted_sortById {α} : ∀ (l : List (α × Nat)), (sortById l).Pairwise (fun a b => a.2 ≤ b.2)
  | [] => by simp [sortById]
  | x :: xs => by
    simp only [sortById, List.foldr_cons]
    exact sorted_insertByIdFront x _ (sorted_sortById xs)

/-! ### lookupAttr and sorting by name -/

theorem lookupAttr_of_not_mem {α} : ∀ (l : List (String × α)) (k : String),
    k ∉ l.map (·.1) → lookupAttr l k = none
  | [], _, _ => by simp [lookupAttr]
  | (k', v) :: rest, k, h => by
    simp only [List.map_cons, List.mem_cons, not_or] at h
    simp only [lookupAttr]
    rw [if_neg (fun e => h.1 e.symm)]
    exact lookupAttr_of_not_mem rest k h.2

theorem perm_insertByName {α} (le) (x : String × α) : ∀ (l : List (String × α)),
    (insertByName le x l).Perm (x :: l)
  | [] => by simp [insertByName]
  | y :: ys => by
    unfold insertByName
    split
    · exact List.Perm.refl _
    · exact ((perm_insertByName le x ys).cons y).trans (List.Perm.swap x y ys)

theorem perm_sortByName {α} (le) : ∀ (l : List (String × α)), (sortByName le l).Perm l
  | [] => by simp [sortByName]
  | x :: xs => by
    simp only [sortByName, List.foldr_cons]
    exact (perm_insertByName le x _).trans ((perm_sortByName le xs).cons x)

/-- with distinct keys, `lookupAttr` is invariant under permutation -/
theorem lookupAttr_perm {α} {l₁ l₂ : List (String × α)} (hp : l₁.Perm l₂)
    (hnd : (l₁.map (·.1)).Nodup) (k : String) : lookupAttr l₁ k = lookupAttr l₂ k := by
  induction hp with
  | nil => rfl
  | cons x _ ih =>
    obtain ⟨k', v⟩ := x
    simp only [List.map_cons, List.nodup_cons] at hnd
    simp only [lookupAttr]
    split
    · rfl
    · exact ih hnd.2
  | swap x y l =>
    obtain ⟨kx, vx⟩ := x
    obtain ⟨ky, vy⟩ := y
    simp only [List.map_cons, List.nodup_cons, List.mem_cons, not_or] at hnd
    simp only [lookupAttr]
    by_cases h1 : ky = k
    · by_cases h2 : kx = k
      · exact absurd (h1.trans h2.symm) hnd.1.1
      · simp [h1, h2]
    · by_cases h2 : kx = k <;> simp [h1, h2]
  | trans h₁ _ ih₁ ih₂ =>
    exact (ih₁ hnd).trans (ih₂ ((h₁.map (·.1)).nodup_iff.mp hnd))

theorem lookupAttr_sortByName {α} (le) (l : List (String × α)) (hnd : (l.map (·.1)).Nodup) (k : String) :
    lookupAttr (sortByName le l) k = lookupAttr l k := by
  have hp := perm_sortByName le l
  have hnd' : ((sortByName le l).map (·.1)).Nodup := (hp.map (·.1)).nodup_iff.mpr hnd
  exact lookupAttr_perm hp hnd' k

/-- sortedness of the output of `sortByName` for a total, transitive order -/
theorem sorted_insertByName {α} (le : String → String → Bool)
    (htot : ∀ a b, le a b = true ∨ le b a = true)
    (htr : ∀ a b c, le a b = true → le b c = true → le a c = true)
    (x : String × α) : ∀ (l : List (String × α)),
    l.Pairwise (fun a b => le a.1 b.1 = true) →
    (insertByName le x l).Pairwise (fun a b => le a.1 b.1 = true)
  | [], _ => by simp [insertByName]
  | y :: ys, h => by
    unfold insertByName
    have hy := List.pairwise_cons.mp h
    split
    · rename_i hxy
      refine List.pairwise_cons.mpr ⟨?_, h⟩
      intro z hz
      rcases List.mem_cons.mp hz with rfl | hz
      · exact hxy
      · exact htr _ _ _ hxy (hy.1 z hz)
    · rename_i hxy
      refine List.pairwise_cons.mpr ⟨?_, sorted_insertByName le htot htr x ys hy.2⟩
      intro z hz
      have := (perm_insertByName le x ys).mem_iff.mp hz
      rcases List.mem_cons.mp this with rfl | hz
      · rcases htot z.1 y.1 with h' | h'
        · exact absurd h' hxy
        · exact h'
      · exact hy.1 z hz

theorem sorted_sortByName {α} (le : String → String → Bool)
    (htot : ∀ a b, le a b = true ∨ le b a = true)
    (htr : ∀ a b c, le a b = true → le b c = true → le a c = true) :
    ∀ (l : List (String × α)), (sortByName le l).Pairwise (fun a b => le a.1 b.1 = true)
  | [] => by simp [sortByName]
  | x :: xs => by
    simp only [sortByName, List.foldr_cons]
    exact sorted_insertByName le htot htr x _ (sorted_sortByName le htot htr xs)

/-- a list that is already strictly sorted is a fixed point of `sortByName` -/
theorem insertByName_of_le_all {α} (le : String → String → Bool) (x : String × α) :
    ∀ (l : List (String × α)), (∀ y ∈ l, le x.1 y.1 = true) → insertByName le x l = x :: l
  | [], _ => by simp [insertByName]
  | y :: ys, h => by
    unfold insertByName
    rw [if_pos (h y (by simp))]

theorem sortByName_of_sorted {α} (le : String → String → Bool) :
    ∀ (l : List (String × α)), l.Pairwise (fun a b => le a.1 b.1 = true) → sortByName le l = l
  | [], _ => by simp [sortByName]
  | x :: xs, h => by
    have hx := List.pairwise_cons.mp h
    simp only [sortByName, List.foldr_cons]
    have ih := sortByName_of_sorted le xs hx.2
    simp only [sortByName] at ih
    rw [ih]
    exact insertByName_of_le_all le x xs hx.1

end AF
