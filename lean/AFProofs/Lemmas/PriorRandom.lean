import AFProofs.Lemmas.Prior

/-!
Lemmas for the random-draw theorems of `AFProofs/C02.lean`: the unit value `Prior.random` maps lies between
the unit limits, the unit limits of the two uniform families are the clamp epsilon and its complement, a
unit value strictly inside the unit interval maps inside the limits of a uniform / log-uniform prior.
-/

open Lean Grind

namespace AF.Prior

section Field
variable {K : Type} [Field K] [LE K] [LT K] [Std.IsLinearOrder K] [Std.LawfulOrderLT K] [OrderedRing K]
  [DecidableLE K] [DecidableLT K]
set_option linter.unusedSectionVars false

/-- `x + (y - x) r` for `0 ≤ r ≤ 1` lies between `x` and `y` (`x ≤ y`) -/
theorem convex_between (x y r : K) (hxy : x ≤ y) (hr0 : 0 ≤ r) (hr1 : r ≤ 1) :
    x ≤ x + (y - x) * r ∧ x + (y - x) * r ≤ y := by
  have h1 := mul_le_mul_left' r 1 (y - x) (by grind) hr1
  have h2 := mul_le_mul_left' 0 r (y - x) (by grind) hr0
  grind

/-- `random.uniform(max(lo, a), min(hi, b))` lies between the unit limits `a ≤ b` whenever the requested
unit interval `[lo, hi]` meets `[a, b]` -/
theorem randomUnit_between (lo hi a b r : K) (hab : a ≤ b) (hlo : lo ≤ b) (hhi : a ≤ hi) (hlohi : lo ≤ hi)
    (hr0 : 0 ≤ r) (hr1 : r ≤ 1) : a ≤ randomUnit lo hi a b r ∧ randomUnit lo hi a b r ≤ b := by
  simp only [randomUnit]
  split <;> split
  all_goals
    rename_i c1 c2
    first
      | (have := convex_between a b r (by grind) hr0 hr1; grind)
      | (have := convex_between a hi r (by grind) hr0 hr1; grind)
      | (have := convex_between lo b r (by grind) hr0 hr1; grind)
      | (have := convex_between lo hi r (by grind) hr0 hr1; grind)

theorem clampUnit_one (S : Special K) (h : Lawful S) : clampUnit S 1 = 1 - S.eps := by
  unfold clampUnit
  have := h.eps_pos
  grind

/-- `log10` is non-decreasing on the positive numbers (from the inverse pair and monotone `10^x`) -/
theorem log10_mono_of_lawful (S : Special K) (h : Lawful S) (x y : K) (hx : 0 < x) (hxy : x ≤ y) :
    S.log10 x ≤ S.log10 y := by
  apply Classical.byContradiction
  intro hn
  have hlt : S.log10 y ≤ S.log10 x := by grind
  have := h.pow10_mono _ _ hlt
  rw [h.pow10_log10 x hx, h.pow10_log10 y (by grind)] at this
  have heq : x = y := by grind
  subst heq
  grind

/-- strictly: `x < y → log10 x < log10 y` -/
theorem log10_strict_of_lawful (S : Special K) (h : Lawful S) (x y : K) (hx : 0 < x) (hxy : x < y) :
    S.log10 x < S.log10 y := by
  apply Classical.byContradiction
  intro hn
  have hlt : S.log10 y ≤ S.log10 x := by grind
  have := h.pow10_mono _ _ hlt
  rw [h.pow10_log10 x hx, h.pow10_log10 y (by grind)] at this
  grind

theorem log_mono_of_lawful (S : Special K) (h : Lawful S) (x y : K) (hx : 0 < x) (hxy : x ≤ y) :
    S.log x ≤ S.log y := by
  apply Classical.byContradiction
  intro hn
  have hlt : S.log y ≤ S.log x := by grind
  have := h.exp_mono _ _ hlt
  rw [h.exp_log x hx, h.exp_log y (by grind)] at this
  have heq : x = y := by grind
  subst heq
  grind

/-- unit limits of the uniform prior: the clamp epsilon of `ndtri` and its complement -/
theorem unitLimits_uniform (S : Special K) (h : Lawful S) (L U m s : K) (hLU : L < U) :
    unitValueFor S ⟨.uniform, L, U, m, s⟩ L = S.eps ∧
    unitValueFor S ⟨.uniform, L, U, m, s⟩ U = 1 - S.eps := by
  have hne : U - L ≠ 0 := by grind
  have e0 : (L - L) / (U - L) = 0 := by grind
  have e1 : (U - L) / (U - L) = 1 := by grind
  have p := h.eps_pos
  have q := h.eps_lt_one
  rw [unit_uniform, unit_uniform, e0, e1, clampUnit_zero S h, clampUnit_one S h,
    h.phi_phiInv _ p q, h.phi_phiInv _ (by grind) (by grind)]
  exact ⟨rfl, rfl⟩

/-- unit limits of the log-uniform prior, given `log10 (U/L) = log10 U - log10 L` for its two limits -/
theorem unitLimits_logUniform (S : Special K) (h : Lawful S) (L U m s : K) (hL : 0 < L) (hLU : L < U)
    (hlog : S.log10 (U / L) = S.log10 U - S.log10 L) :
    unitValueFor S ⟨.logUniform, L, U, m, s⟩ L = S.eps ∧
    unitValueFor S ⟨.logUniform, L, U, m, s⟩ U = 1 - S.eps := by
  have hs := logScale_pos S h L U hL hLU
  have hne : S.log10 (U / L) ≠ 0 := by grind
  have e0 : (S.log10 L - S.log10 L) / S.log10 (U / L) = 0 := by grind
  have e1 : (S.log10 U - S.log10 L) / S.log10 (U / L) = 1 := by rw [← hlog]; grind
  have p := h.eps_pos
  have q := h.eps_lt_one
  rw [unit_logUniform, unit_logUniform, e0, e1, clampUnit_zero S h, clampUnit_one S h,
    h.phi_phiInv _ p q, h.phi_phiInv _ (by grind) (by grind)]
  exact ⟨rfl, rfl⟩

/-- a raw value inside the limits is returned (rounded / clamped for the uniform prior) -/
theorem valueFor_ok_of_in_limits (S : Special K) (cfg : Cfg) (p : Params K) (u : K)
    (h : p.lower ≤ rawValueFor S p u ∧ rawValueFor S p u ≤ p.upper) :
    ∃ v, valueFor S cfg false p u = .ok v := by
  unfold valueFor finish
  have hg : gate false p.lower p.upper (rawValueFor S p u) = .ok (rawValueFor S p u) := by
    unfold gate
    have : inLimits p.lower p.upper (rawValueFor S p u) = true := (inLimits_iff _ _ _).mpr h
    simp [this]
  rw [hg]
  simp only
  split <;> exact ⟨_, rfl⟩

/-- uniform prior: every unit value strictly inside the unit interval maps inside the limits -/
theorem uniform_raw_in_limits (S : Special K) (h : Lawful S) (L U m s u : K) (hLU : L < U)
    (h0 : 0 < u) (h1 : u < 1) :
    L ≤ rawValueFor S ⟨.uniform, L, U, m, s⟩ u ∧ rawValueFor S ⟨.uniform, L, U, m, s⟩ u ≤ U := by
  rw [raw_uniform, h.phi_phiInv u h0 h1]
  have a := mul_le_mul_right' 0 u (U - L) (by grind) (by grind)
  have b := mul_le_mul_right' u 1 (U - L) (by grind) (by grind)
  grind

/-- log-uniform prior: every unit value strictly inside the unit interval maps inside the limits -/
theorem logUniform_raw_in_limits (S : Special K) (h : Lawful S) (L U m s u : K) (hL : 0 < L) (hLU : L < U)
    (hlog : S.log10 (U / L) = S.log10 U - S.log10 L) (h0 : 0 < u) (h1 : u < 1) :
    L ≤ rawValueFor S ⟨.logUniform, L, U, m, s⟩ u ∧ rawValueFor S ⟨.logUniform, L, U, m, s⟩ u ≤ U := by
  have hs := logScale_pos S h L U hL hLU
  rw [raw_logUniform, h.phi_phiInv u h0 h1]
  have a := mul_le_mul_right' 0 u (S.log10 (U / L)) (by grind) (by grind)
  have b := mul_le_mul_right' u 1 (S.log10 (U / L)) (by grind) (by grind)
  have lo := h.pow10_mono (S.log10 L) (u * S.log10 (U / L) + S.log10 L) (by grind)
  have hi := h.pow10_mono (u * S.log10 (U / L) + S.log10 L) (S.log10 U) (by grind)
  rw [h.pow10_log10 L hL] at lo
  rw [h.pow10_log10 U (by grind)] at hi
  exact ⟨lo, hi⟩

end Field

end AF.Prior
