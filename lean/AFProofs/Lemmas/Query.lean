import AFModel.Query

/-! Helper lemmas about the `Query` model (core Lean only). Property theorems: `AFProofs/C10.lean`. -/

namespace AF.Query

variable {α : Type}

/-! ### lists and booleans -/

theorem all_congr_mem {β} {l : List β} {p q : β → Bool} (h : ∀ x ∈ l, p x = q x) : l.all p = l.all q := by
  induction l with
  | nil => rfl
  | cons a l ih =>
    simp only [List.all_cons]
    rw [h a (List.mem_cons_self), ih (fun x hx => h x (List.mem_cons_of_mem _ hx))]

theorem any_congr_mem {β} {l : List β} {p q : β → Bool} (h : ∀ x ∈ l, p x = q x) : l.any p = l.any q := by
  induction l with
  | nil => rfl
  | cons a l ih =>
    simp only [List.any_cons]
    rw [h a (List.mem_cons_self), ih (fun x hx => h x (List.mem_cons_of_mem _ hx))]

theorem all_partition {β} (l : List β) (q p : β → Bool) :
    l.all p = ((l.filter q).all p && (l.filter (fun x => !q x)).all p) := by
  induction l with
  | nil => rfl
  | cons a l ih =>
    cases hq : q a <;> simp [hq, ih, Bool.and_assoc, Bool.and_left_comm]

theorem any_partition {β} (l : List β) (q p : β → Bool) :
    l.any p = ((l.filter q).any p || (l.filter (fun x => !q x)).any p) := by
  induction l with
  | nil => rfl
  | cons a l ih =>
    cases hq : q a <;> simp [hq, ih, Bool.or_assoc, Bool.or_left_comm]

theorem all_and_all {β} (l : List β) (p q : β → Bool) :
    (l.all p && l.all q) = l.all (fun x => p x && q x) := by
  induction l with
  | nil => rfl
  | cons a l ih =>
    simp only [List.all_cons, ← ih]
    cases p a <;> cases q a <;> simp

theorem and_any {β} (l : List β) (b : Bool) (q : β → Bool) :
    (b && l.any q) = l.any (fun x => b && q x) := by
  cases b <;> simp

theorem all_false_of_ne_nil {β} {l : List β} (h : l ≠ []) : l.all (fun _ => false) = false := by
  cases l with
  | nil => exact absurd rfl h
  | cons a l => simp

/-! ### grouping by key -/

theorem mem_dedupKeys {κ} [BEq κ] [LawfulBEq κ] {k : κ} : ∀ {l : List κ}, k ∈ dedupKeys l ↔ k ∈ l
  | [] => by simp [dedupKeys]
  | a :: l => by
    have ih := mem_dedupKeys (k := k) (l := l)
    simp only [dedupKeys, List.mem_cons, List.mem_filter, ih]
    constructor
    · rintro (h | ⟨h, _⟩)
      · exact Or.inl h
      · exact Or.inr h
    · rintro (h | h)
      · exact Or.inl h
      · by_cases hk : k = a
        · exact Or.inl hk
        · refine Or.inr ⟨h, ?_⟩
          simpa using hk

theorem all_groups {β κ} [BEq κ] [LawfulBEq κ] (l : List β) (key : β → κ) (p : β → Bool) :
    l.all p = (dedupKeys (l.map key)).all (fun k => (l.filter (fun x => key x == k)).all p) := by
  rw [Bool.eq_iff_iff]
  simp only [List.all_eq_true, List.mem_filter, mem_dedupKeys, List.mem_map]
  constructor
  · intro h k _ x hx
    exact h x hx.1
  · intro h x hx
    exact h (key x) ⟨x, hx, rfl⟩ x ⟨hx, by simp⟩

theorem any_groups {β κ} [BEq κ] [LawfulBEq κ] (l : List β) (key : β → κ) (p : β → Bool) :
    l.any p = (dedupKeys (l.map key)).any (fun k => (l.filter (fun x => key x == k)).any p) := by
  rw [Bool.eq_iff_iff]
  simp only [List.any_eq_true, List.mem_filter, mem_dedupKeys, List.mem_map]
  constructor
  · rintro ⟨x, hx, hp⟩
    exact ⟨key x, ⟨x, hx, rfl⟩, x, ⟨hx, by simp⟩, hp⟩
  · rintro ⟨k, _, x, hx, hp⟩
    exact ⟨x, hx.1, hp⟩

/-! ### tables -/

@[simp] theorem Tables.union_empty (a : Tables) : a.union {} = a := by
  cases a; simp [Tables.union]

@[simp] theorem Tables.empty_union (a : Tables) : Tables.union {} a = a := by
  cases a; simp [Tables.union]

theorem Tables.union_assoc (a b c : Tables) : (a.union b).union c = a.union (b.union c) := by
  simp [Tables.union, Bool.or_assoc]

@[simp] theorem Tables.union_self (a : Tables) : a.union a = a := by
  cases a; simp [Tables.union]

@[simp] theorem inTables_empty (k : Obj α) : k.inTables {} = true := by
  cases k <;> simp [Obj.inTables]

theorem inTables_union (a b : Tables) (k : Obj α) :
    k.inTables (a.union b) = (k.inTables a && k.inTables b) := by
  cases k <;> simp [Obj.inTables, Tables.union] <;>
    (cases a.value <;> cases a.string <;> cases a.nul <;> cases b.value <;> cases b.string <;> cases b.nul <;> rfl)

theorem contribAll_append (a b : List (Q α)) : contribAll (a ++ b) = (contribAll a).union (contribAll b) := by
  induction a with
  | nil => simp [contribAll]
  | cons x a ih => simp [contribAll, ih, Tables.union_assoc]

theorem inTables_contribAll (cs : List (Q α)) (k : Obj α) :
    k.inTables (contribAll cs) = cs.all (fun c => k.inTables (contrib c)) := by
  induction cs with
  | nil => simp [contribAll]
  | cons c cs ih => simp [contribAll, inTables_union, ih]

theorem contribAll_const {cs : List (Q α)} {t : Tables} (hne : cs ≠ []) (h : ∀ c ∈ cs, contrib c = t) :
    contribAll cs = t := by
  induction cs with
  | nil => exact absurd rfl hne
  | cons c cs ih =>
    have hc := h c (List.mem_cons_self)
    cases cs with
    | nil => simp [contribAll, hc]
    | cons d ds =>
      have := ih (by simp) (fun x hx => h x (List.mem_cons_of_mem _ hx))
      simp only [contribAll] at this ⊢
      rw [this, hc]; simp

theorem contribAll_eq_empty {cs : List (Q α)} (h : ∀ c ∈ cs, contrib c = {}) : contribAll cs = {} := by
  induction cs with
  | nil => rfl
  | cons c cs ih =>
    simp [contribAll, h c (List.mem_cons_self), ih (fun x hx => h x (List.mem_cons_of_mem _ hx))]

theorem contribAll_filter {cs : List (Q α)} {p : Q α → Bool} (h : ∀ c ∈ cs, p c = false → contrib c = {}) :
    contribAll (cs.filter p) = contribAll cs := by
  induction cs with
  | nil => rfl
  | cons c cs ih =>
    have ih' := ih (fun x hx => h x (List.mem_cons_of_mem _ hx))
    cases hp : p c
    · simp [hp, contribAll, ih', h c (List.mem_cons_self) hp]
    · simp [hp, contribAll, ih']

theorem contrib_junction (isAnd : Bool) (cs : List (Q α)) : contrib (junction isAnd cs) = contribAll cs := by
  cases isAnd <;> simp [junction, contrib]

theorem contrib_collapse (isAnd : Bool) (qs : List (Q α)) : contrib (collapse isAnd qs) = contribAll qs := by
  match qs with
  | [] => simp [collapse, contrib_junction]
  | [q] => simp [collapse, contribAll]
  | a :: b :: r => simp [collapse, contrib_junction]

theorem contribAll_flat (isAnd : Bool) (cs : List (Q α)) : contribAll (flat isAnd cs) = contribAll cs := by
  induction cs with
  | nil => rfl
  | cons c cs ih =>
    have : flat isAnd (c :: cs) = flat1 isAnd c ++ flat isAnd cs := by
      simp [flat, List.flatMap_cons]
    rw [this, contribAll_append, ih]
    congr 1
    cases isAnd <;> cases c <;> simp [flat1, contrib, contribAll]

theorem contrib_of_mergeable {cfg : Cfg} {c : Q α} (h : mergeable cfg c = true) : contrib c = {} := by
  cases c <;> simp [mergeable] at h <;> simp [contrib]

/-- the tables of a junction built by `mkJ` are the tables of its arguments -/
theorem contrib_mkJ (cfg : Cfg) : ∀ (fuel : Nat) (isAnd : Bool) (cs : List (Q α)),
    contrib (mkJ cfg fuel isAnd cs) = contribAll cs
  | 0, isAnd, cs => by simp [mkJ, contrib_junction]
  | fuel + 1, isAnd, cs => by
    simp only [mkJ]
    rw [contrib_collapse, contribAll_append]
    rw [contribAll_eq_empty (cs := List.map _ _)]
    · rw [Tables.union_empty, contribAll_filter, contribAll_flat]
      intro c _ hc
      have : mergeable cfg c = true := by simpa using hc
      exact contrib_of_mergeable this
    · intro c hc
      obtain ⟨k, _, rfl⟩ := List.mem_map.mp hc
      simp [contrib]

/-! ### meaning of junctions -/

variable (ops : NumOps α) (f : Fit α)

/-- meaning of `And` / `Or` over a list of conditions -/
def jsem (isAnd : Bool) (cs : List (Q α)) (o : Obj α) : Bool :=
  if isAnd then cs.all (fun c => sem ops f c o) else cs.any (fun c => sem ops f c o)

theorem semAll_eq (cs : List (Q α)) (o : Obj α) : semAll ops f cs o = cs.all (fun c => sem ops f c o) := by
  induction cs with
  | nil => simp [semAll]
  | cons c cs ih => simp [semAll, ih]

theorem semAny_eq (cs : List (Q α)) (o : Obj α) : semAny ops f cs o = cs.any (fun c => sem ops f c o) := by
  induction cs with
  | nil => simp [semAny]
  | cons c cs ih => simp [semAny, ih]

theorem sem_junction (isAnd : Bool) (cs : List (Q α)) (o : Obj α) :
    sem ops f (junction isAnd cs) o = jsem ops f isAnd cs o := by
  cases isAnd <;> simp [junction, sem, jsem, semAll_eq, semAny_eq]

theorem sem_collapse (isAnd : Bool) (qs : List (Q α)) (o : Obj α) :
    sem ops f (collapse isAnd qs) o = jsem ops f isAnd qs o := by
  match qs with
  | [] => simp [collapse, sem_junction]
  | [q] => cases isAnd <;> simp [collapse, jsem]
  | a :: b :: r => simp [collapse, sem_junction]

theorem jsem_append (isAnd : Bool) (a b : List (Q α)) (o : Obj α) :
    jsem ops f isAnd (a ++ b) o =
      (if isAnd then jsem ops f isAnd a o && jsem ops f isAnd b o else jsem ops f isAnd a o || jsem ops f isAnd b o) := by
  cases isAnd <;> simp [jsem]

theorem jsem_flat1 (isAnd : Bool) (c : Q α) (o : Obj α) :
    jsem ops f isAnd (flat1 isAnd c) o = sem ops f c o := by
  cases isAnd <;> cases c <;> simp [flat1, jsem, sem, semAll_eq, semAny_eq]

theorem jsem_flat (isAnd : Bool) (cs : List (Q α)) (o : Obj α) :
    jsem ops f isAnd (flat isAnd cs) o = jsem ops f isAnd cs o := by
  induction cs with
  | nil => rfl
  | cons c cs ih =>
    have : flat isAnd (c :: cs) = flat1 isAnd c ++ flat isAnd cs := by
      simp [flat, List.flatMap_cons]
    rw [this, jsem_append, ih, jsem_flat1]
    cases isAnd <;> simp [jsem]

theorem jsem_partition (isAnd : Bool) (q : Q α → Bool) (cs : List (Q α)) (o : Obj α) :
    jsem ops f isAnd cs o =
      (if isAnd then jsem ops f isAnd (cs.filter q) o && jsem ops f isAnd (cs.filter (fun c => !q c)) o
       else jsem ops f isAnd (cs.filter q) o || jsem ops f isAnd (cs.filter (fun c => !q c)) o) := by
  cases isAnd
  · simp only [jsem]; exact any_partition cs q _
  · simp only [jsem]; exact all_partition cs q _

theorem jsem_groups {κ} [BEq κ] [LawfulBEq κ] (isAnd : Bool) (key : Q α → κ) (cs : List (Q α)) (o : Obj α) :
    jsem ops f isAnd cs o =
      (if isAnd then (dedupKeys (cs.map key)).all (fun k => jsem ops f isAnd (cs.filter (fun x => key x == k)) o)
       else (dedupKeys (cs.map key)).any (fun k => jsem ops f isAnd (cs.filter (fun x => key x == k)) o)) := by
  cases isAnd
  · simp only [jsem]; exact any_groups cs key _
  · simp only [jsem]; exact all_groups cs key _

/-! ### children rows -/

theorem any_name_false {β} {n : String} {R : β → Bool} : ∀ {ks : List (String × β)},
    (ks.map (·.1)).contains n = false → ks.any (fun mk => mk.1 == n && R mk.2) = false
  | [], _ => rfl
  | (m, k) :: r, h => by
    simp only [List.map_cons, List.contains_cons, Bool.or_eq_false_iff] at h
    have hmn : (m == n) = false := by
      have := h.1
      cases hm : (m == n)
      · rfl
      · have : m = n := by simpa using hm
        subst this; simp at h
    simp [hmn, any_name_false (ks := r) h.2]

theorem any_eq_lookup {β} {n : String} {R : β → Bool} : ∀ {ks : List (String × β)},
    nodupNames (ks.map (·.1)) = true →
    ks.any (fun mk => mk.1 == n && R mk.2) = (ks.lookup n).any R
  | [], _ => rfl
  | (m, k) :: r, h => by
    simp only [List.map_cons, nodupNames, Bool.and_eq_true, Bool.not_eq_true'] at h
    by_cases hmn : m = n
    · subst hmn
      simp [List.lookup, any_name_false (R := R) h.1]
    · have h1 : (m == n) = false := by simpa using hmn
      have h2 : (n == m) = false := by simpa using (fun e : n = m => hmn e.symm)
      simp [List.lookup, h1, h2, any_eq_lookup (ks := r) h.2]

theorem WF_node {cls : String} {ks : List (String × Obj α)} (h : (Obj.node cls ks).WF = true) :
    nodupNames (ks.map (·.1)) = true ∧ WFKids ks = true := by
  simpa [Obj.WF] using h

theorem WFKids_mem : ∀ {ks : List (String × Obj α)}, WFKids ks = true → ∀ mk ∈ ks, mk.2.WF = true
  | [], _, _, hm => by simp at hm
  | (m, k) :: r, h, mk, hm => by
    simp only [WFKids, Bool.and_eq_true] at h
    rcases List.mem_cons.mp hm with rfl | hm
    · exact h.1
    · exact WFKids_mem h.2 mk hm

theorem lookup_mem {β} {n : String} {k : β} : ∀ {ks : List (String × β)}, ks.lookup n = some k → (n, k) ∈ ks
  | [], h => by simp [List.lookup] at h
  | (m, j) :: r, h => by
    by_cases hnm : n = m
    · subst hnm; simp [List.lookup] at h; simp [h]
    · have : (n == m) = false := by simpa using hnm
      simp only [List.lookup, this] at h
      exact List.mem_cons_of_mem _ (lookup_mem h)

theorem WF_get {o k : Obj α} {n : String} (h : o.WF = true) (hg : o.get n = some k) : k.WF = true := by
  cases o with
  | node cls ks =>
    have := WF_node h
    exact WFKids_mem this.2 (n, k) (lookup_mem (by simpa [Obj.get, Obj.kids] using hg))
  | _ => simp [Obj.get, Obj.kids] at hg

/-- with unique child names, `o.id IN (SELECT parent_id … WHERE o.name = n AND P)` is a test on *the* child `n` -/
theorem matchKid_eq_get {o : Obj α} (h : o.WF = true) (n : String) (t : Tables) (P : Obj α → Bool) :
    matchKid n t P o = (o.get n).any (fun k => k.inTables t && P k) := by
  cases o with
  | node cls ks =>
    have := WF_node h
    simp only [matchKid, Obj.kids, Obj.get]
    exact any_eq_lookup (n := n) (R := fun k => k.inTables t && P k) this.1
  | _ => simp [matchKid, Obj.kids, Obj.get]

/-! ### merging named queries -/

/-- a positive named query on `n` whose joined tables are `T` (when `T` is given) -/
def GoodNamed (n : String) (T : Option Tables) (q : Q α) : Prop :=
  ∃ c, q = .named n false c ∧ ∀ t, T = some t → contrib c = t

theorem sem_goodNamed {o : Obj α} (h : o.WF = true) {n : String} {T : Option Tables} :
    ∀ (g : List (Q α)), (∀ q ∈ g, GoodNamed n T q) → ∀ (isAnd : Bool),
    jsem ops f isAnd g o =
      (match o.get n with
       | some k => if isAnd then (g.filterMap Q.other).all (fun c => k.inTables (contrib c) && sem ops f c k)
                   else (g.filterMap Q.other).any (fun c => k.inTables (contrib c) && sem ops f c k)
       | none => if isAnd then g.all (fun _ => false) else false) := by
  intro g hg isAnd
  induction g with
  | nil => cases isAnd <;> cases o.get n <;> simp [jsem]
  | cons q g ih =>
    obtain ⟨c, rfl, _⟩ := hg q (List.mem_cons_self)
    have ih' := ih (fun x hx => hg x (List.mem_cons_of_mem _ hx))
    have hq : sem ops f (.named n false c) o = (o.get n).any (fun k => k.inTables (contrib c) && sem ops f c k) := by
      simp [sem, matchKid_eq_get h]
    cases isAnd
    · simp only [jsem, List.any_cons, Bool.false_eq_true, if_false] at ih' ⊢
      rw [ih', hq]
      cases o.get n <;> simp [Q.other]
    · simp only [jsem, List.all_cons, if_true] at ih' ⊢
      rw [ih', hq]
      cases o.get n <;> simp [Q.other]

theorem other_contrib_of_good {n : String} {t : Tables} {g : List (Q α)}
    (hg : ∀ q ∈ g, GoodNamed n (some t) q) : ∀ c ∈ g.filterMap Q.other, contrib c = t := by
  intro c hc
  obtain ⟨q, hq, hqc⟩ := List.mem_filterMap.mp hc
  obtain ⟨c', rfl, hT⟩ := hg q hq
  simp [Q.other] at hqc
  subst hqc
  exact hT t rfl

theorem filterMap_other_ne_nil {n : String} {T : Option Tables} {g : List (Q α)} (hne : g ≠ [])
    (hg : ∀ q ∈ g, GoodNamed n T q) : g.filterMap Q.other ≠ [] := by
  cases g with
  | nil => exact absurd rfl hne
  | cons q g =>
    obtain ⟨c, rfl, _⟩ := hg q (List.mem_cons_self)
    simp [Q.other]

/-- **Merge step.** `Named(n, J(c₁ … cₖ))` means `J(Named(n,c₁) … Named(n,cₖ))` when the child names are unique
(for `Or`: when all members join the same tables). -/
theorem merge_sem (cfg : Cfg) (fuel : Nat) (isAnd : Bool)
    (hsem : ∀ (cs : List (Q α)) (k : Obj α), k.WF = true → sem ops f (mkJ cfg fuel isAnd cs) k = jsem ops f isAnd cs k)
    (g : List (Q α)) (hne : g ≠ []) (n : String) (T : Option Tables) (hT : isAnd = false → T.isSome)
    (hg : ∀ q ∈ g, GoodNamed n T q) (o : Obj α) (hwf : o.WF = true) :
    sem ops f (.named n false (mkJ cfg fuel isAnd (g.filterMap Q.other))) o = jsem ops f isAnd g o := by
  rw [sem_goodNamed ops f hwf g hg isAnd]
  simp only [sem, matchKid_eq_get hwf, contrib_mkJ, Bool.false_bne]
  cases hget : o.get n with
  | none =>
    cases isAnd
    · simp
    · simp [all_false_of_ne_nil hne]
  | some k =>
    have hk : k.WF = true := WF_get hwf hget
    simp only [Option.any_some, hsem _ k hk]
    cases isAnd
    · -- Or: every member joins the same tables
      obtain ⟨t, rfl⟩ := Option.isSome_iff_exists.mp (hT rfl)
      have hc := other_contrib_of_good hg
      rw [contribAll_const (filterMap_other_ne_nil hne hg) hc]
      simp only [jsem, Bool.false_eq_true, if_false]
      rw [and_any]
      exact any_congr_mem (fun c hc' => by rw [hc c hc'])
    · simp only [jsem, if_true]
      rw [inTables_contribAll, all_and_all]

theorem good_of_group {cfg : Cfg} (hcfg : cfg.junctionKeepsNot = true) {isAnd : Bool} {k : String × Option Tables}
    {q : Q α} (hm : mergeable cfg q = true) (hk : groupKey isAnd q = k) : GoodNamed k.1 k.2 q := by
  cases q with
  | named n inv c =>
    simp only [mergeable, hcfg, Bool.true_and, Bool.and_eq_true, Bool.not_eq_true'] at hm
    have hinv : inv = false := hm.2
    subst hinv
    refine ⟨c, ?_, ?_⟩
    · subst hk; simp [groupKey, Q.name]
    · intro t ht
      subst hk
      cases isAnd <;> simp [groupKey, tablesOf] at ht
      exact ht
  | _ => simp [mergeable] at hm

/-- **Junction construction keeps the meaning**: `And(*cs)` is the conjunction, `Or(*cs)` the disjunction of its
arguments, whatever flattening / merging `_match_conditions` performs, for objects with unique child names. -/
theorem mkJ_sem (cfg : Cfg) (hcfg : cfg.junctionKeepsNot = true) : ∀ (fuel : Nat) (isAnd : Bool) (cs : List (Q α))
    (o : Obj α), o.WF = true → sem ops f (mkJ cfg fuel isAnd cs) o = jsem ops f isAnd cs o
  | 0, isAnd, cs, o, _ => by simp [mkJ, sem_junction]
  | fuel + 1, isAnd, cs, o, hwf => by
    have ih := fun cs k hk => mkJ_sem cfg hcfg fuel isAnd cs k hk
    simp only [mkJ]
    rw [sem_collapse, jsem_append]
    rw [← jsem_flat ops f isAnd cs o, jsem_partition ops f isAnd (mergeable cfg) (flat isAnd cs) o]
    rw [jsem_groups ops f isAnd (groupKey isAnd) ((flat isAnd cs).filter (mergeable cfg)) o]
    have hmerged : ∀ k ∈ dedupKeys (((flat isAnd cs).filter (mergeable cfg)).map (groupKey isAnd)),
        sem ops f (Q.named k.1 false (mkJ cfg fuel isAnd
          ((((flat isAnd cs).filter (mergeable cfg)).filter (fun c => groupKey isAnd c == k)).filterMap Q.other))) o
        = jsem ops f isAnd (((flat isAnd cs).filter (mergeable cfg)).filter (fun c => groupKey isAnd c == k)) o := by
      intro k hk
      obtain ⟨q, hq, hqk⟩ := List.mem_map.mp (mem_dedupKeys.mp hk)
      apply merge_sem ops f cfg fuel isAnd ih _ _ k.1 k.2
      · intro hA
        subst hA; subst hqk
        simp [groupKey]
      · intro x hx
        have hx' := List.mem_filter.mp hx
        have hx'' := List.mem_filter.mp hx'.1
        exact good_of_group hcfg hx''.2 (by simpa using hx'.2)
      · exact hwf
      · intro hnil
        have : q ∈ ((flat isAnd cs).filter (mergeable cfg)).filter (fun c => groupKey isAnd c == k) :=
          List.mem_filter.mpr ⟨hq, by simp [hqk]⟩
        rw [hnil] at this
        simp at this
    cases isAnd
    · simp only [Bool.false_eq_true, if_false]
      rw [Bool.or_comm]
      congr 1
      simp only [jsem, Bool.false_eq_true, if_false, List.any_map]
      exact any_congr_mem hmerged
    · simp only [if_true]
      rw [Bool.and_comm]
      congr 1
      simp only [jsem, if_true, List.all_map]
      exact all_congr_mem hmerged

/-! ### paths, negation -/

theorem sem_leafQ (leaf : Leaf α) (o : Obj α) : sem ops f (leafQ leaf) o = leafHolds ops leaf o := by
  cases leaf <;> cases o <;> simp [leafQ, sem, leafHolds, semAll]

theorem leaf_inTables (leaf : Leaf α) (k : Obj α) (h : leafHolds ops leaf k = true) :
    k.inTables (contrib (leafQ leaf)) = true := by
  cases leaf <;> cases k <;> simp_all [leafQ, contrib, contribAll, Obj.inTables, leafHolds]

/-- **Paths.** `Named(a, Named(b, … cond))` holds at `o` iff following `a.b.…` from `o` reaches an object on
which the comparison holds. -/
theorem sem_pathQ (leaf : Leaf α) : ∀ (names : List String) (o : Obj α), o.WF = true →
    sem ops f (pathQ names leaf) o = (o.follow names).any (leafHolds ops leaf)
  | [], o, _ => by simp [pathQ, sem_leafQ, Obj.follow]
  | n :: ns, o, hwf => by
    have hp : pathQ (n :: ns) leaf = .named n false (pathQ ns leaf) := by simp [pathQ]
    rw [hp]
    simp only [sem, matchKid_eq_get hwf, Bool.false_bne, Obj.follow]
    cases hget : o.get n with
    | none => simp
    | some k =>
      have hk := WF_get hwf hget
      simp only [Option.any_some, sem_pathQ leaf ns k hk]
      cases ns with
      | nil =>
        simp only [pathQ, List.foldr_nil, Obj.follow, Option.any_some]
        cases hl : leafHolds ops leaf k
        · simp
        · simp [leaf_inTables ops leaf k hl]
      | cons m ms =>
        have : contrib (pathQ (m :: ms) leaf) = {} := by simp [pathQ, contrib]
        simp [this]

theorem sem_invert (q : Q α) (o : Obj α) : sem ops f (invert q) o = !sem ops f q o := by
  cases q <;> simp [invert, sem]

/-- **Compiler correctness**, pointwise. -/
theorem sem_compile (cfg : Cfg) (hcfg : cfg.junctionKeepsNot = true) (fuel : Nat) (hwf : f.inst.WF = true) :
    ∀ (p : Pred α), sem ops f (compile cfg fuel p) f.inst = evalDirect ops f p
  | .path n ns leaf => by
    simp only [compile, evalDirect, sem_pathQ ops f leaf (n :: ns) f.inst hwf]
    cases f.inst.follow (n :: ns) <;> simp
  | .fitc c => by simp [compile, sem, evalDirect]
  | .and x y => by
    simp only [compile, evalDirect, mkJ_sem ops f cfg hcfg fuel true _ f.inst hwf, jsem, if_true, List.all_cons,
      List.all_nil, Bool.and_true, sem_compile cfg hcfg fuel hwf x, sem_compile cfg hcfg fuel hwf y]
  | .or x y => by
    simp only [compile, evalDirect, mkJ_sem ops f cfg hcfg fuel false _ f.inst hwf, jsem, Bool.false_eq_true, if_false,
      List.any_cons, List.any_nil, Bool.or_false, sem_compile cfg hcfg fuel hwf x, sem_compile cfg hcfg fuel hwf y]
  | .not x => by
    simp only [compile, evalDirect, sem_invert, sem_compile cfg hcfg fuel hwf x]


/-! ### the flattened object table -/

section rows
variable {α : Type} [DecidableEq α] (ops : NumOps α) (T : List (Row α)) (f : Fit α)


theorem inTables_of_rep (t : Tables) (r : Row α) (o : Obj α) (h : repCheck T r o = true) :
    r.inTables t = o.inTables t := by
  cases o <;> simp [repCheck] at h <;> simp [Row.inTables, Obj.inTables, h.1]

theorem repKids_any (n : String) (g : Row α → Bool) (g' : Obj α → Bool) :
    ∀ (rs : List (Row α)) (ks : List (String × Obj α)), repKids T rs ks = true →
      (∀ r o, repCheck T r o = true → g r = g' o) →
      rs.any (fun r => r.name == n && g r) = ks.any (fun mk => mk.1 == n && g' mk.2)
  | [], [], _, _ => rfl
  | [], _ :: _, h, _ => by simp [repKids] at h
  | _ :: _, [], h, _ => by simp [repKids] at h
  | r :: rs, (m, o) :: ks, h, hg => by
    simp only [repKids, Bool.and_eq_true, beq_iff_eq] at h
    obtain ⟨⟨hn, hr⟩, hrest⟩ := h
    simp only [List.any_cons, hn, hg r o hr, repKids_any n g g' rs ks hrest hg]

omit [DecidableEq α] in
theorem kids_any_eq (r : Row α) (g : Row α → Bool) :
    T.any (fun r' => r'.parent == some r.id && g r') = (kidsOf T r).any g := by
  simp [kidsOf, List.any_filter]

mutual
/-- **The relational meaning over the stored rows is the meaning on the stored object.** -/
theorem rsem_eq_sem : ∀ (q : Q α) (r : Row α) (o : Obj α), repCheck T r o = true →
    rsem ops T f q r = sem ops f q o
  | .value op c, r, o, h => by cases o <;> simp [repCheck] at h <;> simp [rsem, sem, h.1]
  | .strv op s, r, o, h => by cases o <;> simp [repCheck] at h <;> simp [rsem, sem, h.1]
  | .isNone, r, o, h => by cases o <;> simp [repCheck] at h <;> simp [rsem, sem, h.1]
  | .type cp, r, o, h => by cases o <;> simp [repCheck] at h <;> simp [rsem, sem, h.1]
  | .fitc c, r, o, h => by simp [rsem, sem]
  | .inverted q, r, o, h => by simp [rsem, sem, rsem_eq_sem q r o h]
  | .and cs, r, o, h => by simp only [rsem, sem]; exact rsemAll_eq_semAll cs r o h
  | .or cs, r, o, h => by simp only [rsem, sem]; exact rsemAny_eq_semAny cs r o h
  | .named n inv c, r, o, h => by
    simp only [rsem, sem, matchKid]
    rw [kids_any_eq T r (fun r' => r'.name == n && (r'.inTables (contrib c) && rsem ops T f c r'))]
    congr 1
    have hg : ∀ r' o', repCheck T r' o' = true →
        (r'.inTables (contrib c) && rsem ops T f c r') = (o'.inTables (contrib c) && sem ops f c o') := by
      intro r' o' h'
      rw [inTables_of_rep T _ r' o' h', rsem_eq_sem c r' o' h']
    cases o with
    | node cls ks =>
      simp only [repCheck, Bool.and_eq_true] at h
      exact repKids_any T n _ _ _ ks h.2 hg
    | num x => simp [repCheck] at h; simp [Obj.kids, h.2]
    | str s => simp [repCheck] at h; simp [Obj.kids, h.2]
    | nul => simp [repCheck] at h; simp [Obj.kids, h.2]
theorem rsemAll_eq_semAll : ∀ (cs : List (Q α)) (r : Row α) (o : Obj α), repCheck T r o = true →
    rsemAll ops T f cs r = semAll ops f cs o
  | [], _, _, _ => by simp [rsemAll, semAll]
  | c :: cs, r, o, h => by simp [rsemAll, semAll, rsem_eq_sem c r o h, rsemAll_eq_semAll cs r o h]
theorem rsemAny_eq_semAny : ∀ (cs : List (Q α)) (r : Row α) (o : Obj α), repCheck T r o = true →
    rsemAny ops T f cs r = semAny ops f cs o
  | [], _, _, _ => by simp [rsemAny, semAny]
  | c :: cs, r, o, h => by simp [rsemAny, semAny, rsem_eq_sem c r o h, rsemAny_eq_semAny cs r o h]
end



end rows

/-! ### ordering -/

section order
variable {β : Type} (le : β → β → Bool)

theorem perm_insertBy (x : β) : ∀ (l : List β), (insertBy le x l).Perm (x :: l)
  | [] => by simp [insertBy]
  | y :: ys => by
    simp only [insertBy]
    split
    · exact List.Perm.refl _
    · exact ((List.perm_cons y).mpr (perm_insertBy x ys)).trans (List.Perm.swap x y ys)

theorem perm_isort : ∀ (l : List β), (isort le l).Perm l
  | [] => by simp [isort]
  | x :: xs => by
    simp only [isort]
    exact (perm_insertBy le x _).trans ((List.perm_cons x).mpr (perm_isort xs))

theorem sorted_insertBy (htrans : ∀ a b c, le a b = true → le b c = true → le a c = true)
    (htotal : ∀ a b, le a b = true ∨ le b a = true) (x : β) :
    ∀ (l : List β), l.Pairwise (fun a b => le a b = true) → (insertBy le x l).Pairwise (fun a b => le a b = true)
  | [], _ => by simp [insertBy]
  | y :: ys, h => by
    have hy := List.pairwise_cons.mp h
    simp only [insertBy]
    split
    · rename_i hxy
      refine List.pairwise_cons.mpr ⟨?_, h⟩
      intro z hz
      rcases List.mem_cons.mp hz with rfl | hz
      · exact hxy
      · exact htrans _ _ _ hxy (hy.1 z hz)
    · rename_i hxy
      have hyx : le y x = true := by
        rcases htotal x y with h1 | h1
        · exact absurd h1 hxy
        · exact h1
      refine List.pairwise_cons.mpr ⟨?_, sorted_insertBy htrans htotal x ys hy.2⟩
      intro z hz
      rcases List.mem_cons.mp ((perm_insertBy le x ys).mem_iff.mp hz) with rfl | hz
      · exact hyx
      · exact hy.1 z hz

theorem sorted_isort (htrans : ∀ a b c, le a b = true → le b c = true → le a c = true)
    (htotal : ∀ a b, le a b = true ∨ le b a = true) :
    ∀ (l : List β), (isort le l).Pairwise (fun a b => le a b = true)
  | [] => by simp [isort]
  | x :: xs => by
    simp only [isort]
    exact sorted_insertBy le htrans htotal x _ (sorted_isort htrans htotal xs)

end order

section lex
variable (numLe : α → α → Bool)

theorem avalLe_total (htotal : ∀ a b, numLe a b = true ∨ numLe b a = true) (a b : AVal α) :
    avalLe numLe a b = true ∨ avalLe numLe b a = true := by
  cases a <;> cases b <;> simp [avalLe]
  case str.str s t =>
    rcases String.le_total s t with h | h
    · exact Or.inl (String.not_lt.mpr h)
    · exact Or.inr (String.not_lt.mpr h)
  case bool.bool x y => cases x <;> cases y <;> simp
  case num.num x y => exact htotal x y

theorem avalLe_trans (htrans : ∀ a b c, numLe a b = true → numLe b c = true → numLe a c = true) (a b c : AVal α) :
    avalLe numLe a b = true → avalLe numLe b c = true → avalLe numLe a c = true := by
  cases a <;> cases b <;> cases c <;> simp [avalLe]
  case str.str.str s t u =>
    intro h1 h2
    exact String.not_lt.mpr (String.le_trans (String.not_lt.mp h1) (String.not_lt.mp h2))
  case bool.bool.bool x y z => cases x <;> cases y <;> cases z <;> simp
  case num.num.num x y z => exact htrans x y z

/-- the comparison on column `k` with DESC taken into account -/
def keyR (k : OrderKey) (u v : AVal α) : Bool := if k.reverse then avalLe numLe v u else avalLe numLe u v

theorem lexLe_cons (k : OrderKey) (ks : List OrderKey) (x y : Fit α) :
    lexLe numLe (k :: ks) x y =
      (if keyR numLe k (x.attr k.attr) (y.attr k.attr) && !keyR numLe k (y.attr k.attr) (x.attr k.attr) then true
       else if keyR numLe k (y.attr k.attr) (x.attr k.attr) && !keyR numLe k (x.attr k.attr) (y.attr k.attr) then false
       else lexLe numLe ks x y) := by
  cases k with
  | mk attr rev => cases rev <;> simp [lexLe, keyR]

theorem lexLe_total : ∀ (ks : List OrderKey) (x y : Fit α), lexLe numLe ks x y = true ∨ lexLe numLe ks y x = true
  | [], _, _ => by simp [lexLe]
  | k :: ks, x, y => by
    rw [lexLe_cons, lexLe_cons]
    have ih := lexLe_total ks x y
    generalize keyR numLe k (x.attr k.attr) (y.attr k.attr) = r1 at *
    generalize keyR numLe k (y.attr k.attr) (x.attr k.attr) = r2 at *
    cases r1 <;> cases r2 <;> simp [ih]

theorem bool_lex_trans :
    ∀ (xy yx yz zy xz zx l1 l2 l3 : Bool),
      (xy || yx) = true → (yz || zy) = true → (xz || zx) = true →
      (xy && yz → xz) → (zy && yx → zx) → (yz && zx → yx) → (zx && xy → zy) → (xz && zy → xy) → (yx && xz → yz) →
      (l1 && l2 → l3) →
      (if xy && !yx then true else if yx && !xy then false else l1) = true →
      (if yz && !zy then true else if zy && !yz then false else l2) = true →
      (if xz && !zx then true else if zx && !xz then false else l3) = true := by
  intro xy yx yz zy xz zx l1 l2 l3
  cases xy <;> cases yx <;> cases yz <;> cases zy <;> cases xz <;> cases zx <;>
    cases l1 <;> cases l2 <;> cases l3 <;> simp

theorem lexLe_trans (htotal : ∀ a b, numLe a b = true ∨ numLe b a = true)
    (htrans : ∀ a b c, numLe a b = true → numLe b c = true → numLe a c = true) :
    ∀ (ks : List OrderKey) (x y z : Fit α),
      lexLe numLe ks x y = true → lexLe numLe ks y z = true → lexLe numLe ks x z = true
  | [], _, _, _ => by simp [lexLe]
  | k :: ks, x, y, z => by
    rw [lexLe_cons, lexLe_cons, lexLe_cons]
    have ih := lexLe_trans htotal htrans ks x y z
    have T : ∀ u v, keyR numLe k u v = true ∨ keyR numLe k v u = true := by
      intro u v
      simp only [keyR]
      cases k.reverse
      · simpa using avalLe_total numLe htotal u v
      · simpa using avalLe_total numLe htotal v u
    have R : ∀ u v w, keyR numLe k u v = true → keyR numLe k v w = true → keyR numLe k u w = true := by
      intro u v w
      simp only [keyR]
      cases k.reverse
      · simpa using avalLe_trans numLe htrans u v w
      · simpa using fun h1 h2 => avalLe_trans numLe htrans w v u h2 h1
    have tXY := T (x.attr k.attr) (y.attr k.attr)
    have tYZ := T (y.attr k.attr) (z.attr k.attr)
    have tXZ := T (x.attr k.attr) (z.attr k.attr)
    have r1 := R (x.attr k.attr) (y.attr k.attr) (z.attr k.attr)
    have r2 := R (z.attr k.attr) (y.attr k.attr) (x.attr k.attr)
    have r3 := R (y.attr k.attr) (z.attr k.attr) (x.attr k.attr)
    have r4 := R (z.attr k.attr) (x.attr k.attr) (y.attr k.attr)
    have r5 := R (x.attr k.attr) (z.attr k.attr) (y.attr k.attr)
    have r6 := R (y.attr k.attr) (x.attr k.attr) (z.attr k.attr)
    apply bool_lex_trans _ _ _ _ _ _ (lexLe numLe ks x y) (lexLe numLe ks y z) (lexLe numLe ks x z)
    · simpa using tXY
    · simpa using tYZ
    · simpa using tXZ
    · simpa using r1
    · simpa using r2
    · simpa using r3
    · simpa using r4
    · simpa using r5
    · simpa using r6
    · simpa using ih

end lex

/-! ### slicing -/

theorem normIdx_le (len : Nat) (i : Int) : normIdx len i ≤ len := by
  simp only [normIdx]
  split <;> omega

theorem window_slice {β} (w : Window) (full : List β) (s e : Nat) (he : e ≤ (w.apply full).length) :
    (Window.apply { off := w.off + s, lim := some (e - s) } full) = ((w.apply full).drop s).take (e - s) := by
  cases w with
  | mk off lim =>
    cases lim with
    | none => simp [Window.apply, List.drop_drop]
    | some n =>
      simp only [Window.apply, List.length_take, List.length_drop] at he ⊢
      rw [List.drop_take, List.take_take, List.drop_drop]
      congr 1
      omega

theorem sliceWindow_repaired {β} (cfg : Cfg) (h : cfg.sliceWindow = true) (w : Window) (full : List β)
    (a b : Option Int) :
    (sliceWindow cfg w (w.apply full).length a b).apply full = pySlice (w.apply full) a b := by
  simp only [sliceWindow, h, if_true, pySlice]
  apply window_slice
  cases b with
  | none => simp
  | some i => simpa using normIdx_le _ i

theorem sliceChain_repaired {β} (cfg : Cfg) (h : cfg.sliceWindow = true) (full : List β) :
    ∀ (slices : List (Option Int × Option Int)) (w : Window),
      (sliceChain cfg full w slices).apply full
        = slices.foldl (fun cur ab => pySlice cur ab.1 ab.2) (w.apply full)
  | [], w => by simp [sliceChain]
  | (a, b) :: rest, w => by
    simp only [sliceChain, List.foldl_cons]
    rw [sliceChain_repaired cfg h full rest, sliceWindow_repaired cfg h]

/-! ### concrete witnesses (numbers := Nat) -/

namespace Witness

def natOps : NumOps Nat :=
  ⟨fun op a b => match op with
    | .eq => a == b | .lt => decide (a < b) | .le => decide (a ≤ b) | .gt => decide (a > b) | .ge => decide (a ≥ b)⟩

/-- an instance `Collection(g = Gaussian(centre, sigma), tag = "t")` -/
def inst (centre sigma : Nat) : Obj Nat :=
  .node "Collection" [("g", .node "Gaussian" [("centre", .num centre), ("sigma", .num sigma), ("note", .nul)]),
                      ("tag", .str "t")]

def fit (id : String) (centre sigma : Nat) (complete : Bool) : Fit Nat :=
  { id := id, inst := inst centre sigma,
    attrs := [("id", .str id), ("is_complete", .bool complete), ("unique_tag", if complete then .str "done" else .null)],
    info := [("k", id)] }

def db : List (Fit Nat) := [fit "a" 1 2 true, fit "b" 3 2 false, fit "c" 1 5 true, fit "d" 4 4 false, fit "e" 0 2 true]

/-- `~(g.centre == 1) & (g.sigma == 2)` -/
def notMerge : Pred Nat :=
  .and (.not (.path "g" ["centre"] (.num .eq 1))) (.path "g" ["sigma"] (.num .eq 2))

/-- `((g.centre < 3) | (g.sigma >= 5) | ~is_complete) & ~((g == Gaussian) & (g.note == None) & (info[k] == "d"))` -/
def mixed : Pred Nat :=
  .and (.or (.or (.path "g" ["centre"] (.num .lt 3)) (.path "g" ["sigma"] (.num .ge 5))) (.not (.fitc (.boolAttr "is_complete"))))
       (.not (.and (.and (.path "g" [] (.cls "Gaussian")) (.path "g" ["note"] .nul)) (.fitc (.info "k" "d"))))

/-- object table holding the instances of fits "a" (root row 1) and "b" (root row 2) -/
def table : List (Row Nat) := [
  ⟨1, none, "", .inst "Collection"⟩, ⟨2, none, "", .inst "Collection"⟩,
  ⟨3, some 1, "g", .inst "Gaussian"⟩, ⟨4, some 1, "tag", .str "t"⟩,
  ⟨5, some 2, "g", .inst "Gaussian"⟩, ⟨6, some 2, "tag", .str "t"⟩,
  ⟨7, some 3, "centre", .num 1⟩, ⟨8, some 3, "sigma", .num 2⟩, ⟨9, some 3, "note", .nul⟩,
  ⟨10, some 5, "centre", .num 3⟩, ⟨11, some 5, "sigma", .num 2⟩, ⟨12, some 5, "note", .nul⟩]

end Witness

end AF.Query
