import AFModel.SamplesStats
import AFProofs.Lemmas.SamplesIO

/-! Lemmas about `AF.SamplesStats`: sorting is a function of the multiset (distinct values), columns
follow the parameters when the parameter order changes. -/

namespace AF.SamplesStats
open AF.SamplesIO

/-! ## insertion sort of (value, weight) pairs -/

theorem insertVW_perm (p : Rat × Rat) : ∀ (l : List (Rat × Rat)), (insertVW p l).Perm (p :: l)
  | [] => List.Perm.refl _
  | q :: rest => by
    unfold insertVW
    split
    · exact List.Perm.refl _
    · exact ((insertVW_perm p rest).cons q).trans (List.Perm.swap p q rest)

theorem sortVW_perm : ∀ (l : List (Rat × Rat)), (sortVW l).Perm l
  | [] => List.Perm.refl _
  | p :: rest => (insertVW_perm p (sortVW rest)).trans ((sortVW_perm rest).cons p)

theorem insertVW_sorted (p : Rat × Rat) : ∀ (l : List (Rat × Rat)),
    l.Pairwise (fun a b => a.1 ≤ b.1) → (insertVW p l).Pairwise (fun a b => a.1 ≤ b.1)
  | [], _ => by simp [insertVW]
  | q :: rest, h => by
    unfold insertVW
    have hq := List.pairwise_cons.mp h
    split
    · rename_i hle
      refine List.pairwise_cons.mpr ⟨?_, h⟩
      intro b hb
      rcases List.mem_cons.mp hb with rfl | hb
      · exact hle
      · exact Rat.le_trans hle (hq.1 b hb)
    · rename_i hnle
      refine List.pairwise_cons.mpr ⟨?_, insertVW_sorted p rest hq.2⟩
      intro b hb
      have hb' : b ∈ p :: rest := (insertVW_perm p rest).mem_iff.mp hb
      rcases List.mem_cons.mp hb' with rfl | hb'
      · rcases @Rat.le_total b.1 q.1 with h1 | h1
        · exact absurd h1 hnle
        · exact h1
      · exact hq.1 b hb'

theorem sortVW_sorted : ∀ (l : List (Rat × Rat)), (sortVW l).Pairwise (fun a b => a.1 ≤ b.1)
  | [] => List.Pairwise.nil
  | p :: rest => insertVW_sorted p (sortVW rest) (sortVW_sorted rest)

/-- pairs with pairwise different values are determined by their value -/
theorem eq_of_fst_eq_of_nodup : ∀ (l : List (Rat × Rat)), (l.map (·.1)).Nodup →
    ∀ a ∈ l, ∀ b ∈ l, a.1 = b.1 → a = b
  | [], _, a, ha, _, _, _ => by cases ha
  | x :: rest, hnd, a, ha, b, hb, hab => by
    have hnd' : x.1 ∉ rest.map (·.1) ∧ (rest.map (·.1)).Nodup := List.nodup_cons.mp hnd
    rcases List.mem_cons.mp ha with rfl | ha2 <;> rcases List.mem_cons.mp hb with rfl | hb2
    · rfl
    · exact absurd (show a.1 ∈ rest.map (·.1) from List.mem_map.mpr ⟨b, hb2, hab.symm⟩) hnd'.1
    · exact absurd (show b.1 ∈ rest.map (·.1) from List.mem_map.mpr ⟨a, ha2, hab⟩) hnd'.1
    · exact eq_of_fst_eq_of_nodup rest hnd'.2 a ha2 b hb2 hab

/-- the sorted pairs are a function of the multiset when no value repeats -/
theorem sortVW_eq_of_perm {l₁ l₂ : List (Rat × Rat)} (hp : l₁.Perm l₂) (hnd : (l₁.map (·.1)).Nodup) :
    sortVW l₁ = sortVW l₂ := by
  have hperm : (sortVW l₁).Perm (sortVW l₂) := (sortVW_perm l₁).trans (hp.trans (sortVW_perm l₂).symm)
  refine List.Perm.eq_of_pairwise ?_ (sortVW_sorted l₁) (sortVW_sorted l₂) hperm
  intro a b ha hb hab hba
  have ha' : a ∈ l₁ := (sortVW_perm l₁).mem_iff.mp ha
  have hb' : b ∈ l₁ := hp.mem_iff.mpr ((sortVW_perm l₂).mem_iff.mp hb)
  exact eq_of_fst_eq_of_nodup l₁ hnd a ha' b hb' (Rat.le_antisymm hab hba)

theorem wquantile_eq_of_perm (q : Rat) {l₁ l₂ : List (Rat × Rat)} (hp : l₁.Perm l₂)
    (hnd : (l₁.map (·.1)).Nodup) : wquantile q l₁ = wquantile q l₂ := by
  unfold wquantile
  rw [sortVW_eq_of_perm hp hnd]

/-! ## insertion sort of values -/

theorem insertR_perm (x : Rat) : ∀ (l : List Rat), (insertR x l).Perm (x :: l)
  | [] => List.Perm.refl _
  | y :: rest => by
    unfold insertR
    split
    · exact List.Perm.refl _
    · exact ((insertR_perm x rest).cons y).trans (List.Perm.swap x y rest)

theorem sortR_perm : ∀ (l : List Rat), (sortR l).Perm l
  | [] => List.Perm.refl _
  | x :: rest => (insertR_perm x (sortR rest)).trans ((sortR_perm rest).cons x)

theorem insertR_sorted (x : Rat) : ∀ (l : List Rat),
    l.Pairwise (· ≤ ·) → (insertR x l).Pairwise (· ≤ ·)
  | [], _ => by simp [insertR]
  | y :: rest, h => by
    unfold insertR
    have hq := List.pairwise_cons.mp h
    split
    · rename_i hle
      refine List.pairwise_cons.mpr ⟨?_, h⟩
      intro b hb
      rcases List.mem_cons.mp hb with rfl | hb
      · exact hle
      · exact Rat.le_trans hle (hq.1 b hb)
    · rename_i hnle
      refine List.pairwise_cons.mpr ⟨?_, insertR_sorted x rest hq.2⟩
      intro b hb
      have hb' : b ∈ x :: rest := (insertR_perm x rest).mem_iff.mp hb
      rcases List.mem_cons.mp hb' with rfl | hb'
      · rcases @Rat.le_total b y with h1 | h1
        · exact absurd h1 hnle
        · exact h1
      · exact hq.1 b hb'

theorem sortR_sorted : ∀ (l : List Rat), (sortR l).Pairwise (· ≤ ·)
  | [] => List.Pairwise.nil
  | x :: rest => insertR_sorted x (sortR rest) (sortR_sorted rest)

theorem sortR_eq_of_perm {l₁ l₂ : List Rat} (hp : l₁.Perm l₂) : sortR l₁ = sortR l₂ := by
  have hperm : (sortR l₁).Perm (sortR l₂) := (sortR_perm l₁).trans (hp.trans (sortR_perm l₂).symm)
  exact List.Perm.eq_of_pairwise (fun a b _ _ hab hba => Rat.le_antisymm hab hba)
    (sortR_sorted l₁) (sortR_sorted l₂) hperm

theorem percentile_eq_of_perm (p : Rat) {l₁ l₂ : List Rat} (hp : l₁.Perm l₂) :
    percentile p l₁ = percentile p l₂ := by
  unfold percentile
  rw [sortR_eq_of_perm hp]

/-! ## reindexing -/

theorem mapOpt_getD {α β} (f : α → Option β) (da : α) (db : β) : ∀ (l : List α) (r : List β),
    mapOpt f l = some r → ∀ i, i < l.length → f (l.getD i da) = some (r.getD i db)
  | [], _, _, i, hi => by cases hi
  | a :: as, r, h, i, hi => by
    obtain ⟨b, bs, hb, hbs, rfl⟩ := (mapOpt_eq_some_iff_cons f a as r).mp h
    cases i with
    | zero => simpa using hb
    | succ i =>
      have := mapOpt_getD f da db as bs hbs i (Nat.lt_of_succ_lt_succ hi)
      simpa using this

theorem mapOpt_reindex {α β} (f : α → Option β) (da : α) (db : β) (l : List α) (r : List β)
    (h : mapOpt f l = some r) : ∀ (idx : List Nat), (∀ i ∈ idx, i < l.length) →
    mapOpt f (idx.map (l.getD · da)) = some (idx.map (r.getD · db))
  | [], _ => rfl
  | i :: rest, hidx => by
    have h1 := mapOpt_getD f da db l r h i (hidx i (by simp))
    have h2 := mapOpt_reindex f da db l r h rest (fun j hj => hidx j (by simp [hj]))
    simp only [List.map_cons]
    exact mapOpt_cons_some f _ _ _ _ h1 h2

/-- one sample looked up under the reordered model: the same values in the new order -/
theorem paramList_reorder {V} [Inhabited V] (cfg : Cfg) (sh : Shape) (s : Sample V) (row : List V)
    (h : paramList cfg sh s = some row) (idx : List Nat) (hidx : ∀ i ∈ idx, i < sh.length) :
    paramList cfg (reorder idx sh) s = some (permuteRow idx row) := by
  unfold paramList reorder permuteRow
  exact mapOpt_reindex _ default default sh row h idx hidx

theorem paramLists_reorder {V} [Inhabited V] (cfg : Cfg) (sh : Shape) (idx : List Nat)
    (hidx : ∀ i ∈ idx, i < sh.length) : ∀ (ss : List (Sample V)) (rows : List (List V)),
    mapOpt (paramList cfg sh) ss = some rows →
    mapOpt (paramList cfg (reorder idx sh)) ss = some (rows.map (permuteRow idx))
  | [], rows, h => by
    cases rows with
    | nil => rfl
    | cons _ _ => simp [mapOpt] at h
  | s :: rest, rows, h => by
    obtain ⟨row, rows', h1, h2, rfl⟩ := (mapOpt_eq_some_iff_cons _ s rest rows).mp h
    simp only [List.map_cons]
    exact mapOpt_cons_some _ _ _ _ _ (paramList_reorder cfg sh s row h1 idx hidx)
      (paramLists_reorder cfg sh idx hidx rest rows' h2)

theorem colAt_permute (idx : List Nat) (rows : List (List Rat)) (k : Nat) (hk : k < idx.length) :
    colAt k (rows.map (permuteRow idx)) = colAt (idx[k]) rows := by
  unfold colAt permuteRow
  rw [List.map_map]
  apply List.map_congr_left
  intro r _
  simp [List.getD, hk]
  rfl

/-- the per-parameter statistics of reordered rows are the reordered statistics -/
theorem perColumn_permute {R} (stat : List Rat → Option R) (n : Nat) (idx : List Nat)
    (hidx : ∀ i ∈ idx, i < n) (rows : List (List Rat)) :
    perColumn idx.length stat (rows.map (permuteRow idx)) = permuteRow idx (perColumn n stat rows) := by
  unfold perColumn
  apply List.ext_getElem
  · simp [permuteRow]
  · intro k h1 h2
    have hk : k < idx.length := by simpa using h1
    have hin : idx[k] < n := hidx _ (List.getElem_mem hk)
    simp only [List.getElem_map, List.getElem_range, permuteRow]
    rw [colAt_permute idx rows k hk]
    simp [List.getD, hin]

/-! ## best and most probable sample -/

theorem argmaxFirst_isSome {V} (gt : V → V → Bool) (l : List V) (h : l ≠ []) :
    (argmaxFirst gt l).isSome := by
  cases l with
  | nil => exact absurd rfl h
  | cons _ _ => rfl

end AF.SamplesStats
