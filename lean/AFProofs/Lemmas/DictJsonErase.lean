import AFProofs.Lemmas.DictJson

/-! The skeleton (`pnErase`) of the rich composition commutes with renaming and with the reload names;
the instance does not depend on operand names; repeated round trips (C08). -/

namespace AF

variable {V : Type}

/-! ### pnErase commutes with renaming -/

theorem arithAttrs_rename (σ : Nat → Nat) (ln rn : String) (a b : Node V) :
    arithAttrs ln rn (renameIds σ a) (renameIds σ b) = renameAttrs σ (arithAttrs ln rn a b) := by
  unfold arithAttrs
  split <;> simp [renameAttrs]

mutual
theorem pnErase_rename (sig : String → List String) (σ : Nat → Nat) : ∀ (n : PN V),
    pnErase sig (renamePN σ n) = renameIds σ (pnErase sig n)
  | .prior _ _ => by simp [renamePN, pnErase, renameIds]
  | .lit s => by cases s <;> simp [renamePN, pnErase, renameIds]
  | .model _ attrs _ => by simp [renamePN, pnErase, renameIds, pnEraseAttrs_rename sig σ attrs]
  | .inst _ _ => by simp [renamePN, pnErase, renameIds]
  | .coll _ attrs _ => by simp [renamePN, pnErase, renameIds, pnEraseAttrs_rename sig σ attrs]
  | .tuple attrs => by simp [renamePN, pnErase, renameIds, pnEraseAttrs_rename sig σ attrs]
  | .arith _ ln rn l r => by
      simp only [renamePN, pnErase, renameIds, pnErase_rename sig σ l, pnErase_rename sig σ r, arithAttrs_rename]
  | .both _ _ => by simp [renamePN, pnErase, renameIds]
  | .modif _ _ x => by simp [renamePN, pnErase, renameIds, renameAttrs, pnErase_rename sig σ x]
  | .array _ attrs => by simp [renamePN, pnErase, renameIds, pnEraseAttrs_rename sig σ attrs]
  | .list _ _ => by simp [renamePN, pnErase, renameIds]
theorem pnEraseAttrs_rename (sig : String → List String) (σ : Nat → Nat) : ∀ (attrs : List (String × PN V)),
    pnEraseAttrs sig (renamePNAttrs σ attrs) = renameAttrs σ (pnEraseAttrs sig attrs)
  | [] => by simp [renamePNAttrs, pnEraseAttrs, renameAttrs]
  | (k, n) :: rest => by
    simp [renamePNAttrs, pnEraseAttrs, renameAttrs, pnErase_rename sig σ n, pnEraseAttrs_rename sig σ rest]
end

/-! ### pnErase commutes with the reload names -/

theorem samePrior_erase (sig : String → List String) (a b : PN V) :
    samePrior (pnErase sig a) (pnErase sig b) = samePN a b := by
  cases a <;> cases b <;> simp [pnErase, samePrior, samePN] <;>
    (first | (rename_i s; cases s <;> simp [pnErase]) | (rename_i s _ _; cases s <;> simp [pnErase]) | skip)

theorem arithAttrs_reload (sig : String → List String) (a b : PN V) :
    arithAttrs (reloadLeftName a b) "right_" (pnErase sig a) (pnErase sig b) =
      operandAttrs (pnErase sig a) (pnErase sig b) := by
  unfold arithAttrs reloadLeftName operandAttrs
  rw [samePrior_erase]
  cases samePN a b <;> simp

mutual
theorem pnErase_canon (sig : String → List String) (dflt : String → List (String × Scal V)) : ∀ (n : PN V),
    pnErase sig (canonPN dflt n) = canonNames (pnErase sig n)
  | .prior _ _ => by simp [canonPN, pnErase, canonNames]
  | .lit s => by cases s <;> simp [canonPN, pnErase, canonNames]
  | .model _ attrs _ => by simp [canonPN, pnErase, canonNames, pnEraseAttrs_canon sig dflt attrs]
  | .inst _ _ => by simp [canonPN, pnErase, canonNames]
  | .coll _ attrs _ => by simp [canonPN, pnErase, canonNames, pnEraseAttrs_canon sig dflt attrs]
  | .tuple attrs => by simp [canonPN, pnErase, canonNames, pnEraseAttrs_canon sig dflt attrs]
  | .arith _ _ _ l r => by
      simp only [canonPN, pnErase, canonNames]
      rw [arithAttrs_reload, pnErase_canon sig dflt l, pnErase_canon sig dflt r]
  | .both _ _ => by simp [canonPN, pnErase, canonNames]
  | .modif _ _ x => by simp [canonPN, pnErase, canonNames, pnErase_canon sig dflt x]
  | .array _ attrs => by simp [canonPN, pnErase, canonNames, pnEraseAttrs_canon sig dflt attrs]
  | .list _ _ => by simp [canonPN, pnErase, canonNames]
theorem pnEraseAttrs_canon (sig : String → List String) (dflt : String → List (String × Scal V)) :
    ∀ (attrs : List (String × PN V)),
    pnEraseAttrs sig (canonPNAttrs dflt attrs) = canonNamesAttrs (pnEraseAttrs sig attrs)
  | [] => by simp [canonPNAttrs, pnEraseAttrs, canonNamesAttrs]
  | (k, n) :: rest => by
    simp [canonPNAttrs, pnEraseAttrs, canonNamesAttrs, pnErase_canon sig dflt n, pnEraseAttrs_canon sig dflt rest]
end

/-! ### the instance does not depend on the operand names -/

mutual
theorem instW_canonNames [Inhabited V] (ops : Ops V) (ρ : Nat → Inst V) : ∀ (n : Node V),
    instW ops ρ (canonNames n) = instW ops ρ n
  | .prior _ => by simp [canonNames]
  | .const _ => by simp [canonNames]
  | .opaque _ => by simp [canonNames]
  | .model cls ctor attrs => by
      simp only [canonNames, instW]; rw [instModelAttrs_canonNames ops ρ ctor attrs]
  | .coll attrs => by simp only [canonNames, instW]; rw [instCollAttrs_canonNames ops ρ attrs]
  | .tuple attrs => by simp only [canonNames, instW]; rw [instTupleAttrs_canonNames ops ρ attrs]
  | .arith op attrs l r => by
      simp only [canonNames, instW]; rw [instW_canonNames ops ρ l, instW_canonNames ops ρ r]
  | .modif op attrs x => by simp only [canonNames, instW]; rw [instW_canonNames ops ρ x]
  | .array shape attrs => by simp only [canonNames, instW]; rw [instArrayEntries_canonNames ops ρ attrs]
theorem instModelAttrs_canonNames [Inhabited V] (ops : Ops V) (ρ : Nat → Inst V) (ctor : List String) :
    ∀ (attrs : List (String × Node V)),
    instModelAttrs ops ρ ctor (canonNamesAttrs attrs) = instModelAttrs ops ρ ctor attrs
  | [] => by simp [canonNamesAttrs]
  | (k, n) :: rest => by
    have ih := instModelAttrs_canonNames ops ρ ctor rest
    simp only [canonNamesAttrs]
    unfold instModelAttrs
    split
    · rw [instW_canonNames ops ρ n, ih]
    · cases n <;> simp [canonNames, ih]
theorem instCollAttrs_canonNames [Inhabited V] (ops : Ops V) (ρ : Nat → Inst V) :
    ∀ (attrs : List (String × Node V)),
    instCollAttrs ops ρ (canonNamesAttrs attrs) = instCollAttrs ops ρ attrs
  | [] => by simp [canonNamesAttrs]
  | (k, n) :: rest => by
    have ih := instCollAttrs_canonNames ops ρ rest
    have hn := instW_canonNames ops ρ n
    simp only [canonNamesAttrs]
    unfold instCollAttrs
    cases n <;> simp_all [canonNames]
theorem instTupleAttrs_canonNames [Inhabited V] (ops : Ops V) (ρ : Nat → Inst V) :
    ∀ (attrs : List (String × Node V)),
    instTupleAttrs ops ρ (canonNamesAttrs attrs) = instTupleAttrs ops ρ attrs
  | [] => by simp [canonNamesAttrs]
  | (k, n) :: rest => by
    have ih := instTupleAttrs_canonNames ops ρ rest
    simp only [canonNamesAttrs]
    unfold instTupleAttrs
    cases n <;> simp_all [canonNames, instW]
theorem instArrayEntries_canonNames [Inhabited V] (ops : Ops V) (ρ : Nat → Inst V) :
    ∀ (attrs : List (String × Node V)),
    instArrayEntries ops ρ (canonNamesAttrs attrs) = instArrayEntries ops ρ attrs
  | [] => by simp [canonNamesAttrs]
  | (k, n) :: rest => by
    have ih := instArrayEntries_canonNames ops ρ rest
    have hn := instW_canonNames ops ρ n
    simp only [canonNamesAttrs]
    unfold instArrayEntries
    cases n <;> simp_all [canonNames]
end

/-! ### every advertised place holds an id the reader meets -/

mutual
theorem walk_erase_sub (sig : String → List String) : ∀ (n : PN V) (x : Path × Nat),
    x ∈ walk (pnErase sig n) → x.2 ∈ pnLoadOrder n
  | .prior id _, x, h => by
      simp only [pnErase, walk, List.mem_singleton] at h
      simp [pnLoadOrder, h]
  | .lit s, x, h => by cases s <;> simp [pnErase, walk] at h
  | .model _ attrs _, x, h => by
      simp only [pnErase, walk] at h
      simp only [pnLoadOrder, List.mem_append]
      exact Or.inl (walkAttrs_erase_sub sig attrs x h)
  | .inst _ _, x, h => by simp [pnErase, walk] at h
  | .coll _ attrs _, x, h => by
      simp only [pnErase, walk] at h
      simp only [pnLoadOrder, List.mem_append]
      exact Or.inl (walkAttrs_erase_sub sig attrs x h)
  | .tuple attrs, x, h => by
      simp only [pnErase, walk] at h
      simp only [pnLoadOrder]
      exact walkAttrs_erase_sub sig attrs x h
  | .array _ attrs, x, h => by
      simp only [pnErase, walk] at h
      simp only [pnLoadOrder]
      exact walkAttrs_erase_sub sig attrs x h
  | .both _ _, x, h => by simp [pnErase, walk] at h
  | .list _ _, x, h => by simp [pnErase, walk] at h
  | .modif _ name y, x, h => by
      simp only [pnErase, walk, walkAttrs, List.append_nil, List.mem_map] at h
      obtain ⟨z, hz, rfl⟩ := h
      simp only [pnLoadOrder]
      exact walk_erase_sub sig y z hz
  | .arith _ ln rn l r, x, h => by
      simp only [pnErase, walk] at h
      simp only [pnLoadOrder, List.mem_append]
      unfold arithAttrs at h
      split at h
      · simp only [walkAttrs, List.append_nil, List.mem_map] at h
        obtain ⟨z, hz, rfl⟩ := h
        exact Or.inr (walk_erase_sub sig r z hz)
      · simp only [walkAttrs, List.append_nil, List.mem_append, List.mem_map] at h
        rcases h with ⟨z, hz, rfl⟩ | ⟨z, hz, rfl⟩
        · exact Or.inl (walk_erase_sub sig l z hz)
        · exact Or.inr (walk_erase_sub sig r z hz)
theorem walkAttrs_erase_sub (sig : String → List String) : ∀ (attrs : List (String × PN V)) (x : Path × Nat),
    x ∈ walkAttrs (pnEraseAttrs sig attrs) → x.2 ∈ pnLoadOrderAttrs attrs
  | [], x, h => by simp [pnEraseAttrs, walkAttrs] at h
  | (k, n) :: rest, x, h => by
    simp only [pnEraseAttrs, walkAttrs, List.mem_append, List.mem_map] at h
    simp only [pnLoadOrderAttrs, List.mem_append]
    rcases h with ⟨z, hz, rfl⟩ | h
    · exact Or.inl (walk_erase_sub sig n z hz)
    · exact Or.inr (walkAttrs_erase_sub sig rest x h)
end

/-! ### assertions keep their verdicts -/

theorem operandVal_reload [Inhabited V] (ops : Ops V) (sig : String → List String)
    (dflt : String → List (String × Scal V)) (σ : Nat → Nat) (ρ ρ' : Nat → Inst V)
    (h : ∀ i, ρ' (σ i) = ρ i) (n : PN V) :
    operandVal ops ρ' (pnErase sig (renamePN σ (canonPN dflt n))) = operandVal ops ρ (pnErase sig n) := by
  unfold operandVal
  rw [pnErase_rename, pnErase_canon, instW_rename]
  have : (fun i => ρ' (σ i)) = ρ := funext h
  rw [this, instW_canonNames]

theorem evalA_asrtOf_reload [Inhabited V] (ops : Ops V) (sig : String → List String)
    (dflt : String → List (String × Scal V)) (σ : Nat → Nat) (ρ ρ' : Nat → Inst V)
    (h : ∀ i, ρ' (σ i) = ρ i) : ∀ (a : PN V),
    evalA ops ρ' (asrtOf sig (renamePN σ (canonPN dflt a))) = evalA ops ρ (asrtOf sig a)
  | .arith ct _ _ l r => by
      have hl := operandVal_reload ops sig dflt σ ρ ρ' h l
      have hr := operandVal_reload ops sig dflt σ ρ ρ' h r
      simp only [canonPN, renamePN, asrtOf]
      split
      · simp only [evalA, hl, hr]
      · split
        · simp only [evalA, hl, hr]
        · rfl
  | .both x y => by
      simp only [canonPN, renamePN, asrtOf, evalA]
      rw [evalA_asrtOf_reload ops sig dflt σ ρ ρ' h x, evalA_asrtOf_reload ops sig dflt σ ρ ρ' h y]
  | .prior _ _ => by simp [canonPN, renamePN, asrtOf, evalA]
  | .lit _ => by simp [canonPN, renamePN, asrtOf, evalA]
  | .model _ _ _ => by simp [canonPN, renamePN, asrtOf, evalA]
  | .inst _ _ => by simp [canonPN, renamePN, asrtOf, evalA]
  | .coll _ _ _ => by simp [canonPN, renamePN, asrtOf, evalA]
  | .tuple _ => by simp [canonPN, renamePN, asrtOf, evalA]
  | .modif _ _ _ => by simp [canonPN, renamePN, asrtOf, evalA]
  | .array _ _ => by simp [canonPN, renamePN, asrtOf, evalA]
  | .list _ _ => by simp [canonPN, renamePN, asrtOf, evalA]

theorem renamePNList_append (σ : Nat → Nat) : ∀ (a b : List (PN V)),
    renamePNList σ (a ++ b) = renamePNList σ a ++ renamePNList σ b
  | [], b => by simp [renamePNList]
  | n :: a, b => by simp [renamePNList, renamePNList_append σ a b]

theorem canonPNList_append (dflt : String → List (String × Scal V)) : ∀ (a b : List (PN V)),
    canonPNList dflt (a ++ b) = canonPNList dflt a ++ canonPNList dflt b
  | [], b => by simp [canonPNList]
  | n :: a, b => by simp [canonPNList, canonPNList_append dflt a b]

mutual
theorem pnAsserts_rename (σ : Nat → Nat) : ∀ (n : PN V),
    pnAsserts (renamePN σ n) = renamePNList σ (pnAsserts n)
  | .model _ attrs asserts => by
      simp [renamePN, pnAsserts, renamePNList_append, pnAssertsAttrs_rename σ attrs]
  | .coll _ attrs asserts => by
      simp [renamePN, pnAsserts, renamePNList_append, pnAssertsAttrs_rename σ attrs]
  | .prior _ _ => by simp [renamePN, pnAsserts, renamePNList]
  | .lit _ => by simp [renamePN, pnAsserts, renamePNList]
  | .inst _ _ => by simp [renamePN, pnAsserts, renamePNList]
  | .tuple _ => by simp [renamePN, pnAsserts, renamePNList]
  | .arith _ _ _ _ _ => by simp [renamePN, pnAsserts, renamePNList]
  | .both _ _ => by simp [renamePN, pnAsserts, renamePNList]
  | .modif _ _ _ => by simp [renamePN, pnAsserts, renamePNList]
  | .array _ _ => by simp [renamePN, pnAsserts, renamePNList]
  | .list _ _ => by simp [renamePN, pnAsserts, renamePNList]
theorem pnAssertsAttrs_rename (σ : Nat → Nat) : ∀ (attrs : List (String × PN V)),
    pnAssertsAttrs (renamePNAttrs σ attrs) = renamePNList σ (pnAssertsAttrs attrs)
  | [] => by simp [renamePNAttrs, pnAssertsAttrs, renamePNList]
  | (k, n) :: rest => by
    simp [renamePNAttrs, pnAssertsAttrs, renamePNList_append, pnAsserts_rename σ n, pnAssertsAttrs_rename σ rest]
end

mutual
theorem pnAsserts_canon (dflt : String → List (String × Scal V)) : ∀ (n : PN V),
    pnAsserts (canonPN dflt n) = canonPNList dflt (pnAsserts n)
  | .model _ attrs asserts => by
      simp [canonPN, pnAsserts, canonPNList_append, pnAssertsAttrs_canon dflt attrs]
  | .coll _ attrs asserts => by
      simp [canonPN, pnAsserts, canonPNList_append, pnAssertsAttrs_canon dflt attrs]
  | .prior _ _ => by simp [canonPN, pnAsserts, canonPNList]
  | .lit _ => by simp [canonPN, pnAsserts, canonPNList]
  | .inst _ _ => by simp [canonPN, pnAsserts, canonPNList]
  | .tuple _ => by simp [canonPN, pnAsserts, canonPNList]
  | .arith _ _ _ _ _ => by simp [canonPN, pnAsserts, canonPNList]
  | .both _ _ => by simp [canonPN, pnAsserts, canonPNList]
  | .modif _ _ _ => by simp [canonPN, pnAsserts, canonPNList]
  | .array _ _ => by simp [canonPN, pnAsserts, canonPNList]
  | .list _ _ => by simp [canonPN, pnAsserts, canonPNList]
theorem pnAssertsAttrs_canon (dflt : String → List (String × Scal V)) : ∀ (attrs : List (String × PN V)),
    pnAssertsAttrs (canonPNAttrs dflt attrs) = canonPNList dflt (pnAssertsAttrs attrs)
  | [] => by simp [canonPNAttrs, pnAssertsAttrs, canonPNList]
  | (k, n) :: rest => by
    simp [canonPNAttrs, pnAssertsAttrs, canonPNList_append, pnAsserts_canon dflt n, pnAssertsAttrs_canon dflt rest]
end

theorem verdicts_reload_list [Inhabited V] (ops : Ops V) (sig : String → List String)
    (dflt : String → List (String × Scal V)) (σ : Nat → Nat) (ρ ρ' : Nat → Inst V)
    (h : ∀ i, ρ' (σ i) = ρ i) : ∀ (l : List (PN V)),
    (renamePNList σ (canonPNList dflt l)).map (fun a => evalA ops ρ' (asrtOf sig a)) =
      l.map (fun a => evalA ops ρ (asrtOf sig a))
  | [] => by simp [canonPNList, renamePNList]
  | a :: rest => by
    simp only [canonPNList, renamePNList, List.map_cons]
    rw [evalA_asrtOf_reload ops sig dflt σ ρ ρ' h a, verdicts_reload_list ops sig dflt σ ρ ρ' h rest]

/-! ### the identity renaming (pickle) -/

mutual
theorem renamePN_id : ∀ (n : PN V), renamePN (fun i => i) n = n
  | .prior _ _ => by simp [renamePN]
  | .lit _ => by simp [renamePN]
  | .model _ attrs asserts => by simp [renamePN, renamePNAttrs_id attrs, renamePNList_id asserts]
  | .inst _ attrs => by simp [renamePN, renamePNAttrs_id attrs]
  | .coll _ attrs asserts => by simp [renamePN, renamePNAttrs_id attrs, renamePNList_id asserts]
  | .tuple attrs => by simp [renamePN, renamePNAttrs_id attrs]
  | .arith _ _ _ l r => by simp [renamePN, renamePN_id l, renamePN_id r]
  | .both x y => by simp [renamePN, renamePN_id x, renamePN_id y]
  | .modif _ _ x => by simp [renamePN, renamePN_id x]
  | .array _ attrs => by simp [renamePN, renamePNAttrs_id attrs]
  | .list _ items => by simp [renamePN, renamePNList_id items]
theorem renamePNAttrs_id : ∀ (attrs : List (String × PN V)), renamePNAttrs (fun i => i) attrs = attrs
  | [] => by simp [renamePNAttrs]
  | (k, n) :: rest => by simp [renamePNAttrs, renamePN_id n, renamePNAttrs_id rest]
theorem renamePNList_id : ∀ (l : List (PN V)), renamePNList (fun i => i) l = l
  | [] => by simp [renamePNList]
  | n :: rest => by simp [renamePNList, renamePN_id n, renamePNList_id rest]
end

/-! ### the counter of a collection rebuilt from database rows -/

theorem nextPosition_gt : ∀ (ps : List (Option Nat)) (k : Nat), some k ∈ ps → k < nextPosition ps
  | [], k, h => by simp at h
  | none :: rest, k, h => by
      simp only [List.mem_cons] at h
      rcases h with h | h
      · cases h
      · simpa [nextPosition] using nextPosition_gt rest k h
  | some j :: rest, k, h => by
      simp only [List.mem_cons, Option.some.injEq] at h
      simp only [nextPosition]
      rcases h with h | h
      · subst h; exact Nat.lt_of_lt_of_le (Nat.lt_succ_self _) (Nat.le_max_left _ _)
      · exact Nat.lt_of_lt_of_le (nextPosition_gt rest k h) (Nat.le_max_right _ _)

theorem nextPosition_le_of_all_lt : ∀ (ps : List (Option Nat)) (n : Nat),
    (∀ k, some k ∈ ps → k < n) → nextPosition ps ≤ n
  | [], n, _ => by simp [nextPosition]
  | none :: rest, n, h => by
      simp only [nextPosition]
      exact nextPosition_le_of_all_lt rest n (fun k hk => h k (List.mem_cons_of_mem _ hk))
  | some j :: rest, n, h => by
      simp only [nextPosition]
      exact Nat.max_le.mpr ⟨h j (by simp), nextPosition_le_of_all_lt rest n (fun k hk => h k (List.mem_cons_of_mem _ hk))⟩

end AF
