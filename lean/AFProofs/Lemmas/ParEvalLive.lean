import AFProofs.Lemmas.ParEval

/-!
Liveness lemmas for C14 (`SneakyPool.map`): a variant that every enabled interaction decreases, and the
fact that from every reachable state some finite continuation makes the caller finish.
-/

namespace AF.ParEval
variable {α : Type}

theorem sum_map_set {β : Type} (f : β → Nat) (ws : List β) (k : Nat) (w x : β) (h : ws[k]? = some w) :
    ((ws.set k x).map f).sum + f w = (ws.map f).sum + f x := by
  induction ws generalizing k with
  | nil => simp at h
  | cons a t ih =>
    cases k with
    | zero =>
      simp only [List.getElem?_cons_zero, Option.some.injEq] at h
      subst h
      simp only [List.set_cons_zero, List.map_cons, List.sum_cons]
      omega
    | succ k =>
      simp only [List.getElem?_cons_succ] at h
      have := ih k h
      simp only [List.set_cons_succ, List.map_cons, List.sum_cons] at this ⊢
      omega

theorem Worker.step_weight (w : Worker α) (h : w.hold ≠ none ∨ w.jobQ ≠ []) : w.step.weight + 1 = w.weight := by
  unfold Worker.step Worker.weight
  cases hh : w.hold with
  | some r => simp; omega
  | none =>
    cases hj : w.jobQ with
    | nil => rcases h with h | h <;> contradiction
    | cons j rest => simp; omega

theorem mu_workerStep {s : MapSt α} {k : Nat} {w : Worker α} (hk : s.ws[k]? = some w)
    (h : w.hold ≠ none ∨ w.jobQ ≠ []) : (s.workerStep k).mu + 1 = s.mu := by
  unfold MapSt.workerStep
  simp only [hk, MapSt.mu, wsum]
  have h1 := sum_map_set Worker.weight s.ws k w w.step hk
  have h2 := Worker.step_weight w h
  omega

theorem mu_submit {js : List (Res α)} {s : MapSt α} (h : MapInv js s) (r : Res α) (rest : List (Res α))
    (ht : s.todo = r :: rest) : (s.submit r rest).mu + 1 = s.mu := by
  have hk : s.next % s.ws.length < s.ws.length := Nat.mod_lt _ h.pos
  have hw : s.ws[s.next % s.ws.length]? = some (s.ws[s.next % s.ws.length]) := List.getElem?_eq_getElem hk
  generalize s.ws[s.next % s.ws.length] = w at hw
  unfold MapSt.submit
  simp only [hw, MapSt.mu, wsum, ht, List.length_cons]
  have h1 := sum_map_set Worker.weight s.ws _ w
    { w with jobQ := w.jobQ ++ [⟨s.next, r⟩], pending := w.pending ++ [s.next] } hw
  simp only [Worker.weight, List.length_append, List.length_singleton] at h1 ⊢
  omega

theorem mu_poll_collect {s : MapSt α} {w : Worker α} {r : Res α} {rq : List (Res α)} {i : Nat} {pd : List Nat}
    (hc : s.ws[s.cursor]? = some w) (hr : w.resQ = r :: rq) (hp : w.pending = i :: pd) :
    s.poll.mu + 1 = s.mu := by
  unfold MapSt.poll
  simp only [hc, hr, hp, MapSt.mu, wsum]
  have h1 := sum_map_set Worker.weight s.ws _ w { w with resQ := rq, pending := pd } hc
  simp only [Worker.weight, hr, List.length_cons] at h1 ⊢
  omega

theorem poll_skip_eq {s : MapSt α} (h : ∀ w, s.ws[s.cursor]? = some w → w.resQ = []) :
    s.poll = { s with cursor := if s.cursor + 1 < s.ws.length then s.cursor + 1 else 0 } := by
  unfold MapSt.poll
  simp only
  cases hc : s.ws[s.cursor]? with
  | none => rfl
  | some w =>
    have := h w hc
    simp only [this]

theorem mu_poll_skip {s : MapSt α} (h : ∀ w, s.ws[s.cursor]? = some w → w.resQ = []) :
    s.poll.mu = s.mu ∧ s.poll.ws = s.ws ∧ s.poll.todo = s.todo ∧ s.poll.count = s.count ∧
      s.poll.target = s.target ∧
      s.poll.cursor = (if s.cursor + 1 < s.ws.length then s.cursor + 1 else 0) := by
  rw [poll_skip_eq h]
  exact ⟨rfl, rfl, rfl, rfl, rfl, rfl⟩

theorem exists_pending_of_outstanding (ws : List (Worker α)) (h : 0 < outstanding ws) :
    ∃ (k : Nat) (w : Worker α), ws[k]? = some w ∧ w.pending ≠ [] := by
  induction ws with
  | nil => simp [outstanding] at h
  | cons a t ih =>
    by_cases ha : a.pending = []
    · have : 0 < outstanding t := by
        simp only [outstanding, List.map_cons, List.sum_cons, ha, List.length_nil] at h ⊢
        omega
      obtain ⟨k, w, hk, hw⟩ := ih this
      exact ⟨k + 1, w, by simpa using hk, hw⟩
    · exact ⟨0, a, rfl, ha⟩

/-- cyclic distance from the cursor to worker `k` -/
def cdist (P c k : Nat) : Nat := if c ≤ k then k - c else P - c + k

def mainN (j : Nat) (s : MapSt α) : MapSt α := s.run (List.replicate j 0)

theorem mainN_succ (j : Nat) (s : MapSt α) : mainN (j + 1) s = mainN j s.mainStep := by
  simp [mainN, MapSt.run, List.replicate_succ, MapSt.step]

/-- while results are queued somewhere, the caller's polling reaches one within a pass -/
theorem poll_reaches {js : List (Res α)} (d : Nat) :
    ∀ (s : MapSt α), MapInv js s → s.todo = [] → s.count < s.target → s.cursor < s.ws.length →
      ∀ (k : Nat) (w : Worker α), s.ws[k]? = some w → w.resQ ≠ [] → cdist s.ws.length s.cursor k = d →
      ∃ j, (mainN j s).mu < s.mu := by
  induction d with
  | zero =>
    intro s hi ht hc hcur k w hk hr hd
    have hkl := lt_of_getElem?_some hk
    have hck : s.cursor = k := by
      unfold cdist at hd
      split at hd <;> omega
    subst hck
    obtain ⟨r, rq, hrq⟩ := List.exists_cons_of_ne_nil hr
    have hpipe := hi.pipe _ _ hk
    have hp : w.pending ≠ [] := by
      intro hp
      rw [hp] at hpipe
      simp [Worker.pipe, hrq] at hpipe
    obtain ⟨i, pd, hpd⟩ := List.exists_cons_of_ne_nil hp
    refine ⟨1, ?_⟩
    have hm : mainN 1 s = s.poll := by
      simp [mainN, MapSt.run, MapSt.step, MapSt.mainStep, ht, hc]
    rw [hm]
    have := mu_poll_collect hk hrq hpd
    omega
  | succ d ih =>
    intro s hi ht hc hcur k w hk hr hd
    have hkl := lt_of_getElem?_some hk
    have hm : s.mainStep = s.poll := by
      simp [MapSt.mainStep, ht, hc]
    cases hwc : s.ws[s.cursor]? with
    | none =>
      have := List.getElem?_eq_getElem hcur
      rw [this] at hwc; cases hwc
    | some wc =>
      cases hrc : wc.resQ with
      | cons r rq =>
        have hpipe := hi.pipe _ _ hwc
        have hp : wc.pending ≠ [] := by
          intro hp
          rw [hp] at hpipe
          simp [Worker.pipe, hrc] at hpipe
        obtain ⟨i, pd, hpd⟩ := List.exists_cons_of_ne_nil hp
        refine ⟨1, ?_⟩
        have hm1 : mainN 1 s = s.poll := by
          simp [mainN, MapSt.run, MapSt.step, hm]
        rw [hm1]
        have := mu_poll_collect hwc hrc hpd
        omega
      | nil =>
        have hskip := mu_poll_skip (s := s) (fun w' hw' => by rw [hwc] at hw'; cases hw'; exact hrc)
        obtain ⟨h1, h2, h3, h4, h5, h6⟩ := hskip
        have hi' : MapInv js s.poll := by
          have := mapInv_step hi 0
          simpa [MapSt.step, hm] using this
        have hne : s.cursor ≠ k := by
          intro e
          rw [e, hk] at hwc
          cases hwc
          exact hr hrc
        have hcur' : s.poll.cursor < s.poll.ws.length := by
          rw [h6, h2]; split <;> omega
        have hd' : cdist s.poll.ws.length s.poll.cursor k = d := by
          rw [h6, h2]
          unfold cdist at hd ⊢
          split <;> split at hd <;> split <;> omega
        obtain ⟨j, hj⟩ := ih s.poll hi' (by rw [h3]; exact ht) (by rw [h4, h5]; exact hc) hcur' k w
          (by rw [h2]; exact hk) hr hd'
        refine ⟨j + 1, ?_⟩
        rw [mainN_succ, hm]
        omega

theorem cursor_lt_step {s : MapSt α} (hp : 0 < s.ws.length) (h : s.cursor < s.ws.length) (e : Nat) :
    (s.step e).cursor < (s.step e).ws.length := by
  rw [MapSt.step_length]
  cases e with
  | zero =>
    show s.mainStep.cursor < _
    unfold MapSt.mainStep
    cases ht : s.todo with
    | cons r rest =>
      simp only [MapSt.submit]
      split <;> exact h
    | nil =>
      simp only
      split
      · unfold MapSt.poll
        simp only
        split
        · split
          · simp only; split <;> omega
          · simp only; split <;> omega
        · simp only; split <;> omega
      · exact h
  | succ k =>
    show (s.workerStep k).cursor < _
    unfold MapSt.workerStep
    split <;> exact h

theorem cursor_lt_run {s : MapSt α} (hp : 0 < s.ws.length) (h : s.cursor < s.ws.length) (evs : List Nat) :
    (s.run evs).cursor < (s.run evs).ws.length := by
  induction evs generalizing s with
  | nil => exact h
  | cons e t ih =>
    exact ih (by rw [MapSt.step_length]; exact hp) (cursor_lt_step hp h e)

/-- some finite continuation strictly decreases the variant while the caller has not finished -/
theorem exists_decrease {js : List (Res α)} {s : MapSt α} (hi : MapInv js s) (hcur : s.cursor < s.ws.length)
    (hf : s.finished = false) : ∃ evs, (s.run evs).mu < s.mu := by
  cases ht : s.todo with
  | cons r rest =>
    refine ⟨[0], ?_⟩
    have : s.run [0] = s.submit r rest := by simp [MapSt.run, MapSt.step, MapSt.mainStep, ht]
    rw [this]
    have := mu_submit hi r rest ht
    omega
  | nil =>
    have hc : s.count < s.target := by
      simp only [MapSt.finished, ht, List.isEmpty_nil, Bool.true_and, decide_eq_false_iff_not] at hf
      omega
    by_cases hbusy : ∃ (k : Nat) (w : Worker α), s.ws[k]? = some w ∧ (w.hold ≠ none ∨ w.jobQ ≠ [])
    · obtain ⟨k, w, hk, hw⟩ := hbusy
      refine ⟨[k + 1], ?_⟩
      have : s.run [k + 1] = s.workerStep k := by simp [MapSt.run, MapSt.step]
      rw [this]
      have := mu_workerStep hk hw
      omega
    · have hidle : ∀ (k : Nat) (w : Worker α), s.ws[k]? = some w → w.hold = none ∧ w.jobQ = [] := by
        intro k w hk
        constructor
        · exact Classical.byContradiction fun h => hbusy ⟨k, w, hk, Or.inl h⟩
        · exact Classical.byContradiction fun h => hbusy ⟨k, w, hk, Or.inr h⟩
      have hn : js.length ≤ s.next := by
        have := hi.todo
        rw [ht] at this
        exact List.drop_eq_nil_iff.mp this.symm
      have ho : 0 < outstanding s.ws := by
        have := hi.count
        have := hi.target
        have := hi.next_le
        omega
      obtain ⟨k, w, hk, hp⟩ := exists_pending_of_outstanding s.ws ho
      have hr : w.resQ ≠ [] := by
        intro hr
        have hpipe := hi.pipe _ _ hk
        obtain ⟨h1, h2⟩ := hidle k w hk
        simp only [Worker.pipe, hr, h1, h2, List.map_nil, List.nil_append, Option.toList_none] at hpipe
        exact hp (List.map_eq_nil_iff.mp hpipe.symm)
      obtain ⟨j, hj⟩ := poll_reaches (js := js) _ s hi ht hc hcur k w hk hr rfl
      exact ⟨List.replicate j 0, hj⟩

theorem can_finish {js : List (Res α)} (n : Nat) :
    ∀ (s : MapSt α), MapInv js s → s.cursor < s.ws.length → s.mu ≤ n → ∃ evs, (s.run evs).finished = true := by
  induction n with
  | zero =>
    intro s hi hcur hm
    cases hf : s.finished with
    | true => exact ⟨[], hf⟩
    | false =>
      obtain ⟨evs, h⟩ := exists_decrease hi hcur hf
      omega
  | succ n ih =>
    intro s hi hcur hm
    cases hf : s.finished with
    | true => exact ⟨[], hf⟩
    | false =>
      obtain ⟨evs, h⟩ := exists_decrease hi hcur hf
      obtain ⟨evs', h'⟩ := ih (s.run evs) (mapInv_run hi evs) (cursor_lt_run hi.pos hcur evs) (by omega)
      exact ⟨evs ++ evs', by rw [MapSt.run_append]; exact h'⟩

/-! ## Process.run_jobs (repaired: stop tokens, exception counted once): a finishing continuation always exists -/

structure RunLive (s : RunSt α) : Prop where
  cfgp : s.cfg.pollEmpty = false
  pos : 0 < s.ws.length
  cur : s.cursor < s.ws.length
  /-- the shared queue is "jobs, then stop tokens"; while a job is queued no worker has left -/
  shape : ∃ (jl : List (Job α)) (m : Nat), s.jobQ = jl.map QItem.job ++ List.replicate m QItem.stop ∧
    (jl ≠ [] → ∀ (k : Nat) (w : RWorker α), s.ws[k]? = some w → w.phase ≠ .dead)

theorem alive_set {ws : List (RWorker α)} {c : Nat} {w x : RWorker α} (hc : ws[c]? = some w)
    (hx : w.phase ≠ .dead → x.phase ≠ .dead)
    (h : ∀ (k : Nat) (w : RWorker α), ws[k]? = some w → w.phase ≠ .dead) :
    ∀ (k : Nat) (w' : RWorker α), (ws.set c x)[k]? = some w' → w'.phase ≠ .dead := by
  intro k w' hk
  rcases getElem?_set_cases hk with ⟨rfl, rfl, _⟩ | ⟨_, h'⟩
  · exact hx (h _ _ hc)
  · exact h _ _ h'

theorem runLive_init (P : Nat) (hP : 0 < P) (js : List (Res α)) : RunLive (initRun {} P js) := by
  refine ⟨rfl, by simp [initRun, hP], by simp [initRun, hP], ⟨enumFrom 0 js, P, by simp [initRun], ?_⟩⟩
  intro _ k w hk
  simp only [initRun, List.getElem?_replicate] at hk
  split at hk
  · cases hk; simp
  · cases hk

theorem RunSt.advance_fields (s : RunSt α) :
    s.advance.ws = s.ws ∧ s.advance.jobQ = s.jobQ ∧ s.advance.cfg = s.cfg ∧
      (s.cursor < s.ws.length → s.advance.cursor < s.ws.length) := by
  unfold RunSt.advance RunSt.endOfPass
  split
  · exact ⟨rfl, rfl, rfl, fun _ => by assumption⟩
  · split
    · exact ⟨rfl, rfl, rfl, fun h => by simp only; omega⟩
    · exact ⟨rfl, rfl, rfl, fun h => h⟩

theorem runLive_advance {s : RunSt α} (h : RunLive s) : RunLive s.advance := by
  obtain ⟨h1, h2, h3, h4⟩ := s.advance_fields
  refine ⟨by rw [h3]; exact h.cfgp, by rw [h1]; exact h.pos, by rw [h1]; exact h4 h.cur, ?_⟩
  rw [h1, h2]; exact h.shape

theorem runLive_step {s : RunSt α} (h : RunLive s) (e : Ev) : RunLive (s.step e) := by
  unfold RunSt.step
  split
  · -- the caller
    unfold RunSt.mainStep
    split
    · exact h
    · cases hk : s.ws[s.cursor]? with
      | none => exact runLive_advance h
      | some w =>
        simp only
        cases hr : w.resQ with
        | nil => exact runLive_advance h
        | cons r rq =>
          simp only
          split
          · exact runLive_advance h
          · obtain ⟨jl, m, hq, hal⟩ := h.shape
            refine ⟨h.cfgp, by simp only [List.length_set]; exact h.pos,
              by simp only [List.length_set]; exact h.cur, ⟨jl, m, hq, fun hj => ?_⟩⟩
            exact alive_set hk (fun hx => hx) (hal hj)
  · -- a worker
    rename_i k _
    unfold RunSt.workerStep
    cases hk : s.ws[k]? with
    | none => exact h
    | some w =>
      simp only
      obtain ⟨jl, m, hq, hal⟩ := h.shape
      have htake : RunLive (s.take k w) := by
        unfold RunSt.take
        cases hjq : s.jobQ with
        | nil => exact h
        | cons q rest =>
          cases q with
          | stop =>
            simp only
            have hjl : jl = [] := by
              cases jl with
              | nil => rfl
              | cons j jl' => rw [hjq] at hq; simp at hq
            subst hjl
            cases m with
            | zero => rw [hjq] at hq; simp at hq
            | succ m' =>
              refine ⟨h.cfgp, by simp only [List.length_set]; exact h.pos,
                by simp only [List.length_set]; exact h.cur, ⟨[], m', ?_, fun hj => absurd rfl hj⟩⟩
              rw [hjq] at hq
              simpa [List.replicate_succ] using hq
          | job j =>
            simp only
            cases jl with
            | nil =>
              rw [hjq] at hq
              cases m <;> simp [List.replicate_succ] at hq
            | cons j' jl' =>
              rw [hjq] at hq
              simp only [List.map_cons, List.cons_append, List.cons.injEq] at hq
              refine ⟨h.cfgp, by simp only [List.length_set]; exact h.pos,
                by simp only [List.length_set]; exact h.cur, ⟨jl', m, hq.2, fun _ => ?_⟩⟩
              exact alive_set hk (fun _ => by simp) (hal (by simp))
      cases hh : w.hold with
      | some r =>
        simp only
        refine ⟨h.cfgp, by simp only [List.length_set]; exact h.pos,
          by simp only [List.length_set]; exact h.cur, ⟨jl, m, hq, fun hj => ?_⟩⟩
        exact alive_set hk (fun hx => hx) (hal hj)
      | none =>
        simp only
        cases hp : w.phase with
        | dead => exact h
        | committed => exact htake
        | idle =>
          simp only [h.cfgp, Bool.false_eq_true, if_false]
          exact htake

theorem runLive_run {s : RunSt α} (h : RunLive s) (evs : List Ev) : RunLive (s.run evs) := by
  induction evs generalizing s with
  | nil => exact h
  | cons e t ih => exact ih (runLive_step h e)

theorem rmu_put {s : RunSt α} {k : Nat} {w : RWorker α} {r : Res α} (hk : s.ws[k]? = some w)
    (hh : w.hold = some r) : (s.workerStep k false).mu + 1 = s.mu := by
  unfold RunSt.workerStep
  simp only [hk, hh, RunSt.mu]
  have h1 := sum_map_set RWorker.weight s.ws k w { w with hold := none, resQ := w.resQ ++ [r] } hk
  simp only [RWorker.weight, hh, List.length_append, List.length_singleton, Option.toList_some,
    Option.toList_none, List.length_nil] at h1 ⊢
  omega

theorem rmu_take {s : RunSt α} {k : Nat} {w : RWorker α} {j : Job α} {rest : List (QItem α)}
    (hc : s.cfg.pollEmpty = false) (hk : s.ws[k]? = some w) (hh : w.hold = none) (hp : w.phase ≠ .dead)
    (hq : s.jobQ = .job j :: rest) : (s.workerStep k false).mu + 1 = s.mu := by
  have htake : (s.take k w).mu + 1 = s.mu := by
    unfold RunSt.take
    simp only [hq, RunSt.mu, jobsOf, List.length_cons]
    have h1 := sum_map_set RWorker.weight s.ws k w { w with phase := .idle, hold := some j.res } hk
    simp only [RWorker.weight, hh, Option.toList_some, Option.toList_none, List.length_nil,
      List.length_singleton] at h1 ⊢
    omega
  unfold RunSt.workerStep
  simp only [hk, hh]
  cases hph : w.phase with
  | dead => exact absurd hph hp
  | committed => exact htake
  | idle =>
    simp only [hc, Bool.false_eq_true, if_false]
    exact htake

theorem rmu_collect {s : RunSt α} {w : RWorker α} {r : Res α} {rq : List (Res α)} (hd : s.done = false)
    (hk : s.ws[s.cursor]? = some w) (hr : w.resQ = r :: rq) : (s.mainStep false).mu + 1 = s.mu := by
  unfold RunSt.mainStep
  simp only [hd, hk, hr, RunSt.mu, Bool.false_eq_true, if_false]
  have h1 := sum_map_set RWorker.weight s.ws _ w { w with resQ := rq } hk
  simp only [RWorker.weight, hr, List.length_cons] at h1 ⊢
  omega

theorem main_skip_eq {s : RunSt α} (hd : s.done = false)
    (h : ∀ w, s.ws[s.cursor]? = some w → w.resQ = []) : s.mainStep false = s.advance := by
  unfold RunSt.mainStep
  simp only [hd, Bool.false_eq_true, if_false]
  cases hc : s.ws[s.cursor]? with
  | none => rfl
  | some w =>
    have := h w hc
    simp only [this]

theorem exists_pipe_of_rpipes (ws : List (RWorker α)) (h : rpipes ws ≠ []) :
    ∃ (k : Nat) (w : RWorker α), ws[k]? = some w ∧ w.pipe ≠ [] := by
  induction ws with
  | nil => simp [rpipes] at h
  | cons a t ih =>
    by_cases ha : a.pipe = []
    · have : rpipes t ≠ [] := by
        intro ht
        apply h
        simp [rpipes, ha, ht]
      obtain ⟨k, w, hk, hw⟩ := ih this
      exact ⟨k + 1, w, by simpa using hk, hw⟩
    · exact ⟨0, a, rfl, ha⟩

def rmainN (j : Nat) (s : RunSt α) : RunSt α := s.run (List.replicate j ⟨0, false⟩)

theorem rmainN_succ (j : Nat) (s : RunSt α) : rmainN (j + 1) s = rmainN j (s.mainStep false) := by
  simp [rmainN, RunSt.run, List.replicate_succ, RunSt.step]

/-- results are queued at worker `k` and the batch is not complete: the caller's passes reach them -/
theorem rpoll_reaches (d : Nat) :
    ∀ (s : RunSt α), s.done = false → s.count < s.total → s.cursor < s.ws.length →
      ∀ (k : Nat) (w : RWorker α), s.ws[k]? = some w → w.resQ ≠ [] → cdist s.ws.length s.cursor k = d →
      ∃ j, (rmainN j s).mu < s.mu := by
  induction d with
  | zero =>
    intro s hd hc hcur k w hk hr hdist
    have hkl := lt_of_getElem?_some hk
    have hck : s.cursor = k := by
      unfold cdist at hdist
      split at hdist <;> omega
    subst hck
    obtain ⟨r, rq, hrq⟩ := List.exists_cons_of_ne_nil hr
    refine ⟨1, ?_⟩
    have hm : rmainN 1 s = s.mainStep false := by simp [rmainN, RunSt.run, RunSt.step]
    rw [hm]
    have := rmu_collect hd hk hrq
    omega
  | succ d ih =>
    intro s hd hc hcur k w hk hr hdist
    have hkl := lt_of_getElem?_some hk
    cases hwc : s.ws[s.cursor]? with
    | none =>
      have := List.getElem?_eq_getElem hcur
      rw [this] at hwc; cases hwc
    | some wc =>
      cases hrc : wc.resQ with
      | cons r rq =>
        refine ⟨1, ?_⟩
        have hm : rmainN 1 s = s.mainStep false := by simp [rmainN, RunSt.run, RunSt.step]
        rw [hm]
        have := rmu_collect hd hwc hrc
        omega
      | nil =>
        have hskip := main_skip_eq hd (fun w' hw' => by rw [hwc] at hw'; cases hw'; exact hrc)
        have hne : s.cursor ≠ k := by
          intro e
          rw [e, hk] at hwc
          cases hwc
          exact hr hrc
        -- the state after the skipped visit
        have hadv : s.advance = { s with cursor := if s.cursor + 1 < s.ws.length then s.cursor + 1 else 0 } := by
          unfold RunSt.advance RunSt.endOfPass
          split
          · rfl
          · first | rfl | simp only [hc]
        obtain ⟨j, hj⟩ := ih { s with cursor := if s.cursor + 1 < s.ws.length then s.cursor + 1 else 0 }
          hd hc (by simp only; split <;> omega) k w hk hr (by
            simp only
            unfold cdist at hdist ⊢
            split <;> split at hdist <;> split <;> omega)
        refine ⟨j + 1, ?_⟩
        rw [rmainN_succ, hskip, hadv]
        exact hj

/-- every result has been yielded: the caller finishes the pass it is in and returns -/
theorem rpass_ends (d : Nat) :
    ∀ (s : RunSt α), s.done = false → s.total ≤ s.count → s.ws.length - s.cursor = d →
      ∃ j, (rmainN j s).done = true ∨ (rmainN j s).mu < s.mu := by
  induction d with
  | zero =>
    intro s hd hc hdist
    refine ⟨1, ?_⟩
    have hm : rmainN 1 s = s.mainStep false := by simp [rmainN, RunSt.run, RunSt.step]
    rw [hm]
    cases hwc : s.ws[s.cursor]? with
    | some wc => have := lt_of_getElem?_some hwc; omega
    | none =>
      left
      rw [main_skip_eq hd (fun w' hw' => by rw [hwc] at hw'; cases hw')]
      unfold RunSt.advance RunSt.endOfPass
      have h1 : ¬ s.cursor + 1 < s.ws.length := by omega
      have h2 : ¬ s.count < s.total := by omega
      simp [h1, h2]
  | succ d ih =>
    intro s hd hc hdist
    cases hwc : s.ws[s.cursor]? with
    | none =>
      have : s.cursor < s.ws.length := by omega
      rw [List.getElem?_eq_getElem this] at hwc; cases hwc
    | some wc =>
      cases hrc : wc.resQ with
      | cons r rq =>
        refine ⟨1, Or.inr ?_⟩
        have hm : rmainN 1 s = s.mainStep false := by simp [rmainN, RunSt.run, RunSt.step]
        rw [hm]
        have := rmu_collect hd hwc hrc
        omega
      | nil =>
        have hskip := main_skip_eq hd (fun w' hw' => by rw [hwc] at hw'; cases hw'; exact hrc)
        by_cases hlast : s.cursor + 1 < s.ws.length
        · have hadv : s.advance = { s with cursor := s.cursor + 1 } := by
            unfold RunSt.advance
            simp only [hlast, if_true]
          obtain ⟨j, hj⟩ := ih { s with cursor := s.cursor + 1 } hd hc (by simp only; omega)
          refine ⟨j + 1, ?_⟩
          rw [rmainN_succ, hskip, hadv]
          exact hj
        · refine ⟨1, Or.inl ?_⟩
          have hm : rmainN 1 s = s.mainStep false := by simp [rmainN, RunSt.run, RunSt.step]
          rw [hm, hskip]
          unfold RunSt.advance RunSt.endOfPass
          have h2 : ¬ s.count < s.total := by omega
          simp [hlast, h2]

theorem rexists_done_or_decrease {js : List (Res α)} {s : RunSt α} (hi : RunInv js s) (hl : RunLive s)
    (hct : s.cfg.countTwice = false) (hd : s.done = false) :
    ∃ evs, (s.run evs).done = true ∨ (s.run evs).mu < s.mu := by
  by_cases hhold : ∃ (k : Nat) (w : RWorker α), s.ws[k]? = some w ∧ w.hold ≠ none
  · obtain ⟨k, w, hk, hw⟩ := hhold
    obtain ⟨r, hr⟩ := Option.ne_none_iff_exists'.mp hw
    refine ⟨[⟨k + 1, false⟩], Or.inr ?_⟩
    have : s.run [⟨k + 1, false⟩] = s.workerStep k false := by simp [RunSt.run, RunSt.step]
    rw [this]
    have := rmu_put hk hr
    omega
  · have hnohold : ∀ (k : Nat) (w : RWorker α), s.ws[k]? = some w → w.hold = none := by
      intro k w hk
      exact Classical.byContradiction fun h => hhold ⟨k, w, hk, h⟩
    obtain ⟨jl, m, hq, hal⟩ := hl.shape
    cases jl with
    | cons j jl' =>
      -- a job is queued and every worker is still there: worker 0 takes it
      have h0 : s.ws[0]? = some (s.ws[0]'hl.pos) := List.getElem?_eq_getElem hl.pos
      refine ⟨[⟨1, false⟩], Or.inr ?_⟩
      have : s.run [⟨1, false⟩] = s.workerStep 0 false := by simp [RunSt.run, RunSt.step]
      rw [this]
      have := rmu_take hl.cfgp h0 (hnohold _ _ h0) (hal (by simp) _ _ h0) (by simpa using hq)
      omega
    | nil =>
      have hnojobs : jobsOf s.jobQ = [] := by
        rw [hq]; simp [jobsOf_replicate_stop]
      by_cases hc : s.count < s.total
      · -- something is still to be yielded, and it can only be on a result queue
        have hlen := hi.bag.length_eq
        have hcnt := hi.count hct
        have htot := hi.total
        simp only [List.length_append, List.length_map, hnojobs, List.length_nil] at hlen
        have hne : rpipes s.ws ≠ [] := by
          intro h0
          rw [h0] at hlen
          simp at hlen
          omega
        obtain ⟨k, w, hk, hw⟩ := exists_pipe_of_rpipes s.ws hne
        have hr : w.resQ ≠ [] := by
          intro hr
          apply hw
          simp [RWorker.pipe, hr, hnohold k w hk]
        obtain ⟨jn, hj⟩ := rpoll_reaches _ s hd hc hl.cur k w hk hr rfl
        exact ⟨List.replicate jn ⟨0, false⟩, Or.inr hj⟩
      · obtain ⟨jn, hj⟩ := rpass_ends _ s hd (by omega) rfl
        exact ⟨List.replicate jn ⟨0, false⟩, hj⟩

theorem rcan_finish {js : List (Res α)} (n : Nat) :
    ∀ (s : RunSt α), RunInv js s → RunLive s → s.cfg.countTwice = false → s.mu ≤ n →
      ∃ evs, (s.run evs).done = true := by
  induction n with
  | zero =>
    intro s hi hl hct hm
    cases hd : s.done with
    | true => exact ⟨[], hd⟩
    | false =>
      obtain ⟨evs, h | h⟩ := rexists_done_or_decrease hi hl hct hd
      · exact ⟨evs, h⟩
      · omega
  | succ n ih =>
    intro s hi hl hct hm
    cases hd : s.done with
    | true => exact ⟨[], hd⟩
    | false =>
      obtain ⟨evs, h | h⟩ := rexists_done_or_decrease hi hl hct hd
      · exact ⟨evs, h⟩
      · obtain ⟨evs', h'⟩ := ih (s.run evs) (runInv_run hi evs) (runLive_run hl evs)
          (by rw [RunSt.run_cfg]; exact hct) (by omega)
        exact ⟨evs ++ evs', by rw [RunSt.run_append]; exact h'⟩

end AF.ParEval
