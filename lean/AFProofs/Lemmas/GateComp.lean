import AFModel.GateComp

/-! Helper lemmas about `GateComp` (core Lean only). Property theorems live in `AFProofs/C03.lean`. -/

namespace AF

variable {V : Type}

theorem flattenTrees_append : ∀ (xs ys : List (ATree V)),
    flattenTrees (xs ++ ys) = flattenTrees xs ++ flattenTrees ys
  | [], ys => by simp [flattenTrees]
  | x :: xs, ys => by simp [flattenTrees, flattenTrees_append xs ys]

theorem flattenTrees_single (t : ATree V) : flattenTrees [t] = t.flatten := by
  simp [flattenTrees]

theorem reach_iff (c d : ANode V) : Reach c d ↔ d = c ∨ ∃ k ∈ c.kids, Reach k d := by
  constructor
  · intro h
    cases h with
    | refl => exact Or.inl rfl
    | step hk hr => exact Or.inr ⟨_, hk, hr⟩
  · rintro (rfl | ⟨k, hk, hr⟩)
    · exact Reach.refl _
    · exact Reach.step hk hr

theorem reach_trans {c d e : ANode V} (h₁ : Reach c d) (h₂ : Reach d e) : Reach c e := by
  induction h₁ with
  | refl => exact h₂
  | step hk _ ih => exact Reach.step hk (ih h₂)

/-- what a node contributes: its own assertions, then those below its kids -/
def Below (c : ANode V) (a : Asrt V) : Prop := ∃ d, Reach c d ∧ a ∈ d.asserts

theorem below_iff (c : ANode V) (a : Asrt V) :
    Below c a ↔ a ∈ c.asserts ∨ ∃ k ∈ c.kids, Below k a := by
  unfold Below
  constructor
  · rintro ⟨d, hr, ha⟩
    rcases (reach_iff c d).mp hr with rfl | ⟨k, hk, hr'⟩
    · exact Or.inl ha
    · exact Or.inr ⟨k, hk, d, hr', ha⟩
  · rintro (ha | ⟨k, hk, d, hr, ha⟩)
    · exact ⟨c, Reach.refl c, ha⟩
    · exact ⟨d, Reach.step hk hr, ha⟩

mutual
/-- the assertions the recursion visits below a node are exactly those attached to a reachable node -/
theorem mem_trees_iff : ∀ (c : ANode V) (a : Asrt V), a ∈ flattenTrees c.trees ↔ Below c a
  | .leaf n, a => by
      rw [below_iff]; simp [ANode.trees, flattenTrees, ANode.asserts, ANode.kids]
  | .model cls ctor as attrs, a => by
      rw [below_iff]
      simp only [ANode.trees, flattenTrees, ATree.flatten, List.append_nil, List.mem_append,
        ANode.asserts, ANode.kids, mem_attrTrees_iff attrs a]
  | .coll as attrs, a => by
      rw [below_iff]
      simp only [ANode.trees, flattenTrees, ATree.flatten, List.append_nil, List.mem_append,
        ANode.asserts, ANode.kids, mem_attrTrees_iff attrs a]
  | .array shape as attrs, a => by
      rw [below_iff]
      simp only [ANode.trees, flattenTrees, ATree.flatten, List.append_nil, List.mem_append,
        ANode.asserts, ANode.kids, mem_attrTrees_iff attrs a]
  | .arith op as attrs l r, a => by
      rw [below_iff]
      simp only [ANode.trees, flattenTrees, ATree.flatten, List.append_nil, List.mem_append,
        ANode.asserts, ANode.kids, flattenTrees_append, mem_trees_iff l a, mem_trees_iff r a,
        List.mem_cons, List.not_mem_nil, or_false]
      constructor
      · rintro (h | h | h)
        · exact Or.inl h
        · exact Or.inr ⟨l, Or.inl rfl, h⟩
        · exact Or.inr ⟨r, Or.inr rfl, h⟩
      · rintro (h | ⟨k, rfl | rfl, h⟩)
        · exact Or.inl h
        · exact Or.inr (Or.inl h)
        · exact Or.inr (Or.inr h)
  | .modif op as attrs x, a => by
      rw [below_iff]
      simp only [ANode.trees, flattenTrees, ATree.flatten, List.append_nil, List.mem_append,
        ANode.asserts, ANode.kids, mem_trees_iff x a, List.mem_cons, List.not_mem_nil, or_false]
      constructor
      · rintro (h | h)
        · exact Or.inl h
        · exact Or.inr ⟨x, rfl, h⟩
      · rintro (h | ⟨k, rfl, h⟩)
        · exact Or.inl h
        · exact Or.inr h
theorem mem_attrTrees_iff : ∀ (attrs : List (String × ANode V)) (a : Asrt V),
    a ∈ flattenTrees (attrTrees attrs) ↔ ∃ k ∈ attrs.map (·.2), Below k a
  | [], a => by simp [attrTrees, flattenTrees]
  | (_, n) :: rest, a => by
      simp only [attrTrees, flattenTrees_append, List.mem_append, mem_trees_iff n a,
        mem_attrTrees_iff rest a, List.map_cons, List.mem_cons]
      constructor
      · rintro (h | ⟨k, hk, h⟩)
        · exact ⟨n, Or.inl rfl, h⟩
        · exact ⟨k, Or.inr hk, h⟩
      · rintro ⟨k, rfl | hk, h⟩
        · exact Or.inl h
        · exact Or.inr ⟨k, hk, h⟩
end

/-! ### the trace -/

variable [Inhabited V]

mutual
theorem traceTree_of_check (ops : Ops V) (ρ : Nat → Inst V) : ∀ (t : ATree V),
    checkTree ops ρ t = true → traceTree ops ρ t = fullTrace ops ρ t
  | .node as cs, h => by
      simp only [checkTree, Bool.and_eq_true] at h
      simp only [traceTree, h.1, if_true, fullTrace, traceTrees_of_check ops ρ cs h.2]
theorem traceTrees_of_check (ops : Ops V) (ρ : Nat → Inst V) : ∀ (ts : List (ATree V)),
    checkTrees ops ρ ts = true → traceTrees ops ρ ts = fullTraces ops ρ ts
  | [], _ => by simp [traceTrees, fullTraces]
  | t :: rest, h => by
      simp only [checkTrees, Bool.and_eq_true] at h
      simp only [traceTrees, h.1, if_true, fullTraces, traceTree_of_check ops ρ t h.1,
        traceTrees_of_check ops ρ rest h.2]
end

/-- a verdict list with a failure -/
def hasFalse (vs : List Bool) : Bool := vs.any (fun b => !b)

mutual
/-- when the check fails the trace ends at a node with a failed assertion, and every earlier node
passed -/
theorem traceTree_of_fail (ops : Ops V) (ρ : Nat → Inst V) : ∀ (t : ATree V),
    checkTree ops ρ t = false →
      ∃ pre last, traceTree ops ρ t = pre ++ [last] ∧ hasFalse last = true ∧
        ∀ vs ∈ pre, hasFalse vs = false
  | .node as cs, h => by
      by_cases ha : as.all (evalA ops ρ) = true
      · have hc : checkTrees ops ρ cs = false := by
          simpa [checkTree, ha] using h
        obtain ⟨pre, last, he, hl, hp⟩ := traceTrees_of_fail ops ρ cs hc
        refine ⟨as.map (evalA ops ρ) :: pre, last, ?_, hl, ?_⟩
        · simp [traceTree, ha, he]
        · intro vs hvs
          rcases List.mem_cons.mp hvs with rfl | hvs
          · simp only [hasFalse, List.any_map, Bool.eq_false_iff]
            intro hany
            obtain ⟨a, ham, hav⟩ := List.any_eq_true.mp hany
            have := List.all_eq_true.mp ha a ham
            simp [this] at hav
          · exact hp vs hvs
      · refine ⟨[], as.map (evalA ops ρ), ?_, ?_, by simp⟩
        · simp [traceTree, ha]
        · simp only [hasFalse, List.any_map]
          rw [List.any_eq_true]
          have ha' : as.all (evalA ops ρ) = false := by simpa using ha
          obtain ⟨a, ham, hav⟩ := List.all_eq_false.mp ha'
          exact ⟨a, ham, by simpa using hav⟩
theorem traceTrees_of_fail (ops : Ops V) (ρ : Nat → Inst V) : ∀ (ts : List (ATree V)),
    checkTrees ops ρ ts = false →
      ∃ pre last, traceTrees ops ρ ts = pre ++ [last] ∧ hasFalse last = true ∧
        ∀ vs ∈ pre, hasFalse vs = false
  | [], h => by simp [checkTrees] at h
  | t :: rest, h => by
      by_cases ht : checkTree ops ρ t = true
      · have hr : checkTrees ops ρ rest = false := by simpa [checkTrees, ht] using h
        obtain ⟨pre, last, he, hl, hp⟩ := traceTrees_of_fail ops ρ rest hr
        refine ⟨traceTree ops ρ t ++ pre, last, ?_, hl, ?_⟩
        · simp [traceTrees, ht, he]
        · intro vs hvs
          rcases List.mem_append.mp hvs with hvs | hvs
          · rw [traceTree_of_check ops ρ t ht] at hvs
            exact fullTrace_no_false ops ρ t ht vs hvs
          · exact hp vs hvs
      · have ht' : checkTree ops ρ t = false := by simpa using ht
        obtain ⟨pre, last, he, hl, hp⟩ := traceTree_of_fail ops ρ t ht'
        exact ⟨pre, last, by simp [traceTrees, ht', he], hl, hp⟩
theorem fullTrace_no_false (ops : Ops V) (ρ : Nat → Inst V) : ∀ (t : ATree V),
    checkTree ops ρ t = true → ∀ vs ∈ fullTrace ops ρ t, hasFalse vs = false
  | .node as cs, h, vs, hvs => by
      simp only [checkTree, Bool.and_eq_true] at h
      simp only [fullTrace, List.mem_cons] at hvs
      rcases hvs with rfl | hvs
      · simp only [hasFalse, List.any_map, Bool.eq_false_iff]
        intro hany
        obtain ⟨a, ham, hav⟩ := List.any_eq_true.mp hany
        have := List.all_eq_true.mp h.1 a ham
        simp [this] at hav
      · exact fullTraces_no_false ops ρ cs h.2 vs hvs
theorem fullTraces_no_false (ops : Ops V) (ρ : Nat → Inst V) : ∀ (ts : List (ATree V)),
    checkTrees ops ρ ts = true → ∀ vs ∈ fullTraces ops ρ ts, hasFalse vs = false
  | [], _, vs, hvs => by simp [fullTraces] at hvs
  | t :: rest, h, vs, hvs => by
      simp only [checkTrees, Bool.and_eq_true] at h
      simp only [fullTraces, List.mem_append] at hvs
      rcases hvs with hvs | hvs
      · exact fullTrace_no_false ops ρ t h.1 vs hvs
      · exact fullTraces_no_false ops ρ rest h.2 vs hvs
end

end AF
