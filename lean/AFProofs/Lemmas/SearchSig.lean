import AFModel.SearchSig
import AFModel.FitFiles

/-! Lemmas for the grown part of C11: the keyword-binding model and the file-name model. -/

namespace AF.SearchSig
open AF.Generated.C11

theorem mem_forwarded {s : Sig} {keys : List String} {k : String} (h : k ∈ forwarded s keys) :
    s.forwards = true ∧ k ∈ keys ∧ s.params.contains k = false ∧ s.dropped.contains k = false := by
  unfold forwarded at h
  split at h
  · rename_i hf
    simp only [extras, List.mem_filter, Bool.not_eq_true'] at h
    exact ⟨hf, h.1.1, h.1.2, h.2⟩
  · cases h

/-- an absorbing chain accepts every list of keys -/
theorem call_ok_of_absorbing : ∀ (chain : List Sig), absorbing chain = true →
    ∀ keys, call chain keys = .ok := by
  intro chain
  induction chain with
  | nil => intro h; simp [absorbing] at h
  | cons s rest ih =>
    intro h keys
    simp only [absorbing, Bool.and_eq_true, List.isEmpty_iff, List.all_eq_true, Bool.or_eq_true] at h
    obtain ⟨⟨⟨hreq, hvar⟩, hexp⟩, hnext⟩ := h
    have hnone : (forwarded s keys).find? (fun k => s.explicit.contains k) = none := by
      rw [List.find?_eq_none]
      intro k hk hc
      obtain ⟨_, _, hp, hd⟩ := mem_forwarded hk
      have hmem : k ∈ s.explicit := by simpa using hc
      rcases hexp k hmem with h1 | h1
      · rw [hp] at h1; cases h1
      · rw [hd] at h1; cases h1
    unfold call
    simp only [hvar, if_true, hreq, List.find?_nil, hnone]
    by_cases hf : s.forwards = true
    · rw [if_pos hf] at hnext
      exact ih hnext _
    · have hfw : forwarded s keys = [] := by simp [forwarded, hf]
      rw [if_neg hf] at hnext
      rw [hfw, List.append_nil]
      simpa using hnext

/-- a *multiple values* error names a keyword some constructor gives explicitly although it
neither names it as a parameter nor takes it out of the `**kwargs` it passes on -/
theorem multiple_has_witness : ∀ (chain : List Sig) (keys : List String) (c k : String),
    call chain keys = .multiple c k →
    ∃ s ∈ chain, s.forwards = true ∧ k ∈ s.explicit ∧ s.params.contains k = false ∧
      s.dropped.contains k = false := by
  intro chain
  induction chain with
  | nil =>
    intro keys c k h
    cases keys <;> simp [call] at h
  | cons s rest ih =>
    intro keys c k h
    unfold call at h
    split at h
    · cases h
    · split at h
      · cases h
      · split at h
        · rename_i k' hk'
          have hk : k' = k := by injection h
          subst hk
          have hm := List.mem_of_find?_eq_some hk'
          have hp := List.find?_some hk'
          obtain ⟨hf, _, hpar, hdr⟩ := mem_forwarded hm
          exact ⟨s, List.mem_cons_self .., hf, by simpa using hp, hpar, hdr⟩
        · obtain ⟨s', hs', rest'⟩ := ih _ c k h
          exact ⟨s', List.mem_cons_of_mem _ hs', rest'⟩

end AF.SearchSig

namespace AF.FitFiles
open AF.Generated.C11

theorem mem_directConsumers {ls : List Lookup} {l : Lookup} {f : FileRef} (hl : l ∈ ls)
    (hh : hits l f = true) : l.consumer ∈ directConsumers ls f := by
  unfold directConsumers
  exact List.mem_map.2 ⟨l, List.mem_filter.2 ⟨hl, hh⟩, rfl⟩

theorem mem_consumers_of_direct {ls : List Lookup} {c : String} {f : FileRef}
    (h : c ∈ directConsumers ls f) : c ∈ consumers ls f :=
  List.mem_append_left _ h

theorem isPrefix_append (a b : List String) : isPrefix a (a ++ b) = true := by
  induction a with
  | nil => simp [isPrefix]
  | cons x xs ih => simp [isPrefix, ih]

end AF.FitFiles
