import AFProofs.Lemmas.FitFS
import AFProofs.Lemmas.FitPlan

/-!
# C06 — fits resume, complete once, and survive crashes

Property theorems about the `FitFS` model (`AFModel/FitFS.lean`), the very definitions the driver
executes (`run`, `crashStates`, `exec`, `safe`, `completedResult`, `sampled`).  The model is tied to
/repo by `harness/c06.py`.

Quantifiers: every safe state `fs` (in particular every state any history reaches, `history_safe`),
every number `n` of intermediate sampler updates, every output setting and search (`st`), every crash
point of a call — between two steps and inside every non-atomic write (`crashStates`) —, every
history of runs and kills of any length (`exec`).

Hypothesis `cfg.sound st`: the repairs of `fixes/C06-*.patch` are in place (archive moved into place
atomically; files read back on resume replaced atomically; the resume sanity check compares a log
likelihood with a log likelihood; BFGS reads the keys its checkpoint has — the last two only matter
for searches whose figure of merit is not the likelihood / for BFGS).  For each repair switched off
the property is refuted by a concrete history (`…_refuted_when_…`): that is the pinned commit.

Clauses of the property and where they are:

* re-running a completed fit repeats no sampling and returns the same result   `rerun_complete_noop`
* after a death at any point the next run terminates normally, complete        `crash_states_safe` + `run_completes`,
                                                                                `crash_safe` (any history)
* a result once marked complete is never lost, corrupted or replaced           `completed_never_lost` (one call, all
                                                                                its crash points), `history_never_lost`
* the marker is only ever seen on top of a readable result, the archive never truncated
                                                                                `marker_last`, `archive_never_torn`
-/

namespace AF.FitFS

variable {cfg : Cfg} {st : Settings}

/-- Every state a kill can leave during one call of `fit` from a safe state — between any two steps
or inside any write — is safe again. -/
theorem crash_states_safe (n : Nat) {fs : FS} (h : cfg.sound st = true) (hs : safe st fs = true) :
    ∀ c ∈ crashStates fs (run cfg st n fs).steps, safe st c = true := by
  obtain ⟨l, r, h1, h2, -⟩ := run_safe (cfg := cfg) n (sound_iff.1 h) hs
  rw [h1]
  exact allowed_crash_safe hs h2

/-- From a safe state `fit` terminates normally, and the result it returns is the completed result the
output directory holds afterwards; the final state is safe. -/
theorem run_completes (n : Nat) {fs : FS} (h : cfg.sound st = true) (hs : safe st fs = true) :
    ∃ r, (run cfg st n fs).outcome = .ok r ∧
      completedResult ((run cfg st n fs).final fs) = some r ∧
      safe st ((run cfg st n fs).final fs) = true := by
  obtain ⟨l, r, h1, h2, h3, -⟩ := run_safe (cfg := cfg) n (sound_iff.1 h) hs
  refine ⟨r, by rw [h1], ?_, ?_⟩
  · rw [h1]; exact h3.completed
  · rw [h1]; exact h3.safe

/-- A completed result held by the state is held, unchanged, by every state a kill during the next
call can leave, and by the state after the call. -/
theorem completed_never_lost (n : Nat) {fs : FS} {r : View} (h : cfg.sound st = true)
    (hs : safe st fs = true) (hr : completedResult fs = some r) :
    ∀ c ∈ crashStates fs (run cfg st n fs).steps, completedResult c = some r := by
  obtain ⟨l, r', h1, h2, -⟩ := run_safe (cfg := cfg) n (sound_iff.1 h) hs
  rw [h1]
  exact allowed_crash_completed hr h2

/-- Running a completed fit again: no sampling, the same result returned, the same result held. -/
theorem rerun_complete_noop (n : Nat) {fs : FS} {r : View} (h : cfg.sound st = true)
    (hs : safe st fs = true) (hr : completedResult fs = some r) :
    (run cfg st n fs).outcome = .ok r ∧ sampled (run cfg st n fs).steps = false ∧
      completedResult ((run cfg st n fs).final fs) = some r := by
  obtain ⟨l, r', h1, h2, h3, h4, -⟩ := run_safe (cfg := cfg) n (sound_iff.1 h) hs
  obtain ⟨e1, e2⟩ := h4 r hr
  subst e1
  refine ⟨by rw [h1], by rw [h1]; exact e2, ?_⟩
  rw [h1]; exact h3.completed

/-- …whereas a fit that holds no completed result is sampled (the previous theorem is not vacuous
in its "no sampling" clause). -/
theorem incomplete_is_sampled (n : Nat) {fs : FS} (h : cfg.sound st = true) (hs : safe st fs = true)
    (hr : completedResult fs = none) : sampled (run cfg st n fs).steps = true := by
  obtain ⟨l, r', h1, -, -, -, h5⟩ := run_safe (cfg := cfg) n (sound_iff.1 h) hs
  rw [h1]; exact h5 hr

/-- The marker is written last: whenever a kill leaves a marked folder without an archive, the result
in it can be read (complete summary; samples table and its info complete or absent). -/
theorem marker_last (n : Nat) {fs : FS} (h : cfg.sound st = true) (hs : safe st fs = true) :
    ∀ c ∈ crashStates fs (run cfg st n fs).steps, c.zip = .absent → c.folder .marker ≠ .absent →
      ∃ r, readResult c.folder = .ok r := by
  intro c hc hz hm
  have hsafe := crash_states_safe n h hs c hc
  exact ((safe_absent hz).1 hsafe).marked_result hm

/-- No kill leaves a truncated archive where `restore` looks. -/
theorem archive_never_torn (n : Nat) {fs : FS} (h : cfg.sound st = true) (hs : safe st fs = true) :
    ∀ c ∈ crashStates fs (run cfg st n fs).steps, c.zip ≠ .torn := by
  intro c hc hz
  have hsafe := crash_states_safe n h hs c hc
  simp [safe, hz] at hsafe

/-- Beside a complete archive the folder is irrelevant: `fit` behaves identically whatever a
half-finished `rmtree` / `extractall` left there (this is why the harness identifies such states). -/
theorem archive_shadows_folder (n : Nat) (fo₁ fo₂ c : Folder) (k : Nat) :
    run cfg st n ⟨fo₁, .full c, k⟩ = run cfg st n ⟨fo₂, .full c, k⟩ ∧
    safe st ⟨fo₁, .full c, k⟩ = safe st ⟨fo₂, .full c, k⟩ ∧
    completedResult ⟨fo₁, .full c, k⟩ = completedResult ⟨fo₂, .full c, k⟩ := by
  refine ⟨?_, rfl, rfl⟩
  have h₁ : restore cfg ⟨fo₁, .full c, k⟩ = (rmFolder ++ extract c ++ [.zipRemove], none) := rfl
  have h₂ : restore cfg ⟨fo₂, .full c, k⟩ = (rmFolder ++ extract c ++ [.zipRemove], none) := rfl
  have e : ∀ fo : Folder, applyAll ⟨fo, .full c, k⟩ (rmFolder ++ extract c ++ [.zipRemove]) = ⟨c, .absent, k⟩ := by
    intro fo
    rw [applyAll_append, applyAll_rm_extract]
    rfl
  rw [run_of_restore h₁, run_of_restore h₂, e, e]

/-! ### histories: any sequence of run / crash / re-run -/

/-- The empty output directory is safe. -/
theorem init_safe : safe st FS.init = true := by
  simp [safe, FS.init, goodFolder, Folder.empty]

/-- Every history keeps the state safe. -/
theorem history_safe (h : cfg.sound st = true) :
    ∀ (evs : List Event) (fs : FS), safe st fs = true → safe st (exec cfg st fs evs) = true
  | [], _, hs => hs
  | e :: evs, fs, hs =>
    history_safe h evs _ (crash_states_safe e.n h hs _ (stepEvent_mem fs e))

/-- **Crash safety, full strength**: after *any* history of runs and kills — at any point, any number of
times — the next run terminates normally with a complete result, which the directory then holds. -/
theorem crash_safe (h : cfg.sound st = true) (evs : List Event) (n : Nat) :
    let fs := exec cfg st FS.init evs
    safe st fs = true ∧
    ∃ r, (run cfg st n fs).outcome = .ok r ∧ completedResult ((run cfg st n fs).final fs) = some r := by
  have hs := history_safe h evs FS.init init_safe
  obtain ⟨r, h1, h2, -⟩ := run_completes (cfg := cfg) n h hs
  exact ⟨hs, r, h1, h2⟩

/-- **Never lost, corrupted or replaced**: a completed result held at some point of a history is held
after every continuation of the history… -/
theorem history_never_lost (h : cfg.sound st = true) {r : View} :
    ∀ (evs : List Event) (fs : FS), safe st fs = true → completedResult fs = some r →
      completedResult (exec cfg st fs evs) = some r
  | [], _, _, hr => hr
  | e :: evs, fs, hs, hr =>
    history_never_lost h evs _ (crash_states_safe e.n h hs _ (stepEvent_mem fs e))
      (completed_never_lost e.n h hs hr _ (stepEvent_mem fs e))

/-- …and is what every later run returns, without sampling. -/
theorem completed_once (h : cfg.sound st = true) {r : View} (before after : List Event) (n : Nat)
    (hr : completedResult (exec cfg st FS.init before) = some r) :
    let fs := exec cfg st (exec cfg st FS.init before) after
    (run cfg st n fs).outcome = .ok r ∧ sampled (run cfg st n fs).steps = false := by
  have hs0 := history_safe h before FS.init init_safe
  have hs := history_safe h after _ hs0
  have hr' := history_never_lost h after _ hs0 hr
  obtain ⟨h1, h2, -⟩ := rerun_complete_noop (cfg := cfg) n h hs hr'
  exact ⟨h1, h2⟩

/-! ### non-vacuity and the pinned commit -/

/-- Drawer, uniform priors, files kept, samples table on -/
def stDrawer : Settings := ⟨false, true, false, .drawer, true⟩
/-- LBFGS, files removed after zipping, search internal kept -/
def stLbfgs : Settings := ⟨true, true, true, .lbfgs, false⟩

/-- a finished fit -/
def fsDone (cfg : Cfg) (st : Settings) : FS := (run cfg st 1 FS.init).final FS.init

example : Cfg.repaired.sound stDrawer = true ∧ Cfg.repaired.sound stLbfgs = true := by decide

/-- a non-trivial state meeting the hypotheses of every theorem above: safe, holding a completed result -/
example : safe stLbfgs (fsDone .repaired stLbfgs) = true ∧
    completedResult (fsDone .repaired stLbfgs) = some ⟨2, some (2, 2)⟩ := by decide

/-- a kill in the middle of a resumed fit leaves a safe state without a completed result -/
example : ((crashStates FS.init (run .repaired stLbfgs 1 FS.init).steps)[8]?).map
    (fun c => (safe stLbfgs c, completedResult c, c.folder .summary, c.folder .samples)) =
    some (true, none, .full 1, .torn) := by decide

/-! ### the plan read off the source

`AF.FitFS.Plan` walks the call tables that `harness/tables_c06.py` regenerates from the repository on every run
(`AFModel/Generated/C06.lean`: the ordered calls of `fit`, `pre_fit_output`, `start_resume_fit`, `perform_update`,
`result_via_completed_fit`, `post_fit_output`, `restore`, `_zip`, `zip_directory` and of the writers of
`DirectoryPaths` / `Timer`, with the settings guarding each call).  The three structural repairs are no longer a
hypothesis supplied as data: they are computed from those tables (`source_repairs_in_place`), and the step list
the theorems above quantify over is the one the source spells out (`plan_is_run`).  A write added to, removed
from or moved inside one of those functions changes the tables, hence these proof obligations. -/

/-- The source writes the archive beside its name and moves it into place, opens it before deleting the
folder, and writes every file read back on resume through `open_atomic`. -/
theorem source_repairs_in_place :
    Plan.srcZipAtomic = true ∧ Plan.srcRestoreValidates = true ∧ Plan.srcAtomicWrites = true :=
  ⟨srcZipAtomic_true, srcRestoreValidates_true, srcAtomicWrites_true⟩

/-- Hence the hypothesis of every theorem above reduces, for the configuration the source stands for, to the two
semantic repairs (resume check, BFGS checkpoint keys) - and to nothing for a nested sampler. -/
theorem source_cfg_sound (a b : Bool) (h1 : (a || st.fomIsLikelihood) = true)
    (h2 : (b || st.search != .lbfgs) = true) : (Plan.srcCfg a b).sound st = true := by
  rw [srcCfg_eq]
  simp only [Cfg.sound, Bool.true_and]
  rw [h1, h2]
  rfl

/-- `perform_update` as the source orders it is the model's `update`, for every setting and content name. -/
theorem plan_update_conforms (a b : Bool) (st : Settings) (g : Nat) :
    Plan.updateSteps st g = update (Plan.srcCfg a b) st g := updateSteps_eq a b st g

/-- `start_resume_fit` as the source orders it (timer, sampler, final update, marker *last*) is the model's
`timerStart` followed by `sampling`, for every number of intermediate updates. -/
theorem plan_start_resume_conforms (a b : Bool) (st : Settings) (n g0 : Nat) (fo : Folder) :
    Plan.startResumeSteps st n g0 fo =
      (timerStart (Plan.srcCfg a b) fo).1 ++ sampling (Plan.srcCfg a b) st n g0 :=
  startResumeSteps_eq a b st n g0 fo

/-- `restore` as the source orders it is the model's. -/
theorem plan_restore_conforms (a b : Bool) (st : Settings) (fs : FS) (h : fs.zip ≠ .torn) :
    restore (Plan.srcCfg a b) fs = (Plan.restoreSteps st fs, none) := restoreSteps_eq a b st fs h

/-- `result_via_completed_fit` neither samples nor writes, whatever the output settings. -/
theorem plan_completed_branch_reads_only (st : Settings) : Plan.completedFitSteps st = [] :=
  completedFitSteps_nil st

/-- **Refinement**: from every safe state, for every setting and number of updates, the step list read off
the source is the step list of `run` - the subject of every theorem of this file. -/
theorem plan_is_run (a b : Bool) (n : Nat) {fs : FS} (h : (Plan.srcCfg a b).sound st = true)
    (hs : safe st fs = true) :
    Plan.planSteps st n fs = (run (Plan.srcCfg a b) st n fs).steps :=
  planSteps_eq_run a b n (sound_iff.1 h) hs

/-- Crash safety stated on the source-derived steps: a kill between any two of them, or inside any write
they do not make atomically, leaves a safe state. -/
theorem plan_crash_states_safe (a b : Bool) (n : Nat) {fs : FS} (h : (Plan.srcCfg a b).sound st = true)
    (hs : safe st fs = true) :
    ∀ c ∈ crashStates fs (Plan.planSteps st n fs), safe st c = true := by
  rw [plan_is_run a b n h hs]
  exact crash_states_safe n h hs

/-- …and keeps a completed result held before. -/
theorem plan_completed_never_lost (a b : Bool) (n : Nat) {fs : FS} {r : View}
    (h : (Plan.srcCfg a b).sound st = true) (hs : safe st fs = true) (hr : completedResult fs = some r) :
    ∀ c ∈ crashStates fs (Plan.planSteps st n fs), completedResult c = some r := by
  rw [plan_is_run a b n h hs]
  exact completed_never_lost n h hs hr

/-- The source-derived steps of a call on a completed fit contain no sampling; on any other safe state they do,
and in both cases they end with a completed result held. -/
theorem plan_completes_once (a b : Bool) (n : Nat) {fs : FS} (h : (Plan.srcCfg a b).sound st = true)
    (hs : safe st fs = true) :
    (sampled (Plan.planSteps st n fs) = (completedResult fs).isNone) ∧
    (completedResult (applyAll fs (Plan.planSteps st n fs))).isSome = true := by
  rw [plan_is_run a b n h hs]
  obtain ⟨r, -, h2, -⟩ := run_completes (cfg := Plan.srcCfg a b) n h hs
  refine ⟨?_, by simpa [Run.final] using congrArg Option.isSome h2⟩
  cases hc : completedResult fs with
  | none => simpa using incomplete_is_sampled n h hs hc
  | some r0 => simpa using (rerun_complete_noop n h hs hc).2.1

/-- Over histories: whatever sequence of runs and kills came before, the steps the source spells out for the next
call are safe to be killed in, and end complete. -/
theorem plan_crash_safe (a b : Bool) (h : (Plan.srcCfg a b).sound st = true) (evs : List Event) (n : Nat) :
    let fs := exec (Plan.srcCfg a b) st FS.init evs
    (∀ c ∈ crashStates fs (Plan.planSteps st n fs), safe st c = true) ∧
    (completedResult (applyAll fs (Plan.planSteps st n fs))).isSome = true := by
  have hs := history_safe h evs FS.init init_safe
  exact ⟨plan_crash_states_safe a b n h hs, (plan_completes_once a b n h hs).2⟩

/-- the hypotheses are met with no assumption at all for a nested sampler, and the plan is not trivial:
a fresh LBFGS fit with one intermediate update has as many steps as the model's `run`, samples, and ends complete -/
example : (Plan.srcCfg false false).sound ⟨true, true, false, .dynesty, true⟩ = true := by decide

example : (Plan.planSteps stLbfgs 1 FS.init).length = (run Cfg.repaired stLbfgs 1 FS.init).steps.length ∧
    sampled (Plan.planSteps stLbfgs 1 FS.init) = true ∧
    20 < (Plan.planSteps stLbfgs 1 FS.init).length := by decide

def anyState (l : List FS) (p : FS → Bool) : Bool := l.any p

/-- **Pinned commit, archive written in place**: re-running a *completed* fit, a kill while `<id>.zip`
is being written leaves a truncated archive beside the intact folder; the next `fit` deletes the
folder and raises `BadZipFile`: the completed result is lost. -/
theorem lost_refuted_when_zip_in_place :
    let cfg : Cfg := { Cfg.repaired with zipAtomic := false, restoreValidates := false }
    let fs := fsDone cfg stDrawer
    (completedResult fs).isSome = true ∧
    anyState (crashStates fs (run cfg stDrawer 0 fs).steps) (fun c =>
      (run cfg stDrawer 0 c).outcome == .raises .badZip &&
      completedResult ((run cfg stDrawer 0 c).final c) == none &&
      ((run cfg stDrawer 0 c).final c).folder .summary == .absent) = true := by
  decide

/-- with the archive still written in place but validated before the folder is deleted the result
survives, the fit is stuck all the same -/
theorem stuck_refuted_when_zip_in_place_validated :
    let cfg : Cfg := { Cfg.repaired with zipAtomic := false }
    let fs := fsDone cfg stDrawer
    anyState (crashStates fs (run cfg stDrawer 0 fs).steps) (fun c =>
      (run cfg stDrawer 0 c).outcome == .raises .badZip &&
      (folderResult ((run cfg stDrawer 0 c).final c).folder).isSome) = true := by
  decide

/-- **Pinned commit, result files written in place**: a kill inside the write of
`samples_summary.json` leaves a partial file; every later `fit` raises `JSONDecodeError`. -/
theorem stuck_refuted_when_writes_not_atomic :
    let cfg : Cfg := { Cfg.repaired with atomicWrites := false }
    anyState (crashStates FS.init (run cfg stDrawer 0 FS.init).steps) (fun c =>
      c.folder .summary == .torn && (run cfg stDrawer 0 c).outcome == .raises .jsonDecode) = true := by
  decide

/-- **Pinned commit, resume check compares the figure of merit**: a BFGS fit killed after an
intermediate update cannot be resumed (`SearchException`). -/
theorem stuck_refuted_when_check_compares_fom :
    let cfg : Cfg := { Cfg.repaired with fomCheckSound := false }
    anyState (crashStates FS.init (run cfg stLbfgs 1 FS.init).steps) (fun c =>
      safe stLbfgs c && (run cfg stLbfgs 1 c).outcome == .raises .fomMismatch) = true := by
  decide

/-- **Pinned commit, BFGS checkpoint keys**: a BFGS fit killed after its first checkpoint cannot be
resumed (`KeyError`). -/
theorem stuck_refuted_when_lbfgs_checkpoint_unread :
    let cfg : Cfg := { Cfg.repaired with lbfgsResumes := false }
    anyState (crashStates FS.init (run cfg stLbfgs 1 FS.init).steps) (fun c =>
      safe stLbfgs c && (run cfg stLbfgs 1 c).outcome == .raises .keyError) = true := by
  decide

end AF.FitFS
