import AFModel.Passing
import AFModel.WidthCfg
import AFModel.PassRoutes
import AFModel.PassPlace
import AFProofs.Lemmas.Persist
import AFProofs.Lemmas.WidthCfg
import AFProofs.Lemmas.PassRoutes
import Mathlib.Algebra.Order.Field.Basic
import Mathlib.Tactic.Linarith

/-!
# C12 — prior passing keeps every inferred value on its own parameter

The new model is the old tree with each prior replaced, by identity, by the prior derived for it
(`AFModel/Passing.lean`). Identities are kept (`mapper_from_prior_means`, `mapper_from_uniform_floats`,
`replacing`) or renamed monotonically (`with_limits`), so structure, paths, count, sharing and fixed
values are preserved by C08's theorems about `renameIds`; the theorems here add: *which* prior each
parameter receives, that the order is kept, and that widths are non-negative.
-/

namespace AF.C12
open AF

variable {V V' : Type}

/-- **The prior of the i-th parameter is derived from the i-th inferred value** (and from nothing
else): the argument dictionary maps the i-th prior (id order) to `derive … olds[i] cfgs[i] xs[i]`.
Every place sharing that parameter receives the same new prior, because substitution is by identity. -/
theorem passed_prior_for_parameter (po : PassOps V) (mode : PassMode V) (t : Node V')
    (olds : List (PD V)) (cfgs : List (PCfg V)) (xs : List (V × V))
    (ho : olds.length = count t) (hc : cfgs.length = count t) (hx : xs.length = count t)
    (i : Nat) (hi : i < count t) :
    lookupArg (passArgs po mode t olds cfgs xs) ((uniqueIds t)[i]'hi) =
      some (derive po mode (olds[i]'(ho ▸ hi)) (cfgs[i]'(hc ▸ hi)) (xs[i]'(hx ▸ hi)).1 (xs[i]'(hx ▸ hi)).2) := by
  have hnd : (uniqueIds t).Nodup := nodup_of_sorted (sorted_sortDedup _)
  have hlen : ((olds.zip (cfgs.zip xs)).map
      (fun (o, c, x) => derive po mode o c x.1 x.2)).length = (uniqueIds t).length := by
    simp [List.length_zip, ho, hc, hx, count]
  have := lookup_zip_get (uniqueIds t) _ hnd hlen.symm i hi (hlen ▸ hi)
  simp only [passArgs]
  rw [this]
  simp

/-- **Widths are never negative**: with a non-negative absolute width / modifier value, every mode
gives a non-negative width for *every* inferred value (negative, zero, any magnitude), as soon as
`abs` is non-negative. -/
theorem width_nonneg (po : PassOps V) (le : V → V → Prop) (zero : V)
    (habs : ∀ x, le zero (po.abs x)) (a r : Option V) (cfg : PCfg V) (mean : V)
    (ha : ∀ w, a = some w → le zero w) (hv : cfg.relative = false → le zero cfg.value) :
    le zero (passWidth po a r cfg mean) := by
  unfold passWidth
  cases a with
  | some w => exact ha w rfl
  | none =>
    cases r with
    | some r => exact habs _
    | none =>
      by_cases hrel : cfg.relative = true
      · simp [hrel]; exact habs _
      · have : cfg.relative = false := by simpa using hrel
        simp [this]; exact hv this

/-- centred: the new Gaussian prior is centred on the inferred value, whatever the widths -/
theorem means_centred (po : PassOps V) (a r nl) (old : PD V) (cfg : PCfg V) (x y : V) :
    (derive po (.means a r nl) old cfg x y).mean = x ∧
    (derive po (.means a r nl) old cfg x y).kind = "Gaussian" := by
  simp [derive]

theorem uniform_bounds (po : PassOps V) (b : V) (old : PD V) (cfg : PCfg V) (x y : V) :
    (derive po (.uniform b) old cfg x y).lo = po.sub x b ∧
    (derive po (.uniform b) old cfg x y).hi = po.add x b := by
  simp [derive]

/-! ## order is kept when ids are renamed monotonically (`with_limits`) -/

theorem insertUniq_map (σ : Nat → Nat) (a : Nat) : ∀ (s : List Nat),
    (∀ i ∈ a :: s, ∀ j ∈ a :: s, i < j → σ i < σ j) →
    insertUniq (σ a) (s.map σ) = (insertUniq a s).map σ
  | [], _ => by simp [insertUniq]
  | b :: bs, h => by
    have hmono : ∀ i ∈ a :: bs, ∀ j ∈ a :: bs, i < j → σ i < σ j := fun i hi j hj hij =>
      h i (by rcases List.mem_cons.mp hi with rfl | hi <;> simp [*]) j
        (by rcases List.mem_cons.mp hj with rfl | hj <;> simp [*]) hij
    have ih := insertUniq_map σ a bs hmono
    simp only [List.map_cons]
    unfold insertUniq
    by_cases hab : a < b
    · have := h a (by simp) b (by simp) hab
      simp [hab, this]
    · by_cases hab' : a = b
      · subst hab'; simp
      · have hba : b < a := by omega
        have := h b (by simp) a (by simp) hba
        have h1 : ¬ σ a < σ b := by omega
        have h2 : σ a ≠ σ b := by omega
        simp [hab, hab', h1, h2, ih]

theorem sortDedup_map_mono (σ : Nat → Nat) : ∀ (l : List Nat),
    (∀ i ∈ l, ∀ j ∈ l, i < j → σ i < σ j) → sortDedup (l.map σ) = (sortDedup l).map σ
  | [], _ => by simp [sortDedup]
  | a :: l, h => by
    have h' : ∀ i ∈ l, ∀ j ∈ l, i < j → σ i < σ j :=
      fun i hi j hj => h i (List.mem_cons_of_mem _ hi) j (List.mem_cons_of_mem _ hj)
    have ih := sortDedup_map_mono σ l h'
    simp only [List.map_cons, sortDedup, List.foldr_cons] at ih ⊢
    rw [ih]
    apply insertUniq_map
    intro i hi j hj hij
    have hm : ∀ x, x ∈ a :: List.foldr insertUniq [] l → x ∈ a :: l := by
      intro x hx
      rcases List.mem_cons.mp hx with rfl | hx
      · simp
      · exact List.mem_cons_of_mem _ (mem_sortDedup.mp hx)
    exact h i (hm i hi) j (hm j hj) hij

/-- **Order preserved.** If the renaming is strictly increasing on the model's ids (old ids kept,
or fresh ids handed out in old-id order) the parameter order of the new model is the old one. -/
theorem order_preserved (σ : Nat → Nat) (t : Node V')
    (hmono : ∀ i ∈ (walk t).map (·.2), ∀ j ∈ (walk t).map (·.2), i < j → σ i < σ j) :
    uniqueIds (renameIds σ t) = (uniqueIds t).map σ := by
  simp only [uniqueIds, walk_rename, List.map_map]
  have : (walk t).map ((fun x => x.2) ∘ fun x => (x.1, σ x.2)) = ((walk t).map (·.2)).map σ := by
    rw [List.map_map]; rfl
  rw [this]
  exact sortDedup_map_mono σ _ hmono

/-- ids are kept by `mapper_from_prior_means`, `mapper_from_uniform_floats` and `replacing`: the tree
(paths, count, order, sharing, fixed values) is literally unchanged -/
theorem ids_kept_tree_unchanged (t : Node V') : renameIds id t = t := renameIds_id t

/-! ## non-vacuity -/

def intPass : PassOps Int :=
  { add := (· + ·), sub := (· - ·), mul := (· * ·), half := (· / 2), abs := fun x => (Int.natAbs x : Int),
    max := max, min := min, negInf := -1000000, posInf := 1000000 }

def t₀ : Node Int := .coll [("g", .model "P2" ["a", "b"] [("a", .prior 7), ("b", .prior 3)]), ("h", .prior 7)]

def args₀ := passArgs intPass (.means none (some 2) false) t₀
  [⟨"Uniform", 0, 10, 0, 0⟩, ⟨"Uniform", -5, 5, 0, 0⟩] [⟨true, 1, none⟩, ⟨false, 3, some (0, 100)⟩] [(-4, 0), (6, 0)]

/-- parameter order is [3, 7]: id 3 gets the value -4 (relative width |2·(-4)| = 8, old limits), id 7 gets 6 -/
example : lookupArg args₀ 3 = some ⟨"Gaussian", 0, 10, -4, 8⟩ := by rfl
example : lookupArg args₀ 7 = some ⟨"Gaussian", 0, 100, 6, 12⟩ := by rfl

end AF.C12

namespace AF.C12
open AF

theorem mem_of_indexOf?_some : ∀ (l : List Nat) (i c : Nat), indexOf? l i = some c → i ∈ l
  | [], _, _, h => by simp [indexOf?] at h
  | y :: ys, i, c, h => by
    unfold indexOf? at h
    by_cases hy : y = i
    · simp [hy]
    · have : (y == i) = false := by simpa using hy
      simp only [this] at h
      cases h' : indexOf? ys i with
      | none => simp [h'] at h
      | some d => exact List.mem_cons_of_mem _ (mem_of_indexOf?_some ys i d h')

/-- position in a strictly increasing list is strictly increasing -/
theorem indexOf?_mono : ∀ (l : List Nat), l.Pairwise (· < ·) → ∀ (i j a b : Nat), i < j →
    indexOf? l i = some a → indexOf? l j = some b → a < b
  | [], _, _, _, _, _, _, h, _ => by simp [indexOf?] at h
  | x :: xs, hs, i, j, a, b, hij, hi, hj => by
    have hx := List.pairwise_cons.mp hs
    unfold indexOf? at hi hj
    by_cases hxi : x = i
    · have h1 : (x == i) = true := by simpa using hxi
      simp only [h1, if_true, Option.some.injEq] at hi
      subst hi
      have hxj : ¬ x = j := by omega
      have h2 : (x == j) = false := by simpa using hxj
      simp only [h2] at hj
      cases h : indexOf? xs j with
      | none => simp [h] at hj
      | some c => simp [h] at hj; omega
    · have h1 : (x == i) = false := by simpa using hxi
      simp only [h1] at hi
      cases h : indexOf? xs i with
      | none => simp [h] at hi
      | some c =>
        simp only [h, Option.map_some, Option.some.injEq, Bool.false_eq_true, if_false] at hi
        -- i is in xs, hence x < i < j, so j ≠ x
        have hmem : i ∈ xs := mem_of_indexOf?_some xs i c h
        have hxlt : x < i := hx.1 i hmem
        have hxj : ¬ x = j := by omega
        have h2 : (x == j) = false := by simpa using hxj
        simp only [h2] at hj
        cases h' : indexOf? xs j with
        | none => simp [h'] at hj
        | some d =>
          simp only [h', Option.map_some, Option.some.injEq, Bool.false_eq_true, if_false] at hj
          have := indexOf?_mono xs hx.2 i j c d hij h h'
          omega

/-- the fresh ids `with_limits` hands out are strictly increasing in the old ids -/
theorem freshSigma_strictMono {V' : Type} (t : Node V') (base : Nat) (i j : Nat)
    (hi : i ∈ uniqueIds t) (hj : j ∈ uniqueIds t) (hij : i < j) :
    freshSigma t base i < freshSigma t base j := by
  obtain ⟨a, ha, _⟩ := indexOf?_some_of_mem (uniqueIds t) i hi
  obtain ⟨b, hb, _⟩ := indexOf?_some_of_mem (uniqueIds t) j hj
  have := indexOf?_mono (uniqueIds t) (sorted_sortDedup _) i j a b hij ha hb
  simp only [freshSigma, ha, hb]
  omega

/-- **`with_limits` keeps the parameter order**: the new model's parameters, in their own id order,
are the images of the old parameters in the old order -/
theorem with_limits_order_preserved {V' : Type} (t : Node V') (base : Nat) :
    uniqueIds (renameIds (freshSigma t base) t) = (uniqueIds t).map (freshSigma t base) := by
  apply order_preserved
  intro i hi j hj hij
  have hi' : i ∈ uniqueIds t := by simpa [uniqueIds, mem_sortDedup] using hi
  have hj' : j ∈ uniqueIds t := by simpa [uniqueIds, mem_sortDedup] using hj
  exact freshSigma_strictMono t base i j hi' hj' hij

end AF.C12


/-! ## where the configuration of a place comes from (`AFModel/WidthCfg.lean`)

The width modifier and the gaussian limits of every parameter are looked up by the model, from the
generated tables, in the library's order. -/

namespace AF.C12
open AF AF.WidthCfgL

variable {V V' : Type}

/-- **One directory: the longest configured path the key ends with answers** - whatever the order
of the files and of the keys inside them. -/
theorem callCfg_longest_suffix (c : Config V) (key : Str) (v : CVal V) (h : callCfg c key = some v) :
    ∃ e ∈ c, e.val = v ∧ e.path <:+ key ∧ ∀ e' ∈ c, e'.path <:+ key → e'.path.length ≤ e.path.length := by
  unfold callCfg at h
  cases hf : (sortByLen c).find? (fun e => e.path.isSuffixOf key) with
  | none => simp [hf] at h
  | some e =>
    simp only [hf, Option.map_some, Option.some.injEq] at h
    obtain ⟨hm, hp, hmax⟩ := find_desc_longest _ _ (desc_sortByLen c) e hf
    refine ⟨e, (mem_sortByLen e c).mp hm, h, List.isSuffixOf_iff_suffix.mp hp, ?_⟩
    intro e' he' hs
    exact hmax e' ((mem_sortByLen e' c).mpr he') (List.isSuffixOf_iff_suffix.mpr hs)

/-- … and `KeyError` (`none`) exactly when no configured path is a suffix of the key -/
theorem callCfg_none_iff (c : Config V) (key : Str) :
    callCfg c key = none ↔ ∀ e ∈ c, ¬ e.path <:+ key := by
  unfold callCfg
  rw [Option.map_eq_none_iff, List.find?_eq_none]
  constructor
  · intro h e he hs
    exact h e ((mem_sortByLen e c).mpr he) (List.isSuffixOf_iff_suffix.mpr hs)
  · intro h e he hs
    exact h e ((mem_sortByLen e c).mp he) (List.isSuffixOf_iff_suffix.mp hs)

theorem eq_of_nodup_paths : ∀ (c : Config V), (c.map (·.path)).Nodup →
    ∀ a ∈ c, ∀ b ∈ c, a.path = b.path → a = b
  | [], _, a, ha, _, _, _ => by simp at ha
  | y :: ys, hn, a, ha, b, hb, hab => by
    simp only [List.map_cons, List.nodup_cons] at hn
    rcases List.mem_cons.mp ha with rfl | ha' <;> rcases List.mem_cons.mp hb with rfl | hb'
    · rfl
    · exact absurd (List.mem_map.mpr ⟨b, hb', hab.symm⟩ : a.path ∈ ys.map (·.path)) hn.1
    · exact absurd (List.mem_map.mpr ⟨a, ha', hab⟩ : b.path ∈ ys.map (·.path)) hn.1
    · exact eq_of_nodup_paths ys hn.2 a ha' b hb' hab

/-- **The answer of a directory does not depend on the order in which its files are read or its
keys are written** (the library's order is the file system's; the translator's is sorted), as long
as no path occurs twice. -/
theorem callCfg_perm (c c' : Config V) (key : Str) (hn : (c.map (·.path)).Nodup) (hp : c'.Perm c) :
    callCfg c' key = callCfg c key := by
  cases h : callCfg c key with
  | none =>
    rw [callCfg_none_iff] at h ⊢
    exact fun e he => h e (hp.mem_iff.mp he)
  | some v =>
    obtain ⟨e, he, hv, hs, hmax⟩ := callCfg_longest_suffix c key v h
    cases h' : callCfg c' key with
    | none =>
      rw [callCfg_none_iff] at h'
      exact absurd hs (h' e (hp.mem_iff.mpr he))
    | some v' =>
      obtain ⟨e', he', hv', hs', hmax'⟩ := callCfg_longest_suffix c' key v' h'
      have he'c : e' ∈ c := hp.mem_iff.mp he'
      have h1 := hmax e' he'c hs'
      have h2 := hmax' e (hp.mem_iff.mpr he) hs
      have hpath : e'.path = e.path := suffix_same_length hs' hs (Nat.le_antisymm h1 h2)
      have := eq_of_nodup_paths c hn e' he'c e he hpath
      rw [← hv, ← hv', this]

theorem sortByLen_fixed : ∀ (c : Config V), Desc c → sortByLen c = c
  | [], _ => rfl
  | y :: ys, h => by
    have hy := List.pairwise_cons.mp h
    have ih := sortByLen_fixed ys hy.2
    simp only [sortByLen, List.foldr_cons] at ih ⊢
    rw [ih]
    cases ys with
    | nil => rfl
    | cons z zs =>
      have := hy.1 z (by simp)
      simp [insertByLen, this]

/-- the driver sorts every table once per request and hands the sorted table to the look-up: the
answers are those for the table as generated -/
theorem callCfg_presorted (c : Config V) (key : Str) : callCfg (sortByLen c) key = callCfg c key := by
  unfold callCfg
  rw [sortByLen_fixed _ (desc_sortByLen c)]

/-- **The nearest class of the family answers** (`family(cls)`: the class itself, then its bases depth
first), **in the first directory of the chain that has an entry for any class of the family.** -/
theorem chainLookup_first (pre : List (Config V)) (c : Config V) (post : List (Config V))
    (fpre : List Str) (cls : Str) (fpost : List Str) (attr leaf : Str) (v : CVal V)
    (hdirs : ∀ c' ∈ pre, forClass c' (fpre ++ cls :: fpost) attr leaf = none)
    (hnear : ∀ k ∈ fpre, callCfg c (keyOf k attr leaf) = none)
    (hc : callCfg c (keyOf cls attr leaf) = some v) :
    chainLookup (pre ++ c :: post) (fpre ++ cls :: fpost) attr leaf = some v := by
  have hfc : forClass c (fpre ++ cls :: fpost) attr leaf = some v := by
    unfold forClass
    rw [findSome?_first _ fpre cls fpost hnear, hc]; rfl
  unfold chainLookup
  rw [findSome?_first _ pre c post hdirs, hfc]; rfl

/-- conversely every answer of the chain arises that way -/
theorem chainLookup_some (cs : List (Config V)) (fam : List Str) (attr leaf : Str) (v : CVal V)
    (h : chainLookup cs fam attr leaf = some v) :
    ∃ pre c post fpre cls fpost, cs = pre ++ c :: post ∧ fam = fpre ++ cls :: fpost ∧
      callCfg c (keyOf cls attr leaf) = some v ∧
      (∀ c' ∈ pre, forClass c' fam attr leaf = none) ∧
      (∀ k ∈ fpre, callCfg c (keyOf k attr leaf) = none) := by
  obtain ⟨pre, c, post, hcs, hc, hpre⟩ := findSome?_eq_some_split _ cs v h
  obtain ⟨fpre, cls, fpost, hfam, hcls, hfpre⟩ := findSome?_eq_some_split _ fam v hc
  exact ⟨pre, c, post, fpre, cls, fpost, hcs, hfam, hcls, hpre, hfpre⟩

/-- no entry in any directory for any class of the family: `ConfigException` -/
theorem chainLookup_none_iff (cs : List (Config V)) (fam : List Str) (attr leaf : Str) :
    chainLookup cs fam attr leaf = none ↔ ∀ c ∈ cs, ∀ k ∈ fam, callCfg c (keyOf k attr leaf) = none := by
  simp [chainLookup, forClass, List.findSome?_eq_none_iff]

theorem mem_familyList (q : Str) : ∀ (bs : List ClsTree), q ∈ familyList bs ↔ ∃ b ∈ bs, q ∈ family b
  | [] => by simp [familyList]
  | b :: bs => by simp [familyList, mem_familyList q bs]

/-- the family starts with the class itself and contains the family of every base: configuration
is inherited, the class's own entry wins -/
theorem family_head_and_bases (p : Str) (bs : List ClsTree) :
    (family (.node p bs)).head? = some p ∧ ∀ b ∈ bs, ∀ q ∈ family b, q ∈ family (.node p bs) := by
  refine ⟨by simp [family], ?_⟩
  intro b hb q hq
  simp only [family, List.mem_cons]
  exact Or.inr ((mem_familyList q bs).mpr ⟨b, hb, hq⟩)

/-- nothing configured: the default relative modifier, and the old prior's limits -/
theorem nothing_configured_defaults (dflt : V) (cs : List (Config V)) (cls : ClsTree) (attr : Str)
    (hw : chainLookup cs (family cls) attr leafWidth = none)
    (hl : chainLookup cs (family cls) attr leafLimits = none) :
    widthModifierFor dflt cs cls attr = (true, dflt) ∧ limitsFor (V := V) cs cls attr = none := by
  simp [widthModifierFor, widthModifierFound, limitsFor, limitsFound, hw, hl]

/-- a configured entry is used as it stands -/
theorem configured_entry_used (dflt : V) (cs : List (Config V)) (cls : ClsTree) (attr : Str) (rel : Bool) (v lo hi : V)
    (hw : chainLookup cs (family cls) attr leafWidth = some (.wm rel v))
    (hl : chainLookup cs (family cls) attr leafLimits = some (.lim lo hi)) :
    widthModifierFor dflt cs cls attr = (rel, v) ∧ limitsFor cs cls attr = some (lo, hi) := by
  simp [widthModifierFor, widthModifierFound, limitsFor, limitsFound, hw, hl]

/-- **Every parameter receives the prior derived from its own inferred value under the
configuration of its own place** (looked up by the model): the i-th parameter (id order) gets
`derive mode olds[i] (resolveCfg … places[i]) xs[i]`. -/
theorem passed_prior_own_config (po : PassOps V) (dflt : V) (cs : List (Config V)) (mode : PassMode V)
    (t : Node V') (olds : List (PD V)) (places : List (Place V)) (xs : List (V × V))
    (ho : olds.length = count t) (hp : places.length = count t) (hx : xs.length = count t)
    (i : Nat) (hi : i < count t) :
    lookupArg (passArgsCfg po dflt cs mode t olds places xs) ((uniqueIds t)[i]'hi) =
      some (derive po mode (olds[i]'(ho ▸ hi)) (resolveCfg dflt cs (places[i]'(hp ▸ hi)))
        (xs[i]'(hx ▸ hi)).1 (xs[i]'(hx ▸ hi)).2) := by
  have hc : (places.map (resolveCfg dflt cs)).length = count t := by simp [hp]
  have := passed_prior_for_parameter po mode t olds (places.map (resolveCfg dflt cs)) xs ho hc hx i hi
  simp only [passArgsCfg, this, List.getElem_map]

/-- **The width is the place's own modifier applied to the value inferred for that place**: the
prior's own modifier if it has one, else the configured one, else relative `dflt`; relative
modifiers through `abs`. The limits are the configured gaussian limits, else the old prior's. -/
theorem passed_width_own_modifier (po : PassOps V) (dflt : V) (cs : List (Config V)) (nl : Bool)
    (old : PD V) (pl : Place V) (x y : V) :
    let m := pl.own.getD (widthModifierFor dflt cs pl.cls pl.attr)
    let d := derive po (.means none none nl) old (resolveCfg dflt cs pl) x y
    d.mean = x ∧ d.sigma = (if m.1 then po.abs (po.mul m.2 x) else m.2) ∧
    (nl = false → (d.lo, d.hi) = (limitsFor cs pl.cls pl.attr).getD (old.lo, old.hi)) := by
  cases hown : pl.own <;> cases hl : limitsFor cs pl.cls pl.attr <;>
    simp [derive, passWidth, resolveCfg, hown, hl] <;> intro h <;> simp [h]

theorem chainLookup_mem (cs : List (Config V)) (fam : List Str) (attr leaf : Str) (v : CVal V)
    (h : chainLookup cs fam attr leaf = some v) : ∃ c ∈ cs, ∃ e ∈ c, e.val = v := by
  obtain ⟨pre, c, post, _, cls, _, hcs, _, hc, _, _⟩ := chainLookup_some cs fam attr leaf v h
  obtain ⟨e, he, hv, _, _⟩ := callCfg_longest_suffix c _ v hc
  exact ⟨c, by simp [hcs], e, he, hv⟩

/-- **Widths are never negative under the looked-up configuration**: if no directory of the chain
holds a negative absolute width (`configAbsNonneg`, evaluated on the generated tables on every run),
the caller's absolute width and the prior's own absolute modifier are non-negative, then for *every*
inferred value the width is non-negative. -/
theorem resolved_width_nonneg (po : PassOps V) (le : V → V → Prop) (leB : V → V → Bool) (zero dflt : V)
    (hle : ∀ a b, leB a b = true → le a b) (habs : ∀ x, le zero (po.abs x))
    (cs : List (Config V)) (hcfg : configAbsNonneg leB zero cs = true)
    (a r : Option V) (pl : Place V) (x : V)
    (ha : ∀ w, a = some w → le zero w) (hown : ∀ w, pl.own = some (false, w) → le zero w) :
    le zero (passWidth po a r (resolveCfg dflt cs pl) x) := by
  apply width_nonneg po le zero habs a r _ x ha
  intro hrel
  cases ho : pl.own with
  | some m =>
    obtain ⟨rel, w⟩ := m
    simp only [resolveCfg, ho] at hrel ⊢
    subst hrel
    exact hown w ho
  | none =>
    simp only [resolveCfg, ho] at hrel ⊢
    unfold widthModifierFor at hrel ⊢
    cases hf : widthModifierFound cs pl.cls pl.attr with
    | missing => simp [hf] at hrel
    | malformed => simp [hf] at hrel
    | found m =>
      obtain ⟨rel, w⟩ := m
      simp only [hf] at hrel ⊢
      subst hrel
      -- the entry comes from a directory of the chain
      unfold widthModifierFound at hf
      cases hc : chainLookup cs (family pl.cls) pl.attr leafWidth with
      | none => simp [hc] at hf
      | some cv =>
        cases cv with
        | wm rel' w' =>
          simp only [hc, Found.found.injEq, Prod.mk.injEq] at hf
          obtain ⟨c, hcm, e, hem, hev⟩ := chainLookup_mem cs _ _ _ _ hc
          have h1 := (List.all_eq_true.mp hcfg) c hcm
          have h2 := (List.all_eq_true.mp h1) e hem
          rw [hev, hf.1] at h2
          simp only at h2
          rw [← hf.2]
          exact hle _ _ h2
        | lim _ _ => simp [hc] at hf
        | other => simp [hc] at hf

/-! ### over an ordered field: the exact guards -/

section Field
variable {K : Type} [Field K] [LinearOrder K] [IsStrictOrderedRing K]

/-- real arithmetic (the two infinities are never used by a width) -/
def fieldPass (ninf pinf : K) : PassOps K :=
  { add := (· + ·), sub := (· - ·), mul := (· * ·), half := (· / 2), abs := fun x => |x|,
    max := max, min := min, negInf := ninf, posInf := pinf }

/-- **No negative width for any inferred value, of any sign and magnitude, in every passing mode**
over an ordered field - with the exact guards: a width given by the caller (`a`) or by an absolute
modifier is used as it stands, so it is non-negative iff the given number is; a relative width
(`r`, relative modifier) is `|r·x|`, non-negative for *every* `r` and `x`; `with_limits` on a Gaussian
prior gives `upper − lower`, non-negative iff the limits are ordered; bounded uniform priors are
non-empty iff `b ≥ 0`. -/
theorem width_nonneg_ordered_field (ninf pinf : K) (old : PD K) (cfg : PCfg K) (x y : K) :
    (∀ r nl, 0 ≤ (derive (fieldPass ninf pinf) (.means none (some r) nl) old cfg x y).sigma) ∧
    (∀ a r nl, 0 ≤ (derive (fieldPass ninf pinf) (.means (some a) r nl) old cfg x y).sigma ↔ 0 ≤ a) ∧
    (∀ nl, cfg.relative = true → 0 ≤ (derive (fieldPass ninf pinf) (.means none none nl) old cfg x y).sigma) ∧
    (∀ nl, cfg.relative = false →
      (0 ≤ (derive (fieldPass ninf pinf) (.means none none nl) old cfg x y).sigma ↔ 0 ≤ cfg.value)) ∧
    (old.kind = "Gaussian" → (0 ≤ (derive (fieldPass ninf pinf) .withLimits old cfg x y).sigma ↔ x ≤ y)) ∧
    (∀ b, (derive (fieldPass ninf pinf) (.uniform b) old cfg x y).lo ≤
      (derive (fieldPass ninf pinf) (.uniform b) old cfg x y).hi ↔ 0 ≤ b) := by
  refine ⟨?_, ?_, ?_, ?_, ?_, ?_⟩
  · intro r nl; simp only [derive, passWidth, fieldPass]; exact abs_nonneg _
  · intro a r nl; simp [derive, passWidth]
  · intro nl h; simp only [derive, passWidth, fieldPass, h, if_true]; exact abs_nonneg _
  · intro nl h; simp [derive, passWidth, h]
  · intro h; simp [derive, h, fieldPass]
  · intro b
    simp only [derive, fieldPass]
    constructor <;> intro h <;> linarith

/-- the relative width is `|r|·|x|`: it scales with the magnitude of the inferred value and ignores
both signs -/
theorem relative_width_abs (ninf pinf : K) (r x : K) (cfg : PCfg K) :
    passWidth (fieldPass ninf pinf) none (some r) cfg x = |r| * |x| := by
  simp [passWidth, fieldPass, abs_mul]

end Field

/-! ### non-vacuity -/

/-- two directories; the class `u.Q` inherits from `v.P`, whose attribute `a` is configured in the
second directory only -/
def dirA : Config Int := [⟨['Q', '.', 'b', '.', 'w'], .wm false 7⟩, ⟨['b', '.', 'w'], .wm false 1⟩]
def dirB : Config Int := [⟨['P', '.', 'a', '.', 'w'], .wm true 3⟩, ⟨['a', '.', 'w'], .other⟩]
def clsQ : ClsTree := .node ['u', '.', 'Q'] [.node ['o'] [], .node ['v', '.', 'P'] [.node ['o'] []]]

example : family clsQ = [['u', '.', 'Q'], ['o'], ['v', '.', 'P'], ['o']] := by decide
/-- longest path wins inside a directory: `u.Q.b.w` ends with `Q.b.w` and with `b.w` -/
example : callCfg dirA ['u', '.', 'Q', '.', 'b', '.', 'w'] = some (.wm false 7) := by decide
example : callCfg dirA.reverse ['u', '.', 'Q', '.', 'b', '.', 'w'] = some (.wm false 7) := by decide
/-- inherited: nothing for `u.Q.a.w`, `o.a.w` in `dirA`; in `dirB` `u.Q.a.w` ends with `a.w`: the
nearest class answers with the (malformed) shorter entry - plain string suffixes -/
example : chainLookup [dirA, dirB] (family clsQ) ['a'] ['w'] = some .other := by decide
example : chainLookup [dirA, dirB] (family (.node ['v', '.', 'P'] [])) ['a'] ['w'] = some (.wm true 3) := by decide
example : chainLookup [dirA, dirB] (family clsQ) ['z'] ['w'] = none := by decide
/-- hypotheses of `resolved_width_nonneg` hold for these directories -/
example : configAbsNonneg (fun a b => decide (a ≤ b)) (0 : Int) [dirA, dirB] = true := by decide

end AF.C12


/-! ## the way through a result (`AFModel/PassRoutes.lean`): `Result.model`, `model_absolute`,
`model_relative`, `model_bounded` -/

namespace AF.C12
open AF AF.PassRoutesL

variable {V V' : Type}

/-- **A value stored under a place of parameter i comes back at position i**: if every key is a
place of its own parameter and of no other parameter, reading the path-keyed sample back through
the groups of places returns the stored vector. -/
theorem vectorOfKwargs_own (keys : List Path) (groups : List (List Path)) (v : List V)
    (hlen : keys.length = groups.length) (hv : v.length = keys.length)
    (hown : ∀ i (hi : i < keys.length), keys[i] ∈ groups[i]'(hlen ▸ hi))
    (hother : ∀ i j (hi : i < keys.length) (hj : j < groups.length), i ≠ j → keys[i] ∉ groups[j]) :
    vectorOfKwargs (keys.zip v) groups = v.map some := by
  have hnd : keys.Nodup := by
    unfold List.Nodup
    rw [List.pairwise_iff_getElem]
    intro i j hi hj hij heq
    exact hother i j hi (hlen ▸ hj) (by omega) (heq ▸ hown j hj)
  apply List.ext_getElem
  · simp [vectorOfKwargs, hlen, hv]
  · intro j h1 h2
    have hjg : j < groups.length := by simpa [vectorOfKwargs] using h1
    have hjk : j < keys.length := hlen ▸ hjg
    have hjv : j < v.length := hv ▸ hjk
    simp only [vectorOfKwargs, List.getElem_map]
    apply findSome?_const
    · intro p hp
      cases hl : lookupPath (keys.zip v) p with
      | none => exact Or.inl rfl
      | some x =>
        right
        have hmem := lookupPath_mem keys v p x hl
        obtain ⟨i, hi, hip⟩ := List.getElem_of_mem hmem
        have hij : i = j := by
          by_contra hne
          exact hother i j hi hjg hne (hip ▸ hp)
        subst hij
        rw [← hip, lookupPath_zip_get keys v hnd hv.symm i hi hjv] at hl
        exact hl.symm
    · exact ⟨keys[j], hown j hjk, lookupPath_zip_get keys v hnd hv.symm j hjk hjv⟩

/-- the decidable check the driver evaluates on every composition gives the two hypotheses -/
theorem keysOwnGroups_spec (keys : List Path) (groups : List (List Path)) (h : keysOwnGroups keys groups = true) :
    ∃ hlen : keys.length = groups.length,
      (∀ i (hi : i < keys.length), keys[i] ∈ groups[i]'(hlen ▸ hi)) ∧
      (∀ i j (hi : i < keys.length) (hj : j < groups.length), i ≠ j → keys[i] ∉ groups[j]) := by
  simp only [keysOwnGroups, Bool.and_eq_true, beq_iff_eq, List.all_eq_true, List.mem_range] at h
  obtain ⟨hlen, hall⟩ := h
  refine ⟨hlen, ?_, ?_⟩
  · intro i hi
    have := hall i hi i (hlen ▸ hi)
    simpa [List.getElem?_eq_getElem hi, List.getElem?_eq_getElem (hlen ▸ hi : i < groups.length)] using this
  · intro i j hi hj hne
    have := hall i hi j hj
    simpa [List.getElem?_eq_getElem hi, List.getElem?_eq_getElem hj, hne] using this

/-- **`Result.model` & co. hand prior passing the inferred vector itself, in parameter order**
(for every composition whose sample keys are places of their own parameter only - evaluated by the
driver on every generated composition). -/
theorem result_vector_roundtrip (t : Node V') (v : List V) (hv : v.length = (uniquePaths t).length)
    (hown : keysOwnGroups (uniquePaths t) (allPaths t) = true) :
    resultVector t v = v.map some := by
  obtain ⟨hlen, h1, h2⟩ := keysOwnGroups_spec _ _ hown
  exact vectorOfKwargs_own (uniquePaths t) (allPaths t) v hlen hv h1 h2

/-- hence the arguments built through a result are those built from the vector directly: each
of the theorems above about `passArgsCfg` applies to `Result.model`, `model_absolute`, `model_relative`
(median vector) and `model_bounded` (maximum likelihood vector) -/
theorem result_route_same_arguments (po : PassOps V) (dflt z : V) (cs : List (Config V)) (mode : PassMode V)
    (t : Node V') (olds : List (PD V)) (places : List (Place V)) (v : List V)
    (hv : v.length = (uniquePaths t).length) (hown : keysOwnGroups (uniquePaths t) (allPaths t) = true) :
    passArgsCfg po dflt cs mode t olds places ((resultVector t v).map (fun o => (o.getD z, z))) =
      passArgsCfg po dflt cs mode t olds places (v.map (fun x => (x, z))) := by
  rw [result_vector_roundtrip t v hv hown, List.map_map]
  rfl

/-- non-vacuity: the shared parameter 7 has two places; its key is its last place -/
example : uniquePaths t₀ = [["g", "b"], ["h"]] ∧ allPaths t₀ = [[["g", "b"]], [["g", "a"], ["h"]]] ∧
    keysOwnGroups (uniquePaths t₀) (allPaths t₀) = true ∧
    resultVector t₀ [(-4 : Int), 6] = [some (-4), some 6] := by decide

end AF.C12


/-! ## which class and attribute name a parameter is configured by (`AFModel/PassPlace.lean`) -/

namespace AF.C12
open AF

variable {V V' : Type}

theorem placesFromTree_length (classes : List (String × ClsTree)) (t : Node V') (owns : List (Option (Bool × V)))
    (hown : owns.length = count t) : (placesFromTree classes t owns).length = count t := by
  simp [placesFromTree, placeKeys, count, hown]

/-- the place of the i-th parameter: the class `prior_class_dict` ends up with (last write), the name
of its last place (the collection's name for a position), its own modifier -/
theorem place_of_parameter (classes : List (String × ClsTree)) (t : Node V') (owns : List (Option (Bool × V)))
    (hown : owns.length = count t) (i : Nat) (hi : i < count t) :
    (placesFromTree classes t owns)[i]'(by rw [placesFromTree_length classes t owns hown]; exact hi) =
      { cls := (((classOfId t ((uniqueIds t)[i]'hi)).bind (fun c => classes.lookup c)).getD (.node [] [])),
        attr := (placeName ((lastPlace (pathPriors t) ((uniqueIds t)[i]'hi)).getD [])).toList,
        own := owns[i]'(hown ▸ hi) } := by
  simp only [placesFromTree, placeKeys, List.getElem_map, List.getElem_zip]
  rfl

/-- **Every parameter receives the prior derived from its own inferred value under the configuration
the model looks up for the class and attribute name it derives from the composition** - nothing about
the configuration is handed over by the harness any more. -/
theorem passed_prior_place_config (po : PassOps V) (dflt : V) (cs : List (Config V)) (mode : PassMode V)
    (classes : List (String × ClsTree)) (t : Node V') (olds : List (PD V)) (owns : List (Option (Bool × V)))
    (xs : List (V × V)) (ho : olds.length = count t) (hown : owns.length = count t) (hx : xs.length = count t)
    (i : Nat) (hi : i < count t) :
    lookupArg (passArgsCfg po dflt cs mode t olds (placesFromTree classes t owns) xs) ((uniqueIds t)[i]'hi) =
      some (derive po mode (olds[i]'(ho ▸ hi))
        (resolveCfg dflt cs ((placesFromTree classes t owns)[i]'(by
          rw [placesFromTree_length classes t owns hown]; exact hi)))
        (xs[i]'(hx ▸ hi)).1 (xs[i]'(hx ▸ hi)).2) :=
  passed_prior_own_config po dflt cs mode t olds _ xs ho (placesFromTree_length classes t owns hown) hx i hi

theorem lastWrite_const (l : List (Nat × String)) (c : String) (id : Nat)
    (hall : ∀ e ∈ l, e.2 = c) (hex : ∃ e ∈ l, e.1 = id) :
    ((l.reverse.find? (·.1 == id)).map (·.2)) = some c := by
  cases h : l.reverse.find? (·.1 == id) with
  | none =>
    obtain ⟨e, he, hid⟩ := hex
    have := List.find?_eq_none.mp h e (List.mem_reverse.mpr he)
    simp [hid] at this
  | some e =>
    have he : e ∈ l := List.mem_reverse.mp (List.mem_of_find?_eq_some h)
    simp [hall e he]

theorem lastWrite_isSome (l : List (Nat × String)) (id : Nat) (hex : ∃ e ∈ l, e.1 = id) :
    ((l.reverse.find? (·.1 == id)).map (·.2)).isSome = true := by
  cases h : l.reverse.find? (·.1 == id) with
  | none =>
    obtain ⟨e, he, hid⟩ := hex
    have := List.find?_eq_none.mp h e (List.mem_reverse.mpr he)
    simp [hid] at this
  | some e => simp

/-- a component whose attributes hold no further components: every parameter below it (direct,
in a tuple) is configured by the component's own class -/
theorem classOfId_flat_model (cls : String) (ctor : List String) (attrs : List (String × Node V'))
    (hflat : classDictKids attrs = []) (id : Nat) (hid : id ∈ (walkAttrs attrs).map (·.2)) :
    classOfId (.model cls ctor attrs) id = some cls := by
  unfold classOfId
  simp only [classDict, hflat, List.append_nil]
  apply lastWrite_const
  · intro e he
    obtain ⟨w, _, rfl⟩ := List.mem_map.mp he
    rfl
  · obtain ⟨w, hw, rfl⟩ := List.mem_map.mp hid
    exact ⟨(w.2, cls), List.mem_map.mpr ⟨w, hw, rfl⟩, rfl⟩

/-- under a component every parameter has a class (no `KeyError`), whatever is nested below -/
theorem classOfId_isSome_model (cls : String) (ctor : List String) (attrs : List (String × Node V'))
    (id : Nat) (hid : id ∈ (walkAttrs attrs).map (·.2)) :
    (classOfId (.model cls ctor attrs) id).isSome = true := by
  unfold classOfId
  apply lastWrite_isSome
  obtain ⟨w, hw, rfl⟩ := List.mem_map.mp hid
  exact ⟨(w.2, cls), by simp only [classDict]; exact List.mem_append_left _ (List.mem_map.mpr ⟨w, hw, rfl⟩), rfl⟩

/-- a parameter a collection holds directly is configured as `ModelInstance`, even when a component
of the collection shares it (the collection writes last) -/
theorem classOfId_collection_direct (attrs : List (String × Node V')) (id : Nat) (hid : id ∈ directPriorIds attrs) :
    classOfId (.coll attrs) id = some "ModelInstance" := by
  unfold classOfId
  simp only [classDict, List.reverse_append, List.find?_append]
  have := lastWrite_const ((directPriorIds attrs).map (fun i => (i, "ModelInstance"))) "ModelInstance" id
    (by intro e he; obtain ⟨w, _, rfl⟩ := List.mem_map.mp he; rfl)
    ⟨(id, "ModelInstance"), List.mem_map.mpr ⟨id, hid, rfl⟩, rfl⟩
  cases h : ((directPriorIds attrs).map (fun i => (i, "ModelInstance"))).reverse.find? (·.1 == id) with
  | none => simp [h] at this
  | some e => simp [h] at this ⊢; exact this

theorem placeName_position (pre : Path) (m n : String) :
    placeName (pre ++ [m, n]) = if isDigits n then m else n := by
  simp [placeName]

/-- non-vacuity: parameter 7 is `g.a` (class P2) and the collection's own `h`: the collection writes
last; parameter 3 is `g.b` only -/
example : (placeKeys t₀).map (·.1) = [some "P2", some "ModelInstance"] := by decide
example : classDictKids (V := Int) [("a", .prior 7), ("b", .prior 3)] = [] := by decide
-- tests (compiler-evaluated; string functions do not reduce in the kernel)
#guard placeKeys t₀ == [(some "P2", "b"), (some "ModelInstance", "h")]
#guard placeName ["galaxies", "0"] == "galaxies" && placeName ["0"] == "0" && placeName ["g", "pos", "pos_0"] == "pos_0"

end AF.C12


/-! ## the result route without a run-time condition: distinct paths suffice -/

namespace AF.C12
open AF AF.PassRoutesL

variable {V V' : Type}

theorem filterMap_eq_map_of_some {α β} (f : α → Option β) (g : α → β) : ∀ (l : List α),
    (∀ a ∈ l, f a = some (g a)) → l.filterMap f = l.map g
  | [], _ => rfl
  | a :: l, h => by
    have ha := h a (by simp)
    simp only [List.filterMap_cons, ha, List.map_cons]
    rw [filterMap_eq_map_of_some f g l (fun b hb => h b (List.mem_cons_of_mem _ hb))]

theorem eq_of_nodup_fst {α β} : ∀ (w : List (α × β)), (w.map (·.1)).Nodup →
    ∀ a ∈ w, ∀ b ∈ w, a.1 = b.1 → a = b
  | [], _, a, ha, _, _, _ => by simp at ha
  | y :: ys, hn, a, ha, b, hb, hab => by
    simp only [List.map_cons, List.nodup_cons] at hn
    rcases List.mem_cons.mp ha with rfl | ha' <;> rcases List.mem_cons.mp hb with rfl | hb'
    · rfl
    · exact absurd (List.mem_map.mpr ⟨b, hb', hab.symm⟩ : a.1 ∈ ys.map (·.1)) hn.1
    · exact absurd (List.mem_map.mpr ⟨a, ha', hab⟩ : b.1 ∈ ys.map (·.1)) hn.1
    · exact eq_of_nodup_fst ys hn.2 a ha' b hb' hab

theorem nodup_getElem_inj {α} (l : List α) (hn : l.Nodup) (i j : Nat) (hi : i < l.length) (hj : j < l.length)
    (h : l[i] = l[j]) : i = j := by
  unfold List.Nodup at hn
  rw [List.pairwise_iff_getElem] at hn
  by_contra hne
  rcases Nat.lt_or_gt_of_ne hne with hlt | hgt
  · exact hn i j hi hj hlt h
  · exact hn j i hj hi hgt h.symm

theorem lastPlace_some_mem (w : List (Path × Nat)) (id : Nat) (h : ∃ p, (p, id) ∈ w) :
    ∃ p, lastPlace w id = some p ∧ (p, id) ∈ w := by
  unfold lastPlace
  cases hf : w.reverse.find? (·.2 == id) with
  | none =>
    obtain ⟨p, hp⟩ := h
    have := List.find?_eq_none.mp hf (p, id) (List.mem_reverse.mpr hp)
    simp at this
  | some e =>
    have hm : e ∈ w := List.mem_reverse.mp (List.mem_of_find?_eq_some hf)
    have he : e.2 = id := by simpa using List.find?_some hf
    exact ⟨e.1, rfl, by rw [← he]; exact hm⟩

theorem mem_placesOf (w : List (Path × Nat)) (id : Nat) (p : Path) : p ∈ placesOf w id ↔ (p, id) ∈ w := by
  simp only [placesOf, List.mem_map, List.mem_filter]
  constructor
  · rintro ⟨e, ⟨he, hid⟩, rfl⟩
    have : e.2 = id := by simpa using hid
    rw [← this]; exact he
  · intro h
    exact ⟨(p, id), ⟨h, by simp⟩, rfl⟩

/-- **`Result.model` & co. hand prior passing the inferred vector itself, in parameter order, for
every composition in which no two places have the same path** (true of every Python object tree:
attribute names and collection keys are dictionary keys). -/
theorem result_vector_roundtrip_distinct_paths (t : Node V') (v : List V) (hv : v.length = count t)
    (hpaths : ((walk t).map (·.1)).Nodup) :
    resultVector t v = v.map some := by
  -- every parameter has a last place, and it is one of its places
  have hperm := perm_sortById (walk t)
  have hocc : ∀ id ∈ uniqueIds t, ∃ p, (p, id) ∈ pathPriors t := by
    intro id hid
    obtain ⟨e, he, rfl⟩ := List.mem_map.mp (mem_sortDedup.mp hid)
    exact ⟨e.1, hperm.mem_iff.mpr he⟩
  have hnd : (uniqueIds t).Nodup := nodup_of_sorted (sorted_sortDedup _)
  have hpp : ((pathPriors t).map (·.1)).Nodup := (hperm.map _).nodup_iff.mpr hpaths
  let g : Nat → Path := fun id => (lastPlace (pathPriors t) id).getD []
  have hg : ∀ id ∈ uniqueIds t, lastPlace (pathPriors t) id = some (g id) ∧ (g id, id) ∈ pathPriors t := by
    intro id hid
    obtain ⟨p, hp, hm⟩ := lastPlace_some_mem (pathPriors t) id (hocc id hid)
    simp only [g, hp, Option.getD_some]
    exact ⟨trivial, hm⟩
  have hkeys : uniquePaths t = (uniqueIds t).map g :=
    filterMap_eq_map_of_some _ g _ (fun id hid => (hg id hid).1)
  unfold resultVector kwargsOfVector
  rw [hkeys]
  have hlen : ((uniqueIds t).map g).length = (allPaths t).length := by simp [allPaths]
  refine vectorOfKwargs_own _ _ v hlen (by simp [hv, count]) ?_ ?_
  · intro i hi
    have hi' : i < (uniqueIds t).length := by simpa using hi
    simp only [allPaths, List.getElem_map]
    exact (mem_placesOf _ _ _).mpr (hg _ (List.getElem_mem hi')).2
  · intro i j hi hj hne hmem
    have hi' : i < (uniqueIds t).length := by simpa using hi
    have hj' : j < (uniqueIds t).length := by simpa [allPaths] using hj
    simp only [allPaths, List.getElem_map] at hmem
    have h1 := (hg _ (List.getElem_mem hi')).2
    have h2 := (mem_placesOf _ _ _).mp hmem
    -- two entries with the same path are the same entry
    have : ((uniqueIds t)[i]'hi') = ((uniqueIds t)[j]'hj') := by
      have hinj := eq_of_nodup_fst _ hpp _ h1 _ h2 rfl
      exact (Prod.mk.inj hinj).2
    exact hne (nodup_getElem_inj _ hnd i j hi' hj' this)

/-- non-vacuity: the places of `t₀` (a shared parameter among them) have distinct paths -/
example : ((walk t₀).map (·.1)).Nodup := by decide

end AF.C12
