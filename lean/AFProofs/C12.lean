import AFModel.Passing
import AFProofs.Lemmas.Persist

/-!
# C12 — prior passing keeps every inferred value on its own parameter

The new model is the old tree with each prior replaced, by identity, by the prior derived for it
(`AFModel/Passing.lean`). Identities are kept (`mapper_from_prior_means`, `mapper_from_uniform_floats`,
`replacing`) or renamed monotonically (`with_limits`), so structure, paths, count, sharing and fixed
values are preserved by C08's theorems about `renameIds`; the theorems here add: *which* prior each
parameter receives, that the order is kept, and that widths are non-negative.
-/

namespace AF.C12
open AF

variable {V V' : Type}

/-- **The prior of the i-th parameter is derived from the i-th inferred value** (and from nothing
else): the argument dictionary maps the i-th prior (id order) to `derive … olds[i] cfgs[i] xs[i]`.
Every place sharing that parameter receives the same new prior, because substitution is by identity. -/
theorem passed_prior_for_parameter (po : PassOps V) (mode : PassMode V) (t : Node V')
    (olds : List (PD V)) (cfgs : List (PCfg V)) (xs : List (V × V))
    (ho : olds.length = count t) (hc : cfgs.length = count t) (hx : xs.length = count t)
    (i : Nat) (hi : i < count t) :
    lookupArg (passArgs po mode t olds cfgs xs) ((uniqueIds t)[i]'hi) =
      some (derive po mode (olds[i]'(ho ▸ hi)) (cfgs[i]'(hc ▸ hi)) (xs[i]'(hx ▸ hi)).1 (xs[i]'(hx ▸ hi)).2) := by
  have hnd : (uniqueIds t).Nodup := nodup_of_sorted (sorted_sortDedup _)
  have hlen : ((olds.zip (cfgs.zip xs)).map
      (fun (o, c, x) => derive po mode o c x.1 x.2)).length = (uniqueIds t).length := by
    simp [List.length_zip, ho, hc, hx, count]
  have := lookup_zip_get (uniqueIds t) _ hnd hlen.symm i hi (hlen ▸ hi)
  simp only [passArgs]
  rw [this]
  simp

/-- **Widths are never negative**: with a non-negative absolute width / modifier value, every mode
gives a non-negative width for *every* inferred value (negative, zero, any magnitude), as soon as
`abs` is non-negative. -/
theorem width_nonneg (po : PassOps V) (le : V → V → Prop) (zero : V)
    (habs : ∀ x, le zero (po.abs x)) (a r : Option V) (cfg : PCfg V) (mean : V)
    (ha : ∀ w, a = some w → le zero w) (hv : cfg.relative = false → le zero cfg.value) :
    le zero (passWidth po a r cfg mean) := by
  unfold passWidth
  cases a with
  | some w => exact ha w rfl
  | none =>
    cases r with
    | some r => exact habs _
    | none =>
      by_cases hrel : cfg.relative = true
      · simp [hrel]; exact habs _
      · have : cfg.relative = false := by simpa using hrel
        simp [this]; exact hv this

/-- centred: the new Gaussian prior is centred on the inferred value, whatever the widths -/
theorem means_centred (po : PassOps V) (a r nl) (old : PD V) (cfg : PCfg V) (x y : V) :
    (derive po (.means a r nl) old cfg x y).mean = x ∧
    (derive po (.means a r nl) old cfg x y).kind = "Gaussian" := by
  simp [derive]

theorem uniform_bounds (po : PassOps V) (b : V) (old : PD V) (cfg : PCfg V) (x y : V) :
    (derive po (.uniform b) old cfg x y).lo = po.sub x b ∧
    (derive po (.uniform b) old cfg x y).hi = po.add x b := by
  simp [derive]

/-! ## order is kept when ids are renamed monotonically (`with_limits`) -/

theorem insertUniq_map (σ : Nat → Nat) (a : Nat) : ∀ (s : List Nat),
    (∀ i ∈ a :: s, ∀ j ∈ a :: s, i < j → σ i < σ j) →
    insertUniq (σ a) (s.map σ) = (insertUniq a s).map σ
  | [], _ => by simp [insertUniq]
  | b :: bs, h => by
    have hmono : ∀ i ∈ a :: bs, ∀ j ∈ a :: bs, i < j → σ i < σ j := fun i hi j hj hij =>
      h i (by rcases List.mem_cons.mp hi with rfl | hi <;> simp [*]) j
        (by rcases List.mem_cons.mp hj with rfl | hj <;> simp [*]) hij
    have ih := insertUniq_map σ a bs hmono
    simp only [List.map_cons]
    unfold insertUniq
    by_cases hab : a < b
    · have := h a (by simp) b (by simp) hab
      simp [hab, this]
    · by_cases hab' : a = b
      · subst hab'; simp
      · have hba : b < a := by omega
        have := h b (by simp) a (by simp) hba
        have h1 : ¬ σ a < σ b := by omega
        have h2 : σ a ≠ σ b := by omega
        simp [hab, hab', h1, h2, ih]

theorem sortDedup_map_mono (σ : Nat → Nat) : ∀ (l : List Nat),
    (∀ i ∈ l, ∀ j ∈ l, i < j → σ i < σ j) → sortDedup (l.map σ) = (sortDedup l).map σ
  | [], _ => by simp [sortDedup]
  | a :: l, h => by
    have h' : ∀ i ∈ l, ∀ j ∈ l, i < j → σ i < σ j :=
      fun i hi j hj => h i (List.mem_cons_of_mem _ hi) j (List.mem_cons_of_mem _ hj)
    have ih := sortDedup_map_mono σ l h'
    simp only [List.map_cons, sortDedup, List.foldr_cons] at ih ⊢
    rw [ih]
    apply insertUniq_map
    intro i hi j hj hij
    have hm : ∀ x, x ∈ a :: List.foldr insertUniq [] l → x ∈ a :: l := by
      intro x hx
      rcases List.mem_cons.mp hx with rfl | hx
      · simp
      · exact List.mem_cons_of_mem _ (mem_sortDedup.mp hx)
    exact h i (hm i hi) j (hm j hj) hij

/-- **Order preserved.** If the renaming is strictly increasing on the model's ids (old ids kept,
or fresh ids handed out in old-id order) the parameter order of the new model is the old one. -/
theorem order_preserved (σ : Nat → Nat) (t : Node V')
    (hmono : ∀ i ∈ (walk t).map (·.2), ∀ j ∈ (walk t).map (·.2), i < j → σ i < σ j) :
    uniqueIds (renameIds σ t) = (uniqueIds t).map σ := by
  simp only [uniqueIds, walk_rename, List.map_map]
  have : (walk t).map ((fun x => x.2) ∘ fun x => (x.1, σ x.2)) = ((walk t).map (·.2)).map σ := by
    rw [List.map_map]; rfl
  rw [this]
  exact sortDedup_map_mono σ _ hmono

/-- ids are kept by `mapper_from_prior_means`, `mapper_from_uniform_floats` and `replacing`: the tree
(paths, count, order, sharing, fixed values) is literally unchanged -/
theorem ids_kept_tree_unchanged (t : Node V') : renameIds id t = t := renameIds_id t

/-! ## non-vacuity -/

def intPass : PassOps Int :=
  { add := (· + ·), sub := (· - ·), mul := (· * ·), half := (· / 2), abs := fun x => (Int.natAbs x : Int),
    max := max, min := min, negInf := -1000000, posInf := 1000000 }

def t₀ : Node Int := .coll [("g", .model "P2" ["a", "b"] [("a", .prior 7), ("b", .prior 3)]), ("h", .prior 7)]

def args₀ := passArgs intPass (.means none (some 2) false) t₀
  [⟨"Uniform", 0, 10, 0, 0⟩, ⟨"Uniform", -5, 5, 0, 0⟩] [⟨true, 1, none⟩, ⟨false, 3, some (0, 100)⟩] [(-4, 0), (6, 0)]

/-- parameter order is [3, 7]: id 3 gets the value -4 (relative width |2·(-4)| = 8, old limits), id 7 gets 6 -/
example : lookupArg args₀ 3 = some ⟨"Gaussian", 0, 10, -4, 8⟩ := by rfl
example : lookupArg args₀ 7 = some ⟨"Gaussian", 0, 100, 6, 12⟩ := by rfl

end AF.C12

namespace AF.C12
open AF

theorem mem_of_indexOf?_some : ∀ (l : List Nat) (i c : Nat), indexOf? l i = some c → i ∈ l
  | [], _, _, h => by simp [indexOf?] at h
  | y :: ys, i, c, h => by
    unfold indexOf? at h
    by_cases hy : y = i
    · simp [hy]
    · have : (y == i) = false := by simpa using hy
      simp only [this] at h
      cases h' : indexOf? ys i with
      | none => simp [h'] at h
      | some d => exact List.mem_cons_of_mem _ (mem_of_indexOf?_some ys i d h')

/-- position in a strictly increasing list is strictly increasing -/
theorem indexOf?_mono : ∀ (l : List Nat), l.Pairwise (· < ·) → ∀ (i j a b : Nat), i < j →
    indexOf? l i = some a → indexOf? l j = some b → a < b
  | [], _, _, _, _, _, _, h, _ => by simp [indexOf?] at h
  | x :: xs, hs, i, j, a, b, hij, hi, hj => by
    have hx := List.pairwise_cons.mp hs
    unfold indexOf? at hi hj
    by_cases hxi : x = i
    · have h1 : (x == i) = true := by simpa using hxi
      simp only [h1, if_true, Option.some.injEq] at hi
      subst hi
      have hxj : ¬ x = j := by omega
      have h2 : (x == j) = false := by simpa using hxj
      simp only [h2] at hj
      cases h : indexOf? xs j with
      | none => simp [h] at hj
      | some c => simp [h] at hj; omega
    · have h1 : (x == i) = false := by simpa using hxi
      simp only [h1] at hi
      cases h : indexOf? xs i with
      | none => simp [h] at hi
      | some c =>
        simp only [h, Option.map_some, Option.some.injEq, Bool.false_eq_true, if_false] at hi
        -- i is in xs, hence x < i < j, so j ≠ x
        have hmem : i ∈ xs := mem_of_indexOf?_some xs i c h
        have hxlt : x < i := hx.1 i hmem
        have hxj : ¬ x = j := by omega
        have h2 : (x == j) = false := by simpa using hxj
        simp only [h2] at hj
        cases h' : indexOf? xs j with
        | none => simp [h'] at hj
        | some d =>
          simp only [h', Option.map_some, Option.some.injEq, Bool.false_eq_true, if_false] at hj
          have := indexOf?_mono xs hx.2 i j c d hij h h'
          omega

/-- the fresh ids `with_limits` hands out are strictly increasing in the old ids -/
theorem freshSigma_strictMono {V' : Type} (t : Node V') (base : Nat) (i j : Nat)
    (hi : i ∈ uniqueIds t) (hj : j ∈ uniqueIds t) (hij : i < j) :
    freshSigma t base i < freshSigma t base j := by
  obtain ⟨a, ha, _⟩ := indexOf?_some_of_mem (uniqueIds t) i hi
  obtain ⟨b, hb, _⟩ := indexOf?_some_of_mem (uniqueIds t) j hj
  have := indexOf?_mono (uniqueIds t) (sorted_sortDedup _) i j a b hij ha hb
  simp only [freshSigma, ha, hb]
  omega

/-- **`with_limits` keeps the parameter order**: the new model's parameters, in their own id order,
are the images of the old parameters in the old order -/
theorem with_limits_order_preserved {V' : Type} (t : Node V') (base : Nat) :
    uniqueIds (renameIds (freshSigma t base) t) = (uniqueIds t).map (freshSigma t base) := by
  apply order_preserved
  intro i hi j hj hij
  have hi' : i ∈ uniqueIds t := by simpa [uniqueIds, mem_sortDedup] using hi
  have hj' : j ∈ uniqueIds t := by simpa [uniqueIds, mem_sortDedup] using hj
  exact freshSigma_strictMono t base i j hi' hj' hij

end AF.C12
