import AFProofs.Lemmas.Persist
import AFProofs.Lemmas.DictForm
import AFProofs.Lemmas.DictJson
import AFProofs.Lemmas.DictJsonErase
import AFProofs.Lemmas.DictJsonIter

/-!
# C08 — models survive every persistence round trip

A round trip rebuilds the tree and renames prior identities by a map `σ` (`AFModel/Persist.lean`):
the dictionary/JSON form gives fresh ids in order of first occurrence (`dictSigma`), pickle and the
database keep ids. The theorems say that everything the property lists is preserved by
`renameIds σ` whenever `σ` is injective on the ids of the model, and that `dictSigma` is.
-/

namespace AF.C08
open AF

variable {V : Type}

/-- Same set of parameter paths, each place carrying the renamed identity of its prior. -/
theorem paths_preserved (σ : Nat → Nat) (t : Node V) :
    (walk (renameIds σ t)).map (·.1) = (walk t).map (·.1) := by
  rw [walk_rename, List.map_map]; rfl

/-- **Supplying the same value for each parameter yields equal instances** (constants, tuples,
arithmetic and array entries included: the whole instance is equal). -/
theorem same_values_same_instance [Inhabited V] (ops : Ops V) (σ : Nat → Nat) (t : Node V)
    (ρ ρ' : Nat → Inst V) (h : ∀ i, ρ' (σ i) = ρ i) :
    instW ops ρ' (renameIds σ t) = instW ops ρ t := by
  rw [instW_rename]
  have : (fun i => ρ' (σ i)) = ρ := funext h
  rw [this]

/-- **Never merges distinct parameters nor splits a shared one**: two places share a prior after
the round trip iff they did before. -/
theorem sharing_preserved (σ : Nat → Nat) (t : Node V)
    (hinj : ∀ i ∈ (walk t).map (·.2), ∀ j ∈ (walk t).map (·.2), σ i = σ j → i = j)
    (p q : Path) (i j : Nat) (hp : (p, i) ∈ walk t) (hq : (q, j) ∈ walk t) :
    σ i = σ j ↔ i = j :=
  ⟨hinj i (List.mem_map.mpr ⟨_, hp, rfl⟩) j (List.mem_map.mpr ⟨_, hq, rfl⟩), fun h => h ▸ rfl⟩

/-- the free-parameter count is preserved -/
theorem count_preserved (σ : Nat → Nat) (t : Node V)
    (hinj : ∀ i ∈ (walk t).map (·.2), ∀ j ∈ (walk t).map (·.2), σ i = σ j → i = j) :
    count (renameIds σ t) = count t := by
  simp only [count, uniqueIds, walk_rename, List.map_map]
  have : (walk t).map ((fun x => x.2) ∘ fun x => (x.1, σ x.2)) = ((walk t).map (·.2)).map σ := by
    rw [List.map_map]; rfl
  rw [this]
  exact length_sortDedup_map σ _ hinj

/-- the id map of a dictionary reload is injective on the model's ids -/
theorem dictSigma_injective (t : Node V) (base : Nat) :
    ∀ i ∈ (walk t).map (·.2), ∀ j ∈ (walk t).map (·.2),
      dictSigma t base i = dictSigma t base j → i = j := by
  intro i hi j hj h
  obtain ⟨a, ha, _⟩ := indexOf?_some_of_mem _ i (mem_firstOcc.mpr hi)
  obtain ⟨b, hb, _⟩ := indexOf?_some_of_mem _ j (mem_firstOcc.mpr hj)
  simp only [dictSigma, ha, hb] at h
  have : a = b := by omega
  subst this
  exact indexOf?_inj _ i j a ha hb

/-- **Dictionary / JSON round trip**: count, sharing and instances are preserved. -/
theorem dict_roundtrip [Inhabited V] (ops : Ops V) (t : Node V) (base : Nat) :
    count (reloadDict t base) = count t ∧
    (walk (reloadDict t base)).map (·.1) = (walk t).map (·.1) ∧
    ∀ (ρ ρ' : Nat → Inst V), (∀ i, ρ' (dictSigma t base i) = ρ i) →
      instW ops ρ' (reloadDict t base) = instW ops ρ t :=
  ⟨count_preserved _ t (dictSigma_injective t base), paths_preserved _ t,
   fun ρ ρ' h => same_values_same_instance ops _ t ρ ρ' h⟩

/-- **Pickle and database round trips** return the same composition: paths, count, sharing,
instances *and the parameter order* are unchanged. -/
theorem keeping_ids_roundtrip (t : Node V) : reloadKeepingIds t = t := renameIds_id t

/-- repeated round trips compose into one renaming — so they are covered by the theorems above -/
theorem roundtrips_compose (σ τ : Nat → Nat) (t : Node V) :
    renameIds τ (renameIds σ t) = renameIds (fun i => τ (σ i)) t := renameIds_comp σ τ t

/-! ## non-vacuity: shared prior 7 (three places), prior 3, constants, tuple, arithmetic -/

def witness : Node Nat :=
  .coll [("g", .model "P2" ["a", "b"] [("a", .prior 7), ("b", .const 25)]),
         ("h", .model "T2" ["pos", "r"]
            [("pos", .tuple [("pos_0", .prior 3), ("pos_1", .prior 7)]),
             ("r", .arith .mul [("left_", .prior 7), ("right_", .prior 3)] (.prior 7) (.prior 3))])]

example : (walk (reloadDict witness 100)).map (·.2) = [100, 101, 100, 100, 101] := by decide
example : count (reloadDict witness 100) = 2 ∧ count witness = 2 := by decide
example : uniquePaths (reloadDict witness 100) ≠ uniquePaths witness := by decide

end AF.C08

namespace AF.C08
open AF

variable {V : Type}

/-! ## the dictionary form itself: reader ∘ writer

`AFModel/DictForm.lean` models `dict()` (writer) and `from_dict` with its `loaded_ids` (reader). The
theorems below show that reading what was written *is* an injective renaming of the composition —
so `dict_roundtrip` above applies to the code's own algorithm, not to an assumed one — up to the
operand names of arithmetic priors, which the dictionary form does not record (`canonNames`;
known finding C08-arith-names: the advertised paths *inside* arithmetic priors change). -/

/-- **reader ∘ writer is a renaming of the composition** -/
theorem dict_reader_writer_is_renaming (t : Node V) (base : Nat) :
    dictRoundTrip t base =
      renameIds (sigmaOf (extend { next := base } (loadOrder t))) (canonNames t) := by
  simp [dictRoundTrip, fromDict_toDict t _ (good_init base)]

/-- … and the renaming never merges two parameters -/
theorem dict_reader_never_merges (t : Node V) (base : Nat) (i j : Nat)
    (hi : i ∈ loadOrder t) (hj : j ∈ loadOrder t)
    (he : sigmaOf (extend { next := base } (loadOrder t)) i =
          sigmaOf (extend { next := base } (loadOrder t)) j) : i = j :=
  sigmaOf_injective _ _ (good_init base) i j hi hj he

mutual
/-- a composition without arithmetic priors is read back with exactly its own names -/
theorem canonNames_of_no_arith : ∀ (n : Node V), NoArith n → canonNames n = n
  | .prior _, _ => by simp [canonNames]
  | .const _, _ => by simp [canonNames]
  | .opaque _, _ => by simp [canonNames]
  | .model _ _ attrs, h => by simp only [NoArith] at h; simp [canonNames, canonNamesAttrs_of_no_arith attrs h]
  | .coll attrs, h => by simp only [NoArith] at h; simp [canonNames, canonNamesAttrs_of_no_arith attrs h]
  | .tuple attrs, h => by simp only [NoArith] at h; simp [canonNames, canonNamesAttrs_of_no_arith attrs h]
  | .array _ attrs, h => by simp only [NoArith] at h; simp [canonNames, canonNamesAttrs_of_no_arith attrs h]
  | .arith _ _ _ _, h => by simp [NoArith] at h
  | .modif _ _ _, h => by simp [NoArith] at h
theorem canonNamesAttrs_of_no_arith : ∀ (attrs : List (String × Node V)), NoArithAttrs attrs →
    canonNamesAttrs attrs = attrs
  | [], _ => by simp [canonNamesAttrs]
  | (k, n) :: rest, h => by
    simp only [NoArithAttrs] at h
    simp [canonNamesAttrs, canonNames_of_no_arith n h.1, canonNamesAttrs_of_no_arith rest h.2]
end

/-- **Dictionary round trip, from the code's own reader and writer**: for a composition without
arithmetic priors the reloaded model has the same paths, count and sharing, and the same values
give the same instance. -/
theorem dict_form_roundtrip [Inhabited V] (ops : Ops V) (t : Node V) (base : Nat) (h : NoArith t) :
    (walk (dictRoundTrip t base)).map (·.1) = (walk t).map (·.1) ∧
    ∀ (ρ ρ' : Nat → Inst V),
      (∀ i, ρ' (sigmaOf (extend { next := base } (loadOrder t)) i) = ρ i) →
      instW ops ρ' (dictRoundTrip t base) = instW ops ρ t := by
  rw [dict_reader_writer_is_renaming, canonNames_of_no_arith t h]
  exact ⟨paths_preserved _ t, fun ρ ρ' hρ => same_values_same_instance ops _ t ρ ρ' hρ⟩

/-- with arithmetic priors the instance is still the same (operand *values* are what is evaluated):
only the names under which the operands are advertised change -/
theorem dict_form_instance_with_arith [Inhabited V] (ops : Ops V) (t : Node V) (base : Nat)
    (ρ ρ' : Nat → Inst V)
    (hρ : ∀ i, ρ' (sigmaOf (extend { next := base } (loadOrder t)) i) = ρ i) :
    instW ops ρ' (dictRoundTrip t base) = instW ops ρ (canonNames t) := by
  rw [dict_reader_writer_is_renaming]
  exact same_values_same_instance ops _ _ ρ ρ' hρ

example : (walk (dictRoundTrip witness 100)).map (·.2) = [100, 101, 100, 100, 101] := by decide
example : paths (dictRoundTrip witness 100) = paths (reloadDict witness 100) := by decide

end AF.C08

namespace AF.C08
open AF

variable {V : Type}

/-! ## the dictionary / JSON form the library actually writes (`AFModel/DictJson.lean`)

`PN` carries everything the form carries (descriptors, ids, class paths, constants, fixed components,
`item_number`, tuples, arithmetic / modified priors, arrays and the **assertions** of every model and
collection); `toDV` is `dict()`, `fromDV` is `from_dict` with its `loaded_ids` (arguments before
assertions). All statements are for **every** composition - arithmetic relations and assertions
included - and every class table `dflt`. -/

/-- **reader ∘ writer is a renaming of the whole composition**: everything - paths, descriptors,
constants, fixed components, relations and every assertion - comes back as it was, the prior identities
renamed by the one map `rtSigma t base` (operand attribute names of arithmetic priors become
`left_`/`right_`, a fixed component rebuilt by its constructor holds its class defaults: `canonPN`). -/
theorem dict_json_reader_writer_is_renaming (dflt : String → List (String × Scal V)) (t : PN V) (base : Nat) :
    dictRT dflt t base = renamePN (rtSigma t base) (canonPN dflt t) := dictRT_eq dflt t base

/-- **… and the renaming never merges two parameters** (it is a function, so it never splits one):
injective on every id the dictionary mentions, those met only inside assertions included. -/
theorem dict_json_never_merges (t : PN V) (base : Nat) (i j : Nat)
    (hi : i ∈ pnLoadOrder t) (hj : j ∈ pnLoadOrder t) (he : rtSigma t base i = rtSigma t base j) : i = j :=
  rtSigma_injOn t base i hi j hj he

/-- the **assertions** of a model come back as the same expressions over the renamed parameters - renamed by
the same map as the model's own parameters -/
theorem dict_json_assertions_kept_model (dflt : String → List (String × Scal V)) (cp : String)
    (attrs : List (String × PN V)) (asserts : List (PN V)) (base : Nat) :
    dictRT dflt (.model cp attrs asserts) base =
      .model cp (renamePNAttrs (rtSigma (.model cp attrs asserts) base) (canonPNAttrs dflt attrs))
        (renamePNList (rtSigma (.model cp attrs asserts) base) (canonPNList dflt asserts)) := by
  rw [dictRT_eq]; simp [canonPN, renamePN]

/-- the same for a collection (its counter of appended items is kept too) -/
theorem dict_json_assertions_kept_collection (dflt : String → List (String × Scal V)) (k : Nat)
    (attrs : List (String × PN V)) (asserts : List (PN V)) (base : Nat) :
    dictRT dflt (.coll k attrs asserts) base =
      .coll k (renamePNAttrs (rtSigma (.coll k attrs asserts) base) (canonPNAttrs dflt attrs))
        (renamePNList (rtSigma (.coll k attrs asserts) base) (canonPNList dflt asserts)) := by
  rw [dictRT_eq]; simp [canonPN, renamePN]

/-- what the walk and the instance construction see of the reloaded model: the skeleton of the original,
renamed, with the reload names of arithmetic operands -/
theorem dict_json_skeleton (sig : String → List String) (dflt : String → List (String × Scal V))
    (t : PN V) (base : Nat) :
    pnErase sig (dictRT dflt t base) = renameIds (rtSigma t base) (canonNames (pnErase sig t)) := by
  rw [dictRT_eq, pnErase_rename, pnErase_canon]

/-- **Supplying the same value for each parameter yields the equal instance - for every composition**,
arithmetic priors included (`NoArith` is no longer a hypothesis: the instance does not depend on operand
names). -/
theorem dict_json_same_instance [Inhabited V] (ops : Ops V) (sig : String → List String)
    (dflt : String → List (String × Scal V)) (t : PN V) (base : Nat) (ρ ρ' : Nat → Inst V)
    (hρ : ∀ i, ρ' (rtSigma t base i) = ρ i) :
    instW ops ρ' (pnErase sig (dictRT dflt t base)) = instW ops ρ (pnErase sig t) := by
  rw [dict_json_skeleton, same_values_same_instance ops _ _ ρ ρ' hρ, instW_canonNames]

/-- the same for the abstract dictionary form of `DictForm.lean`: `dict_form_roundtrip`'s instance clause
without its `NoArith` hypothesis -/
theorem dict_form_same_instance [Inhabited V] (ops : Ops V) (t : Node V) (base : Nat) (ρ ρ' : Nat → Inst V)
    (hρ : ∀ i, ρ' (sigmaOf (extend { next := base } (loadOrder t)) i) = ρ i) :
    instW ops ρ' (dictRoundTrip t base) = instW ops ρ t := by
  rw [dict_form_instance_with_arith ops t base ρ ρ' hρ, instW_canonNames]

/-- **same paths, same count** when no arithmetic prior is held (with them the places *inside* the arithmetic
prior are renamed: known finding C08-arith-names): the advertised places are the same and the number of
free parameters is the same -/
theorem dict_json_paths_count (sig : String → List String) (dflt : String → List (String × Scal V))
    (t : PN V) (base : Nat) (h : NoArith (pnErase sig t)) :
    (walk (pnErase sig (dictRT dflt t base))).map (·.1) = (walk (pnErase sig t)).map (·.1) ∧
    count (pnErase sig (dictRT dflt t base)) = count (pnErase sig t) := by
  rw [dict_json_skeleton, canonNames_of_no_arith _ h]
  refine ⟨paths_preserved _ _, count_preserved _ _ ?_⟩
  intro i hi j hj he
  obtain ⟨x, hx, rfl⟩ := List.mem_map.mp hi
  obtain ⟨y, hy, rfl⟩ := List.mem_map.mp hj
  exact rtSigma_injOn t base _ (walk_erase_sub sig t x hx) _ (walk_erase_sub sig t y hy) he

/-- **two places share a parameter after the reload iff they did before** (all compositions; places as the
reloaded model advertises them) -/
theorem dict_json_sharing (sig : String → List String) (t : PN V) (base : Nat)
    (p q : Path) (i j : Nat) (hp : (p, i) ∈ walk (pnErase sig t)) (hq : (q, j) ∈ walk (pnErase sig t)) :
    rtSigma t base i = rtSigma t base j ↔ i = j :=
  ⟨rtSigma_injOn t base i (walk_erase_sub sig t _ hp) j (walk_erase_sub sig t _ hq), fun h => h ▸ rfl⟩

/-- **repeated round trips** (induction on their number): after any positive number of dictionary round
trips the model is still one injective renaming of the original (with reload names) - nothing drifts. -/
theorem dict_json_roundtrips (dflt : String → List (String × Scal V)) (t : PN V) (base step : Nat) :
    ∀ n : Nat, ∃ σ : Nat → Nat, InjOn σ (pnLoadOrder t) ∧
      dictRTn dflt t base step (n + 1) = renamePN σ (canonPN dflt t)
  | 0 => ⟨rtSigma t (base + 0 * step), rtSigma_injOn t _, by simp [dictRTn, dictRT_eq]⟩
  | n + 1 => by
      obtain ⟨σ, hσ, ih⟩ := dict_json_roundtrips dflt t base step n
      let u := dictRTn dflt t base step (n + 1)
      refine ⟨fun i => rtSigma u (base + (n + 1) * step) (σ i), ?_, ?_⟩
      · intro i hi j hj he
        have hu : pnLoadOrder u = (pnLoadOrder t).map σ := by
          show pnLoadOrder (dictRTn dflt t base step (n + 1)) = _
          rw [ih, pnLoadOrder_rename, pnLoadOrder_canon]
        refine hσ i hi j hj (rtSigma_injOn u _ (σ i) ?_ (σ j) ?_ he)
        · rw [hu]; exact List.mem_map.mpr ⟨i, hi, rfl⟩
        · rw [hu]; exact List.mem_map.mpr ⟨j, hj, rfl⟩
      · show dictRT dflt u (base + (n + 1) * step) = _
        rw [dictRT_eq]
        show renamePN _ (canonPN dflt (dictRTn dflt t base step (n + 1))) = _
        rw [ih, canonPN_rename dflt σ _ (by rw [pnLoadOrder_canon]; exact hσ), canonPN_idem, renamePN_comp]

/-- **the same assertions**: supplying the same value for each parameter gives every assertion of the reloaded
model - at any depth, chained or not, over arithmetic relations or not - the verdict it had before, so the
reloaded model raises `FitException` for exactly the same vectors. All compositions. -/
theorem dict_json_same_assertion_verdicts [Inhabited V] (ops : Ops V) (sig : String → List String)
    (dflt : String → List (String × Scal V)) (t : PN V) (base : Nat) (ρ ρ' : Nat → Inst V)
    (hρ : ∀ i, ρ' (rtSigma t base i) = ρ i) :
    assertVerdicts ops sig ρ' (dictRT dflt t base) = assertVerdicts ops sig ρ t := by
  unfold assertVerdicts
  rw [dictRT_eq, pnAsserts_rename, pnAsserts_canon]
  exact verdicts_reload_list ops sig dflt _ ρ ρ' hρ _

/-! ### pickle / dill: consequences of the stated assumption only

The assumption (`AFModel/DictJson.lean`, checked on the real unpickled object on every run): the attribute
tree is rebuilt and every `id` restored verbatim, i.e. the round trip is the renaming by the identity map. -/

/-- under the assumption a pickle round trip returns the very same composition … -/
theorem pickle_is_identity (t : PN V) : pickleRT t = t := renamePN_id t

/-- … hence the parameter order (paths in order of prior id), the count and every instance are unchanged -/
theorem pickle_keeps_order (sig : String → List String) (t : PN V) :
    pathPriors (pnErase sig (pickleRT t)) = pathPriors (pnErase sig t) ∧
    count (pnErase sig (pickleRT t)) = count (pnErase sig t) := by
  rw [pickle_is_identity]; exact ⟨rfl, rfl⟩

/-- any route that satisfies the assumption keeps the composition through any number of round trips -/
theorem identity_copy_roundtrips (f : PN V → PN V) (hf : ∀ t, f t = renamePN (fun i => i) t) :
    ∀ (n : Nat) (t : PN V), Nat.repeat f n t = t
  | 0, _ => rfl
  | n + 1, t => by
      show f (Nat.repeat f n t) = t
      rw [identity_copy_roundtrips f hf n t, hf t, renamePN_id]

/-! ### database rows: the counter of a rebuilt collection (repaired behaviour, fixes/C08-db-collection-item-number) -/

/-- appending to a collection reloaded from the database never overwrites a member: the counter is beyond every
positional name -/
theorem db_counter_beyond_members (ps : List (Option Nat)) (k : Nat) (h : some k ∈ ps) : k < nextPosition ps :=
  nextPosition_gt ps k h

/-- for a list-built collection (members `0 … n-1`, possibly with named members among them) the counter is the
original one: `n` -/
theorem db_counter_of_list_built (ps : List (Option Nat)) (n : Nat)
    (hall : ∀ k, some k ∈ ps → k < n) (hlast : n = 0 ∨ some (n - 1) ∈ ps) : nextPosition ps = n := by
  apply Nat.le_antisymm (nextPosition_le_of_all_lt ps n hall)
  rcases hlast with h | h
  · omega
  · have := nextPosition_gt ps (n - 1) h
    omega

example : nextPosition [some 0, some 1, none, some 2] = 3 := by decide
example : nextPosition [none, none] = 0 := by decide

/-! ### non-vacuity: prior 7 shared between an argument, a tuple member, an arithmetic relation and a chained
assertion; prior 5 met first inside the child's assertion and only later as an argument; a fixed component -/

def witnessPN : PN Nat :=
  let d : PDesc Nat := { kind := .uniform, lo := 0, hi := 1, mean := 0, sigma := 0 }
  .coll 0
    [("g", .model "lib.P2" [("a", .prior 7 d), ("b", .lit (.num 25))]
        [.both (.arith "GreaterThanLessThanAssertion" "lower" "greater" (.prior 5 d) (.prior 7 d))
               (.arith "GreaterThanLessThanAssertion" "lower" "greater" (.prior 7 d) (.lit (.num 3)))]),
     ("h", .model "lib.T2"
        [("pos", .tuple [("pos_0", .prior 3 d), ("pos_1", .prior 7 d)]),
         ("r", .arith "MultiplePrior" "x" "y" (.prior 7 d) (.prior 5 d))] []),
     ("fixed", .inst "lib.Mode" [("a", .lit (.num 2))])]
    [.arith "GreaterThanLessThanEqualAssertion" "lower" "greater" (.prior 3 d) (.prior 9 d)]

def witnessDflt : String → List (String × Scal Nat)
  | "lib.Mode" => [("a", .num 1), ("mode", .str "x")]
  | _ => []

/-- the reader meets prior 5 inside `g`'s assertion before it meets prior 3: fresh ids follow that order;
prior 9 occurs in the root's assertion only and still gets its own id -/
example : pnLoadOrder (dictRT witnessDflt witnessPN 100) = [100, 101, 100, 100, 102, 100, 100, 101, 102, 103] := by
  decide
example : (walk (pnErase (fun _ => []) (dictRT witnessDflt witnessPN 100))).map (·.2) = [100, 102, 100, 100, 101] := by
  decide
example : paths (pnErase (fun _ => []) (dictRT witnessDflt witnessPN 100)) =
    [["g", "a"], ["h", "pos", "pos_1"], ["h", "r", "left_"], ["h", "r", "right_"], ["h", "pos", "pos_0"]] := by decide
example : pnLoadOrder (dictRTn witnessDflt witnessPN 100 50 3) = [200, 201, 200, 200, 202, 200, 200, 201, 202, 203] := by
  decide
/-- with `p7 = 1, p5 = 2, p3 = 4, p9 = 3`: `g`'s chain `p5 < p7 < 3` fails, the root's `p3 <= p9` fails too -/
example : assertVerdicts (V := Nat) ⟨fun _ a b => a + b, fun _ a => a, fun a b => a ≤ b, fun a b => a < b, fun a b => a ≤ b⟩
    (fun _ => []) (fun i => .num (if i = 7 then 1 else if i = 5 then 2 else if i = 3 then 4 else 3)) witnessPN = [false, false] := by
  decide
example : Nat.repeat pickleRT 3 witnessPN = witnessPN := identity_copy_roundtrips pickleRT (fun _ => rfl) 3 witnessPN
example : NoArith (pnErase (fun _ => []) (PN.model "lib.P2" [("a", .prior 7 ⟨.gaussian, 0, 1, 2, 3⟩), ("b", .prior 7 ⟨.gaussian, 0, 1, 2, 3⟩)]
    [.arith "GreaterThanLessThanAssertion" "lower" "greater" (.prior 5 ⟨.uniform, 0, 1, 0, 0⟩) (.prior 7 ⟨.gaussian, 0, 1, 2, 3⟩)] : PN Nat)) := by
  simp [pnErase, pnEraseAttrs, NoArith, NoArithAttrs]

end AF.C08
