import AFProofs.Lemmas.Persist
import AFProofs.Lemmas.DictForm

/-!
# C08 — models survive every persistence round trip

A round trip rebuilds the tree and renames prior identities by a map `σ` (`AFModel/Persist.lean`):
the dictionary/JSON form gives fresh ids in order of first occurrence (`dictSigma`), pickle and the
database keep ids. The theorems say that everything the property lists is preserved by
`renameIds σ` whenever `σ` is injective on the ids of the model, and that `dictSigma` is.
-/

namespace AF.C08
open AF

variable {V : Type}

/-- Same set of parameter paths, each place carrying the renamed identity of its prior. -/
theorem paths_preserved (σ : Nat → Nat) (t : Node V) :
    (walk (renameIds σ t)).map (·.1) = (walk t).map (·.1) := by
  rw [walk_rename, List.map_map]; rfl

/-- **Supplying the same value for each parameter yields equal instances** (constants, tuples,
arithmetic and array entries included: the whole instance is equal). -/
theorem same_values_same_instance [Inhabited V] (ops : Ops V) (σ : Nat → Nat) (t : Node V)
    (ρ ρ' : Nat → Inst V) (h : ∀ i, ρ' (σ i) = ρ i) :
    instW ops ρ' (renameIds σ t) = instW ops ρ t := by
  rw [instW_rename]
  have : (fun i => ρ' (σ i)) = ρ := funext h
  rw [this]

/-- **Never merges distinct parameters nor splits a shared one**: two places share a prior after
the round trip iff they did before. -/
theorem sharing_preserved (σ : Nat → Nat) (t : Node V)
    (hinj : ∀ i ∈ (walk t).map (·.2), ∀ j ∈ (walk t).map (·.2), σ i = σ j → i = j)
    (p q : Path) (i j : Nat) (hp : (p, i) ∈ walk t) (hq : (q, j) ∈ walk t) :
    σ i = σ j ↔ i = j :=
  ⟨hinj i (List.mem_map.mpr ⟨_, hp, rfl⟩) j (List.mem_map.mpr ⟨_, hq, rfl⟩), fun h => h ▸ rfl⟩

/-- the free-parameter count is preserved -/
theorem count_preserved (σ : Nat → Nat) (t : Node V)
    (hinj : ∀ i ∈ (walk t).map (·.2), ∀ j ∈ (walk t).map (·.2), σ i = σ j → i = j) :
    count (renameIds σ t) = count t := by
  simp only [count, uniqueIds, walk_rename, List.map_map]
  have : (walk t).map ((fun x => x.2) ∘ fun x => (x.1, σ x.2)) = ((walk t).map (·.2)).map σ := by
    rw [List.map_map]; rfl
  rw [this]
  exact length_sortDedup_map σ _ hinj

/-- the id map of a dictionary reload is injective on the model's ids -/
theorem dictSigma_injective (t : Node V) (base : Nat) :
    ∀ i ∈ (walk t).map (·.2), ∀ j ∈ (walk t).map (·.2),
      dictSigma t base i = dictSigma t base j → i = j := by
  intro i hi j hj h
  obtain ⟨a, ha, _⟩ := indexOf?_some_of_mem _ i (mem_firstOcc.mpr hi)
  obtain ⟨b, hb, _⟩ := indexOf?_some_of_mem _ j (mem_firstOcc.mpr hj)
  simp only [dictSigma, ha, hb] at h
  have : a = b := by omega
  subst this
  exact indexOf?_inj _ i j a ha hb

/-- **Dictionary / JSON round trip**: count, sharing and instances are preserved. -/
theorem dict_roundtrip [Inhabited V] (ops : Ops V) (t : Node V) (base : Nat) :
    count (reloadDict t base) = count t ∧
    (walk (reloadDict t base)).map (·.1) = (walk t).map (·.1) ∧
    ∀ (ρ ρ' : Nat → Inst V), (∀ i, ρ' (dictSigma t base i) = ρ i) →
      instW ops ρ' (reloadDict t base) = instW ops ρ t :=
  ⟨count_preserved _ t (dictSigma_injective t base), paths_preserved _ t,
   fun ρ ρ' h => same_values_same_instance ops _ t ρ ρ' h⟩

/-- **Pickle and database round trips** return the same composition: paths, count, sharing,
instances *and the parameter order* are unchanged. -/
theorem keeping_ids_roundtrip (t : Node V) : reloadKeepingIds t = t := renameIds_id t

/-- repeated round trips compose into one renaming — so they are covered by the theorems above -/
theorem roundtrips_compose (σ τ : Nat → Nat) (t : Node V) :
    renameIds τ (renameIds σ t) = renameIds (fun i => τ (σ i)) t := renameIds_comp σ τ t

/-! ## non-vacuity: shared prior 7 (three places), prior 3, constants, tuple, arithmetic -/

def witness : Node Nat :=
  .coll [("g", .model "P2" ["a", "b"] [("a", .prior 7), ("b", .const 25)]),
         ("h", .model "T2" ["pos", "r"]
            [("pos", .tuple [("pos_0", .prior 3), ("pos_1", .prior 7)]),
             ("r", .arith .mul [("left_", .prior 7), ("right_", .prior 3)] (.prior 7) (.prior 3))])]

example : (walk (reloadDict witness 100)).map (·.2) = [100, 101, 100, 100, 101] := by decide
example : count (reloadDict witness 100) = 2 ∧ count witness = 2 := by decide
example : uniquePaths (reloadDict witness 100) ≠ uniquePaths witness := by decide

end AF.C08

namespace AF.C08
open AF

variable {V : Type}

/-! ## the dictionary form itself: reader ∘ writer

`AFModel/DictForm.lean` models `dict()` (writer) and `from_dict` with its `loaded_ids` (reader). The
theorems below show that reading what was written *is* an injective renaming of the composition —
so `dict_roundtrip` above applies to the code's own algorithm, not to an assumed one — up to the
operand names of arithmetic priors, which the dictionary form does not record (`canonNames`;
known finding C08-arith-names: the advertised paths *inside* arithmetic priors change). -/

/-- **reader ∘ writer is a renaming of the composition** -/
theorem dict_reader_writer_is_renaming (t : Node V) (base : Nat) :
    dictRoundTrip t base =
      renameIds (sigmaOf (extend { next := base } (loadOrder t))) (canonNames t) := by
  simp [dictRoundTrip, fromDict_toDict t _ (good_init base)]

/-- … and the renaming never merges two parameters -/
theorem dict_reader_never_merges (t : Node V) (base : Nat) (i j : Nat)
    (hi : i ∈ loadOrder t) (hj : j ∈ loadOrder t)
    (he : sigmaOf (extend { next := base } (loadOrder t)) i =
          sigmaOf (extend { next := base } (loadOrder t)) j) : i = j :=
  sigmaOf_injective _ _ (good_init base) i j hi hj he

mutual
/-- a composition without arithmetic priors is read back with exactly its own names -/
theorem canonNames_of_no_arith : ∀ (n : Node V), NoArith n → canonNames n = n
  | .prior _, _ => by simp [canonNames]
  | .const _, _ => by simp [canonNames]
  | .opaque _, _ => by simp [canonNames]
  | .model _ _ attrs, h => by simp only [NoArith] at h; simp [canonNames, canonNamesAttrs_of_no_arith attrs h]
  | .coll attrs, h => by simp only [NoArith] at h; simp [canonNames, canonNamesAttrs_of_no_arith attrs h]
  | .tuple attrs, h => by simp only [NoArith] at h; simp [canonNames, canonNamesAttrs_of_no_arith attrs h]
  | .array _ attrs, h => by simp only [NoArith] at h; simp [canonNames, canonNamesAttrs_of_no_arith attrs h]
  | .arith _ _ _ _, h => by simp [NoArith] at h
  | .modif _ _ _, h => by simp [NoArith] at h
theorem canonNamesAttrs_of_no_arith : ∀ (attrs : List (String × Node V)), NoArithAttrs attrs →
    canonNamesAttrs attrs = attrs
  | [], _ => by simp [canonNamesAttrs]
  | (k, n) :: rest, h => by
    simp only [NoArithAttrs] at h
    simp [canonNamesAttrs, canonNames_of_no_arith n h.1, canonNamesAttrs_of_no_arith rest h.2]
end

/-- **Dictionary round trip, from the code's own reader and writer**: for a composition without
arithmetic priors the reloaded model has the same paths, count and sharing, and the same values
give the same instance. -/
theorem dict_form_roundtrip [Inhabited V] (ops : Ops V) (t : Node V) (base : Nat) (h : NoArith t) :
    (walk (dictRoundTrip t base)).map (·.1) = (walk t).map (·.1) ∧
    ∀ (ρ ρ' : Nat → Inst V),
      (∀ i, ρ' (sigmaOf (extend { next := base } (loadOrder t)) i) = ρ i) →
      instW ops ρ' (dictRoundTrip t base) = instW ops ρ t := by
  rw [dict_reader_writer_is_renaming, canonNames_of_no_arith t h]
  exact ⟨paths_preserved _ t, fun ρ ρ' hρ => same_values_same_instance ops _ t ρ ρ' hρ⟩

/-- with arithmetic priors the instance is still the same (operand *values* are what is evaluated):
only the names under which the operands are advertised change -/
theorem dict_form_instance_with_arith [Inhabited V] (ops : Ops V) (t : Node V) (base : Nat)
    (ρ ρ' : Nat → Inst V)
    (hρ : ∀ i, ρ' (sigmaOf (extend { next := base } (loadOrder t)) i) = ρ i) :
    instW ops ρ' (dictRoundTrip t base) = instW ops ρ (canonNames t) := by
  rw [dict_reader_writer_is_renaming]
  exact same_values_same_instance ops _ _ ρ ρ' hρ

example : (walk (dictRoundTrip witness 100)).map (·.2) = [100, 101, 100, 100, 101] := by decide
example : paths (dictRoundTrip witness 100) = paths (reloadDict witness 100) := by decide

end AF.C08
