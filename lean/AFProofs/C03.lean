import AFModel.Gate
import AFModel.FloatOps

/-!
# C03 — limits and assertions gate every instance

Theorems about `gate` (`AFModel/Gate.lean`), the model of `instance_from_vector`. The traversal
that collects the assertions of every node is done by the extractor and validated against the
program by the property oracle (`harness/c03.py`); here the quantifier is over *any* list of
assertions, any composition, any vector, any value type with comparisons `lt`/`le`.
-/

namespace AF.C03
open AF

variable {V : Type} [Inhabited V]
set_option linter.unusedSectionVars false

/-- limits are checked position by position -/
theorem limitsOk_cons (ops : Ops V) (l : V × V) (ls : List (V × V)) (x : V) (xs : List V) :
    limitsOk ops (l :: ls) (x :: xs) = (within ops l x && limitsOk ops ls xs) := rfl

theorem limitsOk_iff (ops : Ops V) : ∀ (lims : List (V × V)) (v : List V), lims.length = v.length →
    (limitsOk ops lims v = true ↔
      ∀ (i : Nat) (h₁ : i < lims.length) (h₂ : i < v.length), within ops lims[i] v[i] = true)
  | [], [], _ => by simp [limitsOk]
  | [], _ :: _, h => by simp at h
  | _ :: _, [], h => by simp at h
  | l :: ls, x :: xs, h => by
    have ih := limitsOk_iff ops ls xs (by simpa using h)
    simp only [limitsOk, Bool.and_eq_true, ih]
    constructor
    · rintro ⟨h0, hr⟩ i h₁ h₂
      cases i with
      | zero => exact h0
      | succ j => exact hr j (Nat.lt_of_succ_lt_succ h₁) (Nat.lt_of_succ_lt_succ h₂)
    · intro hall
      refine ⟨hall 0 (Nat.zero_lt_succ _) (Nat.zero_lt_succ _), ?_⟩
      intro i h₁ h₂
      exact hall (i + 1) (Nat.succ_lt_succ h₁) (Nat.succ_lt_succ h₂)

/-- **Gate.** An instance is produced for a vector iff the length is right, every value lies
inside its prior's limits and every assertion is true of the values — and then it is the instance
of C01. -/
theorem gate_ok_iff (ops : Ops V) (t : Node V) (lims : List (V × V)) (asserts : List (Asrt V))
    (v : List V) (i : Inst V) :
    gate ops t lims asserts v false = .ok i ↔
      v.length = count t ∧ limitsOk ops lims v = true ∧
      (∀ a ∈ asserts, evalA ops (valOf (argsOfVector t v)) a = true) ∧
      i = instFromVector ops t v := by
  unfold gate
  by_cases hl : v.length = count t
  · by_cases hlim : limitsOk ops lims v = true
    · by_cases ha : asserts.all (evalA ops (valOf (argsOfVector t v))) = true
      · simp only [hl, hlim, ha, ne_eq, not_true_eq_false, if_false, Bool.not_false, Bool.not_true,
          Bool.and_false, Bool.false_eq_true, Except.ok.injEq, true_and]
        constructor
        · intro h; exact ⟨List.all_eq_true.mp ha, h.symm⟩
        · intro h; exact h.2.symm
      · have : ¬ (∀ a ∈ asserts, evalA ops (valOf (argsOfVector t v)) a = true) :=
          fun h => ha (List.all_eq_true.mpr h)
        simp [hl, hlim, ha, this]
    · simp [hl, hlim]
  · simp [hl]

/-- a value outside its limits is reported as the prior-limit exception (a fit exception) … -/
theorem gate_limit_error (ops : Ops V) (t : Node V) (lims asserts) (v : List V)
    (hl : v.length = count t) (h : limitsOk ops lims v = false) :
    gate ops t lims asserts v false = .error .priorLimit := by
  simp [gate, hl, h]

/-- … and a failed assertion as the fit exception; nothing else can be raised by the gate. -/
theorem gate_assertion_error (ops : Ops V) (t : Node V) (lims) (asserts : List (Asrt V)) (v : List V)
    (hl : v.length = count t) (h : limitsOk ops lims v = true) (a : Asrt V) (ha : a ∈ asserts)
    (hf : evalA ops (valOf (argsOfVector t v)) a = false) :
    gate ops t lims asserts v false = .error .fit := by
  have : asserts.all (evalA ops (valOf (argsOfVector t v))) = false := by
    rw [Bool.eq_false_iff]
    intro hall
    have := List.all_eq_true.mp hall a ha
    simp [hf] at this
  simp [gate, hl, h, this]

/-- When the caller asks to ignore limits and assertions an instance is always produced. -/
theorem gate_ignore (ops : Ops V) (t : Node V) (lims asserts) (v : List V) (hl : v.length = count t) :
    gate ops t lims asserts v true = .ok (instFromVector ops t v) := by
  simp [gate, hl]

/-- The verdict of a comparison *is* the inequality on the numbers its operands evaluate to
(operands: parameters, constants, arithmetic expressions at any nesting — `operandVal` is C01's
`instW`, so shared parameters are consistent by construction). -/
theorem evalA_cmp (ops : Ops V) (ρ : Nat → Inst V) (strict : Bool) (l g : Node V) (a b : V)
    (hl : operandVal ops ρ l = some a) (hg : operandVal ops ρ g = some b) :
    evalA ops ρ (.cmp strict l g) = (if strict then ops.lt a b else ops.le a b) := by
  simp [evalA, hl, hg]

theorem evalA_and (ops : Ops V) (ρ : Nat → Inst V) (x y : Asrt V) :
    evalA ops ρ (.and x y) = (evalA ops ρ x && evalA ops ρ y) := rfl

theorem evalA_lit (ops : Ops V) (ρ : Nat → Inst V) (b : Bool) : evalA ops ρ (.lit b) = b := rfl

/-- **Chained comparisons**, same direction: `(x op₁ y) op₂ z` denotes `x op₁ y ∧ y op₂ z`. -/
theorem chain_same_direction (ops : Ops V) (ρ : Nat → Inst V) (x y z : Node V) (op₁ op₂ : CmpOp)
    (h : op₁.ascending = op₂.ascending) :
    evalA ops ρ (chainCmp (buildCmp x op₁ y) op₂ z) =
      (evalA ops ρ (buildCmp x op₁ y) && evalA ops ρ (buildCmp y op₂ z)) := by
  cases h₁ : op₁.ascending <;> cases h₂ : op₂.ascending <;> simp_all [chainCmp, buildCmp, evalA]

/-- What the code does for a chain that changes direction — recorded as it is: `(x < y) > z`
continues from `x`, not from `y` (reflected comparisons make the last operand ambiguous, the
library supports monotone chains only; the generator produces monotone chains). -/
theorem chain_mixed_direction (ops : Ops V) (ρ : Nat → Inst V) (x y z : Node V) (op₁ op₂ : CmpOp)
    (h : op₁.ascending ≠ op₂.ascending) :
    evalA ops ρ (chainCmp (buildCmp x op₁ y) op₂ z) =
      (evalA ops ρ (buildCmp x op₁ y) && evalA ops ρ (buildCmp x op₂ z)) := by
  cases h₁ : op₁.ascending <;> cases h₂ : op₂.ascending <;> simp_all [chainCmp, buildCmp, evalA]

/-! ## non-vacuity -/

def natOps : Ops Nat where
  bin := fun _ a b => a + b
  un := fun _ a => a
  nameLe := fun a b => decide (a ≤ b)
  lt := fun a b => decide (a < b)
  le := fun a b => decide (a ≤ b)

def t₀ : Node Nat := .coll [("g", .model "P2" ["a", "b"] [("a", .prior 5), ("b", .prior 2)])]
/-- `b + b < a`, chained `… <= 40` -/
def a₀ : Asrt Nat :=
  chainCmp (buildCmp (.arith .add [] (.prior 2) (.prior 2)) .lt (.prior 5)) .le (.const 40)

example : gate natOps t₀ [(0, 10), (0, 50)] [a₀] [3, 7] false = .ok (instFromVector natOps t₀ [3, 7]) := by rfl
example : gate natOps t₀ [(0, 10), (0, 50)] [a₀] [3, 6] false = .error .fit := by rfl
example : gate natOps t₀ [(0, 10), (0, 50)] [a₀] [11, 30] false = .error .priorLimit := by rfl
example : gate natOps t₀ [(0, 10), (0, 50)] [a₀] [11, 3] true = .ok (instFromVector natOps t₀ [11, 3]) := by rfl
example : gate natOps t₀ [(0, 10), (0, 50)] [a₀] [3] false = .error .length := by rfl

/-! tests on IEEE doubles (compiler-evaluated): NaN is never inside limits; limits are inclusive -/
#guard within floatOps (0.0, 1.0) (0.0 / 0.0) == false
#guard within floatOps (0.0, 1.0) 1.0 && within floatOps (0.0, 1.0) 0.0

/-! ## NaN: an unordered value never passes the gate

The only facts about IEEE doubles used: every `<=` / `<` with a NaN operand is false. For *any* value
type with an element `nan` obeying these two laws (for `Float`: `floatOps` and `0.0 / 0.0`, the law
itself being IEEE 754, tested by the `#guard`s above and exercised by generated NaN vectors), a vector
holding `nan` at any position is rejected with the prior-limit exception, and a comparison assertion
with a `nan` operand is false. -/

/-- `le`/`lt` treat `nan` as unordered -/
structure NanLaw (ops : Ops V) (nan : V) : Prop where
  le_left : ∀ x, ops.le nan x = false
  le_right : ∀ x, ops.le x nan = false
  lt_left : ∀ x, ops.lt nan x = false
  lt_right : ∀ x, ops.lt x nan = false

theorem within_nan (ops : Ops V) (nan : V) (h : NanLaw ops nan) (l : V × V) : within ops l nan = false := by
  simp [within, h.le_left, h.le_right]

theorem limitsOk_nan (ops : Ops V) (nan : V) (h : NanLaw ops nan) : ∀ (lims : List (V × V)) (v : List V),
    lims.length = v.length → nan ∈ v → limitsOk ops lims v = false
  | [], [], _, hm => by simp at hm
  | [], _ :: _, hl, _ => by simp at hl
  | _ :: _, [], hl, _ => by simp at hl
  | l :: ls, x :: xs, hl, hm => by
    simp only [limitsOk]
    rcases List.mem_cons.mp hm with rfl | hm
    · simp [within_nan ops _ h]
    · simp [limitsOk_nan ops nan h ls xs (by simpa using hl) hm]

/-- **a vector holding NaN anywhere is rejected** (with the prior-limit exception, before any
assertion is looked at) unless the caller asked to ignore limits -/
theorem gate_rejects_nan (ops : Ops V) (nan : V) (h : NanLaw ops nan) (t : Node V) (lims : List (V × V))
    (asserts : List (Asrt V)) (v : List V) (hl : v.length = count t) (hlim : lims.length = v.length)
    (hm : nan ∈ v) : gate ops t lims asserts v false = .error .priorLimit :=
  gate_limit_error ops t lims asserts v hl (limitsOk_nan ops nan h lims v hlim hm)

/-- a comparison one of whose operands evaluates to NaN is false (so the fit exception is raised when
limits are wide enough to let the NaN arise from arithmetic on in-limit values) -/
theorem evalA_nan_operand (ops : Ops V) (nan : V) (h : NanLaw ops nan) (ρ : Nat → Inst V) (strict : Bool)
    (l g : Node V) (hn : operandVal ops ρ l = some nan ∨ operandVal ops ρ g = some nan) :
    evalA ops ρ (.cmp strict l g) = false := by
  unfold evalA
  rcases hn with hn | hn
  · rw [hn]
    cases hg : operandVal ops ρ g with
    | none => rfl
    | some b => cases strict <;> simp [h.le_left, h.lt_left]
  · rw [hn]
    cases hl : operandVal ops ρ l with
    | none => rfl
    | some a => cases strict <;> simp [h.le_right, h.lt_right]

/-- non-vacuity: numbers with one unordered element -/
def optOps : Ops (Option Nat) where
  bin := fun _ a b => match a, b with | some x, some y => some (x + y) | _, _ => none
  un := fun _ a => a
  nameLe := fun a b => decide (a ≤ b)
  lt := fun a b => match a, b with | some x, some y => decide (x < y) | _, _ => false
  le := fun a b => match a, b with | some x, some y => decide (x ≤ y) | _, _ => false

theorem optOps_nanLaw : NanLaw optOps none :=
  ⟨fun _ => rfl, fun x => by cases x <;> rfl, fun _ => rfl, fun x => by cases x <;> rfl⟩

def tOpt : Node (Option Nat) := .coll [("g", .model "P2" ["a", "b"] [("a", .prior 5), ("b", .prior 2)])]
example : gate optOps tOpt [(some 0, some 10), (some 0, some 50)] [] [some 3, none] false = .error .priorLimit :=
  gate_rejects_nan optOps none optOps_nanLaw tOpt _ [] _ rfl rfl (by simp)
example : gate optOps tOpt [(some 0, some 10), (some 0, some 50)] [] [some 3, some 7] false
    = .ok (instFromVector optOps tOpt [some 3, some 7]) := by rfl

end AF.C03

namespace AF.C03
open AF

variable {V : Type} [Inhabited V]

mutual
theorem checkTree_eq_all (ops : Ops V) (ρ : Nat → Inst V) : ∀ (t : ATree V),
    checkTree ops ρ t = t.flatten.all (evalA ops ρ)
  | .node asserts children => by
      simp only [checkTree, ATree.flatten, List.all_append, checkTrees_eq_all ops ρ children]
theorem checkTrees_eq_all (ops : Ops V) (ρ : Nat → Inst V) : ∀ (ts : List (ATree V)),
    checkTrees ops ρ ts = (flattenTrees ts).all (evalA ops ρ)
  | [] => by simp [checkTrees, flattenTrees]
  | t :: rest => by
      simp only [checkTrees, flattenTrees, List.all_append, checkTree_eq_all ops ρ t,
        checkTrees_eq_all ops ρ rest]
end

/-- **Assertions attached anywhere gate the instance**: the recursive check of
`instance_for_arguments` over the tree of prior-model nodes is exactly the conjunction of *all*
assertions of *all* nodes, at any nesting level — so `gate_ok_iff` applies with
`asserts := tr.flatten`. -/
theorem gateTree_eq_gate (ops : Ops V) (t : Node V) (lims : List (V × V)) (tr : ATree V)
    (v : List V) (ignore : Bool) :
    gateTree ops t lims tr v ignore = gate ops t lims tr.flatten v ignore := by
  simp [gateTree, gate, checkTree_eq_all]

/-- an assertion attached at any depth is in the flattened list (membership through children) -/
theorem mem_flatten_of_child (asserts : List (Asrt V)) (children : List (ATree V)) (c : ATree V)
    (hc : c ∈ children) (a : Asrt V) (ha : a ∈ c.flatten) :
    a ∈ (ATree.node asserts children).flatten := by
  simp only [ATree.flatten, List.mem_append]
  right
  induction children with
  | nil => simp at hc
  | cons x xs ih =>
    simp only [flattenTrees, List.mem_append]
    rcases List.mem_cons.mp hc with rfl | h
    · exact Or.inl ha
    · exact Or.inr (ih h)

example : gateTree natOps t₀ [(0, 10), (0, 50)] (.node [] [.node [a₀] []]) [3, 6] false = .error .fit := by rfl
example : gateTree natOps t₀ [(0, 10), (0, 50)] (.node [] [.node [a₀] []]) [3, 7] false
    = .ok (instFromVector natOps t₀ [3, 7]) := by rfl

end AF.C03
