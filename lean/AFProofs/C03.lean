import AFModel.Gate
import AFModel.FloatOps
import AFModel.GateComp
import AFModel.GateRoute
import AFProofs.Lemmas.GateComp

/-!
# C03 — limits and assertions gate every instance

Theorems about `gate` (`AFModel/Gate.lean`), the model of `instance_from_vector`. The traversal
that collects the assertions of every node is done by the extractor and validated against the
program by the property oracle (`harness/c03.py`); here the quantifier is over *any* list of
assertions, any composition, any vector, any value type with comparisons `lt`/`le`.
-/

namespace AF.C03
open AF

variable {V : Type} [Inhabited V]
set_option linter.unusedSectionVars false

/-- limits are checked position by position -/
theorem limitsOk_cons (ops : Ops V) (l : V × V) (ls : List (V × V)) (x : V) (xs : List V) :
    limitsOk ops (l :: ls) (x :: xs) = (within ops l x && limitsOk ops ls xs) := rfl

theorem limitsOk_iff (ops : Ops V) : ∀ (lims : List (V × V)) (v : List V), lims.length = v.length →
    (limitsOk ops lims v = true ↔
      ∀ (i : Nat) (h₁ : i < lims.length) (h₂ : i < v.length), within ops lims[i] v[i] = true)
  | [], [], _ => by simp [limitsOk]
  | [], _ :: _, h => by simp at h
  | _ :: _, [], h => by simp at h
  | l :: ls, x :: xs, h => by
    have ih := limitsOk_iff ops ls xs (by simpa using h)
    simp only [limitsOk, Bool.and_eq_true, ih]
    constructor
    · rintro ⟨h0, hr⟩ i h₁ h₂
      cases i with
      | zero => exact h0
      | succ j => exact hr j (Nat.lt_of_succ_lt_succ h₁) (Nat.lt_of_succ_lt_succ h₂)
    · intro hall
      refine ⟨hall 0 (Nat.zero_lt_succ _) (Nat.zero_lt_succ _), ?_⟩
      intro i h₁ h₂
      exact hall (i + 1) (Nat.succ_lt_succ h₁) (Nat.succ_lt_succ h₂)

/-- **Gate.** An instance is produced for a vector iff the length is right, every value lies
inside its prior's limits and every assertion is true of the values — and then it is the instance
of C01. -/
theorem gate_ok_iff (ops : Ops V) (t : Node V) (lims : List (V × V)) (asserts : List (Asrt V))
    (v : List V) (i : Inst V) :
    gate ops t lims asserts v false = .ok i ↔
      v.length = count t ∧ limitsOk ops lims v = true ∧
      (∀ a ∈ asserts, evalA ops (valOf (argsOfVector t v)) a = true) ∧
      i = instFromVector ops t v := by
  unfold gate
  by_cases hl : v.length = count t
  · by_cases hlim : limitsOk ops lims v = true
    · by_cases ha : asserts.all (evalA ops (valOf (argsOfVector t v))) = true
      · simp only [hl, hlim, ha, ne_eq, not_true_eq_false, if_false, Bool.not_false, Bool.not_true,
          Bool.and_false, Bool.false_eq_true, Except.ok.injEq, true_and]
        constructor
        · intro h; exact ⟨List.all_eq_true.mp ha, h.symm⟩
        · intro h; exact h.2.symm
      · have : ¬ (∀ a ∈ asserts, evalA ops (valOf (argsOfVector t v)) a = true) :=
          fun h => ha (List.all_eq_true.mpr h)
        simp [hl, hlim, ha, this]
    · simp [hl, hlim]
  · simp [hl]

/-- a value outside its limits is reported as the prior-limit exception (a fit exception) … -/
theorem gate_limit_error (ops : Ops V) (t : Node V) (lims asserts) (v : List V)
    (hl : v.length = count t) (h : limitsOk ops lims v = false) :
    gate ops t lims asserts v false = .error .priorLimit := by
  simp [gate, hl, h]

/-- … and a failed assertion as the fit exception; nothing else can be raised by the gate. -/
theorem gate_assertion_error (ops : Ops V) (t : Node V) (lims) (asserts : List (Asrt V)) (v : List V)
    (hl : v.length = count t) (h : limitsOk ops lims v = true) (a : Asrt V) (ha : a ∈ asserts)
    (hf : evalA ops (valOf (argsOfVector t v)) a = false) :
    gate ops t lims asserts v false = .error .fit := by
  have : asserts.all (evalA ops (valOf (argsOfVector t v))) = false := by
    rw [Bool.eq_false_iff]
    intro hall
    have := List.all_eq_true.mp hall a ha
    simp [hf] at this
  simp [gate, hl, h, this]

/-- When the caller asks to ignore limits and assertions an instance is always produced. -/
theorem gate_ignore (ops : Ops V) (t : Node V) (lims asserts) (v : List V) (hl : v.length = count t) :
    gate ops t lims asserts v true = .ok (instFromVector ops t v) := by
  simp [gate, hl]

/-- The verdict of a comparison *is* the inequality on the numbers its operands evaluate to
(operands: parameters, constants, arithmetic expressions at any nesting — `operandVal` is C01's
`instW`, so shared parameters are consistent by construction). -/
theorem evalA_cmp (ops : Ops V) (ρ : Nat → Inst V) (strict : Bool) (l g : Node V) (a b : V)
    (hl : operandVal ops ρ l = some a) (hg : operandVal ops ρ g = some b) :
    evalA ops ρ (.cmp strict l g) = (if strict then ops.lt a b else ops.le a b) := by
  simp [evalA, hl, hg]

theorem evalA_and (ops : Ops V) (ρ : Nat → Inst V) (x y : Asrt V) :
    evalA ops ρ (.and x y) = (evalA ops ρ x && evalA ops ρ y) := rfl

theorem evalA_lit (ops : Ops V) (ρ : Nat → Inst V) (b : Bool) : evalA ops ρ (.lit b) = b := rfl

/-- **Chained comparisons**, same direction: `(x op₁ y) op₂ z` denotes `x op₁ y ∧ y op₂ z`. -/
theorem chain_same_direction (ops : Ops V) (ρ : Nat → Inst V) (x y z : Node V) (op₁ op₂ : CmpOp)
    (h : op₁.ascending = op₂.ascending) :
    evalA ops ρ (chainCmp (buildCmp x op₁ y) op₂ z) =
      (evalA ops ρ (buildCmp x op₁ y) && evalA ops ρ (buildCmp y op₂ z)) := by
  cases h₁ : op₁.ascending <;> cases h₂ : op₂.ascending <;> simp_all [chainCmp, buildCmp, evalA]

/-- What the code does for a chain that changes direction — recorded as it is: `(x < y) > z`
continues from `x`, not from `y` (reflected comparisons make the last operand ambiguous, the
library supports monotone chains only; the generator produces monotone chains). -/
theorem chain_mixed_direction (ops : Ops V) (ρ : Nat → Inst V) (x y z : Node V) (op₁ op₂ : CmpOp)
    (h : op₁.ascending ≠ op₂.ascending) :
    evalA ops ρ (chainCmp (buildCmp x op₁ y) op₂ z) =
      (evalA ops ρ (buildCmp x op₁ y) && evalA ops ρ (buildCmp x op₂ z)) := by
  cases h₁ : op₁.ascending <;> cases h₂ : op₂.ascending <;> simp_all [chainCmp, buildCmp, evalA]

/-! ## non-vacuity -/

def natOps : Ops Nat where
  bin := fun _ a b => a + b
  un := fun _ a => a
  nameLe := fun a b => decide (a ≤ b)
  lt := fun a b => decide (a < b)
  le := fun a b => decide (a ≤ b)

def t₀ : Node Nat := .coll [("g", .model "P2" ["a", "b"] [("a", .prior 5), ("b", .prior 2)])]
/-- `b + b < a`, chained `… <= 40` -/
def a₀ : Asrt Nat :=
  chainCmp (buildCmp (.arith .add [] (.prior 2) (.prior 2)) .lt (.prior 5)) .le (.const 40)

example : gate natOps t₀ [(0, 10), (0, 50)] [a₀] [3, 7] false = .ok (instFromVector natOps t₀ [3, 7]) := by rfl
example : gate natOps t₀ [(0, 10), (0, 50)] [a₀] [3, 6] false = .error .fit := by rfl
example : gate natOps t₀ [(0, 10), (0, 50)] [a₀] [11, 30] false = .error .priorLimit := by rfl
example : gate natOps t₀ [(0, 10), (0, 50)] [a₀] [11, 3] true = .ok (instFromVector natOps t₀ [11, 3]) := by rfl
example : gate natOps t₀ [(0, 10), (0, 50)] [a₀] [3] false = .error .length := by rfl

/-! tests on IEEE doubles (compiler-evaluated): NaN is never inside limits; limits are inclusive -/
#guard within floatOps (0.0, 1.0) (0.0 / 0.0) == false
#guard within floatOps (0.0, 1.0) 1.0 && within floatOps (0.0, 1.0) 0.0

/-! ## NaN: an unordered value never passes the gate

The only facts about IEEE doubles used: every `<=` / `<` with a NaN operand is false. For *any* value
type with an element `nan` obeying these two laws (for `Float`: `floatOps` and `0.0 / 0.0`, the law
itself being IEEE 754, tested by the `#guard`s above and exercised by generated NaN vectors), a vector
holding `nan` at any position is rejected with the prior-limit exception, and a comparison assertion
with a `nan` operand is false. -/

/-- `le`/`lt` treat `nan` as unordered -/
structure NanLaw (ops : Ops V) (nan : V) : Prop where
  le_left : ∀ x, ops.le nan x = false
  le_right : ∀ x, ops.le x nan = false
  lt_left : ∀ x, ops.lt nan x = false
  lt_right : ∀ x, ops.lt x nan = false

theorem within_nan (ops : Ops V) (nan : V) (h : NanLaw ops nan) (l : V × V) : within ops l nan = false := by
  simp [within, h.le_left, h.le_right]

theorem limitsOk_nan (ops : Ops V) (nan : V) (h : NanLaw ops nan) : ∀ (lims : List (V × V)) (v : List V),
    lims.length = v.length → nan ∈ v → limitsOk ops lims v = false
  | [], [], _, hm => by simp at hm
  | [], _ :: _, hl, _ => by simp at hl
  | _ :: _, [], hl, _ => by simp at hl
  | l :: ls, x :: xs, hl, hm => by
    simp only [limitsOk]
    rcases List.mem_cons.mp hm with rfl | hm
    · simp [within_nan ops _ h]
    · simp [limitsOk_nan ops nan h ls xs (by simpa using hl) hm]

/-- **a vector holding NaN anywhere is rejected** (with the prior-limit exception, before any
assertion is looked at) unless the caller asked to ignore limits -/
theorem gate_rejects_nan (ops : Ops V) (nan : V) (h : NanLaw ops nan) (t : Node V) (lims : List (V × V))
    (asserts : List (Asrt V)) (v : List V) (hl : v.length = count t) (hlim : lims.length = v.length)
    (hm : nan ∈ v) : gate ops t lims asserts v false = .error .priorLimit :=
  gate_limit_error ops t lims asserts v hl (limitsOk_nan ops nan h lims v hlim hm)

/-- a comparison one of whose operands evaluates to NaN is false (so the fit exception is raised when
limits are wide enough to let the NaN arise from arithmetic on in-limit values) -/
theorem evalA_nan_operand (ops : Ops V) (nan : V) (h : NanLaw ops nan) (ρ : Nat → Inst V) (strict : Bool)
    (l g : Node V) (hn : operandVal ops ρ l = some nan ∨ operandVal ops ρ g = some nan) :
    evalA ops ρ (.cmp strict l g) = false := by
  unfold evalA
  rcases hn with hn | hn
  · rw [hn]
    cases hg : operandVal ops ρ g with
    | none => rfl
    | some b => cases strict <;> simp [h.le_left, h.lt_left]
  · rw [hn]
    cases hl : operandVal ops ρ l with
    | none => rfl
    | some a => cases strict <;> simp [h.le_right, h.lt_right]

/-- non-vacuity: numbers with one unordered element -/
def optOps : Ops (Option Nat) where
  bin := fun _ a b => match a, b with | some x, some y => some (x + y) | _, _ => none
  un := fun _ a => a
  nameLe := fun a b => decide (a ≤ b)
  lt := fun a b => match a, b with | some x, some y => decide (x < y) | _, _ => false
  le := fun a b => match a, b with | some x, some y => decide (x ≤ y) | _, _ => false

theorem optOps_nanLaw : NanLaw optOps none :=
  ⟨fun _ => rfl, fun x => by cases x <;> rfl, fun _ => rfl, fun x => by cases x <;> rfl⟩

def tOpt : Node (Option Nat) := .coll [("g", .model "P2" ["a", "b"] [("a", .prior 5), ("b", .prior 2)])]
example : gate optOps tOpt [(some 0, some 10), (some 0, some 50)] [] [some 3, none] false = .error .priorLimit :=
  gate_rejects_nan optOps none optOps_nanLaw tOpt _ [] _ rfl rfl (by simp)
example : gate optOps tOpt [(some 0, some 10), (some 0, some 50)] [] [some 3, some 7] false
    = .ok (instFromVector optOps tOpt [some 3, some 7]) := by rfl

end AF.C03

namespace AF.C03
open AF

variable {V : Type} [Inhabited V]

mutual
theorem checkTree_eq_all (ops : Ops V) (ρ : Nat → Inst V) : ∀ (t : ATree V),
    checkTree ops ρ t = t.flatten.all (evalA ops ρ)
  | .node asserts children => by
      simp only [checkTree, ATree.flatten, List.all_append, checkTrees_eq_all ops ρ children]
theorem checkTrees_eq_all (ops : Ops V) (ρ : Nat → Inst V) : ∀ (ts : List (ATree V)),
    checkTrees ops ρ ts = (flattenTrees ts).all (evalA ops ρ)
  | [] => by simp [checkTrees, flattenTrees]
  | t :: rest => by
      simp only [checkTrees, flattenTrees, List.all_append, checkTree_eq_all ops ρ t,
        checkTrees_eq_all ops ρ rest]
end

/-- **Assertions attached anywhere gate the instance**: the recursive check of
`instance_for_arguments` over the tree of prior-model nodes is exactly the conjunction of *all*
assertions of *all* nodes, at any nesting level — so `gate_ok_iff` applies with
`asserts := tr.flatten`. -/
theorem gateTree_eq_gate (ops : Ops V) (t : Node V) (lims : List (V × V)) (tr : ATree V)
    (v : List V) (ignore : Bool) :
    gateTree ops t lims tr v ignore = gate ops t lims tr.flatten v ignore := by
  simp [gateTree, gate, checkTree_eq_all]

/-- an assertion attached at any depth is in the flattened list (membership through children) -/
theorem mem_flatten_of_child (asserts : List (Asrt V)) (children : List (ATree V)) (c : ATree V)
    (hc : c ∈ children) (a : Asrt V) (ha : a ∈ c.flatten) :
    a ∈ (ATree.node asserts children).flatten := by
  simp only [ATree.flatten, List.mem_append]
  right
  induction children with
  | nil => simp at hc
  | cons x xs ih =>
    simp only [flattenTrees, List.mem_append]
    rcases List.mem_cons.mp hc with rfl | h
    · exact Or.inl ha
    · exact Or.inr (ih h)

example : gateTree natOps t₀ [(0, 10), (0, 50)] (.node [] [.node [a₀] []]) [3, 6] false = .error .fit := by rfl
example : gateTree natOps t₀ [(0, 10), (0, 50)] (.node [] [.node [a₀] []]) [3, 7] false
    = .ok (instFromVector natOps t₀ [3, 7]) := by rfl

end AF.C03

/-! ## the gate computed from the composition (`AFModel/GateComp.lean`)

`ANode` carries the assertions where `add_assertion` put them; `ANode.trees` is the recursion of
`instance_for_arguments`; `Reach c d` says that building `c` calls `instance_for_arguments` on `d`.
The theorems below are by induction over the composition: no reachable node's assertion is skipped,
all are evaluated under the one binding `valOf (argsOfVector c.erase v)`. -/

namespace AF.C03
open AF

variable {V : Type} [Inhabited V]
set_option linter.unusedSectionVars false

/-- the assertions the recursion evaluates are exactly those attached to a node reachable from the
root, at any depth, through model attributes, collection items, array entries and the operands of
compound / modified priors -/
theorem trees_flatten_iff (c : ANode V) (a : Asrt V) :
    a ∈ (ATree.node [] c.trees).flatten ↔ ∃ d, Reach c d ∧ a ∈ d.asserts := by
  simp only [ATree.flatten, List.nil_append]
  exact mem_trees_iff c a

theorem gateComp_eq_gate (ops : Ops V) (c : ANode V) (lims : List (V × V)) (v : List V) (ignore : Bool) :
    gateComp ops c lims v ignore = gate ops c.erase lims (ATree.node [] c.trees).flatten v ignore :=
  gateTree_eq_gate ops c.erase lims _ v ignore

/-- **Gate, computed from the model.** An instance is produced iff the length is right, every value
lies inside its prior's limits and EVERY assertion attached at ANY node the instantiation reaches is
true of the values; it is then the instance of C01 for the composition without its assertions. -/
theorem gateComp_ok_iff (ops : Ops V) (c : ANode V) (lims : List (V × V)) (v : List V) (i : Inst V) :
    gateComp ops c lims v false = .ok i ↔
      v.length = count c.erase ∧ limitsOk ops lims v = true ∧
      (∀ d, Reach c d → ∀ a ∈ d.asserts, evalA ops (valOf (argsOfVector c.erase v)) a = true) ∧
      i = instFromVector ops c.erase v := by
  rw [gateComp_eq_gate, gate_ok_iff]
  constructor
  · rintro ⟨h1, h2, h3, h4⟩
    exact ⟨h1, h2, fun d hr a ha => h3 a ((trees_flatten_iff c a).mpr ⟨d, hr, ha⟩), h4⟩
  · rintro ⟨h1, h2, h3, h4⟩
    refine ⟨h1, h2, fun a ha => ?_, h4⟩
    obtain ⟨d, hr, had⟩ := (trees_flatten_iff c a).mp ha
    exact h3 d hr a had

/-- one false assertion at one reachable node is enough for the fit exception -/
theorem gateComp_assertion_error (ops : Ops V) (c d : ANode V) (lims : List (V × V)) (v : List V)
    (hl : v.length = count c.erase) (h : limitsOk ops lims v = true) (hr : Reach c d) (a : Asrt V)
    (ha : a ∈ d.asserts) (hf : evalA ops (valOf (argsOfVector c.erase v)) a = false) :
    gateComp ops c lims v false = .error .fit := by
  rw [gateComp_eq_gate]
  exact gate_assertion_error ops c.erase lims _ v hl h a ((trees_flatten_iff c a).mpr ⟨d, hr, ha⟩) hf

theorem gateComp_limit_error (ops : Ops V) (c : ANode V) (lims : List (V × V)) (v : List V)
    (hl : v.length = count c.erase) (h : limitsOk ops lims v = false) :
    gateComp ops c lims v false = .error .priorLimit := by
  rw [gateComp_eq_gate]; exact gate_limit_error ops c.erase lims _ v hl h

theorem gateComp_ignore (ops : Ops V) (c : ANode V) (lims : List (V × V)) (v : List V)
    (hl : v.length = count c.erase) :
    gateComp ops c lims v true = .ok (instFromVector ops c.erase v) := by
  rw [gateComp_eq_gate]; exact gate_ignore ops c.erase lims _ v hl

/-- a component that is reachable twice is checked twice — under the same binding, so the second
check cannot decide differently -/
theorem check_twice_same (ops : Ops V) (ρ : Nat → Inst V) (c : ANode V) :
    checkTrees ops ρ (c.trees ++ c.trees) = checkTrees ops ρ c.trees := by
  simp [checkTrees_eq_all, flattenTrees_append, List.all_append]

/-- when an instance is produced `check_assertions` ran at every node of the recursion tree, once per
occurrence, parent before children, and every verdict was true -/
theorem trace_complete_of_ok (ops : Ops V) (c : ANode V) (lims : List (V × V)) (v : List V) (i : Inst V)
    (h : gateComp ops c lims v false = .ok i) :
    gateCompTrace ops c lims v false = fullTraces ops (valOf (argsOfVector c.erase v)) c.trees ∧
    ∀ vs ∈ gateCompTrace ops c lims v false, hasFalse vs = false := by
  have hl : v.length = count c.erase := ((gateComp_ok_iff ops c lims v i).mp h).1
  have hlim : limitsOk ops lims v = true := ((gateComp_ok_iff ops c lims v i).mp h).2.1
  have hc : checkTrees ops (valOf (argsOfVector c.erase v)) c.trees = true := by
    by_cases hc : checkTrees ops (valOf (argsOfVector c.erase v)) c.trees = true
    · exact hc
    · simp [gateComp, gateTree, hl, hlim, checkTree, hc] at h
  have ht : gateCompTrace ops c lims v false = fullTraces ops (valOf (argsOfVector c.erase v)) c.trees := by
    simp [gateCompTrace, hl, hlim, traceTrees_of_check ops _ c.trees hc]
  refine ⟨ht, ?_⟩
  rw [ht]
  exact fullTraces_no_false ops _ c.trees hc

/-- when the fit exception is raised the walk ended at the first node with a failed assertion: every
node visited before it passed, nothing after it was visited -/
theorem trace_ends_at_failure (ops : Ops V) (c : ANode V) (lims : List (V × V)) (v : List V)
    (h : gateComp ops c lims v false = .error .fit) :
    ∃ pre last, gateCompTrace ops c lims v false = pre ++ [last] ∧ hasFalse last = true ∧
      ∀ vs ∈ pre, hasFalse vs = false := by
  by_cases hl : v.length = count c.erase
  · by_cases hlim : limitsOk ops lims v = true
    · have hc : checkTrees ops (valOf (argsOfVector c.erase v)) c.trees = false := by
        cases hc : checkTrees ops (valOf (argsOfVector c.erase v)) c.trees
        · rfl
        · simp [gateComp, gateTree, hl, hlim, checkTree, hc] at h
      have := traceTrees_of_fail ops (valOf (argsOfVector c.erase v)) c.trees hc
      simpa [gateCompTrace, hl, hlim] using this
    · simp [gateComp, gateTree, hl, hlim] at h
  · simp [gateComp, gateTree, hl] at h

/-- ignoring, a wrong length or a value outside its limits: no assertion is looked at -/
theorem trace_empty_when_not_checked (ops : Ops V) (c : ANode V) (lims : List (V × V)) (v : List V) :
    gateCompTrace ops c lims v true = [] ∧
    (limitsOk ops lims v = false → gateCompTrace ops c lims v false = []) := by
  constructor
  · simp [gateCompTrace]
  · intro h; simp [gateCompTrace, h]

/-! non-vacuity: a collection holding a model with an assertion of its own, an assertion on the
collection, and the same model a second time -/
def m₁ : ANode Nat :=
  .model "P2" ["a", "b"] [buildCmp (.prior 2) .lt (.prior 5)] [("a", .leaf (.prior 5)), ("b", .leaf (.prior 2))]
def c₁ : ANode Nat := .coll [buildCmp (.prior 5) .le (.const 9)] [("g", m₁), ("h", m₁), ("k", .leaf (.const 4))]

example : gateComp natOps c₁ [(0, 10), (0, 50)] [3, 7] false = .ok (instFromVector natOps c₁.erase [3, 7]) := by rfl
example : gateComp natOps c₁ [(0, 10), (0, 50)] [7, 3] false = .error .fit := by rfl
example : gateComp natOps c₁ [(0, 10), (0, 50)] [4, 10] false = .error .fit := by rfl
example : gateComp natOps c₁ [(0, 10), (0, 50)] [11, 30] false = .error .priorLimit := by rfl
example : gateComp natOps c₁ [(0, 10), (0, 50)] [7, 3] true = .ok (instFromVector natOps c₁.erase [7, 3]) := by rfl
example : gateCompTrace natOps c₁ [(0, 10), (0, 50)] [3, 7] false = [[true], [true], [true]] := by rfl
example : gateCompTrace natOps c₁ [(0, 10), (0, 50)] [7, 3] false = [[true], [false]] := by rfl
example : gateCompTrace natOps c₁ [(0, 10), (0, 50)] [4, 10] false = [[false]] := by rfl
example : Reach c₁ m₁ := Reach.step (by simp [c₁, ANode.kids]) (Reach.refl _)

end AF.C03

/-! ## routes and flags (`AFModel/GateRoute.lean`) -/

namespace AF.C03
open AF

variable {V : Type} [Inhabited V]
set_option linter.unusedSectionVars false

theorem checkTrees_single (ops : Ops V) (ρ : Nat → Inst V) (ts : List (ATree V)) :
    checkTree ops ρ (.node [] ts) = checkTrees ops ρ ts := by
  simp [checkTree]

/-- the routes that check limits and the root (`instance_from_vector`, `instance_from_unit_vector`,
`instance_from_prior_medians`, `random_instance`) are the gate of `gateComp_ok_iff` on the physical
values -/
theorem route_eq_gateComp (ops : Ops V) (r : Route) (c : ANode V) (lims : List (V × V)) (v : List V)
    (ignore : Bool) (hr : r.checksRoot = true) (hl : r.checksLimits ignore = !ignore) :
    gateRoute ops r c lims v ignore = gateComp ops c lims v ignore := by
  simp only [gateRoute, gateComp, gateTree, hr, hl, if_true, checkTrees_single]

theorem route_vector (ops : Ops V) (c : ANode V) (lims : List (V × V)) (v : List V) (ignore : Bool) :
    gateRoute ops .vector c lims v ignore = gateComp ops c lims v ignore :=
  route_eq_gateComp ops .vector c lims v ignore rfl rfl

theorem route_unit_vector (ops : Ops V) (c : ANode V) (lims : List (V × V)) (v : List V) (ignore : Bool) :
    gateRoute ops .unitVector c lims v ignore = gateComp ops c lims v ignore :=
  route_eq_gateComp ops .unitVector c lims v ignore rfl rfl

theorem route_medians (ops : Ops V) (c : ANode V) (lims : List (V × V)) (v : List V) (ignore : Bool) :
    gateRoute ops .medians c lims v ignore = gateComp ops c lims v ignore :=
  route_eq_gateComp ops .medians c lims v ignore rfl rfl

theorem route_random (ops : Ops V) (c : ANode V) (lims : List (V × V)) (v : List V) (ignore : Bool) :
    gateRoute ops .random c lims v ignore = gateComp ops c lims v ignore :=
  route_eq_gateComp ops .random c lims v ignore rfl rfl

/-- `instance_for_arguments` never looks at the limits: it is the gate with no limits at all -/
theorem route_arguments (ops : Ops V) (c : ANode V) (lims : List (V × V)) (v : List V) (ignore : Bool) :
    gateRoute ops .arguments c lims v ignore = gateComp ops c [] v ignore := by
  simp [gateRoute, gateComp, gateTree, Route.checksLimits, Route.checksRoot, limitsOk, checkTrees_single]

/-- so an instance comes out of `instance_for_arguments` iff every assertion of every reachable node
holds (whatever the limits) -/
theorem route_arguments_ok_iff (ops : Ops V) (c : ANode V) (lims : List (V × V)) (v : List V) (i : Inst V) :
    gateRoute ops .arguments c lims v false = .ok i ↔
      v.length = count c.erase ∧
      (∀ d, Reach c d → ∀ a ∈ d.asserts, evalA ops (valOf (argsOfVector c.erase v)) a = true) ∧
      i = instFromVector ops c.erase v := by
  rw [route_arguments, gateComp_ok_iff]
  simp [limitsOk]

/-- **Ignoring always yields an instance, on every route** (`ignore_prior_limits=True` of the vector,
unit-vector, medians and random routes; `ignore_assertions=True` of the argument routes). -/
theorem route_ignore (ops : Ops V) (r : Route) (c : ANode V) (lims : List (V × V)) (v : List V)
    (hl : v.length = count c.erase) :
    gateRoute ops r c lims v true = .ok (instFromVector ops c.erase v) := by
  cases r <;> simp [gateRoute, hl, Route.checksLimits]

theorem rootless_of_no_root_asserts (c : ANode V) (h : c.asserts = []) : rootless c.trees = c.trees := by
  cases c <;> simp_all [ANode.trees, ANode.asserts, rootless]

/-- `instance_from_path_arguments` / `instance_from_prior_name_arguments` call
`_instance_for_arguments` on the root directly. PARTIAL: they gate like `instance_for_arguments` only
under the guard that no assertion is attached to the root itself … -/
theorem route_path_partial (ops : Ops V) (c : ANode V) (lims : List (V × V)) (v : List V) (ignore : Bool)
    (guard : c.asserts = []) :
    gateRoute ops .pathArguments c lims v ignore = gateRoute ops .arguments c lims v ignore := by
  simp [gateRoute, Route.checksLimits, Route.checksRoot, rootless_of_no_root_asserts c guard]

/-- … assertions below the root are enforced on that route too … -/
theorem route_path_below_root (ops : Ops V) (c k d : ANode V) (lims : List (V × V)) (v : List V)
    (hl : v.length = count c.erase) (hk : k ∈ c.kids) (hr : Reach k d) (a : Asrt V) (ha : a ∈ d.asserts)
    (hf : evalA ops (valOf (argsOfVector c.erase v)) a = false) :
    gateRoute ops .pathArguments c lims v false = .error .fit := by
  have hmem : a ∈ flattenTrees k.trees := (mem_trees_iff k a).mpr ⟨d, hr, ha⟩
  have hall : ∀ ts : List (ATree V), a ∈ flattenTrees ts →
      checkTrees ops (valOf (argsOfVector c.erase v)) ts = false := by
    intro ts hts
    rw [checkTrees_eq_all, Bool.eq_false_iff]
    intro hall
    have := List.all_eq_true.mp hall a hts
    simp [hf] at this
  have hkids : ∀ (attrs : List (String × ANode V)), k ∈ attrs.map (·.2) → a ∈ flattenTrees (attrTrees attrs) :=
    fun attrs hk' => (mem_attrTrees_iff attrs a).mpr ⟨k, hk', d, hr, ha⟩
  have : checkTrees ops (valOf (argsOfVector c.erase v)) (rootless c.trees) = false := by
    apply hall
    cases c with
    | leaf n => simp [ANode.kids] at hk
    | model cls ctor as attrs => simpa [ANode.trees, rootless, flattenTrees, ATree.flatten] using hkids attrs hk
    | coll as attrs => simpa [ANode.trees, rootless, flattenTrees, ATree.flatten] using hkids attrs hk
    | array sh as attrs => simpa [ANode.trees, rootless, flattenTrees, ATree.flatten] using hkids attrs hk
    | arith op as attrs l r =>
        simp only [ANode.kids, List.mem_cons, List.not_mem_nil, or_false] at hk
        simp only [ANode.trees, rootless, flattenTrees, ATree.flatten, List.nil_append, List.append_nil,
          flattenTrees_append, List.mem_append]
        rcases hk with rfl | rfl
        · exact Or.inl hmem
        · exact Or.inr hmem
    | modif op as attrs x =>
        simp only [ANode.kids, List.mem_cons, List.not_mem_nil, or_false] at hk
        subst hk
        simpa [ANode.trees, rootless, flattenTrees, ATree.flatten] using hmem
  simp [gateRoute, hl, Route.checksLimits, Route.checksRoot, this]

/-- … and the unguarded statement is REFUTED: a model whose only assertion sits on the root yields an
instance on the path route for values that violate it (known finding `C03-path-route-root-assertions`). -/
theorem route_path_refuted :
    ∃ (c : ANode Nat) (v : List Nat) (a : Asrt Nat), a ∈ c.asserts ∧
      evalA natOps (valOf (argsOfVector c.erase v)) a = false ∧
      gateRoute natOps .pathArguments c [] v false = .ok (instFromVector natOps c.erase v) ∧
      gateRoute natOps .arguments c [] v false = .error .fit :=
  ⟨m₁, [7, 3], buildCmp (.prior 2) .lt (.prior 5), by simp [m₁, ANode.asserts], by rfl, by rfl, by rfl⟩

example : gateRoute natOps .unitVector c₁ [(0, 10), (0, 50)] [11, 30] false = .error .priorLimit := by rfl
example : gateRoute natOps .arguments c₁ [(0, 1), (0, 1)] [3, 7] false = .ok (instFromVector natOps c₁.erase [3, 7]) := by rfl
example : gateRoute natOps .vector c₁ [(0, 1), (0, 1)] [3, 7] false = .error .priorLimit := by rfl
example : gateRoute natOps .pathArguments c₁ [(0, 10), (0, 50)] [7, 3] false = .error .fit := by rfl
example : gateRoute natOps .pathArguments c₁ [(0, 10), (0, 50)] [4, 10] false = .ok (instFromVector natOps c₁.erase [4, 10]) := by rfl
example : gateRoute natOps .random c₁ [(0, 10), (0, 50)] [70, 3] true = .ok (instFromVector natOps c₁.erase [70, 3]) :=
  route_ignore natOps .random c₁ _ _ rfl

/-! ## comparison operators on objects and Python numbers, reflected operands, two-link chains -/

/-- a comparison involving at least one object builds the same assertion whichever side the number is
on (Python calls the reflected method of the object) -/
theorem cmpOpnd_eq_buildCmp (ops : Ops V) (x y : Opnd V) (op : CmpOp) (h : x.isObj = true ∨ y.isObj = true) :
    cmpOpnd ops x op y = buildCmp x.node op y.node := by
  cases x <;> cases y <;> cases op <;> simp_all [cmpOpnd, buildCmp, Opnd.node, Opnd.isObj, CmpOp.flip,
    CmpOp.ascending, CmpOp.strict]

/-- the verdict of `x op y` is Python's `op` on the two numbers, also for reflected operands and for two
plain numbers -/
theorem evalA_cmpOpnd (ops : Ops V) (ρ : Nat → Inst V) (x y : Opnd V) (op : CmpOp) (a b : V)
    (hx : operandVal ops ρ x.node = some a) (hy : operandVal ops ρ y.node = some b) :
    evalA ops ρ (cmpOpnd ops x op y) = cmpNum ops a op b := by
  cases x <;> cases y <;> cases op <;>
    simp_all [cmpOpnd, buildCmp, Opnd.node, CmpOp.flip, CmpOp.ascending, CmpOp.strict, evalA, cmpNum,
      operandVal, instW]

/-- **two-link chains with any mix of objects and numbers**: `(x op₁ y) op₂ z`, same direction, denotes
`x op₁ y ∧ y op₂ z` (every link involving an object) -/
theorem chainOpnd_same_direction (ops : Ops V) (ρ : Nat → Inst V) (x y z : Opnd V) (op₁ op₂ : CmpOp)
    (h : op₁.ascending = op₂.ascending) (h₁ : x.isObj = true ∨ y.isObj = true) :
    evalA ops ρ (chainOpnd ops x op₁ y op₂ z) =
      (evalA ops ρ (cmpOpnd ops x op₁ y) && evalA ops ρ (cmpOpnd ops y op₂ z)) := by
  have hb := cmpOpnd_eq_buildCmp ops x y op₁ h₁
  unfold chainOpnd
  rw [hb]
  cases h₁' : op₁.ascending <;> cases h₂' : op₂.ascending <;> simp_all [buildCmp, evalA]

/-- **constant on the left of a comparison**: `k op₁ (x op₂ y)`, same direction, denotes
`k op₁ x ∧ x op₂ y` -/
theorem reflOpnd_same_direction (ops : Ops V) (ρ : Nat → Inst V) (k : V) (x y : Opnd V) (op₁ op₂ : CmpOp)
    (h : op₁.ascending = op₂.ascending) (h₁ : x.isObj = true ∨ y.isObj = true) (hx : x.isObj = true) :
    evalA ops ρ (reflOpnd ops k op₁ x op₂ y) =
      (evalA ops ρ (cmpOpnd ops (.num k) op₁ x) && evalA ops ρ (cmpOpnd ops x op₂ y)) := by
  have hb := cmpOpnd_eq_buildCmp ops x y op₂ h₁
  unfold reflOpnd chainOpnd
  rw [hb, Bool.and_comm]
  cases x with
  | num _ => simp [Opnd.isObj] at hx
  | obj n =>
    cases op₁ <;> cases op₂ <;>
      simp_all [buildCmp, evalA, cmpOpnd, CmpOp.flip, CmpOp.ascending, CmpOp.strict, Opnd.node]

example : evalA natOps (valOf [(2, 7), (5, 3)]) (reflOpnd natOps 1 .lt (.obj (.prior 5)) .lt (.obj (.prior 2))) = true := by rfl
example : evalA natOps (valOf [(2, 7), (5, 3)]) (reflOpnd natOps 4 .lt (.obj (.prior 5)) .lt (.obj (.prior 2))) = false := by rfl
example : evalA natOps (valOf [(2, 7), (5, 3)]) (chainOpnd natOps (.num 1) .lt (.obj (.prior 5)) .le (.num 3)) = true := by rfl

end AF.C03
