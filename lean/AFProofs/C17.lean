import AFProofs.Lemmas.Msg
import AFProofs.Lemmas.MsgReal
import AFProofs.Lemmas.MsgGB
import AFProofs.Lemmas.MsgGBReal

/-!
# C17 — messages form a consistent exponential-family algebra

Property theorems about the `Msg` model (`AFModel/Msg.lean`), for every ordered field `K`, every
`sqrt` obeying `SqrtLaw` (`ℝ` with `Real.sqrt` is an instance, see `AFProofs/Lemmas/MsgReal.lean`)
and otherwise arbitrary special functions. The model is tied to /repo by `harness/c17.py`.
-/

set_option linter.unusedSectionVars false

namespace AF.C17
open AF.Msg

variable {K : Type} [Field K] [LinearOrder K] [IsStrictOrderedRing K]

/-! ## multiplying, dividing, raising to a power: additive / linear on natural parameters -/

/-- `a * b`: natural parameters add (plain or transformed operands), provided the sum lies in the
natural-parameter domain of the left operand's class (`η₂ < 0` for `NormalMessage`; no condition for
NaturalNormal, Gamma, Beta). -/
theorem mul_natural {fn : Fn K} (hs : SqrtLaw fn) (a b : M K) (hf : a.base.fam ≠ .fixed)
    (hd : InDomain a.base.fam (a.natural.1 + b.natural.1, a.natural.2 + b.natural.2)) :
    (M.mul fn a b).natural = (a.natural.1 + b.natural.1, a.natural.2 + b.natural.2) := by
  simp only [M.mul, M.natural, M.lift_base, Base.mul_eq fn _ _ hf]
  exact natural_fromNatural hs _ _ _ _ _ _ hd

/-- `a / b`: natural parameters subtract -/
theorem div_natural {fn : Fn K} (hs : SqrtLaw fn) (a b : M K) (hf : a.base.fam ≠ .fixed)
    (hd : InDomain a.base.fam (a.natural.1 - b.natural.1, a.natural.2 - b.natural.2)) :
    (M.div fn a b).natural = (a.natural.1 - b.natural.1, a.natural.2 - b.natural.2) := by
  simp only [M.div, M.natural, M.lift_base, Base.div_eq fn _ _ _ hf]
  exact natural_fromNatural hs _ _ _ _ _ _ hd

/-- `a ** k`: natural parameters scale, for every real exponent that keeps them in the domain -/
theorem pow_natural {fn : Fn K} (hs : SqrtLaw fn) (a : M K) (k : K) (hf : a.base.fam ≠ .fixed)
    (hd : InDomain a.base.fam (k * a.natural.1, k * a.natural.2)) :
    (M.pow fn a k).natural = (k * a.natural.1, k * a.natural.2) := by
  simp only [M.pow, M.natural, M.lift_base, Base.pow_eq fn _ _ hf]
  exact natural_fromNatural hs _ _ _ _ _ _ hd

/-- a valid `NormalMessage` raised to a positive power stays in the domain: no guard needed -/
theorem pow_natural_normal_pos {fn : Fn K} (hs : SqrtLaw fn) (a : M K) (k : K) (hn : a.base.fam = .normal)
    (hσ : 0 < a.base.p2) (hk : 0 < k) :
    (M.pow fn a k).natural = (k * a.natural.1, k * a.natural.2) := by
  apply pow_natural hs a k (by rw [hn]; decide)
  intro _
  have h2 : a.natural.2 < 0 := by
    simp only [M.natural, Base.natural, hn]
    exact normal_natural_snd_neg _ _ hσ
  show k * a.natural.2 < 0
  exact mul_neg_of_pos_of_neg hk h2

/-- class, id and limits of the left operand, and the transform stack, id and limits of a
transformed left operand, survive every operation (no guard) -/
theorem arith_keeps_identity (fn : Fn K) (a b : M K) (k c : K) :
    ((M.mul fn a b).base.ident = a.base.ident ∧ (M.mul fn a b).shell = a.shell) ∧
    ((M.div fn a b).base.ident = a.base.ident ∧ (M.div fn a b).shell = a.shell) ∧
    ((M.pow fn a k).base.ident = a.base.ident ∧ (M.pow fn a k).shell = a.shell) ∧
    ((M.smul fn a c).base.ident = a.base.ident ∧ (M.smul fn a c).shell = a.shell) ∧
    ((M.sdiv fn a c).base.ident = a.base.ident ∧ (M.sdiv fn a c).shell = a.shell) := by
  simp [M.mul, M.div, M.pow, M.smul, M.sdiv, Base.mul_ident, Base.div_ident, Base.pow_ident,
    Base.smul_ident, Base.sdiv_ident]

/-- what the operations do to `log_norm` (as the code behaves: the product is "unnormalised") -/
theorem log_norm_rules (fn : Fn K) (a b : M K) (k c : K) (hf : a.base.fam ≠ .fixed) :
    (M.mul fn a b).base.logNorm = 0 ∧
    (M.div fn a b).base.logNorm = a.base.logNorm - b.base.logNorm ∧
    (M.pow fn a k).base.logNorm = k * a.base.logNorm ∧
    (M.smul fn a c).base.logNorm = a.base.logNorm + fn.log c ∧
    (M.sdiv fn a c).base.logNorm = a.base.logNorm - fn.log c := by
  refine ⟨?_, ?_, ?_, ?_, ?_⟩
  · simp [M.mul, Base.mul_eq fn _ _ hf, fromNatural]
  · simp [M.div, Base.div_eq fn _ _ _ hf, fromNatural]
  · simp [M.pow, Base.pow_eq fn _ _ hf, fromNatural]
  · simp only [M.smul, M.lift_base]; unfold Base.smul; split
    · next h => exact absurd h hf
    · rfl
  · simp [M.sdiv, Base.sdiv]

/-- scaling by a number leaves the distribution alone -/
theorem scalar_keeps_natural (fn : Fn K) (a : M K) (c : K) :
    (M.smul fn a c).natural = a.natural ∧ (M.sdiv fn a c).natural = a.natural := by
  constructor
  · simp only [M.smul, M.natural, M.lift_base]; unfold Base.smul; split <;> rfl
  · simp [M.sdiv, M.natural, Base.sdiv, Base.natural]

/-! ## self-consistency -/

/-- `(a * b) / b` has `a`'s natural parameters, class, id, limits and transform stack; its
`log_norm` is `-b.log_norm` (the code's product is unnormalised). -/
theorem mul_div_cancel {fn : Fn K} (hs : SqrtLaw fn) (a b : M K) (hf : a.base.fam ≠ .fixed)
    (hab : InDomain a.base.fam (a.natural.1 + b.natural.1, a.natural.2 + b.natural.2))
    (ha : InDomain a.base.fam a.natural) :
    (M.div fn (M.mul fn a b) b).natural = a.natural ∧
    (M.div fn (M.mul fn a b) b).base.ident = a.base.ident ∧
    (M.div fn (M.mul fn a b) b).shell = a.shell ∧
    (M.div fn (M.mul fn a b) b).base.logNorm = 0 - b.base.logNorm := by
  have hid := (arith_keeps_identity fn a b 0 0).1
  have hfam : (M.mul fn a b).base.fam = a.base.fam := congrArg (·.1) hid.1
  have hf' : (M.mul fn a b).base.fam ≠ .fixed := by rw [hfam]; exact hf
  have hm := mul_natural hs a b hf hab
  have hd : InDomain (M.mul fn a b).base.fam
      ((M.mul fn a b).natural.1 - b.natural.1, (M.mul fn a b).natural.2 - b.natural.2) := by
    rw [hfam, hm]; simpa using ha
  refine ⟨?_, ?_, ?_, ?_⟩
  · rw [div_natural hs _ b hf' hd, hm]; ext <;> simp
  · rw [(arith_keeps_identity fn (M.mul fn a b) b 0 0).2.1.1, hid.1]
  · rw [(arith_keeps_identity fn (M.mul fn a b) b 0 0).2.1.2, hid.2]
  · rw [(log_norm_rules fn (M.mul fn a b) b 0 0 hf').2.1, (log_norm_rules fn a b 0 0 hf).1]

/-- … and therefore the same ordinary parameters: `(a * b) / b` *is* `a` up to `log_norm`
(for a `NormalMessage` with `sigma > 0`; the other classes need no condition). -/
theorem mul_div_cancel_parameters {fn : Fn K} (hs : SqrtLaw fn) (a b : M K) (hf : a.base.fam ≠ .fixed)
    (hab : InDomain a.base.fam (a.natural.1 + b.natural.1, a.natural.2 + b.natural.2))
    (hσ : a.base.fam = .normal → 0 < a.base.p2) :
    (M.div fn (M.mul fn a b) b).base = { a.base with logNorm := 0 - b.base.logNorm } := by
  have ha : InDomain a.base.fam a.natural := by
    intro hn
    simp only [M.natural, Base.natural, hn]
    exact normal_natural_snd_neg _ _ (hσ hn)
  obtain ⟨hnat, hid, -, hln⟩ := mul_div_cancel hs a b hf hab ha
  have hfam : (M.mul fn a b).base.fam = a.base.fam :=
    congrArg (·.1) (arith_keeps_identity fn a b 0 0).1.1
  have hf' : (M.mul fn a b).base.fam ≠ .fixed := by rw [hfam]; exact hf
  -- the result is `fromNatural` of its natural parameters, which are `a`'s
  have hform : (M.div fn (M.mul fn a b) b).base =
      fromNatural fn a.base.fam a.natural (0 - b.base.logNorm) a.base.id a.base.lower a.base.upper := by
    have hm := mul_natural hs a b hf hab
    simp only [M.div, M.lift_base, Base.div_eq fn _ _ _ hf']
    have e1 : ((M.mul fn a b).base.natural.1 - b.natural.1, (M.mul fn a b).base.natural.2 - b.natural.2) = a.natural := by
      have : (M.mul fn a b).base.natural = (M.mul fn a b).natural := rfl
      rw [this, hm]; ext <;> simp
    have hid' := (arith_keeps_identity fn a b 0 0).1.1
    have h1 : (M.mul fn a b).base.id = a.base.id := congrArg (·.2.1) hid'
    have h2 : (M.mul fn a b).base.lower = a.base.lower := congrArg (·.2.2.1) hid'
    have h3 : (M.mul fn a b).base.upper = a.base.upper := congrArg (·.2.2.2) hid'
    rw [e1, hfam, h1, h2, h3, (log_norm_rules fn a b 0 0 hf).1]
  rw [hform]
  have hinv := invert_calc hs a.base.fam a.base.p1 a.base.p2 hσ
  simp only [fromNatural, M.natural, Base.natural, hinv]

/-! ## powers: repeated powers are products -/

/-- `a**j * a**k` and `a**(j+k)` have the same natural parameters -/
theorem pow_add {fn : Fn K} (hs : SqrtLaw fn) (a : M K) (j k : K) (hf : a.base.fam ≠ .fixed)
    (hj : InDomain a.base.fam (j * a.natural.1, j * a.natural.2))
    (hk : InDomain a.base.fam (k * a.natural.1, k * a.natural.2))
    (hjk : InDomain a.base.fam ((j + k) * a.natural.1, (j + k) * a.natural.2)) :
    (M.mul fn (M.pow fn a j) (M.pow fn a k)).natural = (M.pow fn a (j + k)).natural := by
  have hfam : (M.pow fn a j).base.fam = a.base.fam :=
    congrArg (·.1) (arith_keeps_identity fn a a j 0).2.2.1.1
  have hpj := pow_natural hs a j hf hj
  have hpk := pow_natural hs a k hf hk
  have hd : InDomain (M.pow fn a j).base.fam
      ((M.pow fn a j).natural.1 + (M.pow fn a k).natural.1, (M.pow fn a j).natural.2 + (M.pow fn a k).natural.2) := by
    rw [hfam, hpj, hpk]; intro hn
    have := hjk hn
    simp only at this ⊢
    linarith
  rw [mul_natural hs _ _ (by rw [hfam]; exact hf) hd, hpj, hpk, pow_natural hs a (j + k) hf hjk]
  ext <;> simp <;> ring

/-- `(a**k)**j` and `a**(j*k)` have the same natural parameters -/
theorem pow_mul {fn : Fn K} (hs : SqrtLaw fn) (a : M K) (j k : K) (hf : a.base.fam ≠ .fixed)
    (hk : InDomain a.base.fam (k * a.natural.1, k * a.natural.2))
    (hjk : InDomain a.base.fam ((j * k) * a.natural.1, (j * k) * a.natural.2)) :
    (M.pow fn (M.pow fn a k) j).natural = (M.pow fn a (j * k)).natural := by
  have hfam : (M.pow fn a k).base.fam = a.base.fam :=
    congrArg (·.1) (arith_keeps_identity fn a a k 0).2.2.1.1
  have hpk := pow_natural hs a k hf hk
  have hd : InDomain (M.pow fn a k).base.fam (j * (M.pow fn a k).natural.1, j * (M.pow fn a k).natural.2) := by
    rw [hfam, hpk]; intro hn
    have := hjk hn
    simp only at this ⊢
    linarith
  rw [pow_natural hs _ j (by rw [hfam]; exact hf) hd, hpk, pow_natural hs a (j * k) hf hjk]
  ext <;> simp <;> ring

/-- "a**k repeated equals products": for every `n`, the `(n+1)`-fold product of a message with natural
parameters in the domain has the natural parameters of `a ** (n+1)`, namely `(n+1)·η`. -/
theorem pow_nat_eq_prod {fn : Fn K} (hs : SqrtLaw fn) (a : M K) (hf : a.base.fam ≠ .fixed)
    (ha : InDomain a.base.fam a.natural) (n : Nat) :
    (prodN fn a n).natural = (((n : K) + 1) * a.natural.1, ((n : K) + 1) * a.natural.2) ∧
    (prodN fn a n).natural = (M.pow fn a ((n : K) + 1)).natural ∧
    (prodN fn a n).base.fam = a.base.fam := by
  have hdom : ∀ m : Nat, InDomain a.base.fam (((m : K) + 1) * a.natural.1, ((m : K) + 1) * a.natural.2) := by
    intro m hn
    have h2 : a.natural.2 < 0 := ha hn
    have hm : (0 : K) < (m : K) + 1 := by positivity
    exact mul_neg_of_pos_of_neg hm h2
  induction n with
  | zero =>
    refine ⟨?_, ?_, rfl⟩
    · simp [prodN]
    · rw [pow_natural hs a _ hf (hdom 0)]; simp [prodN]
  | succ n ih =>
    obtain ⟨ih1, -, ih3⟩ := ih
    have hf' : (prodN fn a n).base.fam ≠ .fixed := by rw [ih3]; exact hf
    have hd : InDomain (prodN fn a n).base.fam
        ((prodN fn a n).natural.1 + a.natural.1, (prodN fn a n).natural.2 + a.natural.2) := by
      rw [ih3, ih1]; intro hn
      have := hdom (n + 1) hn
      simp only [Nat.cast_add, Nat.cast_one] at this ⊢
      linarith
    have hstep : (prodN fn a (n + 1)).natural =
        ((((n + 1 : Nat) : K) + 1) * a.natural.1, (((n + 1 : Nat) : K) + 1) * a.natural.2) := by
      show (M.mul fn (prodN fn a n) a).natural = _
      rw [mul_natural hs _ a hf' hd, ih1]
      ext <;> simp <;> ring
    refine ⟨hstep, ?_, ?_⟩
    · rw [hstep, pow_natural hs a _ hf (hdom (n + 1))]
    · show (M.mul fn (prodN fn a n) a).base.fam = _
      rw [show (M.mul fn (prodN fn a n) a).base.fam = (prodN fn a n).base.fam from
        congrArg (·.1) (arith_keeps_identity fn (prodN fn a n) a 0 0).1.1, ih3]

/-- a `FixedMessage` is absorbing: product, quotient and power return it unchanged -/
theorem fixed_absorbs (fn : Fn K) (a b : M K) (k : K) (hf : a.base.fam = .fixed) :
    (M.mul fn a b).base = a.base ∧ (M.div fn a b).base = a.base ∧ (M.pow fn a k).base = a.base := by
  refine ⟨?_, ?_, ?_⟩
  · simp only [M.mul, M.lift_base]; unfold Base.mul; rw [hf]
  · simp only [M.div, M.lift_base]; unfold Base.div; rw [hf]
  · simp only [M.pow, M.lift_base]; unfold Base.pow; rw [hf]

/-! ## conversions round-trip -/

/-- natural → ordinary → natural (`from_natural_parameters(η).natural_parameters = η`) on the domain -/
theorem natural_roundtrip {fn : Fn K} (hs : SqrtLaw fn) (fam : Family) (eta : K × K) (ln : K) (id : Nat)
    (lo hi : K) (hd : InDomain fam eta) : (fromNatural fn fam eta ln id lo hi).natural = eta :=
  natural_fromNatural hs fam eta ln id lo hi hd

/-- ordinary → natural → ordinary: `from_natural_parameters(m.natural_parameters)` has `m`'s parameters
(`sigma > 0` for a `NormalMessage`) -/
theorem ordinary_roundtrip {fn : Fn K} (hs : SqrtLaw fn) (a : Base K) (hσ : a.fam = .normal → 0 < a.p2) :
    fromNatural fn a.fam a.natural a.logNorm a.id a.lower a.upper = a := by
  have h := invert_calc hs a.fam a.p1 a.p2 hσ
  simp only [fromNatural, Base.natural, h]

/-- `NormalMessage.natural` is the same distribution in natural form, with the same log_norm, id and limits -/
theorem toNatural_same (a : Base K) (hn : a.fam = .normal) :
    a.toNatural.natural = a.natural ∧ a.toNatural.fam = .naturalNormal ∧ a.toNatural.logNorm = a.logNorm ∧
    a.toNatural.id = a.id ∧ a.toNatural.lower = a.lower ∧ a.toNatural.upper = a.upper := by
  simp [Base.toNatural, hn, Base.natural, calcNatural]

/-- sufficient statistics → message: for moments `m₂ > m₁²` the member returned by
`from_sufficient_statistics` (Normal or NaturalNormal) has exactly those moments:
`E[x] = m₁`, `E[x²] = mean² + variance = m₂`. -/
theorem fromSuff_moments {fn : Fn K} (hs : SqrtLaw fn) (fam : Family)
    (hfam : fam = .normal ∨ fam = .naturalNormal) (m1 m2 ln : K) (id : Nat) (hv : 0 < m2 - m1 * m1) :
    (fromSuff fn fam m1 m2 ln id).mean = m1 ∧
    (fromSuff fn fam m1 m2 ln id).mean * (fromSuff fn fam m1 m2 ln id).mean +
      (fromSuff fn fam m1 m2 ln id).variance fn = m2 := by
  have hne : m2 - m1 * m1 ≠ 0 := ne_of_gt hv
  have hsq := hs.sq _ hv.le
  rcases hfam with h | h <;> subst h
  · -- NormalMessage: sigma = sqrt(m2 - m1^2), then natural -> ordinary
    have hpos : 0 < fn.sqrt (m2 - m1 * m1) := by
      rcases (hs.nonneg (m2 - m1 * m1)).lt_or_eq with h | h
      · exact h
      · rw [← h] at hsq; simp at hsq; exact absurd hsq.symm hne
    have hinv := invert_calc hs .normal m1 (fn.sqrt (m2 - m1 * m1)) (fun _ => hpos)
    simp only [fromSuff, fromNatural, invertSuff, hinv, Base.mean, Base.variance, hsq]
    constructor
    · trivial
    · ring
  · simp only [fromSuff, fromNatural, invertSuff, invertNatural, Base.mean, Base.variance]
    have e : -(2 * (-(1 / (m2 - m1 * m1)) / 2)) = 1 / (m2 - m1 * m1) := by field_simp
    have hpos : (0 : K) ≤ 1 / (m2 - m1 * m1) := by positivity
    have hsq' := hs.sq _ hpos
    have hsne : fn.sqrt (1 / (m2 - m1 * m1)) ≠ 0 := by
      intro h0; rw [h0, mul_zero] at hsq'; exact (one_div_ne_zero hne) hsq'.symm
    have hne' : m2 - m1 ^ 2 ≠ 0 := by rw [pow_two]; exact hne
    constructor
    · field_simp
    · rw [e]
      have : 1 / fn.sqrt (1 / (m2 - m1 * m1)) * (1 / fn.sqrt (1 / (m2 - m1 * m1))) = m2 - m1 * m1 := by
        rw [div_mul_div_comm, hsq']; field_simp
      rw [this]; field_simp; ring

/-- the sufficient statistics of `NormalMessage(μ, σ)` give back `NormalMessage(μ, σ)` -/
theorem suffstat_roundtrip {fn : Fn K} (hs : SqrtLaw fn) (mu sigma ln : K) (id : Nat) (hσ : 0 < sigma) :
    (fromSuff fn .normal mu (mu * mu + sigma * sigma) ln id).p1 = mu ∧
    (fromSuff fn .normal mu (mu * mu + sigma * sigma) ln id).p2 = sigma := by
  have e : mu * mu + sigma * sigma - mu * mu = sigma * sigma := by ring
  have hroot : fn.sqrt (sigma * sigma) = sigma :=
    (mul_self_inj (hs.nonneg _) hσ.le).1 (hs.sq _ (by positivity))
  have hinv := invert_calc hs .normal mu sigma (fun _ => hσ)
  simp only [fromSuff, fromNatural, invertSuff, e, hroot, hinv, and_self]

/-! ## projection of weighted samples -/

/-- the statistics `project` hands on are the weighted sample moments `Σwx/Σw`, `Σwx²/Σw`
(any number of samples, any weights with non-zero sum) -/
theorem weightedStats_eq (xs ws : List K) (hlen : xs.length = ws.length) (hn : xs ≠ [])
    (hw : sumL ws ≠ 0) :
    weightedStats xs ws =
      (sumL (List.zipWith (fun x w => x * w) xs ws) / sumL ws,
       sumL (List.zipWith (fun x w => x * x * w) xs ws) / sumL ws) := by
  have hl : (xs.length : K) ≠ 0 := by
    have : xs.length ≠ 0 := by simpa using hn
    exact_mod_cast this
  have hl' : (ws.length : K) ≠ 0 := by rw [← hlen]; exact hl
  simp only [weightedStats, meanL]
  have h1 := sumL_zipWith_div (fun x => x) xs ws (sumL ws / (ws.length : K))
  have h2 := sumL_zipWith_div (fun x => x * x) xs ws (sumL ws / (ws.length : K))
  rw [h1, h2]
  have len1 : (List.zipWith (fun x w => x * w) xs (List.map (fun x => x / (sumL ws / (ws.length : K))) ws)).length
      = ws.length := by simp [hlen]
  have len2 : (List.zipWith (fun x w => x * x * w) xs (List.map (fun x => x / (sumL ws / (ws.length : K))) ws)).length
      = ws.length := by simp [hlen]
  rw [len1, len2]
  ext <;> simp only <;> field_simp

/-- moment matching: the `NormalMessage` returned by `project` has mean `Σwx/Σw` and variance
`Σwx²/Σw − mean²` (when that is positive) -/
theorem project_matches_weighted_moments {fn : Fn K} (hs : SqrtLaw fn) (fam : Family)
    (hfam : fam = .normal ∨ fam = .naturalNormal) (xs ws : List K) (ln : K) (id : Nat)
    (hlen : xs.length = ws.length) (hn : xs ≠ []) (hw : sumL ws ≠ 0)
    (hv : 0 < sumL (List.zipWith (fun x w => x * x * w) xs ws) / sumL ws -
      (sumL (List.zipWith (fun x w => x * w) xs ws) / sumL ws) *
      (sumL (List.zipWith (fun x w => x * w) xs ws) / sumL ws)) :
    (projectW fn fam xs ws ln id).mean = sumL (List.zipWith (fun x w => x * w) xs ws) / sumL ws ∧
    (projectW fn fam xs ws ln id).mean * (projectW fn fam xs ws ln id).mean +
      (projectW fn fam xs ws ln id).variance fn = sumL (List.zipWith (fun x w => x * x * w) xs ws) / sumL ws := by
  simp only [projectW, weightedStats_eq xs ws hlen hn hw]
  exact fromSuff_moments hs fam hfam _ _ ln id hv

/-! ## the guard is necessary: outside the domain the code is *not* linear (known finding) -/

open Real in
/-- `NormalMessage(1, 2) ** -1` over the reals: `sqrt` of a negative number is `0`, the detour through
`(mean, sigma)` loses the natural parameters (the float code yields NaN). Linearity fails. -/
theorem normal_pow_refuted_outside_domain (sp : Fn ℝ) :
    let a : M ℝ := .plain { fam := .normal, p1 := 1, p2 := 2, logNorm := 0, id := 0, lower := 0, upper := 0 }
    (M.pow (realFn sp) a (-1)).natural ≠ (-1 * a.natural.1, -1 * a.natural.2) := by
  intro a h
  have h2 := congrArg Prod.snd h
  simp only [a, M.pow, M.lift, M.natural, M.base, Base.pow, Base.natural, fromNatural, invertNatural, calcNatural,
    realFn] at h2
  have hneg : -(1 / 2 : ℝ) / (-1 * (-(1 / (2 * 2)) / 2)) ≤ 0 := by norm_num
  rw [Real.sqrt_eq_zero_of_nonpos hneg] at h2
  norm_num at h2

/-! ## the density a normal message reports (real numbers, Mathlib's Gaussian) -/

open Real ProbabilityTheory MeasureTheory

/-- `exp(logpdf x)` of `NormalMessage(μ, σ)`, `σ > 0`, is the Gaussian density with mean `μ`, variance `σ²` -/
theorem normal_density_is_gaussian (sp : Fn ℝ) (a : Base ℝ) (hn : a.fam = .normal) (hσ : 0 < a.p2) (x : ℝ) :
    Real.exp (a.logpdf (realFn sp) x) = gaussianPDFReal a.p1 (varNN a.p2) x :=
  exp_logpdf_normal sp a hn hσ x

/-- … hence it is normalised over its support (the whole line) -/
theorem normal_density_normalised (sp : Fn ℝ) (a : Base ℝ) (hn : a.fam = .normal) (hσ : 0 < a.p2) :
    ∫ x, Real.exp (a.logpdf (realFn sp) x) = 1 := by
  simp only [exp_logpdf_normal sp a hn hσ]
  exact integral_gaussianPDFReal_eq_one _ (varNN_ne_zero hσ)

/-- … its mean is the `mean` the message reports -/
theorem normal_density_mean (sp : Fn ℝ) (a : Base ℝ) (hn : a.fam = .normal) (hσ : 0 < a.p2) :
    ∫ x, Real.exp (a.logpdf (realFn sp) x) * x = a.mean := by
  simp only [exp_logpdf_normal sp a hn hσ]
  have := integral_gaussianReal_eq_integral_smul (μ := a.p1) (f := fun x => x) (varNN_ne_zero hσ)
  simp only [smul_eq_mul] at this
  rw [← this, integral_id_gaussianReal]
  simp [Base.mean, hn]

/-- … and its variance is the `variance` the message reports -/
theorem normal_density_variance (sp : Fn ℝ) (a : Base ℝ) (hn : a.fam = .normal) (hσ : 0 < a.p2) :
    ∫ x, Real.exp (a.logpdf (realFn sp) x) * (x - a.mean) ^ 2 = a.variance (realFn sp) := by
  simp only [exp_logpdf_normal sp a hn hσ]
  have h1 := integral_gaussianReal_eq_integral_smul (μ := a.p1) (f := fun x => (x - a.p1) ^ 2)
    (varNN_ne_zero hσ)
  simp only [smul_eq_mul] at h1
  have hm : a.mean = a.p1 := by simp [Base.mean, hn]
  rw [hm, ← h1]
  have h2 := variance_fun_id_gaussianReal (μ := a.p1) (v := varNN a.p2)
  rw [variance_eq_integral measurable_id'.aemeasurable] at h2
  simp only [integral_id_gaussianReal] at h2
  rw [h2]
  simp [Base.variance, hn, pow_two]

/-! ## transformed messages: the stack is undone in the right order, the density carries the determinant -/

section transforms
variable {F : Type} [Field F]

/-- `_inverse_transform(_transform(x)) = x`: `_transform` applies the stack last-to-first, `_inverse_transform`
first-to-last, so each transform meets its own inverse (any stack, any length). -/
theorem inverse_transform_roundtrip (fn : Fn F) (trs : List (Tr F)) (x : F) (h : ChainOK fn trs x) :
    inverseChain fn trs (transformChain fn trs x) = x := by
  induction trs with
  | nil => rfl
  | cons t rest ih =>
    obtain ⟨hrest, ht⟩ := h
    show inverseChain fn rest (t.inv fn (t.apply fn (transformChain fn rest x))) = x
    rw [ht]; exact ih hrest

/-- a `LinearShiftTransform` with non-zero scale is undone by its inverse everywhere -/
theorem shift_invAt (fn : Fn F) (s c y : F) (hc : c ≠ 0) : InvAt fn (.shift s c) y := by
  simp only [InvAt, Tr.apply, Tr.inv]; field_simp; ring

/-- the first component of `_transform_det` is `_transform` -/
theorem transformDet_fst (fn : Fn F) (trs : List (Tr F)) (x : F) :
    (transformDet fn trs x).1 = transformChain fn trs x := by
  induction trs with
  | nil => rfl
  | cons t rest ih => simp only [transformDet, ih]; rfl

/-- `factor(x) = base.logpdf(T x) + log|det|` and `logpdf(x) = base.logpdf(T x)`: the two differ exactly by
the accumulated log-determinant (the known finding about `TransformedMessage.logpdf`) -/
theorem factor_eq_logpdf_add_logdet (fn : Fn F) (m : M F) (x : F) :
    m.factor fn x = m.logpdf fn x + (transformDet fn m.trs x).2 := by
  simp only [M.factor, M.logpdf, transformDet_fst]

end transforms

open Real in
/-- `log`, `exp`, `log10` are undone by `exp`, `log`, `10**` (real numbers) -/
theorem real_invAt (sp : Fn ℝ) (y : ℝ) :
    (0 < y → InvAt (realFn sp) .log y) ∧ InvAt (realFn sp) .exp y ∧ (0 < y → InvAt (realFn sp) .log10 y) := by
  refine ⟨fun hy => ?_, ?_, fun hy => ?_⟩
  · simp only [InvAt, Tr.apply, Tr.inv, realFn]; exact Real.exp_log hy
  · simp only [InvAt, Tr.apply, Tr.inv, realFn]; exact Real.log_exp y
  · simp only [InvAt, Tr.apply, Tr.inv, realFn]
    have h10 : (0 : ℝ) < 10 := by norm_num
    have hl : Real.log 10 ≠ 0 := ne_of_gt (Real.log_pos (by norm_num))
    rw [Real.rpow_def_of_pos h10, mul_div_cancel₀ _ hl, Real.exp_log hy]

/-- each transform's `log_det` is the logarithm of its (positive) derivative -/
theorem logDet_is_log_deriv (sp : Fn ℝ) (x : ℝ) :
    (∀ s c : ℝ, 0 < c → HasDerivAt (Tr.apply (realFn sp) (.shift s c)) (Real.exp (Tr.logDet (realFn sp) (.shift s c) x)) x) ∧
    (0 < x → HasDerivAt (Tr.apply (realFn sp) .log) (Real.exp (Tr.logDet (realFn sp) .log x)) x) ∧
    (0 < x → HasDerivAt (Tr.apply (realFn sp) .log10) (Real.exp (Tr.logDet (realFn sp) .log10 x)) x) ∧
    HasDerivAt (Tr.apply (realFn sp) .exp) (Real.exp (Tr.logDet (realFn sp) .exp x)) x := by
  refine ⟨fun s c hc => ?_, fun hx => ?_, fun hx => ?_, ?_⟩
  · have hf : Tr.apply (realFn sp) (.shift s c) = fun y : ℝ => (y - s) / c := by funext y; rfl
    have hd : Real.exp (Tr.logDet (realFn sp) (.shift s c) x) = 1 / c := by
      simp only [Tr.logDet, realFn, Real.exp_neg, Real.exp_log hc, one_div]
    rw [hf, hd]
    exact ((hasDerivAt_id x).sub_const s).div_const c
  · have hpos : (0 : ℝ) < 1 / x := by positivity
    have hf : Tr.apply (realFn sp) .log = Real.log := by funext y; rfl
    have hd : Real.exp (Tr.logDet (realFn sp) .log x) = x⁻¹ := by
      simp only [Tr.logDet, realFn]
      rw [Real.exp_log hpos, one_div]
    rw [hf, hd]
    exact Real.hasDerivAt_log (ne_of_gt hx)
  · have h10 : (2 + 2 + 2 + 2 + 2 : ℝ) = 10 := by norm_num
    have hl : 0 < Real.log 10 := Real.log_pos (by norm_num)
    have hpos : (0 : ℝ) < 1 / x / Real.log 10 := by positivity
    have hf : Tr.apply (realFn sp) .log10 = fun y : ℝ => Real.log y / Real.log 10 := by funext y; rfl
    have hd : Real.exp (Tr.logDet (realFn sp) .log10 x) = x⁻¹ / Real.log 10 := by
      simp only [Tr.logDet, realFn, h10]
      rw [Real.exp_log hpos, one_div]
    rw [hf, hd]
    exact (Real.hasDerivAt_log (ne_of_gt hx)).div_const (Real.log 10)
  · have hf : Tr.apply (realFn sp) .exp = Real.exp := by funext y; rfl
    have hd : Real.exp (Tr.logDet (realFn sp) .exp x) = Real.exp x := by
      simp only [Tr.logDet, realFn, Real.log_exp]
    rw [hf, hd]
    exact Real.hasDerivAt_exp x

/-- change of variables, pointwise: the accumulated log-determinant of `_transform_det` is the logarithm of
the derivative of the whole `_transform` (chain rule through any stack) … -/
theorem transformDet_is_log_deriv (fn : Fn ℝ) (trs : List (Tr ℝ)) (x : ℝ) (h : DerivOK fn trs x) :
    HasDerivAt (transformChain fn trs) (Real.exp (transformDet fn trs x).2) x := by
  induction trs with
  | nil =>
    have hf : transformChain fn [] = id := by funext y; rfl
    have hd : Real.exp (transformDet fn [] x).2 = 1 := by simp [transformDet]
    rw [hf, hd]; exact hasDerivAt_id x
  | cons t rest ih =>
    obtain ⟨hrest, ht⟩ := h
    have hcomp := HasDerivAt.comp x ht (ih hrest)
    have e : Real.exp (transformDet fn (t :: rest) x).2 =
        Real.exp (t.logDet fn (transformChain fn rest x)) * Real.exp (transformDet fn rest x).2 := by
      simp only [transformDet, transformDet_fst, Real.exp_add]; ring
    rw [e]
    exact hcomp

/-- … so the density a transformed message reports, `exp(factor x)`, is the base density at the
transformed point times the derivative of the transform: `p(x) = p_base(T x) · T′(x)`. -/
theorem transformed_density_change_of_variables (fn : Fn ℝ) (m : M ℝ) (x : ℝ) (h : DerivOK fn m.trs x) :
    ∃ d : ℝ, HasDerivAt (transformChain fn m.trs) d x ∧ 0 < d ∧
      Real.exp (m.factor fn x) = Real.exp (m.base.logpdf fn (transformChain fn m.trs x)) * d := by
  refine ⟨Real.exp (transformDet fn m.trs x).2, transformDet_is_log_deriv fn m.trs x h, Real.exp_pos _, ?_⟩
  simp only [M.factor, transformDet_fst, Real.exp_add]

/-! ## non-vacuity: concrete messages meeting the hypotheses -/

/-- the reals with `Real.sqrt` satisfy `SqrtLaw` -/
example (sp : Fn ℝ) : SqrtLaw (realFn sp) := realFn_sqrtLaw sp

/-- `NormalMessage(1, 2) * NormalMessage(1/2, 3/2)`: the sum of natural parameters is in the domain -/
example : InDomain (K := ℚ) .normal
    ((calcNatural .normal (1 : ℚ) 2).1 + (calcNatural .normal (1 / 2 : ℚ) (3 / 2)).1,
     (calcNatural .normal (1 : ℚ) 2).2 + (calcNatural .normal (1 / 2 : ℚ) (3 / 2)).2) := by
  intro _; simp only [calcNatural]; norm_num

/-- the stack of a `UniformPrior(2, 5)` message, `[phi, shift 2 3]`, is undone in order as soon as
`Φ(Φ⁻¹ u) = u` at the one point where it is used -/
example (fn : Fn ℚ) (x : ℚ) (hΦ : fn.ndtr (fn.ndtri ((x - 2) / 3)) = (x - 2) / 3) :
    inverseChain fn [.phi, .shift 2 3] (transformChain fn [.phi, .shift 2 3] x) = x := by
  apply inverse_transform_roundtrip
  refine ⟨⟨trivial, shift_invAt fn 2 3 _ (by norm_num)⟩, ?_⟩
  simpa [InvAt, Tr.apply, Tr.inv, transformChain] using hΦ

end AF.C17

namespace AF.C17
open AF.Msg

variable {K : Type} [Field K] [LinearOrder K] [IsStrictOrderedRing K]

/-! ## first-order variance of a transformed message -/

/-- the point at which each Jacobian of `TransformedMessage.variance` is taken is the running mean:
after the whole stack it is the mean the message reports -/
theorem varianceChain_mean (fn : Fn K) : ∀ (trs : List (Tr K)) (m v : K),
    (varianceChain fn trs (m, v)).1 = inverseChain fn trs m
  | [], m, v => rfl
  | t :: rest, m, v => by
      simp only [varianceChain, inverseChain, List.foldl_cons]
      exact varianceChain_mean fn rest _ _

/-- a plain message reports the variance of its parameters -/
theorem variance_plain (fn : Fn K) (b : Base K) : (M.plain b).variance fn = b.variance fn := rfl

/-- one more transform *at the end of the stack* rescales the variance by the squared inverse Jacobian
of that transform at the new mean (the recursion of the implementation, stated from the outside) -/
theorem varianceChain_append (fn : Fn K) (trs : List (Tr K)) (t : Tr K) (m v : K) :
    varianceChain fn (trs ++ [t]) (m, v) =
      (t.inv fn (varianceChain fn trs (m, v)).1,
       (varianceChain fn trs (m, v)).2 * (1 / t.grad fn (t.inv fn (varianceChain fn trs (m, v)).1)) *
         (1 / t.grad fn (t.inv fn (varianceChain fn trs (m, v)).1))) := by
  induction trs generalizing m v with
  | nil => rfl
  | cons a rest ih => simp only [List.cons_append, varianceChain]; exact ih _ _

/-- a stack of shifts/scalings only (the affine part of every prior's message) multiplies the variance by
the product of the squared scales, wherever the mean is: the scale² law -/
theorem variance_affine (fn : Fn K) : ∀ (ss : List (K × K)) (m v : K), (∀ sc ∈ ss, sc.2 ≠ 0) →
    (varianceChain fn (ss.map fun sc => Tr.shift sc.1 sc.2) (m, v)).2 =
      v * (ss.map fun sc => sc.2 * sc.2).prod
  | [], m, v, _ => by simp [varianceChain]
  | sc :: rest, m, v, h => by
      have hc : sc.2 ≠ 0 := h sc (List.mem_cons_self ..)
      simp only [List.map_cons, varianceChain, Tr.grad, List.prod_cons]
      rw [variance_affine fn rest _ _ (fun x hx => h x (List.mem_cons_of_mem _ hx))]
      field_simp

/-- a stand-in for the special functions over `ℚ` (only `exp`, `log` are used below: x², x) -/
def fnQ : Fn ℚ :=
  { sqrt := id, log := id, exp := fun x => x * x, log10 := id, exp10 := id, ndtr := id, ndtri := id,
    erfinv := id, normPdf := id, negInf := -1, posInf := 1, halfLog2Pi := 1, isFinite := fun _ => true,
    le := fun a b => decide (a ≤ b), max := fun a b => if a ≤ b then b else a }

/-- the order of the stack matters: with a non-linear transform and a scaling, reversing the stack
changes the result (non-vacuity of "in the order of the stack"; `ℚ` with the stand-ins above) -/
example : (varianceChain fnQ [Tr.exp, Tr.shift 0 3] (2, 1)).2 ≠
    (varianceChain fnQ [Tr.shift 0 3, Tr.exp] (2, 1)).2 := by
  decide +kernel

end AF.C17

/-! # growth: the Gamma and Beta families (`AFModel/MsgGB.lean`) -/

namespace AF.C17
open AF.Msg

variable {K : Type} [Field K] [LinearOrder K] [IsStrictOrderedRing K]

/-! ## Gamma and Beta: arithmetic on the ordinary parameters, with the exact validity guards -/

/-- `GammaMessage`: product, quotient and power on the ordinary parameters (exact for every operand: the maps
between ordinary and natural parameters are affine) -/
theorem gamma_arith_parameters (fn : Fn K) (a b : M K) (k : K) (ha : a.base.fam = .gamma) (hb : b.base.fam = .gamma) :
    ((M.mul fn a b).base.p1 = a.base.p1 + b.base.p1 - 1 ∧ (M.mul fn a b).base.p2 = a.base.p2 + b.base.p2) ∧
    ((M.div fn a b).base.p1 = a.base.p1 - b.base.p1 + 1 ∧ (M.div fn a b).base.p2 = a.base.p2 - b.base.p2) ∧
    ((M.pow fn a k).base.p1 = k * (a.base.p1 - 1) + 1 ∧ (M.pow fn a k).base.p2 = k * a.base.p2) := by
  have hf : a.base.fam ≠ .fixed := by rw [ha]; decide
  simp only [M.mul, M.div, M.pow, M.lift_base, Base.mul_eq fn _ _ hf, Base.div_eq fn _ _ _ hf, Base.pow_eq fn _ _ hf,
    fromNatural, ha, invertNatural, M.natural, natural_gamma _ ha, natural_gamma _ hb]
  refine ⟨⟨?_, ?_⟩, ⟨?_, ?_⟩, ⟨?_, ?_⟩⟩ <;> first | trivial | rfl | ring

/-- `BetaMessage`: the same for both shape parameters -/
theorem beta_arith_parameters (fn : Fn K) (a b : M K) (k : K) (ha : a.base.fam = .beta) (hb : b.base.fam = .beta) :
    ((M.mul fn a b).base.p1 = a.base.p1 + b.base.p1 - 1 ∧ (M.mul fn a b).base.p2 = a.base.p2 + b.base.p2 - 1) ∧
    ((M.div fn a b).base.p1 = a.base.p1 - b.base.p1 + 1 ∧ (M.div fn a b).base.p2 = a.base.p2 - b.base.p2 + 1) ∧
    ((M.pow fn a k).base.p1 = k * (a.base.p1 - 1) + 1 ∧ (M.pow fn a k).base.p2 = k * (a.base.p2 - 1) + 1) := by
  have hf : a.base.fam ≠ .fixed := by rw [ha]; decide
  simp only [M.mul, M.div, M.pow, M.lift_base, Base.mul_eq fn _ _ hf, Base.div_eq fn _ _ _ hf, Base.pow_eq fn _ _ hf,
    fromNatural, ha, invertNatural, M.natural, natural_beta _ ha, natural_beta _ hb]
  refine ⟨⟨?_, ?_⟩, ⟨?_, ?_⟩, ⟨?_, ?_⟩⟩ <;> first | trivial | rfl | ring

/-- the exact validity guards (`shape > 0`, `rate > 0`): when the result of an operation on Gamma messages is again a
Gamma message -/
theorem gamma_validity_guards (fn : Fn K) (a b : M K) (k : K) (ha : a.base.fam = .gamma) (hb : b.base.fam = .gamma) :
    (0 < (M.mul fn a b).base.p1 ↔ 1 < a.base.p1 + b.base.p1) ∧
    (0 < (M.mul fn a b).base.p2 ↔ 0 < a.base.p2 + b.base.p2) ∧
    (0 < (M.div fn a b).base.p1 ↔ b.base.p1 < a.base.p1 + 1) ∧
    (0 < (M.div fn a b).base.p2 ↔ b.base.p2 < a.base.p2) ∧
    (0 < (M.pow fn a k).base.p1 ↔ k * (1 - a.base.p1) < 1) ∧
    (0 < (M.pow fn a k).base.p2 ↔ 0 < k * a.base.p2) := by
  obtain ⟨⟨h1, h2⟩, ⟨h3, h4⟩, ⟨h5, h6⟩⟩ := gamma_arith_parameters fn a b k ha hb
  rw [h1, h2, h3, h4, h5, h6]
  refine ⟨?_, Iff.rfl, ?_, ?_, ?_, Iff.rfl⟩ <;> constructor <;> intro h <;> linarith

/-- … and on Beta messages -/
theorem beta_validity_guards (fn : Fn K) (a b : M K) (k : K) (ha : a.base.fam = .beta) (hb : b.base.fam = .beta) :
    (0 < (M.mul fn a b).base.p1 ↔ 1 < a.base.p1 + b.base.p1) ∧
    (0 < (M.mul fn a b).base.p2 ↔ 1 < a.base.p2 + b.base.p2) ∧
    (0 < (M.div fn a b).base.p1 ↔ b.base.p1 < a.base.p1 + 1) ∧
    (0 < (M.div fn a b).base.p2 ↔ b.base.p2 < a.base.p2 + 1) ∧
    (0 < (M.pow fn a k).base.p1 ↔ k * (1 - a.base.p1) < 1) ∧
    (0 < (M.pow fn a k).base.p2 ↔ k * (1 - a.base.p2) < 1) := by
  obtain ⟨⟨h1, h2⟩, ⟨h3, h4⟩, ⟨h5, h6⟩⟩ := beta_arith_parameters fn a b k ha hb
  rw [h1, h2, h3, h4, h5, h6]
  refine ⟨?_, ?_, ?_, ?_, ?_, ?_⟩ <;> constructor <;> intro h <;> linarith

/-! ## the algebra acts on densities: products of messages are products of densities -/

/-- the density of `a * b` is the product of the densities up to a constant factor that does not depend on the
point (every family; `t(x)` of the two operands must agree - same class, or NormalMessage with NaturalNormal) -/
theorem density_mul_proportional {fn : Fn K} (hs : SqrtLaw fn) (sp : Sp K) (a b : M K) (hf : a.base.fam ≠ .fixed)
    (hfam : ∀ x, toCanonical fn sp b.base.fam x = toCanonical fn sp a.base.fam x)
    (hd : InDomain a.base.fam (a.natural.1 + b.natural.1, a.natural.2 + b.natural.2)) :
    ∃ c : K, ∀ x : K,
      (M.mul fn a b).base.logpdfRaw fn sp x = a.base.logpdfRaw fn sp x + b.base.logpdfRaw fn sp x + c := by
  have hnat := mul_natural hs a b hf hd
  have hfam' : (M.mul fn a b).base.fam = a.base.fam := congrArg (·.1) (arith_keeps_identity fn a b 0 0).1.1
  refine ⟨logPartitionGB fn sp a.base.fam a.natural + logPartitionGB fn sp b.base.fam b.natural
      - logPartitionGB fn sp a.base.fam (a.natural.1 + b.natural.1, a.natural.2 + b.natural.2) - logBase fn b.base.fam, ?_⟩
  intro x
  have hn' : (M.mul fn a b).base.natural = (a.natural.1 + b.natural.1, a.natural.2 + b.natural.2) := hnat
  rw [logpdfRaw_eq, logpdfRaw_eq, logpdfRaw_eq, hfam', hn', hfam x]
  simp only [M.natural]
  ring

/-- the density of `a ** k` is the `k`-th power of the density up to a constant factor -/
theorem density_pow_proportional {fn : Fn K} (hs : SqrtLaw fn) (sp : Sp K) (a : M K) (k : K) (hf : a.base.fam ≠ .fixed)
    (hd : InDomain a.base.fam (k * a.natural.1, k * a.natural.2)) :
    ∃ c : K, ∀ x : K, (M.pow fn a k).base.logpdfRaw fn sp x = k * a.base.logpdfRaw fn sp x + c := by
  have hnat := pow_natural hs a k hf hd
  have hfam' : (M.pow fn a k).base.fam = a.base.fam := congrArg (·.1) (arith_keeps_identity fn a a k 0).2.2.1.1
  refine ⟨k * logPartitionGB fn sp a.base.fam a.natural
      - logPartitionGB fn sp a.base.fam (k * a.natural.1, k * a.natural.2) + (1 - k) * logBase fn a.base.fam, ?_⟩
  intro x
  have hn' : (M.pow fn a k).base.natural = (k * a.natural.1, k * a.natural.2) := hnat
  rw [logpdfRaw_eq, logpdfRaw_eq, hfam', hn']
  simp only [M.natural]
  ring

/-- the every-family density is the one of the normal theorems on the normal family -/
theorem logpdfX_normal (fn : Fn K) (sp : Sp K) (a : Base K) (h : a.fam = .normal ∨ a.fam = .naturalNormal) (x : K)
    (hnn : sp.nanToNum (a.logpdf fn x) = a.logpdf fn x) : a.logpdfX fn sp x = a.logpdf fn x := by
  simp only [Base.logpdfX, logpdfRaw_normal fn sp a h x, hnn]

/-- `mean` with `NaturalNormal`'s `np.nan_to_num` is the mean of the theorems wherever `nan_to_num` is the identity
(every finite value), for plain and transformed messages -/
theorem meanX_eq_mean (fn : Fn K) (sp : Sp K) (m : M K) (h : sp.nanToNum0 m.base.mean = m.base.mean) :
    m.meanX fn sp = m.mean fn := by
  simp only [M.meanX, M.mean, Base.meanX]
  split <;> simp [h]

/-! ## the numerical inversions: what they solve -/

/-- `invpsilog`: a Newton step leaves `x` where it is exactly when `x` solves `ψ(x) − log x = c`; a solution is kept by
any number of further steps -/
theorem invpsilog_fixed_point (fn : Fn K) (sp : Sp K) (c x : K) (hg : gradPsilog sp x ≠ 0) :
    (psilogStep fn sp c x = x ↔ psilog fn sp x = c) ∧
    (psilog fn sp x = c → ∀ n, newtonPsilog fn sp c n x = x) :=
  ⟨psilogStep_eq_self_iff fn sp c x hg, fun h n => newtonPsilog_of_solution fn sp c x h n⟩

/-- `inv_beta_suffstats`: a Newton step leaves `(a, b)` where it is exactly when both moment equations hold
(non-singular Jacobian); a solution is kept by any number of further steps -/
theorem inv_beta_fixed_point (sp : Sp K) (l1 l2 : K) (ab : K × K) (hd : betaDet sp ab ≠ 0) :
    (betaStep sp l1 l2 ab = ab ↔ betaResidual sp l1 l2 ab = (0, 0)) ∧
    (betaResidual sp l1 l2 ab = (0, 0) → ∀ n, betaNewton sp l1 l2 n ab = ab) :=
  ⟨betaStep_eq_self_iff sp l1 l2 ab hd, fun h n => betaNewton_of_solution sp l1 l2 ab h n⟩

/-- moment matching for every family: when the inversion has converged, the member returned by
`from_sufficient_statistics(m1, m2)` has expected sufficient statistics `E[t(x)] = (m1, m2)` -/
theorem fromSuffX_moment_matching {fn : Fn K} (hs : SqrtLaw fn) (sp : Sp K) (fam : Family) (m1 m2 ln : K) (id : Nat)
    (hc : Converged fn sp fam m1 m2) :
    (fromSuffX fn sp fam m1 m2 ln id).expectedStats fn sp = (m1, m2) := by
  cases fam with
  | normal =>
    have h := fromSuff_moments hs .normal (Or.inl rfl) m1 m2 ln id hc
    have e : fromSuffX fn sp .normal m1 m2 ln id = fromSuff fn .normal m1 m2 ln id := rfl
    have hfam : (fromSuff fn .normal m1 m2 ln id).fam = .normal := rfl
    rw [e]; simp only [Base.expectedStats, hfam]; exact Prod.ext h.1 h.2
  | naturalNormal =>
    have h := fromSuff_moments hs .naturalNormal (Or.inr rfl) m1 m2 ln id hc
    have e : fromSuffX fn sp .naturalNormal m1 m2 ln id = fromSuff fn .naturalNormal m1 m2 ln id := rfl
    have hfam : (fromSuff fn .naturalNormal m1 m2 ln id).fam = .naturalNormal := rfl
    rw [e]; simp only [Base.expectedStats, hfam]; exact Prod.ext h.1 h.2
  | gamma =>
    obtain ⟨h1, h2, h3, h4⟩ := hc
    simp only [fromSuffX, invertSuffX, invertSuffGamma, fromNatural, invertNatural, calcNatural, Base.expectedStats]
    simp only [psilog] at h1
    ext
    · simp only [sub_add_cancel, neg_neg, h4]; linarith
    · simp only [sub_add_cancel, neg_neg]; field_simp
  | beta =>
    simp only [Converged, betaResidual, Prod.mk.injEq] at hc
    obtain ⟨h1, h2⟩ := hc
    simp only [fromSuffX, invertSuffX, invertSuffBeta, fromNatural, invertNatural, calcNatural, Base.expectedStats,
      sub_add_cancel]
    ext
    · simp only; linarith
    · simp only; linarith
  | fixed => exact False.elim hc

/-- the statistics `project` hands on are the weighted means of the sufficient statistics of the samples -/
theorem weightedStatsT_eq (ts : List (K × K)) (ws : List K) (hlen : ts.length = ws.length) (hn : ts ≠ [])
    (hw : sumL ws ≠ 0) :
    weightedStatsT ts ws =
      (sumL (List.zipWith (fun t w => t.1 * w) ts ws) / sumL ws,
       sumL (List.zipWith (fun t w => t.2 * w) ts ws) / sumL ws) := by
  have hl : (ts.length : K) ≠ 0 := by
    have : ts.length ≠ 0 := by simpa using hn
    exact_mod_cast this
  have hl' : (ws.length : K) ≠ 0 := by rw [← hlen]; exact hl
  simp only [weightedStatsT, meanL]
  have h1 := sumL_zipWith_div_gen (fun t : K × K => t.1) ts ws (sumL ws / (ws.length : K))
  have h2 := sumL_zipWith_div_gen (fun t : K × K => t.2) ts ws (sumL ws / (ws.length : K))
  rw [h1, h2]
  have len1 : (List.zipWith (fun (t : K × K) w => t.1 * w) ts (List.map (fun x => x / (sumL ws / (ws.length : K))) ws)).length
      = ws.length := by simp [hlen]
  have len2 : (List.zipWith (fun (t : K × K) w => t.2 * w) ts (List.map (fun x => x / (sumL ws / (ws.length : K))) ws)).length
      = ws.length := by simp [hlen]
  rw [len1, len2]
  ext <;> simp only <;> field_simp

/-- projection, every family: the member returned by `project` has expected sufficient statistics equal to the
weighted sample means of `t(x)` (any number of samples, any weights with non-zero sum), when the inversion of
those statistics has converged -/
theorem projectX_moment_matching {fn : Fn K} (hs : SqrtLaw fn) (sp : Sp K) (fam : Family) (xs ws : List K) (ln : K)
    (id : Nat) (hlen : xs.length = ws.length) (hn : xs ≠ []) (hw : sumL ws ≠ 0)
    (hc : Converged fn sp fam
      (sumL (List.zipWith (fun t w => t.1 * w) (xs.map (toCanonical fn sp fam)) ws) / sumL ws)
      (sumL (List.zipWith (fun t w => t.2 * w) (xs.map (toCanonical fn sp fam)) ws) / sumL ws)) :
    (projectWX fn sp fam xs ws ln id).expectedStats fn sp =
      (sumL (List.zipWith (fun t w => t.1 * w) (xs.map (toCanonical fn sp fam)) ws) / sumL ws,
       sumL (List.zipWith (fun t w => t.2 * w) (xs.map (toCanonical fn sp fam)) ws) / sumL ws) := by
  have hts : (xs.map (toCanonical fn sp fam)) ≠ [] := by simpa using hn
  simp only [projectWX, weightedStatsT_eq _ ws (by simpa using hlen) hts hw]
  exact fromSuffX_moment_matching hs sp fam _ _ ln id hc

/-- `GammaMessage.from_mode(m, V)` (as the code computes it) has mean `m` -/
theorem fromMode_gamma_mean (fn : Fn K) (sp : Sp K) (m v ln : K) (id : Nat) (lo hi : K)
    (hα : 1 + m * m * v ≠ 0) : (fromMode fn sp .gamma m v ln id lo hi).mean = m := by
  show (1 + m * m * v) / ((1 + m * m * v) / m) = m
  rw [div_div_eq_mul_div, mul_comm, mul_div_assoc, div_self hα, mul_one]

/-! non-vacuity -/

/-- the convergence hypothesis can be met: Gamma (`ψ(x) = 2x`, `log = id` over `ℚ`: Newton is exact) … -/
example : Converged fnQ0 spQ .gamma 6 2 := by
  simp only [Converged, invpsilog, newtonPsilog, psilogStep, psilog, gradPsilog, invpsilogStart, fnQ0, spQ]
  norm_num

/-- … and Beta (`ψ = id`: the equations are linear, one Newton step solves them) -/
example : Converged fnQ0 spQ2 .beta (-3) (-2) := by
  simp only [Converged, invBetaSuffstats, betaNewton, betaStep, betaResidual, betaJac, betaStart, fnQ0, spQ2, spQ]
  norm_num

/-- two valid Gamma messages whose product is valid: `Gamma(2, 1) * Gamma(1/2, 3)` has shape `3/2 > 0` -/
example : (1 : ℚ) < 2 + 1 / 2 := by norm_num

end AF.C17

namespace AF.C17
open AF.Msg
open Real ProbabilityTheory MeasureTheory Set

/-! ## the densities Gamma and Beta messages report (real numbers, Mathlib's Gamma function) -/

/-- `exp(logpdf x)` of `GammaMessage(α, β)`, `α, β > 0`, at `x > 0` is Mathlib's Gamma density (shape `α`, rate `β`) -/
theorem gamma_density_is_gammaPDF (sp0 : Fn ℝ) (sp : Sp ℝ) (a : Base ℝ) (hg : a.fam = .gamma) (hα : 0 < a.p1)
    (hβ : 0 < a.p2) (x : ℝ) (hx : 0 < x) :
    Real.exp (a.logpdfX (realFn sp0) (realSp sp) x) = gammaPDFReal a.p1 a.p2 x :=
  exp_logpdf_gamma sp0 sp a hg hα hβ x hx

/-- the three integrals `∫₀^∞ p(x) x^j dx`, `j = 0, 1, 2`, in one: for `s > -α`,
`∫₀^∞ p(x) x^s dx = Γ(α + s) / (Γ(α) β^s)` -/
theorem gamma_density_moment (sp0 : Fn ℝ) (sp : Sp ℝ) (a : Base ℝ) (hg : a.fam = .gamma) (hα : 0 < a.p1)
    (hβ : 0 < a.p2) (s : ℝ) (hs : 0 < a.p1 + s) :
    ∫ x in Ioi 0, Real.exp (a.logpdfX (realFn sp0) (realSp sp) x) * x ^ s =
      Real.Gamma (a.p1 + s) / (Real.Gamma a.p1 * a.p2 ^ s) := by
  have hΓ : 0 < Real.Gamma a.p1 := Real.Gamma_pos_of_pos hα
  have hcongr : ∀ x ∈ Ioi (0 : ℝ), Real.exp (a.logpdfX (realFn sp0) (realSp sp) x) * x ^ s =
      a.p2 ^ a.p1 / Real.Gamma a.p1 * (x ^ (a.p1 + s - 1) * Real.exp (-(a.p2 * x))) := by
    intro x hx
    have hx' : 0 < x := hx
    rw [exp_logpdf_gamma_formula sp0 sp a hg hα hβ x hx']
    have : x ^ (a.p1 + s - 1) = x ^ (a.p1 - 1) * x ^ s := by
      rw [← Real.rpow_add hx']; congr 1; ring
    rw [this]; ring
  rw [setIntegral_congr_fun measurableSet_Ioi hcongr, integral_const_mul,
    Real.integral_rpow_mul_exp_neg_mul_Ioi hs hβ]
  have hb : a.p2 ^ a.p1 ≠ 0 := (Real.rpow_pos_of_pos hβ _).ne'
  have hb' : a.p2 ^ s ≠ 0 := (Real.rpow_pos_of_pos hβ _).ne'
  rw [Real.div_rpow zero_le_one hβ.le, Real.one_rpow, Real.rpow_add hβ]
  field_simp

/-- the density of a Gamma message is normalised over its support `(0, ∞)` -/
theorem gamma_density_normalised (sp0 : Fn ℝ) (sp : Sp ℝ) (a : Base ℝ) (hg : a.fam = .gamma) (hα : 0 < a.p1)
    (hβ : 0 < a.p2) : ∫ x in Ioi 0, Real.exp (a.logpdfX (realFn sp0) (realSp sp) x) = 1 := by
  have h := gamma_density_moment sp0 sp a hg hα hβ 0 (by linarith)
  simp only [Real.rpow_zero, mul_one, add_zero] at h
  rw [h]; exact div_self (Real.Gamma_pos_of_pos hα).ne'

/-- its mean is the `mean` the message reports, `α / β` -/
theorem gamma_density_mean (sp0 : Fn ℝ) (sp : Sp ℝ) (a : Base ℝ) (hg : a.fam = .gamma) (hα : 0 < a.p1)
    (hβ : 0 < a.p2) : ∫ x in Ioi 0, Real.exp (a.logpdfX (realFn sp0) (realSp sp) x) * x = a.mean := by
  have h := gamma_density_moment sp0 sp a hg hα hβ 1 (by linarith)
  simp only [Real.rpow_one] at h
  rw [h, Real.Gamma_add_one hα.ne']
  have hΓ := (Real.Gamma_pos_of_pos hα).ne'
  simp only [Base.mean, hg]
  field_simp

/-- its second moment is `mean² + variance` with the `variance` the message reports, `α / β²` -/
theorem gamma_density_second_moment (sp0 : Fn ℝ) (sp : Sp ℝ) (a : Base ℝ) (hg : a.fam = .gamma) (hα : 0 < a.p1)
    (hβ : 0 < a.p2) :
    ∫ x in Ioi 0, Real.exp (a.logpdfX (realFn sp0) (realSp sp) x) * x ^ (2 : ℝ) =
      a.mean * a.mean + a.variance (realFn sp0) := by
  have h := gamma_density_moment sp0 sp a hg hα hβ 2 (by linarith)
  rw [h, show a.p1 + 2 = (a.p1 + 1) + 1 by ring, Real.Gamma_add_one (by linarith : a.p1 + 1 ≠ 0),
    Real.Gamma_add_one hα.ne']
  have hΓ := (Real.Gamma_pos_of_pos hα).ne'
  have hb := hβ.ne'
  simp only [Base.mean, Base.variance, hg]
  rw [show (2 : ℝ) = ((2 : ℕ) : ℝ) by norm_num, Real.rpow_natCast]
  field_simp

/-- `exp(logpdf x)` of `BetaMessage(α, β)`, `α, β > 0`, at `0 < x < 1` is Mathlib's Beta density -/
theorem beta_density_is_betaPDF (sp0 : Fn ℝ) (sp : Sp ℝ) (a : Base ℝ) (hb : a.fam = .beta) (hα : 0 < a.p1)
    (hβ : 0 < a.p2) (x : ℝ) (hx0 : 0 < x) (hx1 : x < 1) :
    Real.exp (a.logpdfX (realFn sp0) (realSp sp) x) = betaPDFReal a.p1 a.p2 x :=
  exp_logpdf_beta sp0 sp a hb hα hβ x hx0 hx1

/-- … hence normalised over its support `(0, 1)` -/
theorem beta_density_normalised (sp0 : Fn ℝ) (sp : Sp ℝ) (a : Base ℝ) (hb : a.fam = .beta) (hα : 0 < a.p1)
    (hβ : 0 < a.p2) :
    ∫⁻ x in Ioo 0 1, ENNReal.ofReal (Real.exp (a.logpdfX (realFn sp0) (realSp sp) x)) = 1 := by
  have h1 := lintegral_betaPDF_eq_one hα hβ
  rw [lintegral_betaPDF] at h1
  rw [← h1]
  refine setLIntegral_congr_fun measurableSet_Ioo (fun x hx => ?_)
  rw [exp_logpdf_beta sp0 sp a hb hα hβ x hx.1 hx.2, betaPDFReal, if_pos ⟨hx.1, hx.2⟩]

end AF.C17

namespace AF.C17
open AF.Msg

/-! ## growth: stacking transforms - CDF, density and quantiles of a transformed message built on a transformed message -/

section stacking
variable {F : Type} [Field F]

/-- `_transform` of a stack `trs ++ ts` applies `ts` first (the outer transforms), then `trs` (any depths) -/
theorem transformChain_append (fn : Fn F) (trs ts : List (Tr F)) (x : F) :
    transformChain fn (trs ++ ts) x = transformChain fn trs (transformChain fn ts x) := by
  simp [transformChain, List.foldr_append]

/-- `_inverse_transform` of a stack `trs ++ ts` undoes `trs` first, then `ts` -/
theorem inverseChain_append (fn : Fn F) (trs ts : List (Tr F)) (x : F) :
    inverseChain fn (trs ++ ts) x = inverseChain fn ts (inverseChain fn trs x) := by
  simp [inverseChain, List.foldl_append]

/-- the log-determinants of stacked transforms add, each taken at its own input (induction over the inner stack) -/
theorem transformDet_append (fn : Fn F) (trs ts : List (Tr F)) (x : F) :
    transformDet fn (trs ++ ts) x =
      ((transformDet fn trs (transformChain fn ts x)).1,
       (transformDet fn ts x).2 + (transformDet fn trs (transformChain fn ts x)).2) := by
  induction trs with
  | nil =>
    show transformDet fn ts x = _
    ext
    · simp [transformDet, transformDet_fst]
    · simp [transformDet]
  | cons t rest ih =>
    simp only [List.cons_append, transformDet, ih]
    ext
    · rfl
    · simp only; ring

/-- change of variables through a wrapped message (`TransformedMessage(m, *ts)`, `m` itself transformed to any depth):
its CDF is `m`'s CDF at the transformed point, its density (`factor`) is `m`'s density at the transformed point plus
the log-determinant of the new transforms, `logpdf` omits that term, and its quantile function and mean are `m`'s
mapped back through the new transforms -/
theorem wrap_change_of_variables (fn : Fn F) (m : M F) (ts : List (Tr F)) (id : Option Nat) (lo hi x u : F) :
    (m.wrap ts id lo hi).cdf fn x = m.cdf fn (transformChain fn ts x) ∧
    (m.wrap ts id lo hi).factor fn x = m.factor fn (transformChain fn ts x) + (transformDet fn ts x).2 ∧
    (m.wrap ts id lo hi).logpdf fn x = m.logpdf fn (transformChain fn ts x) ∧
    (m.wrap ts id lo hi).valueFor fn u = inverseChain fn ts (m.valueFor fn u) ∧
    (m.wrap ts id lo hi).mean fn = inverseChain fn ts (m.mean fn) ∧
    (m.wrap ts id lo hi).natural = m.natural := by
  refine ⟨?_, ?_, ?_, ?_, ?_, rfl⟩
  · simp only [M.cdf, M.wrap, M.trs, M.base, transformChain_append]
  · simp only [M.factor, M.wrap, M.trs, M.base, transformDet_append]; ring
  · simp only [M.logpdf, M.wrap, M.trs, M.base, transformChain_append]
  · simp only [M.valueFor, M.wrap, M.trs, M.base, inverseChain_append]
  · simp only [M.mean, M.wrap, M.trs, M.base, inverseChain_append]

end stacking

/-- density ↔ CDF for transformed messages of any stack depth: where the base message's CDF has the base density as
its derivative, the CDF of the transformed message has the density the transformed message reports (`exp(factor)`)
as its derivative (chain rule through the whole stack) -/
theorem transformed_cdf_deriv_is_density (fn : Fn ℝ) (m : M ℝ) (x : ℝ) (h : DerivOK fn m.trs x)
    (hbase : HasDerivAt (m.base.cdf fn) (Real.exp (m.base.logpdf fn (transformChain fn m.trs x)))
      (transformChain fn m.trs x)) :
    HasDerivAt (m.cdf fn) (Real.exp (m.factor fn x)) x := by
  have hT := transformDet_is_log_deriv fn m.trs x h
  have hcomp := HasDerivAt.comp x hbase hT
  have hf : m.cdf fn = (m.base.cdf fn) ∘ (transformChain fn m.trs) := by funext y; rfl
  have hd : Real.exp (m.factor fn x) =
      Real.exp (m.base.logpdf fn (transformChain fn m.trs x)) * Real.exp (transformDet fn m.trs x).2 := by
    simp only [M.factor, transformDet_fst, Real.exp_add]
  rw [hf, hd]; exact hcomp

/-- non-vacuity: the stack of a `UniformPrior(2, 5)` message on top of a log transform is differentiable wherever
the inner point is positive -/
example (sp : Fn ℝ) (x : ℝ) (hx : 0 < (x - 2) / 3) : DerivOK (realFn sp) [.log, .shift 2 3] x := by
  refine ⟨⟨trivial, (logDet_is_log_deriv sp _).1 2 3 (by norm_num)⟩, ?_⟩
  exact (logDet_is_log_deriv sp _).2.1 hx

end AF.C17

/-! # growth: density ↔ CDF for the normal family and its transformed variants -/

namespace AF.C17
open AF.Msg
open Real ProbabilityTheory MeasureTheory Set

/-- density ↔ CDF for a `NormalMessage`: if the function the code takes from scipy as `ndtr` has the standard normal
density as its derivative (the one law of Φ used), then `cdf` has the density the message reports, `exp(logpdf)`,
as its derivative everywhere -/
theorem normal_cdf_deriv_is_density (sp : Fn ℝ) (a : Base ℝ) (hn : a.fam = .normal) (hσ : 0 < a.p2)
    (hΦ : ∀ z : ℝ, HasDerivAt sp.ndtr (Real.exp (-(z ^ 2) / 2) / Real.sqrt (2 * π)) z) (x : ℝ) :
    HasDerivAt (a.cdf (realFn sp)) (Real.exp (a.logpdf (realFn sp) x)) x := by
  have hs : a.p2 ≠ 0 := hσ.ne'
  have hf : a.cdf (realFn sp) = sp.ndtr ∘ (fun y : ℝ => (y - a.p1) / a.p2) := by
    funext y; simp [Base.cdf, Base.mean, Base.sigma, hn, realFn]
  have hin : HasDerivAt (fun y : ℝ => (y - a.p1) / a.p2) (1 / a.p2) x :=
    ((hasDerivAt_id x).sub_const a.p1).div_const a.p2
  have hcomp := HasDerivAt.comp x (hΦ ((x - a.p1) / a.p2)) hin
  have hsqrt : √(2 * π * a.p2 ^ 2) = √(2 * π) * a.p2 := by
    rw [Real.sqrt_mul (by positivity), Real.sqrt_sq hσ.le]
  have h2pi : √(2 * π) ≠ 0 := by positivity
  have e : -(x - a.p1) ^ 2 / (2 * a.p2 ^ 2) = -(((x - a.p1) / a.p2) ^ 2) / 2 := by field_simp
  have hval : gaussianPDFReal a.p1 (varNN a.p2) x =
      Real.exp (-(((x - a.p1) / a.p2) ^ 2) / 2) / √(2 * π) * (1 / a.p2) := by
    simp only [gaussianPDFReal, coe_varNN]
    rw [hsqrt, e]
    field_simp
  rw [hf, exp_logpdf_normal sp a hn hσ x, hval]
  exact hcomp

/-- … and therefore for every transformed variant of it (uniform, log, log10, shifted, any stack): the CDF of the
transformed message has the density it reports (`exp(factor)`) as its derivative -/
theorem transformed_normal_cdf_deriv_is_density (sp : Fn ℝ) (m : M ℝ) (hn : m.base.fam = .normal) (hσ : 0 < m.base.p2)
    (hΦ : ∀ z : ℝ, HasDerivAt sp.ndtr (Real.exp (-(z ^ 2) / 2) / Real.sqrt (2 * π)) z) (x : ℝ)
    (h : DerivOK (realFn sp) m.trs x) :
    HasDerivAt (m.cdf (realFn sp)) (Real.exp (m.factor (realFn sp) x)) x :=
  transformed_cdf_deriv_is_density (realFn sp) m x h (normal_cdf_deriv_is_density sp m.base hn hσ hΦ _)

/-- non-vacuity of the law of Φ: a function with the standard normal density as derivative exists -/
example : ∃ Φ : ℝ → ℝ, ∀ z : ℝ, HasDerivAt Φ (Real.exp (-(z ^ 2) / 2) / Real.sqrt (2 * π)) z :=
  ⟨fun z => ∫ t in (0 : ℝ)..z, Real.exp (-(t ^ 2) / 2) / Real.sqrt (2 * π),
   fun z => (Continuous.integral_hasStrictDerivAt (by fun_prop) 0 z).hasDerivAt⟩

end AF.C17

/-! # growth: moments of the Beta density -/

namespace AF.C17
open AF.Msg
open Real ProbabilityTheory MeasureTheory Set

/-- the moments of the Beta density: for `s > -α`, `∫₀¹ p(x) x^s dx = B(α + s, β) / B(α, β)` -/
theorem beta_density_moment (sp0 : Fn ℝ) (sp : Sp ℝ) (a : Base ℝ) (hb : a.fam = .beta) (hα : 0 < a.p1)
    (hβ : 0 < a.p2) (s : ℝ) (hs : 0 < a.p1 + s) :
    ∫⁻ x in Ioo 0 1, ENNReal.ofReal (Real.exp (a.logpdfX (realFn sp0) (realSp sp) x) * x ^ s) =
      ENNReal.ofReal (ProbabilityTheory.beta (a.p1 + s) a.p2 / ProbabilityTheory.beta a.p1 a.p2) := by
  have hB : 0 < ProbabilityTheory.beta a.p1 a.p2 := beta_pos hα hβ
  have hB' : 0 < ProbabilityTheory.beta (a.p1 + s) a.p2 := beta_pos hs hβ
  have h1 := lintegral_betaPDF_eq_one hs hβ
  rw [lintegral_betaPDF] at h1
  have hcongr : ∀ x ∈ Ioo (0 : ℝ) 1,
      ENNReal.ofReal (Real.exp (a.logpdfX (realFn sp0) (realSp sp) x) * x ^ s) =
        ENNReal.ofReal (ProbabilityTheory.beta (a.p1 + s) a.p2 / ProbabilityTheory.beta a.p1 a.p2) *
          ENNReal.ofReal (1 / ProbabilityTheory.beta (a.p1 + s) a.p2 * x ^ (a.p1 + s - 1) * (1 - x) ^ (a.p2 - 1)) := by
    intro x hx
    rw [← ENNReal.ofReal_mul (by positivity), exp_logpdf_beta sp0 sp a hb hα hβ x hx.1 hx.2, betaPDFReal,
      if_pos ⟨hx.1, hx.2⟩]
    congr 1
    have : x ^ (a.p1 + s - 1) = x ^ (a.p1 - 1) * x ^ s := by
      rw [← Real.rpow_add hx.1]; congr 1; ring
    rw [this]
    field_simp
  rw [setLIntegral_congr_fun measurableSet_Ioo hcongr, lintegral_const_mul' _ _ ENNReal.ofReal_ne_top, h1, mul_one]

/-- the mean of the Beta density is the `mean` the message reports, `α / (α + β)` -/
theorem beta_density_mean (sp0 : Fn ℝ) (sp : Sp ℝ) (a : Base ℝ) (hb : a.fam = .beta) (hα : 0 < a.p1) (hβ : 0 < a.p2) :
    ∫⁻ x in Ioo 0 1, ENNReal.ofReal (Real.exp (a.logpdfX (realFn sp0) (realSp sp) x) * x) = ENNReal.ofReal a.mean := by
  have h := beta_density_moment sp0 sp a hb hα hβ 1 (by linarith)
  simp only [Real.rpow_one] at h
  rw [h]; congr 1
  have h1 := (Real.Gamma_pos_of_pos hα).ne'
  have h2 := (Real.Gamma_pos_of_pos hβ).ne'
  have h3 := (Real.Gamma_pos_of_pos (add_pos hα hβ)).ne'
  have hab : a.p1 + a.p2 ≠ 0 := (add_pos hα hβ).ne'
  simp only [ProbabilityTheory.beta, Base.mean, hb]
  rw [show a.p1 + 1 + a.p2 = (a.p1 + a.p2) + 1 by ring, Real.Gamma_add_one hα.ne', Real.Gamma_add_one hab]
  field_simp

/-- its second moment is `mean² + variance` with the `variance` the message reports -/
theorem beta_density_second_moment (sp0 : Fn ℝ) (sp : Sp ℝ) (a : Base ℝ) (hb : a.fam = .beta) (hα : 0 < a.p1)
    (hβ : 0 < a.p2) :
    ∫⁻ x in Ioo 0 1, ENNReal.ofReal (Real.exp (a.logpdfX (realFn sp0) (realSp sp) x) * x ^ (2 : ℝ)) =
      ENNReal.ofReal (a.mean * a.mean + a.variance (realFn sp0)) := by
  have h := beta_density_moment sp0 sp a hb hα hβ 2 (by linarith)
  rw [h]; congr 1
  have h1 := (Real.Gamma_pos_of_pos hα).ne'
  have h2 := (Real.Gamma_pos_of_pos hβ).ne'
  have h3 := (Real.Gamma_pos_of_pos (add_pos hα hβ)).ne'
  have hab : a.p1 + a.p2 ≠ 0 := (add_pos hα hβ).ne'
  have hab1 : a.p1 + a.p2 + 1 ≠ 0 := by positivity
  simp only [ProbabilityTheory.beta, Base.mean, Base.variance, hb]
  rw [show a.p1 + 2 + a.p2 = ((a.p1 + a.p2) + 1) + 1 by ring, show a.p1 + 2 = (a.p1 + 1) + 1 by ring,
    Real.Gamma_add_one (by linarith : a.p1 + 1 ≠ 0), Real.Gamma_add_one hα.ne', Real.Gamma_add_one hab1,
    Real.Gamma_add_one hab]
  field_simp
  ring

end AF.C17

namespace AF.C17
open AF.Msg

/-- the convergence hypothesis of the moment-matching theorems in terms of the residual the driver evaluates on every
generated case: `Converged` holds exactly when `suffResidual` vanishes (Beta), resp. when it vanishes and the
logarithm is a homomorphism at the one quotient formed (Gamma) -/
theorem converged_iff_residual_zero {K : Type} [Field K] [LinearOrder K] (fn : Fn K) (sp : Sp K) (m1 m2 : K) :
    (Converged fn sp .beta m1 m2 ↔ suffResidual fn sp .beta m1 m2 = (0, 0)) ∧
    (Converged fn sp .gamma m1 m2 ↔
      (suffResidual fn sp .gamma m1 m2 = (0, 0) ∧ invpsilog fn sp (m1 - fn.log m2) ≠ 0 ∧ m2 ≠ 0 ∧
        fn.log (invpsilog fn sp (m1 - fn.log m2) / m2) = fn.log (invpsilog fn sp (m1 - fn.log m2)) - fn.log m2)) := by
  refine ⟨Iff.rfl, ?_⟩
  simp only [Converged, suffResidual, Prod.mk.injEq, and_true, sub_eq_zero]

end AF.C17

namespace AF.C17
open AF.Msg

/-! ## an array message times a scalar message (known finding, modelled as the code behaves) -/

/-- PARTIAL: the product / quotient of a two-element message with a scalar message is the element-wise one only
under the explicit guard that the scalar operand's two natural parameters coincide -/
theorem mixed_shape_broadcast_partial {K : Type} [Field K] (fn : Fn K) (a : Base K) (eb : K × K) (lnB : K) (j : Nat)
    (hguard : eb.1 = eb.2) : a.mulB fn eb j = a.mul fn eb ∧ a.divB fn eb lnB j = a.div fn eb lnB := by
  have e : (if j = 0 then eb.1 else eb.2) = eb.1 := by split <;> simp [hguard]
  have e' : (eb.1, eb.1) = eb := by ext <;> simp [hguard]
  simp only [Base.mulB, Base.divB, e, e', and_self]

/-- the guard is necessary: `GammaMessage([1, 2], [1, 0.5]) * GammaMessage(2, 3)` - the second element of the result has
shape `-1` (an invalid message) where the element-wise product has shape `3` -/
theorem mixed_shape_broadcast_refuted (fn : Fn ℚ) :
    let a1 : Base ℚ := { fam := .gamma, p1 := 2, p2 := 1 / 2, logNorm := 0, id := 0, lower := 0, upper := 0 }
    let eb : ℚ × ℚ := calcNatural .gamma 2 3
    (a1.mulB fn eb 1).p1 = -1 ∧ (a1.mul fn eb).p1 = 3 := by
  simp only [Base.mulB, Base.mul, Base.natural, calcNatural, fromNatural, invertNatural]
  norm_num

end AF.C17

/-! # growth: quotients of densities, variance through stacks, projection of transformed messages -/

namespace AF.C17
open AF.Msg

variable {K : Type} [Field K] [LinearOrder K] [IsStrictOrderedRing K]

/-- the density of `a / b` is the quotient of the densities up to a constant factor -/
theorem density_div_proportional {fn : Fn K} (hs : SqrtLaw fn) (sp : Sp K) (a b : M K) (hf : a.base.fam ≠ .fixed)
    (hfam : ∀ x, toCanonical fn sp b.base.fam x = toCanonical fn sp a.base.fam x)
    (hd : InDomain a.base.fam (a.natural.1 - b.natural.1, a.natural.2 - b.natural.2)) :
    ∃ c : K, ∀ x : K,
      (M.div fn a b).base.logpdfRaw fn sp x = a.base.logpdfRaw fn sp x - b.base.logpdfRaw fn sp x + c := by
  have hnat := div_natural hs a b hf hd
  have hfam' : (M.div fn a b).base.fam = a.base.fam := congrArg (·.1) (arith_keeps_identity fn a b 0 0).2.1.1
  refine ⟨logPartitionGB fn sp a.base.fam a.natural - logPartitionGB fn sp b.base.fam b.natural
      - logPartitionGB fn sp a.base.fam (a.natural.1 - b.natural.1, a.natural.2 - b.natural.2) + logBase fn b.base.fam, ?_⟩
  intro x
  have hn' : (M.div fn a b).base.natural = (a.natural.1 - b.natural.1, a.natural.2 - b.natural.2) := hnat
  rw [logpdfRaw_eq, logpdfRaw_eq, logpdfRaw_eq, hfam', hn', hfam x]
  simp only [M.natural]
  ring

/-- the first-order variance through stacked transforms: the stack `trs ++ ts` continues from where `trs` ended
(any depths; generalises `varianceChain_append`) -/
theorem varianceChain_append_stack (fn : Fn K) (trs ts : List (Tr K)) (mv : K × K) :
    varianceChain fn (trs ++ ts) mv = varianceChain fn ts (varianceChain fn trs mv) := by
  induction trs generalizing mv with
  | nil => rfl
  | cons t rest ih =>
    obtain ⟨m, v⟩ := mv
    simp only [List.cons_append, varianceChain]
    exact ih _

/-- projection of a transformed message (repaired behaviour): the samples are mapped to the space of the base
message, the base message is fitted there, transforms and id are kept; so - when the inversion has converged - the
BASE message's expected sufficient statistics are the weighted means of `t(T x)` -/
theorem transformed_project_moment_matching {fn : Fn K} (hs : SqrtLaw fn) (sp : Sp K) (t : TMsg K) (xs ws : List K)
    (ln : K) (id : Nat) (hlen : xs.length = ws.length) (hn : xs ≠ []) (hw : sumL ws ≠ 0)
    (hc : Converged fn sp t.base.fam
      (sumL (List.zipWith (fun s w => s.1 * w) ((xs.map (transformChain fn t.trs)).map (toCanonical fn sp t.base.fam)) ws) / sumL ws)
      (sumL (List.zipWith (fun s w => s.2 * w) ((xs.map (transformChain fn t.trs)).map (toCanonical fn sp t.base.fam)) ws) / sumL ws)) :
    (∀ lws, (M.projectX fn sp (.transformed t) xs lws id).trs = t.trs ∧
      (M.projectX fn sp (.transformed t) xs lws id).base =
        projectX fn sp t.base.fam (xs.map (transformChain fn t.trs)) lws id) ∧
    (projectWX fn sp t.base.fam (xs.map (transformChain fn t.trs)) ws ln id).expectedStats fn sp =
      (sumL (List.zipWith (fun s w => s.1 * w) ((xs.map (transformChain fn t.trs)).map (toCanonical fn sp t.base.fam)) ws) / sumL ws,
       sumL (List.zipWith (fun s w => s.2 * w) ((xs.map (transformChain fn t.trs)).map (toCanonical fn sp t.base.fam)) ws) / sumL ws) := by
  refine ⟨fun lws => ⟨rfl, rfl⟩, ?_⟩
  exact projectX_moment_matching hs sp t.base.fam _ ws ln id (by simpa using hlen) (by simpa using hn) hw hc

end AF.C17
