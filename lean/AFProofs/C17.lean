import AFProofs.Lemmas.Msg
import AFProofs.Lemmas.MsgReal

/-!
# C17 — messages form a consistent exponential-family algebra

Property theorems about the `Msg` model (`AFModel/Msg.lean`), for every ordered field `K`, every
`sqrt` obeying `SqrtLaw` (`ℝ` with `Real.sqrt` is an instance, see `AFProofs/Lemmas/MsgReal.lean`)
and otherwise arbitrary special functions. The model is tied to /repo by `harness/c17.py`.
-/

set_option linter.unusedSectionVars false

namespace AF.C17
open AF.Msg

variable {K : Type} [Field K] [LinearOrder K] [IsStrictOrderedRing K]

/-! ## multiplying, dividing, raising to a power: additive / linear on natural parameters -/

/-- `a * b`: natural parameters add (plain or transformed operands), provided the sum lies in the
natural-parameter domain of the left operand's class (`η₂ < 0` for `NormalMessage`; no condition for
NaturalNormal, Gamma, Beta). -/
theorem mul_natural {fn : Fn K} (hs : SqrtLaw fn) (a b : M K) (hf : a.base.fam ≠ .fixed)
    (hd : InDomain a.base.fam (a.natural.1 + b.natural.1, a.natural.2 + b.natural.2)) :
    (M.mul fn a b).natural = (a.natural.1 + b.natural.1, a.natural.2 + b.natural.2) := by
  simp only [M.mul, M.natural, M.lift_base, Base.mul_eq fn _ _ hf]
  exact natural_fromNatural hs _ _ _ _ _ _ hd

/-- `a / b`: natural parameters subtract -/
theorem div_natural {fn : Fn K} (hs : SqrtLaw fn) (a b : M K) (hf : a.base.fam ≠ .fixed)
    (hd : InDomain a.base.fam (a.natural.1 - b.natural.1, a.natural.2 - b.natural.2)) :
    (M.div fn a b).natural = (a.natural.1 - b.natural.1, a.natural.2 - b.natural.2) := by
  simp only [M.div, M.natural, M.lift_base, Base.div_eq fn _ _ _ hf]
  exact natural_fromNatural hs _ _ _ _ _ _ hd

/-- `a ** k`: natural parameters scale, for every real exponent that keeps them in the domain -/
theorem pow_natural {fn : Fn K} (hs : SqrtLaw fn) (a : M K) (k : K) (hf : a.base.fam ≠ .fixed)
    (hd : InDomain a.base.fam (k * a.natural.1, k * a.natural.2)) :
    (M.pow fn a k).natural = (k * a.natural.1, k * a.natural.2) := by
  simp only [M.pow, M.natural, M.lift_base, Base.pow_eq fn _ _ hf]
  exact natural_fromNatural hs _ _ _ _ _ _ hd

/-- a valid `NormalMessage` raised to a positive power stays in the domain: no guard needed -/
theorem pow_natural_normal_pos {fn : Fn K} (hs : SqrtLaw fn) (a : M K) (k : K) (hn : a.base.fam = .normal)
    (hσ : 0 < a.base.p2) (hk : 0 < k) :
    (M.pow fn a k).natural = (k * a.natural.1, k * a.natural.2) := by
  apply pow_natural hs a k (by rw [hn]; decide)
  intro _
  have h2 : a.natural.2 < 0 := by
    simp only [M.natural, Base.natural, hn]
    exact normal_natural_snd_neg _ _ hσ
  show k * a.natural.2 < 0
  exact mul_neg_of_pos_of_neg hk h2

/-- class, id and limits of the left operand, and the transform stack, id and limits of a
transformed left operand, survive every operation (no guard) -/
theorem arith_keeps_identity (fn : Fn K) (a b : M K) (k c : K) :
    ((M.mul fn a b).base.ident = a.base.ident ∧ (M.mul fn a b).shell = a.shell) ∧
    ((M.div fn a b).base.ident = a.base.ident ∧ (M.div fn a b).shell = a.shell) ∧
    ((M.pow fn a k).base.ident = a.base.ident ∧ (M.pow fn a k).shell = a.shell) ∧
    ((M.smul fn a c).base.ident = a.base.ident ∧ (M.smul fn a c).shell = a.shell) ∧
    ((M.sdiv fn a c).base.ident = a.base.ident ∧ (M.sdiv fn a c).shell = a.shell) := by
  simp [M.mul, M.div, M.pow, M.smul, M.sdiv, Base.mul_ident, Base.div_ident, Base.pow_ident,
    Base.smul_ident, Base.sdiv_ident]

/-- what the operations do to `log_norm` (as the code behaves: the product is "unnormalised") -/
theorem log_norm_rules (fn : Fn K) (a b : M K) (k c : K) (hf : a.base.fam ≠ .fixed) :
    (M.mul fn a b).base.logNorm = 0 ∧
    (M.div fn a b).base.logNorm = a.base.logNorm - b.base.logNorm ∧
    (M.pow fn a k).base.logNorm = k * a.base.logNorm ∧
    (M.smul fn a c).base.logNorm = a.base.logNorm + fn.log c ∧
    (M.sdiv fn a c).base.logNorm = a.base.logNorm - fn.log c := by
  refine ⟨?_, ?_, ?_, ?_, ?_⟩
  · simp [M.mul, Base.mul_eq fn _ _ hf, fromNatural]
  · simp [M.div, Base.div_eq fn _ _ _ hf, fromNatural]
  · simp [M.pow, Base.pow_eq fn _ _ hf, fromNatural]
  · simp only [M.smul, M.lift_base]; unfold Base.smul; split
    · next h => exact absurd h hf
    · rfl
  · simp [M.sdiv, Base.sdiv]

/-- scaling by a number leaves the distribution alone -/
theorem scalar_keeps_natural (fn : Fn K) (a : M K) (c : K) :
    (M.smul fn a c).natural = a.natural ∧ (M.sdiv fn a c).natural = a.natural := by
  constructor
  · simp only [M.smul, M.natural, M.lift_base]; unfold Base.smul; split <;> rfl
  · simp [M.sdiv, M.natural, Base.sdiv, Base.natural]

/-! ## self-consistency -/

/-- `(a * b) / b` has `a`'s natural parameters, class, id, limits and transform stack; its
`log_norm` is `-b.log_norm` (the code's product is unnormalised). -/
theorem mul_div_cancel {fn : Fn K} (hs : SqrtLaw fn) (a b : M K) (hf : a.base.fam ≠ .fixed)
    (hab : InDomain a.base.fam (a.natural.1 + b.natural.1, a.natural.2 + b.natural.2))
    (ha : InDomain a.base.fam a.natural) :
    (M.div fn (M.mul fn a b) b).natural = a.natural ∧
    (M.div fn (M.mul fn a b) b).base.ident = a.base.ident ∧
    (M.div fn (M.mul fn a b) b).shell = a.shell ∧
    (M.div fn (M.mul fn a b) b).base.logNorm = 0 - b.base.logNorm := by
  have hid := (arith_keeps_identity fn a b 0 0).1
  have hfam : (M.mul fn a b).base.fam = a.base.fam := congrArg (·.1) hid.1
  have hf' : (M.mul fn a b).base.fam ≠ .fixed := by rw [hfam]; exact hf
  have hm := mul_natural hs a b hf hab
  have hd : InDomain (M.mul fn a b).base.fam
      ((M.mul fn a b).natural.1 - b.natural.1, (M.mul fn a b).natural.2 - b.natural.2) := by
    rw [hfam, hm]; simpa using ha
  refine ⟨?_, ?_, ?_, ?_⟩
  · rw [div_natural hs _ b hf' hd, hm]; ext <;> simp
  · rw [(arith_keeps_identity fn (M.mul fn a b) b 0 0).2.1.1, hid.1]
  · rw [(arith_keeps_identity fn (M.mul fn a b) b 0 0).2.1.2, hid.2]
  · rw [(log_norm_rules fn (M.mul fn a b) b 0 0 hf').2.1, (log_norm_rules fn a b 0 0 hf).1]

/-- … and therefore the same ordinary parameters: `(a * b) / b` *is* `a` up to `log_norm`
(for a `NormalMessage` with `sigma > 0`; the other classes need no condition). -/
theorem mul_div_cancel_parameters {fn : Fn K} (hs : SqrtLaw fn) (a b : M K) (hf : a.base.fam ≠ .fixed)
    (hab : InDomain a.base.fam (a.natural.1 + b.natural.1, a.natural.2 + b.natural.2))
    (hσ : a.base.fam = .normal → 0 < a.base.p2) :
    (M.div fn (M.mul fn a b) b).base = { a.base with logNorm := 0 - b.base.logNorm } := by
  have ha : InDomain a.base.fam a.natural := by
    intro hn
    simp only [M.natural, Base.natural, hn]
    exact normal_natural_snd_neg _ _ (hσ hn)
  obtain ⟨hnat, hid, -, hln⟩ := mul_div_cancel hs a b hf hab ha
  have hfam : (M.mul fn a b).base.fam = a.base.fam :=
    congrArg (·.1) (arith_keeps_identity fn a b 0 0).1.1
  have hf' : (M.mul fn a b).base.fam ≠ .fixed := by rw [hfam]; exact hf
  -- the result is `fromNatural` of its natural parameters, which are `a`'s
  have hform : (M.div fn (M.mul fn a b) b).base =
      fromNatural fn a.base.fam a.natural (0 - b.base.logNorm) a.base.id a.base.lower a.base.upper := by
    have hm := mul_natural hs a b hf hab
    simp only [M.div, M.lift_base, Base.div_eq fn _ _ _ hf']
    have e1 : ((M.mul fn a b).base.natural.1 - b.natural.1, (M.mul fn a b).base.natural.2 - b.natural.2) = a.natural := by
      have : (M.mul fn a b).base.natural = (M.mul fn a b).natural := rfl
      rw [this, hm]; ext <;> simp
    have hid' := (arith_keeps_identity fn a b 0 0).1.1
    have h1 : (M.mul fn a b).base.id = a.base.id := congrArg (·.2.1) hid'
    have h2 : (M.mul fn a b).base.lower = a.base.lower := congrArg (·.2.2.1) hid'
    have h3 : (M.mul fn a b).base.upper = a.base.upper := congrArg (·.2.2.2) hid'
    rw [e1, hfam, h1, h2, h3, (log_norm_rules fn a b 0 0 hf).1]
  rw [hform]
  have hinv := invert_calc hs a.base.fam a.base.p1 a.base.p2 hσ
  simp only [fromNatural, M.natural, Base.natural, hinv]

/-! ## powers: repeated powers are products -/

/-- `a**j * a**k` and `a**(j+k)` have the same natural parameters -/
theorem pow_add {fn : Fn K} (hs : SqrtLaw fn) (a : M K) (j k : K) (hf : a.base.fam ≠ .fixed)
    (hj : InDomain a.base.fam (j * a.natural.1, j * a.natural.2))
    (hk : InDomain a.base.fam (k * a.natural.1, k * a.natural.2))
    (hjk : InDomain a.base.fam ((j + k) * a.natural.1, (j + k) * a.natural.2)) :
    (M.mul fn (M.pow fn a j) (M.pow fn a k)).natural = (M.pow fn a (j + k)).natural := by
  have hfam : (M.pow fn a j).base.fam = a.base.fam :=
    congrArg (·.1) (arith_keeps_identity fn a a j 0).2.2.1.1
  have hpj := pow_natural hs a j hf hj
  have hpk := pow_natural hs a k hf hk
  have hd : InDomain (M.pow fn a j).base.fam
      ((M.pow fn a j).natural.1 + (M.pow fn a k).natural.1, (M.pow fn a j).natural.2 + (M.pow fn a k).natural.2) := by
    rw [hfam, hpj, hpk]; intro hn
    have := hjk hn
    simp only at this ⊢
    linarith
  rw [mul_natural hs _ _ (by rw [hfam]; exact hf) hd, hpj, hpk, pow_natural hs a (j + k) hf hjk]
  ext <;> simp <;> ring

/-- `(a**k)**j` and `a**(j*k)` have the same natural parameters -/
theorem pow_mul {fn : Fn K} (hs : SqrtLaw fn) (a : M K) (j k : K) (hf : a.base.fam ≠ .fixed)
    (hk : InDomain a.base.fam (k * a.natural.1, k * a.natural.2))
    (hjk : InDomain a.base.fam ((j * k) * a.natural.1, (j * k) * a.natural.2)) :
    (M.pow fn (M.pow fn a k) j).natural = (M.pow fn a (j * k)).natural := by
  have hfam : (M.pow fn a k).base.fam = a.base.fam :=
    congrArg (·.1) (arith_keeps_identity fn a a k 0).2.2.1.1
  have hpk := pow_natural hs a k hf hk
  have hd : InDomain (M.pow fn a k).base.fam (j * (M.pow fn a k).natural.1, j * (M.pow fn a k).natural.2) := by
    rw [hfam, hpk]; intro hn
    have := hjk hn
    simp only at this ⊢
    linarith
  rw [pow_natural hs _ j (by rw [hfam]; exact hf) hd, hpk, pow_natural hs a (j * k) hf hjk]
  ext <;> simp <;> ring

/-- "a**k repeated equals products": for every `n`, the `(n+1)`-fold product of a message with natural
parameters in the domain has the natural parameters of `a ** (n+1)`, namely `(n+1)·η`. -/
theorem pow_nat_eq_prod {fn : Fn K} (hs : SqrtLaw fn) (a : M K) (hf : a.base.fam ≠ .fixed)
    (ha : InDomain a.base.fam a.natural) (n : Nat) :
    (prodN fn a n).natural = (((n : K) + 1) * a.natural.1, ((n : K) + 1) * a.natural.2) ∧
    (prodN fn a n).natural = (M.pow fn a ((n : K) + 1)).natural ∧
    (prodN fn a n).base.fam = a.base.fam := by
  have hdom : ∀ m : Nat, InDomain a.base.fam (((m : K) + 1) * a.natural.1, ((m : K) + 1) * a.natural.2) := by
    intro m hn
    have h2 : a.natural.2 < 0 := ha hn
    have hm : (0 : K) < (m : K) + 1 := by positivity
    exact mul_neg_of_pos_of_neg hm h2
  induction n with
  | zero =>
    refine ⟨?_, ?_, rfl⟩
    · simp [prodN]
    · rw [pow_natural hs a _ hf (hdom 0)]; simp [prodN]
  | succ n ih =>
    obtain ⟨ih1, -, ih3⟩ := ih
    have hf' : (prodN fn a n).base.fam ≠ .fixed := by rw [ih3]; exact hf
    have hd : InDomain (prodN fn a n).base.fam
        ((prodN fn a n).natural.1 + a.natural.1, (prodN fn a n).natural.2 + a.natural.2) := by
      rw [ih3, ih1]; intro hn
      have := hdom (n + 1) hn
      simp only [Nat.cast_add, Nat.cast_one] at this ⊢
      linarith
    have hstep : (prodN fn a (n + 1)).natural =
        ((((n + 1 : Nat) : K) + 1) * a.natural.1, (((n + 1 : Nat) : K) + 1) * a.natural.2) := by
      show (M.mul fn (prodN fn a n) a).natural = _
      rw [mul_natural hs _ a hf' hd, ih1]
      ext <;> simp <;> ring
    refine ⟨hstep, ?_, ?_⟩
    · rw [hstep, pow_natural hs a _ hf (hdom (n + 1))]
    · show (M.mul fn (prodN fn a n) a).base.fam = _
      rw [show (M.mul fn (prodN fn a n) a).base.fam = (prodN fn a n).base.fam from
        congrArg (·.1) (arith_keeps_identity fn (prodN fn a n) a 0 0).1.1, ih3]

/-- a `FixedMessage` is absorbing: product, quotient and power return it unchanged -/
theorem fixed_absorbs (fn : Fn K) (a b : M K) (k : K) (hf : a.base.fam = .fixed) :
    (M.mul fn a b).base = a.base ∧ (M.div fn a b).base = a.base ∧ (M.pow fn a k).base = a.base := by
  refine ⟨?_, ?_, ?_⟩
  · simp only [M.mul, M.lift_base]; unfold Base.mul; rw [hf]
  · simp only [M.div, M.lift_base]; unfold Base.div; rw [hf]
  · simp only [M.pow, M.lift_base]; unfold Base.pow; rw [hf]

/-! ## conversions round-trip -/

/-- natural → ordinary → natural (`from_natural_parameters(η).natural_parameters = η`) on the domain -/
theorem natural_roundtrip {fn : Fn K} (hs : SqrtLaw fn) (fam : Family) (eta : K × K) (ln : K) (id : Nat)
    (lo hi : K) (hd : InDomain fam eta) : (fromNatural fn fam eta ln id lo hi).natural = eta :=
  natural_fromNatural hs fam eta ln id lo hi hd

/-- ordinary → natural → ordinary: `from_natural_parameters(m.natural_parameters)` has `m`'s parameters
(`sigma > 0` for a `NormalMessage`) -/
theorem ordinary_roundtrip {fn : Fn K} (hs : SqrtLaw fn) (a : Base K) (hσ : a.fam = .normal → 0 < a.p2) :
    fromNatural fn a.fam a.natural a.logNorm a.id a.lower a.upper = a := by
  have h := invert_calc hs a.fam a.p1 a.p2 hσ
  simp only [fromNatural, Base.natural, h]

/-- `NormalMessage.natural` is the same distribution in natural form, with the same log_norm, id and limits -/
theorem toNatural_same (a : Base K) (hn : a.fam = .normal) :
    a.toNatural.natural = a.natural ∧ a.toNatural.fam = .naturalNormal ∧ a.toNatural.logNorm = a.logNorm ∧
    a.toNatural.id = a.id ∧ a.toNatural.lower = a.lower ∧ a.toNatural.upper = a.upper := by
  simp [Base.toNatural, hn, Base.natural, calcNatural]

/-- sufficient statistics → message: for moments `m₂ > m₁²` the member returned by
`from_sufficient_statistics` (Normal or NaturalNormal) has exactly those moments:
`E[x] = m₁`, `E[x²] = mean² + variance = m₂`. -/
theorem fromSuff_moments {fn : Fn K} (hs : SqrtLaw fn) (fam : Family)
    (hfam : fam = .normal ∨ fam = .naturalNormal) (m1 m2 ln : K) (id : Nat) (hv : 0 < m2 - m1 * m1) :
    (fromSuff fn fam m1 m2 ln id).mean = m1 ∧
    (fromSuff fn fam m1 m2 ln id).mean * (fromSuff fn fam m1 m2 ln id).mean +
      (fromSuff fn fam m1 m2 ln id).variance fn = m2 := by
  have hne : m2 - m1 * m1 ≠ 0 := ne_of_gt hv
  have hsq := hs.sq _ hv.le
  rcases hfam with h | h <;> subst h
  · -- NormalMessage: sigma = sqrt(m2 - m1^2), then natural -> ordinary
    have hpos : 0 < fn.sqrt (m2 - m1 * m1) := by
      rcases (hs.nonneg (m2 - m1 * m1)).lt_or_eq with h | h
      · exact h
      · rw [← h] at hsq; simp at hsq; exact absurd hsq.symm hne
    have hinv := invert_calc hs .normal m1 (fn.sqrt (m2 - m1 * m1)) (fun _ => hpos)
    simp only [fromSuff, fromNatural, invertSuff, hinv, Base.mean, Base.variance, hsq]
    constructor
    · trivial
    · ring
  · simp only [fromSuff, fromNatural, invertSuff, invertNatural, Base.mean, Base.variance]
    have e : -(2 * (-(1 / (m2 - m1 * m1)) / 2)) = 1 / (m2 - m1 * m1) := by field_simp
    have hpos : (0 : K) ≤ 1 / (m2 - m1 * m1) := by positivity
    have hsq' := hs.sq _ hpos
    have hsne : fn.sqrt (1 / (m2 - m1 * m1)) ≠ 0 := by
      intro h0; rw [h0, mul_zero] at hsq'; exact (one_div_ne_zero hne) hsq'.symm
    have hne' : m2 - m1 ^ 2 ≠ 0 := by rw [pow_two]; exact hne
    constructor
    · field_simp
    · rw [e]
      have : 1 / fn.sqrt (1 / (m2 - m1 * m1)) * (1 / fn.sqrt (1 / (m2 - m1 * m1))) = m2 - m1 * m1 := by
        rw [div_mul_div_comm, hsq']; field_simp
      rw [this]; field_simp; ring

/-- the sufficient statistics of `NormalMessage(μ, σ)` give back `NormalMessage(μ, σ)` -/
theorem suffstat_roundtrip {fn : Fn K} (hs : SqrtLaw fn) (mu sigma ln : K) (id : Nat) (hσ : 0 < sigma) :
    (fromSuff fn .normal mu (mu * mu + sigma * sigma) ln id).p1 = mu ∧
    (fromSuff fn .normal mu (mu * mu + sigma * sigma) ln id).p2 = sigma := by
  have e : mu * mu + sigma * sigma - mu * mu = sigma * sigma := by ring
  have hroot : fn.sqrt (sigma * sigma) = sigma :=
    (mul_self_inj (hs.nonneg _) hσ.le).1 (hs.sq _ (by positivity))
  have hinv := invert_calc hs .normal mu sigma (fun _ => hσ)
  simp only [fromSuff, fromNatural, invertSuff, e, hroot, hinv, and_self]

/-! ## projection of weighted samples -/

/-- the statistics `project` hands on are the weighted sample moments `Σwx/Σw`, `Σwx²/Σw`
(any number of samples, any weights with non-zero sum) -/
theorem weightedStats_eq (xs ws : List K) (hlen : xs.length = ws.length) (hn : xs ≠ [])
    (hw : sumL ws ≠ 0) :
    weightedStats xs ws =
      (sumL (List.zipWith (fun x w => x * w) xs ws) / sumL ws,
       sumL (List.zipWith (fun x w => x * x * w) xs ws) / sumL ws) := by
  have hl : (xs.length : K) ≠ 0 := by
    have : xs.length ≠ 0 := by simpa using hn
    exact_mod_cast this
  have hl' : (ws.length : K) ≠ 0 := by rw [← hlen]; exact hl
  simp only [weightedStats, meanL]
  have h1 := sumL_zipWith_div (fun x => x) xs ws (sumL ws / (ws.length : K))
  have h2 := sumL_zipWith_div (fun x => x * x) xs ws (sumL ws / (ws.length : K))
  rw [h1, h2]
  have len1 : (List.zipWith (fun x w => x * w) xs (List.map (fun x => x / (sumL ws / (ws.length : K))) ws)).length
      = ws.length := by simp [hlen]
  have len2 : (List.zipWith (fun x w => x * x * w) xs (List.map (fun x => x / (sumL ws / (ws.length : K))) ws)).length
      = ws.length := by simp [hlen]
  rw [len1, len2]
  ext <;> simp only <;> field_simp

/-- moment matching: the `NormalMessage` returned by `project` has mean `Σwx/Σw` and variance
`Σwx²/Σw − mean²` (when that is positive) -/
theorem project_matches_weighted_moments {fn : Fn K} (hs : SqrtLaw fn) (fam : Family)
    (hfam : fam = .normal ∨ fam = .naturalNormal) (xs ws : List K) (ln : K) (id : Nat)
    (hlen : xs.length = ws.length) (hn : xs ≠ []) (hw : sumL ws ≠ 0)
    (hv : 0 < sumL (List.zipWith (fun x w => x * x * w) xs ws) / sumL ws -
      (sumL (List.zipWith (fun x w => x * w) xs ws) / sumL ws) *
      (sumL (List.zipWith (fun x w => x * w) xs ws) / sumL ws)) :
    (projectW fn fam xs ws ln id).mean = sumL (List.zipWith (fun x w => x * w) xs ws) / sumL ws ∧
    (projectW fn fam xs ws ln id).mean * (projectW fn fam xs ws ln id).mean +
      (projectW fn fam xs ws ln id).variance fn = sumL (List.zipWith (fun x w => x * x * w) xs ws) / sumL ws := by
  simp only [projectW, weightedStats_eq xs ws hlen hn hw]
  exact fromSuff_moments hs fam hfam _ _ ln id hv

/-! ## the guard is necessary: outside the domain the code is *not* linear (known finding) -/

open Real in
/-- `NormalMessage(1, 2) ** -1` over the reals: `sqrt` of a negative number is `0`, the detour through
`(mean, sigma)` loses the natural parameters (the float code yields NaN). Linearity fails. -/
theorem normal_pow_refuted_outside_domain (sp : Fn ℝ) :
    let a : M ℝ := .plain { fam := .normal, p1 := 1, p2 := 2, logNorm := 0, id := 0, lower := 0, upper := 0 }
    (M.pow (realFn sp) a (-1)).natural ≠ (-1 * a.natural.1, -1 * a.natural.2) := by
  intro a h
  have h2 := congrArg Prod.snd h
  simp only [a, M.pow, M.lift, M.natural, M.base, Base.pow, Base.natural, fromNatural, invertNatural, calcNatural,
    realFn] at h2
  have hneg : -(1 / 2 : ℝ) / (-1 * (-(1 / (2 * 2)) / 2)) ≤ 0 := by norm_num
  rw [Real.sqrt_eq_zero_of_nonpos hneg] at h2
  norm_num at h2

/-! ## the density a normal message reports (real numbers, Mathlib's Gaussian) -/

open Real ProbabilityTheory MeasureTheory

/-- `exp(logpdf x)` of `NormalMessage(μ, σ)`, `σ > 0`, is the Gaussian density with mean `μ`, variance `σ²` -/
theorem normal_density_is_gaussian (sp : Fn ℝ) (a : Base ℝ) (hn : a.fam = .normal) (hσ : 0 < a.p2) (x : ℝ) :
    Real.exp (a.logpdf (realFn sp) x) = gaussianPDFReal a.p1 (varNN a.p2) x :=
  exp_logpdf_normal sp a hn hσ x

/-- … hence it is normalised over its support (the whole line) -/
theorem normal_density_normalised (sp : Fn ℝ) (a : Base ℝ) (hn : a.fam = .normal) (hσ : 0 < a.p2) :
    ∫ x, Real.exp (a.logpdf (realFn sp) x) = 1 := by
  simp only [exp_logpdf_normal sp a hn hσ]
  exact integral_gaussianPDFReal_eq_one _ (varNN_ne_zero hσ)

/-- … its mean is the `mean` the message reports -/
theorem normal_density_mean (sp : Fn ℝ) (a : Base ℝ) (hn : a.fam = .normal) (hσ : 0 < a.p2) :
    ∫ x, Real.exp (a.logpdf (realFn sp) x) * x = a.mean := by
  simp only [exp_logpdf_normal sp a hn hσ]
  have := integral_gaussianReal_eq_integral_smul (μ := a.p1) (f := fun x => x) (varNN_ne_zero hσ)
  simp only [smul_eq_mul] at this
  rw [← this, integral_id_gaussianReal]
  simp [Base.mean, hn]

/-- … and its variance is the `variance` the message reports -/
theorem normal_density_variance (sp : Fn ℝ) (a : Base ℝ) (hn : a.fam = .normal) (hσ : 0 < a.p2) :
    ∫ x, Real.exp (a.logpdf (realFn sp) x) * (x - a.mean) ^ 2 = a.variance (realFn sp) := by
  simp only [exp_logpdf_normal sp a hn hσ]
  have h1 := integral_gaussianReal_eq_integral_smul (μ := a.p1) (f := fun x => (x - a.p1) ^ 2)
    (varNN_ne_zero hσ)
  simp only [smul_eq_mul] at h1
  have hm : a.mean = a.p1 := by simp [Base.mean, hn]
  rw [hm, ← h1]
  have h2 := variance_fun_id_gaussianReal (μ := a.p1) (v := varNN a.p2)
  rw [variance_eq_integral measurable_id'.aemeasurable] at h2
  simp only [integral_id_gaussianReal] at h2
  rw [h2]
  simp [Base.variance, hn, pow_two]

/-! ## transformed messages: the stack is undone in the right order, the density carries the determinant -/

section transforms
variable {F : Type} [Field F]

/-- `_inverse_transform(_transform(x)) = x`: `_transform` applies the stack last-to-first, `_inverse_transform`
first-to-last, so each transform meets its own inverse (any stack, any length). -/
theorem inverse_transform_roundtrip (fn : Fn F) (trs : List (Tr F)) (x : F) (h : ChainOK fn trs x) :
    inverseChain fn trs (transformChain fn trs x) = x := by
  induction trs with
  | nil => rfl
  | cons t rest ih =>
    obtain ⟨hrest, ht⟩ := h
    show inverseChain fn rest (t.inv fn (t.apply fn (transformChain fn rest x))) = x
    rw [ht]; exact ih hrest

/-- a `LinearShiftTransform` with non-zero scale is undone by its inverse everywhere -/
theorem shift_invAt (fn : Fn F) (s c y : F) (hc : c ≠ 0) : InvAt fn (.shift s c) y := by
  simp only [InvAt, Tr.apply, Tr.inv]; field_simp; ring

/-- the first component of `_transform_det` is `_transform` -/
theorem transformDet_fst (fn : Fn F) (trs : List (Tr F)) (x : F) :
    (transformDet fn trs x).1 = transformChain fn trs x := by
  induction trs with
  | nil => rfl
  | cons t rest ih => simp only [transformDet, ih]; rfl

/-- `factor(x) = base.logpdf(T x) + log|det|` and `logpdf(x) = base.logpdf(T x)`: the two differ exactly by
the accumulated log-determinant (the known finding about `TransformedMessage.logpdf`) -/
theorem factor_eq_logpdf_add_logdet (fn : Fn F) (m : M F) (x : F) :
    m.factor fn x = m.logpdf fn x + (transformDet fn m.trs x).2 := by
  simp only [M.factor, M.logpdf, transformDet_fst]

end transforms

open Real in
/-- `log`, `exp`, `log10` are undone by `exp`, `log`, `10**` (real numbers) -/
theorem real_invAt (sp : Fn ℝ) (y : ℝ) :
    (0 < y → InvAt (realFn sp) .log y) ∧ InvAt (realFn sp) .exp y ∧ (0 < y → InvAt (realFn sp) .log10 y) := by
  refine ⟨fun hy => ?_, ?_, fun hy => ?_⟩
  · simp only [InvAt, Tr.apply, Tr.inv, realFn]; exact Real.exp_log hy
  · simp only [InvAt, Tr.apply, Tr.inv, realFn]; exact Real.log_exp y
  · simp only [InvAt, Tr.apply, Tr.inv, realFn]
    have h10 : (0 : ℝ) < 10 := by norm_num
    have hl : Real.log 10 ≠ 0 := ne_of_gt (Real.log_pos (by norm_num))
    rw [Real.rpow_def_of_pos h10, mul_div_cancel₀ _ hl, Real.exp_log hy]

/-- each transform's `log_det` is the logarithm of its (positive) derivative -/
theorem logDet_is_log_deriv (sp : Fn ℝ) (x : ℝ) :
    (∀ s c : ℝ, 0 < c → HasDerivAt (Tr.apply (realFn sp) (.shift s c)) (Real.exp (Tr.logDet (realFn sp) (.shift s c) x)) x) ∧
    (0 < x → HasDerivAt (Tr.apply (realFn sp) .log) (Real.exp (Tr.logDet (realFn sp) .log x)) x) ∧
    (0 < x → HasDerivAt (Tr.apply (realFn sp) .log10) (Real.exp (Tr.logDet (realFn sp) .log10 x)) x) ∧
    HasDerivAt (Tr.apply (realFn sp) .exp) (Real.exp (Tr.logDet (realFn sp) .exp x)) x := by
  refine ⟨fun s c hc => ?_, fun hx => ?_, fun hx => ?_, ?_⟩
  · have hf : Tr.apply (realFn sp) (.shift s c) = fun y : ℝ => (y - s) / c := by funext y; rfl
    have hd : Real.exp (Tr.logDet (realFn sp) (.shift s c) x) = 1 / c := by
      simp only [Tr.logDet, realFn, Real.exp_neg, Real.exp_log hc, one_div]
    rw [hf, hd]
    exact ((hasDerivAt_id x).sub_const s).div_const c
  · have hpos : (0 : ℝ) < 1 / x := by positivity
    have hf : Tr.apply (realFn sp) .log = Real.log := by funext y; rfl
    have hd : Real.exp (Tr.logDet (realFn sp) .log x) = x⁻¹ := by
      simp only [Tr.logDet, realFn]
      rw [Real.exp_log hpos, one_div]
    rw [hf, hd]
    exact Real.hasDerivAt_log (ne_of_gt hx)
  · have h10 : (2 + 2 + 2 + 2 + 2 : ℝ) = 10 := by norm_num
    have hl : 0 < Real.log 10 := Real.log_pos (by norm_num)
    have hpos : (0 : ℝ) < 1 / x / Real.log 10 := by positivity
    have hf : Tr.apply (realFn sp) .log10 = fun y : ℝ => Real.log y / Real.log 10 := by funext y; rfl
    have hd : Real.exp (Tr.logDet (realFn sp) .log10 x) = x⁻¹ / Real.log 10 := by
      simp only [Tr.logDet, realFn, h10]
      rw [Real.exp_log hpos, one_div]
    rw [hf, hd]
    exact (Real.hasDerivAt_log (ne_of_gt hx)).div_const (Real.log 10)
  · have hf : Tr.apply (realFn sp) .exp = Real.exp := by funext y; rfl
    have hd : Real.exp (Tr.logDet (realFn sp) .exp x) = Real.exp x := by
      simp only [Tr.logDet, realFn, Real.log_exp]
    rw [hf, hd]
    exact Real.hasDerivAt_exp x

/-- change of variables, pointwise: the accumulated log-determinant of `_transform_det` is the logarithm of
the derivative of the whole `_transform` (chain rule through any stack) … -/
theorem transformDet_is_log_deriv (fn : Fn ℝ) (trs : List (Tr ℝ)) (x : ℝ) (h : DerivOK fn trs x) :
    HasDerivAt (transformChain fn trs) (Real.exp (transformDet fn trs x).2) x := by
  induction trs with
  | nil =>
    have hf : transformChain fn [] = id := by funext y; rfl
    have hd : Real.exp (transformDet fn [] x).2 = 1 := by simp [transformDet]
    rw [hf, hd]; exact hasDerivAt_id x
  | cons t rest ih =>
    obtain ⟨hrest, ht⟩ := h
    have hcomp := HasDerivAt.comp x ht (ih hrest)
    have e : Real.exp (transformDet fn (t :: rest) x).2 =
        Real.exp (t.logDet fn (transformChain fn rest x)) * Real.exp (transformDet fn rest x).2 := by
      simp only [transformDet, transformDet_fst, Real.exp_add]; ring
    rw [e]
    exact hcomp

/-- … so the density a transformed message reports, `exp(factor x)`, is the base density at the
transformed point times the derivative of the transform: `p(x) = p_base(T x) · T′(x)`. -/
theorem transformed_density_change_of_variables (fn : Fn ℝ) (m : M ℝ) (x : ℝ) (h : DerivOK fn m.trs x) :
    ∃ d : ℝ, HasDerivAt (transformChain fn m.trs) d x ∧ 0 < d ∧
      Real.exp (m.factor fn x) = Real.exp (m.base.logpdf fn (transformChain fn m.trs x)) * d := by
  refine ⟨Real.exp (transformDet fn m.trs x).2, transformDet_is_log_deriv fn m.trs x h, Real.exp_pos _, ?_⟩
  simp only [M.factor, transformDet_fst, Real.exp_add]

/-! ## non-vacuity: concrete messages meeting the hypotheses -/

/-- the reals with `Real.sqrt` satisfy `SqrtLaw` -/
example (sp : Fn ℝ) : SqrtLaw (realFn sp) := realFn_sqrtLaw sp

/-- `NormalMessage(1, 2) * NormalMessage(1/2, 3/2)`: the sum of natural parameters is in the domain -/
example : InDomain (K := ℚ) .normal
    ((calcNatural .normal (1 : ℚ) 2).1 + (calcNatural .normal (1 / 2 : ℚ) (3 / 2)).1,
     (calcNatural .normal (1 : ℚ) 2).2 + (calcNatural .normal (1 / 2 : ℚ) (3 / 2)).2) := by
  intro _; simp only [calcNatural]; norm_num

/-- the stack of a `UniformPrior(2, 5)` message, `[phi, shift 2 3]`, is undone in order as soon as
`Φ(Φ⁻¹ u) = u` at the one point where it is used -/
example (fn : Fn ℚ) (x : ℚ) (hΦ : fn.ndtr (fn.ndtri ((x - 2) / 3)) = (x - 2) / 3) :
    inverseChain fn [.phi, .shift 2 3] (transformChain fn [.phi, .shift 2 3] x) = x := by
  apply inverse_transform_roundtrip
  refine ⟨⟨trivial, shift_invAt fn 2 3 _ (by norm_num)⟩, ?_⟩
  simpa [InvAt, Tr.apply, Tr.inv, transformChain] using hΦ

end AF.C17

namespace AF.C17
open AF.Msg

variable {K : Type} [Field K] [LinearOrder K] [IsStrictOrderedRing K]

/-! ## first-order variance of a transformed message -/

/-- the point at which each Jacobian of `TransformedMessage.variance` is taken is the running mean:
after the whole stack it is the mean the message reports -/
theorem varianceChain_mean (fn : Fn K) : ∀ (trs : List (Tr K)) (m v : K),
    (varianceChain fn trs (m, v)).1 = inverseChain fn trs m
  | [], m, v => rfl
  | t :: rest, m, v => by
      simp only [varianceChain, inverseChain, List.foldl_cons]
      exact varianceChain_mean fn rest _ _

/-- a plain message reports the variance of its parameters -/
theorem variance_plain (fn : Fn K) (b : Base K) : (M.plain b).variance fn = b.variance fn := rfl

/-- one more transform *at the end of the stack* rescales the variance by the squared inverse Jacobian
of that transform at the new mean (the recursion of the implementation, stated from the outside) -/
theorem varianceChain_append (fn : Fn K) (trs : List (Tr K)) (t : Tr K) (m v : K) :
    varianceChain fn (trs ++ [t]) (m, v) =
      (t.inv fn (varianceChain fn trs (m, v)).1,
       (varianceChain fn trs (m, v)).2 * (1 / t.grad fn (t.inv fn (varianceChain fn trs (m, v)).1)) *
         (1 / t.grad fn (t.inv fn (varianceChain fn trs (m, v)).1))) := by
  induction trs generalizing m v with
  | nil => rfl
  | cons a rest ih => simp only [List.cons_append, varianceChain]; exact ih _ _

/-- a stack of shifts/scalings only (the affine part of every prior's message) multiplies the variance by
the product of the squared scales, wherever the mean is: the scale² law -/
theorem variance_affine (fn : Fn K) : ∀ (ss : List (K × K)) (m v : K), (∀ sc ∈ ss, sc.2 ≠ 0) →
    (varianceChain fn (ss.map fun sc => Tr.shift sc.1 sc.2) (m, v)).2 =
      v * (ss.map fun sc => sc.2 * sc.2).prod
  | [], m, v, _ => by simp [varianceChain]
  | sc :: rest, m, v, h => by
      have hc : sc.2 ≠ 0 := h sc (List.mem_cons_self ..)
      simp only [List.map_cons, varianceChain, Tr.grad, List.prod_cons]
      rw [variance_affine fn rest _ _ (fun x hx => h x (List.mem_cons_of_mem _ hx))]
      field_simp

/-- a stand-in for the special functions over `ℚ` (only `exp`, `log` are used below: x², x) -/
def fnQ : Fn ℚ :=
  { sqrt := id, log := id, exp := fun x => x * x, log10 := id, exp10 := id, ndtr := id, ndtri := id,
    erfinv := id, normPdf := id, negInf := -1, posInf := 1, halfLog2Pi := 1, isFinite := fun _ => true,
    le := fun a b => decide (a ≤ b), max := fun a b => if a ≤ b then b else a }

/-- the order of the stack matters: with a non-linear transform and a scaling, reversing the stack
changes the result (non-vacuity of "in the order of the stack"; `ℚ` with the stand-ins above) -/
example : (varianceChain fnQ [Tr.exp, Tr.shift 0 3] (2, 1)).2 ≠
    (varianceChain fnQ [Tr.shift 0 3, Tr.exp] (2, 1)).2 := by
  decide +kernel

end AF.C17
