import AFProofs.Lemmas.SamplesIO

/-!
# C09 — samples survive persistence and reload identically

Subject: the executable model `AF.SamplesIO` (`AFModel/SamplesIO.lean`) that the driver runs beside
the real code on every generated case. `Shape` is what `Samples` asks of its model (`all_paths`,
`all_names`, `unique_prior_paths`, in id order); `WF` is a decidable well-formedness predicate the
driver evaluates on the shape of every generated composition (`"wf"` in its answer). `cfg` carries
the two finding flags; `true` is the behaviour with `fixes/C09-sample-keys-and-zero-values.patch`.

* `csv_roundtrip` — table (`samples.csv`): for every model shape, every list of samples the fit
  could write and every column padding, the table loads, and the loaded samples give the same
  parameter value for every parameter, the same log-likelihood, log-prior and weight, sample by
  sample in the same order. Full strength with `keysNormalised`; for the pinned look-up
  (`Route`) only for models whose columns are all top-level or all nested
  (`csv_refuted_when_keys_off`: a top-level parameter beside a nested one cannot be read back).
* `summary_roundtrip` — summary (`samples_summary.json`): the best-fit / median sample comes back
  with the same numbers; for the pinned dictionary reader only when no value is zero
  (`summary_refuted_when_falsy_off`).
* `efficient_roundtrip` — database rows: the samples come back *equal* (keys, order, values).
* `best_fit_preserved`, `derived_equal`, `csv_best_fit` — best fit, medians and errors are functions
  of what is preserved, hence equal.
* `from_lists_lookup`, `text_of_key_reads_back` — the samples of a fit are looked up in parameter
  order; `".".join` / `.split(".")` are inverse on paths of clean names.
-/

namespace AF.C09
open AF AF.SamplesIO

variable {V T : Type}

/-- **the text of a column reads back as its path** -/
theorem text_of_key_reads_back (p : NPath) (hne : p ≠ []) (hclean : ∀ c ∈ p, '.' ∉ c) :
    splitDots (joinDots p) = p :=
  splitDots_joinDots p hne hclean

/-- **A fit's own samples** (`Sample.from_lists`) are looked up in parameter order, under both the
pinned and the repaired look-up: value `ps[i]` for parameter `i`. -/
theorem from_lists_lookup (cfg : Cfg) {sh : Shape} (wf : WF sh) (ll lp w : V) (ps : List V)
    (hlen : ps.length = sh.length) :
    paramList cfg sh (fromVector sh ll lp w ps) = some ps :=
  paramList_fromVector cfg wf ll lp w ps hlen

/-- **Table round trip.** Whatever list of samples `write_table` could write (`saveCsv … = some tb`,
i.e. the fit itself did not fail), for every padding of the header cells and every number text with
`rd (shw x) = x`: `load_from_table` succeeds, returns as many samples in the same order with the
same log-likelihood, log-prior and weight, and the parameter values looked up in the loaded samples
are those looked up in the original ones (and the look-up succeeds). -/
theorem csv_roundtrip (cfg : Cfg) (ops : VOps V) {sh : Shape} (wf : WF sh) (hr : Route cfg sh)
    (pads : List Nat) (shw : V → T) (rd : T → V) (hrd : ∀ x, rd (shw x) = x)
    (ss : List (Sample V)) (tb : Table T) (hsave : saveCsv cfg ops sh pads shw ss = some tb) :
    ∃ ss' pss, loadCsv rd tb = some ss' ∧
      ss'.map (·.ll) = ss.map (·.ll) ∧ ss'.map (·.lp) = ss.map (·.lp) ∧ ss'.map (·.w) = ss.map (·.w) ∧
      mapOpt (paramList cfg sh) ss' = some pss ∧ mapOpt (paramList cfg sh) ss = some pss := by
  unfold saveCsv at hsave
  cases hrows : mapOpt (rowOf cfg ops sh) ss with
  | none => rw [hrows] at hsave; cases hsave
  | some rows =>
    rw [hrows] at hsave
    cases hsave
    obtain ⟨ss', pss, h1, h2⟩ := csv_rows cfg ops wf hr shw rd hrd ss rows hrows
    refine ⟨ss', pss, ?_, h2⟩
    unfold loadCsv
    simp only
    rw [map_stripSp_padHeaders pads (headers sh) (headers_noBlank wf)]
    exact h1

/-- full strength for the repaired look-up: no condition on the shape beyond `WF` -/
theorem csv_roundtrip_repaired (ops : VOps V) {sh : Shape} (wf : WF sh)
    (pads : List Nat) (shw : V → T) (rd : T → V) (hrd : ∀ x, rd (shw x) = x)
    (ss : List (Sample V)) (tb : Table T) (hsave : saveCsv {} ops sh pads shw ss = some tb) :
    ∃ ss' pss, loadCsv rd tb = some ss' ∧
      ss'.map (·.ll) = ss.map (·.ll) ∧ ss'.map (·.lp) = ss.map (·.lp) ∧ ss'.map (·.w) = ss.map (·.w) ∧
      mapOpt (paramList {} sh) ss' = some pss ∧ mapOpt (paramList {} sh) ss = some pss :=
  csv_roundtrip {} ops wf (Or.inl rfl) pads shw rd hrd ss tb hsave

/-- **Summary round trip.** The best-fit (or median) sample of a fit, written by `Sample.dict` and
read by `from_dict`, keeps its log-likelihood, log-prior and weight and gives value `ps[i]` for
parameter `i` — provided the dictionary reader keeps zeros or no value is zero, and the look-up is
the repaired one or the columns are all top-level / all nested. -/
theorem summary_roundtrip (cfg : Cfg) (ops : VOps V) {sh : Shape} (wf : WF sh) (hr : Route cfg sh)
    (ll lp w : V) (ps : List V) (hlen : ps.length = sh.length)
    (hz : cfg.dictKeepsFalsy = true ∨ ∀ v ∈ ps, ops.isZero v = false) :
    let s' := summaryRoundtrip cfg ops (fromVector sh ll lp w ps)
    s'.ll = ll ∧ s'.lp = lp ∧ s'.w = w ∧ paramList cfg sh s' = some ps := by
  intro s'
  have h : s' = tableSample sh ll lp w ps := summaryRoundtrip_fromVector cfg ops wf ll lp w ps hlen hz
  rw [h]
  exact ⟨rfl, rfl, rfl, paramList_tableSample cfg wf hr ll lp w ps hlen⟩

/-- **Database rows.** Samples whose keys are as the `Sample` constructor leaves them and that all
carry the same key sequence (every `Sample.from_lists` list does) come back equal: same keys, same
order, same values, same likelihoods, priors and weights. -/
theorem efficient_roundtrip (ss : List (Sample V)) (hn : ∀ s ∈ ss, NormalKeys s)
    (hk : ∀ s ∈ ss, ∀ s' ∈ ss, s.kwargs.map (·.1) = s'.kwargs.map (·.1)) :
    (toEfficient ss).map ofEfficient = some ss := by
  cases ss with
  | nil => rfl
  | cons s0 rest =>
    have hall : ∀ s ∈ s0 :: rest, s.kwargs.map (·.1) = s0.kwargs.map (·.1) ∧ NormalKeys s :=
      fun s hs => ⟨hk s hs s0 (by simp), hn s hs⟩
    unfold toEfficient
    simp only
    rw [mapOpt_values (s0.kwargs.map (·.1)) (s0 :: rest) hall]
    simp only [Option.map_some, ofEfficient]
    rw [zipSamples_same_keys (s0.kwargs.map (·.1)) (s0 :: rest) hall]

/-- every sample built by the `Sample` constructor has keys as `efficient_roundtrip` wants them -/
theorem constructed_normal (ll lp w : V) (kw : List (Key × V)) : NormalKeys (mkSample ll lp w kw) :=
  mkSample_normal ll lp w kw

/-- **Database rows, keys in any order.** Samples that hold the same *set* of keys as the first one,
in whatever order (hand-built or concatenated sample lists), come back with the same likelihoods,
priors, weights, in the same order, and with the same looked-up parameter values (repaired
look-up, which does not depend on which key comes first). -/
theorem efficient_any_key_order (cfg : Cfg) (hc : cfg.keysNormalised = true) (sh : Shape)
    (s0 : Sample V) (rest : List (Sample V)) (hn : NormalKeys s0)
    (hset : ∀ s ∈ s0 :: rest, ∀ k, k ∈ s0.kwargs.map (·.1) ↔ k ∈ s.kwargs.map (·.1)) :
    ∃ ss', (toEfficient (s0 :: rest)).map ofEfficient = some ss' ∧
      ss'.map (·.ll) = (s0 :: rest).map (·.ll) ∧ ss'.map (·.lp) = (s0 :: rest).map (·.lp) ∧
      ss'.map (·.w) = (s0 :: rest).map (·.w) ∧
      mapOpt (paramList cfg sh) ss' = mapOpt (paramList cfg sh) (s0 :: rest) := by
  obtain ⟨vals, hvals, h1, h2, h3, h4⟩ :=
    efficient_rows cfg hc sh (s0.kwargs.map (·.1)) hn.1 hn.2 (s0 :: rest) hset
  refine ⟨_, ?_, h1, h2, h3, h4⟩
  unfold toEfficient
  simp only
  rw [hvals]
  rfl

/-- the samples of a fit meet the hypotheses of `efficient_roundtrip` -/
theorem from_lists_normal {sh : Shape} (wf : WF sh) (ll lp w : V) (ps : List V)
    (hlen : ps.length = sh.length) :
    NormalKeys (fromVector sh ll lp w ps) ∧
      (fromVector sh ll lp w ps).kwargs.map (·.1) = sh.map fun P => Key.path P.uniq := by
  rw [fromVector_eq wf ll lp w ps hlen]
  have hk := kwOf_keys sh ps (fun P => Key.path P.uniq) hlen
  refine ⟨⟨?_, ?_⟩, hk⟩
  · show ((kwOf sh ps fun P => Key.path P.uniq).map (·.1)).Nodup
    rw [hk]
    exact keys_nodup_of_inj wf Key.path (fun _ _ _ _ h => Key.path.inj h)
  · intro k hkm
    have : k ∈ sh.map fun P => Key.path P.uniq := hk ▸ hkm
    obtain ⟨P, _, rfl⟩ := List.mem_map.mp this
    rfl

/-- **Best fit.** Lists of samples with the same likelihoods and the same looked-up parameter
values have the same maximum-likelihood parameter vector (`max_log_likelihood`), whatever `>` does
with NaN. -/
theorem best_fit_preserved (cfg : Cfg) (ops : VOps V) (sh : Shape) (ss ss' : List (Sample V))
    (pss : List (List V)) (hll : ss'.map (·.ll) = ss.map (·.ll))
    (h' : mapOpt (paramList cfg sh) ss' = some pss) (h : mapOpt (paramList cfg sh) ss = some pss) :
    bestFit cfg ops sh ss' = bestFit cfg ops sh ss := by
  unfold bestFit maxLL
  rw [hll]
  cases argmaxFirst ops.gt (ss.map (·.ll)) with
  | none => rfl
  | some i =>
    simp only [Option.bind_some]
    rw [mapOpt_drop_head _ ss' pss i h', mapOpt_drop_head _ ss pss i h]

/-- **Medians, errors, any statistic**: whatever is computed from the parameter values, the
likelihoods, the priors and the weights is the same after reload. -/
theorem derived_equal {R : Type} (cfg : Cfg) (sh : Shape) (ss ss' : List (Sample V))
    (F : Option (List (List V)) → List V → List V → List V → R)
    (hll : ss'.map (·.ll) = ss.map (·.ll)) (hlp : ss'.map (·.lp) = ss.map (·.lp))
    (hw : ss'.map (·.w) = ss.map (·.w))
    (hp : mapOpt (paramList cfg sh) ss' = mapOpt (paramList cfg sh) ss) :
    F (mapOpt (paramList cfg sh) ss') (ss'.map (·.ll)) (ss'.map (·.lp)) (ss'.map (·.w)) =
      F (mapOpt (paramList cfg sh) ss) (ss.map (·.ll)) (ss.map (·.lp)) (ss.map (·.w)) := by
  rw [hll, hlp, hw, hp]

/-- table round trip, end to end: the best fit read from the loaded table is the fit's best fit -/
theorem csv_best_fit (cfg : Cfg) (ops : VOps V) {sh : Shape} (wf : WF sh) (hr : Route cfg sh)
    (pads : List Nat) (shw : V → T) (rd : T → V) (hrd : ∀ x, rd (shw x) = x)
    (ss : List (Sample V)) (tb : Table T) (hsave : saveCsv cfg ops sh pads shw ss = some tb) :
    (loadCsv rd tb).bind (bestFit cfg ops sh) = bestFit cfg ops sh ss := by
  obtain ⟨ss', pss, h1, h2, _, _, h5, h6⟩ := csv_roundtrip cfg ops wf hr pads shw rd hrd ss tb hsave
  rw [h1]
  exact best_fit_preserved cfg ops sh ss ss' pss h2 h5 h6

/-! ## the pinned behaviour violates the sentence: witnesses -/

def natOps : VOps Nat := { add := (· + ·), isZero := (· == 0), gt := fun a b => decide (a > b) }

/-- `Collection(x=prior, g=Model(.., a=prior))`: a parameter at the top level beside a nested one -/
def mixed : Shape :=
  [{ paths := [[['x']]], names := [['x']], uniq := [['x']] },
   { paths := [[['g'], ['a']]], names := [['g', '.', 'a']], uniq := [['g'], ['a']] }]

/-- the same with both parameters nested -/
def nested : Shape :=
  [{ paths := [[['h'], ['x']]], names := [['h', '.', 'x']], uniq := [['h'], ['x']] },
   { paths := [[['g'], ['a']]], names := [['g', '.', 'a']], uniq := [['g'], ['a']] }]

def pinned : Cfg := { keysNormalised := false, dictKeepsFalsy := false }

/-- With the pinned look-up the table of a mixed-depth model cannot be read back (`KeyError`),
although the fit wrote it and the samples were fine. -/
theorem csv_refuted_when_keys_off :
    WF mixed ∧
    mapOpt (paramList pinned mixed) [fromVector mixed 5 1 1 [7, 8]] = some [[7, 8]] ∧
    ((saveCsv pinned natOps mixed [2, 0] id [fromVector mixed 5 1 1 [7, 8]]).bind (loadCsv id)).bind
      (mapOpt (paramList pinned mixed)) = none := by
  decide

/-- With the pinned dictionary reader a best-fit value equal to zero is lost from the summary. -/
theorem summary_refuted_when_falsy_off :
    WF nested ∧
    paramList pinned nested (fromVector nested 5 1 1 [0, 8]) = some [0, 8] ∧
    paramList pinned nested (summaryRoundtrip pinned natOps (fromVector nested 5 1 1 [0, 8])) = none := by
  decide

/-! ## non-vacuity: concrete inputs meeting every hypothesis -/

/-- shared prior with two places, a tuple member, a top-level parameter; repaired behaviour -/
def witness : Shape :=
  [{ paths := [[['x']]], names := [['x']], uniq := [['x']] },
   { paths := [[['g'], ['a']], [['h'], ['b']]], names := [['g', '.', 'a'], ['h', '.', 'b']], uniq := [['h'], ['b']] },
   { paths := [[['g'], ['p'], ['p', '_', '0']]], names := [['g', '.', 'p', '_', '0']], uniq := [['g'], ['p'], ['p', '_', '0']] }]

example : WF witness ∧ Route {} witness ∧ WF mixed ∧ Route {} mixed ∧ Route pinned nested := by decide

-- tests of the definitions the theorems speak about
example : (saveCsv {} natOps witness [1, 0, 3] id
      [fromVector witness 5 1 2 [0, 8, 9], fromVector witness 6 1 2 [3, 0, 4]]).isSome = true := by decide
example : ((saveCsv {} natOps witness [1, 0, 3] id
      [fromVector witness 5 1 2 [0, 8, 9], fromVector witness 6 1 2 [3, 0, 4]]).bind (loadCsv id)).bind
      (mapOpt (paramList {} witness)) = some [[0, 8, 9], [3, 0, 4]] := by decide
example : paramList {} witness (summaryRoundtrip {} natOps (fromVector witness 5 1 2 [0, 8, 9])) = some [0, 8, 9] := by
  decide
example : bestFit {} natOps witness
      [fromVector witness 5 1 2 [0, 8, 9], fromVector witness 6 1 2 [3, 0, 4], fromVector witness 6 1 2 [1, 1, 1]]
      = some [3, 0, 4] := by decide
example : ((toEfficient [mkSample 5 1 2 [(.str ['x'], 0), (.str ['h', '.', 'b'], 8), (.path [['g'], ['p'], ['p', '_', '0']], 9)],
      mkSample 6 1 2 [(.path [['g'], ['p'], ['p', '_', '0']], 4), (.str ['x'], 3), (.path [['h'], ['b']], 0)]]).map ofEfficient).bind
      (mapOpt (paramList {} witness)) = some [[0, 8, 9], [3, 0, 4]] := by decide
example : (toEfficient [fromVector witness 5 1 2 [0, 8, 9], fromVector witness 6 1 2 [3, 0, 4]]).map ofEfficient =
    some [fromVector witness 5 1 2 [0, 8, 9], fromVector witness 6 1 2 [3, 0, 4]] := by decide

end AF.C09
