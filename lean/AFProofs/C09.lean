import AFProofs.Lemmas.SamplesIO
import AFProofs.Lemmas.SamplesStats

/-!
# C09 — samples survive persistence and reload identically

Subject: the executable model `AF.SamplesIO` (`AFModel/SamplesIO.lean`) that the driver runs beside
the real code on every generated case. `Shape` is what `Samples` asks of its model (`all_paths`,
`all_names`, `unique_prior_paths`, in id order); `WF` is a decidable well-formedness predicate the
driver evaluates on the shape of every generated composition (`"wf"` in its answer). `cfg` carries
the two finding flags; `true` is the behaviour with `fixes/C09-sample-keys-and-zero-values.patch`.

* `csv_roundtrip` — table (`samples.csv`): for every model shape, every list of samples the fit
  could write and every column padding, the table loads, and the loaded samples give the same
  parameter value for every parameter, the same log-likelihood, log-prior and weight, sample by
  sample in the same order. Full strength with `keysNormalised`; for the pinned look-up
  (`Route`) only for models whose columns are all top-level or all nested
  (`csv_refuted_when_keys_off`: a top-level parameter beside a nested one cannot be read back).
* `summary_roundtrip` — summary (`samples_summary.json`): the best-fit / median sample comes back
  with the same numbers; for the pinned dictionary reader only when no value is zero
  (`summary_refuted_when_falsy_off`).
* `efficient_roundtrip` — database rows: the samples come back *equal* (keys, order, values).
* `best_fit_preserved`, `derived_equal`, `csv_best_fit` — best fit, medians and errors are functions
  of what is preserved, hence equal.
* `quantile_order_free`, `percentile_order_free`, `estimate_converged_order_free` — the weighted quantile
  (`pdf.quantile`, nested samples) and the percentile (MCMC) the library computes, modelled over exact
  rationals (`AF.SamplesStats`), depend only on the multiset of (value, weight) pairs - the weighted one
  provided no value repeats (`quantile_refuted_repeated_value`: with a repeated value the order of the
  samples matters).
* `estimates_preserved`, `csv_estimates` — median, values and errors at sigma after reload are those
  before (now of the modelled computation, not of an abstract statistic).
* `estimates_follow_parameters`, `summary_lists_partial`, `summary_lists_refuted_when_reordered` — a model
  that lists the same parameters in another order gets, recomputed, the same estimate per parameter; the
  plain lists stored in the summary stay in the fitted model's order, so reading them by position is
  right exactly where both orders agree (known finding `C09-summary-lists-model-order`).
* `minimise_keeps_best` — the minimised database samples hold the most likely and the most probable sample.
* `from_lists_lookup`, `text_of_key_reads_back` — the samples of a fit are looked up in parameter
  order; `".".join` / `.split(".")` are inverse on paths of clean names.
-/

namespace AF.C09
open AF AF.SamplesIO

variable {V T : Type}

/-- **the text of a column reads back as its path** -/
theorem text_of_key_reads_back (p : NPath) (hne : p ≠ []) (hclean : ∀ c ∈ p, '.' ∉ c) :
    splitDots (joinDots p) = p :=
  splitDots_joinDots p hne hclean

/-- **A fit's own samples** (`Sample.from_lists`) are looked up in parameter order, under both the
pinned and the repaired look-up: value `ps[i]` for parameter `i`. -/
theorem from_lists_lookup (cfg : Cfg) {sh : Shape} (wf : WF sh) (ll lp w : V) (ps : List V)
    (hlen : ps.length = sh.length) :
    paramList cfg sh (fromVector sh ll lp w ps) = some ps :=
  paramList_fromVector cfg wf ll lp w ps hlen

/-- **Table round trip.** Whatever list of samples `write_table` could write (`saveCsv … = some tb`,
i.e. the fit itself did not fail), for every padding of the header cells and every number text with
`rd (shw x) = x`: `load_from_table` succeeds, returns as many samples in the same order with the
same log-likelihood, log-prior and weight, and the parameter values looked up in the loaded samples
are those looked up in the original ones (and the look-up succeeds). -/
theorem csv_roundtrip (cfg : Cfg) (ops : VOps V) {sh : Shape} (wf : WF sh) (hr : Route cfg sh)
    (pads : List Nat) (shw : V → T) (rd : T → V) (hrd : ∀ x, rd (shw x) = x)
    (ss : List (Sample V)) (tb : Table T) (hsave : saveCsv cfg ops sh pads shw ss = some tb) :
    ∃ ss' pss, loadCsv rd tb = some ss' ∧
      ss'.map (·.ll) = ss.map (·.ll) ∧ ss'.map (·.lp) = ss.map (·.lp) ∧ ss'.map (·.w) = ss.map (·.w) ∧
      mapOpt (paramList cfg sh) ss' = some pss ∧ mapOpt (paramList cfg sh) ss = some pss := by
  unfold saveCsv at hsave
  cases hrows : mapOpt (rowOf cfg ops sh) ss with
  | none => rw [hrows] at hsave; cases hsave
  | some rows =>
    rw [hrows] at hsave
    cases hsave
    obtain ⟨ss', pss, h1, h2⟩ := csv_rows cfg ops wf hr shw rd hrd ss rows hrows
    refine ⟨ss', pss, ?_, h2⟩
    unfold loadCsv
    simp only
    rw [map_stripSp_padHeaders pads (headers sh) (headers_noBlank wf)]
    exact h1

/-- full strength for the repaired look-up: no condition on the shape beyond `WF` -/
theorem csv_roundtrip_repaired (ops : VOps V) {sh : Shape} (wf : WF sh)
    (pads : List Nat) (shw : V → T) (rd : T → V) (hrd : ∀ x, rd (shw x) = x)
    (ss : List (Sample V)) (tb : Table T) (hsave : saveCsv {} ops sh pads shw ss = some tb) :
    ∃ ss' pss, loadCsv rd tb = some ss' ∧
      ss'.map (·.ll) = ss.map (·.ll) ∧ ss'.map (·.lp) = ss.map (·.lp) ∧ ss'.map (·.w) = ss.map (·.w) ∧
      mapOpt (paramList {} sh) ss' = some pss ∧ mapOpt (paramList {} sh) ss = some pss :=
  csv_roundtrip {} ops wf (Or.inl rfl) pads shw rd hrd ss tb hsave

/-- **Summary round trip.** The best-fit (or median) sample of a fit, written by `Sample.dict` and
read by `from_dict`, keeps its log-likelihood, log-prior and weight and gives value `ps[i]` for
parameter `i` — provided the dictionary reader keeps zeros or no value is zero, and the look-up is
the repaired one or the columns are all top-level / all nested. -/
theorem summary_roundtrip (cfg : Cfg) (ops : VOps V) {sh : Shape} (wf : WF sh) (hr : Route cfg sh)
    (ll lp w : V) (ps : List V) (hlen : ps.length = sh.length)
    (hz : cfg.dictKeepsFalsy = true ∨ ∀ v ∈ ps, ops.isZero v = false) :
    let s' := summaryRoundtrip cfg ops (fromVector sh ll lp w ps)
    s'.ll = ll ∧ s'.lp = lp ∧ s'.w = w ∧ paramList cfg sh s' = some ps := by
  intro s'
  have h : s' = tableSample sh ll lp w ps := summaryRoundtrip_fromVector cfg ops wf ll lp w ps hlen hz
  rw [h]
  exact ⟨rfl, rfl, rfl, paramList_tableSample cfg wf hr ll lp w ps hlen⟩

/-- **Database rows.** Samples whose keys are as the `Sample` constructor leaves them and that all
carry the same key sequence (every `Sample.from_lists` list does) come back equal: same keys, same
order, same values, same likelihoods, priors and weights. -/
theorem efficient_roundtrip (ss : List (Sample V)) (hn : ∀ s ∈ ss, NormalKeys s)
    (hk : ∀ s ∈ ss, ∀ s' ∈ ss, s.kwargs.map (·.1) = s'.kwargs.map (·.1)) :
    (toEfficient ss).map ofEfficient = some ss := by
  cases ss with
  | nil => rfl
  | cons s0 rest =>
    have hall : ∀ s ∈ s0 :: rest, s.kwargs.map (·.1) = s0.kwargs.map (·.1) ∧ NormalKeys s :=
      fun s hs => ⟨hk s hs s0 (by simp), hn s hs⟩
    unfold toEfficient
    simp only
    rw [mapOpt_values (s0.kwargs.map (·.1)) (s0 :: rest) hall]
    simp only [Option.map_some, ofEfficient]
    rw [zipSamples_same_keys (s0.kwargs.map (·.1)) (s0 :: rest) hall]

/-- every sample built by the `Sample` constructor has keys as `efficient_roundtrip` wants them -/
theorem constructed_normal (ll lp w : V) (kw : List (Key × V)) : NormalKeys (mkSample ll lp w kw) :=
  mkSample_normal ll lp w kw

/-- **Database rows, keys in any order.** Samples that hold the same *set* of keys as the first one,
in whatever order (hand-built or concatenated sample lists), come back with the same likelihoods,
priors, weights, in the same order, and with the same looked-up parameter values (repaired
look-up, which does not depend on which key comes first). -/
theorem efficient_any_key_order (cfg : Cfg) (hc : cfg.keysNormalised = true) (sh : Shape)
    (s0 : Sample V) (rest : List (Sample V)) (hn : NormalKeys s0)
    (hset : ∀ s ∈ s0 :: rest, ∀ k, k ∈ s0.kwargs.map (·.1) ↔ k ∈ s.kwargs.map (·.1)) :
    ∃ ss', (toEfficient (s0 :: rest)).map ofEfficient = some ss' ∧
      ss'.map (·.ll) = (s0 :: rest).map (·.ll) ∧ ss'.map (·.lp) = (s0 :: rest).map (·.lp) ∧
      ss'.map (·.w) = (s0 :: rest).map (·.w) ∧
      mapOpt (paramList cfg sh) ss' = mapOpt (paramList cfg sh) (s0 :: rest) := by
  obtain ⟨vals, hvals, h1, h2, h3, h4⟩ :=
    efficient_rows cfg hc sh (s0.kwargs.map (·.1)) hn.1 hn.2 (s0 :: rest) hset
  refine ⟨_, ?_, h1, h2, h3, h4⟩
  unfold toEfficient
  simp only
  rw [hvals]
  rfl

/-- the samples of a fit meet the hypotheses of `efficient_roundtrip` -/
theorem from_lists_normal {sh : Shape} (wf : WF sh) (ll lp w : V) (ps : List V)
    (hlen : ps.length = sh.length) :
    NormalKeys (fromVector sh ll lp w ps) ∧
      (fromVector sh ll lp w ps).kwargs.map (·.1) = sh.map fun P => Key.path P.uniq := by
  rw [fromVector_eq wf ll lp w ps hlen]
  have hk := kwOf_keys sh ps (fun P => Key.path P.uniq) hlen
  refine ⟨⟨?_, ?_⟩, hk⟩
  · show ((kwOf sh ps fun P => Key.path P.uniq).map (·.1)).Nodup
    rw [hk]
    exact keys_nodup_of_inj wf Key.path (fun _ _ _ _ h => Key.path.inj h)
  · intro k hkm
    have : k ∈ sh.map fun P => Key.path P.uniq := hk ▸ hkm
    obtain ⟨P, _, rfl⟩ := List.mem_map.mp this
    rfl

/-- **Best fit.** Lists of samples with the same likelihoods and the same looked-up parameter
values have the same maximum-likelihood parameter vector (`max_log_likelihood`), whatever `>` does
with NaN. -/
theorem best_fit_preserved (cfg : Cfg) (ops : VOps V) (sh : Shape) (ss ss' : List (Sample V))
    (pss : List (List V)) (hll : ss'.map (·.ll) = ss.map (·.ll))
    (h' : mapOpt (paramList cfg sh) ss' = some pss) (h : mapOpt (paramList cfg sh) ss = some pss) :
    bestFit cfg ops sh ss' = bestFit cfg ops sh ss := by
  unfold bestFit maxLL
  rw [hll]
  cases argmaxFirst ops.gt (ss.map (·.ll)) with
  | none => rfl
  | some i =>
    simp only [Option.bind_some]
    rw [mapOpt_drop_head _ ss' pss i h', mapOpt_drop_head _ ss pss i h]

/-- **Medians, errors, any statistic**: whatever is computed from the parameter values, the
likelihoods, the priors and the weights is the same after reload. -/
theorem derived_equal {R : Type} (cfg : Cfg) (sh : Shape) (ss ss' : List (Sample V))
    (F : Option (List (List V)) → List V → List V → List V → R)
    (hll : ss'.map (·.ll) = ss.map (·.ll)) (hlp : ss'.map (·.lp) = ss.map (·.lp))
    (hw : ss'.map (·.w) = ss.map (·.w))
    (hp : mapOpt (paramList cfg sh) ss' = mapOpt (paramList cfg sh) ss) :
    F (mapOpt (paramList cfg sh) ss') (ss'.map (·.ll)) (ss'.map (·.lp)) (ss'.map (·.w)) =
      F (mapOpt (paramList cfg sh) ss) (ss.map (·.ll)) (ss.map (·.lp)) (ss.map (·.w)) := by
  rw [hll, hlp, hw, hp]

/-- table round trip, end to end: the best fit read from the loaded table is the fit's best fit -/
theorem csv_best_fit (cfg : Cfg) (ops : VOps V) {sh : Shape} (wf : WF sh) (hr : Route cfg sh)
    (pads : List Nat) (shw : V → T) (rd : T → V) (hrd : ∀ x, rd (shw x) = x)
    (ss : List (Sample V)) (tb : Table T) (hsave : saveCsv cfg ops sh pads shw ss = some tb) :
    (loadCsv rd tb).bind (bestFit cfg ops sh) = bestFit cfg ops sh ss := by
  obtain ⟨ss', pss, h1, h2, _, _, h5, h6⟩ := csv_roundtrip cfg ops wf hr pads shw rd hrd ss tb hsave
  rw [h1]
  exact best_fit_preserved cfg ops sh ss ss' pss h2 h5 h6

/-! ## the pinned behaviour violates the sentence: witnesses -/

def natOps : VOps Nat := { add := (· + ·), isZero := (· == 0), gt := fun a b => decide (a > b) }

/-- `Collection(x=prior, g=Model(.., a=prior))`: a parameter at the top level beside a nested one -/
def mixed : Shape :=
  [{ paths := [[['x']]], names := [['x']], uniq := [['x']] },
   { paths := [[['g'], ['a']]], names := [['g', '.', 'a']], uniq := [['g'], ['a']] }]

/-- the same with both parameters nested -/
def nested : Shape :=
  [{ paths := [[['h'], ['x']]], names := [['h', '.', 'x']], uniq := [['h'], ['x']] },
   { paths := [[['g'], ['a']]], names := [['g', '.', 'a']], uniq := [['g'], ['a']] }]

def pinned : Cfg := { keysNormalised := false, dictKeepsFalsy := false }

/-- With the pinned look-up the table of a mixed-depth model cannot be read back (`KeyError`),
although the fit wrote it and the samples were fine. -/
theorem csv_refuted_when_keys_off :
    WF mixed ∧
    mapOpt (paramList pinned mixed) [fromVector mixed 5 1 1 [7, 8]] = some [[7, 8]] ∧
    ((saveCsv pinned natOps mixed [2, 0] id [fromVector mixed 5 1 1 [7, 8]]).bind (loadCsv id)).bind
      (mapOpt (paramList pinned mixed)) = none := by
  decide

/-- With the pinned dictionary reader a best-fit value equal to zero is lost from the summary. -/
theorem summary_refuted_when_falsy_off :
    WF nested ∧
    paramList pinned nested (fromVector nested 5 1 1 [0, 8]) = some [0, 8] ∧
    paramList pinned nested (summaryRoundtrip pinned natOps (fromVector nested 5 1 1 [0, 8])) = none := by
  decide

/-! ## non-vacuity: concrete inputs meeting every hypothesis -/

/-- shared prior with two places, a tuple member, a top-level parameter; repaired behaviour -/
def witness : Shape :=
  [{ paths := [[['x']]], names := [['x']], uniq := [['x']] },
   { paths := [[['g'], ['a']], [['h'], ['b']]], names := [['g', '.', 'a'], ['h', '.', 'b']], uniq := [['h'], ['b']] },
   { paths := [[['g'], ['p'], ['p', '_', '0']]], names := [['g', '.', 'p', '_', '0']], uniq := [['g'], ['p'], ['p', '_', '0']] }]

example : WF witness ∧ Route {} witness ∧ WF mixed ∧ Route {} mixed ∧ Route pinned nested := by decide

-- tests of the definitions the theorems speak about
example : (saveCsv {} natOps witness [1, 0, 3] id
      [fromVector witness 5 1 2 [0, 8, 9], fromVector witness 6 1 2 [3, 0, 4]]).isSome = true := by decide
example : ((saveCsv {} natOps witness [1, 0, 3] id
      [fromVector witness 5 1 2 [0, 8, 9], fromVector witness 6 1 2 [3, 0, 4]]).bind (loadCsv id)).bind
      (mapOpt (paramList {} witness)) = some [[0, 8, 9], [3, 0, 4]] := by decide
example : paramList {} witness (summaryRoundtrip {} natOps (fromVector witness 5 1 2 [0, 8, 9])) = some [0, 8, 9] := by
  decide
example : bestFit {} natOps witness
      [fromVector witness 5 1 2 [0, 8, 9], fromVector witness 6 1 2 [3, 0, 4], fromVector witness 6 1 2 [1, 1, 1]]
      = some [3, 0, 4] := by decide
example : ((toEfficient [mkSample 5 1 2 [(.str ['x'], 0), (.str ['h', '.', 'b'], 8), (.path [['g'], ['p'], ['p', '_', '0']], 9)],
      mkSample 6 1 2 [(.path [['g'], ['p'], ['p', '_', '0']], 4), (.str ['x'], 3), (.path [['h'], ['b']], 0)]]).map ofEfficient).bind
      (mapOpt (paramList {} witness)) = some [[0, 8, 9], [3, 0, 4]] := by decide
example : (toEfficient [fromVector witness 5 1 2 [0, 8, 9], fromVector witness 6 1 2 [3, 0, 4]]).map ofEfficient =
    some [fromVector witness 5 1 2 [0, 8, 9], fromVector witness 6 1 2 [3, 0, 4]] := by decide

/-! ## estimates: the modelled computation (`AF.SamplesStats`) -/

open AF.SamplesStats

/-- **Weighted quantile** (`pdf.quantile`): for samples in any order - the same multiset of
(value, weight) pairs - the result is the same, provided no value occurs twice. -/
theorem quantile_order_free (q : Rat) (vw₁ vw₂ : List (Rat × Rat)) (hp : vw₁.Perm vw₂)
    (hnd : (vw₁.map (·.1)).Nodup) : wquantile q vw₁ = wquantile q vw₂ :=
  wquantile_eq_of_perm q hp hnd

/-- The guard of `quantile_order_free` is needed: when a value repeats, which of the two samples the
sort puts first decides the result (numpy's `argsort` does not promise either). -/
theorem quantile_refuted_repeated_value :
    [((1 : Rat), (1 / 10 : Rat)), (1, 4 / 10), (2, 3 / 10), (3, 2 / 10)].Perm [(1, 4 / 10), (1, 1 / 10), (2, 3 / 10), (3, 2 / 10)] ∧
    wquantile (1 / 2) [(1, 1 / 10), (1, 4 / 10), (2, 3 / 10), (3, 2 / 10)] ≠
      wquantile (1 / 2) [(1, 4 / 10), (1, 1 / 10), (2, 3 / 10), (3, 2 / 10)] := by
  refine ⟨List.Perm.swap _ _ _, ?_⟩
  decide +kernel

/-- **Percentile** (`np.percentile`, MCMC samples): a function of the multiset of values. -/
theorem percentile_order_free (p : Rat) (xs₁ xs₂ : List Rat) (hp : xs₁.Perm xs₂) :
    percentile p xs₁ = percentile p xs₂ :=
  percentile_eq_of_perm p hp

/-- **Median and values at sigma of one parameter, converged samples**: the same for every order of
the samples (pairs of value and weight permuted together), provided no value repeats. The
unconverged branch reads the most likely sample and the last `ucs` samples: it is a function of the
sequence, which every reload preserves (`estimates_preserved`). -/
theorem estimate_converged_order_free (ucs : Nat) (qlow : Rat) (lls₁ lls₂ ws₁ ws₂ col₁ col₂ : List Rat)
    (hc₁ : converged ws₁ = true) (hc₂ : converged ws₂ = true)
    (hp : (col₁.zip ws₁).Perm (col₂.zip ws₂)) (hnd : ((col₁.zip ws₁).map (·.1)).Nodup) :
    colEstimate ucs qlow lls₁ ws₁ col₁ = colEstimate ucs qlow lls₂ ws₂ col₂ := by
  unfold colEstimate
  simp only [hc₁, hc₂, if_true]
  rw [wquantile_eq_of_perm _ hp hnd, wquantile_eq_of_perm _ hp hnd, wquantile_eq_of_perm _ hp hnd]

example : converged [3 / 10, 5 / 10, 2 / 10] = true ∧ converged [2 / 10, 3 / 10, 5 / 10] = true ∧
    ([(7 : Rat), 2, 9].zip [(3 / 10 : Rat), 5 / 10, 2 / 10]).Perm ([(9 : Rat), 7, 2].zip [(2 / 10 : Rat), 3 / 10, 5 / 10]) ∧
    (([(7 : Rat), 2, 9].zip [(3 / 10 : Rat), 5 / 10, 2 / 10]).map (·.1)).Nodup ∧
    colEstimate 100 (1 / 10) [1, 2, 3] [3 / 10, 5 / 10, 2 / 10] [7, 2, 9] = some ⟨6, 14 / 5, 127 / 15⟩ := by
  refine ⟨by decide +kernel, by decide +kernel, ?_, by decide +kernel, by decide +kernel⟩
  show [((7 : Rat), (3 / 10 : Rat)), (2, 5 / 10), (9, 2 / 10)].Perm [(9, 2 / 10), (7, 3 / 10), (2, 5 / 10)]
  exact ((List.Perm.swap _ _ _).cons _).trans (List.Perm.swap _ _ _)

/-- **Estimates after reload.** Samples with the same likelihoods, weights and looked-up parameter
values have the same median / values / errors at sigma (`SamplesPDF`, both branches) and the same
MCMC estimates. -/
theorem estimates_preserved (cfg : Cfg) (ucs : Nat) (qlow : Rat) (sh : Shape) (ss ss' : List (Sample Rat))
    (hll : ss'.map (·.ll) = ss.map (·.ll)) (hw : ss'.map (·.w) = ss.map (·.w))
    (hp : mapOpt (paramList cfg sh) ss' = mapOpt (paramList cfg sh) ss) :
    estimates cfg ucs qlow sh ss' = estimates cfg ucs qlow sh ss ∧
      estimatesMCMC cfg qlow sh ss' = estimatesMCMC cfg qlow sh ss := by
  unfold estimates estimatesMCMC
  rw [hll, hw, hp]
  exact ⟨rfl, rfl⟩

/-- table round trip, end to end: the estimates computed from the loaded table are the fit's -/
theorem csv_estimates (cfg : Cfg) (ops : VOps Rat) (ucs : Nat) (qlow : Rat) {sh : Shape} (wf : WF sh)
    (hr : Route cfg sh) (pads : List Nat) (shw : Rat → T) (rd : T → Rat) (hrd : ∀ x, rd (shw x) = x)
    (ss : List (Sample Rat)) (tb : Table T) (hsave : saveCsv cfg ops sh pads shw ss = some tb) :
    (loadCsv rd tb).bind (estimates cfg ucs qlow sh) = estimates cfg ucs qlow sh ss ∧
      (loadCsv rd tb).bind (estimatesMCMC cfg qlow sh) = estimatesMCMC cfg qlow sh ss := by
  obtain ⟨ss', pss, h1, h2, _, h4, h5, h6⟩ := csv_roundtrip cfg ops wf hr pads shw rd hrd ss tb hsave
  rw [h1]
  exact estimates_preserved cfg ucs qlow sh ss ss' h2 h4 (h5.trans h6.symm)

/-- **Estimates follow the parameters.** A model listing the same parameters in another order
(`reorder idx sh`: what comes back from `model.json` / the database) gives, recomputed from the same
samples, for its parameter `k` the estimate the fitted model has for its parameter `idx[k]`: per
parameter path nothing changes. Holds for any per-column statistic. -/
theorem estimates_follow_parameters {R} (cfg : Cfg) (stat : List Rat → Option R) (sh : Shape)
    (ss : List (Sample Rat)) (rows : List (List Rat)) (h : mapOpt (paramList cfg sh) ss = some rows)
    (idx : List Nat) (hidx : ∀ i ∈ idx, i < sh.length) :
    (mapOpt (paramList cfg (reorder idx sh)) ss).map (perColumn (reorder idx sh).length stat) =
      some (permuteRow idx (perColumn sh.length stat rows)) := by
  rw [paramLists_reorder cfg sh idx hidx ss rows h]
  simp only [Option.map_some, reorder, List.length_map]
  rw [perColumn_permute stat sh.length idx hidx rows]

/-- **The lists stored in the summary, read by position** (`errors_at_sigma_1`, `values_at_sigma_3`, …:
plain lists in the fitted model's order). Entry `k`, attributed to parameter `k` of the attached
model, is that parameter's estimate whenever the attached model lists parameter `k` where the fitted
model does (`idx[k] = k`); in general it is the estimate of the fitted model's parameter `k`, while
parameter `k` of the attached model is the fitted model's parameter `idx[k]`. -/
theorem summary_lists_partial (cfg : Cfg) (ucs : Nat) (qlow : Rat) (sh : Shape) (ss : List (Sample Rat))
    (stored : List (Option Est)) (hst : estimates cfg ucs qlow sh ss = some stored)
    (idx : List Nat) (hidx : ∀ i ∈ idx, i < sh.length) :
    ∃ fresh, estimates cfg ucs qlow (reorder idx sh) ss = some fresh ∧
      (∀ k (hk : k < idx.length), fresh[k]? = stored[idx[k]]?) ∧
      (∀ k (hk : k < idx.length), idx[k] = k → attributed stored k = fresh[k]?) := by
  unfold estimates at hst
  cases hrows : mapOpt (paramList cfg sh) ss with
  | none => rw [hrows] at hst; cases hst
  | some rows =>
    rw [hrows] at hst
    cases hst
    have key := estimates_follow_parameters cfg
      (colEstimate ucs qlow (ss.map (·.ll)) (ss.map (·.w))) sh ss rows hrows idx hidx
    refine ⟨_, key, ?_, ?_⟩
    · intro k hk
      have hin : idx[k] < sh.length := hidx _ (List.getElem_mem hk)
      simp [permuteRow, hk, perColumn, hin]
    · intro k hk hfix
      have hin : idx[k] < sh.length := hidx _ (List.getElem_mem hk)
      have hk2 : k < sh.length := hfix ▸ hin
      simp [attributed, permuteRow, hk, perColumn, hfix, hk2]

/-- the attached model lists the parameters as the fitted one did: nothing is reordered, every entry of
the stored lists is attributed to its own parameter (`summary_lists_partial` with `idx[k] = k`) -/
theorem reorder_same_order (sh : Shape) : reorder (List.range sh.length) sh = sh := by
  unfold reorder
  apply List.ext_getElem
  · simp
  · intro k h1 h2
    simp [List.getD, h2]

/-- two parameters, three converged samples -/
def twoParams : Shape :=
  [{ paths := [[['g'], ['a']]], names := [['g', '.', 'a']], uniq := [['g'], ['a']] },
   { paths := [[['g'], ['b']]], names := [['g', '.', 'b']], uniq := [['g'], ['b']] }]

def threeSamples : List (Sample Rat) :=
  [fromVector twoParams 1 0 (3 / 10) [7, 70], fromVector twoParams 2 0 (5 / 10) [2, 20],
   fromVector twoParams 3 0 (2 / 10) [9, 90]]

/-- Known finding `C09-summary-lists-model-order`: when the attached model lists the two parameters
the other way round, the stored list read by position attributes to each parameter the estimate of
the other one, although recomputing from the reloaded samples gives the right one. -/
theorem summary_lists_refuted_when_reordered :
    WF twoParams ∧
    ∃ stored fresh, estimates {} 100 (1 / 10) twoParams threeSamples = some stored ∧
      estimates {} 100 (1 / 10) (reorder [1, 0] twoParams) threeSamples = some fresh ∧
      attributed stored 0 ≠ fresh[0]? ∧ attributed stored 0 = fresh[1]? := by
  refine ⟨by decide, _, _, rfl, rfl, ?_, ?_⟩ <;> decide +kernel

example : estimates {} 100 (1 / 10) twoParams threeSamples =
    some [some ⟨6, 14 / 5, 127 / 15⟩, some ⟨60, 28, 254 / 3⟩] := by decide +kernel

example : estimatesMCMC {} (3 / 10) twoParams threeSamples =
    some [some ⟨7, 5, 39 / 5⟩, some ⟨70, 50, 78⟩] := by decide +kernel

-- non-vacuity: the hypotheses of `csv_estimates`, `estimates_follow_parameters`, `summary_lists_partial`,
-- `quantile_order_free` are met by concrete inputs, and the conclusions are not trivially `none = none`
example : mapOpt (paramList {} twoParams) threeSamples = some [[7, 70], [2, 20], [9, 90]] ∧
    (∀ i ∈ [1, 0], i < twoParams.length) ∧ Route {} twoParams := by decide +kernel
example : (saveCsv {} ratOps twoParams [0, 2] id threeSamples).isSome = true := by decide +kernel
example : ((saveCsv {} ratOps twoParams [0, 2] id threeSamples).bind (loadCsv id)).bind (estimates {} 100 (1 / 10) twoParams) =
    some [some ⟨6, 14 / 5, 127 / 15⟩, some ⟨60, 28, 254 / 3⟩] := by decide +kernel
example : estimates {} 100 (1 / 10) (reorder [1, 0] twoParams) threeSamples =
    some [some ⟨60, 28, 254 / 3⟩, some ⟨6, 14 / 5, 127 / 15⟩] := by decide +kernel
example : [((7 : Rat), (3 / 10 : Rat)), (2, 5 / 10), (9, 2 / 10)].Perm [(9, 2 / 10), (7, 3 / 10), (2, 5 / 10)] ∧
    ([((7 : Rat), (3 / 10 : Rat)), (2, 5 / 10), (9, 2 / 10)].map (·.1)).Nodup ∧
    wquantile (1 / 2) [(9, 2 / 10), (7, 3 / 10), (2, 5 / 10)] = some 6 := by
  refine ⟨((List.Perm.swap _ _ _).cons _).trans (List.Perm.swap _ _ _), by decide +kernel, by decide +kernel⟩
-- unconverged branch: entry of the most likely sample, range of the last `ucs` samples
example : colEstimate 2 (1 / 10) [1, 5, 3] [1, 0, 0] [7, 2, 9] = some ⟨2, 2, 9⟩ := by decide +kernel

/-- **Minimised samples** (`Samples.minimise`, what the database keeps of a fit unless asked for all):
they are the most likely and the most probable sample, nothing else. -/
theorem minimise_keeps_best (ops : VOps V) (ss : List (Sample V)) (hne : ss ≠ []) :
    ∃ i j, argmaxFirst ops.gt (ss.map (·.ll)) = some i ∧ maxPostIndex ops ss = some j ∧
      i ∈ minimiseIdx ops ss ∧ j ∈ minimiseIdx ops ss ∧ ∀ k ∈ minimiseIdx ops ss, k = i ∨ k = j := by
  cases ss with
  | nil => exact absurd rfl hne
  | cons s rest =>
    refine ⟨_, _, rfl, rfl, ?_⟩
    unfold minimiseIdx maxPostIndex
    simp only [List.map_cons, argmaxFirst]
    generalize argmaxGo ops.gt (List.map (fun x => x.ll) rest) 1 0 s.ll = i
    generalize argmaxGo ops.gt (List.map (fun s => ops.add s.ll s.lp) rest) 1 0 (ops.add s.ll s.lp) = j
    by_cases hij : i = j
    · simp [hij]
    · by_cases hlt : i < j <;> simp [hij, hlt] <;> omega

example : minimiseIdx natOps [mkSample 5 1 1 [], mkSample 6 0 1 [], mkSample 2 9 (1 : Nat) []] = [1, 2] := by decide

end AF.C09
