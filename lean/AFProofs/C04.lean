import AFModel.Fitness
import AFProofs.C03
import AFModel.FloatOps

/-!
# C04 — the figure of merit handed to a search

Theorems about `fitnessCall` / `runCalls` / `pyswarmsBatch` (`AFModel/Fitness.lean`) for every
model gate `g`, log-prior function `lp`, flag combination, resample value, state and call sequence.
Combined with C03's `gate_ok_iff`, "`g v = .ok _`" means: right length, inside limits, all assertions true.
-/

namespace AF.C04
open AF

variable {V : Type}

/-- **Success.** instance built and likelihood `ll` (not NaN): the figure of merit is `ll`, plus the
sum of the log-prior terms in posterior mode, times −2 in chi-squared mode — for all eight flag
combinations (the three flags are universally quantified inside `cfg`). -/
theorem fom_on_success (fo : FomOps V) (cfg : FitCfg V) (g) (lp) (st : FitSt V) (v : List V) (i : Inst V)
    (ll : V) (hg : g v = .ok i) :
    (fitnessCall fo cfg g lp st v (.fin ll)).1 =
      .value (let fom := if cfg.fomIsLL then ll else fo.add ll (pySum fo (lp v))
              if cfg.convertChi then fo.mulNeg2 fom else fom) := by
  simp [fitnessCall, hg]

/-- **Resample.** vector outside limits / violating an assertion, likelihood raising the fit
exception or returning NaN: the search receives its resample value and the state is unchanged. -/
theorem resample_on_failure (fo : FomOps V) (cfg : FitCfg V) (g) (lp) (st : FitSt V) (v : List V)
    (o : Outcome V)
    (h : (∃ e, g v = .error e ∧ e ≠ .length) ∨ (∃ i, g v = .ok i ∧ (o = .nan ∨ o = .raisesFit))) :
    fitnessCall fo cfg g lp st v o = (.value cfg.resample, st) := by
  rcases h with ⟨e, he, hne⟩ | ⟨i, hi, ho⟩
  · cases e <;> simp_all [fitnessCall]
  · rcases ho with rfl | rfl <;> simp [fitnessCall, hi]

/-- **No escape.** An exception leaves the call only for a wrong-length vector or when the
likelihood raises something that is not the fit exception. -/
theorem raises_iff (fo : FomOps V) (cfg : FitCfg V) (g) (lp) (st : FitSt V) (v : List V) (o : Outcome V) :
    (∃ st', fitnessCall fo cfg g lp st v o = (.raises, st')) ↔
      (g v = .error .length ∨ ((∃ i, g v = .ok i) ∧ o = .raisesOther)) := by
  unfold fitnessCall
  cases hg : g v with
  | error e => cases e <;> simp
  | ok i => cases o <;> simp

/-- **Repeatable.** The value returned does not depend on the state (history, earlier calls). -/
theorem repeatable (fo : FomOps V) (cfg : FitCfg V) (g) (lp) (st₁ st₂ : FitSt V) (v : List V) (o : Outcome V) :
    (fitnessCall fo cfg g lp st₁ v o).1 = (fitnessCall fo cfg g lp st₂ v o).1 := by
  unfold fitnessCall
  cases g v with
  | error e => cases e <;> rfl
  | ok i => cases o <;> rfl

/-- one call appends to the history exactly when it succeeded and the history is enabled -/
theorem history_step [Inhabited V] (fo : FomOps V) (cfg : FitCfg V) (g) (lp) (st : FitSt V) (c : List V × Outcome V) :
    (fitnessCall fo cfg g lp st c.1 c.2).2.params =
        st.params ++ (if cfg.storeHistory && succeeded g c then [c.1] else []) ∧
    (fitnessCall fo cfg g lp st c.1 c.2).2.lls =
        st.lls ++ (if cfg.storeHistory && succeeded g c then [llOf c] else []) := by
  obtain ⟨v, o⟩ := c
  unfold fitnessCall succeeded llOf
  cases hg : g v with
  | error e => cases e <;> simp
  | ok i =>
    cases o with
    | fin ll => cases cfg.storeHistory <;> simp
    | nan => simp
    | raisesFit => simp
    | raisesOther => simp

/-- **History.** After any sequence of calls the history holds exactly the successfully evaluated
vectors with their likelihoods, in order (and nothing when disabled). -/
theorem history_exact [Inhabited V] (fo : FomOps V) (cfg : FitCfg V) (g) (lp) :
    ∀ (calls : List (List V × Outcome V)) (st : FitSt V),
      (runCalls fo cfg g lp st calls).2.params =
          st.params ++ (if cfg.storeHistory then (calls.filter (succeeded g)).map (·.1) else []) ∧
      (runCalls fo cfg g lp st calls).2.lls =
          st.lls ++ (if cfg.storeHistory then (calls.filter (succeeded g)).map llOf else [])
  | [], st => by simp [runCalls]
  | c :: rest, st => by
    have hs := history_step fo cfg g lp st c
    have ih := history_exact fo cfg g lp rest (fitnessCall fo cfg g lp st c.1 c.2).2
    obtain ⟨v, o⟩ := c
    simp only [runCalls]
    rw [ih.1, ih.2, hs.1, hs.2]
    cases hh : cfg.storeHistory <;> cases hsu : succeeded g (v, o) <;> simp [List.filter, hsu]

/-- the values returned along a sequence are those of the individual calls (state-independent) -/
theorem run_results (fo : FomOps V) (cfg : FitCfg V) (g) (lp) :
    ∀ (calls : List (List V × Outcome V)) (st : FitSt V),
      (runCalls fo cfg g lp st calls).1 = calls.map (fun c => (fitnessCall fo cfg g lp {} c.1 c.2).1)
  | [], st => by simp [runCalls]
  | (v, o) :: rest, st => by
    simp only [runCalls, List.map_cons]
    rw [run_results fo cfg g lp rest, repeatable fo cfg g lp st {} v o]

/-- **Particle swarms.** one figure of merit per particle, in order; each is `-2·(ll + Σ priors)`
or `-2·resample` on any failure / NaN. -/
theorem pyswarms_length (fo : FomOps V) (cfg : FitCfg V) (g) (lp) (ps : List (List V × Outcome V)) :
    (pyswarmsBatch fo cfg g lp ps).length = ps.length := by
  simp [pyswarmsBatch]

theorem pyswarms_particle_success (fo : FomOps V) (cfg : FitCfg V) (g) (lp) (v : List V) (i : Inst V) (ll : V)
    (hg : g v = .ok i) (hn : fo.isNaN (fo.mulNeg2 (fo.add ll (pySum fo (lp v)))) = false) :
    pyswarmsParticle fo cfg g lp v (.fin ll) = .value (fo.mulNeg2 (fo.add ll (pySum fo (lp v)))) := by
  simp [pyswarmsParticle, hg, hn]

theorem pyswarms_particle_failure (fo : FomOps V) (cfg : FitCfg V) (g) (lp) (v : List V) (o : Outcome V)
    (h : (∃ e, g v = .error e ∧ e ≠ .length) ∨ (∃ i, g v = .ok i ∧ (o = .nan ∨ o = .raisesFit))) :
    pyswarmsParticle fo cfg g lp v o = .value (fo.mulNeg2 cfg.resample) := by
  rcases h with ⟨e, he, hne⟩ | ⟨i, hi, ho⟩
  · cases e <;> simp_all [pyswarmsParticle]
  · rcases ho with rfl | rfl <;> simp [pyswarmsParticle, hi]

/-! ## non-vacuity -/

def intFom : FomOps Int := { add := (· + ·), mulNeg2 := (· * -2), zero := 0, isNaN := fun _ => false }
def cfg₀ : FitCfg Int := { fomIsLL := false, convertChi := true, storeHistory := true, resample := -1000 }
def g₀ : List Int → Except GateErr (Inst Int) := fun v =>
  if v.length ≠ 2 then .error .length else if v.all (· ≥ 0) then .ok (.tup []) else .error .priorLimit

example : (runCalls intFom cfg₀ g₀ (fun v => v) {} [([1, 2], .fin 10), ([-1, 2], .fin 3), ([3, 4], .nan), ([5, 6], .fin 7)]).2.params
    = [[1, 2], [5, 6]] := by decide
example : (fitnessCall intFom cfg₀ g₀ (fun v => v) {} [1, 2] (.fin 10)).1 = .value (-26) := by rfl
example : (fitnessCall intFom cfg₀ g₀ (fun v => v) {} [-1, 2] (.fin 10)).1 = .value (-1000) := by rfl

end AF.C04

namespace AF.C04
open AF

/-- C03 and C04 composed: with the model's real gate, a search receives the likelihood-based figure
of merit exactly for vectors of the right length that are inside every limit and satisfy every
assertion, and the resample value for every other vector of the right length. -/
theorem fom_with_model_gate {V : Type} [Inhabited V] (ops : Ops V) (fo : FomOps V) (cfg : FitCfg V)
    (t : Node V) (lims : List (V × V)) (asserts : List (Asrt V)) (lp) (st : FitSt V) (v : List V) (ll : V)
    (hl : v.length = count t) :
    (fitnessCall fo cfg (fun v => gate ops t lims asserts v false) lp st v (.fin ll)).1 =
      if limitsOk ops lims v = true ∧ (∀ a ∈ asserts, evalA ops (valOf (argsOfVector t v)) a = true) then
        .value (let fom := if cfg.fomIsLL then ll else fo.add ll (pySum fo (lp v))
                if cfg.convertChi then fo.mulNeg2 fom else fom)
      else .value cfg.resample := by
  by_cases hlim : limitsOk ops lims v = true
  · by_cases ha : ∀ a ∈ asserts, evalA ops (valOf (argsOfVector t v)) a = true
    · have hg : gate ops t lims asserts v false = .ok (instFromVector ops t v) :=
        (C03.gate_ok_iff ops t lims asserts v _).mpr ⟨hl, hlim, ha, rfl⟩
      rw [if_pos ⟨hlim, ha⟩]
      exact fom_on_success fo cfg _ lp st v _ ll hg
    · rw [if_neg (fun h => ha h.2)]
      have hall : asserts.all (evalA ops (valOf (argsOfVector t v))) = false := by
        rw [Bool.eq_false_iff]; intro h; exact ha (List.all_eq_true.mp h)
      have hg : gate ops t lims asserts v false = .error .fit := by simp [gate, hl, hlim, hall]
      simp [fitnessCall, hg]
  · rw [if_neg (fun h => hlim h.1)]
    have hf : limitsOk ops lims v = false := by simpa using hlim
    have hg : gate ops t lims asserts v false = .error .priorLimit := C03.gate_limit_error ops t lims asserts v hl hf
    simp [fitnessCall, hg]

end AF.C04
