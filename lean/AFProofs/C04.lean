import AFModel.Fitness
import AFProofs.C03
import AFModel.FloatOps
import AFModel.SearchTable
import AFModel.Generated.C04
import AFModel.LogPrior
import AFModel.ResumeCheck
import AFProofs.Lemmas.LogPrior

/-!
# C04 — the figure of merit handed to a search

Theorems about `fitnessCall` / `runCalls` / `pyswarmsBatch` (`AFModel/Fitness.lean`) for every
model gate `g`, log-prior function `lp`, flag combination, resample value, state and call sequence.
Combined with C03's `gate_ok_iff`, "`g v = .ok _`" means: right length, inside limits, all assertions true.
-/

namespace AF.C04
open AF

variable {V : Type}

/-- **Success.** instance built and likelihood `ll` (not NaN): the figure of merit is `ll`, plus the
sum of the log-prior terms in posterior mode, times −2 in chi-squared mode — for all eight flag
combinations (the three flags are universally quantified inside `cfg`). -/
theorem fom_on_success (fo : FomOps V) (cfg : FitCfg V) (g) (lp) (st : FitSt V) (v : List V) (i : Inst V)
    (ll : V) (hg : g v = .ok i) :
    (fitnessCall fo cfg g lp st v (.fin ll)).1 =
      .value (let fom := if cfg.fomIsLL then ll else fo.add ll (pySum fo (lp v))
              if cfg.convertChi then fo.mulNeg2 fom else fom) := by
  simp [fitnessCall, hg]

/-- **Resample.** vector outside limits / violating an assertion, likelihood raising the fit
exception or returning NaN: the search receives its resample value and the state is unchanged. -/
theorem resample_on_failure (fo : FomOps V) (cfg : FitCfg V) (g) (lp) (st : FitSt V) (v : List V)
    (o : Outcome V)
    (h : (∃ e, g v = .error e ∧ e ≠ .length) ∨ (∃ i, g v = .ok i ∧ (o = .nan ∨ o = .raisesFit))) :
    fitnessCall fo cfg g lp st v o = (.value cfg.resample, st) := by
  rcases h with ⟨e, he, hne⟩ | ⟨i, hi, ho⟩
  · cases e <;> simp_all [fitnessCall]
  · rcases ho with rfl | rfl <;> simp [fitnessCall, hi]

/-- **No escape.** An exception leaves the call only for a wrong-length vector or when the
likelihood raises something that is not the fit exception. -/
theorem raises_iff (fo : FomOps V) (cfg : FitCfg V) (g) (lp) (st : FitSt V) (v : List V) (o : Outcome V) :
    (∃ st', fitnessCall fo cfg g lp st v o = (.raises, st')) ↔
      (g v = .error .length ∨ ((∃ i, g v = .ok i) ∧ o = .raisesOther)) := by
  unfold fitnessCall
  cases hg : g v with
  | error e => cases e <;> simp
  | ok i => cases o <;> simp

/-- **Repeatable.** The value returned does not depend on the state (history, earlier calls). -/
theorem repeatable (fo : FomOps V) (cfg : FitCfg V) (g) (lp) (st₁ st₂ : FitSt V) (v : List V) (o : Outcome V) :
    (fitnessCall fo cfg g lp st₁ v o).1 = (fitnessCall fo cfg g lp st₂ v o).1 := by
  unfold fitnessCall
  cases g v with
  | error e => cases e <;> rfl
  | ok i => cases o <;> rfl

/-- one call appends to the history exactly when it succeeded and the history is enabled -/
theorem history_step [Inhabited V] (fo : FomOps V) (cfg : FitCfg V) (g) (lp) (st : FitSt V) (c : List V × Outcome V) :
    (fitnessCall fo cfg g lp st c.1 c.2).2.params =
        st.params ++ (if cfg.storeHistory && succeeded g c then [c.1] else []) ∧
    (fitnessCall fo cfg g lp st c.1 c.2).2.lls =
        st.lls ++ (if cfg.storeHistory && succeeded g c then [llOf c] else []) := by
  obtain ⟨v, o⟩ := c
  unfold fitnessCall succeeded llOf
  cases hg : g v with
  | error e => cases e <;> simp
  | ok i =>
    cases o with
    | fin ll => cases cfg.storeHistory <;> simp
    | nan => simp
    | raisesFit => simp
    | raisesOther => simp

/-- **History.** After any sequence of calls the history holds exactly the successfully evaluated
vectors with their likelihoods, in order (and nothing when disabled). -/
theorem history_exact [Inhabited V] (fo : FomOps V) (cfg : FitCfg V) (g) (lp) :
    ∀ (calls : List (List V × Outcome V)) (st : FitSt V),
      (runCalls fo cfg g lp st calls).2.params =
          st.params ++ (if cfg.storeHistory then (calls.filter (succeeded g)).map (·.1) else []) ∧
      (runCalls fo cfg g lp st calls).2.lls =
          st.lls ++ (if cfg.storeHistory then (calls.filter (succeeded g)).map llOf else [])
  | [], st => by simp [runCalls]
  | c :: rest, st => by
    have hs := history_step fo cfg g lp st c
    have ih := history_exact fo cfg g lp rest (fitnessCall fo cfg g lp st c.1 c.2).2
    obtain ⟨v, o⟩ := c
    simp only [runCalls]
    rw [ih.1, ih.2, hs.1, hs.2]
    cases hh : cfg.storeHistory <;> cases hsu : succeeded g (v, o) <;> simp [List.filter, hsu]

/-- the values returned along a sequence are those of the individual calls (state-independent) -/
theorem run_results (fo : FomOps V) (cfg : FitCfg V) (g) (lp) :
    ∀ (calls : List (List V × Outcome V)) (st : FitSt V),
      (runCalls fo cfg g lp st calls).1 = calls.map (fun c => (fitnessCall fo cfg g lp {} c.1 c.2).1)
  | [], st => by simp [runCalls]
  | (v, o) :: rest, st => by
    simp only [runCalls, List.map_cons]
    rw [run_results fo cfg g lp rest, repeatable fo cfg g lp st {} v o]

/-- **Particle swarms.** one figure of merit per particle, in order; each is `-2·(ll + Σ priors)`
or `-2·resample` on any failure / NaN. -/
theorem pyswarms_length (fo : FomOps V) (cfg : FitCfg V) (g) (lp) (ps : List (List V × Outcome V)) :
    (pyswarmsBatch fo cfg g lp ps).length = ps.length := by
  simp [pyswarmsBatch]

theorem pyswarms_particle_success (fo : FomOps V) (cfg : FitCfg V) (g) (lp) (v : List V) (i : Inst V) (ll : V)
    (hg : g v = .ok i) (hn : fo.isNaN (fo.mulNeg2 (fo.add ll (pySum fo (lp v)))) = false) :
    pyswarmsParticle fo cfg g lp v (.fin ll) = .value (fo.mulNeg2 (fo.add ll (pySum fo (lp v)))) := by
  simp [pyswarmsParticle, hg, hn]

theorem pyswarms_particle_failure (fo : FomOps V) (cfg : FitCfg V) (g) (lp) (v : List V) (o : Outcome V)
    (h : (∃ e, g v = .error e ∧ e ≠ .length) ∨ (∃ i, g v = .ok i ∧ (o = .nan ∨ o = .raisesFit))) :
    pyswarmsParticle fo cfg g lp v o = .value (fo.mulNeg2 cfg.resample) := by
  rcases h with ⟨e, he, hne⟩ | ⟨i, hi, ho⟩
  · cases e <;> simp_all [pyswarmsParticle]
  · rcases ho with rfl | rfl <;> simp [pyswarmsParticle, hi]

/-! ## non-vacuity -/

def intFom : FomOps Int := { add := (· + ·), mulNeg2 := (· * -2), zero := 0, isNaN := fun _ => false }
def cfg₀ : FitCfg Int := { fomIsLL := false, convertChi := true, storeHistory := true, resample := -1000 }
def g₀ : List Int → Except GateErr (Inst Int) := fun v =>
  if v.length ≠ 2 then .error .length else if v.all (· ≥ 0) then .ok (.tup []) else .error .priorLimit

example : (runCalls intFom cfg₀ g₀ (fun v => v) {} [([1, 2], .fin 10), ([-1, 2], .fin 3), ([3, 4], .nan), ([5, 6], .fin 7)]).2.params
    = [[1, 2], [5, 6]] := by decide
example : (fitnessCall intFom cfg₀ g₀ (fun v => v) {} [1, 2] (.fin 10)).1 = .value (-26) := by rfl
example : (fitnessCall intFom cfg₀ g₀ (fun v => v) {} [-1, 2] (.fin 10)).1 = .value (-1000) := by rfl

end AF.C04

namespace AF.C04
open AF

/-- C03 and C04 composed: with the model's real gate, a search receives the likelihood-based figure
of merit exactly for vectors of the right length that are inside every limit and satisfy every
assertion, and the resample value for every other vector of the right length. -/
theorem fom_with_model_gate {V : Type} [Inhabited V] (ops : Ops V) (fo : FomOps V) (cfg : FitCfg V)
    (t : Node V) (lims : List (V × V)) (asserts : List (Asrt V)) (lp) (st : FitSt V) (v : List V) (ll : V)
    (hl : v.length = count t) :
    (fitnessCall fo cfg (fun v => gate ops t lims asserts v false) lp st v (.fin ll)).1 =
      if limitsOk ops lims v = true ∧ (∀ a ∈ asserts, evalA ops (valOf (argsOfVector t v)) a = true) then
        .value (let fom := if cfg.fomIsLL then ll else fo.add ll (pySum fo (lp v))
                if cfg.convertChi then fo.mulNeg2 fom else fom)
      else .value cfg.resample := by
  by_cases hlim : limitsOk ops lims v = true
  · by_cases ha : ∀ a ∈ asserts, evalA ops (valOf (argsOfVector t v)) a = true
    · have hg : gate ops t lims asserts v false = .ok (instFromVector ops t v) :=
        (C03.gate_ok_iff ops t lims asserts v _).mpr ⟨hl, hlim, ha, rfl⟩
      rw [if_pos ⟨hlim, ha⟩]
      exact fom_on_success fo cfg _ lp st v _ ll hg
    · rw [if_neg (fun h => ha h.2)]
      have hall : asserts.all (evalA ops (valOf (argsOfVector t v))) = false := by
        rw [Bool.eq_false_iff]; intro h; exact ha (List.all_eq_true.mp h)
      have hg : gate ops t lims asserts v false = .error .fit := by simp [gate, hl, hlim, hall]
      simp [fitnessCall, hg]
  · rw [if_neg (fun h => hlim h.1)]
    have hf : limitsOk ops lims v = false := by simpa using hlim
    have hg : gate ops t lims asserts v false = .error .priorLimit := C03.gate_limit_error ops t lims asserts v hl hf
    simp [fitnessCall, hg]

end AF.C04


/-! ## every search class: the figure of merit its own fitness object hands to it

`Generated.C04.searchRows` is regenerated from `autofit/non_linear/search/**` before every build
(`harness/tables_c04.py`); the driver answers "which flags does search X use" from the same table
(`findRow`), and the harness compares the table with the source and with the fitness objects real
searches build. The `row_*` theorems hold for *any* row, the `table_*` theorems instantiate them
over the rows of the present source tree and add what only a concrete table can say: that every
search's resample value is the designated one. -/

namespace AF.C04
open AF

/-- **Success, per row.** the instance is built and the likelihood is `ll`: a search of this row
receives `ll`, plus the prior sum when it works in posterior space, times −2 when it minimises.
(`FitnessPySwarms` re-checks the *result* for NaN: `hn`.) -/
theorem row_fom_on_success (fo : FomOps Float) (r : SearchRow) (hist : Bool) (g) (lp) (st : FitSt Float)
    (v : List Float) (i : Inst Float) (ll : Float) (hg : g v = .ok i)
    (hn : r.fitnessClass = .pyswarms → fo.isNaN (fo.mulNeg2 (fo.add ll (pySum fo (lp v)))) = false) :
    (rowCall fo r hist g lp st v (.fin ll)).1 = .value (rowFom fo r ll (pySum fo (lp v))) := by
  unfold rowCall rowFom SearchRow.posterior SearchRow.minimises
  cases hc : r.fitnessClass with
  | plain =>
    rw [fom_on_success fo (rowCfg r hist) g lp st v i ll hg]
    cases h1 : r.fomIsLL <;> cases h2 : r.convertChi <;> simp [rowCfg, h1, h2]
  | pyswarms =>
    rw [pyswarms_particle_success fo (rowCfg r hist) g lp v i ll hg (hn hc)]
    simp

/-- **Resample, per row.** a vector outside limits / violating an assertion, the fit exception or
NaN: the search receives `rowResample` (its resample value; `-2 ×` it for the swarm variant) and
nothing is recorded. -/
theorem row_resample_on_failure (fo : FomOps Float) (r : SearchRow) (hist : Bool) (g) (lp) (st : FitSt Float)
    (v : List Float) (o : Outcome Float)
    (h : (∃ e, g v = .error e ∧ e ≠ .length) ∨ (∃ i, g v = .ok i ∧ (o = .nan ∨ o = .raisesFit))) :
    rowCall fo r hist g lp st v o = (.value (rowResample fo r), st) := by
  unfold rowCall rowResample
  cases r.fitnessClass with
  | plain => rw [resample_on_failure fo (rowCfg r hist) g lp st v o h]; rfl
  | pyswarms => rw [pyswarms_particle_failure fo (rowCfg r hist) g lp v o h]; rfl

/-- the swarm variant lets exactly the same exceptions through as the plain one -/
theorem pyswarms_raises_iff (fo : FomOps V) (cfg : FitCfg V) (g) (lp) (v : List V) (o : Outcome V) :
    pyswarmsParticle fo cfg g lp v o = .raises ↔
      (g v = .error .length ∨ ((∃ i, g v = .ok i) ∧ o = .raisesOther)) := by
  unfold pyswarmsParticle
  cases hg : g v with
  | error e => cases e <;> simp
  | ok i =>
    cases o with
    | fin ll => by_cases hn : fo.isNaN (fo.mulNeg2 (fo.add ll (pySum fo (lp v)))) = true <;> simp [hn]
    | nan => simp
    | raisesFit => simp
    | raisesOther => simp

/-- **No escape, per row.** -/
theorem row_raises_iff (fo : FomOps Float) (r : SearchRow) (hist : Bool) (g) (lp) (st : FitSt Float)
    (v : List Float) (o : Outcome Float) :
    (∃ st', rowCall fo r hist g lp st v o = (.raises, st')) ↔
      (g v = .error .length ∨ ((∃ i, g v = .ok i) ∧ o = .raisesOther)) := by
  unfold rowCall
  cases r.fitnessClass with
  | plain => exact raises_iff fo (rowCfg r hist) g lp st v o
  | pyswarms =>
    rw [← pyswarms_raises_iff fo (rowCfg r hist) g lp v o]
    constructor
    · rintro ⟨st', h⟩; exact congrArg Prod.fst h
    · intro h; exact ⟨st, by rw [h]⟩

/-- a run of a plain row is a run of `Fitness` with the row's flags -/
theorem rowRun_plain (fo : FomOps Float) (r : SearchRow) (hist : Bool) (g) (lp) (hc : r.fitnessClass = .plain) :
    ∀ (calls : List (List Float × Outcome Float)) (st : FitSt Float),
      rowRun fo r hist g lp st calls = runCalls fo (rowCfg r hist) g lp st calls
  | [], st => by simp [rowRun, runCalls]
  | (v, o) :: rest, st => by
    simp only [rowRun, runCalls, rowCall, hc]
    rw [rowRun_plain fo r hist g lp hc rest]

/-- the swarm variant never touches the history lists -/
theorem rowRun_pyswarms_state (fo : FomOps Float) (r : SearchRow) (hist : Bool) (g) (lp) (hc : r.fitnessClass = .pyswarms) :
    ∀ (calls : List (List Float × Outcome Float)) (st : FitSt Float), (rowRun fo r hist g lp st calls).2 = st
  | [], st => by simp [rowRun]
  | (v, o) :: rest, st => by
    simp only [rowRun, rowCall, hc]
    exact rowRun_pyswarms_state fo r hist g lp hc rest st

/-- **History, per row**, for any interleaving of successful and failing calls: a plain fitness
object whose `store_history` is on (a literal `True`, or a dynamic argument that evaluated to true)
holds exactly the successfully evaluated vectors with their likelihoods, in order; every other
fitness object holds nothing. -/
theorem row_history_exact (fo : FomOps Float) (r : SearchRow) (hist : Bool) (g) (lp)
    (calls : List (List Float × Outcome Float)) :
    (rowRun fo r hist g lp {} calls).2.params =
        (if r.fitnessClass = .plain ∧ r.storeHistory hist = true then (calls.filter (succeeded g)).map (·.1) else []) ∧
    (rowRun fo r hist g lp {} calls).2.lls =
        (if r.fitnessClass = .plain ∧ r.storeHistory hist = true then (calls.filter (succeeded g)).map llOf else []) := by
  cases hc : r.fitnessClass with
  | plain =>
    rw [rowRun_plain fo r hist g lp hc]
    have h := history_exact fo (rowCfg r hist) g lp calls {}
    rw [h.1, h.2]
    cases hs : r.storeHistory hist <;> simp [rowCfg, hs]
  | pyswarms =>
    rw [rowRun_pyswarms_state fo r hist g lp hc]
    simp

/-- the driver's lookup answers with a row of the table that carries the asked name -/
theorem findRow_mem (rows : List SearchRow) (name : String) (r : SearchRow) (h : findRow rows name = some r) :
    r ∈ rows ∧ r.name = name := by
  unfold findRow at h
  exact ⟨List.mem_of_find?_eq_some h, by simpa using List.find?_some h⟩

/-- **Designated resample value, every search class of the source tree.** What a search receives
for a vector that cannot be evaluated is `≥ 1e99` when it minimises and `≤ -1e99` when it maximises
(so never better than an evaluated vector), nested samplers work in likelihood space, MCMC and
maximum-likelihood searches in posterior space, and the flags given to the swarm variant say what it
does. Checked by evaluation of the regenerated table: a search whose flags change changes this
obligation. -/
theorem table_designated : ∀ r ∈ Generated.C04.searchRows, rowDesignated floatFom r = true := by
  decide +kernel

/-- the defaults of `Fitness.__init__` are themselves a designated combination (likelihood space,
maximised, `-inf` on failure) -/
theorem table_defaults_designated : rowDesignated floatFom Generated.C04.defaultRow = true := by
  decide +kernel

/-- **The property's sentence for every search class of the source tree.** -/
theorem table_contract (r : SearchRow) (hr : r ∈ Generated.C04.searchRows) (hist : Bool) (g) (lp)
    (st : FitSt Float) (v : List Float) (o : Outcome Float) :
    (∀ i ll, g v = .ok i → o = .fin ll →
        (r.fitnessClass = .pyswarms → floatFom.isNaN (floatFom.mulNeg2 (floatFom.add ll (pySum floatFom (lp v)))) = false) →
        (rowCall floatFom r hist g lp st v o).1 = .value (rowFom floatFom r ll (pySum floatFom (lp v)))) ∧
    (((∃ e, g v = .error e ∧ e ≠ .length) ∨ (∃ i, g v = .ok i ∧ (o = .nan ∨ o = .raisesFit))) →
        rowCall floatFom r hist g lp st v o = (.value (rowResample floatFom r), st)) ∧
    rowResampleWorst floatFom r = true := by
  refine ⟨?_, ?_, ?_⟩
  · intro i ll hg ho hn
    subst ho
    exact row_fom_on_success floatFom r hist g lp st v i ll hg hn
  · exact row_resample_on_failure floatFom r hist g lp st v o
  · have h := table_designated r hr
    simp only [rowDesignated, Bool.and_eq_true] at h
    exact h.1.1

/-! ### non-vacuity -/

example : Generated.C04.searchRows.length > 0 := by decide

/-- seeded change C04-m10: the swarm search given `+inf`, which its fitness class multiplies by −2 -/
def swarmPlusInfRow : SearchRow :=
  { name := "PySwarmsGlobal", family := .mle, owner := "AbstractPySwarms", fitnessClass := .pyswarms,
    fomIsLL := false, convertChi := true, history := .off,
    resampleBits := 0x7ff0000000000000, passesPaths := false }
/-- an MCMC search switched to likelihood space -/
def mcmcLikelihoodRow : SearchRow :=
  { name := "Emcee", family := .mcmc, owner := "Emcee", fitnessClass := .plain,
    fomIsLL := true, convertChi := false, history := .off,
    resampleBits := 0xfff0000000000000, passesPaths := true }
def lbfgsRow : SearchRow :=
  { name := "LBFGS", family := .mle, owner := "AbstractBFGS", fitnessClass := .plain,
    fomIsLL := false, convertChi := true, history := .dynamic,
    resampleBits := 0x7ff0000000000000, passesPaths := true }
def gLen1 : List Float → Except GateErr (Inst Float) :=
  fun v => if v.length = 1 then .ok (.tup []) else .error .priorLimit

example : rowDesignated floatFom swarmPlusInfRow = false := by decide +kernel
example : rowDesignated floatFom mcmcLikelihoodRow = false := by decide +kernel
/-- a minimiser of `-2 × posterior` with a dynamic history argument that is on: the history keeps the
one successful call of three, the value is `-2 × (2 + 1.5)` -/
example :
    (rowRun floatFom lbfgsRow true gLen1 (fun _ => [1.5]) {}
      [([0.5], .fin 2.0), ([0.5, 0.5], .fin 1.0), ([0.25], .nan)]).2.lls.map Float.toBits = [(2.0 : Float).toBits] := by
  decide +kernel
example :
    (match (rowCall floatFom lbfgsRow true gLen1 (fun _ => [1.5]) {} [0.5] (.fin 2.0)).1 with
      | .value x => x.toBits == (-7.0 : Float).toBits
      | .raises => false) = true := by
  decide +kernel

end AF.C04


/-! ## the log-prior terms are computed, not supplied

`logPriorList` (`AFModel/LogPrior.lean`) is what the driver executes for `lp`: parameter order from
the composition tree (`uniqueIds`, the order C01 proves for `model.paths`), one expression per prior
family. The theorems above hold for every `lp`; here `lp` is the model's. -/

namespace AF.C04
open AF AF.LogPriorLemmas

/-- one term per parameter (Python's `map` stops at the shorter of priors and vector) -/
theorem logPriorList_length (lo : LpOps V) (tbl : List (Nat × PriorD V)) (t : Node V) (v : List V) :
    (logPriorList lo tbl t v).length = min (count t) v.length := by
  simp [logPriorList, argsOfVector_length]

/-- **Parameter order.** the k-th term is `log_prior_from_value` of the prior whose id is k-th in
parameter order, applied to the k-th entry of the vector -/
theorem logPriorList_term (lo : LpOps V) (tbl : List (Nat × PriorD V)) (t : Node V) (v : List V) (k : Nat)
    (id : Nat) (x : V) (hid : (uniqueIds t)[k]? = some id) (hx : v[k]? = some x) :
    (logPriorList lo tbl t v)[k]? = some (logPriorOf lo (descOf lo tbl id) x) := by
  simp [logPriorList, argsOfVector_getElem?, hid, hx]

/-- the families, with the expressions of the code -/
theorem logPrior_families (lo : LpOps V) (mean sigma x : V) :
    logPriorOf lo ⟨.uniform, mean, sigma⟩ x = lo.zero ∧
    logPriorOf lo ⟨.logUniform, mean, sigma⟩ x = lo.div lo.one x ∧
    logPriorOf lo ⟨.gaussian, mean, sigma⟩ x = lo.div (lo.sq (lo.sub x mean)) (lo.mul lo.two (lo.sq sigma)) ∧
    (lo.le0 x = true → logPriorOf lo ⟨.logGaussian, mean, sigma⟩ x = lo.negInf) ∧
    (lo.le0 x = false → logPriorOf lo ⟨.logGaussian, mean, sigma⟩ x =
      lo.sub (lo.div (lo.sq (lo.sub (lo.log x) mean)) (lo.mul lo.two (lo.sq sigma))) (lo.log x)) := by
  refine ⟨rfl, rfl, rfl, ?_, ?_⟩ <;> intro h <;> simp [logPriorOf, normalTerm, h]

/-- **Posterior = likelihood + the model's terms, summed left to right in parameter order**, times −2
in chi-squared mode; nothing is added in likelihood mode. `lp` is no longer a parameter. -/
theorem posterior_sum_in_parameter_order (fo : FomOps V) (lo : LpOps V) (cfg : FitCfg V) (g)
    (tbl : List (Nat × PriorD V)) (t : Node V) (st : FitSt V) (v : List V) (i : Inst V) (ll : V) (hg : g v = .ok i) :
    (fitnessCall fo cfg g (logPriorList lo tbl t) st v (.fin ll)).1 =
      .value (let post := fo.add ll (((uniqueIds t).zip v).foldl
                  (fun acc a => fo.add acc (logPriorOf lo (descOf lo tbl a.1) a.2)) fo.zero)
              let fom := if cfg.fomIsLL then ll else post
              if cfg.convertChi then fo.mulNeg2 fom else fom) := by
  rw [fom_on_success fo cfg g _ st v i ll hg]
  simp only [pySum, logPriorList, foldl_map_add, argsOfVector]

/-- with the model's own gate (C03) and the model's own terms: the complete sentence for a vector of
the right length -/
theorem fom_of_model (ops : Ops V) [Inhabited V] (fo : FomOps V) (lo : LpOps V) (cfg : FitCfg V)
    (t : Node V) (lims : List (V × V)) (asserts : List (Asrt V)) (tbl : List (Nat × PriorD V))
    (st : FitSt V) (v : List V) (ll : V) (hl : v.length = count t) :
    (fitnessCall fo cfg (fun v => gate ops t lims asserts v false) (logPriorList lo tbl t) st v (.fin ll)).1 =
      if limitsOk ops lims v = true ∧ (∀ a ∈ asserts, evalA ops (valOf (argsOfVector t v)) a = true) then
        .value (let fom := if cfg.fomIsLL then ll else fo.add ll (logPriorSum fo lo tbl t v)
                if cfg.convertChi then fo.mulNeg2 fom else fom)
      else .value cfg.resample :=
  fom_with_model_gate ops fo cfg t lims asserts (logPriorList lo tbl t) st v ll hl

/-- a model whose priors are all uniform: every term is `0.0` -/
theorem uniform_terms_zero (lo : LpOps V) (tbl : List (Nat × PriorD V)) (t : Node V) (v : List V)
    (hu : ∀ id ∈ uniqueIds t, (descOf lo tbl id).kind = .uniform) :
    ∀ x ∈ logPriorList lo tbl t v, x = lo.zero := by
  intro x hx
  simp only [logPriorList, List.mem_map] at hx
  obtain ⟨a, ha, rfl⟩ := hx
  have hid : a.1 ∈ uniqueIds t := by
    have := List.of_mem_zip (show (a.1, a.2) ∈ (uniqueIds t).zip v from ha)
    exact this.1
  simp [logPriorOf, hu a.1 hid]

/-- ... so the posterior of an all-uniform model is `ll + 0.0` (whenever `0.0 + 0.0 = 0.0`) -/
theorem uniform_sum_zero (fo : FomOps V) (lo : LpOps V) (tbl : List (Nat × PriorD V)) (t : Node V) (v : List V)
    (hz : fo.add fo.zero lo.zero = fo.zero)
    (hu : ∀ id ∈ uniqueIds t, (descOf lo tbl id).kind = .uniform) :
    logPriorSum fo lo tbl t v = fo.zero := by
  have h := uniform_terms_zero lo tbl t v hu
  unfold logPriorSum pySum
  generalize logPriorList lo tbl t v = l at h
  induction l with
  | nil => rfl
  | cons x xs ih =>
    have hx : x = lo.zero := h x (List.mem_cons_self ..)
    simp only [List.foldl_cons, hx, hz]
    exact ih (fun y hy => h y (List.mem_cons_of_mem _ hy))

/-! ### non-vacuity: exact rationals; two priors whose ids are *not* in the order of the walk -/

def ratLp : LpOps Rat where
  zero := 0
  one := 1
  two := 2
  negInf := -1000000
  nan := -999
  sub := (· - ·)
  mul := (· * ·)
  div := (· / ·)
  sq := fun x => x * x
  log := fun x => x - 1
  le0 := fun x => decide (x ≤ 0)

def ratFom : FomOps Rat := { add := (· + ·), mulNeg2 := (· * -2), zero := 0, isNaN := fun _ => false }

/-- `Model(P2, a = prior 7 (log-uniform), b = prior 3 (gaussian mean 1 sigma 2))`: the walk meets 7 first,
the parameter order is 3, 7 -/
def t₂ : Node Rat := .model "P2" ["a", "b"] [("a", .prior 7), ("b", .prior 3)]
def tbl₂ : List (Nat × PriorD Rat) := [(7, ⟨.logUniform, 0, 1⟩), (3, ⟨.gaussian, 1, 2⟩)]

example : uniqueIds t₂ = [3, 7] := by decide
/-- vector `[5, 1/4]`: the gaussian term belongs to the first entry, `(5-1)²/(2·2²) = 2`, the
log-uniform one to the second, `1/(1/4) = 4` -/
example : logPriorList ratLp tbl₂ t₂ [5, 1/4] = [2, 4] := by decide +kernel
example : (match (fitnessCall ratFom { fomIsLL := false, convertChi := true, storeHistory := false, resample := -1 }
    (fun _ => .ok (.tup [])) (logPriorList ratLp tbl₂ t₂) {} [5, 1/4] (.fin 10)).1 with
    | .value x => x | .raises => 0) = -32 := by decide +kernel
/-- a shorter vector: one term -/
example : logPriorList ratLp tbl₂ t₂ [5] = [2] := by decide +kernel

end AF.C04


/-! ## `check_log_likelihood` on resume -/

namespace AF.C04
open AF

/-- **The check raises exactly when the stored and the recomputed likelihood are not close**: it is
switched on (no test mode, configuration on), a stored sample exists, the model accepts its
parameters, and the likelihood now returns NaN or a number `np.isclose` rejects. -/
theorem check_raises_iff (co : CloseOps V) (testMode cfgOn : Bool) (s : Stored V) (g) (o : Outcome V) :
    checkLL co testMode cfgOn s g o = .searchException ↔
      testMode = false ∧ cfgOn = true ∧ ∃ llOld params i, s = .sample llOld params ∧ g params = .ok i ∧
        (o = .nan ∨ ∃ llNew, o = .fin llNew ∧ isClose co llOld llNew = false) := by
  unfold checkLL
  cases testMode <;> cases cfgOn <;> simp
  cases s with
  | noSummary => simp
  | noSample => simp
  | sample llOld params =>
    cases hg : g params with
    | error e => simp [hg]
    | ok i =>
      cases o with
      | fin llNew =>
        by_cases hc : isClose co llOld llNew = true
        · simp [hg, hc]
        · simp [hg, hc]
          exact ⟨llOld, params, ⟨rfl, rfl⟩, ⟨i, hg⟩, by simpa using hc⟩
      | nan =>
        simp [hg]
        exact ⟨llOld, params, ⟨rfl, rfl⟩, i, hg⟩
      | raisesFit => simp [hg]
      | raisesOther => simp [hg]

/-- the check is silent when it is switched off or there is nothing to resume from -/
theorem check_passes_when_off (co : CloseOps V) (testMode cfgOn : Bool) (s : Stored V) (g) (o : Outcome V)
    (h : testMode = true ∨ cfgOn = false ∨ s = .noSummary ∨ s = .noSample) :
    checkLL co testMode cfgOn s g o = .passes := by
  unfold checkLL
  rcases h with h | h | h | h
  · subst h; simp
  · subst h; cases testMode <;> simp
  · subst h; cases testMode <;> cases cfgOn <;> simp
  · subst h; cases testMode <;> cases cfgOn <;> simp

/-- what else can leave the constructor: the model rejecting the stored vector, the likelihood raising -/
theorem check_escapes_iff (co : CloseOps V) (testMode cfgOn : Bool) (s : Stored V) (g) (o : Outcome V) :
    checkLL co testMode cfgOn s g o = .escapes ↔
      testMode = false ∧ cfgOn = true ∧ ∃ llOld params, s = .sample llOld params ∧
        ((∃ e, g params = .error e) ∨ ((∃ i, g params = .ok i) ∧ (o = .raisesFit ∨ o = .raisesOther))) := by
  unfold checkLL
  cases testMode <;> cases cfgOn <;> simp
  cases s with
  | noSummary => simp
  | noSample => simp
  | sample llOld params =>
    cases hg : g params with
    | error e =>
      simp [hg]
      exact ⟨llOld, params, ⟨rfl, rfl⟩, Or.inl ⟨e, hg⟩⟩
    | ok i =>
      cases o with
      | fin llNew => by_cases hc : isClose co llOld llNew = true <;> simp [hg, hc]
      | nan => simp [hg]
      | raisesFit =>
        simp [hg]
        exact ⟨llOld, params, ⟨rfl, rfl⟩, Or.inr ⟨i, hg⟩⟩
      | raisesOther =>
        simp [hg]
        exact ⟨llOld, params, ⟨rfl, rfl⟩, Or.inr ⟨i, hg⟩⟩

/-- **The check never alters a figure of merit** (nor a history): an object built with `paths`
either is not built, or answers every sequence of calls exactly as an object built without. -/
theorem resume_never_alters (fo : FomOps V) (co : CloseOps V) (cfg : FitCfg V) (g) (lp)
    (paths : Option (Bool × Bool × Stored V × Outcome V)) (calls : List (List V × Outcome V)) (r) :
    constructAndRun fo co cfg g lp paths calls = .ok r →
      constructAndRun fo co cfg g lp none calls = .ok r := by
  intro h
  unfold constructAndRun at h ⊢
  cases paths with
  | none => exact h
  | some p =>
    obtain ⟨tm, on, s, o⟩ := p
    simp only at h
    cases hc : checkLL co tm on s g o <;> simp [hc] at h
    simp [h]

/-- ... and it is built exactly when the check passes -/
theorem resume_built_iff (fo : FomOps V) (co : CloseOps V) (cfg : FitCfg V) (g) (lp)
    (tm on : Bool) (s : Stored V) (o : Outcome V) (calls : List (List V × Outcome V)) :
    (∃ r, constructAndRun fo co cfg g lp (some (tm, on, s, o)) calls = .ok r) ↔ checkLL co tm on s g o = .passes := by
  unfold constructAndRun
  constructor
  · rintro ⟨r, hr⟩
    cases hc : checkLL co tm on s g o <;> simp [hc] at hr
    rfl
  · intro hc
    exact ⟨runCalls fo cfg g lp {} calls, by simp [hc]⟩

/-- `np.isclose` on finite numbers is the stated inequality; equal infinities are close -/
theorem isClose_finite (co : CloseOps V) (a b : V) (ha : co.isFinite a = true) (hb : co.isFinite b = true) :
    isClose co a b = co.le (co.abs (co.sub a b)) (co.add co.atol (co.mul co.rtol (co.abs b))) := by
  simp [isClose, ha, hb]

/-! ### non-vacuity (Float, evaluated by the kernel) -/

/-- stored −100.0, recomputed −100.0005: within `1e-8 + 1e-5·100.0005`; recomputed −100.002: not -/
example : isClose floatClose (-100.0) (-100.0005) = true ∧ isClose floatClose (-100.0) (-100.002) = false := by
  decide +kernel
example : checkLL floatClose false true (.sample (-100.0) [0.5]) gLen1 (.fin (-100.002)) = .searchException := by
  decide +kernel
example : checkLL floatClose false true (.sample (-100.0) [0.5]) gLen1 (.fin (-100.0005)) = .passes := by
  decide +kernel
example : checkLL floatClose false true (.sample (-100.0) [0.5, 0.5]) gLen1 (.fin (-100.0)) = .escapes := by
  decide +kernel
example : checkLL floatClose true true (.sample (-100.0) [0.5]) gLen1 (.fin 3.0) = .passes := by
  decide +kernel

end AF.C04
