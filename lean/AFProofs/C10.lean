import AFProofs.Lemmas.Query
import AFProofs.Lemmas.QuerySql

/-!
# C10 — database queries return exactly the fits satisfying the predicate

Property theorems about the `Query` model (`AFModel/Query.lean`): every predicate expression (any nesting of
and / or / not over path comparisons, type tests, fit-attribute and info conditions), every database (any list
of fits whose stored instances have unique attribute names under each parent), any number type `α` with any
comparison `ops`, any merging depth `fuel`. The model is tied to /repo by `harness/c10.py`.

`cfg.junctionKeepsNot` / `cfg.sliceWindow` = `true` is the repaired behaviour (fixes/C10-*.patch); for `false`
(the pinned commit) the refutations `compile_refuted_not_merge` and `slice_refuted` are proved.
-/

namespace AF.C10
open AF.Query

variable {α : Type}

/-- **Path comparison.** `aggregator.model.a.b.c op const` — the nested `NamedQuery` chain with its joins — holds
for a fit iff following `a.b.c` from the stored instance reaches an object of the constant's kind on which the
comparison holds (a missing attribute or a value of another kind makes it false). -/
theorem path_comparison_correct (ops : NumOps α) (f : Fit α) (hwf : f.inst.WF = true)
    (n : String) (ns : List String) (leaf : Leaf α) :
    sem ops f (pathQ (n :: ns) leaf) f.inst = (f.inst.follow (n :: ns)).any (leafHolds ops leaf) :=
  sem_pathQ ops f leaf (n :: ns) f.inst hwf

/-- **Negation.** `~q` selects exactly the fits `q` does not select (named query: `NOT IN`; anything else:
complement query). -/
theorem negation_correct (ops : NumOps α) (f : Fit α) (q : Q α) (o : Obj α) :
    sem ops f (invert q) o = !sem ops f q o :=
  sem_invert ops f q o

/-- **And.** `And(*cs)` — after flattening, merging named queries of the same name and collapsing — holds iff
every argument holds; any list of conditions, any merging depth. -/
theorem and_correct (ops : NumOps α) (f : Fit α) (cfg : Cfg) (hcfg : cfg.junctionKeepsNot = true) (fuel : Nat)
    (cs : List (Q α)) (o : Obj α) (hwf : o.WF = true) :
    sem ops f (mkJ cfg fuel true cs) o = cs.all (fun c => sem ops f c o) := by
  simpa [jsem] using mkJ_sem ops f cfg hcfg fuel true cs o hwf

/-- **Or.** `Or(*cs)` holds iff some argument holds. -/
theorem or_correct (ops : NumOps α) (f : Fit α) (cfg : Cfg) (hcfg : cfg.junctionKeepsNot = true) (fuel : Nat)
    (cs : List (Q α)) (o : Obj α) (hwf : o.WF = true) :
    sem ops f (mkJ cfg fuel false cs) o = cs.any (fun c => sem ops f c o) := by
  simpa [jsem] using mkJ_sem ops f cfg hcfg fuel false cs o hwf

/-- **Compiler correctness (one fit).** The SQL meaning of the query object built for predicate `p` is `p`
evaluated directly on the stored objects. -/
theorem compile_correct (ops : NumOps α) (cfg : Cfg) (hcfg : cfg.junctionKeepsNot = true) (p : Pred α)
    (f : Fit α) (hwf : f.inst.WF = true) :
    sem ops f (compileTop cfg p) f.inst = evalDirect ops f p :=
  sem_compile ops f cfg hcfg _ hwf p

/-- **Exactly the fits satisfying the predicate**, in database order, with multiplicity. -/
theorem query_returns_exactly (ops : NumOps α) (cfg : Cfg) (hcfg : cfg.junctionKeepsNot = true) (p : Pred α)
    (db : List (Fit α)) (hdb : ∀ f ∈ db, f.inst.WF = true) :
    queryFits ops (compileTop cfg p) db = directFits ops p db := by
  simp only [queryFits, directFits]
  apply List.filter_congr
  intro f hf
  exact compile_correct ops cfg hcfg p f (hdb f hf)

theorem query_mem_iff (ops : NumOps α) (cfg : Cfg) (hcfg : cfg.junctionKeepsNot = true) (p : Pred α)
    (db : List (Fit α)) (hdb : ∀ f ∈ db, f.inst.WF = true) (f : Fit α) :
    f ∈ queryFits ops (compileTop cfg p) db ↔ f ∈ db ∧ evalDirect ops f p = true := by
  rw [query_returns_exactly ops cfg hcfg p db hdb]
  simp [directFits, List.mem_filter]

/-- **Each once.** The result is a sub-list of the fit table; with unique fit ids no fit is returned twice. -/
theorem query_each_once (ops : NumOps α) (q : Q α) (db : List (Fit α)) (hid : (db.map (·.id)).Nodup) :
    (queryFits ops q db).Sublist db ∧ ((queryFits ops q db).map (·.id)).Nodup := by
  have hs : (queryFits ops q db).Sublist db := List.filter_sublist
  exact ⟨hs, List.Nodup.sublist (hs.map _) hid⟩

/-! ### the tables themselves -/

/-- **Rows.** When the rows below `r` in the object table store the object `o` (decidable check `repCheck`, run
on the real table contents by the harness), the relational meaning of the SQL over the table is its meaning on
the object. -/
theorem rows_meaning_is_object_meaning [DecidableEq α] (ops : NumOps α) (T : List (Row α)) (f : Fit α) (q : Q α)
    (r : Row α) (o : Obj α) (h : repCheck T r o = true) :
    rsem ops T f q r = sem ops f q o :=
  rsem_eq_sem ops T f q r o h

/-- **Exactly the fits satisfying the predicate, on the tables**: evaluating the generated SQL relationally over
an object table that stores every fit's instance selects exactly the fits whose stored objects satisfy `p`. -/
theorem rows_query_returns_exactly [DecidableEq α] (ops : NumOps α) (cfg : Cfg) (hcfg : cfg.junctionKeepsNot = true)
    (p : Pred α) (T : List (Row α)) (db : List (StoredFit α))
    (hdb : ∀ sf ∈ db, stored T sf = true ∧ sf.fit.inst.WF = true) :
    rowsQueryFits ops T (compileTop cfg p) db = db.filter (fun sf => evalDirect ops sf.fit p) := by
  simp only [rowsQueryFits]
  apply List.filter_congr
  intro sf hsf
  obtain ⟨hst, hwf⟩ := hdb sf hsf
  simp only [stored] at hst
  cases hr : rootRow T sf.instanceId with
  | none => simp [hr] at hst
  | some r =>
    simp only [hr] at hst ⊢
    rw [rsem_eq_sem ops T sf.fit _ r sf.fit.inst hst]
    exact compile_correct ops cfg hcfg p sf.fit hwf

/-- The pinned commit (`junctionKeepsNot = false`: negated named queries are merged by name, which drops the
NOT) violates the property: `~(g.centre == 1) & (g.sigma == 2)` returns the fits with `centre == 1`. -/
theorem compile_refuted_not_merge :
    ∃ (p : Pred Nat) (db : List (Fit Nat)), (∀ f ∈ db, f.inst.WF = true) ∧
      (queryFits Witness.natOps (compileTop { junctionKeepsNot := false } p) db).map (·.id)
        ≠ (directFits Witness.natOps p db).map (·.id) :=
  ⟨Witness.notMerge, Witness.db, by decide, by decide⟩

/-! ### ordering -/

/-- `order_by` returns the selected fits, each once (a permutation). -/
theorem order_by_perm (numLe : α → α → Bool) (keys : List OrderKey) (l : List (Fit α)) :
    (orderBy numLe keys l).Perm l :=
  perm_isort _ l

/-- `order_by(k₁).order_by(k₂)…` sorts lexicographically, the first key taking precedence, `reverse` descending,
NULL first: every earlier fit is `≤` every later one (for any total transitive order on numbers). -/
theorem order_by_sorted (numLe : α → α → Bool) (htotal : ∀ a b, numLe a b = true ∨ numLe b a = true)
    (htrans : ∀ a b c, numLe a b = true → numLe b c = true → numLe a c = true)
    (keys : List OrderKey) (l : List (Fit α)) :
    (orderBy numLe keys l).Pairwise (fun a b => lexLe numLe keys a b = true) :=
  sorted_isort _ (lexLe_trans numLe htotal htrans keys) (lexLe_total numLe keys) l

/-- first key takes precedence: a strict difference on the first key decides, later keys only break ties -/
theorem order_first_key_precedence (numLe : α → α → Bool) (k : OrderKey) (ks : List OrderKey) (x y : Fit α) :
    lexLe numLe (k :: ks) x y =
      (if keyR numLe k (x.attr k.attr) (y.attr k.attr) && !keyR numLe k (y.attr k.attr) (x.attr k.attr) then true
       else if keyR numLe k (y.attr k.attr) (x.attr k.attr) && !keyR numLe k (x.attr k.attr) (y.attr k.attr) then false
       else lexLe numLe ks x y) :=
  lexLe_cons numLe k ks x y

/-- `reverse=True` is the opposite order on that key -/
theorem order_reverse (numLe : α → α → Bool) (a : String) (u v : AVal α) :
    keyR numLe ⟨a, true⟩ u v = keyR numLe ⟨a, false⟩ v u := by
  simp [keyR]

/-! ### slicing -/

/-- **Slicing.** `aggregator[a:b]` (any integers, negative or absent) on an aggregator that already has an
offset/limit window yields the offset/limit whose fits are the python slice `[a:b]` of the current fits. -/
theorem slice_correct {β} (cfg : Cfg) (h : cfg.sliceWindow = true) (w : Window) (full : List β)
    (a b : Option Int) :
    (sliceWindow cfg w (w.apply full).length a b).apply full = pySlice (w.apply full) a b :=
  sliceWindow_repaired cfg h w full a b

/-- chains of slices compose like python list slicing -/
theorem slice_chain_correct {β} (cfg : Cfg) (h : cfg.sliceWindow = true) (full : List β)
    (slices : List (Option Int × Option Int)) :
    (sliceChain cfg full {} slices).apply full = slices.foldl (fun cur ab => pySlice cur ab.1 ab.2) full := by
  simpa [Window.apply] using sliceChain_repaired cfg h full slices {}

/-- The pinned commit's limit arithmetic is wrong: 5 fits, `[1:3]` gives 1 fit. -/
theorem slice_refuted :
    ∃ (full : List Nat) (a b : Option Int),
      (sliceWindow { sliceWindow := false } {} full.length a b).apply full ≠ pySlice full a b :=
  ⟨[0, 1, 2, 3, 4], some 1, some 3, by decide⟩

/-- **The whole observable.** `aggregator.query(p).order_by(…)[a:b]….fits` is the python slice chain of the
sorted list of exactly the fits satisfying `p`. -/
theorem run_correct (ops : NumOps α) (numLe : α → α → Bool) (cfg : Cfg) (hj : cfg.junctionKeepsNot = true)
    (hs : cfg.sliceWindow = true) (db : List (Fit α)) (hdb : ∀ f ∈ db, f.inst.WF = true) (p : Pred α)
    (keys : List OrderKey) (slices : List (Option Int × Option Int)) :
    run ops numLe cfg db (some p) keys slices
      = slices.foldl (fun cur ab => pySlice cur ab.1 ab.2) (orderBy numLe keys (directFits ops p db)) := by
  simp only [run]
  rw [query_returns_exactly ops cfg hj p db hdb, slice_chain_correct cfg hs]

/-! ### non-vacuity: concrete databases and predicates meeting every hypothesis -/

open Witness

example : ∀ f ∈ db, f.inst.WF = true := by decide
example : (db.map (·.id)).Nodup := by decide
-- repaired: the NOT survives
example : (queryFits natOps (compileTop {} notMerge) db).map (·.id) = ["b", "e"] := by decide
example : (directFits natOps notMerge db).map (·.id) = ["b", "e"] := by decide
-- pinned: it is lost
example : (queryFits natOps (compileTop { junctionKeepsNot := false } notMerge) db).map (·.id) = ["a"] := by decide
-- a predicate using every kind of condition, with merges of `g.*` under Or and And and a negated junction
example : (queryFits natOps (compileTop {} mixed) db).map (·.id) = ["a", "b", "c", "e"] := by decide
example : (directFits natOps mixed db).map (·.id) = ["a", "b", "c", "e"] := by decide
example : (compileTop {} mixed).render
    = "&[|[~(F),g(|[centre(V),sigma(V)])],~(&[F,g(&[T,note(0)])])]" := by decide
-- the object table of a one-fit database, as the real code writes it (ids in insertion order)
example : stored Witness.table ⟨Witness.fit "a" 1 2 true, 1⟩ = true := by decide
example : (rowsQueryFits natOps Witness.table (compileTop {} notMerge)
    [⟨Witness.fit "a" 1 2 true, 1⟩, ⟨Witness.fit "b" 3 2 false, 2⟩]).map (·.fit.id) = ["b"] := by decide
-- merging depth `depth + 1` is enough: more fuel builds the same query
example : (compile {} 50 mixed).render = (compileTop {} mixed).render := by decide
-- ordering and slicing
example : (run natOps (fun a b => decide (a ≤ b)) {} db (some mixed) [⟨"is_complete", false⟩, ⟨"id", true⟩]
    [(some 1, some (-1))]).map (·.id) = ["e", "c"] := by decide
example : pySlice [0, 1, 2, 3, 4] (some 1) (some (-1)) = [1, 2, 3] := by decide
example : pySlice [0, 1, 2, 3, 4] (some (-2)) none = [3, 4] := by decide
example : (sliceWindow {} {} 5 (some 1) (some 3)).apply [0, 1, 2, 3, 4] = [1, 2] := by decide
example : (sliceWindow { sliceWindow := false } {} 5 (some 1) (some 3)).apply [0, 1, 2, 3, 4] = [1] := by decide

end AF.C10

namespace AF.C10
open AF.Query

/-! ## stepped slices -/

/-- without a stepped slice `runStep` is `run` (all earlier theorems apply unchanged) -/
theorem runStep_none {α} (ops : NumOps α) (numLe : α → α → Bool) (cfg : Cfg) (db : List (Fit α))
    (p : Option (Pred α)) (keys : List OrderKey) (slices : List (Option Int × Option Int)) :
    runStep ops numLe cfg db p keys slices none = run ops numLe cfg db p keys slices := rfl

/-- every index a stepped slice produces lies inside the list: nothing is invented, and the `filterMap`
of `pySliceStep` drops nothing -/
theorem sliceIndices_lt (len : Nat) (start stop : Option Int) (step : Int) :
    ∀ i ∈ sliceIndices len start stop step, i < len := by
  intro i hi
  unfold sliceIndices at hi
  split at hi
  · rename_i hpos
    simp only [List.mem_map] at hi
    obtain ⟨x, hx, rfl⟩ := hi
    have hcond := List.all_eq_true.mp List.all_takeWhile x hx
    have hmem := (List.takeWhile_sublist _).subset hx
    simp only [List.mem_map, List.mem_range] at hmem
    obtain ⟨k, _, rfl⟩ := hmem
    simp only [decide_eq_true_eq] at hcond
    have hs : 0 ≤ (Option.map (fun i : Int => if i < 0 then max (i + (len : Int)) 0 else min i len) start).getD 0 := by
      cases start with
      | none => simp
      | some a => simp only [Option.map_some, Option.getD_some]; split <;> omega
    have he : (Option.map (fun i : Int => if i < 0 then max (i + (len : Int)) 0 else min i len) stop).getD len ≤ len := by
      cases stop with
      | none => simp
      | some a => simp only [Option.map_some, Option.getD_some]; split <;> omega
    have hk : 0 ≤ Int.ofNat k * step := Int.mul_nonneg (Int.natCast_nonneg _) (Int.le_of_lt hpos)
    omega
  · rename_i hneg
    simp only [List.mem_map] at hi
    obtain ⟨x, hx, rfl⟩ := hi
    have hcond := List.all_eq_true.mp List.all_takeWhile x hx
    have hmem := (List.takeWhile_sublist _).subset hx
    simp only [List.mem_map, List.mem_range] at hmem
    obtain ⟨k, hklt, rfl⟩ := hmem
    simp only [decide_eq_true_eq] at hcond
    have hs : (Option.map (fun i : Int => if i < 0 then max (i + (len : Int)) (-1) else min i ((len : Int) - 1)) start).getD ((len : Int) - 1) ≤ (len : Int) - 1 := by
      cases start with
      | none => simp
      | some a => simp only [Option.map_some, Option.getD_some]; split <;> omega
    have he : -1 ≤ (Option.map (fun i : Int => if i < 0 then max (i + (len : Int)) (-1) else min i ((len : Int) - 1)) stop).getD (-1) := by
      cases stop with
      | none => simp
      | some a => simp only [Option.map_some, Option.getD_some]; split <;> omega
    have hk : Int.ofNat k * step ≤ 0 := Int.mul_nonpos_of_nonneg_of_nonpos (Int.natCast_nonneg _) (by omega)
    omega

/-- a stepped slice returns members of the result it slices (a sub-multiset in general; with
`sliceIndices_lt`, exactly the fits at the produced positions) -/
theorem pySliceStep_subset {β} (l : List β) (a b : Option Int) (st : Int) :
    ∀ x ∈ pySliceStep l a b st, x ∈ l := by
  intro x hx
  simp only [pySliceStep, List.mem_filterMap] at hx
  obtain ⟨i, _, hi⟩ := hx
  exact List.mem_of_getElem? hi

/-! ### `[::-1]` is the reversed result -/

theorem takeWhile_all {α} (p : α → Bool) : ∀ (l : List α), (∀ x ∈ l, p x = true) → l.takeWhile p = l
  | [], _ => rfl
  | a :: l, h => by
      rw [List.takeWhile_cons_of_pos (h a (List.mem_cons_self ..)), takeWhile_all p l (fun x hx => h x (List.mem_cons_of_mem _ hx))]

theorem sliceIndices_rev (len : Nat) : sliceIndices len none none (-1) = (List.range len).reverse := by
  unfold sliceIndices
  simp only [show ¬ ((-1 : Int) > 0) by decide, if_false, Option.map_none, Option.getD_none]
  rw [takeWhile_all]
  · rw [List.map_map]
    apply List.ext_getElem
    · simp
    · intro i h1 h2
      simp only [List.getElem_map, List.getElem_range, Function.comp, List.getElem_reverse, List.length_range]
      simp only [List.length_map, List.length_range] at h1
      have e : Int.ofNat i = (i : Int) := rfl
      rw [e]
      omega
  · intro x hx
    simp only [List.mem_map, List.mem_range] at hx
    obtain ⟨k, hk, rfl⟩ := hx
    simp only [decide_eq_true_eq]
    have : Int.ofNat k = (k : Int) := rfl
    omega

theorem filterMap_range_getElem? {β} : ∀ (l : List β), (List.range l.length).filterMap (fun i => l[i]?) = l
  | [] => rfl
  | a :: l => by
      rw [List.length_cons, List.range_succ_eq_map, List.filterMap_cons]
      simp only [List.getElem?_cons_zero, List.filterMap_map]
      congr 1
      have := filterMap_range_getElem? l
      simpa [Function.comp_def] using this

theorem pySliceStep_reverse {β} (l : List β) : pySliceStep l none none (-1) = l.reverse := by
  unfold pySliceStep
  rw [sliceIndices_rev, List.filterMap_reverse, filterMap_range_getElem?]

/-- `query(p).order_by(k)[::-1].fits`-like: a last slice `[::-1]` returns the ordered result backwards, every
fit exactly once -/
theorem runStep_reverse {α} (ops : NumOps α) (numLe : α → α → Bool) (cfg : Cfg) (db : List (Fit α))
    (p : Option (Pred α)) (keys : List OrderKey) (slices : List (Option Int × Option Int)) :
    runStep ops numLe cfg db p keys slices (some (none, none, -1)) = (run ops numLe cfg db p keys slices).reverse := by
  simp only [runStep]
  exact pySliceStep_reverse _

/-! ### a step of 1 is the plain slice -/

theorem takeWhile_lt_map_rangeFrom (s e : Int) : ∀ (n : Nat) (off : Nat),
    ((List.range' off n).map (fun (k : Nat) => s + Int.ofNat k * 1)).takeWhile (fun i => decide (i < e))
      = (List.range' off (min n ((e - s - off).toNat))).map (fun (k : Nat) => s + Int.ofNat k * 1)
  | 0, off => by simp
  | n + 1, off => by
      rw [List.range'_succ, List.map_cons]
      have e1 : Int.ofNat off = (off : Int) := rfl
      by_cases h : s + Int.ofNat off * 1 < e
      · rw [List.takeWhile_cons_of_pos (by simpa using h), takeWhile_lt_map_rangeFrom s e n (off + 1)]
        rw [e1] at h
        have hm : min (n + 1) ((e - s - (off : Int)).toNat) = min n ((e - s - ((off + 1 : Nat) : Int)).toNat) + 1 := by
          push_cast; omega
        rw [hm, List.range'_succ, List.map_cons]
      · rw [List.takeWhile_cons_of_neg (by simpa using h)]
        rw [e1] at h
        have hm : min (n + 1) ((e - s - (off : Int)).toNat) = 0 := by omega
        rw [hm]; rfl

theorem filterMap_rangeFrom_getElem? {β} (l : List β) : ∀ (m s : Nat),
    (List.range' s m).filterMap (fun i => l[i]?) = (l.drop s).take m
  | 0, s => by simp
  | m + 1, s => by
      rw [List.range'_succ, List.filterMap_cons]
      by_cases h : s < l.length
      · rw [List.getElem?_eq_getElem h, filterMap_rangeFrom_getElem? l m (s + 1)]
        rw [List.drop_eq_getElem_cons h, List.take_succ_cons]
      · have hn : l.length ≤ s := Nat.le_of_not_lt h
        rw [List.getElem?_eq_none hn, filterMap_rangeFrom_getElem? l m (s + 1)]
        rw [List.drop_eq_nil_of_le hn, List.drop_eq_nil_of_le (Nat.le_succ_of_le hn)]
        simp

theorem normPos_eq (len : Nat) (i : Int) :
    (if i < 0 then max (i + (len : Int)) 0 else min i (len : Int)) = ((normIdx len i : Nat) : Int) := by
  unfold normIdx
  split <;> omega

/-- `l[a:b:1] = l[a:b]`: the stepped slice of the model agrees with the plain slice where both apply, so every
theorem about `pySlice` / `sliceChain` carries over -/
theorem pySliceStep_one {β} (l : List β) (start stop : Option Int) :
    pySliceStep l start stop 1 = pySlice l start stop := by
  unfold pySliceStep pySlice sliceIndices
  simp only [show ((1 : Int) > 0) by decide, if_true]
  -- the normalised bounds, as naturals
  have hs : (Option.map (fun i : Int => if i < 0 then max (i + (l.length : Int)) 0 else min i (l.length : Int)) start).getD 0
      = (((start.map (normIdx l.length)).getD 0 : Nat) : Int) := by
    cases start with
    | none => simp
    | some a => simp only [Option.map_some, Option.getD_some]; exact normPos_eq _ _
  have he : (Option.map (fun i : Int => if i < 0 then max (i + (l.length : Int)) 0 else min i (l.length : Int)) stop).getD (l.length : Int)
      = (((stop.map (normIdx l.length)).getD l.length : Nat) : Int) := by
    cases stop with
    | none => simp
    | some a => simp only [Option.map_some, Option.getD_some]; exact normPos_eq _ _
  rw [hs, he]
  generalize (start.map (normIdx l.length)).getD 0 = s
  have hel : (stop.map (normIdx l.length)).getD l.length ≤ l.length := by
    cases stop with
    | none => simp
    | some a => simp only [Option.map_some, Option.getD_some]; unfold normIdx; split <;> omega
  generalize (stop.map (normIdx l.length)).getD l.length = e at hel ⊢
  rw [List.range_eq_range', takeWhile_lt_map_rangeFrom (s : Int) (e : Int) l.length 0, List.map_map]
  have hm : min l.length (((e : Int) - (s : Int) - ((0 : Nat) : Int)).toNat) = e - s := by omega
  rw [hm]
  have hmap : (List.range' 0 (e - s)).map (Int.toNat ∘ fun (k : Nat) => (s : Int) + Int.ofNat k * 1) = List.range' s (e - s) := by
    apply List.ext_getElem
    · simp
    · intro i h1 h2
      simp only [List.getElem_map, List.getElem_range', Function.comp]
      have e1 : Int.ofNat (0 + 1 * i) = ((0 + 1 * i : Nat) : Int) := rfl
      rw [e1]; omega
  rw [hmap, filterMap_rangeFrom_getElem?]

example : pySliceStep [10, 11, 12, 13, 14] none none (-1) = [14, 13, 12, 11, 10] := by decide
example : pySliceStep [10, 11, 12, 13, 14] (some 4) (some 1) (-1) = [14, 13, 12] := by decide

end AF.C10

namespace AF.C10
open AF.Query

/-! ## junctions hold their conditions in a set; the printed SQL

`mkJS` / `compileS` (`AFModel/QuerySql.lean`) are `_match_conditions` with the python set: equal conditions are
kept once, a single remaining condition is returned as it is, the conditions are listed sorted by their SQL string.
`same` is the equality used (`Q.same`, structural, for which the hypotheses below are proved; the driver also runs
equality of the SQL strings, as `AbstractCondition.__eq__` does, and reports whether both built the same query).
`sqlStr` / `fitSql` print the text from the query built here; the harness compares it with the text of the real
objects on every generated predicate. -/

variable {α : Type}

/-- structural equality of query objects is equality: `SoundEq Q.same`, and it is reflexive -/
theorem same_is_equality [DecidableEq α] (a b : Q α) : Q.same a b = true ↔ a = b :=
  Q.same_iff a b

/-- **A junction's conditions are a set**, listed sorted: the same members as the conditions given, each once,
ordered by SQL string. -/
theorem junction_conditions_are_a_set [DecidableEq α] (key : Q α → String) (l : List (Q α)) :
    (∀ x, x ∈ canon Q.same key l ↔ x ∈ l) ∧ (canon Q.same key l).Nodup ∧
      (canon Q.same key l).Pairwise (fun a b => ¬ key b < key a) := by
  refine ⟨fun x => mem_canon Q.same_sound key, nodup_canon Q.same_refl key l, ?_⟩
  have := sorted_canon Q.same key l
  simpa [keyLe] using this

/-- **And, as a set.** `And(*cs)` with flattening, merging by name, de-duplication and collapse holds iff every
argument holds. -/
theorem and_set_correct (ops : NumOps α) (f : Fit α) (cfg : Cfg) (hcfg : cfg.junctionKeepsNot = true)
    {same : Q α → Q α → Bool} (hs : SoundEq same) (key : Q α → String) (fuel : Nat)
    (cs : List (Q α)) (o : Obj α) (hwf : o.WF = true) :
    sem ops f (mkJS cfg true same key fuel true cs) o = cs.all (fun c => sem ops f c o) := by
  simpa [jsem] using mkJS_sem ops f cfg hcfg hs key fuel true cs o hwf

/-- **Or, as a set.** -/
theorem or_set_correct (ops : NumOps α) (f : Fit α) (cfg : Cfg) (hcfg : cfg.junctionKeepsNot = true)
    {same : Q α → Q α → Bool} (hs : SoundEq same) (key : Q α → String) (fuel : Nat)
    (cs : List (Q α)) (o : Obj α) (hwf : o.WF = true) :
    sem ops f (mkJS cfg true same key fuel false cs) o = cs.any (fun c => sem ops f c o) := by
  simpa [jsem] using mkJS_sem ops f cfg hcfg hs key fuel false cs o hwf

/-- **Idempotence under duplicates / order.** What a junction means depends only on *which* conditions it is given:
repeating a condition (`A & B & A`) or permuting them changes nothing, for `And` and for `Or`. -/
theorem junction_depends_on_set (ops : NumOps α) (f : Fit α) (cfg : Cfg) (hcfg : cfg.junctionKeepsNot = true)
    {same : Q α → Q α → Bool} (hs : SoundEq same) (key : Q α → String) (fuel : Nat) (isAnd : Bool)
    (cs₁ cs₂ : List (Q α)) (h : ∀ x, x ∈ cs₁ ↔ x ∈ cs₂) (o : Obj α) (hwf : o.WF = true) :
    sem ops f (mkJS cfg true same key fuel isAnd cs₁) o = sem ops f (mkJS cfg true same key fuel isAnd cs₂) o := by
  rw [mkJS_sem ops f cfg hcfg hs key fuel isAnd cs₁ o hwf, mkJS_sem ops f cfg hcfg hs key fuel isAnd cs₂ o hwf]
  exact jsem_of_mem_iff ops f h isAnd o

/-- a repeated condition is dropped without changing the meaning: `And(c, c, *cs) ~ And(c, *cs)` -/
theorem junction_duplicate_idempotent (ops : NumOps α) (f : Fit α) (cfg : Cfg) (hcfg : cfg.junctionKeepsNot = true)
    {same : Q α → Q α → Bool} (hs : SoundEq same) (key : Q α → String) (fuel : Nat) (isAnd : Bool)
    (c : Q α) (cs : List (Q α)) (o : Obj α) (hwf : o.WF = true) :
    sem ops f (mkJS cfg true same key fuel isAnd (c :: c :: cs)) o = sem ops f (mkJS cfg true same key fuel isAnd (c :: cs)) o :=
  junction_depends_on_set ops f cfg hcfg hs key fuel isAnd _ _ (fun x => by simp) o hwf

/-- **Compiler correctness with sets (one fit).** -/
theorem compile_set_correct (ops : NumOps α) (cfg : Cfg) (hcfg : cfg.junctionKeepsNot = true)
    {same : Q α → Q α → Bool} (hs : SoundEq same) (key : Q α → String) (p : Pred α)
    (f : Fit α) (hwf : f.inst.WF = true) :
    sem ops f (compileSTop cfg true same key p) f.inst = evalDirect ops f p :=
  sem_compileS ops f cfg hcfg hs key _ hwf p

/-- **Exactly the fits satisfying the predicate**, for the query object the SQL text is printed from. -/
theorem query_set_returns_exactly (ops : NumOps α) (cfg : Cfg) (hcfg : cfg.junctionKeepsNot = true)
    {same : Q α → Q α → Bool} (hs : SoundEq same) (key : Q α → String) (p : Pred α)
    (db : List (Fit α)) (hdb : ∀ f ∈ db, f.inst.WF = true) :
    queryFits ops (compileSTop cfg true same key p) db = directFits ops p db := by
  simp only [queryFits, directFits]
  apply List.filter_congr
  intro f hf
  exact compile_set_correct ops cfg hcfg hs key p f (hdb f hf)

/-- de-duplication cannot change which fits are selected: the set version and the list version agree -/
theorem query_set_agrees_with_list (ops : NumOps α) (cfg : Cfg) (hcfg : cfg.junctionKeepsNot = true)
    {same : Q α → Q α → Bool} (hs : SoundEq same) (key : Q α → String) (p : Pred α)
    (db : List (Fit α)) (hdb : ∀ f ∈ db, f.inst.WF = true) :
    queryFits ops (compileSTop cfg true same key p) db = queryFits ops (compileTop cfg p) db := by
  rw [query_set_returns_exactly ops cfg hcfg hs key p db hdb, query_returns_exactly ops cfg hcfg p db hdb]

/-! ### the text -/

/-- the tables joined in the printed text of `Named(n, c)` are exactly the tables its meaning (`sem`: `inTables
(contrib c)`) makes the child row survive -/
theorem named_text_joins_contrib (showNum : α → String) (n : String) (c : Q α) :
    ∃ parts, namedQ showNum n c = namedQueryText n (contrib c) parts := by
  cases c <;> exact ⟨_, rfl⟩

/-- `IN` / `NOT IN` in the text is the `inverted` flag of the named query, whose meaning is the complement -/
theorem named_text_not_in (showNum : α → String) (n : String) (inv : Bool) (c : Q α) :
    fitSql showNum (.named n inv c)
      = "SELECT id FROM fit WHERE instance_id " ++ (if inv then "NOT IN" else "IN") ++ " (" ++ namedQ showNum n c ++ ")" := by
  cases inv <;> rfl

/-- `~q` in the text: a named query flips `IN` / `NOT IN`; anything else is wrapped in `id NOT IN (…)`; undone by a
second `~` -/
theorem negation_text (showNum : α → String) (q : Q α) :
    fitSql showNum (invert q) =
      match q with
      | .named n inv c => fitSql showNum (.named n (!inv) c)
      | .inverted q' => fitSql showNum q'
      | q => "SELECT id FROM fit WHERE id NOT IN (" ++ fitSql showNum q ++ ")" := by
  cases q <;> first | rfl | (simp only [invert]; rw [fitSql])

/-- the text of a junction's `fit_query` depends only on which conjuncts there are, not on the order a python set
lists them in (the harness sorts the conjuncts of the real text for the same reason) -/
theorem junction_text_order_irrelevant (isAnd : Bool) (fqs₁ fqs₂ : List String) (h : fqs₁.Perm fqs₂) :
    junctionFitText isAnd fqs₁ = junctionFitText isAnd fqs₂ := by
  have hp := sortStrs_perm (h.map (fun s => "id IN (" ++ s ++ ")"))
  unfold junctionFitText
  rw [hp]

/-! ### non-vacuity -/

open Witness

example : SoundEq (fun a b : Q Nat => Q.same a b) := Q.same_sound
-- the repeated comparison is kept once (list version: `g(&[centre(&[V,V]),sigma(V)])`)
example : (compileSTop {} true Q.same Q.render dupPred).render = "g(&[centre(V),sigma(V)])" := by decide +kernel
example : (compileTop {} dupPred).render = "g(&[centre(&[V,V]),sigma(V)])" := by decide
-- `A & A` is `A`
example : (compileSTop {} true Q.same Q.render
    ((.and (.fitc (.boolAttr "is_complete")) (.fitc (.boolAttr "is_complete"))) : Pred Nat)).render = "F" := by
  decide +kernel
example : (queryFits natOps (compileSTop {} true Q.same Q.render dupPred) db).map (·.id) = ["a"] := by decide +kernel
example : (queryFits natOps (compileSTop {} true Q.same Q.render mixed) db).map (·.id) = ["a", "b", "c", "e"] := by
  decide +kernel
example : (canon Q.same Q.render ([Q.type "b", Q.isNone, Q.type "b", Q.type "a"] : List (Q Nat))).map Q.render
    = ["0", "T", "T"] := by decide +kernel
example : junctionFitText true ["x", "y"] = junctionFitText true ["y", "x"] :=
  junction_text_order_irrelevant true _ _ (List.Perm.swap "y" "x" [])

/-! ### bare paths as predicates (`agg.model.g`: the attribute exists) -/

/-- **Bare path.** `aggregator.model.a.b` used as a predicate selects the fits whose instance has `a.b`. -/
theorem bare_path_correct {α : Type} (ops : NumOps α) (f : Fit α) (hwf : f.inst.WF = true) (n : String) (ns : List String) :
    sem ops f (pathQ (n :: ns) .any) f.inst = (f.inst.follow (n :: ns)).isSome := by
  rw [path_comparison_correct ops f hwf n ns .any]
  cases f.inst.follow (n :: ns) <;> simp [leafHolds]

/-- The pinned commit (`bare = false`: a named query without other condition is merged under `Or` and its missing
condition skipped) violates the property: `g | (g.centre == 1)` returns only the fits with `centre == 1`.
(`compile_set_correct` is the positive statement, for `bare = true`, fixes/C10-bare-path-in-junction.patch.) -/
theorem compile_refuted_bare_or :
    ∃ (p : Pred Nat) (db : List (Fit Nat)), (∀ f ∈ db, f.inst.WF = true) ∧
      (queryFits Witness.natOps (compileSTop {} false Q.same Q.render p) db).map (·.id)
        ≠ (directFits Witness.natOps p db).map (·.id) :=
  ⟨Witness.bareOr, Witness.db, by decide, by decide +kernel⟩

-- repaired: every fit has `g`; pinned: the alternative is lost
example : (queryFits natOps (compileSTop {} true Q.same Q.render bareOr) db).map (·.id) = ["a", "b", "c", "d", "e"] := by
  decide +kernel
example : (directFits natOps bareOr db).map (·.id) = ["a", "b", "c", "d", "e"] := by decide +kernel
example : (queryFits natOps (compileSTop {} false Q.same Q.render bareOr) db).map (·.id) = ["a", "c"] := by
  decide +kernel
example : (compileSTop {} true Q.same Q.render bareOr).render = "|[g(&[]),g(centre(V))]" := by decide +kernel
-- under `&` the bare query is merged (its missing condition is an empty conjunction)
example : (compileSTop {} true Q.same Q.render
    (.and (.path "g" [] .any) (.path "g" ["centre"] (.num .eq 1)) : Pred Nat)).render = "g(centre(V))" := by decide +kernel

end AF.C10
