import AFProofs.Lemmas.Scrape
import AFProofs.Lemmas.SearchSig

/-!
# C11 — loading an output directory into a database loses nothing

Subject: `AF.Scrape.scrape` (what `Aggregator.add_directory` makes of an output tree),
`AF.Scrape.layout` (the tree a list of runs leaves behind) and `AF.Scrape.direct` (the rows the same
runs write through a database session) — the definitions `AFDriver/C11.lean` executes and
`harness/c11.py` ties to the code on every run.

* any tree: one row per recomputed identifier (`one_row_per_fit`), equal to the identifier the
  fit was written under when the reload is stable (`id_is_written_identifier`, hypothesis = C07);
  the row holds the directory's name, tag, completion flag, model, info, samples, files
  (`row_holds_directory_content`) and its best fit is the first sample of highest likelihood
  (`best_fit_is_first_maximum`); zipped, unzipped or both is the same tree
  (`zip_or_folder_same_tree`, `layout_kind_irrelevant`); the `.completed` filter
  (`completed_only_filters`);
* the tree of a list of runs: scraping it yields exactly one row per fit and one per grid search
  (`scrape_of_layout`, `ids_distinct`), each grid linked to exactly its cells
  (`grid_children_exact`), agreeing with the database route (`scrape_agrees_with_direct`,
  `grid_rows_agree_with_direct`, `same_number_of_rows`); iterating the aggregator yields the fits
  without a parent (`top_level_is_parentless`); `Fit.best_fit` is the first child of highest
  likelihood (`grid_best_is_highest`);
* pinned behaviour (grid stored under its unique tag): `grid_parent_refuted_when_flag_off`;
* every search's persisted settings can be read back: `AF.SearchSig.call` (Python's keyword binding
  through a chain of constructors) over the constructor chains regenerated from the source:
  `absorbing_chain_accepts_any_keys`, `every_search_class_accepts_any_keys`,
  `every_search_settings_read_back`, `every_identifying_setting_persisted`,
  `candidates_are_get_arguments`, `multiple_values_has_a_cause`, pinned `Drawer`:
  `pinned_drawer_settings_not_read_back`;
* loses nothing, file by file: `AF.FitFiles` over the writer's file names and the reader's lookups
  regenerated from the source: `every_written_file_reaches_its_accessor`,
  `every_database_file_has_an_accessor`, `every_written_file_is_read_or_text`,
  `user_file_reaches_database` (any name, any prefix, every kind), `reserved_array_names`.
-/

namespace AF.C11
open AF AF.Scrape

variable {V : Type}

/-! ## best fit of one search -/

/-- **The best-fit sample is the first sample of highest likelihood**: every earlier sample is
strictly below it, no later one strictly above it. -/
theorem best_fit_is_first_maximum {lt : V → V → Bool} (h : StrictWeak lt) (rows : List (Sample V))
    (b : Sample V) (hb : bestSample lt rows = some b) :
    ∃ pre post, rows = pre ++ b :: post ∧ (∀ y ∈ pre, lt y.ll b.ll = true) ∧
      (∀ y ∈ post, lt b.ll y.ll = false) := by
  cases rows with
  | nil => cases hb
  | cons s rest =>
    simp only [bestSample, firstMax, Option.some.injEq] at hb
    subst hb
    exact firstMaxFrom_spec (key := fun s : Sample V => s.ll) h rest s

/-- no sample of the search is strictly more likely than the best fit, and it is one of them -/
theorem best_fit_is_highest {lt : V → V → Bool} (h : StrictWeak lt) (rows : List (Sample V))
    (b : Sample V) (hb : bestSample lt rows = some b) :
    b ∈ rows ∧ ∀ y ∈ rows, lt b.ll y.ll = false := by
  cases rows with
  | nil => cases hb
  | cons s rest =>
    simp only [bestSample, firstMax, Option.some.injEq] at hb
    subst hb
    exact ⟨firstMaxFrom_mem rest s, firstMaxFrom_max (key := fun s : Sample V => s.ll) h rest s⟩

theorem best_fit_exists_iff (lt : V → V → Bool) (rows : List (Sample V)) :
    bestSample lt rows = none ↔ rows = [] := by
  cases rows <;> simp [bestSample, firstMax]

/-- the row's `max_log_likelihood` and best-fit instance are those of that sample -/
theorem row_best_fit (lt : V → V → Bool) (it : Item V) (sj : SamplesJ V) (b : Sample V)
    (hs : it.c.samples = some sj) (hb : bestSample lt sj.rows = some b) :
    (Row.ofItem lt it).maxLL = some b.ll ∧ (Row.ofItem lt it).inst = some b.params := by
  simp [Row.ofItem, bestOf, hs, hb]

example : StrictWeak (fun a b : Int => decide (a < b)) :=
  ⟨by intro a; simp, by intro a b c; simp; omega, by intro a b c; simp; omega⟩

example : (bestSample (fun a b : Int => decide (a < b))
    [⟨1, 0, 1, 1, [10]⟩, ⟨5, 0, 5, 1, [20]⟩, ⟨5, 0, 5, 1, [30]⟩, ⟨2, 0, 2, 1, [40]⟩]).map (·.params) =
    some [20] := by decide

/-! ## any output tree -/

/-- **One database fit per identifier, whatever the tree**: the rows scraping adds are the fit
rows followed by the grid rows; fit ids are pairwise distinct and are exactly the recomputed ids of
the search outputs found (a fit present twice — archive and folder, or a copy — is one row). -/
theorem one_row_per_fit (lt : V → V → Bool) (cfg : Cfg) (co : Bool) (slots : List (Slot V)) :
    ∃ fitRows gridRows, scrape lt cfg co slots [] = fitRows ++ gridRows ∧
      (fitRows.map (·.id)).Nodup ∧
      (∀ x, x ∈ fitRows.map (·.id) ↔ x ∈ (searchOutputs co slots).map Item.id) ∧
      gridRows.map (·.id) = (gridOutputs co slots).map (gridId cfg) := by
  refine ⟨(addFits lt [] (searchOutputs co slots)).map
      (reparentAll cfg (searchOutputs co slots) (gridOutputs co slots)),
    gridRowsAfter cfg (searchOutputs co slots) (gridOutputs co slots), ?_, ?_, ?_, ?_⟩
  · unfold scrape; exact addGrids_eq ..
  · rw [List.map_map]
    have : ((fun r : Row V => r.id) ∘ reparentAll cfg (searchOutputs co slots) (gridOutputs co slots))
        = fun r => r.id := by funext r; simp
    rw [this]
    exact addFits_nodup _ _ (by simp)
  · intro x
    rw [List.map_map]
    have : ((fun r : Row V => r.id) ∘ reparentAll cfg (searchOutputs co slots) (gridOutputs co slots))
        = fun r => r.id := by funext r; simp
    rw [this, addFits_mem_ids]
    simp
  · exact gridRowsAfter_ids ..

/-- **The id is the identifier the fit was written under** whenever search, model and tag reload to
objects with the same identifier tokens (the C07 reload-stability clause). -/
theorem id_is_written_identifier (it : Item V) (written : List String)
    (hw : it.c.ident = some written) (stable : it.c.recomputed = written) :
    it.id = joinTokens written ∧ it.c.ident = some it.c.recomputed := by
  subst stable
  exact ⟨rfl, hw⟩

/-- **The row holds what the directory holds**: for search outputs with pairwise distinct ids,
scraped into an empty database, each has a row with its id carrying its name, tag, completion flag,
model, info, samples, best fit (likelihood and instance), files and child analyses. -/
theorem row_holds_directory_content (lt : V → V → Bool) (cfg : Cfg) (co : Bool) (slots : List (Slot V))
    (hnd : ((searchOutputs co slots).map Item.id).Nodup) (it : Item V)
    (hit : it ∈ searchOutputs co slots) :
    ∃ r ∈ scrape lt cfg co slots [], r = { Row.ofItem lt it with parent := r.parent } := by
  unfold scrape
  rw [addGrids_eq, addFits_fresh _ _ hnd (by simp), List.nil_append]
  refine ⟨reparentAll cfg (searchOutputs co slots) (gridOutputs co slots) (Row.ofItem lt it), ?_, ?_⟩
  · exact List.mem_append_left _ (List.mem_map_of_mem (List.mem_map_of_mem hit))
  · exact reparentAll_fields ..

/-- **`completed_only`** keeps exactly the outputs that hold `.completed` -/
theorem completed_only_filters (slots : List (Slot V)) :
    searchOutputs true slots = (searchOutputs false slots).filter (·.c.completed) ∧
    gridOutputs true slots = (gridOutputs false slots).filter (·.c.completed) := by
  constructor
  · unfold searchOutputs
    rw [List.filter_filterMap]
    congr 1
    funext s
    cases s.effective with
    | none => rfl
    | some c => cases hm : c.metadata <;> cases hc : c.completed <;> simp [keep, hm, hc, Option.filter]
  · unfold gridOutputs
    rw [List.filter_filterMap]
    congr 1
    funext s
    cases s.effective with
    | none => rfl
    | some c => cases hm : c.grid.isSome <;> cases hc : c.completed <;> simp [keep, hm, hc, Option.filter]

/-- **Zipped, unzipped or both**: the scraper sees the same directory content -/
theorem zip_or_folder_same_tree (path : Dir) (c : Content V) (k : Kind) :
    (slotOf path k c).effective = some c := slotOf_effective path k c

/-! ## the tree of a list of runs, and the database route -/

/-- scraping the tree left by `runs` into an empty database gives one row per fit, built from its
own directory, then one row per grid search -/
theorem scrape_of_layout {runs : List (Run V)} (wf : WF runs) (lt : V → V → Bool) :
    scrape lt { gridIdFolder := true } false (layout runs) [] =
      (places runs).map (fun p => Row.ofItem lt p.item) ++
      (gridsOf runs).map (fun g => gridRow { gridIdFolder := true } g.item) :=
  scrape_layout_eq wf lt

/-- **The id equals the folder name**: a fit written by `DirectoryPaths` lives in a folder named by
its identifier, records that identifier's tokens in `.identifier`, and is scraped under it (cells
live in `<grid>/<label>` instead and are covered by `.identifier` alone) -/
theorem id_is_folder_name (f : FitRun V) (par : Option String) (dir : Dir) :
    f.path.getLast? = some (Place.item ⟨f.path, none, f⟩).id ∧
    (Place.item ⟨dir, par, f⟩).c.ident = some (Place.item ⟨dir, par, f⟩).c.recomputed ∧
    (Place.item ⟨dir, par, f⟩).id = joinTokens f.identTok := by
  refine ⟨?_, rfl, rfl⟩
  simp [FitRun.path, FitRun.ident]

/-- all ids are distinct: one fit row per fit, **one parent row per grid search** -/
theorem ids_distinct {runs : List (Run V)} (wf : WF runs) (lt : V → V → Bool) :
    ((scrape lt { gridIdFolder := true } false (layout runs) []).map (·.id)).Nodup ∧
    (scrape lt { gridIdFolder := true } false (layout runs) []).map (·.id) =
      (places runs).map (·.fit.ident) ++ (gridsOf runs).map GridRun.ident := by
  have hids : (scrape lt { gridIdFolder := true } false (layout runs) []).map (·.id) =
      (places runs).map (·.fit.ident) ++ (gridsOf runs).map GridRun.ident := by
    rw [scrape_layout_eq wf lt, List.map_append, List.map_map, List.map_map]
    congr 1
    apply List.map_congr_left
    intro g _
    exact gridId_folder g
  refine ⟨?_, hids⟩
  rw [hids]
  refine List.nodup_append.2 ⟨wf.fitIds, wf.gridIds, ?_⟩
  intro a ha b hb hab
  obtain ⟨g, hg, rfl⟩ := List.mem_map.1 hb
  exact wf.gridFresh g hg (hab ▸ ha)

/-- **Every grid search is linked to exactly its cell fits**: a row has the grid's row as parent
iff it is the row of one of that grid's cells. -/
theorem grid_children_exact {runs : List (Run V)} (wf : WF runs) (lt : V → V → Bool)
    (g : GridRun V) (hg : g ∈ gridsOf runs) (r : Row V)
    (hr : r ∈ scrape lt { gridIdFolder := true } false (layout runs) []) :
    r.parent = some g.ident ↔ ∃ c ∈ g.cells, r = Row.ofItem lt
      (Place.item ⟨g.path ++ [c.1], some g.ident, c.2⟩) := by
  rw [scrape_layout_eq wf lt] at hr
  rcases List.mem_append.1 hr with hr | hr
  · obtain ⟨p, hp, rfl⟩ := List.mem_map.1 hr
    constructor
    · intro hpar
      have hpar' : p.parent = some g.ident := hpar
      obtain ⟨g', hg', hid, c, hc, rfl⟩ := places_parent hp hpar'
      have : g' = g := nodup_map_inj GridRun.ident _ wf.gridIds g' hg' g hg hid
      subst this
      exact ⟨c, hc, rfl⟩
    · rintro ⟨c, _, hc⟩
      rw [hc]; rfl
  · obtain ⟨g', hg', rfl⟩ := List.mem_map.1 hr
    constructor
    · intro h; cases h
    · rintro ⟨c, hc, heq⟩
      exfalso
      have hid : (gridRow { gridIdFolder := true } g'.item).id = c.2.ident := by rw [heq]; rfl
      have : g'.ident = c.2.ident := by rw [← hid]; exact (gridId_folder g').symm
      exact wf.gridFresh g' hg' (List.mem_map.2 ⟨_, cell_mem_places hg hc, this.symm⟩)

/-- **Scraping agrees with the database route, fit by fit**: for every fit of every run (cells
included) the scraped row and the directly written row exist and agree on id, name, tag, completion
flag, parent, model, info, best fit and files; the samples are the same up to the database route's
`minimise`. -/
theorem scrape_agrees_with_direct {runs : List (Run V)} (wf : WF runs) (lt : V → V → Bool)
    (p : Place V) (hp : p ∈ places runs) :
    Row.ofItem lt p.item ∈ scrape lt { gridIdFolder := true } false (layout runs) [] ∧
    p.fit.directRow lt p.parent ∈ direct lt runs ∧
    agree lt p.fit.saveAll (Row.ofItem lt p.item) (p.fit.directRow lt p.parent) := by
  refine ⟨?_, ?_, ?_⟩
  · rw [scrape_layout_eq wf lt]
    exact List.mem_append_left _ (List.mem_map_of_mem hp)
  · simp only [places, List.mem_flatMap] at hp
    obtain ⟨r, hr, hpr⟩ := hp
    simp only [direct, List.mem_flatMap]
    refine ⟨r, hr, ?_⟩
    cases r with
    | single f =>
      simp only [Run.places, List.mem_singleton] at hpr
      subst hpr
      simp [Run.directRows]
    | grid g =>
      simp only [Run.places, List.mem_map] at hpr
      obtain ⟨c, hc, rfl⟩ := hpr
      simp only [Run.directRows, List.mem_append, List.mem_map]
      exact Or.inl ⟨c, hc, rfl⟩
  · simp [agree, Row.ofItem, FitRun.directRow, Place.item, FitRun.content, FitRun.ident,
      FitRun.identTok, Item.id, Content.recomputed]

/-- **… and grid by grid**: the parent row exists on both routes under the same id, as a grid
search, with the same completion flag and files -/
theorem grid_rows_agree_with_direct {runs : List (Run V)} (wf : WF runs) (lt : V → V → Bool)
    (g : GridRun V) (hg : g ∈ gridsOf runs) :
    gridRow { gridIdFolder := true } g.item ∈ scrape lt { gridIdFolder := true } false (layout runs) [] ∧
    g.directRow ∈ direct lt runs ∧
    (gridRow { gridIdFolder := true } g.item).id = (g.directRow (V := V)).id ∧
    (gridRow { gridIdFolder := true } g.item).isGrid = true ∧ (g.directRow (V := V)).isGrid = true ∧
    (gridRow { gridIdFolder := true } g.item).complete = (g.directRow (V := V)).complete ∧
    (gridRow { gridIdFolder := true } g.item).files = (g.directRow (V := V)).files := by
  refine ⟨?_, ?_, gridId_folder g, rfl, rfl, rfl, rfl⟩
  · rw [scrape_layout_eq wf lt]
    exact List.mem_append_right _ (List.mem_map_of_mem hg)
  · simp only [direct, List.mem_flatMap]
    exact ⟨.grid g, gridsOf_mem.1 hg, by simp [Run.directRows]⟩

/-- **Iterating the aggregator yields the fits without a parent**: every cell's parent row is in
the database, so `top_level_only` hides exactly the cells (plain fits and grid searches remain). -/
theorem top_level_is_parentless {runs : List (Run V)} (wf : WF runs) (lt : V → V → Bool) (r : Row V) :
    r ∈ topLevel (scrape lt { gridIdFolder := true } false (layout runs) []) ↔
      r ∈ scrape lt { gridIdFolder := true } false (layout runs) [] ∧ r.parent = none := by
  unfold topLevel
  rw [List.mem_filter]
  constructor
  · rintro ⟨hr, hk⟩
    refine ⟨hr, ?_⟩
    cases hp : r.parent with
    | none => rfl
    | some pid =>
      exfalso
      rw [hp] at hk
      simp only [Bool.not_eq_true', List.any_eq_false, beq_iff_eq] at hk
      -- r is the row of a cell: its parent's row exists
      have hr' := hr
      rw [scrape_layout_eq wf lt] at hr'
      rcases List.mem_append.1 hr' with h | h
      · obtain ⟨p, hpl, rfl⟩ := List.mem_map.1 h
        have hpar : p.parent = some pid := hp
        obtain ⟨g, hg, hid, _⟩ := places_parent hpl hpar
        have hgrow := (grid_rows_agree_with_direct wf lt g hg).1
        apply hk _ hgrow
        rw [← hid]; exact gridId_folder g
      · obtain ⟨g, _, rfl⟩ := List.mem_map.1 h
        cases hp
  · rintro ⟨hr, hp⟩
    exact ⟨hr, by rw [hp]⟩

/-- both routes produce the same number of rows (with `ids_distinct`: a bijection) -/
theorem same_number_of_rows {runs : List (Run V)} (wf : WF runs) (lt : V → V → Bool) :
    (scrape lt { gridIdFolder := true } false (layout runs) []).length = (direct lt runs).length := by
  rw [scrape_layout_eq wf lt]
  simp only [List.length_append, List.length_map]
  exact rows_length lt runs

/-- **The kind of storage does not matter**: the same runs with every fit stored as an archive only,
a folder only or both (`kinds` chooses per fit) are scraped to the same rows -/
theorem layout_kind_irrelevant (lt : V → V → Bool) (cfg : Cfg) (co : Bool) (runs : List (Run V))
    (kinds : FitRun V → Kind) (db : List (Row V)) :
    scrape lt cfg co (layout (runs.map (Run.withKinds kinds))) db = scrape lt cfg co (layout runs) db := by
  unfold scrape
  rw [(outputs_withKinds co kinds runs).1, (outputs_withKinds co kinds runs).2]

/-! ## best fit of a grid search -/

/-- **A grid's best fit is the first cell of highest likelihood** (`Fit.best_fit`): its likelihood
exceeds `-inf`, no cell is strictly above it; without any cell above `-inf` there is none. -/
theorem grid_best_is_highest {lt : V → V → Bool} (h : StrictWeak lt) (negInf : V)
    (kids : List (String × V)) :
    (∀ c, bestChild lt negInf kids = some c →
      ∃ ll, (c, ll) ∈ kids ∧ lt negInf ll = true ∧ ∀ k ∈ kids, lt ll k.2 = false) ∧
    (bestChild lt negInf kids = none → ∀ k ∈ kids, lt negInf k.2 = false) := by
  have key := firstMaxFrom_spec (key := fun x : Option String × V => x.2) h
    (kids.map fun k => (some k.1, k.2)) (none, negInf)
  have hmax := firstMaxFrom_max (key := fun x : Option String × V => x.2) h
    (kids.map fun k => (some k.1, k.2)) (none, negInf)
  obtain ⟨pre, post, heq, hpre, _⟩ := key
  unfold bestChild
  generalize firstMaxFrom lt (fun x : Option String × V => x.2) (none, negInf)
    (kids.map fun k => (some k.1, k.2)) = res at *
  constructor
  · intro c hc
    cases pre with
    | nil =>
      simp only [List.nil_append, List.cons.injEq] at heq
      rw [← heq.1] at hc; cases hc
    | cons q pre' =>
      simp only [List.cons_append, List.cons.injEq] at heq
      have hmem : res ∈ kids.map fun k => (some k.1, k.2) := by
        rw [heq.2]; exact List.mem_append_right _ (List.mem_cons_self ..)
      obtain ⟨k, hk, hres⟩ := List.mem_map.1 hmem
      refine ⟨k.2, ?_, ?_, ?_⟩
      · have : k.1 = c := by rw [← hres] at hc; simpa using hc
        rw [← this]; exact hk
      · have := hpre q (List.mem_cons_self ..)
        rw [← heq.1, ← hres] at this; exact this
      · intro k' hk'
        have := hmax (some k'.1, k'.2) (List.mem_cons_of_mem _ (List.mem_map_of_mem hk'))
        rw [← hres] at this; exact this
  · intro hnone k hk
    have hres : res = (none, negInf) := by
      cases pre with
      | nil =>
        simp only [List.nil_append, List.cons.injEq] at heq
        exact heq.1.symm
      | cons q pre' =>
        simp only [List.cons_append, List.cons.injEq] at heq
        have hmem : res ∈ kids.map fun k => (some k.1, k.2) := by
          rw [heq.2]; exact List.mem_append_right _ (List.mem_cons_self ..)
        obtain ⟨k', _, hk'⟩ := List.mem_map.1 hmem
        rw [← hk'] at hnone; cases hnone
    have := hmax (some k.1, k.2) (List.mem_cons_of_mem _ (List.mem_map_of_mem hk))
    rw [hres] at this; exact this

example : bestChild (fun a b : Int => decide (a < b)) (-1000)
    [("a", -7), ("b", -3), ("c", -3), ("d", -9)] = some "b" := by decide

/-! ## the pinned behaviour: grid searches stored under their unique tag -/

/-- **Refutation for the pinned commit** (`gridIdFolder = false`): both parent rows get the id `"t"`
(the database rejects the second: a grid search is lost), and the cells' parent differs from the one
the database route records; with the repaired id neither happens. -/
theorem grid_parent_refuted_when_flag_off :
    ((scrape ltInt { gridIdFolder := false } false (layout witnessRuns) []).filter (·.isGrid)).map (·.id)
      = ["t", "t"] ∧
    ((scrape ltInt { gridIdFolder := false } false (layout witnessRuns) []).filter (!·.isGrid)).map (·.parent)
      = [some "t", some "t"] ∧
    ((direct ltInt witnessRuns).filter (!·.isGrid)).map (·.parent) = [some "G1", some "G2"] ∧
    ((scrape ltInt { gridIdFolder := true } false (layout witnessRuns) []).filter (!·.isGrid)).map (·.parent)
      = [some "G1", some "G2"] ∧
    ((scrape ltInt { gridIdFolder := true } false (layout witnessRuns) []).filter (·.isGrid)).map (·.id)
      = ["G1", "G2"] := by
  decide

/-- the witness meets the hypotheses of the layout theorems (two grid searches, one cell each) -/
example : WF witnessRuns := ⟨by decide, by decide, by decide, by decide⟩

example : (places witnessRuns).map (·.fit.ident) = ["S.M0.t", "S.M1.t"] ∧
    (gridsOf witnessRuns).map GridRun.ident = ["G1", "G2"] := by decide

/-! ## every search's persisted settings can be read back -/

section settings
open AF.SearchSig AF.Generated.C11

/-- **A chain of constructors that each take `**kwargs`, have no parameter without default and give
explicitly only keywords they name (or pop) accepts every set of keys** — whatever `search.json`
holds, `cls(**arguments)` binds. -/
theorem absorbing_chain_accepts_any_keys (chain : List Sig) (h : absorbing chain = true)
    (keys : List String) : call chain keys = .ok :=
  call_ok_of_absorbing chain h keys

/-- every search class of the library (constructor chains regenerated from the source) is of that kind -/
theorem every_search_class_accepts_any_keys : ∀ r ∈ searchSigTable, absorbing r.chain = true := by
  decide +kernel

/-- **Every search's persisted settings can be read back**: `from_dict(to_dict(search))`, i.e.
`cls(**keys of search.json)`, binds for every search class. -/
theorem every_search_settings_read_back : ∀ r ∈ searchSigTable, readBack r = .ok :=
  fun r hr => call_ok_of_absorbing r.chain (every_search_class_accepts_any_keys r hr) (keysOf r)

/-- every identifying setting of every search class is among the persisted keys (so the identifier
can be recomputed from `search.json`) -/
theorem every_identifying_setting_persisted : ∀ r ∈ searchSigTable, ∀ f ∈ r.idf, f ∈ keysOf r := by
  decide +kernel

/-- the model of `get_arguments` along the chain yields exactly the candidate keys extracted from
the library's `get_arguments` for each search class -/
theorem candidates_are_get_arguments : ∀ r ∈ searchSigTable,
    (∀ k ∈ r.candidates, k ∈ getArguments r.chain) ∧ (∀ k ∈ getArguments r.chain, k ∈ r.candidates) := by
  decide +kernel

/-- a *multiple values for keyword argument* failure always has this cause: some constructor of the
chain gives the keyword explicitly, passes `**kwargs` on, and neither names the keyword as a
parameter nor pops it from `**kwargs` -/
theorem multiple_values_has_a_cause (chain : List Sig) (keys : List String) (c k : String)
    (h : call chain keys = .multiple c k) :
    ∃ s ∈ chain, s.forwards = true ∧ k ∈ s.explicit ∧ s.params.contains k = false ∧
      s.dropped.contains k = false :=
  multiple_has_witness chain keys c k h

/-- **Refutation for the pinned commit**: the pinned `Drawer` persists `number_of_cores`, gives it
explicitly and passes it on in `**kwargs` as well: its `search.json` cannot be read back; popping
the key (the repair) makes the same keys bind. -/
theorem pinned_drawer_settings_not_read_back :
    readBack pinnedDrawer = .multiple "NonLinearSearch" "number_of_cores" ∧
    "number_of_cores" ∈ keysOf pinnedDrawer ∧
    call (pinnedDrawer.chain.map fun s => if s.cls == "Drawer" then { s with dropped := ["number_of_cores"] } else s)
      (keysOf pinnedDrawer) = .ok := by
  decide +kernel

example : ∃ r ∈ searchSigTable, r.cls = "DynestyStatic" ∧ r.chain.length ≥ 4 ∧ "nlive" ∈ keysOf r ∧
    "session" ∉ keysOf r := by decide +kernel

example : absorbing pinnedDrawer.chain = false := by decide +kernel

example : call [⟨"K", ["a"], [], false, [], false, []⟩] ["a", "b"] = .unexpected "K" "b" ∧
    call [⟨"K", ["a", "b"], ["b"], true, [], false, []⟩] ["a"] = .missing "K" "b" := by decide +kernel

end settings

/-! ## loses nothing, file by file -/

section files
open AF.FitFiles AF.Generated.C11

/-- **Every file the writer produces is read by the accessor its content belongs to**: over the
writer's files and the reader's lookups regenerated from the source — `metadata` makes the directory
a search output, `search.json` / `model.json` / `info.json` are read as search, model and info,
`samples.csv` + `samples_info.json` as samples (also the latent ones), `.completed`,
`.parent_identifier`, `.is_grid_search` as the flags, user json / pickle / csv / fits files by the
accessor of their kind, files of `analyses/analysis_i` through the child analyses. A writer / reader
name mismatch makes this fail. -/
theorem every_written_file_reaches_its_accessor :
    ∀ w ∈ writerFiles, ∀ c ∈ mustReach w, c ∈ consumers readerLookups w.file := by
  decide +kernel

/-- the requirement is stated for every file written below a sub-folder (`files/`, `analyses/`) -/
theorem every_database_file_has_an_accessor : ∀ w ∈ writerFiles, w.file.dir ≠ [] → mustReach w ≠ [] := by
  decide +kernel

/-- a written file no accessor looks at is a text rendering (or the `.identifier` the id is recomputed
instead of, C07) -/
theorem every_written_file_is_read_or_text :
    ∀ w ∈ writerFiles, consumers readerLookups w.file ≠ [] ∨ w.file ∈ textOnly := by
  decide +kernel

/-- **Any user file reaches the database under its dotted name**: for every kind (json, pickle, csv,
fits), every prefix (folders below `files/`) and every name, the file the writer puts it in is
collected by the reader accessor of that kind, under the name `prefix.….name`. -/
theorem user_file_reaches_database (k : FitFiles.Kind) (pre : List String) (name : String) :
    ∃ f, pathFor writerFiles k pre name = some f ∧ k.accessor ∈ consumers readerLookups f ∧
      outputName f = ".".intercalate (pre ++ [name]) := by
  cases k
  · have hp : writerPlace writerFiles .json = some (["files"], ".json") := by decide +kernel
    refine ⟨⟨["files"] ++ pre, name, ".json"⟩, by simp [pathFor, hp], ?_, by simp [outputName]⟩
    apply mem_consumers_of_direct
    have hl : (⟨"jsons", "rglob", ⟨["files"], "", ".json"⟩⟩ : Lookup) ∈ readerLookups := by decide +kernel
    exact mem_directConsumers hl (by simp [hits, isPrefix])
  · have hp : writerPlace writerFiles .pickle = some (["files"], ".pickle") := by decide +kernel
    refine ⟨⟨["files"] ++ pre, name, ".pickle"⟩, by simp [pathFor, hp], ?_, by simp [outputName]⟩
    apply mem_consumers_of_direct
    have hl : (⟨"pickles", "rglob", ⟨["files"], "", ".pickle"⟩⟩ : Lookup) ∈ readerLookups := by decide +kernel
    exact mem_directConsumers hl (by simp [hits, isPrefix])
  · have hp : writerPlace writerFiles .csv = some (["files"], ".csv") := by decide +kernel
    refine ⟨⟨["files"] ++ pre, name, ".csv"⟩, by simp [pathFor, hp], ?_, by simp [outputName]⟩
    apply mem_consumers_of_direct
    have hl : (⟨"arrays", "rglob", ⟨["files"], "", ".csv"⟩⟩ : Lookup) ∈ readerLookups := by decide +kernel
    exact mem_directConsumers hl (by simp [hits, isPrefix])
  · have hp : writerPlace writerFiles .fits = some (["files"], ".fits") := by decide +kernel
    refine ⟨⟨["files"] ++ pre, name, ".fits"⟩, by simp [pathFor, hp], ?_, by simp [outputName]⟩
    apply mem_consumers_of_direct
    have hl : (⟨"hdus", "rglob", ⟨["files"], "", ".fits"⟩⟩ : Lookup) ∈ readerLookups := by decide +kernel
    exact mem_directConsumers hl (by simp [hits, isPrefix])

/-- … and is stored: `_add_files` keeps every collected json, pickle and fits file, and every
numeric table except those called `samples` / `latent_samples` (reserved for the samples). -/
theorem reserved_array_names (ls : List Lookup) (files : List (FileRef × Bool)) (n : String) :
    (n ∈ (dbFiles ls files).arrays ↔
      (n, true) ∈ collected ls "arrays" files ∧ n ≠ "samples" ∧ n ≠ "latent_samples") ∧
    (dbFiles ls files).jsons = (collected ls "jsons" files).map (·.1) ∧
    (dbFiles ls files).pickles = (collected ls "pickles" files).map (·.1) ∧
    (dbFiles ls files).hdus = (collected ls "hdus" files).map (·.1) := by
  refine ⟨?_, rfl, rfl, rfl⟩
  simp only [dbFiles, skippedArrays, List.mem_map, List.mem_filter, Bool.and_eq_true,
    Bool.not_eq_true', Prod.exists]
  constructor
  · rintro ⟨a, b, ⟨hm, hb, hs⟩, rfl⟩
    subst hb
    refine ⟨hm, ?_, ?_⟩ <;> (intro h; subst h; simp at hs)
  · rintro ⟨hm, h1, h2⟩
    exact ⟨n, true, ⟨hm, rfl, by simp [h1, h2]⟩, rfl⟩

example : (mustReach ⟨"save_all", ⟨["files"], "model", ".json"⟩⟩) = ["model", "samples", "jsons"] ∧
    "child_analyses/jsons" ∈ consumers readerLookups ⟨["analyses", "analysis_1", "files"], "ca", ".json"⟩ ∧
    consumers readerLookups ⟨["files"], "notes", ".txt"⟩ = [] := by decide +kernel

example : (dbFiles readerLookups [(⟨["files"], "samples", ".csv"⟩, false), (⟨["files", "sub"], "ua", ".csv"⟩, true),
    (⟨["files"], "uf", ".fits"⟩, false), (⟨["files", "a", "b"], "uj", ".json"⟩, false)]) =
    { jsons := ["a.b.uj"], arrays := ["sub.ua"], pickles := [], hdus := ["uf"] } := by decide +kernel

end files

end AF.C11
