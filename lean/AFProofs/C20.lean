import AFProofs.Lemmas.Interp
import AFProofs.Lemmas.InterpCov

/-!
# C20 — interpolation reproduces known points and linear trends

Property theorems about the `Interp` model (`AFModel/Interp.lean`): for every series of instance
trees, every path of the interpolation variable, every query value, every `_interpolate` function
`f` (least squares, the spline, anything). The model is tied to /repo by `harness/c20.py`.

Clauses of the property and where they are:

* exact hit returns that instance                  `hit_returns_instance` (pairwise distinct abscissae),
                                                   `hit_returns_last_partial` (any series)
* every float parameter is the interpolant         `float_parameters_interpolated` (+ `walk_reaches_every_addressable_float`)
* exact for linear data, inside and outside range  `lsq_exact_on_linear`, `linear_trend_reproduced`
* the variable equals the requested value          `variable_equals_requested`, `variable_equals_requested_on_hit`;
                                                   pinned commit: `variable_partial_when_flag_off`,
                                                   `variable_refuted_when_flag_off`
* non-float attributes                              `other_attributes_from_first_instance`
* order independence                               `order_independent` (pairwise distinct abscissae);
                                                   `order_refuted_for_duplicate_abscissa`
* inputs unmodified                                the model is purely functional (nothing to state);
                                                   checked on the real objects by the harness
* known findings (the model mirrors the code)      `tuple_members_refuted`, `list_built_instance_refuted`,
                                                   `dict_attribute_refuted`
-/

namespace AF.C20
open AF.Interp

/-- **Known point.** With pairwise distinct abscissae, a query at the abscissa of one of the
instances returns exactly that instance (whatever `_interpolate` is). -/
theorem hit_returns_instance (cfg : Cfg) (f) (insts : List Val) (tp : IPath) (v : Rat)
    (ps : List (Rat × Val)) (i : Val)
    (hps : pairs tp insts = .ok ps) (hnd : (ps.map (·.1)).Nodup)
    (hi : i ∈ insts) (ht : tOf tp i = .ok v) :
    getitem cfg f insts tp v = .ok i := by
  obtain ⟨t, ht', hm⟩ := pairs_eq_map tp insts ps hps i hi
  rw [ht] at ht'
  cases ht'
  exact getitem_hit cfg f insts tp v ps i hps (lookupLast_of_mem_nodup ps v i hnd hm)

/-- Without the distinctness guard: some instance of the series with that abscissa is returned
(the last one supplied — see `order_refuted_for_duplicate_abscissa`). -/
theorem hit_returns_last_partial (cfg : Cfg) (f) (insts : List Val) (tp : IPath) (v : Rat)
    (ps : List (Rat × Val)) (hps : pairs tp insts = .ok ps)
    (hex : ∃ i ∈ insts, tOf tp i = .ok v) :
    ∃ j ∈ insts, tOf tp j = .ok v ∧ getitem cfg f insts tp v = .ok j := by
  obtain ⟨i, hi, ht⟩ := hex
  obtain ⟨t, ht', hm⟩ := pairs_eq_map tp insts ps hps i hi
  rw [ht] at ht'
  cases ht'
  obtain ⟨j, hj⟩ := lookupLast_isSome_of_key ps v ⟨(v, i), hm, rfl⟩
  have hmem := lookupLast_mem ps v j hj
  obtain ⟨hmap, hall⟩ := pairs_spec tp insts ps hps
  refine ⟨j, ?_, hall (v, j) hmem, getitem_hit cfg f insts tp v ps j hps hj⟩
  rw [← hmap]
  exact List.mem_map.mpr ⟨(v, j), hmem, rfl⟩

/-- The walk visits every float that attribute access / list indexing can address. -/
theorem walk_reaches_every_addressable_float (x : Val) (p : IPath) (a : Rat)
    (h : getPath x p = some (.num a)) : p ∈ floatPaths x :=
  walk_complete p x a h

/-- **Every floating-point parameter is the interpolant of that parameter across the series.**
For a query that is not an exact hit, at every addressable float `p` of the first instance (other
than the interpolation variable itself when that is overwritten) the result holds
`f xs ys v`, where `xs` are the distinct abscissae in increasing order and `ys` the values at `p`
of the instances with these abscissae. -/
theorem float_parameters_interpolated (cfg : Cfg) (f) (tmpl : Val) (rest : List Val) (tp : IPath)
    (v : Rat) (ps : List (Rat × Val)) (r : Val)
    (hps : pairs tp (tmpl :: rest) = .ok ps) (hl : lookupLast v ps = none) (hA : Addressable tmpl)
    (h : getitem cfg f (tmpl :: rest) tp v = .ok r)
    (p : IPath) (a : Rat) (hp : getPath tmpl p = some (.num a))
    (hne : p ≠ tp ∨ cfg.setsVariable = false) :
    ∃ ys val, seriesAt ps p (sortedKeys (ps.map (·.1))) = .ok ys ∧
      f (sortedKeys (ps.map (·.1))) ys v = .ok val ∧ getPath r p = some (.num val) := by
  obtain ⟨vals, new, hv, hin, ⟨y, hy, hay⟩, _, hfin⟩ := miss_structure cfg f tmpl rest tp v ps r hps hl hA h
  obtain ⟨e, he, hep, hg⟩ := hin p a hp
  obtain ⟨_, hall⟩ := interpValues_spec f ps _ v _ vals hv
  obtain ⟨ys, hs, hf⟩ := hall e he
  rw [hep] at hs
  refine ⟨ys, e.2, hs, hf, ?_⟩
  rcases hfin with ⟨hflag, hset⟩ | ⟨_, rfl⟩
  · have hptp : p ≠ tp := by
      rcases hne with h1 | h1
      · exact h1
      · rw [hflag] at h1; cases h1
    exact get_set_other' tp p new r _ y _ hy hay hg (atomic_num _) (fun e' => hptp e'.symm) hset
  · exact hg

/-- Everything else that can be addressed and is not a float (ints, strings, tuples, dicts,
list-built instances — values the walk does not replace) is that of the *first* instance supplied. -/
theorem other_attributes_from_first_instance (cfg : Cfg) (f) (tmpl : Val) (rest : List Val)
    (tp : IPath) (v : Rat) (ps : List (Rat × Val)) (r : Val)
    (hps : pairs tp (tmpl :: rest) = .ok ps) (hl : lookupLast v ps = none) (hA : Addressable tmpl)
    (h : getitem cfg f (tmpl :: rest) tp v = .ok r)
    (q : IPath) (y : Val) (hq : getPath tmpl q = some y) (hay : Atomic y) (hnn : ∀ a, y ≠ .num a)
    (hne : q ≠ tp ∨ cfg.setsVariable = false) :
    getPath r q = some y := by
  obtain ⟨vals, new, _, _, ⟨yt, hyt, hayt⟩, hkeep, hfin⟩ :=
    miss_structure cfg f tmpl rest tp v ps r hps hl hA h
  have hg := hkeep q y hq hay hnn
  rcases hfin with ⟨hflag, hset⟩ | ⟨_, rfl⟩
  · have hqtp : q ≠ tp := by
      rcases hne with h1 | h1
      · exact h1
      · rw [hflag] at h1; cases h1
    exact get_set_other' tp q new r _ yt y hyt hayt hg hay (fun e' => hqtp e'.symm) hset
  · exact hg

/-- **Least squares is exact on linear data** (any `v`, inside or outside the sampled range),
as soon as two abscissae differ. -/
theorem lsq_exact_on_linear (a b v : Rat) (xs : List Rat) (hs : xs.Pairwise (· < ·))
    (h2 : 2 ≤ xs.length) : lsq xs (xs.map (fun x => a * x + b)) v = .ok (a * v + b) := by
  have := denom_pos_of_sorted xs hs h2
  exact lsq_linear a b v xs (by grind)

/-- The same for abscissae in any order, with repetitions, as long as two of them differ (so a
regression that does not sort or deduplicate first is exact on linear data too). -/
theorem lsq_exact_on_linear_any_order (a b v : Rat) (xs : List Rat)
    (h2 : ∃ x ∈ xs, ∃ y ∈ xs, x ≠ y) : lsq xs (xs.map (fun x => a * x + b)) v = .ok (a * v + b) := by
  have := denom_pos_of_two_distinct xs h2
  exact lsq_linear a b v xs (by grind)

/-- **Linear trends are reproduced.** If every instance holds `a·t + b` at `p` (t its abscissa) and
at least two abscissae differ, the `LinearInterpolator` result holds `a·v + b` at `p`. -/
theorem linear_trend_reproduced (cfg : Cfg) (tmpl : Val) (rest : List Val) (tp : IPath)
    (v : Rat) (ps : List (Rat × Val)) (r : Val)
    (hps : pairs tp (tmpl :: rest) = .ok ps) (hl : lookupLast v ps = none) (hA : Addressable tmpl)
    (h : getitem cfg lsq (tmpl :: rest) tp v = .ok r)
    (p : IPath) (a0 : Rat) (hp : getPath tmpl p = some (.num a0))
    (hne : p ≠ tp ∨ cfg.setsVariable = false)
    (a b : Rat) (hlin : ∀ e ∈ ps, numOf (getPath e.2 p) = .ok (a * e.1 + b))
    (h2 : 2 ≤ (sortedKeys (ps.map (·.1))).length) :
    getPath r p = some (.num (a * v + b)) := by
  obtain ⟨ys, val, hs, hf, hg⟩ :=
    float_parameters_interpolated cfg lsq tmpl rest tp v ps r hps hl hA h p a0 hp hne
  have hk : ∀ x ∈ sortedKeys (ps.map (·.1)), ∃ e ∈ ps, e.1 = x := by
    intro x hx
    obtain ⟨e, he, rfl⟩ := List.mem_map.mp (mem_sortedKeys.mp hx)
    exact ⟨e, he, rfl⟩
  rw [seriesAt_linear ps p a b hlin _ hk] at hs
  cases hs
  rw [lsq_exact_on_linear a b v _ (sorted_sortedKeys _) h2] at hf
  cases hf
  exact hg

/-- **The interpolation variable equals the requested value** (repaired behaviour,
`fixes/C20-interpolation-variable-assigned.patch`), for every `_interpolate`, whether the variable
is held as a float or as an int. -/
theorem variable_equals_requested (cfg : Cfg) (f) (tmpl : Val) (rest : List Val) (tp : IPath)
    (v : Rat) (ps : List (Rat × Val)) (r : Val) (hflag : cfg.setsVariable = true)
    (hps : pairs tp (tmpl :: rest) = .ok ps) (hl : lookupLast v ps = none)
    (h : getitem cfg f (tmpl :: rest) tp v = .ok r) :
    getPath r tp = some (.num v) := by
  obtain ⟨vals, new, _, _, hfin⟩ := getitem_miss cfg f tmpl rest tp v ps r hps hl h
  rcases hfin with ⟨_, hset⟩ | ⟨hoff, _⟩
  · exact get_of_set tp new r _ hset
  · rw [hflag] at hoff; cases hoff

/-- … and on an exact hit the returned instance has the requested abscissa. -/
theorem variable_equals_requested_on_hit (cfg : Cfg) (f) (insts : List Val) (tp : IPath) (v : Rat)
    (ps : List (Rat × Val)) (i : Val) (hps : pairs tp insts = .ok ps)
    (hl : lookupLast v ps = some i) :
    getitem cfg f insts tp v = .ok i ∧ tOf tp i = .ok v :=
  ⟨getitem_hit cfg f insts tp v ps i hps hl,
   (pairs_spec tp insts ps hps).2 (v, i) (lookupLast_mem ps v i hl)⟩

/-- Pinned commit (the final assignment is discarded): for the `LinearInterpolator`, when the
variable is held as a *float* it is the regression of `t` on `t`, which over exact numbers is the
requested value — in floating point only up to rounding. -/
theorem variable_partial_when_flag_off (cfg : Cfg) (tmpl : Val) (rest : List Val) (tp : IPath)
    (v : Rat) (ps : List (Rat × Val)) (r : Val) (hflag : cfg.setsVariable = false)
    (hps : pairs tp (tmpl :: rest) = .ok ps) (hl : lookupLast v ps = none) (hA : Addressable tmpl)
    (h : getitem cfg lsq (tmpl :: rest) tp v = .ok r)
    (a0 : Rat) (hfloat : getPath tmpl tp = some (.num a0))
    (h2 : 2 ≤ (sortedKeys (ps.map (·.1))).length) :
    getPath r tp = some (.num v) := by
  have hlin : ∀ e ∈ ps, numOf (getPath e.2 tp) = .ok (1 * e.1 + 0) := by
    intro e he
    have := (pairs_spec tp _ ps hps).2 e he
    simp only [tOf] at this
    rw [this]
    congr 1
    grind
  have := linear_trend_reproduced cfg tmpl rest tp v ps r hps hl hA h tp a0 hfloat (Or.inr hflag)
    1 0 hlin h2
  rw [this]
  congr 2
  grind

/-! ### concrete series used by the witnesses -/

def gaussian (c : Rat) : Val := .obj "Gaussian" [("centre", .num c), ("sigma", .num (2 * c + 1))]

/-- `t = 1, 2, 3` held as ints, supplied out of order; `centre = t − 1` -/
def intSeries : List Val :=
  [.obj "ModelInstance" [("t", .int 2), ("g", gaussian 1)],
   .obj "ModelInstance" [("t", .int 1), ("g", gaussian 0)],
   .obj "ModelInstance" [("t", .int 3), ("g", gaussian 2)]]

/-- Pinned commit refuted: with the variable held as an int the result keeps the first instance's
value (`t = 2` for a query at `3/2`). -/
theorem variable_refuted_when_flag_off :
    valueAt (getitem { setsVariable := false } lsq intSeries [.s "t"] (3 / 2)) [.s "t"] = some 2 ∧
    valueAt (getitem { setsVariable := true } lsq intSeries [.s "t"] (3 / 2)) [.s "t"] = some (3 / 2) := by
  decide +kernel

/-- **Order independence.** With pairwise distinct abscissae, two orders of the same series give
the same value at every float parameter (present in both first instances) — for every
`_interpolate`, exact hit or not. -/
theorem order_independent (cfg : Cfg) (f) (tmpl tmpl' : Val) (rest rest' : List Val) (tp : IPath)
    (v : Rat) (ps : List (Rat × Val)) (r r' : Val)
    (hperm : (tmpl :: rest).Perm (tmpl' :: rest'))
    (hps : pairs tp (tmpl :: rest) = .ok ps) (hnd : (ps.map (·.1)).Nodup)
    (hA : Addressable tmpl) (hA' : Addressable tmpl')
    (h : getitem cfg f (tmpl :: rest) tp v = .ok r)
    (h' : getitem cfg f (tmpl' :: rest') tp v = .ok r')
    (p : IPath) (a a' : Rat) (hp : getPath tmpl p = some (.num a))
    (hp' : getPath tmpl' p = some (.num a')) :
    getPath r p = getPath r' p := by
  obtain ⟨ps', hps', hpp⟩ := pairs_perm tp hperm ps hps
  have hlook : ∀ k, lookupLast k ps = lookupLast k ps' := fun k => lookupLast_perm hpp hnd k
  have hkeys : sortedKeys (ps.map (·.1)) = sortedKeys (ps'.map (·.1)) := sortedKeys_perm (hpp.map _)
  cases hl : lookupLast v ps with
  | some i =>
    have e1 := getitem_hit cfg f _ tp v ps i hps hl
    have e2 := getitem_hit cfg f _ tp v ps' i hps' (by rw [← hlook v]; exact hl)
    rw [h] at e1
    rw [h'] at e2
    cases e1
    cases e2
    rfl
  | none =>
    have hl' : lookupLast v ps' = none := by rw [← hlook v]; exact hl
    by_cases hcase : p ≠ tp ∨ cfg.setsVariable = false
    · obtain ⟨ys, val, hs, hf, hg⟩ :=
        float_parameters_interpolated cfg f tmpl rest tp v ps r hps hl hA h p a hp hcase
      obtain ⟨ys', val', hs', hf', hg'⟩ :=
        float_parameters_interpolated cfg f tmpl' rest' tp v ps' r' hps' hl' hA' h' p a' hp' hcase
      rw [← hkeys, ← seriesAt_congr hlook p] at hs'
      rw [hs] at hs'
      cases hs'
      rw [← hkeys, hf] at hf'
      cases hf'
      rw [hg, hg']
    · have hptp : p = tp := by
        by_cases e : p = tp
        · exact e
        · exact absurd (Or.inl e) hcase
      have hflag : cfg.setsVariable = true := by
        cases hc : cfg.setsVariable with
        | true => rfl
        | false => exact absurd (Or.inr hc) hcase
      subst hptp
      rw [variable_equals_requested cfg f tmpl rest p v ps r hflag hps hl h,
        variable_equals_requested cfg f tmpl' rest' p v ps' r' hflag hps' hl' h']

/-! ### known findings: the unchanged code, mirrored by the model, violates the sentence here -/

/-- two instances share the abscissa `1` and differ in `centre` -/
def dupSeries : List Val :=
  [.obj "ModelInstance" [("t", .num 1), ("g", gaussian 0)],
   .obj "ModelInstance" [("t", .num 1), ("g", gaussian 5)],
   .obj "ModelInstance" [("t", .num 2), ("g", gaussian 1)]]

def dupSeriesSwapped : List Val :=
  [.obj "ModelInstance" [("t", .num 1), ("g", gaussian 5)],
   .obj "ModelInstance" [("t", .num 1), ("g", gaussian 0)],
   .obj "ModelInstance" [("t", .num 2), ("g", gaussian 1)]]

/-- Order independence refuted outside the guard of `order_independent`: with a duplicated
abscissa the last instance supplied wins, for an interpolated value and for an exact hit. -/
theorem order_refuted_for_duplicate_abscissa :
    dupSeries.Perm dupSeriesSwapped ∧
    valueAt (getitem {} lsq dupSeries [.s "t"] (3 / 2)) [.s "g", .s "centre"] = some 3 ∧
    valueAt (getitem {} lsq dupSeriesSwapped [.s "t"] (3 / 2)) [.s "g", .s "centre"] = some (1 / 2) ∧
    valueAt (getitem {} lsq dupSeries [.s "t"] 1) [.s "g", .s "centre"] = some 5 ∧
    valueAt (getitem {} lsq dupSeriesSwapped [.s "t"] 1) [.s "g", .s "centre"] = some 0 := by
  refine ⟨List.Perm.swap _ _ _, ?_⟩
  decide +kernel

def tupleSeries : List Val :=
  [.obj "ModelInstance" [("t", .num 1), ("q", .obj "T2" [("pos", .tup [.num 0, .num 2]), ("r", .num 3)])],
   .obj "ModelInstance" [("t", .num 2), ("q", .obj "T2" [("pos", .tup [.num 1, .num 4]), ("r", .num 6)])],
   .obj "ModelInstance" [("t", .num 3), ("q", .obj "T2" [("pos", .tup [.num 2, .num 6]), ("r", .num 9)])]]

/-- Known finding: floats inside a tuple attribute are not interpolated (the first instance's
tuple is carried over), while the sibling float is. Data linear in `t`: `pos[0] = t − 1`, `r = 3t`. -/
theorem tuple_members_refuted :
    valueAtAny (getitem {} lsq tupleSeries [.s "t"] (3 / 2)) [.s "q", .s "pos", .i 0] = some 0 ∧
    valueAtAny (getitem {} lsq tupleSeries [.s "t"] (3 / 2)) [.s "q", .s "r"] = some (9 / 2) := by
  decide +kernel

def listBuiltSeries : List Val :=
  [.obj "ModelInstance" [("t", .num 1), ("items", .ilist [.num 2, gaussian 1])],
   .obj "ModelInstance" [("t", .num 2), ("items", .ilist [.num 4, gaussian 2])],
   .obj "ModelInstance" [("t", .num 3), ("items", .ilist [.num 6, gaussian 3])]]

/-- Known finding: nothing inside a `ModelInstance` built from a list is interpolated. -/
theorem list_built_instance_refuted :
    valueAtAny (getitem {} lsq listBuiltSeries [.s "t"] (3 / 2)) [.s "items", .i 0] = some 2 ∧
    valueAtAny (getitem {} lsq listBuiltSeries [.s "t"] (3 / 2)) [.s "items", .i 1, .s "centre"] = some 1 := by
  decide +kernel

def dictSeries : List Val :=
  [.obj "ModelInstance" [("t", .num 1), ("extra", .dict [("u", .num 2)])],
   .obj "ModelInstance" [("t", .num 2), ("extra", .dict [("u", .num 4)])]]

/-- Known finding: a float inside a `dict` attribute makes the interpolation raise (the guard
`Addressable` of `float_parameters_interpolated` fails exactly here). -/
theorem dict_attribute_refuted :
    ¬ Addressable (dictSeries.head!) ∧
    (match getitem {} lsq dictSeries [.s "t"] (3 / 2) with | .error .path => true | _ => false) = true := by
  decide +kernel

/-! ### non-vacuity: a concrete series meeting every hypothesis of the main theorems -/

/-- nested objects, a list, an opaque attribute, unsorted abscissae `2, 0, 5`;
`centre = 3t − 1`, `items[0] = −t + 4` (linear), `sigma = t²` (not linear) -/
def series : List Val :=
  [.obj "ModelInstance" [("label", .opaque "b"), ("t", .num 2),
      ("g", .obj "G" [("centre", .num 5), ("sigma", .num 4)]), ("items", .list [.num 2, .int 7])],
   .obj "ModelInstance" [("label", .opaque "a"), ("t", .num 0),
      ("g", .obj "G" [("centre", .num (-1)), ("sigma", .num 0)]), ("items", .list [.num 4, .int 7])],
   .obj "ModelInstance" [("label", .opaque "c"), ("t", .num 5),
      ("g", .obj "G" [("centre", .num 14), ("sigma", .num 25)]), ("items", .list [.num (-1), .int 7])]]

example : Addressable series.head! := by decide +kernel
example : (pairs [.s "t"] series).toOption.map (fun ps => ps.map (·.1)) = some [2, 0, 5] := by decide +kernel
example : ([2, 0, 5] : List Rat).Nodup := by decide +kernel
example : sortedKeys [2, 0, 5] = [0, 2, 5] := by decide +kernel
example : (lsq [2, 0, 5, 2] ([2, 0, 5, 2].map (fun x => 3 * x + (-1))) 9).toOption = some 26 := by decide +kernel
/-- inside the range, outside the range, on a sample; linear data exact, the variable set -/
example : valueAt (getitem {} lsq series [.s "t"] (7 / 2)) [.s "g", .s "centre"] = some (19 / 2) ∧
    valueAt (getitem {} lsq series [.s "t"] 9) [.s "items", .i 0] = some (-5) ∧
    valueAt (getitem {} lsq series [.s "t"] 9) [.s "t"] = some 9 ∧
    valueAt (getitem {} lsq series [.s "t"] 0) [.s "g", .s "sigma"] = some 0 ∧
    valueAt (getitem {} lsq series [.s "t"] 1) [.s "g", .s "sigma"] ≠ some 1 := by decide +kernel
/-- the interpolation variable may be nested (`g.centre`), and the walk is complete -/
example : valueAt (getitem {} lsq series [.s "g", .s "centre"] 2) [.s "t"] = some 1 ∧
    valueAt (getitem {} lsq series [.s "g", .s "centre"] 2) [.s "g", .s "centre"] = some 2 := by decide +kernel
example : valueAt (getitem {} lsq series [.s "t"] 9) [.s "items", .i 1] = some 7 := by decide +kernel
example : floatPaths series.head! =
    [[.s "t"], [.s "g", .s "centre"], [.s "g", .s "sigma"], [.s "items", .i 0]] := by decide +kernel

end AF.C20

/-!
## CovarianceInterpolator: the plumbing (`AFModel/InterpCov.lean`, request kind `cov`)

What is gathered and where it is put; the numeric kernels (per-sample `numpy.cov`, the matrix inverse,
the fit of the relationships) are data.

* x sorted, x / y a rearrangement of the samples        `cov_x_sorted`, `cov_x_perm`, `cov_y_layout`
* order independence of x and y                         `cov_xy_order_independent` (pairwise distinct abscissae)
* where the covariance blocks are put                   `cov_matrix_rows`, `cov_matrix_entry_inside`,
                                                        `cov_matrix_entry_left`, `cov_matrix_entry_right`
* blocks follow the order of x / y                      `cov_blocks_order_independent` (repaired,
                                                        `fixes/C20-covariance-blocks-sorted.patch`),
                                                        `cov_blocks_partial_when_flag_off`,
                                                        `cov_blocks_refuted_when_flag_off`
* the variable equals the requested value               `cov_variable_equals_requested` (repaired,
                                                        `fixes/C20-covariance-variable-assigned.patch`),
                                                        `cov_variable_refuted_when_flag_off`
* the template model is the first best sample           `cov_single_model_is_first_maximum`
-/

namespace AF.C20
open AF.InterpCov

/-- `analysis.x` is in increasing order … -/
theorem cov_x_sorted (ss : List Sample) : (covX ss).Pairwise (· ≤ ·) := by
  unfold covX
  rw [List.pairwise_map]
  exact sortByT_sorted ss

/-- … and is a rearrangement of the abscissae of the samples supplied. -/
theorem cov_x_perm (ss : List Sample) : (covX ss).Perm (ss.map (·.t)) :=
  (sortByT_perm ss).map _

/-- **What is gathered.** With `k` parameters per sample, entry `i*k + a` of `analysis.y` is parameter
`a` of the sample with the `i`-th smallest abscissa (the sample whose abscissa is `x[i]`). -/
theorem cov_y_layout (ss : List Sample) (k : Nat) (hk : ∀ s ∈ ss, s.params.length = k)
    (i a : Nat) (ha : a < k) :
    (covY ss)[i * k + a]? = ((sortByT ss)[i]?).bind (fun s => s.params[a]?) ∧
    (covX ss)[i]? = ((sortByT ss)[i]?).map (·.t) := by
  constructor
  · unfold covY
    rw [getElem?_flatten_uniform k _ i a ?_ ha]
    · rw [List.getElem?_map]
      cases (sortByT ss)[i]? <;> rfl
    · intro l hl
      obtain ⟨s, hs, rfl⟩ := List.mem_map.mp hl
      exact hk s ((sortByT_perm ss).mem_iff.mp hs)
  · unfold covX
    rw [List.getElem?_map]

/-- **Order independence of what is fitted (x, y).** With pairwise distinct abscissae two orders of
the same samples give the same `x` and `y`. -/
theorem cov_xy_order_independent (ss ss' : List Sample) (hp : ss.Perm ss')
    (hnd : (ss.map (·.t)).Nodup) : covX ss = covX ss' ∧ covY ss = covY ss' := by
  unfold covX covY
  rw [sortByT_of_perm hp hnd]
  exact ⟨rfl, rfl⟩

/-- **Where the blocks are put.** Row `i*k + a` of the block-diagonal matrix is row `a` of block `i`
behind `i*k` zeros and before `(n-i-1)*k` zeros. -/
theorem cov_matrix_rows (k : Nat) (ms : List (List (List Rat))) (hk : ∀ m ∈ ms, m.length = k)
    (i a : Nat) (ha : a < k) :
    (blockDiag k ms)[i * k + a]? =
      ((ms[i]?).bind (fun m => m[a]?)).map (padRow k ms.length i) := by
  unfold blockDiag
  rw [blockRows_eq_flatten, getElem?_flatten_uniform k _ i a (paddedBlocks_lengths k _ ms 0 hk) ha,
    paddedBlocks_getElem?]
  cases ms[i]? with
  | none => rfl
  | some m =>
    simp only [Option.map_some, Option.bind_some, Nat.zero_add, List.getElem?_map]

/-- inside block `i`: the entry of the sample's covariance matrix -/
theorem cov_matrix_entry_inside (k : Nat) (ms : List (List (List Rat))) (hk : ∀ m ∈ ms, m.length = k)
    (i a c : Nat) (m : List (List Rat)) (row : List Rat) (ha : a < k)
    (hm : ms[i]? = some m) (hr : m[a]? = some row) (hc : c < row.length) :
    entry (blockDiag k ms) (i * k + a) (i * k + c) = entry m a c := by
  unfold entry
  rw [cov_matrix_rows k ms hk i a ha, hm]
  simp only [Option.bind_some]
  rw [hr]
  simp only [Option.map_some]
  rw [padRow_inside k ms.length i row c hc]

/-- left of block `i`: zero -/
theorem cov_matrix_entry_left (k : Nat) (ms : List (List (List Rat))) (hk : ∀ m ∈ ms, m.length = k)
    (i a j : Nat) (ha : a < k) (hj : j < i * k) :
    entry (blockDiag k ms) (i * k + a) j = 0 := by
  unfold entry
  rw [cov_matrix_rows k ms hk i a ha]
  cases hm : (ms[i]?).bind (fun m => m[a]?) with
  | none => rfl
  | some row =>
    simp only [Option.map_some]
    rw [padRow_before k ms.length i row j hj]
    rfl

/-- right of block `i`: zero -/
theorem cov_matrix_entry_right (k : Nat) (ms : List (List (List Rat))) (hk : ∀ m ∈ ms, m.length = k)
    (i a j : Nat) (m : List (List Rat)) (row : List Rat) (ha : a < k)
    (hm : ms[i]? = some m) (hr : m[a]? = some row) (hj : i * k + row.length ≤ j) :
    entry (blockDiag k ms) (i * k + a) j = 0 := by
  unfold entry
  rw [cov_matrix_rows k ms hk i a ha, hm]
  simp only [Option.bind_some]
  rw [hr]
  simp only [Option.map_some]
  exact padRow_after k ms.length i row j hj

/-- **Blocks follow x / y** (repaired behaviour, `fixes/C20-covariance-blocks-sorted.patch`): block `i`
is the covariance matrix of the sample whose parameters are `y[i*k ..]`, and with pairwise distinct
abscissae the whole matrix does not depend on the order of supply. -/
theorem cov_blocks_order_independent (cfg : Cfg) (hflag : cfg.blocksSorted = true) (k : Nat)
    (ss ss' : List Sample) (hp : ss.Perm ss') (hnd : (ss.map (·.t)).Nodup) :
    covMatrix cfg k ss = covMatrix cfg k ss' ∧
    covMatrix cfg k ss = blockDiag k ((sortByT ss).map (·.cov)) := by
  have e := sortByT_of_perm hp hnd
  unfold covMatrix
  simp [hflag, e]

/-- Unchanged code (blocks in the order of supply): the same holds only for samples supplied in
increasing order of the interpolation variable. -/
theorem cov_blocks_partial_when_flag_off (cfg : Cfg) (k : Nat) (ss : List Sample)
    (hs : ss.Pairwise (fun a b => a.t ≤ b.t)) :
    covMatrix cfg k ss = blockDiag k ((sortByT ss).map (·.cov)) := by
  unfold covMatrix
  rw [sortByT_of_sorted ss hs]
  split <;> rfl

/-- two samples supplied in decreasing order of `t`, with different covariance matrices -/
def covSeries : List Sample :=
  [{ t := 2, params := [20, 21], cov := [[1, 0], [0, 1]], logl := -1 },
   { t := 1, params := [10, 11], cov := [[9, 3], [3, 9]], logl := -2 }]

/-- Refuted for the unchanged code: `y` starts with the parameters of the sample with `t = 1` while the
first block is the covariance of the sample with `t = 2`; supplying the same samples in the other
order gives the same `x`, `y` and another matrix. With the repair both orders agree. -/
theorem cov_blocks_refuted_when_flag_off :
    covX covSeries = [1, 2] ∧ covY covSeries = [10, 11, 20, 21] ∧
    entry (covMatrix {} 2 covSeries) 0 0 = 1 ∧
    entry (covMatrix {} 2 covSeries.reverse) 0 0 = 9 ∧
    covY covSeries.reverse = covY covSeries ∧
    entry (covMatrix { blocksSorted := true } 2 covSeries) 0 0 = 9 ∧
    covMatrix { blocksSorted := true } 2 covSeries = covMatrix { blocksSorted := true } 2 covSeries.reverse := by
  decide +kernel

/-- **The interpolation variable equals the requested value** (repaired behaviour,
`fixes/C20-covariance-variable-assigned.patch`). -/
theorem cov_variable_equals_requested (cfg : Cfg) (hflag : cfg.setsVariable = true) (held v : Rat) :
    covVariable cfg held v = v := by
  unfold covVariable
  rw [hflag]
  rfl

/-- Refuted for the unchanged code: the answer keeps what the template model holds. -/
theorem cov_variable_refuted_when_flag_off : covVariable {} 2 (1 / 2) = 2 ∧ (2 : Rat) ≠ 1 / 2 := by
  decide +kernel

/-- **The template model** (`_single_model`) is that of the first sample attaining the highest
likelihood: nothing is higher, everything before is strictly lower. -/
theorem cov_single_model_is_first_maximum (l : List Rat) (r : Nat) (h : argmaxFirst l = some r) :
    ∃ rv, l[r]? = some rv ∧ ∀ j x, l[j]? = some x → x ≤ rv ∧ (j < r → x < rv) := by
  cases l with
  | nil => cases h
  | cons x rest =>
    simp only [argmaxFirst, Option.some.injEq] at h
    have := argmaxFrom_spec rest [x] 0 x (by simp) (by simp)
      (by
        intro j y hj
        cases j with
        | zero => simp at hj; subst hj; exact ⟨Rat.le_refl, fun h => absurd h (Nat.lt_irrefl _)⟩
        | succ j => simp at hj)
    simp only [List.length_cons, List.length_nil, Nat.zero_add, List.singleton_append] at this
    rw [h] at this
    exact this

/-! ### non-vacuity -/

/-- three samples out of order, two parameters each -/
def covSeries3 : List Sample :=
  [{ t := 2, params := [20, 21], cov := [[1, 0], [0, 1]], logl := -1 },
   { t := 0, params := [0, 1], cov := [[4, 2], [2, 4]], logl := -1 },
   { t := 1, params := [10, 11], cov := [[9, 3], [3, 9]], logl := -2 }]

example : (covSeries3.map (·.t)).Nodup ∧ ∀ s ∈ covSeries3, s.params.length = 2 := by decide +kernel
example : covX covSeries3 = [0, 1, 2] ∧ covY covSeries3 = [0, 1, 10, 11, 20, 21] := by decide +kernel
example : ∀ m ∈ covSeries3.map (·.cov), m.length = 2 := by decide +kernel
example : covMatrix { blocksSorted := true } 2 covSeries3 =
    [[4, 2, 0, 0, 0, 0], [2, 4, 0, 0, 0, 0], [0, 0, 9, 3, 0, 0], [0, 0, 3, 9, 0, 0],
     [0, 0, 0, 0, 1, 0], [0, 0, 0, 0, 0, 1]] := by decide +kernel
example : argmaxFirst (covSeries3.map (·.logl)) = some 0 ∧ argmaxFirst [-3, -1, -2, -1] = some 1 := by
  decide +kernel
example : covGet [(2, 1), (-1, 0)] (1 / 2) = [2, -1 / 2] := by decide +kernel
example : ([{ t := 0, params := [], cov := [], logl := 0 }, { t := 1, params := [], cov := [], logl := 0 }] :
    List Sample).Pairwise (fun a b => a.t ≤ b.t) := by decide +kernel

end AF.C20
