import AFProofs.Lemmas.Prior
import AFProofs.Lemmas.PriorDbl
import AFProofs.Lemmas.PriorRandom
import AFProofs.Lemmas.DblArith

/-!
# C02 — priors map the unit interval monotonically onto their support

Theorems about the model `AFModel/Prior.lean` (the definitions the driver executes at `K := Float`), for
every linearly ordered field `K`, every family, all parameters and all unit values, with the special
functions as parameters satisfying `Lawful` (inverse pairs, monotone, ranges – `Lemmas/Prior.lean`).

* quantile clauses: `*_quantile`, `value_is_declared_quantile`
* monotone: `rawValue_monotone`, `valueFor_monotone`
* inverted by the unit-value function: `unit_of_value`, `value_of_unit_*` (log-uniform on its support:
  `value_of_unit_logUniform_on_support`)
* limits: `gate_sound`, `gate_ignore`, `gate_limit_iff`, `valueFor_in_limits`, `valueFor_limit_iff`
* random draws: `random_in_limits`, `random_never_raises_{gaussian,uniform,logUniform,logGaussian}` (exact
  arithmetic, each with its exact guard), `unit_limits_uniform`
* doubles as data (`Dbl`): `round_monotone_on_doubles`, `round_monotone_exact`, `finishD_in_limits`,
  `finishD_limit_iff`, `finishD_monotone`, `valueForD_monotone`
* rounding of `UniformPrior.value_for`: full statement for the repaired code (`cfg.repaired = true`),
  `_partial` + refutation witnesses (on `Float`, by kernel evaluation) for the behaviour of the pinned commit.

All statements are for `0 < u < 1`: at the end points the real quantile of the normal families is ±∞ and
the uniform families reach their limits through `erfinv(±1) = ±inf`; those belong to the `Float` layer,
which is tied by the correspondence harness, not by a theorem.
-/

open Lean Grind

namespace AF.C02
open AF.Prior

/-! ## the limit gate, for every number type – in particular for `Float`, the instance the driver runs -/

section Any
variable {K : Type} [Add K] [Sub K] [Mul K] [Div K] [LE K] [LT K] [DecidableLE K] [DecidableLT K]
  [OfNat K 0] [OfNat K 1] [OfNat K 10]
set_option linter.unusedSectionVars false

/-- A value that passes the gate lies inside the limits. -/
theorem gate_sound (L U raw v : K) (h : gate false L U raw = .ok v) : L ≤ v ∧ v ≤ U := by
  unfold gate at h
  split at h
  · rename_i hc
    cases h
    simpa [inLimits] using hc
  · cases h

/-- With `ignore_prior_limits` the gate lets every value through. -/
theorem gate_ignore (L U raw : K) : gate true L U raw = .ok raw := by
  simp [gate]

/-- The exception is raised exactly for values outside the limits. -/
theorem gate_limit_iff (L U raw : K) : gate false L U raw = .limit ↔ ¬ (L ≤ raw ∧ raw ≤ U) := by
  unfold gate
  by_cases hc : inLimits L U raw = true
  · have := (inLimits_iff L U raw).mp hc
    simp [hc, this]
  · have : ¬ (L ≤ raw ∧ raw ≤ U) := fun hh => hc ((inLimits_iff L U raw).mpr hh)
    simp [hc, this]

/-- `value_for` raises the limit exception exactly when the mapped value is outside the limits. -/
theorem valueFor_limit_iff (S : Special K) (cfg : Cfg) (p : Params K) (u : K) :
    valueFor S cfg false p u = .limit ↔
      ¬ (p.lower ≤ rawValueFor S p u ∧ rawValueFor S p u ≤ p.upper) := by
  rw [← gate_limit_iff]
  unfold valueFor finish
  split
  · rename_i hg
    simp [hg]
  · rename_i w hg
    rw [hg]
    constructor
    · intro hh
      split at hh <;> cases hh
    · intro hh
      cases hh

/-- With limits ignored the raw value is returned (rounded for the uniform prior). -/
theorem valueFor_ignore (S : Special K) (cfg : Cfg) (p : Params K) (u : K) :
    ∃ v, valueFor S cfg true p u = .ok v := by
  unfold valueFor finish
  rw [gate_ignore]
  simp only
  split <;> exact ⟨_, rfl⟩

/-- Log-uniform, Gaussian and log-normal priors (no post-processing after the gate), on any number type
including doubles with NaN: whatever `value_for` returns without `ignore_prior_limits` satisfies
`lower ≤ v ≤ upper` – in particular it is never NaN. -/
theorem valueFor_in_limits_nonuniform (S : Special K) (cfg : Cfg) (p : Params K) (hk : p.kind ≠ .uniform)
    (u v : K) (h : valueFor S cfg false p u = .ok v) : p.lower ≤ v ∧ v ≤ p.upper := by
  unfold valueFor finish at h
  split at h
  · cases h
  · rename_i w hg
    have hw := gate_sound _ _ _ _ hg
    split at h
    · rename_i hk'
      exact absurd hk' hk
    · cases h
      exact hw

end Any

section Field
variable {K : Type} [Field K] [LE K] [LT K] [Std.IsLinearOrder K] [Std.LawfulOrderLT K] [OrderedRing K]
  [DecidableLE K] [DecidableLT K]
set_option linter.unusedSectionVars false

/-! ## agreement with the declared distribution's quantile function -/

/-- Uniform: `value_for u = L + u (U - L)`. -/
theorem uniform_quantile (S : Special K) (h : Lawful S) (L U m s u : K) (h0 : 0 < u) (h1 : u < 1) :
    rawValueFor S ⟨.uniform, L, U, m, s⟩ u = L + u * (U - L) := by
  rw [raw_uniform, h.phi_phiInv u h0 h1]
  grind

/-- Log-uniform: the value is positive and its `log10` is uniform between `log10 L` and
`log10 L + log10 (U/L)`, i.e. `value_for u = L * (U/L)^u`. -/
theorem logUniform_quantile (S : Special K) (h : Lawful S) (L U m s u : K) (h0 : 0 < u) (h1 : u < 1) :
    0 < rawValueFor S ⟨.logUniform, L, U, m, s⟩ u ∧
    S.log10 (rawValueFor S ⟨.logUniform, L, U, m, s⟩ u) = S.log10 L + u * S.log10 (U / L) := by
  rw [raw_logUniform, h.phi_phiInv u h0 h1, h.log10_pow10]
  exact ⟨h.pow10_pos _, by grind⟩

/-- Gaussian: `value_for u = μ + σ Φ⁻¹(u)`. -/
theorem gaussian_quantile (S : Special K) (L U m s u : K) :
    rawValueFor S ⟨.gaussian, L, U, m, s⟩ u = m + s * S.phiInv u :=
  raw_gaussian S L U m s u

/-- Log-normal: the value is positive and `log (value_for u) = μ + σ Φ⁻¹(u)`. -/
theorem logGaussian_quantile (S : Special K) (h : Lawful S) (L U m s u : K) :
    0 < rawValueFor S ⟨.logGaussian, L, U, m, s⟩ u ∧
    S.log (rawValueFor S ⟨.logGaussian, L, U, m, s⟩ u) = m + s * S.phiInv u := by
  rw [raw_logGaussian, h.log_exp]
  exact ⟨h.exp_pos _, rfl⟩

/-- All four families at once: the mapped value is the `u`-quantile of the declared distribution, i.e.
the declared CDF (closed form, `declaredCdf`) of `value_for u` is `u`. -/
theorem value_is_declared_quantile (S : Special K) (h : Lawful S) (p : Params K) (hp : WF p) (u : K)
    (h0 : 0 < u) (h1 : u < 1) : declaredCdf S p (rawValueFor S p u) = u := by
  obtain ⟨kind, L, U, m, s⟩ := p
  cases kind <;> simp only [WF] at hp <;> simp only [declaredCdf]
  · rw [uniform_quantile S h L U m s u h0 h1]
    have : U - L ≠ 0 := by grind
    grind
  · obtain ⟨hL, hLU⟩ := hp
    have hs := logScale_pos S h L U hL hLU
    rw [(logUniform_quantile S h L U m s u h0 h1).2]
    have : S.log10 (U / L) ≠ 0 := by grind
    grind
  · rw [raw_gaussian]
    have : s ≠ 0 := by grind
    have e : (m + s * S.phiInv u - m) / s = S.phiInv u := by grind
    rw [e, h.phi_phiInv u h0 h1]
  · rw [(logGaussian_quantile S h L U m s u).2]
    have : s ≠ 0 := by grind
    have e : (m + s * S.phiInv u - m) / s = S.phiInv u := by grind
    rw [e, h.phi_phiInv u h0 h1]

/-! ## monotone -/

/-- `message.value_for` is non-decreasing in the unit value, for every family. -/
theorem rawValue_monotone (S : Special K) (h : Lawful S) (p : Params K) (hp : WF p) (u v : K)
    (h0 : 0 < u) (huv : u ≤ v) (h1 : v < 1) : rawValueFor S p u ≤ rawValueFor S p v := by
  obtain ⟨kind, L, U, m, s⟩ := p
  have hv0 : 0 < v := by grind
  have hu1 : u < 1 := by grind
  have hz := h.phiInv_mono u v h0 huv h1
  cases kind <;> simp only [WF] at hp
  · rw [uniform_quantile S h L U m s u h0 hu1, uniform_quantile S h L U m s v hv0 h1]
    have := mul_le_mul_right' u v (U - L) (by grind) huv
    grind
  · obtain ⟨hL, hLU⟩ := hp
    have hs := logScale_pos S h L U hL hLU
    rw [raw_logUniform, raw_logUniform, h.phi_phiInv u h0 hu1, h.phi_phiInv v hv0 h1]
    apply h.pow10_mono
    have := mul_le_mul_right' u v (S.log10 (U / L)) (by grind) huv
    grind
  · rw [raw_gaussian, raw_gaussian]
    have := mul_le_mul_left' (S.phiInv u) (S.phiInv v) s (by grind) hz
    grind
  · rw [raw_logGaussian, raw_logGaussian]
    apply h.exp_mono
    have := mul_le_mul_left' (S.phiInv u) (S.phiInv v) s (by grind) hz
    grind

/-! ## inverted by the unit-value (CDF) function -/

/-- `unit_value_for (value_for u) = u` for every family. -/
theorem unit_of_value (S : Special K) (h : Lawful S) (p : Params K) (hp : WF p) (u : K)
    (h0 : 0 < u) (h1 : u < 1) : unitValueFor S p (rawValueFor S p u) = u := by
  obtain ⟨kind, L, U, m, s⟩ := p
  cases kind <;> simp only [WF] at hp
  · rw [unit_uniform, uniform_quantile S h L U m s u h0 h1]
    have : U - L ≠ 0 := by grind
    have e : (L + u * (U - L) - L) / (U - L) = u := by grind
    rw [e, clampUnit_id S u h0 h1, h.phi_phiInv u h0 h1]
  · obtain ⟨hL, hLU⟩ := hp
    have hs := logScale_pos S h L U hL hLU
    rw [unit_logUniform, (logUniform_quantile S h L U m s u h0 h1).2]
    have : S.log10 (U / L) ≠ 0 := by grind
    have e : (S.log10 L + u * S.log10 (U / L) - S.log10 L) / S.log10 (U / L) = u := by grind
    rw [e, clampUnit_id S u h0 h1, h.phi_phiInv u h0 h1]
  · rw [unit_gaussian, raw_gaussian]
    have : s ≠ 0 := by grind
    have e : (m + s * S.phiInv u - m) / s = S.phiInv u := by grind
    rw [e, h.phi_phiInv u h0 h1]
  · rw [unit_logGaussian, (logGaussian_quantile S h L U m s u).2]
    have : s ≠ 0 := by grind
    have e : (m + s * S.phiInv u - m) / s = S.phiInv u := by grind
    rw [e, h.phi_phiInv u h0 h1]

/-- Conversely on the support, uniform: `value_for (unit_value_for x) = x` for `L < x < U`. -/
theorem value_of_unit_uniform (S : Special K) (h : Lawful S) (L U m s x : K) (hL : L < x) (hU : x < U) :
    rawValueFor S ⟨.uniform, L, U, m, s⟩ (unitValueFor S ⟨.uniform, L, U, m, s⟩ x) = x := by
  have hw : 0 < U - L := by grind
  have hne : U - L ≠ 0 := by grind
  have t0 : 0 < (x - L) / (U - L) := by
    have := div_le_div_right 0 (x - L) (U - L) hw (by grind)
    have e0 : (0 : K) / (U - L) = 0 := by grind
    have : (x - L) / (U - L) ≠ 0 := by
      intro hz
      have : (U - L) * ((x - L) / (U - L)) = x - L := by grind
      grind
    grind
  have t1 : (x - L) / (U - L) < 1 := by
    have := div_le_div_right (x - L) (U - L) (U - L) hw (by grind)
    have e1 : (U - L) / (U - L) = 1 := by grind
    have : (x - L) / (U - L) ≠ 1 := by
      intro hz
      have : (U - L) * ((x - L) / (U - L)) = x - L := by grind
      grind
    grind
  rw [unit_uniform, clampUnit_id S _ t0 t1, h.phi_phiInv _ t0 t1,
    uniform_quantile S h L U m s _ t0 t1]
  grind

/-- Conversely, Gaussian: `value_for (unit_value_for x) = x` for every `x`. -/
theorem value_of_unit_gaussian (S : Special K) (h : Lawful S) (L U m s x : K) (hs : 0 < s) :
    rawValueFor S ⟨.gaussian, L, U, m, s⟩ (unitValueFor S ⟨.gaussian, L, U, m, s⟩ x) = x := by
  rw [unit_gaussian, raw_gaussian, h.phiInv_phi]
  have : s ≠ 0 := by grind
  grind

/-- Conversely, log-normal: `value_for (unit_value_for x) = x` for every `x > 0`. -/
theorem value_of_unit_logGaussian (S : Special K) (h : Lawful S) (L U m s x : K) (hs : 0 < s) (hx : 0 < x) :
    rawValueFor S ⟨.logGaussian, L, U, m, s⟩ (unitValueFor S ⟨.logGaussian, L, U, m, s⟩ x) = x := by
  rw [unit_logGaussian, raw_logGaussian, h.phiInv_phi]
  have : s ≠ 0 := by grind
  have e : m + s * ((S.log x - m) / s) = S.log x := by grind
  rw [e, h.exp_log x hx]

/-- Conversely, log-uniform: for `x > 0` whose log-coordinate lies strictly inside the unit interval
(for the real `log10` this is `L < x < U`). -/
theorem value_of_unit_logUniform (S : Special K) (h : Lawful S) (L U m s x : K) (hL : 0 < L) (hLU : L < U)
    (hx : 0 < x) (t0 : 0 < (S.log10 x - S.log10 L) / S.log10 (U / L))
    (t1 : (S.log10 x - S.log10 L) / S.log10 (U / L) < 1) :
    rawValueFor S ⟨.logUniform, L, U, m, s⟩ (unitValueFor S ⟨.logUniform, L, U, m, s⟩ x) = x := by
  have hs := logScale_pos S h L U hL hLU
  have hne : S.log10 (U / L) ≠ 0 := by grind
  rw [unit_logUniform, clampUnit_id S _ t0 t1, h.phi_phiInv _ t0 t1, raw_logUniform,
    h.phi_phiInv _ t0 t1]
  have e : (S.log10 x - S.log10 L) / S.log10 (U / L) * S.log10 (U / L) + S.log10 L = S.log10 x := by grind
  rw [e, h.pow10_log10 x hx]

/-- Log-uniform on its support, with the log-coordinate hypothesis narrowed to a single equation about the
two limits (`hlog`: `log10 (U/L) = log10 U - log10 L`, true of the real logarithm): `value_for
(unit_value_for x) = x` for every `L < x < U`. The strict monotonicity of `log10` this needs is derived from
`Lawful` (inverse pair + monotone `10^x`). -/
theorem value_of_unit_logUniform_on_support (S : Special K) (h : Lawful S) (L U m s x : K) (hL : 0 < L)
    (hLx : L < x) (hxU : x < U) (hlog : S.log10 (U / L) = S.log10 U - S.log10 L) :
    rawValueFor S ⟨.logUniform, L, U, m, s⟩ (unitValueFor S ⟨.logUniform, L, U, m, s⟩ x) = x := by
  have hLU : L < U := by grind
  have hx : 0 < x := by grind
  have hs := logScale_pos S h L U hL hLU
  have l1 := log10_strict_of_lawful S h L x hL hLx
  have l2 := log10_strict_of_lawful S h x U hx hxU
  have hne : S.log10 (U / L) ≠ 0 := by grind
  have t0 : 0 < (S.log10 x - S.log10 L) / S.log10 (U / L) := by
    have := div_le_div_right 0 (S.log10 x - S.log10 L) (S.log10 (U / L)) hs (by grind)
    have : (S.log10 x - S.log10 L) / S.log10 (U / L) ≠ 0 := by
      intro hz
      have : S.log10 (U / L) * ((S.log10 x - S.log10 L) / S.log10 (U / L)) = S.log10 x - S.log10 L := by grind
      grind
    grind
  have t1 : (S.log10 x - S.log10 L) / S.log10 (U / L) < 1 := by
    have := div_le_div_right (S.log10 x - S.log10 L) (S.log10 (U / L)) (S.log10 (U / L)) hs (by grind)
    have e1 : S.log10 (U / L) / S.log10 (U / L) = 1 := by grind
    have : (S.log10 x - S.log10 L) / S.log10 (U / L) ≠ 1 := by
      intro hz
      have : S.log10 (U / L) * ((S.log10 x - S.log10 L) / S.log10 (U / L)) = S.log10 x - S.log10 L := by grind
      grind
    grind
  exact value_of_unit_logUniform S h L U m s x hL hLU hx t0 t1

/-! ## limits: a value inside the limits or the limit exception -/

/-- `value_for` never silently returns an out-of-limit value (repaired code, every family, every special
function implementation – in particular every rounding function): whatever it returns lies inside the
limits. -/
theorem valueFor_in_limits (S : Special K) (p : Params K) (hLU : p.lower ≤ p.upper) (u v : K)
    (h : valueFor S { repaired := true } false p u = .ok v) : p.lower ≤ v ∧ v ≤ p.upper := by
  unfold valueFor finish at h
  split at h
  · cases h
  · rename_i w hg
    have hw := gate_sound _ _ _ _ hg
    split at h
    · simp only [uniformPost] at h
      cases h
      exact clamp_mem _ _ _ hLU
    · cases h
      exact hw

/-- End to end (gate, rounding, clamp): the returned values are non-decreasing in the unit value. -/
theorem valueFor_monotone (S : Special K) (h : Lawful S) (ignore : Bool) (p : Params K) (hp : WF p) (u v a b : K)
    (h0 : 0 < u) (huv : u ≤ v) (h1 : v < 1)
    (ha : valueFor S { repaired := true } ignore p u = .ok a)
    (hb : valueFor S { repaired := true } ignore p v = .ok b) : a ≤ b := by
  have hm := rawValue_monotone S h p hp u v h0 huv h1
  unfold valueFor finish at ha hb
  split at ha
  · cases ha
  · rename_i wa hga
    split at hb
    · cases hb
    · rename_i wb hgb
      have ea := gate_ok _ _ _ _ _ hga
      have eb := gate_ok _ _ _ _ _ hgb
      subst ea eb
      split at ha
      · rename_i hk
        simp only [hk] at hb
        cases ha
        cases hb
        simp only [uniformPost]
        have hr := h.round_mono (decimalPlaces (p.upper - p.lower)) _ _ hm
        cases ignore
        · exact clamp_mono _ _ _ _ hr
        · exact hr
      · rename_i hk
        split at hb
        · rename_i hk'
          exact absurd hk' (by simpa using hk)
        · cases ha
          cases hb
          exact hm

/-! ## random draws -/

/-- A random draw that is returned lies inside the limits. -/
theorem random_in_limits (S : Special K) (p : Params K) (hLU : p.lower ≤ p.upper) (lo hi r v : K)
    (h : randomDraw S { repaired := true } p lo hi r = .ok v) : p.lower ≤ v ∧ v ≤ p.upper :=
  valueFor_in_limits S p hLU _ v h

/-- In exact arithmetic `GaussianPrior.random` never raises: a unit value drawn between the unit limits
(intersected with the requested unit interval) is mapped inside the physical limits. (With doubles this
fails for limits far in a tail – known finding `C02-random-raises-unresolvable-unit-limits`.) -/
theorem random_never_raises_gaussian (S : Special K) (h : Lawful S) (cfg : Cfg) (L U m s lo hi r : K)
    (hLU : L < U) (hs : 0 < s) (hr0 : 0 ≤ r) (hr1 : r ≤ 1)
    (hlo : lo ≤ unitValueFor S ⟨.gaussian, L, U, m, s⟩ U)
    (hhi : unitValueFor S ⟨.gaussian, L, U, m, s⟩ L ≤ hi) (hlohi : lo ≤ hi) :
    ∃ v, randomDraw S cfg ⟨.gaussian, L, U, m, s⟩ lo hi r = .ok v ∧ L ≤ v ∧ v ≤ U := by
  have hsne : s ≠ 0 := by grind
  have hab : S.phi ((L - m) / s) ≤ S.phi ((U - m) / s) :=
    h.phi_mono _ _ (div_le_div_right _ _ s hs (by grind))
  simp only [unit_gaussian] at hlo hhi
  -- the drawn unit value
  have hu : ∃ w, randomUnit lo hi (S.phi ((L - m) / s)) (S.phi ((U - m) / s)) r = w ∧
      S.phi ((L - m) / s) ≤ w ∧ w ≤ S.phi ((U - m) / s) := by
    refine ⟨_, rfl, ?_, ?_⟩ <;> simp only [randomUnit] <;> split <;> split
    all_goals
      rename_i c1 c2
      first
        | (have h1 := mul_le_mul_left' r 1 (S.phi ((U - m) / s) - S.phi ((L - m) / s)) (by grind) hr1
           have h2 := mul_le_mul_left' 0 r (S.phi ((U - m) / s) - S.phi ((L - m) / s)) (by grind) hr0
           grind)
        | (have h1 := mul_le_mul_left' r 1 (hi - S.phi ((L - m) / s)) (by grind) hr1
           have h2 := mul_le_mul_left' 0 r (hi - S.phi ((L - m) / s)) (by grind) hr0
           grind)
        | (have h1 := mul_le_mul_left' r 1 (S.phi ((U - m) / s) - lo) (by grind) hr1
           have h2 := mul_le_mul_left' 0 r (S.phi ((U - m) / s) - lo) (by grind) hr0
           grind)
        | (have h1 := mul_le_mul_left' r 1 (hi - lo) (by grind) hr1
           have h2 := mul_le_mul_left' 0 r (hi - lo) (by grind) hr0
           grind)
  obtain ⟨w, hw, hwa, hwb⟩ := hu
  have hw0 : 0 < w := by have := h.phi_pos ((L - m) / s); grind
  have hw1 : w < 1 := by have := h.phi_lt_one ((U - m) / s); grind
  -- its image lies between the limits
  have hzL := h.phiInv_mono _ _ (h.phi_pos _) hwa hw1
  have hzU := h.phiInv_mono _ _ hw0 hwb (h.phi_lt_one _)
  rw [h.phiInv_phi] at hzL hzU
  have hL : L ≤ m + s * S.phiInv w := by
    have := mul_le_mul_left' _ _ s (by grind) hzL
    have e : s * ((L - m) / s) = L - m := by grind
    grind
  have hU : m + s * S.phiInv w ≤ U := by
    have := mul_le_mul_left' _ _ s (by grind) hzU
    have e : s * ((U - m) / s) = U - m := by grind
    grind
  refine ⟨m + s * S.phiInv w, ?_, hL, hU⟩
  unfold randomDraw
  simp only [unit_gaussian]
  rw [hw]
  unfold valueFor finish
  rw [raw_gaussian]
  have hg : gate false L U (m + s * S.phiInv w) = .ok (m + s * S.phiInv w) := by
    unfold gate
    have : inLimits L U (m + s * S.phiInv w) = true := (inLimits_iff _ _ _).mpr ⟨hL, hU⟩
    simp [this]
  simp only [hg]

/-- The unit limits between which `Prior.random` draws, for the two uniform families: the clamp epsilon
of `transform.ndtri` (1e-14) and its complement - not 0 and 1. -/
theorem unit_limits_uniform (S : Special K) (h : Lawful S) (L U m s : K) (hLU : L < U) :
    unitValueFor S ⟨.uniform, L, U, m, s⟩ L = S.eps ∧ unitValueFor S ⟨.uniform, L, U, m, s⟩ U = 1 - S.eps :=
  unitLimits_uniform S h L U m s hLU

/-- In exact arithmetic `UniformPrior.random(lo, hi)` never raises and returns a value inside the limits,
whenever the requested unit interval meets `[eps, 1 - eps]` (guard: `lo ≤ 1 - eps`, `eps ≤ hi`, `lo ≤ hi`;
`eps ≤ 1 - eps` holds for the code's 1e-14). -/
theorem random_never_raises_uniform (S : Special K) (h : Lawful S) (L U m s lo hi r : K)
    (hLU : L < U) (heps : S.eps ≤ 1 - S.eps) (hr0 : 0 ≤ r) (hr1 : r ≤ 1)
    (hlo : lo ≤ 1 - S.eps) (hhi : S.eps ≤ hi) (hlohi : lo ≤ hi) :
    ∃ v, randomDraw S { repaired := true } ⟨.uniform, L, U, m, s⟩ lo hi r = .ok v ∧ L ≤ v ∧ v ≤ U := by
  obtain ⟨ea, eb⟩ := unitLimits_uniform S h L U m s hLU
  have hw := randomUnit_between lo hi S.eps (1 - S.eps) r heps hlo hhi hlohi hr0 hr1
  have p0 := h.eps_pos
  have hin := uniform_raw_in_limits S h L U m s _ hLU (by grind) (by grind : randomUnit lo hi S.eps (1 - S.eps) r < 1)
  obtain ⟨v, hv⟩ := valueFor_ok_of_in_limits S { repaired := true } ⟨.uniform, L, U, m, s⟩ _ hin
  have hd : randomDraw S { repaired := true } ⟨.uniform, L, U, m, s⟩ lo hi r = .ok v := by
    unfold randomDraw
    simp only [ea, eb]
    exact hv
  exact ⟨v, hd, random_in_limits S ⟨.uniform, L, U, m, s⟩ (by grind) lo hi r v hd⟩

/-- In exact arithmetic `LogUniformPrior.random(lo, hi)` never raises, given that `log10` turns the
quotient of the two limits into the difference (`hlog`, true of the real logarithm - the one law about
`log10` that is not part of `Lawful`), under the same guard as the uniform prior. -/
theorem random_never_raises_logUniform (S : Special K) (h : Lawful S) (cfg : Cfg) (L U m s lo hi r : K)
    (hL : 0 < L) (hLU : L < U) (hlog : S.log10 (U / L) = S.log10 U - S.log10 L)
    (heps : S.eps ≤ 1 - S.eps) (hr0 : 0 ≤ r) (hr1 : r ≤ 1)
    (hlo : lo ≤ 1 - S.eps) (hhi : S.eps ≤ hi) (hlohi : lo ≤ hi) :
    ∃ v, randomDraw S cfg ⟨.logUniform, L, U, m, s⟩ lo hi r = .ok v ∧ L ≤ v ∧ v ≤ U := by
  obtain ⟨ea, eb⟩ := unitLimits_logUniform S h L U m s hL hLU hlog
  have hw := randomUnit_between lo hi S.eps (1 - S.eps) r heps hlo hhi hlohi hr0 hr1
  have p0 := h.eps_pos
  have hin := logUniform_raw_in_limits S h L U m s _ hL hLU hlog (by grind)
    (by grind : randomUnit lo hi S.eps (1 - S.eps) r < 1)
  obtain ⟨v, hv⟩ := valueFor_ok_of_in_limits S cfg ⟨.logUniform, L, U, m, s⟩ _ hin
  have hd : randomDraw S cfg ⟨.logUniform, L, U, m, s⟩ lo hi r = .ok v := by
    unfold randomDraw
    simp only [ea, eb]
    exact hv
  exact ⟨v, hd, valueFor_in_limits_nonuniform S cfg ⟨.logUniform, L, U, m, s⟩ (by simp) _ v hv⟩

/-- In exact arithmetic `LogGaussianPrior.random(lo, hi)` never raises for a positive lower limit, whenever
the requested unit interval meets the interval between the unit limits. (A lower limit 0 has unit limit
`Φ(log 0) = Φ(-∞) = 0`, which only exists on doubles; on doubles the statement fails for limits far in a
tail - the same known finding as for the Gaussian prior.) -/
theorem random_never_raises_logGaussian (S : Special K) (h : Lawful S) (cfg : Cfg) (L U m s lo hi r : K)
    (hL : 0 < L) (hLU : L < U) (hs : 0 < s) (hr0 : 0 ≤ r) (hr1 : r ≤ 1)
    (hlo : lo ≤ unitValueFor S ⟨.logGaussian, L, U, m, s⟩ U)
    (hhi : unitValueFor S ⟨.logGaussian, L, U, m, s⟩ L ≤ hi) (hlohi : lo ≤ hi) :
    ∃ v, randomDraw S cfg ⟨.logGaussian, L, U, m, s⟩ lo hi r = .ok v ∧ L ≤ v ∧ v ≤ U := by
  have hsne : s ≠ 0 := by grind
  have hU0 : 0 < U := by grind
  have hll := log_mono_of_lawful S h L U hL (by grind)
  have hab : S.phi ((S.log L - m) / s) ≤ S.phi ((S.log U - m) / s) :=
    h.phi_mono _ _ (div_le_div_right _ _ s hs (by grind))
  simp only [unit_logGaussian] at hlo hhi
  obtain ⟨hwa, hwb⟩ := randomUnit_between lo hi _ _ r hab hlo hhi hlohi hr0 hr1
  generalize hw : randomUnit lo hi (S.phi ((S.log L - m) / s)) (S.phi ((S.log U - m) / s)) r = w at hwa hwb
  have hw0 : 0 < w := by have := h.phi_pos ((S.log L - m) / s); grind
  have hw1 : w < 1 := by have := h.phi_lt_one ((S.log U - m) / s); grind
  have hzL := h.phiInv_mono _ _ (h.phi_pos _) hwa hw1
  have hzU := h.phiInv_mono _ _ hw0 hwb (h.phi_lt_one _)
  rw [h.phiInv_phi] at hzL hzU
  have hlL : S.log L ≤ m + s * S.phiInv w := by
    have := mul_le_mul_left' _ _ s (by grind) hzL
    have e : s * ((S.log L - m) / s) = S.log L - m := by grind
    grind
  have hlU : m + s * S.phiInv w ≤ S.log U := by
    have := mul_le_mul_left' _ _ s (by grind) hzU
    have e : s * ((S.log U - m) / s) = S.log U - m := by grind
    grind
  have hin : L ≤ rawValueFor S ⟨.logGaussian, L, U, m, s⟩ w ∧ rawValueFor S ⟨.logGaussian, L, U, m, s⟩ w ≤ U := by
    rw [raw_logGaussian]
    have a := h.exp_mono _ _ hlL
    have b := h.exp_mono _ _ hlU
    rw [h.exp_log L hL] at a
    rw [h.exp_log U hU0] at b
    exact ⟨a, b⟩
  obtain ⟨v, hv⟩ := valueFor_ok_of_in_limits S cfg ⟨.logGaussian, L, U, m, s⟩ w hin
  have hd : randomDraw S cfg ⟨.logGaussian, L, U, m, s⟩ lo hi r = .ok v := by
    unfold randomDraw
    simp only [unit_logGaussian]
    rw [hw]
    exact hv
  exact ⟨v, hd, valueFor_in_limits_nonuniform S cfg ⟨.logGaussian, L, U, m, s⟩ (by simp) _ v hv⟩

end Field

/-- the gate theorems instantiate at the driver's own instance (`Float`, `floatSpecial`) -/
example (cfg : Cfg) (p : Params Float) (hk : p.kind ≠ .uniform) (u v : Float)
    (h : valueFor floatSpecial cfg false p u = .ok v) : p.lower ≤ v ∧ v ≤ p.upper :=
  valueFor_in_limits_nonuniform floatSpecial cfg p hk u v h

/-! ## non-vacuity: the hypotheses are met by concrete non-trivial inputs (over `Rat`) -/

example : rawValueFor ratSpecial ⟨.uniform, 2, 5, 0, 0⟩ (1 / 4) = 2 + 1 / 4 * (5 - 2) :=
  uniform_quantile ratSpecial ratSpecial_lawful 2 5 0 0 (1 / 4) (by grind) (by grind)

example : WF (⟨.logUniform, 1 / 1000, 10, 0, 0⟩ : Params Rat) := by simp [WF]; grind

example : unitValueFor ratSpecial ⟨.logUniform, 1 / 1000, 10, 0, 0⟩
    (rawValueFor ratSpecial ⟨.logUniform, 1 / 1000, 10, 0, 0⟩ (3 / 4)) = 3 / 4 :=
  unit_of_value ratSpecial ratSpecial_lawful _ (by simp [WF]; grind) _ (by grind) (by grind)

example : rawValueFor ratSpecial ⟨.gaussian, -1, 3, 1, 2⟩ (1 / 4)
    ≤ rawValueFor ratSpecial ⟨.gaussian, -1, 3, 1, 2⟩ (3 / 4) :=
  rawValue_monotone ratSpecial ratSpecial_lawful _ (by simp [WF]; grind) _ _ (by grind) (by grind) (by grind)

example : declaredCdf ratSpecial ⟨.logGaussian, 0, 100, 1, 2⟩
    (rawValueFor ratSpecial ⟨.logGaussian, 0, 100, 1, 2⟩ (1 / 3)) = 1 / 3 :=
  value_is_declared_quantile ratSpecial ratSpecial_lawful _ (by simp [WF]; grind) _ (by grind) (by grind)

/-- the gate is not vacuous: a Gaussian prior with limits rejects a tail value and accepts the median -/
example : valueFor ratSpecial {} false ⟨.gaussian, 0, 2, 1, 2⟩ (1 / 2) = .ok 1 := by decide +kernel
example : valueFor ratSpecial {} false ⟨.gaussian, 0, 2, 1, 2⟩ (1 / 10) = .limit := by decide +kernel

example : ∃ v, randomDraw ratSpecial {} ⟨.gaussian, 0, 2, 1, 2⟩ 0 1 (1 / 3) = .ok v ∧ (0 : Rat) ≤ v ∧ v ≤ 2 :=
  random_never_raises_gaussian ratSpecial ratSpecial_lawful {} 0 2 1 2 0 1 (1 / 3)
    (by grind) (by grind) (by grind) (by grind)
    (by rw [unit_gaussian]; exact Std.le_of_lt (ratSpecial_lawful.phi_pos _))
    (by rw [unit_gaussian]; exact Std.le_of_lt (ratSpecial_lawful.phi_lt_one _)) (by grind)

example : ∃ v, randomDraw ratSpecial {} ⟨.uniform, 2, 5, 0, 0⟩ 0 1 (1 / 3) = .ok v ∧ (2 : Rat) ≤ v ∧ v ≤ 5 :=
  random_never_raises_uniform ratSpecial ratSpecial_lawful 2 5 0 0 0 1 (1 / 3)
    (by grind) (by decide +kernel) (by grind) (by grind) (by decide +kernel) (by decide +kernel) (by grind)

/-- the log-coordinate hypothesis is met by the closed-form instance for a lower limit 1 -/
example : ∃ v, randomDraw ratSpecial {} ⟨.logUniform, 1, 10, 0, 0⟩ 0 1 (2 / 3) = .ok v ∧ (1 : Rat) ≤ v ∧ v ≤ 10 :=
  random_never_raises_logUniform ratSpecial ratSpecial_lawful {} 1 10 0 0 0 1 (2 / 3)
    (by grind) (by grind) (by decide +kernel) (by decide +kernel) (by grind) (by grind)
    (by decide +kernel) (by decide +kernel) (by grind)

example : ∃ v, randomDraw ratSpecial {} ⟨.logGaussian, 1 / 2, 8, 1, 2⟩ 0 1 (1 / 3) = .ok v ∧ (1 / 2 : Rat) ≤ v ∧ v ≤ 8 :=
  random_never_raises_logGaussian ratSpecial ratSpecial_lawful {} (1 / 2) 8 1 2 0 1 (1 / 3)
    (by grind) (by grind) (by grind) (by grind) (by grind)
    (by rw [unit_logGaussian]; exact Std.le_of_lt (ratSpecial_lawful.phi_pos _))
    (by rw [unit_logGaussian]; exact Std.le_of_lt (ratSpecial_lawful.phi_lt_one _)) (by grind)

example : rawValueFor ratSpecial ⟨.logUniform, 1, 10, 0, 0⟩ (unitValueFor ratSpecial ⟨.logUniform, 1, 10, 0, 0⟩ 3) = 3 :=
  value_of_unit_logUniform_on_support ratSpecial ratSpecial_lawful 1 10 0 0 3 (by grind) (by grind) (by grind)
    (by decide +kernel)

/-! ## rounding of `UniformPrior.value_for` on doubles

`cfg.repaired = true` (after `fixes/C02-uniform-rounding.patch`): covered by `valueFor_in_limits` and
`valueFor_monotone` above, for *every* rounding function. For the pinned commit (`repaired = false`:
numpy's `round(x, 14)` applied after the gate, no clamp) the statement is false; the model functions the
driver runs are evaluated by the kernel on the witnesses. -/

/-- `0.100000000000004`, `0.2`, `1e300` as bit patterns -/
def wL : Float := Float.ofBits 0x3FB9999999999ABA
def wU : Float := Float.ofBits 0x3FC999999999999A
def w1e300 : Float := Float.ofBits 0x7E37E43C8800759C

/-- Pinned commit, only what can be said: a value is returned iff the raw value passed the gate
(nothing about the rounded value). -/
theorem uniform_legacy_partial (S : Special Float) (L U m s u : Float) :
    (∃ v, valueFor S { repaired := false } false ⟨.uniform, L, U, m, s⟩ u = .ok v) ↔
      inLimits L U (rawValueFor S ⟨.uniform, L, U, m, s⟩ u) = true := by
  unfold valueFor finish gate
  by_cases hc : inLimits L U (rawValueFor S ⟨.uniform, L, U, m, s⟩ u) = true
  · simp [hc]
  · simp [hc]

/-- Refutation witness 1 (pinned commit): the raw value `L = 0.100000000000004` passes the gate of
`UniformPrior(L, 0.2)` and is then rounded to `0.1 < L`. -/
theorem uniform_legacy_refuted_offgrid :
    inLimits wL wU wL = true ∧
    finish floatSpecial { repaired := false } false ⟨.uniform, wL, wU, 0, 0⟩ wL
      = .ok (Float.ofBits 0x3FB999999999999A) ∧
    (Float.ofBits 0x3FB999999999999A) < wL := by
  decide +kernel

/-- Refutation witness 2 (pinned commit): `UniformPrior(0, 1e300)`, raw value `5e299` is "rounded" to
`inf`. -/
theorem uniform_legacy_refuted_overflow :
    finish floatSpecial { repaired := false } false ⟨.uniform, 0, w1e300, 0, 0⟩ (w1e300 / 2)
      = .ok (Float.ofBits 0x7FF0000000000000) := by
  decide +kernel

/-- The repaired code on the same inputs: inside the limits. -/
theorem uniform_repaired_on_witnesses :
    finish floatSpecial { repaired := true } false ⟨.uniform, wL, wU, 0, 0⟩ wL = .ok wL ∧
    finish floatSpecial { repaired := true } false ⟨.uniform, 0, w1e300, 0, 0⟩ (w1e300 / 2)
      = .ok (w1e300 / 2) := by
  decide +kernel

/-- The repaired `UniformPrior` rounds to at least the historical 14 and at most 323 decimal places
(CPython's `round` is the identity beyond), for every number type – in particular for `Float`, the
instance the driver runs – and to exactly 14 places for priors at least 1 wide. -/
theorem decimal_places_range {K : Type} [Mul K] [LT K] [DecidableLT K] [OfNat K 1] [OfNat K 10] (w : K) :
    14 ≤ decimalPlaces w ∧ decimalPlaces w ≤ 323 :=
  ⟨decimalPlacesGo_ge w 14 309, decimalPlacesGo_le w 14 309 (by decide)⟩

theorem decimal_places_wide {K : Type} [Mul K] [LT K] [DecidableLT K] [OfNat K 1] [OfNat K 10] (w : K)
    (h : ¬ w < 1) : decimalPlaces w = 14 := by
  simp [decimalPlaces, decimalPlacesGo, h]

example : decimalPlaces (Float.ofBits 0x3FE0000000000000) = 15 := by decide +kernel

/-! ### the integer step of the exact rounding `pyRound`

`pyRound n x` (the repaired code's `round(float, n)`) rounds the exact rational `m·10ⁿ / 2^(-e)` of the
double with `divRoundHalfEven` and converts `k / 10ⁿ` to the nearest double. The integer step is monotone,
within half a unit of the exact quotient and fixes the decimal grid; the whole function is proved
non-decreasing on doubles below (`round_monotone_on_doubles`). -/

theorem rounding_step_monotone (a b d : Nat) (hd : 0 < d) (h : a ≤ b) :
    divRoundHalfEven a d ≤ divRoundHalfEven b d :=
  divRoundHalfEven_mono a b d hd h

theorem rounding_step_error (a d : Nat) (hd : 0 < d) :
    2 * (divRoundHalfEven a d * d) ≤ 2 * a + d ∧ 2 * a ≤ 2 * (divRoundHalfEven a d * d) + d :=
  divRoundHalfEven_error a d hd

theorem rounding_step_fixes_grid (k d : Nat) (hd : 0 < d) : divRoundHalfEven (k * d) d = k :=
  divRoundHalfEven_exact k d hd

example : divRoundHalfEven 25 10 = 2 ∧ divRoundHalfEven 35 10 = 4 ∧ divRoundHalfEven 26 10 = 3 := by decide

/-- `1e-15`, `2e-15`, `1.5e-15` -/
def w1 : Float := Float.ofBits 0x3CD203AF9EE75616
def w2 : Float := Float.ofBits 0x3CE203AF9EE75616
def w15 : Float := Float.ofBits 0x3CDB05876E5B0120

/-- Refutation witness 3 (pinned commit): `UniformPrior(1e-15, 2e-15)` maps the in-limit raw value
`1.5e-15` to `0.0`; the repaired code (29 decimal places for this width) returns it unchanged up to
rounding, inside the limits. -/
theorem uniform_legacy_refuted_tiny_range :
    inLimits w1 w2 w15 = true ∧
    finish floatSpecial { repaired := false } false ⟨.uniform, w1, w2, 0, 0⟩ w15 = .ok (Float.ofBits 0) ∧
    decimalPlaces (w2 - w1) = 29 ∧
    (∃ v, finish floatSpecial { repaired := true } false ⟨.uniform, w1, w2, 0, 0⟩ w15 = .ok v ∧
      w1 < v ∧ v < w2) := by
  refine ⟨by decide +kernel, by decide +kernel, by decide +kernel, ?_⟩
  exact ⟨Float.ofBits 0x3CDB05876E5B0120, by decide +kernel⟩

/-! ## the float layer as data: limit gate, exact rounding and clamp on doubles

`Float` comparisons are opaque to the logic, so the statements above say nothing for-all about
`finish floatSpecial …`. `AFModel/PriorDbl.lean` models a double as data (`Dbl`: sign + magnitude bits, IEEE
order incl. NaN, ±0, ±inf) and the part of `value_for` after `message.value_for` on it (`finishD`: the same
generic `gate` and `clamp`, and `pyRoundD` = CPython `round(x, n)`, through which the `Float` rounding
`pyRound` is *defined*). The driver runs `finishD` beside `finish` on every raw value and the harness
compares both with the real code bit for bit. All statements below are for every double, every number of
places and all limits; nothing about special functions is assumed except where stated. -/

/-- the rounding the driver's `Float` instance uses is `pyRoundD` between the bit casts -/
theorem float_round_is_pyRoundD (n : Nat) (x : Float) :
    floatSpecial.round n x = (pyRoundD n (Dbl.ofFloat x)).toFloat := rfl

/-- The order on `Dbl` is the order of the exact values (in units of `2^-1074`) on finite doubles. -/
theorem double_order_is_exact_order (a b : Dbl) (ha : a.isFinite = true) (hb : b.isFinite = true) :
    a ≤ b ↔ a.exact ≤ b.exact :=
  Dbl.le_iff_exact a b ha hb

/-- CPython's `round(x, n)` - exact half-even rounding of the binary value to `n` decimals, then the
nearest double - is non-decreasing on doubles (NaN excluded by `a ≤ b`; ±0 and ±inf included). -/
theorem round_monotone_on_doubles (n : Nat) (a b : Dbl) (h : a ≤ b) : pyRoundD n a ≤ pyRoundD n b :=
  pyRoundD_mono n a b h

/-- The same on the exact rational values of finite doubles; the rounded values are finite: the exact
rounding cannot overflow (numpy's multiply-rint-divide of the pinned commit did:
`uniform_legacy_refuted_overflow`). -/
theorem round_monotone_exact (n : Nat) (a b : Dbl) (ha : a.isFinite = true) (hb : b.isFinite = true)
    (h : a.exact ≤ b.exact) :
    (pyRoundD n a).isFinite = true ∧ (pyRoundD n b).isFinite = true ∧
      (pyRoundD n a).exact ≤ (pyRoundD n b).exact := by
  have fa := pyRoundD_finite n a ha
  have fb := pyRoundD_finite n b hb
  refine ⟨fa, fb, ?_⟩
  rw [← Dbl.le_iff_exact _ _ fa fb]
  exact pyRoundD_mono n a b ((Dbl.le_iff_exact a b ha hb).mpr h)

/-- Never an out-of-limit value (doubles): whatever `value_for` returns without `ignore_prior_limits` lies
inside the limits - after rounding and clamp for the uniform prior - and in particular is not NaN. -/
theorem finishD_in_limits (uniform : Bool) (places : Nat) (L U raw v : Dbl)
    (h : finishD uniform false places L U raw = .ok v) : L ≤ v ∧ v ≤ U := by
  unfold finishD at h
  split at h
  · cases h
  · rename_i w hg
    obtain ⟨hw, hL, hU⟩ := (gate_false_ok_iff L U raw w).mp hg
    subst hw
    split at h
    · cases h
      simp only [uniformPostD, Bool.false_eq_true, if_false]
      exact clampD_mem L U _ (Dbl.le_trans L w U hL hU) (pyRoundD_notNaN places w hL.2.1)
    · cases h
      exact ⟨hL, hU⟩

/-- The limit exception is raised exactly when the mapped value is outside the limits (or NaN). -/
theorem finishD_limit_iff (uniform : Bool) (places : Nat) (L U raw : Dbl) :
    finishD uniform false places L U raw = .limit ↔ ¬ (L ≤ raw ∧ raw ≤ U) := by
  rw [← gate_false_limit_iff]
  unfold finishD
  split
  · rename_i hg
    simp [hg]
  · rename_i w hg
    rw [hg]
    constructor
    · intro hh
      split at hh <;> cases hh
    · intro hh
      cases hh

/-- With limits explicitly ignored a value is always returned. -/
theorem finishD_ignore (uniform : Bool) (places : Nat) (L U raw : Dbl) :
    ∃ v, finishD uniform true places L U raw = .ok v := by
  unfold finishD
  rw [gate_true_ok]
  simp only
  split <;> exact ⟨_, rfl⟩

/-- Gate, rounding and clamp are non-decreasing in the raw value: on doubles, for every number of places,
with or without `ignore_prior_limits`. -/
theorem finishD_monotone (uniform ignore : Bool) (places : Nat) (L U raw raw2 a b : Dbl) (h : raw ≤ raw2)
    (ha : finishD uniform ignore places L U raw = .ok a)
    (hb : finishD uniform ignore places L U raw2 = .ok b) : a ≤ b := by
  unfold finishD at ha hb
  split at ha
  · cases ha
  · rename_i wa hga
    split at hb
    · cases hb
    · rename_i wb hgb
      have ea := gate_ok _ _ _ _ _ hga
      have eb := gate_ok _ _ _ _ _ hgb
      subst ea eb
      cases uniform
      · simp only [Bool.false_eq_true, if_false] at ha hb
        cases ha
        cases hb
        exact h
      · simp only [if_true] at ha hb
        cases ha
        cases hb
        have hr := pyRoundD_mono places _ _ h
        cases ignore
        · simp only [uniformPostD, Bool.false_eq_true, if_false]
          obtain ⟨_, hL, hU⟩ := (gate_false_ok_iff L U wa wa).mp hga
          exact clampD_mono L U _ _ (Dbl.le_trans L wa U hL hU) hr
        · simpa only [uniformPostD, if_true] using hr

/-- The float-level `value_for` pipeline (raw quantile → round → limit gate → clamp) is non-decreasing in
the unit value whenever the raw quantile `q` (scipy/libm: `erfinv`, `ndtr`, `log10`, `power`, `exp` and the
shift/scale arithmetic) is - the only hypothesis left about the double-precision layer. -/
theorem valueForD_monotone (q : Dbl → Dbl) (hq : ∀ u v, u ≤ v → q u ≤ q v)
    (uniform ignore : Bool) (places : Nat) (L U u v a b : Dbl) (huv : u ≤ v)
    (ha : finishD uniform ignore places L U (q u) = .ok a)
    (hb : finishD uniform ignore places L U (q v) = .ok b) : a ≤ b :=
  finishD_monotone uniform ignore places L U (q u) (q v) a b (hq u v huv) ha hb

/-- `0.1 + 2^-56`-ish witnesses: the doubles `0.100000000000004`, `0.2` as data -/
def dL : Dbl := Dbl.ofBits 0x3FB9999999999ABA
def dU : Dbl := Dbl.ofBits 0x3FC999999999999A

/-- non-vacuity: the off-grid lower limit (the pinned commit returned `0.1 < L` here) is rounded to 15
places and returned inside the limits; a value above the upper limit raises -/
example : finishD true false 15 dL dU dL = .ok dL ∧ dL ≤ dL ∧ dL ≤ dU := by decide +kernel
example : finishD true false 15 dL dU (Dbl.ofBits 0x3FD0000000000000) = .limit := by decide +kernel
example : dL ≤ dU ∧ pyRoundD 1 dL ≤ pyRoundD 1 dU ∧ (pyRoundD 1 dU).toBits = 0x3FC999999999999A :=
  ⟨by decide +kernel, round_monotone_on_doubles 1 dL dU (by decide +kernel), by decide +kernel⟩
/-- NaN never passes the gate; `-0.0` and `0.0` compare equal -/
example : finishD false false 14 dL dU (Dbl.ofBits 0x7FF8000000000000) = .limit := by decide +kernel
example : Dbl.ofBits 0x8000000000000000 ≤ Dbl.ofBits 0 ∧ Dbl.ofBits 0 ≤ Dbl.ofBits 0x8000000000000000 := by
  decide +kernel
/-- the model's rounding on `Float` and on data agree on the witness (`round(0.100000000000004, 14)`) -/
example : (pyRound 14 wL).toBits = (pyRoundD 14 dL).toBits.toUInt64 := by decide +kernel

/-! ## the shift/scale arithmetic of the transform stacks on doubles

`AFModel/DblArith.lean` computes IEEE `+ − × ÷` (round to nearest even) on `Dbl` exactly; with them the
arithmetic around the special functions is inside the logic: `argD u = 1 - 2.0 * (1.0 - u)` (what
`NormalMessage.value_for` hands to `erfinv`), `rawGaussianD = mean + (sigma * sqrt(2) * inv)`,
`rawUniformD = t * (U - L) + L`. They are compared bit for bit with Python's float arithmetic and with
`message.value_for` (given scipy's intermediate values) on every run. What remains a hypothesis is only
that scipy's `erfinv` (on `[-1, 1]`) and `ndtr` are non-decreasing. -/

/-- `u ↦ 1 - 2.0 * (1.0 - u)` is non-decreasing on the unit interval of doubles and maps it into `[-1, 1]`
(so `erfinv` is only ever called inside its domain). -/
theorem argD_monotone (u v : Dbl) (hu0 : Dbl.zero ≤ u) (huv : u ≤ v) (hv1 : v ≤ Dbl.one) :
    argD u ≤ argD v ∧ Dbl.neg' Dbl.one ≤ argD u ∧ argD v ≤ Dbl.one := by
  have f1 : Dbl.one.isFinite = true := by decide +kernel
  have t2 : Dbl.two.mag < infMag := by decide +kernel
  have t0 : 0 < Dbl.two.mag := by decide +kernel
  have tn : Dbl.two.neg = false := rfl
  have hu1 : u ≤ Dbl.one := Dbl.le_trans _ _ _ huv hv1
  have hv0 : Dbl.zero ≤ v := Dbl.le_trans _ _ _ hu0 huv
  -- s = 1.0 - x
  have s_anti := Dbl.add_mono_right Dbl.one _ _ f1 (Dbl.neg_anti u v huv)
  have s_hi := Dbl.add_mono_right Dbl.one _ _ f1 (Dbl.neg_anti Dbl.zero u hu0)
  have s_lo := Dbl.add_mono_right Dbl.one _ _ f1 (Dbl.neg_anti v Dbl.one hv1)
  have e1 : Dbl.add Dbl.one (Dbl.neg' Dbl.zero) = Dbl.one := by decide +kernel
  have e0 : Dbl.add Dbl.one (Dbl.neg' Dbl.one) = Dbl.zero := by decide +kernel
  rw [e1] at s_hi
  rw [e0] at s_lo
  -- m = 2.0 * s
  have m_anti := Dbl.mul_pos_left_mono Dbl.two _ _ t2 t0 tn s_anti
  have m_hi := Dbl.mul_pos_left_mono Dbl.two _ _ t2 t0 tn s_hi
  have m_lo := Dbl.mul_pos_left_mono Dbl.two _ _ t2 t0 tn s_lo
  have e2 : Dbl.mul Dbl.two Dbl.one = Dbl.two := by decide +kernel
  have e3 : Dbl.mul Dbl.two Dbl.zero = Dbl.zero := by decide +kernel
  rw [e2] at m_hi
  rw [e3] at m_lo
  -- 1 - m
  have r := Dbl.add_mono_right Dbl.one _ _ f1 (Dbl.neg_anti _ _ m_anti)
  have r_lo := Dbl.add_mono_right Dbl.one _ _ f1 (Dbl.neg_anti _ _ m_hi)
  have r_hi := Dbl.add_mono_right Dbl.one _ _ f1 (Dbl.neg_anti _ _ m_lo)
  have e4 : Dbl.add Dbl.one (Dbl.neg' Dbl.two) = Dbl.neg' Dbl.one := by decide +kernel
  rw [e4] at r_lo
  rw [e1] at r_hi
  exact ⟨r, r_lo, r_hi⟩

/-- `mean + (sigma * sqrt(2) * inv)` is non-decreasing in `inv` (±inf included), for a finite mean and a
finite positive `sigma * sqrt(2)`. -/
theorem rawGaussianD_monotone (mean sigma inv inv2 : Dbl) (hm : mean.isFinite = true)
    (hc : (Dbl.mul sigma Dbl.sqrt2).isFinite = true) (hc0 : 0 < (Dbl.mul sigma Dbl.sqrt2).mag)
    (hcn : (Dbl.mul sigma Dbl.sqrt2).neg = false) (h : inv ≤ inv2) :
    rawGaussianD mean sigma inv ≤ rawGaussianD mean sigma inv2 := by
  unfold rawGaussianD
  exact Dbl.add_mono_right mean _ _ hm
    (Dbl.mul_pos_left_mono _ inv inv2 ((Dbl.finite_iff _).mp hc) hc0 hcn h)

/-- `t * (U - L) + L` is non-decreasing in `t` for finite limits `L < U` whose difference does not
overflow (`U - L > 0` is proved, not assumed: distinct doubles have a non-zero difference). -/
theorem rawUniformD_monotone (L U t t2 : Dbl) (hL : L.isFinite = true) (hU : U.isFinite = true)
    (hLU : L < U) (hw : (Dbl.sub U L).isFinite = true) (h : t ≤ t2) :
    rawUniformD t L U ≤ rawUniformD t2 L U := by
  obtain ⟨wn, w0⟩ := Dbl.sub_pos L U hL hU hLU
  unfold rawUniformD
  exact Dbl.add_mono_left _ _ L hL
    (Dbl.mul_pos_right_mono _ t t2 ((Dbl.finite_iff _).mp hw) w0 wn h)

/-- `GaussianPrior.value_for` on doubles, end to end (argument arithmetic → `erfinv` → mean/sigma
arithmetic → limit gate): non-decreasing in the unit value on `[0, 1]`, the only hypothesis being that
scipy's `erfinv` is non-decreasing on `[-1, 1]`. -/
theorem gaussian_value_for_monotone_on_doubles (erfinv : Dbl → Dbl)
    (herf : ∀ x y, Dbl.neg' Dbl.one ≤ x → x ≤ y → y ≤ Dbl.one → erfinv x ≤ erfinv y)
    (mean sigma L U : Dbl) (hm : mean.isFinite = true)
    (hc : (Dbl.mul sigma Dbl.sqrt2).isFinite = true) (hc0 : 0 < (Dbl.mul sigma Dbl.sqrt2).mag)
    (hcn : (Dbl.mul sigma Dbl.sqrt2).neg = false)
    (ignore : Bool) (places : Nat) (u v a b : Dbl) (hu0 : Dbl.zero ≤ u) (huv : u ≤ v) (hv1 : v ≤ Dbl.one)
    (ha : finishD false ignore places L U (rawGaussianD mean sigma (erfinv (argD u))) = .ok a)
    (hb : finishD false ignore places L U (rawGaussianD mean sigma (erfinv (argD v))) = .ok b) : a ≤ b := by
  obtain ⟨h1, h2, h3⟩ := argD_monotone u v hu0 huv hv1
  have hz := herf _ _ h2 h1 h3
  exact finishD_monotone false ignore places L U _ _ a b
    (rawGaussianD_monotone mean sigma _ _ hm hc hc0 hcn hz) ha hb

/-- `UniformPrior.value_for` on doubles, end to end (`NormalMessage(0, 1).value_for` → `ndtr` →
`t * (U - L) + L` → limit gate → `round` → clamp): non-decreasing in the unit value on `[0, 1]`, the only
hypotheses being that scipy's `erfinv` (on `[-1, 1]`) and `ndtr` are non-decreasing. -/
theorem uniform_value_for_monotone_on_doubles (erfinv ndtr : Dbl → Dbl)
    (herf : ∀ x y, Dbl.neg' Dbl.one ≤ x → x ≤ y → y ≤ Dbl.one → erfinv x ≤ erfinv y)
    (hndtr : ∀ x y, x ≤ y → ndtr x ≤ ndtr y)
    (L U : Dbl) (hL : L.isFinite = true) (hU : U.isFinite = true) (hLU : L < U)
    (hw : (Dbl.sub U L).isFinite = true)
    (ignore : Bool) (places : Nat) (u v a b : Dbl) (hu0 : Dbl.zero ≤ u) (huv : u ≤ v) (hv1 : v ≤ Dbl.one)
    (ha : finishD true ignore places L U
      (rawUniformD (ndtr (rawGaussianD Dbl.zero Dbl.one (erfinv (argD u)))) L U) = .ok a)
    (hb : finishD true ignore places L U
      (rawUniformD (ndtr (rawGaussianD Dbl.zero Dbl.one (erfinv (argD v)))) L U) = .ok b) : a ≤ b := by
  obtain ⟨h1, h2, h3⟩ := argD_monotone u v hu0 huv hv1
  have hz := herf _ _ h2 h1 h3
  have hg := rawGaussianD_monotone Dbl.zero Dbl.one _ _ (by decide +kernel) (by decide +kernel)
    (by decide +kernel) (by decide +kernel) hz
  exact finishD_monotone true ignore places L U _ _ a b
    (rawUniformD_monotone L U _ _ hL hU hLU hw (hndtr _ _ hg)) ha hb

/-- `LogGaussianPrior.value_for` on doubles, end to end: non-decreasing in the unit value on `[0, 1]` given
that scipy's `erfinv` (on `[-1, 1]`) and numpy's `exp` are non-decreasing. -/
theorem logGaussian_value_for_monotone_on_doubles (erfinv exp : Dbl → Dbl)
    (herf : ∀ x y, Dbl.neg' Dbl.one ≤ x → x ≤ y → y ≤ Dbl.one → erfinv x ≤ erfinv y)
    (hexp : ∀ x y, x ≤ y → exp x ≤ exp y)
    (mean sigma L U : Dbl) (hm : mean.isFinite = true)
    (hc : (Dbl.mul sigma Dbl.sqrt2).isFinite = true) (hc0 : 0 < (Dbl.mul sigma Dbl.sqrt2).mag)
    (hcn : (Dbl.mul sigma Dbl.sqrt2).neg = false)
    (ignore : Bool) (places : Nat) (u v a b : Dbl) (hu0 : Dbl.zero ≤ u) (huv : u ≤ v) (hv1 : v ≤ Dbl.one)
    (ha : finishD false ignore places L U (exp (rawGaussianD mean sigma (erfinv (argD u)))) = .ok a)
    (hb : finishD false ignore places L U (exp (rawGaussianD mean sigma (erfinv (argD v)))) = .ok b) :
    a ≤ b := by
  obtain ⟨h1, h2, h3⟩ := argD_monotone u v hu0 huv hv1
  have hz := herf _ _ h2 h1 h3
  exact finishD_monotone false ignore places L U _ _ a b
    (hexp _ _ (rawGaussianD_monotone mean sigma _ _ hm hc hc0 hcn hz)) ha hb

/-- `LogUniformPrior.value_for` on doubles, end to end (`… → ndtr → t * scale + shift → 10 ** x → gate`,
`scale = log10(U / L)`, `shift = log10 L` as numpy computed them in the constructor): non-decreasing in the
unit value on `[0, 1]` for a finite positive scale and a finite shift, given that `erfinv`, `ndtr` and
`10 ** x` are non-decreasing. (A ratio `U / L` that overflows makes the scale infinite - known finding
`C02-loguniform-ratio-overflow` - and is excluded by `hs`.) -/
theorem logUniform_value_for_monotone_on_doubles (erfinv ndtr pow10 : Dbl → Dbl)
    (herf : ∀ x y, Dbl.neg' Dbl.one ≤ x → x ≤ y → y ≤ Dbl.one → erfinv x ≤ erfinv y)
    (hndtr : ∀ x y, x ≤ y → ndtr x ≤ ndtr y) (hpow : ∀ x y, x ≤ y → pow10 x ≤ pow10 y)
    (scale shift L U : Dbl) (hs : scale.isFinite = true) (hs0 : 0 < scale.mag) (hsn : scale.neg = false)
    (hsh : shift.isFinite = true)
    (ignore : Bool) (places : Nat) (u v a b : Dbl) (hu0 : Dbl.zero ≤ u) (huv : u ≤ v) (hv1 : v ≤ Dbl.one)
    (ha : finishD false ignore places L U (pow10 (Dbl.add (Dbl.mul
      (ndtr (rawGaussianD Dbl.zero Dbl.one (erfinv (argD u)))) scale) shift)) = .ok a)
    (hb : finishD false ignore places L U (pow10 (Dbl.add (Dbl.mul
      (ndtr (rawGaussianD Dbl.zero Dbl.one (erfinv (argD v)))) scale) shift)) = .ok b) : a ≤ b := by
  obtain ⟨h1, h2, h3⟩ := argD_monotone u v hu0 huv hv1
  have hz := herf _ _ h2 h1 h3
  have hg := rawGaussianD_monotone Dbl.zero Dbl.one _ _ (by decide +kernel) (by decide +kernel)
    (by decide +kernel) (by decide +kernel) hz
  have hm := Dbl.mul_pos_right_mono scale _ _ ((Dbl.finite_iff _).mp hs) hs0 hsn (hndtr _ _ hg)
  exact finishD_monotone false ignore places L U _ _ a b
    (hpow _ _ (Dbl.add_mono_left _ _ shift hsh hm)) ha hb

/-- Conversion to the nearest double fixes the doubles: the exact value of a finite double converts back to
its own bit pattern (so `x + 0`, `x * 1`, … introduce no error in the model, as in IEEE arithmetic). -/
theorem double_conversion_fixes_doubles (m : Nat) (h : m < infMag) :
    nearestBits (Dbl.magVal m) (2 ^ 1074) = m :=
  Dbl.nearestBits_magVal m h

/-- The lower limit never trips for the uniform prior on doubles: for every `t ≥ 0` (the range of `ndtr`)
`t * (U - L) + L ≥ L`. -/
theorem uniform_lower_end_in_limits_on_doubles (L U t : Dbl) (hL : L.isFinite = true)
    (hU : U.isFinite = true) (hLU : L < U) (hw : (Dbl.sub U L).isFinite = true) (ht : Dbl.zero ≤ t) :
    L ≤ rawUniformD t L U := by
  obtain ⟨wn, w0⟩ := Dbl.sub_pos L U hL hU hLU
  have hwm := (Dbl.finite_iff _).mp hw
  have h1 := Dbl.mul_pos_right_mono _ Dbl.zero t hwm w0 wn ht
  have e : Dbl.mul Dbl.zero (Dbl.sub U L) = Dbl.zero := by
    rw [Dbl.mul_pos_right_form _ Dbl.zero hwm w0 wn (by decide +kernel)]
    have := (Dbl.mulMag_spec (Dbl.sub U L).mag).2.1
    show (⟨false, Dbl.mulMag (Dbl.sub U L).mag 0⟩ : Dbl) = ⟨false, 0⟩
    rw [this]
  rw [e] at h1
  have h2 := Dbl.add_mono_left _ _ L hL h1
  have k : (Dbl.add Dbl.zero L).key = L.key := by
    rw [Dbl.add_comm]; exact Dbl.add_zero_key L hL
  have nL : L.isNaN = false := (Dbl.isNaN_false_iff L).mpr (by have := (Dbl.finite_iff L).mp hL; omega)
  have h3 : L ≤ Dbl.add Dbl.zero L := ⟨nL, h2.1, by rw [k]; exact Int.le_refl _⟩
  exact Dbl.le_trans _ _ _ h3 h2

/-- `-534.9102058632687`, `-236.83708131075005` -/
def eL : Dbl := Dbl.ofBits 0xC080B7481A02FAEF
def eU : Dbl := Dbl.ofBits 0xC06D9AC95EBEB875

/-- The upper end is different (unchanged code, recorded as known finding `C16-prior-unit-end-outside-limits`, root
cause here): at `t = 1` the arithmetic `1 * (U - L) + L` can land one ulp above `U`, so
`UniformPrior(-534.9102058632687, -236.83708131075005).value_for(1.0)` raises the limit exception instead of
returning the upper limit - evaluated in the exact IEEE model. The property allows the exception; an
in-limits theorem for the upper end on doubles is therefore not available. -/
theorem uniform_upper_end_limit_witness :
    eL < eU ∧ (Dbl.sub eU eL).isFinite = true ∧ eU < rawUniformD Dbl.one eL eU ∧
    finishD true false 14 eL eU (rawUniformD Dbl.one eL eU) = .limit := by
  decide +kernel

/-- `Prior.random` on doubles: the unit value it maps (`random.uniform(max(lo, a), min(hi, b))`, i.e.
`x + (y - x) * r` in IEEE arithmetic) is never below the requested lower unit limit `lo` nor below the
prior's lower unit limit `a`, for unit limits and requested interval inside `[0, 1]` that meet, and every
`r ∈ [0, 1]`. (The upper end is not guaranteed by `random.uniform`, as its documentation says.) -/
theorem random_unit_not_below_lower_on_doubles (lo hi a b r : Dbl)
    (h0lo : Dbl.zero ≤ lo) (h0a : Dbl.zero ≤ a) (hb1 : b ≤ Dbl.one) (hhi1 : hi ≤ Dbl.one)
    (hab : a ≤ b) (hlohi : lo ≤ hi) (hlob : lo ≤ b) (hahi : a ≤ hi)
    (hr0 : Dbl.zero ≤ r) (hr1 : r ≤ Dbl.one) :
    lo ≤ randomUnitD lo hi a b r ∧ a ≤ randomUnitD lo hi a b r := by
  have f0 : Dbl.zero.isFinite = true := by decide +kernel
  have f1 : Dbl.one.isFinite = true := by decide +kernel
  have e1 : Dbl.add Dbl.one (Dbl.neg' Dbl.zero) = Dbl.one := by decide +kernel
  have hr := Dbl.finite_of_between r _ _ hr0 hr1 f0 f1
  -- the core: for x ≤ y inside [0, 1]
  have core : ∀ x y : Dbl, Dbl.zero ≤ x → x ≤ y → y ≤ Dbl.one →
      x ≤ Dbl.add x (Dbl.mul (Dbl.sub y x) r) := by
    intro x y h0x hxy hy1
    have fx := Dbl.finite_of_between x _ _ h0x (Dbl.le_trans _ _ _ hxy hy1) f0 f1
    have d0 := Dbl.sub_nonneg x y fx hxy
    have d1 : Dbl.sub y x ≤ Dbl.one := by
      have s1 := Dbl.add_mono_left y Dbl.one (Dbl.neg' x) fx hy1
      have s2 := Dbl.add_mono_right Dbl.one _ _ f1 (Dbl.neg_anti _ _ h0x)
      rw [e1] at s2
      exact Dbl.le_trans _ _ _ s1 s2
    exact Dbl.uniform_ge_lower x y r fx hxy (Dbl.finite_of_between _ _ _ d0 d1 f0 f1) hr hr0
  have ha := hab.1
  have hl := hlohi.1
  unfold randomUnitD randomUnit
  simp only [GT.gt]
  have conv : ∀ x y : Dbl, (x + (y - x) * r : Dbl) = Dbl.add x (Dbl.mul (Dbl.sub y x) r) := fun _ _ => rfl
  rw [conv]
  by_cases c1 : lo < a <;> by_cases c2 : b < hi <;> simp only [c1, c2, if_true, if_false]
  · have h := core a b h0a hab hb1
    exact ⟨Dbl.le_trans _ _ _ ⟨c1.1, c1.2.1, by have := c1.2.2; omega⟩ h, h⟩
  · have h := core a hi h0a hahi hhi1
    exact ⟨Dbl.le_trans _ _ _ ⟨c1.1, c1.2.1, by have := c1.2.2; omega⟩ h, h⟩
  · have h := core lo b h0lo hlob hb1
    have hal : a ≤ lo := ⟨ha, hl, by
      have : ¬ (lo.key < a.key) := fun hh => c1 ⟨hl, ha, hh⟩
      omega⟩
    exact ⟨h, Dbl.le_trans _ _ _ hal h⟩
  · have h := core lo hi h0lo hlohi hhi1
    have hal : a ≤ lo := ⟨ha, hl, by
      have : ¬ (lo.key < a.key) := fun hh => c1 ⟨hl, ha, hh⟩
      omega⟩
    exact ⟨h, Dbl.le_trans _ _ _ hal h⟩

/-- non-vacuity: unit limits of a Gaussian prior 2σ .. 3σ above the mean, `r = 0.75` -/
example : Dbl.ofBits 0x3FEF4672B7A7B1E0 ≤ randomUnitD Dbl.zero Dbl.one (Dbl.ofBits 0x3FEF4672B7A7B1E0)
    (Dbl.ofBits 0x3FEFF4F0E2A9C1B4) (Dbl.ofBits 0x3FE8000000000000) :=
  (random_unit_not_below_lower_on_doubles _ _ _ _ _ (by decide +kernel) (by decide +kernel) (by decide +kernel)
    (by decide +kernel) (by decide +kernel) (by decide +kernel) (by decide +kernel) (by decide +kernel)
    (by decide +kernel) (by decide +kernel)).2

/-- the arithmetic the model computes is Python's: `1 - 2.0 * (1.0 - 0.3)`, `0.25 * (0.7 - 0.2) + 0.2`,
`1.5 + (2.0 * sqrt(2) * 0.75)` -/
example : argD (Dbl.ofBits 0x3FD3333333333333) = Dbl.ofBits 0xBFD9999999999998 := by decide +kernel
example : rawUniformD (Dbl.ofBits 0x3FD0000000000000) (Dbl.ofBits 0x3FC999999999999A)
    (Dbl.ofBits 0x3FE6666666666666) = Dbl.ofBits 0x3FD4CCCCCCCCCCCD := by decide +kernel
example : rawGaussianD (Dbl.ofBits 0x3FF8000000000000) (Dbl.ofBits 0x4000000000000000)
    (Dbl.ofBits 0x3FE8000000000000) = Dbl.ofBits 0x400CF876CCDF6CDA := by decide +kernel
/-- non-vacuity: the hypotheses of the end-to-end statement are met (identity in place of the special
functions, `UniformPrior(0.2, 0.7)` at units 0.5 ≤ 0.6), and both values are returned -/
example (a b : Dbl)
    (ha : finishD true false 15 (Dbl.ofBits 0x3FC999999999999A) (Dbl.ofBits 0x3FE6666666666666)
      (rawUniformD (id (rawGaussianD Dbl.zero Dbl.one (id (argD (Dbl.ofBits 0x3FE0000000000000)))))
        (Dbl.ofBits 0x3FC999999999999A) (Dbl.ofBits 0x3FE6666666666666)) = .ok a)
    (hb : finishD true false 15 (Dbl.ofBits 0x3FC999999999999A) (Dbl.ofBits 0x3FE6666666666666)
      (rawUniformD (id (rawGaussianD Dbl.zero Dbl.one (id (argD (Dbl.ofBits 0x3FE3333333333333)))))
        (Dbl.ofBits 0x3FC999999999999A) (Dbl.ofBits 0x3FE6666666666666)) = .ok b) : a ≤ b :=
  uniform_value_for_monotone_on_doubles id id (fun _ _ _ h _ => h) (fun _ _ h => h)
    (Dbl.ofBits 0x3FC999999999999A) (Dbl.ofBits 0x3FE6666666666666) (by decide +kernel) (by decide +kernel)
    (by decide +kernel) (by decide +kernel) false 15 (Dbl.ofBits 0x3FE0000000000000)
    (Dbl.ofBits 0x3FE3333333333333) a b (by decide +kernel) (by decide +kernel) (by decide +kernel) ha hb

example :
    (match finishD true false 15 (Dbl.ofBits 0x3FC999999999999A) (Dbl.ofBits 0x3FE6666666666666)
      (rawUniformD (rawGaussianD Dbl.zero Dbl.one (argD (Dbl.ofBits 0x3FE0000000000000)))
        (Dbl.ofBits 0x3FC999999999999A) (Dbl.ofBits 0x3FE6666666666666)) with
      | .ok v => v.toBits == 0x3FC999999999999A | .limit => false) = true ∧
    (match finishD true false 15 (Dbl.ofBits 0x3FC999999999999A) (Dbl.ofBits 0x3FE6666666666666)
      (rawUniformD (rawGaussianD Dbl.zero Dbl.one (argD (Dbl.ofBits 0x3FE3333333333333)))
        (Dbl.ofBits 0x3FC999999999999A) (Dbl.ofBits 0x3FE6666666666666)) with
      | .ok _ => true | .limit => false) = true := by decide +kernel

end AF.C02
