import AFProofs.Lemmas.Migrate
import AFProofs.Lemmas.MigrateRows
import AFModel.Generated.C19
import AFModel.MigrateFeat

/-!
# C19 — opening an older database migrates it exactly once to the current schema

Subject: `AF.Migrate.session` / `runHistory` / `interrupted` (`AFModel/Migrate.lean`), the functions the driver
executes, instantiated by the driver with the step table `Generated.table` and the mapped schema
`Generated.orm` that `harness/tables_c19.py` regenerates from the repository before every build.

* Part 1 is generic: **any** step list with distinct step ids and distinct revision ids (`Table.WF`), **any**
  schema, **any** content of the `revision` table, **any** number of opens — behaviour of the repaired code
  (`Cfg.fixed`).
* Part 2 is about the concrete, regenerated table (`decide`): the hypotheses of part 1 hold for it, it extends
  the pinned history, and from every historic database shape it reaches the mapped schema with nothing stale
  left, also after an interrupted open.
* Part 3: the pinned commit (`Cfg.pinned`, first 8 steps) violates the property — refutation witnesses.
-/

namespace AF.C19
open AF.Migrate

/-! ## Part 1 — every step list -/

/-- A database stamped with the revision made of the first `k+1` steps still needs exactly the steps after
them (`Migrator.get_steps` compares prefix hashes, then filters by step id). -/
theorem get_steps_suffix (tbl : Table) (hw : tbl.WF) (k : Nat) (hk : k < tbl.revIds.length) :
    getSteps tbl (some tbl.revIds[k]) = tbl.steps.drop (k + 1) :=
  getSteps_stamped tbl hw k hk

/-- No stamp (no table, empty table, `NULL`) or an unknown stamp: every step is outstanding. -/
theorem get_steps_all_when_unstamped (tbl : Table) :
    getSteps tbl none = tbl.steps ∧ ∀ rid, rid ∉ tbl.revIds → getSteps tbl (some rid) = tbl.steps :=
  ⟨rfl, fun rid h => getSteps_unknown tbl rid h⟩

/-- **Exactly the missing steps, each once and in order.** Opening a database stamped with an earlier
revision attempts exactly the statements of the steps after that revision — once, in order — and, whether or
not the caller commits, the file afterwards holds their effect and the stamp of the current revision. -/
theorem migrate_from_prefix (tbl : Table) (orm : Schema) (hw : tbl.WF) (k : Nat)
    (hk : k + 1 < tbl.revIds.length) (s : Store) (hs : s.rev = .row (some (tbl.revIds[k]'(by omega))))
    (c : Bool) :
    (session Cfg.fixed tbl orm (some s) c).2.map (·.1) = stmtsOf (tbl.steps.drop (k + 1)) ∧
    (session Cfg.fixed tbl orm (some s) c).1.schema = schemaAfter s.schema (tbl.steps.drop (k + 1)) ∧
    (session Cfg.fixed tbl orm (some s) c).1.rev = .row (some (latestId tbl)) := by
  have hlen := hw.len
  have hne : tbl.steps ≠ [] := by
    intro h
    have : tbl.revIds.length = 0 := by rw [hlen, h]; rfl
    omega
  have hg : getSteps tbl (ridOf s.rev) = tbl.steps.drop (k + 1) := by
    rw [hs]; exact getSteps_stamped tbl hw k (by omega)
  have hnonempty : (tbl.steps.drop (k + 1)).isEmpty = false := by
    cases hd : tbl.steps.drop (k + 1) with
    | nil => have := List.drop_eq_nil_iff.mp hd; omega
    | cons _ _ => rfl
  rw [session_fixed tbl orm hne s c, hg]
  simp only [hnonempty, Bool.false_eq_true, if_false]
  and_intros <;> first | exact runStmts_attempted _ _ | rfl | trivial

/-- A database without a usable stamp: every statement is attempted once, in order (the ones whose effect is
already there fail and are skipped by SQLite), and the database is stamped. -/
theorem migrate_unstamped (tbl : Table) (orm : Schema) (hne : tbl.steps ≠ []) (s : Store)
    (hs : ridOf s.rev = none ∨ ∃ rid, ridOf s.rev = some rid ∧ rid ∉ tbl.revIds) (c : Bool) :
    (session Cfg.fixed tbl orm (some s) c).2.map (·.1) = stmtsOf tbl.steps ∧
    (session Cfg.fixed tbl orm (some s) c).1.schema = schemaAfter s.schema tbl.steps ∧
    (session Cfg.fixed tbl orm (some s) c).1.rev = .row (some (latestId tbl)) := by
  have hg : getSteps tbl (ridOf s.rev) = tbl.steps := by
    rcases hs with h | ⟨rid, h, hnot⟩
    · rw [h]; rfl
    · rw [h]; exact getSteps_unknown tbl rid hnot
  have hnonempty : tbl.steps.isEmpty = false := by
    cases hd : tbl.steps with
    | nil => exact absurd hd hne
    | cons _ _ => rfl
  rw [session_fixed tbl orm hne s c, hg]
  simp only [hnonempty, Bool.false_eq_true, if_false]
  and_intros <;> first | exact runStmts_attempted _ _ | rfl | trivial

/-- **A database stamped with the current revision is not touched.** -/
theorem open_current_noop (tbl : Table) (orm : Schema) (hw : tbl.WF) (hne : tbl.steps ≠ []) (s : Store)
    (hs : s.rev = .row (some (latestId tbl))) (c : Bool) :
    session Cfg.fixed tbl orm (some s) c = (s, []) := by
  rw [session_fixed tbl orm hne s c, hs]
  simp [ridOf, getSteps_latest tbl hw hne]

/-- After any open of any database the file is stamped with the current revision. -/
theorem every_open_ends_current (tbl : Table) (orm : Schema) (hw : tbl.WF) (hne : tbl.steps ≠ [])
    (file : Option Store) (c : Bool) :
    (session Cfg.fixed tbl orm file c).1.rev = .row (some (latestId tbl)) := by
  cases file with
  | none => rw [session_fixed_fresh]
  | some s =>
    rw [session_fixed tbl orm hne s c]
    by_cases h : (getSteps tbl (ridOf s.rev)).isEmpty
    · simp only [h, if_true]
      have hr := getSteps_nil tbl hw hne (ridOf s.rev) (List.isEmpty_iff.mp h)
      cases hrev : s.rev with
      | noTable => simp [hrev, ridOf] at hr
      | empty => simp [hrev, ridOf] at hr
      | row r => simp [hrev, ridOf] at hr; rw [hr]
    · simp [h]

/-- **Fixed point after the first open**: whatever the database (any schema, any stamp, or no file at all)
and whatever the callers do (commit or not), the second open attempts nothing and changes nothing. -/
theorem open_fixed_point (tbl : Table) (orm : Schema) (hw : tbl.WF) (hne : tbl.steps ≠ [])
    (file : Option Store) (c₁ c₂ : Bool) :
    session Cfg.fixed tbl orm (some (session Cfg.fixed tbl orm file c₁).1) c₂
      = ((session Cfg.fixed tbl orm file c₁).1, []) :=
  open_current_noop tbl orm hw hne _ (every_open_ends_current tbl orm hw hne file c₁) c₂

/-- … and so does every later one: any number of further opens. -/
theorem reopen_fixed_point (tbl : Table) (orm : Schema) (hw : tbl.WF) (hne : tbl.steps ≠ [])
    (file : Option Store) (c : Bool) (n : Nat) :
    reopen Cfg.fixed tbl orm (session Cfg.fixed tbl orm file c).1 n = (session Cfg.fixed tbl orm file c).1 := by
  induction n with
  | zero => rfl
  | succ n ih =>
    simp only [reopen]
    rw [open_fixed_point tbl orm hw hne file c false]
    exact ih

/-- the same for arbitrary histories `open [commit] close`: every use after the first is `(same file, no
statement)` -/
theorem history_fixed_point (tbl : Table) (orm : Schema) (hw : tbl.WF) (hne : tbl.steps ≠ [])
    (file : Option Store) (c : Bool) (h : List Bool) :
    ∀ x ∈ (runHistory Cfg.fixed tbl orm file (c :: h)).tail, x = ((session Cfg.fixed tbl orm file c).1, []) := by
  simp only [runHistory, List.tail_cons]
  have key : ∀ (s : Store), s.rev = .row (some (latestId tbl)) →
      ∀ x ∈ runHistory Cfg.fixed tbl orm (some s) h, x = (s, []) := by
    induction h with
    | nil => intro s _ x hx; simp [runHistory] at hx
    | cons c' rest ih =>
      intro s hs x hx
      simp only [runHistory, open_current_noop tbl orm hw hne s hs c', List.mem_cons] at hx
      rcases hx with hx | hx
      · exact hx
      · exact ih s hs x hx
  exact key _ (every_open_ends_current tbl orm hw hne file c)

/-- **A new database is created at the current revision and stamped**, so that its second open is already
a no-op. -/
theorem fresh_db_stamped (tbl : Table) (orm : Schema) (c : Bool) :
    session Cfg.fixed tbl orm none c = ({ schema := orm, rev := .row (some (latestId tbl)) }, []) :=
  session_fixed_fresh tbl orm c

/-- **Existing data stays readable**: a migration (any statements, from any schema) keeps every column that
no statement renames away or drops; tables are never removed. -/
theorem readable_after (s : Schema) (l : List Stmt) (t c : String)
    (hc : hasCol s t c = true) (hr : ∀ st ∈ l, st.removes t c = false) :
    hasCol (runStmts s l).1 t c = true :=
  hasCol_runStmts s l t c hc hr

/-- An interrupted open (process killed after `j` statements) never stamps, so the next open finishes the
job: afterwards the file is stamped current, and (previous theorems) stays fixed. -/
theorem interrupted_open_recovers (tbl : Table) (orm : Schema) (hw : tbl.WF) (hne : tbl.steps ≠ [])
    (s : Store) (j : Nat) (c : Bool) :
    (session Cfg.fixed tbl orm (some (interrupted tbl s j).1) c).1.rev = .row (some (latestId tbl)) :=
  every_open_ends_current tbl orm hw hne _ c

/-- the interruption itself leaves the stamp as it was (or an empty `revision` table if there was none): it
can not make a half-migrated database look current -/
theorem interrupted_keeps_stamp (tbl : Table) (s : Store) (j : Nat) :
    ridOf (interrupted tbl s j).1.rev = ridOf s.rev := by
  obtain ⟨sch, rev⟩ := s
  cases rev <;>
    simp [interrupted, readRevision, initRevisionTable, Db.work, Db.ddl, Db.dml, Db.close, ridOf]

/-! ## Part 2 — the step list and the mapping of the repository, as regenerated for this build -/

open Generated

/-- step ids are distinct, revision (prefix) ids are distinct, one revision per step -/
theorem table_wf : table.WF := by decide

theorem steps_nonempty : table.steps ≠ [] := by decide

/-- the step list is append-only with respect to the pinned history: every revision id a database in the
field may carry is still the id of the same prefix -/
theorem history_is_prefix : revIds.take historyRevIds.length = historyRevIds := by decide

/-- no step renames away or drops a column the mapped classes use: with `readable_after`, whatever mapped
column a database holds before an open it holds afterwards -/
theorem orm_columns_never_removed :
    ∀ tc ∈ orm.flatMap (fun (t, cs) => cs.map fun c => (t, c)),
      ∀ st ∈ stmtsOf steps, st.removes tc.1 tc.2 = false := by decide

/-- **steps cover the mapping**, from the oldest schema: everything the mapped classes use exists after the
migration, and nothing stale is left -/
theorem steps_cover_orm : isCurrent (schemaAfter base steps) orm steps = true := by decide

/-- every historic shape, stamped with its pinned revision `k`: the missing steps `k+1..` bring it to the
current schema (naming, JSON/array/HDU tables, latent-sample and named-instance columns all present) -/
theorem stamped_variants_reach_current :
    ∀ v ∈ variants, isCurrent (schemaAfter v.2.2 (steps.drop v.2.1)) orm steps = true := by decide

/-- every historic shape without usable stamp: attempting every step gives the *same* schema as applying only
the missing ones (in particular no junk column), hence the current one -/
theorem unstamped_variants_same_outcome :
    ∀ v ∈ variants, schemaAfter v.2.2 steps = schemaAfter v.2.2 (steps.drop v.2.1) := by decide

/-- every historic shape stamped with its pinned revision, first open interrupted after `j` statements, then
opened again: current schema, nothing stale -/
theorem interrupted_stamped_variants_reach_current :
    ∀ v ∈ variants, ∀ j ∈ List.range (stmtsOf steps).length.succ,
      isCurrent (schemaAfter (runStmts v.2.2 ((stmtsOf (steps.drop v.2.1)).take j)).1 (steps.drop v.2.1))
        orm steps = true := by
  decide +kernel

/-- the same without usable stamp (every step attempted, twice) -/
theorem interrupted_unstamped_variants_reach_current :
    ∀ v ∈ variants, ∀ j ∈ List.range (stmtsOf steps).length.succ,
      isCurrent (schemaAfter (runStmts v.2.2 ((stmtsOf steps).take j)).1 steps) orm steps = true := by
  decide +kernel

/-! ## Part 3 — the pinned commit does not have the property -/

/-- the step list of the pinned commit -/
def pinnedTable : Table := ⟨steps.take 8, revIds.take 8⟩

/-- **never stamped**: with the pinned code a database whose `revision` table is empty (the state the pinned
code itself leaves behind) stays unstamped whatever the caller does, and every statement is attempted again
at every open — for every step list and schema. -/
theorem never_stamped_refuted (tbl : Table) (orm : Schema) (hne : tbl.steps ≠ []) (s : Store)
    (hs : s.rev = .empty) (c : Bool) :
    (session Cfg.pinned tbl orm (some s) c).1.rev = .empty ∧
    (session Cfg.pinned tbl orm (some s) c).2.map (·.1) = stmtsOf tbl.steps := by
  obtain ⟨sch, rev⟩ := s
  simp only at hs
  subst hs
  have h1 : (getSteps tbl none).isEmpty = false := by
    cases hd : tbl.steps with
    | nil => exact absurd hd hne
    | cons _ _ => simp [getSteps, hd]
  cases c <;>
    simp [session, openDatabase, migrate, readRevision, writeRevision, setRow, Db.work, Db.ddl, Db.dml,
      Db.commit, Db.close, Cfg.pinned, h1, runStmts_attempted] <;> rfl

/-- the pinned code does not stamp (or even commit) the migration of a database without `revision` table
unless the caller commits: nothing but an empty `revision` table is durable -/
theorem pinned_open_leaves_nothing (tbl : Table) (orm : Schema) (hne : tbl.steps ≠ []) (sch : Schema) :
    (session Cfg.pinned tbl orm (some { schema := sch, rev := .noTable }) false).1
      = { schema := sch, rev := .empty } := by
  have h1 : (getSteps tbl none).isEmpty = false := by
    cases hd : tbl.steps with
    | nil => exact absurd hd hne
    | cons _ _ => simp [getSteps, hd]
  simp [session, openDatabase, migrate, readRevision, initRevisionTable, writeRevision, setRow, Db.work,
    Db.ddl, Db.dml, Db.close, Cfg.pinned, h1]

/-- **junk column**: a database created by the pinned code's own `create_all` (never stamped) gets the column
`object.latent_variables_for_id` added when it is opened again -/
theorem junk_column_refuted :
    ∃ v ∈ variants, v.1 = "F" ∧
      hasCol (session Cfg.pinned pinnedTable orm (some { schema := v.2.2, rev := .empty }) false).1.schema
        "object" "latent_variables_for_id" = true := by decide

/-- **steps do not cover the mapping** at the pinned commit: migrating the oldest schema with the 8 pinned
steps leaves `named_instance` without the mapped column `instance_id` -/
theorem steps_cover_orm_refuted_at_pinned :
    covers (schemaAfter base pinnedTable.steps) orm = false ∧
    hasCol (schemaAfter base pinnedTable.steps) "named_instance" "instance_id" = false := by decide

/-- a new database is not stamped by the pinned code -/
theorem fresh_db_unstamped_at_pinned (tbl : Table) (orm : Schema) (c : Bool) :
    (session Cfg.pinned tbl orm none c).1.rev = .noTable := by
  cases c <;> simp [session, openDatabase, Db.commit, Db.close, Cfg.pinned]

/-! ## non-vacuity -/

/-- `migrate_from_prefix` applies to a concrete historic database: shape `A3` stamped with revision 3 -/
example : ∃ v ∈ variants, v.1 = "A3" ∧ 2 + 1 < table.revIds.length ∧
    (session Cfg.fixed table orm (some { schema := v.2.2, rev := .row (some (table.revIds[2]'(by decide))) }) false).2.length = 7 := by
  decide

/-- the fixed point is reached from a file that does not exist, too -/
example : (runHistory Cfg.fixed table orm none [false, true, false]).map (·.2) = [[], [], []] := by decide

/-- `never_stamped_refuted` has instances: the oldest schema with an empty `revision` table -/
example : (session Cfg.pinned pinnedTable orm (some { schema := base, rev := .empty }) true).1.rev = .empty := by
  decide

/-! ## Part 4 — row contents (`AFModel/MigrateRows.lean`: `sessionR` / `runHistoryR` / `interruptedR`)

Tables carry their rows (finite maps column ↦ value, `none` = `NULL`). Generic in the step list, the schema, the
rows, the revision-table state and the number of opens. -/

/-- **the row-level model refines the name-level one**: forgetting the rows of any history of opens gives
exactly `runHistory` — so every theorem of parts 1–3 holds for the model with rows (any `Cfg`). -/
theorem rows_model_refines (cfg : Cfg) (tbl : Table) (orm : Schema) (file : Option RStore) (h : List Bool) :
    (runHistoryR cfg tbl orm file h).map (fun x => (x.1.store, x.2))
      = runHistory cfg tbl orm (file.map RStore.store) h :=
  (runHistoryR_proj cfg tbl orm file h).symm

/-- the same for an interrupted open -/
theorem interrupted_rows_model_refines (tbl : Table) (s : RStore) (j : Nat) :
    ((interruptedR tbl s j).1.store, (interruptedR tbl s j).2) = interrupted tbl s.store j :=
  (interruptedR_proj tbl s j).symm

/-- **closed form of the rows**: the statement loop leaves, in every table, the old rows — same number, same
order — each rewritten by the statements that succeeded (`ADD`: `NULL` appended, `RENAME`: key renamed,
`DROP`: entry removed); failed statements and `CREATE TABLE` touch no row. -/
theorem rows_closed_form (d : Data) (l : List Stmt) (t : String) :
    rowsOf (runStmtsR d l).1 t = (rowsOf d t).map (logOnRow t (runStmtsR d l).2) :=
  rowsOf_runStmtsR d l t

/-- a database stamped with the current revision is not touched — no row either -/
theorem open_current_noop_rows (tbl : Table) (orm : Schema) (hw : tbl.WF) (hne : tbl.steps ≠ []) (s : RStore)
    (hs : s.rev = .row (some (latestId tbl))) (c : Bool) :
    sessionR Cfg.fixed tbl orm (some s) c = (s, []) := by
  rw [sessionR_fixed tbl orm hne s c, hs]
  simp [ridOf, getSteps_latest tbl hw hne]

/-- **the revision table holds exactly one row, with the current revision**, after every open of any
database (`Rev.row` is "exactly one row"; `noTable`, `empty` are the other shapes) -/
theorem revision_single_row (tbl : Table) (orm : Schema) (hw : tbl.WF) (hne : tbl.steps ≠ [])
    (file : Option RStore) (c : Bool) :
    (sessionR Cfg.fixed tbl orm file c).1.rev = .row (some (latestId tbl)) := by
  have h := sessionR_proj Cfg.fixed tbl orm file c
  have h2 := every_open_ends_current tbl orm hw hne (file.map RStore.store) c
  rw [h] at h2
  exact h2

/-- **fixed point at row level**: in any history of opens of any database (or of no file), every use after
the first attempts nothing and leaves the file — schema, stamp and every row — exactly as the first left it. -/
theorem rows_fixed_point (tbl : Table) (orm : Schema) (hw : tbl.WF) (hne : tbl.steps ≠ [])
    (file : Option RStore) (c : Bool) (h : List Bool) :
    ∀ x ∈ (runHistoryR Cfg.fixed tbl orm file (c :: h)).tail, x = ((sessionR Cfg.fixed tbl orm file c).1, []) := by
  simp only [runHistoryR, List.tail_cons]
  have key : ∀ (s : RStore), s.rev = .row (some (latestId tbl)) →
      ∀ x ∈ runHistoryR Cfg.fixed tbl orm (some s) h, x = (s, []) := by
    induction h with
    | nil => intro s _ x hx; simp [runHistoryR] at hx
    | cons c' rest ih =>
      intro s hs x hx
      simp only [runHistoryR, open_current_noop_rows tbl orm hw hne s hs c', List.mem_cons] at hx
      rcases hx with hx | hx
      · exact hx
      · exact ih s hs x hx
  exact key _ (revision_single_row tbl orm hw hne file c)

/-- … hence after any history of at least one open the file is what the first open left -/
theorem rows_after_any_history (tbl : Table) (orm : Schema) (hw : tbl.WF) (hne : tbl.steps ≠ [])
    (file : Option RStore) (c : Bool) (h : List Bool) :
    ∀ x ∈ runHistoryR Cfg.fixed tbl orm file (c :: h), x.1 = (sessionR Cfg.fixed tbl orm file c).1 := by
  intro x hx
  have hx' : x = sessionR Cfg.fixed tbl orm file c ∨ x ∈ (runHistoryR Cfg.fixed tbl orm file (c :: h)).tail := by
    simpa [runHistoryR] using hx
  rcases hx' with rfl | hx'
  · rfl
  · rw [rows_fixed_point tbl orm hw hne file c h x hx']

/-- n further opens change no row -/
theorem reopen_rows_fixed_point (tbl : Table) (orm : Schema) (hw : tbl.WF) (hne : tbl.steps ≠ [])
    (file : Option RStore) (c : Bool) (n : Nat) :
    reopenR Cfg.fixed tbl orm (sessionR Cfg.fixed tbl orm file c).1 n = (sessionR Cfg.fixed tbl orm file c).1 := by
  induction n with
  | zero => rfl
  | succ n ih =>
    simp only [reopenR]
    rw [open_current_noop_rows tbl orm hw hne _ (revision_single_row tbl orm hw hne file c) false]
    exact ih

/-- one open of an existing database: its tables hold the old rows, rewritten by one function per table,
which keeps the value of every column that no step renames away or drops -/
theorem session_rows_preserved (tbl : Table) (orm : Schema) (hne : tbl.steps ≠ []) (s : RStore)
    (hd : wfData s.data = true) (t : String) (c0 : Bool) :
    ∃ f : Row → Row, rowsOf (sessionR Cfg.fixed tbl orm (some s) c0).1.data t = (rowsOf s.data t).map f ∧
      ∀ c, (∀ st ∈ stmtsOf tbl.steps, st.removes t c = false) →
        ∀ r ∈ rowsOf s.data t, ∀ v, cellOf r c = some v → cellOf (f r) c = some v := by
  rw [sessionR_fixed tbl orm hne s c0]
  by_cases he : (getSteps tbl (ridOf s.rev)).isEmpty
  · exact ⟨id, by simp [he], fun _ _ _ _ _ hv => hv⟩
  · refine ⟨logOnRow t (runStmtsR s.data (stmtsOf (getSteps tbl (ridOf s.rev)))).2, ?_, ?_⟩
    · simp only [he, Bool.false_eq_true, if_false]
      exact rowsOf_runStmtsR _ _ t
    · intro c hrem r hr v hv
      exact cell_preserved s.data _ t c hd
        (fun st hst => hrem st (stmtsOf_subset tbl _ st hst)) r hr v hv

/-- **existing fits are still readable — row level.** Any database whose rows fit its columns, any stamp, any
history of one or more opens (caller commits or not): at every point of the history every table holds exactly
its old rows, in order, and every old value of every column that no step renames away or drops is unchanged. -/
theorem rows_preserved (tbl : Table) (orm : Schema) (hw : tbl.WF) (hne : tbl.steps ≠ []) (s : RStore)
    (hd : wfData s.data = true) (t : String) (c0 : Bool) (h : List Bool) :
    ∀ x ∈ runHistoryR Cfg.fixed tbl orm (some s) (c0 :: h),
      ∃ f : Row → Row, rowsOf x.1.data t = (rowsOf s.data t).map f ∧
        ∀ c, (∀ st ∈ stmtsOf tbl.steps, st.removes t c = false) →
          ∀ r ∈ rowsOf s.data t, ∀ v, cellOf r c = some v → cellOf (f r) c = some v := by
  intro x hx
  rw [rows_after_any_history tbl orm hw hne (some s) c0 h x hx]
  exact session_rows_preserved tbl orm hne s hd t c0

/-- rows keep fitting their columns through any history of opens -/
theorem rows_stay_wellformed (tbl : Table) (orm : Schema) (hw : tbl.WF) (hne : tbl.steps ≠ [])
    (file : Option RStore) (hd : ∀ s, file = some s → wfData s.data = true) (c0 : Bool) (h : List Bool) :
    ∀ x ∈ runHistoryR Cfg.fixed tbl orm file (c0 :: h), wfData x.1.data = true := by
  intro x hx
  rw [rows_after_any_history tbl orm hw hne file c0 h x hx]
  cases file with
  | none => rw [sessionR_fixed_fresh]; exact wf_emptyData orm
  | some s =>
    rw [sessionR_fixed tbl orm hne s c0]
    split
    · exact hd s rfl
    · exact wf_runStmtsR _ _ (hd s rfl)

/-- **new columns read `NULL` on old rows.** A column the database did not have before, and which is not the
target of a rename, reads `NULL` in every row wherever it exists after any history of opens. -/
theorem new_columns_null (tbl : Table) (orm : Schema) (hw : tbl.WF) (hne : tbl.steps ≠ []) (s : RStore)
    (hd : wfData s.data = true) (t c : String) (hnew : hasCol (schemaOf s.data) t c = false)
    (hren : (t, c) ∉ renameTargets tbl.steps) (c0 : Bool) (h : List Bool) :
    ∀ x ∈ runHistoryR Cfg.fixed tbl orm (some s) (c0 :: h),
      ∀ T, findT x.1.data t = some T → c ∈ T.cols → ∀ r ∈ T.rows, cellOf r c = some none := by
  intro x hx
  rw [rows_after_any_history tbl orm hw hne (some s) c0 h x hx, sessionR_fixed tbl orm hne s c0]
  have h0 := nullAt_of_no_col s.data t c hnew
  split
  · exact h0
  · apply nullAt_runStmtsR s.data _ t c hd _ h0
    intro st hst a e
    apply hren
    have hm := stmtsOf_subset tbl _ st hst
    simp only [renameTargets, List.mem_filterMap]
    exact ⟨st, hm, by rw [e]⟩

/-- a successful `RENAME COLUMN a TO b` moves the values: every row reads under `b` what it held under `a` -/
theorem renamed_column_carries_values (d d' : Data) (t a b : String) (hd : wfData d = true)
    (h : applyStmtR d (.renameColumn t a b) = some d') :
    columnOf d' t b = columnOf d t a :=
  rename_moves_cells d d' t a b hd h

/-- **values follow renames.** One open of any database whose rows fit its columns: the value an old row holds
at column `c` is found afterwards under the name `logTrack` computes from the statements that succeeded — the
same name when no statement touched the column, the new name after `RENAME COLUMN`. (`rows_preserved` is the
case "no step renames away or drops `c`".) -/
theorem values_follow_renames (tbl : Table) (orm : Schema) (hw : tbl.WF) (hne : tbl.steps ≠ []) (s : RStore)
    (hd : wfData s.data = true) (t : String) (c0 : Bool) (h : List Bool) :
    ∀ x ∈ runHistoryR Cfg.fixed tbl orm (some s) (c0 :: h),
      ∃ f : Row → Row, rowsOf x.1.data t = (rowsOf s.data t).map f ∧
        ∀ c c', logTrack t (sessionR Cfg.fixed tbl orm (some s) c0).2 c = some c' →
          ∀ r ∈ rowsOf s.data t, ∀ v, cellOf r c = some v → cellOf (f r) c' = some v := by
  intro x hx
  rw [rows_after_any_history tbl orm hw hne (some s) c0 h x hx, sessionR_fixed tbl orm hne s c0]
  by_cases he : (getSteps tbl (ridOf s.rev)).isEmpty
  · refine ⟨id, by simp [he], ?_⟩
    intro c c' ht r _ v hv
    simp only [he, if_true, logTrack, Option.some.injEq] at ht
    subst ht
    exact hv
  · refine ⟨logOnRow t (runStmtsR s.data (stmtsOf (getSteps tbl (ridOf s.rev)))).2, ?_, ?_⟩
    · simp only [he, Bool.false_eq_true, if_false]
      exact rowsOf_runStmtsR _ _ t
    · intro c c' ht r hr v hv
      simp only [he, Bool.false_eq_true, if_false] at ht
      exact cell_tracked s.data _ t c c' hd r hr v hv ht

/-- the statements attempted (and which of them succeed) do not depend on the rows -/
theorem log_independent_of_rows (cfg : Cfg) (tbl : Table) (orm : Schema) (s : RStore) (c : Bool) :
    (sessionR cfg tbl orm (some s) c).2 = (session cfg tbl orm (some s.store) c).2 := by
  have h := sessionR_proj cfg tbl orm (some s) c
  simp only [Option.map_some] at h
  rw [h]

/-- a database created by `open_database` holds every mapped table, no row, and the stamp -/
theorem fresh_db_no_rows (tbl : Table) (orm : Schema) (c : Bool) :
    sessionR Cfg.fixed tbl orm none c = ({ data := emptyData orm, rev := .row (some (latestId tbl)) }, []) :=
  sessionR_fixed_fresh tbl orm c

/-- **interrupted open, row level.** When the process dies after `j` statements the file holds the old rows
(rewritten by the statements that were durable — none when the open had to create the `revision` table, whose
`INSERT` opened a transaction that is rolled back with everything after it), values of never-removed columns
unchanged, rows still fitting their columns; so `rows_preserved` applies to the opens that follow. -/
theorem interrupted_rows_preserved (tbl : Table) (s : RStore) (hd : wfData s.data = true) (t : String) (j : Nat) :
    wfData (interruptedR tbl s j).1.data = true ∧
    ∃ f : Row → Row, rowsOf (interruptedR tbl s j).1.data t = (rowsOf s.data t).map f ∧
      ∀ c, (∀ st ∈ stmtsOf tbl.steps, st.removes t c = false) →
        ∀ r ∈ rowsOf s.data t, ∀ v, cellOf r c = some v → cellOf (f r) c = some v := by
  obtain ⟨d, rev⟩ := s
  simp only at hd
  cases rev with
  | noTable =>
    refine ⟨by simpa [interruptedR, readRevisionR, initRevisionTableR, RDb.work, RDb.ddl, RDb.dml, RDb.close] using hd,
      id, by simp [interruptedR, readRevisionR, initRevisionTableR, RDb.work, RDb.ddl, RDb.dml, RDb.close],
      fun _ _ _ _ _ hv => hv⟩
  | empty =>
    refine ⟨by simpa [interruptedR, readRevisionR, RDb.work, RDb.ddl, RDb.close] using wf_runStmtsR d _ hd,
      logOnRow t (runStmtsR d ((stmtsOf (getSteps tbl none)).take j)).2,
      by simpa [interruptedR, readRevisionR, RDb.work, RDb.ddl, RDb.close] using rowsOf_runStmtsR d _ t, ?_⟩
    intro c hrem r hr v hv
    exact cell_preserved d _ t c hd
      (fun st hst => hrem st (stmtsOf_subset tbl _ st (List.mem_of_mem_take hst))) r hr v hv
  | row rid =>
    refine ⟨by simpa [interruptedR, readRevisionR, RDb.work, RDb.ddl, RDb.close] using wf_runStmtsR d _ hd,
      logOnRow t (runStmtsR d ((stmtsOf (getSteps tbl rid)).take j)).2,
      by simpa [interruptedR, readRevisionR, RDb.work, RDb.ddl, RDb.close] using rowsOf_runStmtsR d _ t, ?_⟩
    intro c hrem r hr v hv
    exact cell_preserved d _ t c hd
      (fun st hst => hrem st (stmtsOf_subset tbl _ st (List.mem_of_mem_take hst))) r hr v hv

/-- interrupted open: old values are found under the names computed from the statements that were durable -/
theorem interrupted_values_tracked (tbl : Table) (s : RStore) (hd : wfData s.data = true) (t : String) (j : Nat) :
    ∃ f : Row → Row, rowsOf (interruptedR tbl s j).1.data t = (rowsOf s.data t).map f ∧
      ∀ c c', logTrack t (interruptedDurableLog tbl s j) c = some c' →
        ∀ r ∈ rowsOf s.data t, ∀ v, cellOf r c = some v → cellOf (f r) c' = some v := by
  obtain ⟨d, rev⟩ := s
  simp only at hd
  cases rev with
  | noTable =>
    refine ⟨id, by simp [interruptedR, readRevisionR, initRevisionTableR, RDb.work, RDb.ddl, RDb.dml, RDb.close], ?_⟩
    intro c c' ht r _ v hv
    simp only [interruptedDurableLog, logTrack, Option.some.injEq] at ht
    subst ht
    exact hv
  | empty =>
    refine ⟨logOnRow t (runStmtsR d ((stmtsOf (getSteps tbl none)).take j)).2,
      by simpa [interruptedR, readRevisionR, RDb.work, RDb.ddl, RDb.close] using rowsOf_runStmtsR d _ t, ?_⟩
    intro c c' ht r hr v hv
    have ht' : logTrack t (runStmtsR d ((stmtsOf (getSteps tbl none)).take j)).2 c = some c' := by
      simpa [interruptedDurableLog, interruptedR, readRevisionR, RDb.work, RDb.ddl, RDb.close] using ht
    exact cell_tracked d _ t c c' hd r hr v hv ht'
  | row rid =>
    refine ⟨logOnRow t (runStmtsR d ((stmtsOf (getSteps tbl rid)).take j)).2,
      by simpa [interruptedR, readRevisionR, RDb.work, RDb.ddl, RDb.close] using rowsOf_runStmtsR d _ t, ?_⟩
    intro c c' ht r hr v hv
    have ht' : logTrack t (runStmtsR d ((stmtsOf (getSteps tbl rid)).take j)).2 c = some c' := by
      simpa [interruptedDurableLog, interruptedR, readRevisionR, RDb.work, RDb.ddl, RDb.close] using ht
    exact cell_tracked d _ t c c' hd r hr v hv ht'

/-- an interrupted open followed by any history of opens: still the old rows, old values unchanged -/
theorem interrupted_then_opens_rows_preserved (tbl : Table) (orm : Schema) (hw : tbl.WF) (hne : tbl.steps ≠ [])
    (s : RStore) (hd : wfData s.data = true) (t : String) (j : Nat) (c0 : Bool) (h : List Bool) :
    ∀ x ∈ runHistoryR Cfg.fixed tbl orm (some (interruptedR tbl s j).1) (c0 :: h),
      ∃ f : Row → Row, rowsOf x.1.data t = (rowsOf s.data t).map f ∧
        ∀ c, (∀ st ∈ stmtsOf tbl.steps, st.removes t c = false) →
          ∀ r ∈ rowsOf s.data t, ∀ v, cellOf r c = some v → cellOf (f r) c = some v := by
  intro x hx
  obtain ⟨hwf, f1, hf1, hp1⟩ := interrupted_rows_preserved tbl s hd t j
  obtain ⟨f2, hf2, hp2⟩ := rows_preserved tbl orm hw hne _ hwf t c0 h x hx
  refine ⟨f2 ∘ f1, by rw [hf2, hf1, List.map_map], ?_⟩
  intro c hrem r hr v hv
  exact hp2 c hrem (f1 r) (by rw [hf1]; exact List.mem_map_of_mem hr) v (hp1 c hrem r hr v hv)

/-! ### the regenerated step list -/

/-- the `revision`-table states a database of shape `v` is found in: no table, no row, `NULL`, an unknown id,
the pinned id of its own revision -/
def revStates (k : Nat) : List Rev :=
  [.noTable, .empty, .row none, .row (some "0123456789abcdef0123456789abcdef")] ++
    (if h : 0 < k ∧ k - 1 < revIds.length then [.row (some (revIds[k - 1]'h.2))] else [])


/-- the only column that is the target of a rename (every other new column reads `NULL` on old rows) -/
theorem rename_targets : renameTargets steps = [("object", "latent_samples_for_id")] := by decide

/-- **every value of every mapped column survives**: instance of `rows_preserved` for the repository's step
list and mapping -/
theorem mapped_values_survive (s : RStore) (hd : wfData s.data = true) (c0 : Bool) (h : List Bool) :
    ∀ tc ∈ orm.flatMap (fun (t, cs) => cs.map fun c => (t, c)),
      ∀ x ∈ runHistoryR Cfg.fixed table orm (some s) (c0 :: h),
        ∃ f : Row → Row, rowsOf x.1.data tc.1 = (rowsOf s.data tc.1).map f ∧
          ∀ r ∈ rowsOf s.data tc.1, ∀ v, cellOf r tc.2 = some v → cellOf (f r) tc.2 = some v := by
  intro tc htc x hx
  obtain ⟨f, hf, hp⟩ := rows_preserved table orm table_wf steps_nonempty s hd tc.1 c0 h x hx
  exact ⟨f, hf, hp tc.2 (orm_columns_never_removed tc htc)⟩

/-- every historic shape that still has `object.latent_variables_for_id` and not yet the new name, in every
state of its `revision` table: the first open moves the values to `latent_samples_for_id` … -/
theorem latent_column_tracked :
    ∀ v ∈ variants, ∀ rev ∈ revStates v.2.1, ∀ c : Bool,
      hasCol v.2.2 "object" "latent_variables_for_id" = true →
      hasCol v.2.2 "object" "latent_samples_for_id" = false →
      logTrack "object" (session Cfg.fixed table orm (some { schema := v.2.2, rev := rev }) c).2
        "latent_variables_for_id" = some "latent_samples_for_id" := by
  decide +kernel

/-- … so **latent samples stored under the old column name stay readable**: whatever rows such a database
holds, after any history of opens every `object` row reads under `latent_samples_for_id` what it held under
`latent_variables_for_id` -/
theorem latent_values_survive_rename (s : RStore) (hd : wfData s.data = true)
    (v : String × Nat × Schema) (hv : v ∈ variants) (hs : schemaOf s.data = v.2.2)
    (hrev : s.rev ∈ revStates v.2.1)
    (hold : hasCol v.2.2 "object" "latent_variables_for_id" = true)
    (hnew : hasCol v.2.2 "object" "latent_samples_for_id" = false) (c0 : Bool) (h : List Bool) :
    ∀ x ∈ runHistoryR Cfg.fixed table orm (some s) (c0 :: h),
      ∃ f : Row → Row, rowsOf x.1.data "object" = (rowsOf s.data "object").map f ∧
        ∀ r ∈ rowsOf s.data "object", ∀ w, cellOf r "latent_variables_for_id" = some w →
          cellOf (f r) "latent_samples_for_id" = some w := by
  intro x hx
  obtain ⟨f, hf, hp⟩ := values_follow_renames table orm table_wf steps_nonempty s hd "object" c0 h x hx
  refine ⟨f, hf, hp "latent_variables_for_id" "latent_samples_for_id" ?_⟩
  rw [log_independent_of_rows]
  have := latent_column_tracked v hv s.rev hrev c0 hold hnew
  simpa [RStore.store, hs] using this

/-- `latent_values_survive_rename` has instances: shape `A7` -/
example : ∃ v ∈ variants, v.1 = "A7" ∧ hasCol v.2.2 "object" "latent_variables_for_id" = true ∧
    hasCol v.2.2 "object" "latent_samples_for_id" = false ∧ wfData (sampleData v.2.2) = true ∧
    schemaOf (sampleData v.2.2) = v.2.2 := by decide

/-- non-vacuity and a concrete reading of the row theorems: shape `A7` (column `latent_variables_for_id`)
stamped with revision 7, one row per table holding the column's name in every column. After `open; close;
open; commit; close` the `object` row reads its old values under the old names, the old value of the renamed
column under the new name, nothing under the stale name; `named_instance` got `instance_id = NULL`. -/
example : ∃ v ∈ variants, v.1 = "A7" ∧
    let s : RStore := { data := sampleData v.2.2, rev := .row (some (table.revIds[6]'(by decide))) }
    wfData s.data = true ∧
    ∀ x ∈ runHistoryR Cfg.fixed table orm (some s) [false, true],
      columnOf x.1.data "object" "class_path" = [some (some "class_path")] ∧
      columnOf x.1.data "object" "latent_samples_for_id" = [some (some "latent_variables_for_id")] ∧
      columnOf x.1.data "object" "latent_variables_for_id" = [none] ∧
      columnOf x.1.data "named_instance" "instance_id" = [some none] ∧
      columnOf x.1.data "fit" "name" = [some (some "name")] := by
  decide

/-- `new_columns_null` has instances: the oldest shape lacks `fit.name`, which is no rename target -/
example : hasCol (schemaOf (sampleData base)) "fit" "name" = false ∧ ("fit", "name") ∉ renameTargets steps ∧
    columnOf (sessionR Cfg.fixed table orm (some { data := sampleData base, rev := .noTable }) false).1.data
      "fit" "name" = [some none] := by
  decide

/-- an interrupted open of a database without `revision` table loses its statements (rolled back with the
`INSERT` that opened the transaction); with a `revision` table they are durable one by one -/
example :
    columnOf (interruptedR table { data := sampleData base, rev := .noTable } 2).1.data "fit" "name" = [none] ∧
    columnOf (interruptedR table { data := sampleData base, rev := .empty } 2).1.data "fit" "name" = [some none] ∧
    columnOf (interruptedR table { data := sampleData base, rev := .empty } 2).1.data "fit" "id" = [some (some "id")] := by
  decide

/-! ## Part 5 — "all current features work on it" (`AFModel/MigrateFeat.lean`: `usable`)

A feature is usable on a schema when every table/column of the mapped classes it goes through exists
(`Generated.features`, regenerated from the mappers; the harness uses each feature on real files, migrated and
not, and compares). -/

/-- **a feature that works keeps working**: a migration (any statements, from any schema) that does not rename
away or drop a column the feature needs leaves it usable -/
theorem usable_stays (s : Schema) (l : List Stmt) (needs : Needs) (hu : usable s needs = true)
    (hr : ∀ tc ∈ needs, ∀ st ∈ l, st.removes tc.1 tc.2 = false) :
    usable (runStmts s l).1 needs = true := by
  simp only [usable, List.all_eq_true] at hu ⊢
  intro tc htc
  exact hasCol_runStmts s l tc.1 tc.2 (hu tc htc) (hr tc htc)

/-- a schema that holds the whole mapping supports every feature whose needs lie inside the mapping -/
theorem usable_of_covers (s orm : Schema) (needs : Needs) (hc : covers s orm = true)
    (hn : ∀ tc ∈ needs, tc ∈ columnsOf orm) : usable s needs = true := by
  simp only [usable, List.all_eq_true]
  intro tc htc
  have hm := hn tc htc
  simp only [columnsOf, List.mem_flatMap, List.mem_map] at hm
  obtain ⟨p, hp, c, hcm, hpc⟩ := hm
  simp only [covers, List.all_eq_true] at hc
  have := hc p hp c hcm
  rw [← hpc]
  exact this

/-- **why attempting a step again is harmless**: whether `ALTER TABLE t ADD c` succeeds or fails with "duplicate
column", afterwards the table has the column - for every schema in which the table exists -/
theorem add_column_ensures (s : Schema) (t c : String) (ht : (colsOf s t).isSome = true) :
    hasCol (runStmts s [.addColumn t c]).1 t c = true := by
  cases h : colsOf s t with
  | none => simp [h] at ht
  | some cs =>
    by_cases hc : c ∈ cs
    · simp [runStmts, applyStmt, h, hc, hasCol]
    · simp [runStmts, applyStmt, h, hc, hasCol, colsOf_mapTable_same]

/-- … and whether `CREATE TABLE t` succeeds or fails with "already exists", afterwards the table exists -/
theorem create_table_ensures (s : Schema) (t : String) (cols : List String) :
    (colsOf (runStmts s [.createTable t cols]).1 t).isSome = true := by
  cases h : colsOf s t with
  | some cs => simp [runStmts, applyStmt, h]
  | none =>
    simp only [runStmts, applyStmt, h]
    induction s with
    | nil => simp [colsOf]
    | cons p rest ih =>
      obtain ⟨n, cs⟩ := p
      by_cases hn : n = t
      · simp [colsOf, hn]
      · simp only [colsOf, hn, if_false] at h
        simp only [List.cons_append, colsOf, hn, if_false]
        exact ih h

/-- what the features need is part of the mapping (so `steps_cover_orm` speaks about them) -/
theorem features_within_mapping : ∀ f ∈ features, ∀ tc ∈ f.2, tc ∈ columnsOf orm := by decide

/-- no step renames away or drops anything a feature needs -/
theorem feature_columns_never_removed :
    ∀ f ∈ features, ∀ tc ∈ f.2, ∀ st ∈ stmtsOf steps, st.removes tc.1 tc.2 = false := by decide

/-- **every feature works after the first open** of every historic database shape in every state of its
`revision` table, whether or not the caller commits -/
theorem features_usable_after_open :
    ∀ v ∈ variants, ∀ rev ∈ revStates v.2.1, ∀ c : Bool,
      allUsable (session Cfg.fixed table orm (some { schema := v.2.2, rev := rev }) c).1.schema features = true := by
  decide +kernel

/-- … and after any number of further opens (fixed point) -/
theorem features_usable_after_any_history (v : String × Nat × Schema) (hv : v ∈ variants) (rev : Rev)
    (hrev : rev ∈ revStates v.2.1) (c : Bool) (h : List Bool) :
    ∀ x ∈ runHistory Cfg.fixed table orm (some { schema := v.2.2, rev := rev }) (c :: h),
      allUsable x.1.schema features = true := by
  intro x hx
  have hx' : x = session Cfg.fixed table orm (some { schema := v.2.2, rev := rev }) c ∨
      x ∈ (runHistory Cfg.fixed table orm (some { schema := v.2.2, rev := rev }) (c :: h)).tail := by
    simpa [runHistory] using hx
  rcases hx' with rfl | hx'
  · exact features_usable_after_open v hv rev hrev c
  · rw [history_fixed_point table orm table_wf steps_nonempty _ c h x hx']
    exact features_usable_after_open v hv rev hrev c

/-- a database created by `open_database` supports every feature -/
theorem features_usable_on_fresh (c : Bool) :
    allUsable (session Cfg.fixed table orm none c).1.schema features = true := by
  rw [fresh_db_stamped]
  decide

/-- also after an interrupted first open followed by a complete one -/
theorem features_usable_after_interrupted_open :
    ∀ v ∈ variants, ∀ j ∈ List.range (stmtsOf steps).length.succ,
      allUsable (schemaAfter (runStmts v.2.2 ((stmtsOf steps).take j)).1 steps) features = true ∧
      allUsable (schemaAfter (runStmts v.2.2 ((stmtsOf (steps.drop v.2.1)).take j)).1 (steps.drop v.2.1)) features
        = true := by
  decide +kernel

/-- **the migration is needed** (non-vacuity of the theorems above): on every historic shape older than
revision 8 *no* feature is usable before the open — the `Aggregator` cannot even load a fit, because the
polymorphic `object` table lacks `latent_samples_for_id` -/
theorem old_shapes_support_no_feature :
    ∀ v ∈ variants, v.2.1 < 8 → ∀ f ∈ features, usable v.2.2 f.2 = false := by decide

/-- shapes made by the pinned code at revision 8 lack exactly the named instances -/
example : ∃ v ∈ variants, v.1 = "A8" ∧
    (usableEach v.2.2 features).filter (fun p => !p.2) = [("named_instance", false)] := by decide

/-- `usable_stays` has instances: JSON storage on the revision-8 shape through the remaining steps -/
example : ∃ v ∈ variants, v.1 = "A8" ∧ ∃ f ∈ features, f.1 = "json" ∧ usable v.2.2 f.2 = true ∧
    usable (runStmts v.2.2 (stmtsOf (steps.drop 8))).1 f.2 = true := by decide

end AF.C19
