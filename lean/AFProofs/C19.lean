import AFProofs.Lemmas.Migrate
import AFModel.Generated.C19

/-!
# C19 — opening an older database migrates it exactly once to the current schema

Subject: `AF.Migrate.session` / `runHistory` / `interrupted` (`AFModel/Migrate.lean`), the functions the driver
executes, instantiated by the driver with the step table `Generated.table` and the mapped schema
`Generated.orm` that `harness/tables_c19.py` regenerates from the repository before every build.

* Part 1 is generic: **any** step list with distinct step ids and distinct revision ids (`Table.WF`), **any**
  schema, **any** content of the `revision` table, **any** number of opens — behaviour of the repaired code
  (`Cfg.fixed`).
* Part 2 is about the concrete, regenerated table (`decide`): the hypotheses of part 1 hold for it, it extends
  the pinned history, and from every historic database shape it reaches the mapped schema with nothing stale
  left, also after an interrupted open.
* Part 3: the pinned commit (`Cfg.pinned`, first 8 steps) violates the property — refutation witnesses.
-/

namespace AF.C19
open AF.Migrate

/-! ## Part 1 — every step list -/

/-- A database stamped with the revision made of the first `k+1` steps still needs exactly the steps after
them (`Migrator.get_steps` compares prefix hashes, then filters by step id). -/
theorem get_steps_suffix (tbl : Table) (hw : tbl.WF) (k : Nat) (hk : k < tbl.revIds.length) :
    getSteps tbl (some tbl.revIds[k]) = tbl.steps.drop (k + 1) :=
  getSteps_stamped tbl hw k hk

/-- No stamp (no table, empty table, `NULL`) or an unknown stamp: every step is outstanding. -/
theorem get_steps_all_when_unstamped (tbl : Table) :
    getSteps tbl none = tbl.steps ∧ ∀ rid, rid ∉ tbl.revIds → getSteps tbl (some rid) = tbl.steps :=
  ⟨rfl, fun rid h => getSteps_unknown tbl rid h⟩

/-- **Exactly the missing steps, each once and in order.** Opening a database stamped with an earlier
revision attempts exactly the statements of the steps after that revision — once, in order — and, whether or
not the caller commits, the file afterwards holds their effect and the stamp of the current revision. -/
theorem migrate_from_prefix (tbl : Table) (orm : Schema) (hw : tbl.WF) (k : Nat)
    (hk : k + 1 < tbl.revIds.length) (s : Store) (hs : s.rev = .row (some (tbl.revIds[k]'(by omega))))
    (c : Bool) :
    (session Cfg.fixed tbl orm (some s) c).2.map (·.1) = stmtsOf (tbl.steps.drop (k + 1)) ∧
    (session Cfg.fixed tbl orm (some s) c).1.schema = schemaAfter s.schema (tbl.steps.drop (k + 1)) ∧
    (session Cfg.fixed tbl orm (some s) c).1.rev = .row (some (latestId tbl)) := by
  have hlen := hw.len
  have hne : tbl.steps ≠ [] := by
    intro h
    have : tbl.revIds.length = 0 := by rw [hlen, h]; rfl
    omega
  have hg : getSteps tbl (ridOf s.rev) = tbl.steps.drop (k + 1) := by
    rw [hs]; exact getSteps_stamped tbl hw k (by omega)
  have hnonempty : (tbl.steps.drop (k + 1)).isEmpty = false := by
    cases hd : tbl.steps.drop (k + 1) with
    | nil => have := List.drop_eq_nil_iff.mp hd; omega
    | cons _ _ => rfl
  rw [session_fixed tbl orm hne s c, hg]
  simp only [hnonempty, Bool.false_eq_true, if_false]
  and_intros <;> first | exact runStmts_attempted _ _ | rfl | trivial

/-- A database without a usable stamp: every statement is attempted once, in order (the ones whose effect is
already there fail and are skipped by SQLite), and the database is stamped. -/
theorem migrate_unstamped (tbl : Table) (orm : Schema) (hne : tbl.steps ≠ []) (s : Store)
    (hs : ridOf s.rev = none ∨ ∃ rid, ridOf s.rev = some rid ∧ rid ∉ tbl.revIds) (c : Bool) :
    (session Cfg.fixed tbl orm (some s) c).2.map (·.1) = stmtsOf tbl.steps ∧
    (session Cfg.fixed tbl orm (some s) c).1.schema = schemaAfter s.schema tbl.steps ∧
    (session Cfg.fixed tbl orm (some s) c).1.rev = .row (some (latestId tbl)) := by
  have hg : getSteps tbl (ridOf s.rev) = tbl.steps := by
    rcases hs with h | ⟨rid, h, hnot⟩
    · rw [h]; rfl
    · rw [h]; exact getSteps_unknown tbl rid hnot
  have hnonempty : tbl.steps.isEmpty = false := by
    cases hd : tbl.steps with
    | nil => exact absurd hd hne
    | cons _ _ => rfl
  rw [session_fixed tbl orm hne s c, hg]
  simp only [hnonempty, Bool.false_eq_true, if_false]
  and_intros <;> first | exact runStmts_attempted _ _ | rfl | trivial

/-- **A database stamped with the current revision is not touched.** -/
theorem open_current_noop (tbl : Table) (orm : Schema) (hw : tbl.WF) (hne : tbl.steps ≠ []) (s : Store)
    (hs : s.rev = .row (some (latestId tbl))) (c : Bool) :
    session Cfg.fixed tbl orm (some s) c = (s, []) := by
  rw [session_fixed tbl orm hne s c, hs]
  simp [ridOf, getSteps_latest tbl hw hne]

/-- After any open of any database the file is stamped with the current revision. -/
theorem every_open_ends_current (tbl : Table) (orm : Schema) (hw : tbl.WF) (hne : tbl.steps ≠ [])
    (file : Option Store) (c : Bool) :
    (session Cfg.fixed tbl orm file c).1.rev = .row (some (latestId tbl)) := by
  cases file with
  | none => rw [session_fixed_fresh]
  | some s =>
    rw [session_fixed tbl orm hne s c]
    by_cases h : (getSteps tbl (ridOf s.rev)).isEmpty
    · simp only [h, if_true]
      have hr := getSteps_nil tbl hw hne (ridOf s.rev) (List.isEmpty_iff.mp h)
      cases hrev : s.rev with
      | noTable => simp [hrev, ridOf] at hr
      | empty => simp [hrev, ridOf] at hr
      | row r => simp [hrev, ridOf] at hr; rw [hr]
    · simp [h]

/-- **Fixed point after the first open**: whatever the database (any schema, any stamp, or no file at all)
and whatever the callers do (commit or not), the second open attempts nothing and changes nothing. -/
theorem open_fixed_point (tbl : Table) (orm : Schema) (hw : tbl.WF) (hne : tbl.steps ≠ [])
    (file : Option Store) (c₁ c₂ : Bool) :
    session Cfg.fixed tbl orm (some (session Cfg.fixed tbl orm file c₁).1) c₂
      = ((session Cfg.fixed tbl orm file c₁).1, []) :=
  open_current_noop tbl orm hw hne _ (every_open_ends_current tbl orm hw hne file c₁) c₂

/-- … and so does every later one: any number of further opens. -/
theorem reopen_fixed_point (tbl : Table) (orm : Schema) (hw : tbl.WF) (hne : tbl.steps ≠ [])
    (file : Option Store) (c : Bool) (n : Nat) :
    reopen Cfg.fixed tbl orm (session Cfg.fixed tbl orm file c).1 n = (session Cfg.fixed tbl orm file c).1 := by
  induction n with
  | zero => rfl
  | succ n ih =>
    simp only [reopen]
    rw [open_fixed_point tbl orm hw hne file c false]
    exact ih

/-- the same for arbitrary histories `open [commit] close`: every use after the first is `(same file, no
statement)` -/
theorem history_fixed_point (tbl : Table) (orm : Schema) (hw : tbl.WF) (hne : tbl.steps ≠ [])
    (file : Option Store) (c : Bool) (h : List Bool) :
    ∀ x ∈ (runHistory Cfg.fixed tbl orm file (c :: h)).tail, x = ((session Cfg.fixed tbl orm file c).1, []) := by
  simp only [runHistory, List.tail_cons]
  have key : ∀ (s : Store), s.rev = .row (some (latestId tbl)) →
      ∀ x ∈ runHistory Cfg.fixed tbl orm (some s) h, x = (s, []) := by
    induction h with
    | nil => intro s _ x hx; simp [runHistory] at hx
    | cons c' rest ih =>
      intro s hs x hx
      simp only [runHistory, open_current_noop tbl orm hw hne s hs c', List.mem_cons] at hx
      rcases hx with hx | hx
      · exact hx
      · exact ih s hs x hx
  exact key _ (every_open_ends_current tbl orm hw hne file c)

/-- **A new database is created at the current revision and stamped**, so that its second open is already
a no-op. -/
theorem fresh_db_stamped (tbl : Table) (orm : Schema) (c : Bool) :
    session Cfg.fixed tbl orm none c = ({ schema := orm, rev := .row (some (latestId tbl)) }, []) :=
  session_fixed_fresh tbl orm c

/-- **Existing data stays readable**: a migration (any statements, from any schema) keeps every column that
no statement renames away or drops; tables are never removed. -/
theorem readable_after (s : Schema) (l : List Stmt) (t c : String)
    (hc : hasCol s t c = true) (hr : ∀ st ∈ l, st.removes t c = false) :
    hasCol (runStmts s l).1 t c = true :=
  hasCol_runStmts s l t c hc hr

/-- An interrupted open (process killed after `j` statements) never stamps, so the next open finishes the
job: afterwards the file is stamped current, and (previous theorems) stays fixed. -/
theorem interrupted_open_recovers (tbl : Table) (orm : Schema) (hw : tbl.WF) (hne : tbl.steps ≠ [])
    (s : Store) (j : Nat) (c : Bool) :
    (session Cfg.fixed tbl orm (some (interrupted tbl s j).1) c).1.rev = .row (some (latestId tbl)) :=
  every_open_ends_current tbl orm hw hne _ c

/-- the interruption itself leaves the stamp as it was (or an empty `revision` table if there was none): it
can not make a half-migrated database look current -/
theorem interrupted_keeps_stamp (tbl : Table) (s : Store) (j : Nat) :
    ridOf (interrupted tbl s j).1.rev = ridOf s.rev := by
  obtain ⟨sch, rev⟩ := s
  cases rev <;>
    simp [interrupted, readRevision, initRevisionTable, Db.work, Db.ddl, Db.dml, Db.close, ridOf]

/-! ## Part 2 — the step list and the mapping of the repository, as regenerated for this build -/

open Generated

/-- step ids are distinct, revision (prefix) ids are distinct, one revision per step -/
theorem table_wf : table.WF := by decide

theorem steps_nonempty : table.steps ≠ [] := by decide

/-- the step list is append-only with respect to the pinned history: every revision id a database in the
field may carry is still the id of the same prefix -/
theorem history_is_prefix : revIds.take historyRevIds.length = historyRevIds := by decide

/-- no step renames away or drops a column the mapped classes use: with `readable_after`, whatever mapped
column a database holds before an open it holds afterwards -/
theorem orm_columns_never_removed :
    ∀ tc ∈ orm.flatMap (fun (t, cs) => cs.map fun c => (t, c)),
      ∀ st ∈ stmtsOf steps, st.removes tc.1 tc.2 = false := by decide

/-- **steps cover the mapping**, from the oldest schema: everything the mapped classes use exists after the
migration, and nothing stale is left -/
theorem steps_cover_orm : isCurrent (schemaAfter base steps) orm steps = true := by decide

/-- every historic shape, stamped with its pinned revision `k`: the missing steps `k+1..` bring it to the
current schema (naming, JSON/array/HDU tables, latent-sample and named-instance columns all present) -/
theorem stamped_variants_reach_current :
    ∀ v ∈ variants, isCurrent (schemaAfter v.2.2 (steps.drop v.2.1)) orm steps = true := by decide

/-- every historic shape without usable stamp: attempting every step gives the *same* schema as applying only
the missing ones (in particular no junk column), hence the current one -/
theorem unstamped_variants_same_outcome :
    ∀ v ∈ variants, schemaAfter v.2.2 steps = schemaAfter v.2.2 (steps.drop v.2.1) := by decide

/-- every historic shape stamped with its pinned revision, first open interrupted after `j` statements, then
opened again: current schema, nothing stale -/
theorem interrupted_stamped_variants_reach_current :
    ∀ v ∈ variants, ∀ j ∈ List.range (stmtsOf steps).length.succ,
      isCurrent (schemaAfter (runStmts v.2.2 ((stmtsOf (steps.drop v.2.1)).take j)).1 (steps.drop v.2.1))
        orm steps = true := by
  decide +kernel

/-- the same without usable stamp (every step attempted, twice) -/
theorem interrupted_unstamped_variants_reach_current :
    ∀ v ∈ variants, ∀ j ∈ List.range (stmtsOf steps).length.succ,
      isCurrent (schemaAfter (runStmts v.2.2 ((stmtsOf steps).take j)).1 steps) orm steps = true := by
  decide +kernel

/-! ## Part 3 — the pinned commit does not have the property -/

/-- the step list of the pinned commit -/
def pinnedTable : Table := ⟨steps.take 8, revIds.take 8⟩

/-- **never stamped**: with the pinned code a database whose `revision` table is empty (the state the pinned
code itself leaves behind) stays unstamped whatever the caller does, and every statement is attempted again
at every open — for every step list and schema. -/
theorem never_stamped_refuted (tbl : Table) (orm : Schema) (hne : tbl.steps ≠ []) (s : Store)
    (hs : s.rev = .empty) (c : Bool) :
    (session Cfg.pinned tbl orm (some s) c).1.rev = .empty ∧
    (session Cfg.pinned tbl orm (some s) c).2.map (·.1) = stmtsOf tbl.steps := by
  obtain ⟨sch, rev⟩ := s
  simp only at hs
  subst hs
  have h1 : (getSteps tbl none).isEmpty = false := by
    cases hd : tbl.steps with
    | nil => exact absurd hd hne
    | cons _ _ => simp [getSteps, hd]
  cases c <;>
    simp [session, openDatabase, migrate, readRevision, writeRevision, setRow, Db.work, Db.ddl, Db.dml,
      Db.commit, Db.close, Cfg.pinned, h1, runStmts_attempted] <;> rfl

/-- the pinned code does not stamp (or even commit) the migration of a database without `revision` table
unless the caller commits: nothing but an empty `revision` table is durable -/
theorem pinned_open_leaves_nothing (tbl : Table) (orm : Schema) (hne : tbl.steps ≠ []) (sch : Schema) :
    (session Cfg.pinned tbl orm (some { schema := sch, rev := .noTable }) false).1
      = { schema := sch, rev := .empty } := by
  have h1 : (getSteps tbl none).isEmpty = false := by
    cases hd : tbl.steps with
    | nil => exact absurd hd hne
    | cons _ _ => simp [getSteps, hd]
  simp [session, openDatabase, migrate, readRevision, initRevisionTable, writeRevision, setRow, Db.work,
    Db.ddl, Db.dml, Db.close, Cfg.pinned, h1]

/-- **junk column**: a database created by the pinned code's own `create_all` (never stamped) gets the column
`object.latent_variables_for_id` added when it is opened again -/
theorem junk_column_refuted :
    ∃ v ∈ variants, v.1 = "F" ∧
      hasCol (session Cfg.pinned pinnedTable orm (some { schema := v.2.2, rev := .empty }) false).1.schema
        "object" "latent_variables_for_id" = true := by decide

/-- **steps do not cover the mapping** at the pinned commit: migrating the oldest schema with the 8 pinned
steps leaves `named_instance` without the mapped column `instance_id` -/
theorem steps_cover_orm_refuted_at_pinned :
    covers (schemaAfter base pinnedTable.steps) orm = false ∧
    hasCol (schemaAfter base pinnedTable.steps) "named_instance" "instance_id" = false := by decide

/-- a new database is not stamped by the pinned code -/
theorem fresh_db_unstamped_at_pinned (tbl : Table) (orm : Schema) (c : Bool) :
    (session Cfg.pinned tbl orm none c).1.rev = .noTable := by
  cases c <;> simp [session, openDatabase, Db.commit, Db.close, Cfg.pinned]

/-! ## non-vacuity -/

/-- `migrate_from_prefix` applies to a concrete historic database: shape `A3` stamped with revision 3 -/
example : ∃ v ∈ variants, v.1 = "A3" ∧ 2 + 1 < table.revIds.length ∧
    (session Cfg.fixed table orm (some { schema := v.2.2, rev := .row (some (table.revIds[2]'(by decide))) }) false).2.length = 7 := by
  decide

/-- the fixed point is reached from a file that does not exist, too -/
example : (runHistory Cfg.fixed table orm none [false, true, false]).map (·.2) = [[], [], []] := by decide

/-- `never_stamped_refuted` has instances: the oldest schema with an empty `revision` table -/
example : (session Cfg.pinned pinnedTable orm (some { schema := base, rev := .empty }) true).1.rev = .empty := by
  decide

end AF.C19
